(* C10 - model of the client reconnection policy of python-socketio.
   Transcribed from src/socketio/client.py (= async_client.py modulo await):
     connect, disconnect, shutdown, _handle_disconnect, _handle_error, _handle_connect,
     _handle_reconnect, _handle_eio_connect, _handle_eio_disconnect
   and from engineio/client.py (state transitions of connect / disconnect / transport
   error / CLOSE packet and the moment the 'disconnect' handler is called).
   Definitions only; proofs are in ReconnectProofs.v.

   Delays are rationals (Q).  random.random() is an oracle: the values r_k are inputs. *)
From Coq Require Import List Bool Arith ZArith QArith.
Import ListNotations.
Local Open Scope nat_scope.

(* ------------------------------------------------------------------ *)
(* Parameters of the client (constructor arguments)                    *)
(* ------------------------------------------------------------------ *)
Record params := mkParams {
  reconnection : bool;      (* reconnection            *)
  attempts     : Z;         (* reconnection_attempts; tested by truthiness: 0 = no limit *)
  delay0       : Q;         (* reconnection_delay      *)
  delay_max    : Q;         (* reconnection_delay_max  *)
  rfactor      : Q;         (* randomization_factor    *)
  fixed        : bool       (* false = pinned tree: `_reconnect_task = None` only on the success
                               path of _handle_reconnect; true = the proposed fix: on every exit path *)
}.

(* ------------------------------------------------------------------ *)
(* (2) _handle_reconnect as a total function of a fault script         *)
(* ------------------------------------------------------------------ *)

(*  delay = current_delay
    current_delay *= 2
    if delay > self.reconnection_delay_max:
        delay = self.reconnection_delay_max
    delay += self.randomization_factor * (2 * random.random() - 1)
   returns (the timeout handed to the abort wait, the new current_delay).
   The cap is applied BEFORE the jitter; the jittered value is NOT what gets doubled. *)
Definition next_wait (p : params) (current_delay r : Q) : Q * Q :=
  let delay := current_delay in
  let current_delay := (current_delay * 2)%Q in
  let delay := if Qle_bool delay (delay_max p) then delay else delay_max p in
  let delay := (delay + rfactor p * (2 * r - 1))%Q in
  (delay, current_delay).

Inductive decision := DSuccess | DGiveUp | DContinue.
(*  try: self.connect(...)  except (ConnectionError, ValueError): pass
    else: ... self._reconnect_task = None; break
    if self.reconnection_attempts and attempt_count >= self.reconnection_attempts: ... break *)
Definition after_attempt (p : params) (attempt_count : nat) (ok : bool) : decision :=
  if ok then DSuccess
  else if negb (Z.eqb (attempts p) 0) && (attempts p <=? Z.of_nat attempt_count)%Z then DGiveUp
  else DContinue.

(* what happens at the k-th pass through the loop: the abort event fires during the wait, or
   the wait times out and connect() succeeds / raises ConnectionError or ValueError *)
Inductive wstep := WAbort | WTry (ok : bool).
Definition script := list (Q * wstep).          (* (r_k, what happens) *)
Inductive tstep := TAbort | TFail | TOk.        (* TAbort: no attempt made *)
Inductive lout := LReconnected | LGaveUp | LAborted | LRunning.   (* LRunning: script exhausted *)

Fixpoint reconnect_loop (p : params) (attempt_count : nat) (current_delay : Q) (s : script)
  : list (Q * tstep) * lout :=
  match s with
  | [] => ([], LRunning)
  | (r, w) :: s' =>
      let '(delay, current_delay) := next_wait p current_delay r in
      match w with
      | WAbort => ([(delay, TAbort)], LAborted)
      | WTry ok =>
          let attempt_count := S attempt_count in
          match after_attempt p attempt_count ok with
          | DSuccess => ([(delay, TOk)], LReconnected)
          | DGiveUp => ([(delay, TFail)], LGaveUp)
          | DContinue =>
              let '(tr, o) := reconnect_loop p attempt_count current_delay s' in
              ((delay, TFail) :: tr, o)
          end
      end
  end.

(*  attempt_count = 0 ; current_delay = self.reconnection_delay ; while True: ... *)
Definition handle_reconnect (p : params) (s : script) : list (Q * tstep) * lout :=
  reconnect_loop p 0 (delay0 p) s.

Definition waits (tr : list (Q * tstep)) : list Q := map fst tr.
Definition is_attempt (x : Q * tstep) : bool := match snd x with TAbort => false | _ => true end.
Definition n_attempts (tr : list (Q * tstep)) : nat := List.length (filter is_attempt tr).
Definition is_ok (x : Q * tstep) : bool := match snd x with TOk => true | _ => false end.

(* bookkeeping of _handle_reconnect on its exit paths (what the machine below does with it):
   reconnecting_clients: append at entry, remove on every exit path;
   _reconnect_task = None: pinned tree only on LReconnected. *)
Definition clears_task (p : params) (o : lout) : bool :=
  match o with
  | LReconnected => true
  | LGaveUp | LAborted => fixed p
  | LRunning => false
  end.
(* `__disconnect_final` is triggered for every connection namespace on LGaveUp and LAborted *)
Definition triggers_final (o : lout) : bool :=
  match o with LGaveUp | LAborted => true | _ => false end.

(* the reference delay of the property text: min(d * 2^k, dmax), k = 0 for the first wait *)
Fixpoint pow2 (k : nat) : Q := match k with O => 1%Q | S k' => (2 * pow2 k')%Q end.
Definition cap (p : params) (x : Q) : Q := if Qle_bool x (delay_max p) then x else delay_max p.
Definition ideal (p : params) (k : nat) : Q := cap p (delay0 p * pow2 k)%Q.

(* ------------------------------------------------------------------ *)
(* (1)+(3) the client-level state machine                              *)
(* ------------------------------------------------------------------ *)
Definition ns := nat.                      (* namespace token; 0 is '/' *)
Bind Scope nat_scope with ns.
Record cargs := mkArgs { a_url : nat; a_headers : nat; a_auth : nat; a_transports : nat; a_path : nat }.

Inductive eio_state := EDisc | EConn | EDisconnecting.          (* eio.state *)
Inductive reason := RClient | RServer | RTransport.             (* engineio.Client.reason *)
Inductive hname := HConnect | HDisconnect | HConnectError | HFinal.   (* HFinal = '__disconnect_final' *)
Inductive outcome := Reconnected | GaveUp | Aborted.
Inductive callres := ROk | RConnectionError | RValueError | ROther.   (* ROther: never produced by the model *)

Inductive eff :=
| FRandom                                         (* random.random() called *)
| FWait (q : Q)                                   (* _reconnect_abort.wait(q) / wait_for(_reconnect_abort.wait(), q) *)
| FEioConnect (url headers transports path : nat) (* eio.connect(url, headers=, transports=, engineio_path=) *)
| FSendConnect (n : ns) (auth : nat)              (* CONNECT packet handed to eio.send *)
| FSendDisconnect (n : ns)                        (* DISCONNECT packet handed to eio.send *)
| FEioDisconnect (abort : bool)                   (* eio.disconnect(abort=) called by socketio *)
| FHandler (h : hname) (n : ns) (r : option reason)   (* application handler invoked *)
| FSpawn (id : nat)                               (* start_background_task(self._handle_reconnect) *)
| FTaskEnd (id : nat) (o : outcome)               (* _handle_reconnect returned (outcome is ghost) *)
| FResult (r : callres)                           (* how connect() returned to the application *)
| FEmit (ok : bool)                               (* emit() returned (true) / raised BadNamespaceError (false) *)
| FSendEvent (n : ns) (id : nat)                  (* EVENT packet with ack id handed to eio.send *)
| FCallback (k : nat)                             (* the callback given to the k-th emit-with-callback was invoked *)
| FLost                                           (* environment: the transport was connected when it was lost *)
| FOther.                                         (* anything else an observer may see; never produced by the model *)

(* a live reconnect task, blocked in its abort wait.  t_count = attempt_count,
   t_cur = current_delay (already doubled for the next pass) *)
Record task := mkTask { t_id : nat; t_count : nat; t_cur : Q }.

Record state := mkState {
  connected : bool;           (* self.connected *)
  est       : eio_state;      (* self.eio.state *)
  nss       : list ns;        (* keys of self.namespaces, insertion order *)
  args      : cargs;          (* connection_url/_headers/_auth/_transports, socketio_path *)
  cns       : list ns;        (* self.connection_namespaces *)
  rtask     : option nat;     (* self._reconnect_task (None / the task object, identified by its id) *)
  aflag     : bool;           (* flag of self._reconnect_abort *)
  rcl       : nat;            (* occurrences of self in base_client.reconnecting_clients *)
  tasks     : list task;      (* reconnect tasks that have not returned yet *)
  next_id   : nat;            (* ghost: number of tasks started so far *)
  cbs       : list (ns * (nat * list (nat * nat)));
                              (* self.callbacks: namespace -> (next value of the itertools.count kept under
                                 key 0, [(ack id, callback)]) *)
  next_cb   : nat             (* ghost: number of emits with a callback so far (names the callbacks) *)
}.

Definition init : state :=
  mkState false EDisc [] (mkArgs 0 0 0 0 0) [] None false 0 [] 0 [] 0.

Definition set_connected (st : state) (b : bool) :=
  mkState b (est st) (nss st) (args st) (cns st) (rtask st) (aflag st) (rcl st) (tasks st) (next_id st) (cbs st) (next_cb st).
Definition set_est (st : state) (e : eio_state) :=
  mkState (connected st) e (nss st) (args st) (cns st) (rtask st) (aflag st) (rcl st) (tasks st) (next_id st) (cbs st) (next_cb st).
Definition set_nss (st : state) (l : list ns) :=
  mkState (connected st) (est st) l (args st) (cns st) (rtask st) (aflag st) (rcl st) (tasks st) (next_id st) (cbs st) (next_cb st).
Definition set_conn_args (st : state) (a : cargs) (l : list ns) :=
  mkState (connected st) (est st) (nss st) a l (rtask st) (aflag st) (rcl st) (tasks st) (next_id st) (cbs st) (next_cb st).
Definition set_rtask (st : state) (r : option nat) :=
  mkState (connected st) (est st) (nss st) (args st) (cns st) r (aflag st) (rcl st) (tasks st) (next_id st) (cbs st) (next_cb st).
Definition set_aflag (st : state) (b : bool) :=
  mkState (connected st) (est st) (nss st) (args st) (cns st) (rtask st) b (rcl st) (tasks st) (next_id st) (cbs st) (next_cb st).
Definition set_rcl (st : state) (n : nat) :=
  mkState (connected st) (est st) (nss st) (args st) (cns st) (rtask st) (aflag st) n (tasks st) (next_id st) (cbs st) (next_cb st).
Definition set_tasks (st : state) (l : list task) :=
  mkState (connected st) (est st) (nss st) (args st) (cns st) (rtask st) (aflag st) (rcl st) l (next_id st) (cbs st) (next_cb st).
Definition set_next_id (st : state) (n : nat) :=
  mkState (connected st) (est st) (nss st) (args st) (cns st) (rtask st) (aflag st) (rcl st) (tasks st) n (cbs st) (next_cb st).

Definition set_cbs (st : state) (c : list (ns * (nat * list (nat * nat)))) :=
  mkState (connected st) (est st) (nss st) (args st) (cns st) (rtask st) (aflag st) (rcl st) (tasks st)
          (next_id st) c (next_cb st).
Definition set_next_cb (st : state) (n : nat) :=
  mkState (connected st) (est st) (nss st) (args st) (cns st) (rtask st) (aflag st) (rcl st) (tasks st)
          (next_id st) (cbs st) n.

Definition is_conn (e : eio_state) : bool := match e with EConn => true | _ => false end.
Definition is_some {A} (o : option A) : bool := match o with Some _ => true | None => false end.
Definition mem (n : ns) (l : list ns) : bool := existsb (Nat.eqb n) l.
Definition remove_ns (n : ns) (l : list ns) : list ns := filter (fun m => negb (Nat.eqb n m)) l.
Definition subset (a b : list ns) : bool := forallb (fun n => mem n b) a.
Definition set_eq (a b : list ns) : bool := subset a b && subset b a.   (* set(a) == set(b) *)
Fixpoint remove_nth {A} (i : nat) (l : list A) : list A :=
  match l, i with
  | [], _ => []
  | _ :: r, O => r
  | x :: r, S j => x :: remove_nth j r
  end.
Fixpoint replace_nth {A} (i : nat) (y : A) (l : list A) : list A :=
  match l, i with
  | [], _ => []
  | _ :: r, O => y :: r
  | x :: r, S j => x :: replace_nth j y r
  end.

Definition finals (l : list ns) : list eff := map (fun n => FHandler HFinal n None) l.

(* ---- (1) _handle_eio_disconnect(reason) ----
     will_reconnect = self.reconnection and self.eio.state == 'connected'
     if self.connected:
         for n in self.namespaces:
             self._trigger_event('disconnect', n, reason)
             if not will_reconnect: self._trigger_event('__disconnect_final', n)
         self.namespaces = {} ; self.connected = False
     self.callbacks = {}                                   (unconditionally)
     self._binary_packet = None ; self.sid = None          (not C10 state)
     if will_reconnect and not self._reconnect_task:
         self._reconnect_task = self.start_background_task(self._handle_reconnect)
   Returns the id of the task it started, if any. *)
Definition will_reconnect (p : params) (st : state) : bool := reconnection p && is_conn (est st).

Definition handle_eio_disconnect (p : params) (st : state) (why : reason)
  : state * list eff * option nat :=
  let will := will_reconnect p st in
  let '(st0, e1) :=
    if connected st then
      (set_connected (set_nss st []) false,
       flat_map (fun n => FHandler HDisconnect n (Some why) ::
                          (if will then [] else [FHandler HFinal n None])) (nss st))
    else (st, []) in
  let st1 := set_cbs st0 [] in
  if will && negb (is_some (rtask st1)) then
    let id := next_id st1 in
    (set_next_id (set_rtask st1 (Some id)) (S id), e1 ++ [FSpawn id], Some id)
  else (st1, e1, None).

(* ---- engineio: disconnect(abort=..., reason=...) ----
     if self.state == 'connected':
         self.state = 'disconnecting'
         self._trigger_event('disconnect', reason or CLIENT_DISCONNECT)
         self.state = 'disconnected'
     self._reset()                       (state = 'disconnected')
   (a task started from here would begin after the call; will_reconnect is false on this path,
    which ReconnectProofs.eio_disconnect_never_spawns proves) *)
Definition eio_disconnect (p : params) (st : state) (why : reason) : state * list eff :=
  match est st with
  | EConn =>
      let '(st1, e1, _) := handle_eio_disconnect p (set_est st EDisconnecting) why in
      (set_est st1 EDisc, e1)
  | _ => (set_est st EDisc, [])
  end.

(* ---- Client.disconnect() ----
     for n in self.namespaces: self._send_packet(DISCONNECT, namespace=n)   (eio.send drops unless connected)
     self.eio.disconnect() *)
Definition api_disconnect (p : params) (st : state) : state * list eff :=
  let sends := if is_conn (est st) then map FSendDisconnect (nss st) else [] in
  let '(st1, e1) := eio_disconnect p st RClient in
  (st1, sends ++ FEioDisconnect false :: e1).

(* ---- what the server answers to the CONNECT packets ---- *)
Inductive reply := RAccept | RRefuse | RSilent.
Inductive conn_outcome :=
| OConnErr                        (* eio.connect raises engineio.exceptions.ConnectionError *)
| OReplies (rs : list reply).     (* transport connects; per connection namespace: CONNECT / CONNECT_ERROR / nothing *)

(* _handle_eio_connect: for n in connection_namespaces: send CONNECT(n, auth); the answers:
   _handle_connect(n):  if n not in self.namespaces: self.namespaces[n] = sid; trigger 'connect'
   _handle_error(n):    trigger 'connect_error'; if n in self.namespaces: del; if n == '/': self.namespaces = {} *)
Fixpoint connect_replies (auth : nat) (l : list ns) (rs : list reply) (cur : list ns)
  : list ns * list eff :=
  match l with
  | [] => (cur, [])
  | n :: rest =>
      let '(cur1, e1) :=
        match hd RAccept rs with
        | RAccept => if mem n cur then (cur, []) else (cur ++ [n], [FHandler HConnect n None])
        | RRefuse => ((if Nat.eqb n 0 then [] else remove_ns n cur), [FHandler HConnectError n None])
        | RSilent => (cur, [])
        end in
      let '(cur2, e2) := connect_replies auth rest (tl rs) cur1 in
      (cur2, FSendConnect n auth :: e1 ++ e2)
  end.

(* ---- Client.connect(url, headers, auth, transports, namespaces, socketio_path) (wait=True, retry=False) ----
     if self.connected: raise ConnectionError('Already connected')
     self.connection_* = ... ; self.namespaces = {}
     try: self.eio.connect(real_url, headers=, transports=, engineio_path=)       (ValueError unless state == 'disconnected')
     except engineio ConnectionError: trigger 'connect_error' for every connection namespace; raise ConnectionError
     wait until no more answers arrive
     if set(self.namespaces) != set(self.connection_namespaces):
         self.disconnect(); self.namespaces = {}; raise ConnectionError
     self.connected = True *)
Definition do_connect (p : params) (st : state) (a : cargs) (l : list ns) (o : conn_outcome)
  : state * list eff * callres :=
  if connected st then (st, [], RConnectionError)
  else
    let st1 := set_nss (set_conn_args st a l) [] in
    let call := FEioConnect (a_url a) (a_headers a) (a_transports a) (a_path a) in
    match est st with
    | EDisc =>
        match o with
        | OConnErr => (st1, call :: map (fun n => FHandler HConnectError n None) l, RConnectionError)
        | OReplies rs =>
            let '(cur, e) := connect_replies (a_auth a) l rs [] in
            let st2 := set_nss (set_est st1 EConn) cur in
            if set_eq cur l then (set_connected st2 true, call :: e, ROk)
            else
              let '(st3, e3) := api_disconnect p st2 in
              (set_nss st3 [], call :: e ++ e3, RConnectionError)
        end
    | _ => (st1, [call], RValueError)
    end.
Definition attempt_ok (a : cargs) (l : list ns) (o : conn_outcome) : bool :=
  match o with
  | OConnErr => false
  | OReplies rs => set_eq (fst (connect_replies (a_auth a) l rs [])) l
  end.

(* ---- the reconnect task, one segment at a time ---- *)
(* entry of _handle_reconnect up to its first wait:
     self._reconnect_abort.clear(); reconnecting_clients.append(self); attempt_count = 0;
     current_delay = self.reconnection_delay; first pass up to the wait *)
Definition task_start (p : params) (st : state) (id : nat) (r : Q) : state * list eff :=
  let '(w, cur) := next_wait p (delay0 p) r in
  let st1 := set_rcl (set_aflag st false) (S (rcl st)) in
  (set_tasks st1 (tasks st1 ++ [mkTask id 0 cur]), [FRandom; FWait w]).

(* exit paths: reconnecting_clients.remove(self); `_reconnect_task = None` (see clears_task) *)
Definition task_exit (p : params) (st : state) (i : nat) (clear : bool) : state :=
  let st1 := set_rcl (set_tasks st (remove_nth i (tasks st))) (pred (rcl st)) in
  if clear then set_rtask st1 None else st1.

(* the wait returned True: 'Reconnect task aborted' *)
Definition task_abort (p : params) (st : state) (i : nat) (t : task) : state * list eff :=
  (task_exit p st i (fixed p), finals (cns st) ++ [FTaskEnd (t_id t) Aborted]).

(* Engine.IO notices the loss of the transport (read loop):
     if self.state == 'connected': trigger 'disconnect' (TRANSPORT_ERROR) with the state still
     'connected'; then _reset().  A task started by the handler runs up to its first wait. *)
Definition transport_error (p : params) (st : state) (r : Q) : state * list eff :=
  match est st with
  | EConn =>
      let '(st1, e1, sp) := handle_eio_disconnect p st RTransport in
      let st2 := set_est st1 EDisc in
      match sp with
      | Some id => let '(st3, e3) := task_start p st2 id r in (st3, FLost :: e1 ++ e3)
      | None => (st2, FLost :: e1)
      end
  | _ => (st, [])
  end.

(* the wait of live task number i timed out: one attempt, then either an exit path or the next
   pass of the loop up to its wait (drawing r).  race = true (thread granularity only): the
   reader thread notices a transport loss after connect() returned and before
   `self._reconnect_task = None`. *)
Definition task_timeout (p : params) (st : state) (i : nat) (o : conn_outcome) (r : Q) (race : bool)
  : state * list eff :=
  match nth_error (tasks st) i with
  | None => (st, [])
  | Some t =>
      let count := S (t_count t) in
      let '(st1, e1, res) := do_connect p st (args st) (cns st) o in
      match res with
      | ROk =>
          let '(st2, e2) := if race then transport_error p st1 r else (st1, []) in
          (task_exit p st2 i true, e1 ++ e2 ++ [FTaskEnd (t_id t) Reconnected])
      | _ =>
          match after_attempt p count false with
          | DGiveUp =>
              (task_exit p st1 i (fixed p), e1 ++ finals (cns st1) ++ [FTaskEnd (t_id t) GaveUp])
          | _ =>
              let '(w, cur) := next_wait p (t_cur t) r in
              if aflag st1 then
                let '(st2, e2) := task_abort p st1 i t in (st2, e1 ++ FRandom :: FWait w :: e2)
              else
                (set_tasks st1 (replace_nth i (mkTask (t_id t) count cur) (tasks st1)),
                 e1 ++ [FRandom; FWait w])
          end
      end
  end.

(* every live task is blocked on the abort event; when it is set they all return *)
Fixpoint wake_all (p : params) (st : state) (fuel : nat) : state * list eff :=
  match fuel with
  | O => (st, [])
  | S f =>
      match tasks st with
      | [] => (st, [])
      | t :: _ =>
          let '(st1, e1) := task_abort p st 0 t in
          let '(st2, e2) := wake_all p st1 f in
          (st2, e1 ++ e2)
      end
  end.
Definition abort_all (p : params) (st : state) : state * list eff :=
  wake_all p (set_aflag st true) (List.length (tasks st)).

(* ---- self.callbacks ---- *)
Definition cbtab := (nat * list (nat * nat))%type.
Fixpoint cb_find (n : ns) (c : list (ns * cbtab)) : option cbtab :=
  match c with
  | [] => None
  | (m, t) :: r => if Nat.eqb n m then Some t else cb_find n r
  end.
Definition cb_lookup (n : ns) (c : list (ns * cbtab)) : cbtab :=
  match cb_find n c with Some t => t | None => (1, []) end.       (* {0: itertools.count(1)} *)
Fixpoint cb_store (n : ns) (t : cbtab) (c : list (ns * cbtab)) : list (ns * cbtab) :=
  match c with
  | [] => [(n, t)]
  | (m, t0) :: r => if Nat.eqb n m then (m, t) :: r else (m, t0) :: cb_store n t r
  end.

(* ---- events ---- *)
Inductive event :=
| Connect (a : cargs) (l : list ns) (o : conn_outcome)   (* the application calls connect() *)
| Loss (r : Q)                   (* accidental loss: engine.io reports a transport error *)
| Disconnect                     (* the application calls disconnect() *)
| ServerDisconnect (n : ns)      (* the server sends a DISCONNECT packet for namespace n *)
| ServerClose                    (* the server closes the engine.io session (CLOSE packet) *)
| Shutdown                       (* the application calls shutdown() *)
| Sigint                         (* base_client.signal_handler: abort every client in reconnecting_clients *)
| Timeout (i : nat) (o : conn_outcome) (r : Q) (race : bool)    (* back-off wait of live task i expires *)
| EmitCb (n : ns)                (* the application calls emit(..., namespace=n, callback=<fresh function>) *)
| ServerAck (n : ns) (id : nat). (* the server sends an ACK packet for namespace n with this id *)

Definition step (p : params) (st : state) (ev : event) : state * list eff :=
  match ev with
  | Connect a l o =>
      let '(st1, e1, res) := do_connect p st a l o in (st1, e1 ++ [FResult res])
  | Loss r => transport_error p st r
  | Disconnect => api_disconnect p st
  | ServerDisconnect n =>
      (* _handle_disconnect(namespace), reached through the 'message' handler:
           if not self.connected and namespace not in self.namespaces: return *)
      if is_conn (est st) && (connected st || mem n (nss st)) then
        let e := [FHandler HDisconnect n (Some RServer); FHandler HFinal n None] in
        let l := remove_ns n (nss st) in
        match l with
        | [] =>
            let '(st1, e1) := eio_disconnect p (set_connected (set_nss st []) false) RClient in
            (st1, e ++ FEioDisconnect true :: e1)
        | _ => (set_nss st l, e)
        end
      else (st, [])
  | ServerClose =>
      (* engineio _receive_packet(CLOSE): self.disconnect(abort=True, reason=SERVER_DISCONNECT) *)
      if is_conn (est st) then eio_disconnect p st RServer else (st, [])
  | Shutdown =>
      (*  if self.connected: self.disconnect()
          elif self._reconnect_task: self._reconnect_abort.set(); self._reconnect_task.join() *)
      if connected st then api_disconnect p st
      else if is_some (rtask st) then abort_all p st
      else (st, [])
  | Sigint =>
      if Nat.ltb 0 (rcl st) then abort_all p st else (st, [])
  | Timeout i o r race => task_timeout p st i o r race
  | EmitCb n =>
      (*  if namespace not in self.namespaces: raise BadNamespaceError
          id = self._generate_ack_id(namespace, callback):
              if namespace not in self.callbacks: self.callbacks[namespace] = {0: itertools.count(1)}
              id = next(self.callbacks[namespace][0]); self.callbacks[namespace][id] = callback
          self._send_packet(EVENT, namespace, id)            (eio.send drops unless connected) *)
      if mem n (nss st) then
        let '(nxt, entries) := cb_lookup n (cbs st) in
        let k := next_cb st in
        (set_next_cb (set_cbs st (cb_store n (S nxt, entries ++ [(nxt, k)]) (cbs st))) (S k),
         (if is_conn (est st) then [FSendEvent n nxt] else []) ++ [FEmit true])
      else (st, [FEmit false])
  | ServerAck n id =>
      (* _handle_ack: callback = self.callbacks[namespace][id] (KeyError, or the id generator under
         key 0: ignored); del self.callbacks[namespace][id]; callback(data...) *)
      if is_conn (est st) then
        match cb_find n (cbs st) with
        | Some (nxt, entries) =>
            match find (fun e => Nat.eqb (fst e) id) entries with
            | Some (_, k) =>
                (set_cbs st (cb_store n (nxt, filter (fun e => negb (Nat.eqb (fst e) id)) entries) (cbs st)),
                 [FCallback k])
            | None => (st, [])
            end
        | None => (st, [])
        end
      else (st, [])
  end.

Fixpoint run_from (p : params) (st : state) (evs : list event) : state * list (list eff) :=
  match evs with
  | [] => (st, [])
  | ev :: rest =>
      let '(st1, e1) := step p st ev in
      let '(st2, es) := run_from p st1 rest in
      (st2, e1 :: es)
  end.
Definition run (p : params) (evs : list event) : state * list (list eff) := run_from p init evs.
Definition final (p : params) (evs : list event) : state := fst (run p evs).

(* ---- derived notions used by the theorems ---- *)
Definition live (st : state) (id : nat) : bool := existsb (fun t => Nat.eqb (t_id t) id) (tasks st).
(* `_reconnect_task` refers to a task that has returned *)
Definition stale (st : state) : bool :=
  match rtask st with Some id => negb (live st id) | None => false end.
Definition is_timeout (ev : event) : bool := match ev with Timeout _ _ _ _ => true | _ => false end.
Definition is_race (ev : event) : bool := match ev with Timeout _ _ _ true => true | _ => false end.
Definition is_connect_ev (ev : event) : bool := match ev with Connect _ _ _ => true | _ => false end.
Definition is_loss (ev : event) : bool := match ev with Loss _ => true | _ => false end.
Definition is_abort_ev (ev : event) : bool := match ev with Shutdown | Sigint => true | _ => false end.
Definition is_eio_connect (e : eff) : bool := match e with FEioConnect _ _ _ _ => true | _ => false end.
Definition is_wait (e : eff) : bool := match e with FWait _ => true | _ => false end.
Definition is_spawn (e : eff) : bool := match e with FSpawn _ => true | _ => false end.
