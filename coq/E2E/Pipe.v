(* C02 - the end-to-end pipe between an application on one side and the peer's handlers.
   Definitions only; executable.

   Sender side
     client.py 226-237 (async_client.py 226-237)         Client.emit: argument packing, EVENT packet
     client.py 359-366                                   Client._send_packet: one eio.send per piece
     manager.py 23-62 (async_manager.py 17-62)           Manager.emit: argument packing, EVENT packet,
                                                         pre-encoded pieces or server._send_packet
     server.py 502-509                                   Server._send_packet
   Receiver side
     server.py 639-666 / client.py 512-538               _handle_eio_message: the frame reassembly loop
     server.py 577-602 / client.py 389-403               _handle_event(_internal): data[0], *data[1:], ACK packing
     server.py 604-609 + base_manager trigger_callback,
     client.py 405-421                                   _handle_ack: callback( *data )
     server.py 259-269 / client.py 287-300               call(): result shaping

   The server side reuses the definitions of Server/Server.v that the server correspondence
   checks validate against the real classes (`pack`, `split_event`, `star_args`, `pieces_of`,
   `type_is`, `ns_or_default`).  The client model (Client/Client.v) is written by another
   package; the few pure client functions needed here are transcribed below from
   /repo/src/socketio/client.py and shown equal to the server ones (E2EProofs.v,
   `client_pack_eq`, `client_rx_step_eq`): the code IS the same on both sides, which is why
   every theorem is proved once and instantiated for both directions.

   Not in this model (other packages): which handler the event name resolves to (C13), the
   `sid` the server passes in front of the arguments, the callback registry keyed by ack id
   (C05/C06/C09), CONNECT/DISCONNECT/CONNECT_ERROR packets (the loop reports them as
   `Err OtherError` = "not a message of this pipe"), and engine.io's containment of exceptions
   (a `Res` error aborts the run here). *)
From VT Require Export Codec.Packet Codec.MsgPack.
From VT Require Server.Server.
Open Scope N_scope.

(* the server-side helpers, by their qualified names (Server.v is not imported wholesale: it is a
   large shared file whose other names must not shadow the ones of this package) *)
Notation pack := VT.Server.Server.pack.
Notation split_event := VT.Server.Server.split_event.
Notation star_args := VT.Server.Server.star_args.
Notation pieces_of := VT.Server.Server.pieces_of.
Notation type_is := VT.Server.Server.type_is.
Notation ns_or_default := VT.Server.Server.ns_or_default.

Inductive direction := C2S | S2C.
Inductive serializer := SerDefault | SerMsgpack.

(* packet_class.uses_binary_events *)
Definition ser_binary (ser : serializer) : bool :=
  match ser with SerDefault => true | SerMsgpack => false end.

(* what reaches the receiving application *)
Inductive rx_event :=
| EvCall (ns : str) (event : pv) (args : list pv) (id : option Z)
    (* _trigger_event(data[0], namespace, [sid,] *data[1:]); id <> None = an ACK is expected *)
| AckCall (ns : str) (id : option Z) (args : list pv).
    (* the callback registered under (namespace, id) is invoked as callback( *data ) *)

(* ---- client side, transcribed from client.py ---- *)
(* emit: `if isinstance(data, tuple): data = list(data) elif data is not None: data = [data]
          else: data = []` *)
Definition client_pack (data : pv) : list pv :=
  match data with
  | PTuple l => l
  | PNone => []
  | x => [x]
  end.
(* _handle_event: `data[0]`, `*data[1:]` *)
Definition client_split_event (data : pv) : Res (pv * list pv) :=
  match data with
  | PList (x :: r) => Ok (x, r)
  | PList [] => Err IndexError
  | PStr (ch :: r) => Ok (PStr [ch], map (fun x => PStr [x]) r)
  | PStr [] => Err IndexError
  | PDict _ => Err KeyError
  | _ => Err TypeError
  end.
(* _handle_ack: `callback( *data )` *)
Definition client_star_args (data : pv) : Res (list pv) :=
  match data with
  | PList l | PTuple l => Ok l
  | PStr s => Ok (map (fun x => PStr [x]) s)
  | PDict kv => Ok (map fst kv)
  | PBytes b => Ok (map (fun x => PInt (Z.of_N x)) b)
  | _ => Err TypeError
  end.
(* `namespace = namespace or '/'` *)
Definition client_ns (ns : option str) : str := match ns with Some (c :: r) => c :: r | _ => [47] end.

Section Pipe.
  Variable loads : str -> Res pv.                    (* engineio.json.loads *)
  Variable mdumps : pv -> Res str.                   (* msgpack.dumps *)
  Variable mloads : str -> Res pv.                   (* msgpack.loads *)

  (* pkt.encode() and the eio.send loop of _send_packet: the engine.io payloads, in order *)
  Definition encode_frames (ser : serializer) (p : packet) : Res (list pv) :=
    match ser with
    | SerDefault => enc <- encode p ;; Ok (pieces_of enc)        (* text frame, then the attachments *)
    | SerMsgpack => b <- mp_encode mdumps p ;; Ok [PBytes b]     (* one blob *)
    end.

  (* ---- sender ---- *)
  (* Client.emit(event, data, namespace, callback) with the ack id already drawn *)
  Definition client_emit_frames (ser : serializer) (event : str) (data : pv) (ns : str) (id : option Z)
    : Res (list pv) :=
    p <- ctor (ser_binary ser) EVENT (PList (PStr event :: client_pack data)) (Some ns) id None ;;
    encode_frames ser p.
  (* Manager.emit towards one recipient: the same packet whether it is pre-encoded (no
     callback) or built per recipient (callback), sent piece by piece *)
  Definition server_emit_frames (ser : serializer) (event : str) (data : pv) (ns : str) (id : option Z)
    : Res (list pv) :=
    p <- ctor (ser_binary ser) EVENT (PList (PStr event :: pack data)) (Some ns) id None ;;
    encode_frames ser p.
  Definition sender_frames (dir : direction) :=
    match dir with C2S => client_emit_frames | S2C => server_emit_frames end.

  (* the ACK the receiver of an event sends back with its handler's return value:
     `if r is None: data = [] elif isinstance(r, tuple): data = list(r) else: data = [r]` *)
  Definition client_ack_frames (ser : serializer) (r : pv) (ns : str) (id : Z) : Res (list pv) :=
    p <- ctor (ser_binary ser) ACK (PList (client_pack r)) (Some ns) (Some id) None ;;
    encode_frames ser p.
  Definition server_ack_frames (ser : serializer) (r : pv) (ns : str) (id : Z) : Res (list pv) :=
    p <- ctor (ser_binary ser) ACK (PList (pack r)) (Some ns) (Some id) None ;;
    encode_frames ser p.
  (* direction = the direction the ACK travels *)
  Definition ack_frames (dir : direction) :=
    match dir with C2S => client_ack_frames | S2C => server_ack_frames end.

  (* ---- receiver ---- *)
  (* packet_class(encoded_packet=payload) *)
  Definition rx_decode (ser : serializer) (payload : pv) : Res rpacket :=
    match ser with
    | SerDefault => decode loads payload
    | SerMsgpack => mp_decode mloads payload
    end.

  Definition server_dispatch_event (p : packet) : Res (list rx_event) :=
    ea <- split_event (pdata p) ;;
    Ok [EvCall (ns_or_default (pns p)) (fst ea) (snd ea) (pid p)].
  Definition server_dispatch_ack (p : packet) : Res (list rx_event) :=
    args <- star_args (pdata p) ;;
    Ok [AckCall (ns_or_default (pns p)) (pid p) args].
  Definition client_dispatch_event (p : packet) : Res (list rx_event) :=
    ea <- client_split_event (pdata p) ;;
    Ok [EvCall (client_ns (pns p)) (fst ea) (snd ea) (pid p)].
  Definition client_dispatch_ack (p : packet) : Res (list rx_event) :=
    args <- client_star_args (pdata p) ;;
    Ok [AckCall (client_ns (pns p)) (pid p) args].

  (* one engine.io MESSAGE through _handle_eio_message; the state is `_binary_packet`
     (server: the entry of this connection) *)
  Definition rx_step_with (dispatch_event dispatch_ack : packet -> Res (list rx_event))
             (ser : serializer) (st : option rpacket) (payload : pv)
    : Res (option rpacket * list rx_event) :=
    match st with
    | Some r =>
        '(r', complete) <- add_attachment r payload ;;
        if complete then
          evs <- (if type_is (rp r') BINARY_EVENT then dispatch_event (rp r') else dispatch_ack (rp r')) ;;
          Ok (None, evs)
        else Ok (Some r', [])
    | None =>
        r <- rx_decode ser payload ;;
        let p := rp r in
        if type_is p EVENT then evs <- dispatch_event p ;; Ok (None, evs)
        else if type_is p ACK then evs <- dispatch_ack p ;; Ok (None, evs)
        else if type_is p BINARY_EVENT || type_is p BINARY_ACK then Ok (Some r, [])
        else Err OtherError
    end.
  Definition server_rx_step := rx_step_with server_dispatch_event server_dispatch_ack.
  Definition client_rx_step := rx_step_with client_dispatch_event client_dispatch_ack.
  (* direction = the direction the frames travel: C2S frames are received by the server *)
  Definition rx_step (dir : direction) :=
    match dir with C2S => server_rx_step | S2C => client_rx_step end.

  (* the loop fed frame by frame *)
  Fixpoint rx_run (dir : direction) (ser : serializer) (st : option rpacket) (frames : list pv)
    : Res (option rpacket * list rx_event) :=
    match frames with
    | [] => Ok (st, [])
    | f :: rest =>
        '(st1, e1) <- rx_step dir ser st f ;;
        '(st2, e2) <- rx_run dir ser st1 rest ;;
        Ok (st2, e1 ++ e2)
    end.
  Definition receiver_calls (dir : direction) (ser : serializer) (frames : list pv) : Res (list rx_event) :=
    '(_, evs) <- rx_run dir ser None frames ;; Ok evs.

  (* ---- messages of one sender, for the ordering theorem and the tie ---- *)
  Inductive msg :=
  | MEmit (event : str) (data : pv) (ns : str) (id : option Z)
  | MAck (r : pv) (ns : str) (id : Z).
  Definition msg_frames (dir : direction) (ser : serializer) (m : msg) : Res (list pv) :=
    match m with
    | MEmit ev data ns id => sender_frames dir ser ev data ns id
    | MAck r ns id => ack_frames dir ser r ns id
    end.
  (* what the receiving application must see, computed from the SENT value only *)
  Definition msg_call (m : msg) : rx_event :=
    match m with
    | MEmit ev data ns id => EvCall ns (PStr ev) (pack data) id
    | MAck r ns id => AckCall ns (Some id) (pack r)
    end.
  Fixpoint all_frames (dir : direction) (ser : serializer) (ms : list msg) : Res (list pv) :=
    match ms with
    | [] => Ok []
    | m :: r => f <- msg_frames dir ser m ;; fr <- all_frames dir ser r ;; Ok (f ++ fr)
    end.
End Pipe.

(* call(): `callback_args[0] if len(callback_args[0]) > 1 else callback_args[0][0]
            if len(callback_args[0]) == 1 else None` *)
Definition call_result (args : list pv) : pv :=
  match args with
  | [] => PNone
  | [x] => x
  | l => PTuple l
  end.

(* arguments the sender's callback receives, from the frames of the ACK *)
Definition callback_args (loads : str -> Res pv) (mloads : str -> Res pv)
           (dir : direction) (ser : serializer) (frames : list pv) : Res (list pv) :=
  evs <- receiver_calls loads mloads dir ser frames ;;
  match evs with
  | [AckCall _ _ args] => Ok args
  | _ => Err OtherError
  end.

(* ---- equality helpers for the checkers ---- *)
Definition rx_event_eqb (a b : rx_event) : bool :=
  match a, b with
  | EvCall n1 e1 a1 i1, EvCall n2 e2 a2 i2 =>
      str_eqb n1 n2 && pv_eqb e1 e2 && list_eqb pv_eqb a1 a2 && opt_eqb Z.eqb i1 i2
  | AckCall n1 i1 a1, AckCall n2 i2 a2 =>
      str_eqb n1 n2 && opt_eqb Z.eqb i1 i2 && list_eqb pv_eqb a1 a2
  | _, _ => false
  end.
