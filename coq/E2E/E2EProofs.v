(* C02 - proofs about E2E/Pipe.v and Codec/MsgPack.v.  Proofs only.
   The default-serializer results are corollaries of the C01 development: they reuse
   encode_total, encode_bin / encode_nonbin, decode_str_bin / decode_str_nonbin (header
   scanner), recon_subst (binary reconstruction), and the pointwise JSON-oracle premise of
   C01_roundtrip_pointwise_partial (json.loads inverts json.dumps on the ONE text of this
   packet), so no theorem here is vacuous because of a contradictory universal premise. *)
From VT Require Import Base.PyStrProofs Codec.JsonProofs Codec.PacketProofs Codec.SpecProofs.
From VT Require Import Codec.Packet Codec.SpecCodec Check.C01Check Check.C01CheckProofs.
From VT Require Import Codec.MsgPack E2E.Pipe.
From Coq Require Import Lia ZifyBool ZifyN.
Open Scope N_scope.

(* ================================================================================== *)
(* 1. the two sides run the same code                                                   *)
(* ================================================================================== *)
Lemma client_pack_eq d : client_pack d = pack d.
Proof. destruct d; reflexivity. Qed.
Lemma client_split_event_eq d : client_split_event d = split_event d.
Proof. destruct d; reflexivity. Qed.
Lemma client_star_args_eq d : client_star_args d = star_args d.
Proof. destruct d; reflexivity. Qed.
Lemma client_ns_eq ns : client_ns ns = ns_or_default ns.
Proof. destruct ns as [[|c r]|]; reflexivity. Qed.

Lemma client_dispatch_event_eq p : client_dispatch_event p = server_dispatch_event p.
Proof. unfold client_dispatch_event, server_dispatch_event. rewrite client_split_event_eq, client_ns_eq. reflexivity. Qed.
Lemma client_dispatch_ack_eq p : client_dispatch_ack p = server_dispatch_ack p.
Proof. unfold client_dispatch_ack, server_dispatch_ack. rewrite client_star_args_eq, client_ns_eq. reflexivity. Qed.

Lemma client_rx_step_eq loads mloads ser st f :
  client_rx_step loads mloads ser st f = server_rx_step loads mloads ser st f.
Proof.
  unfold client_rx_step, server_rx_step, rx_step_with.
  destruct st as [r|].
  - destruct (add_attachment r f) as [[r' c]|e]; [|reflexivity]. cbn [bind].
    rewrite client_dispatch_event_eq, client_dispatch_ack_eq. reflexivity.
  - destruct (rx_decode loads mloads ser f) as [r|e]; [|reflexivity]. cbn [bind].
    rewrite client_dispatch_event_eq, client_dispatch_ack_eq. reflexivity.
Qed.

Lemma rx_step_dir loads mloads dir ser st f :
  rx_step loads mloads dir ser st f = server_rx_step loads mloads ser st f.
Proof. destruct dir; [reflexivity|apply client_rx_step_eq]. Qed.

Lemma rx_run_dir loads mloads dir ser : forall frames st,
  rx_run loads mloads dir ser st frames = rx_run loads mloads C2S ser st frames.
Proof.
  induction frames as [|f rest IH]; intro st; [reflexivity|].
  cbn [rx_run]. rewrite rx_step_dir. cbn [rx_step].
  destruct (server_rx_step loads mloads ser st f) as [[st1 e1]|e]; [|reflexivity]. cbn [bind].
  rewrite IH. reflexivity.
Qed.

Lemma sender_frames_dir mdumps dir ser ev data ns id :
  sender_frames mdumps dir ser ev data ns id = server_emit_frames mdumps ser ev data ns id.
Proof. destruct dir; [|reflexivity]. cbn [sender_frames]. unfold client_emit_frames, server_emit_frames. rewrite client_pack_eq. reflexivity. Qed.
Lemma ack_frames_dir mdumps dir ser r ns id :
  ack_frames mdumps dir ser r ns id = server_ack_frames mdumps ser r ns id.
Proof. destruct dir; [|reflexivity]. cbn [ack_frames]. unfold client_ack_frames, server_ack_frames. rewrite client_pack_eq. reflexivity. Qed.

(* ================================================================================== *)
(* 2. the reassembly loop                                                               *)
(* ================================================================================== *)
Lemma rx_run_app loads mloads dir ser : forall a st b,
  rx_run loads mloads dir ser st (a ++ b) =
  ('(st1, e1) <- rx_run loads mloads dir ser st a ;;
   '(st2, e2) <- rx_run loads mloads dir ser st1 b ;;
   Ok (st2, e1 ++ e2)).
Proof.
  induction a as [|f a IH]; intros st b.
  - cbn [app rx_run bind]. destruct (rx_run loads mloads dir ser st b) as [[st2 e2]|e]; reflexivity.
  - cbn [app rx_run]. destruct (rx_step loads mloads dir ser st f) as [[st1 e1]|e]; [|reflexivity]. cbn [bind].
    rewrite IH. destruct (rx_run loads mloads dir ser st1 a) as [[st2 e2]|e]; [|reflexivity]. cbn [bind].
    destruct (rx_run loads mloads dir ser st2 b) as [[st3 e3]|e]; [|reflexivity]. cbn [bind].
    rewrite app_assoc. reflexivity.
Qed.

(* the attachments of a binary packet, fed one by one while a packet is pending: nothing is
   delivered until the last one, which delivers the reconstructed packet and clears the state *)
Lemma rx_run_cons loads mloads dir ser st f rest :
  rx_run loads mloads dir ser st (f :: rest) =
  ('(st1, e1) <- rx_step loads mloads dir ser st f ;;
   '(st2, e2) <- rx_run loads mloads dir ser st1 rest ;;
   Ok (st2, e1 ++ e2)).
Proof. reflexivity. Qed.

Lemma rx_attachments loads mloads ser : forall atts r r',
  atts <> [] ->
  add_all r atts = Ok (r', last_only (List.length atts)) ->
  rx_run loads mloads C2S ser (Some r) atts =
  (evs <- (if type_is (rp r') BINARY_EVENT then server_dispatch_event (rp r') else server_dispatch_ack (rp r')) ;;
   Ok (None, evs)).
Proof.
  induction atts as [|a atts IH]; intros r r' Hne H; [contradiction|].
  cbn [add_all] in H. rewrite rx_run_cons. cbn [rx_step]. unfold server_rx_step, rx_step_with.
  destruct (add_attachment r a) as [[r1 b]|e]; [|discriminate]. cbn [bind] in *.
  destruct (add_all r1 atts) as [[r2 bs]|e] eqn:E2; [|discriminate]. cbn [bind] in H.
  destruct atts as [|a2 atts'].
  - cbn [add_all] in E2. inversion E2; subst r2 bs. cbn [List.length last_only] in H.
    inversion H; subst r1 b. cbn [rx_run].
    destruct (if type_is (rp r') BINARY_EVENT then server_dispatch_event (rp r') else server_dispatch_ack (rp r'))
      as [evs|e]; cbn [bind]; [rewrite app_nil_r|]; reflexivity.
  - change (List.length (a :: a2 :: atts')) with (S (S (List.length atts'))) in H.
    rewrite last_only_SS in H. inversion H; subst r2 b bs. cbn [bind app].
    rewrite (IH r1 r'); [|discriminate|exact E2].
    destruct (if type_is (rp r') BINARY_EVENT then server_dispatch_event (rp r') else server_dispatch_ack (rp r'))
      as [evs|e]; reflexivity.
Qed.

(* ================================================================================== *)
(* 3. one packet through the default serializer: exact frames, exact decoded packet    *)
(* ================================================================================== *)
Lemma frame_exact loads t data ns id :
  wf_input t data ns id = true ->
  (has_bytes data = true -> (t = 2 \/ t = 3)%Z) ->
  N.of_nat (List.length (leaves data)) < 10000000000 ->
  (forall s, json_dumps (subst data 0) = Ok s -> loads s = Ok (subst data 0)) ->
  exists p f, ctor true t data ns id None = Ok p /\
    encode p = Ok (f, if has_bytes data then Some (leaves data) else None) /\
    decode loads (PStr f) =
      Ok (mkR (mkPacket (PInt (promoted t data None)) (ns_dec ns) id (subst data 0))
              (N.of_nat (List.length (leaves data))) []).
Proof.
  intros Hwf0 Hbin Hcnt Hloads.
  destruct (encode_total t data ns id Hwf0 Hbin) as (p & f & atts & Hc & He & Ha).
  exists p, f. split; [exact Hc|].
  pose proof Hwf0 as Hwf. unfold wf_input in Hwf. repeat rewrite andb_true_iff in Hwf.
  destruct Hwf as [[[[[[[H0 H4] Hns] Hid] Hd] Hnum] Hl] Hev].
  apply negb_true_iff in Hnum. apply wf_ns_ok in Hns. apply wf_id_ok in Hid.
  unfold ctor in Hc. cbn [andb] in Hc. unfold promoted.
  destruct (has_bytes data) eqn:Hb.
  - assert (Ht : (t = 2 \/ t = 3)%Z) by (apply Hbin; reflexivity).
    assert (Hp : p = mkPacket (PInt (t + 3)) ns id data).
    { destruct Ht as [-> | ->]; cbn in Hc; inversion Hc; reflexivity. }
    subst p. pose proof He as He0. apply encode_bin in He; [|lia]. destruct He as (js & Ejs & -> & ->).
    split; [exact He0|].
    assert (Hsn : is_number (subst data 0) = false).
    { destruct Ht as [-> | ->]; destruct data; try discriminate; reflexivity. }
    pose proof (dumps_opt_js_ok _ _ Hsn Ejs) as Hjs.
    pose proof (loads_js loads _ _ Hsn Ejs Hloads) as Hlj.
    unfold decode. cbn [truthy negb].
    replace (Z.of_N (Z.to_N (t + 3))) with (t + 3)%Z by lia.
    replace (PInt (t + 3)) with (PInt (Z.of_N (Z.to_N (t + 3)))) by (f_equal; lia).
    apply decode_str_bin; [lia|exact Hcnt|exact Hns|exact Hid|exact Hjs|exact Hlj].
  - inversion Hc; subst p. pose proof He as He0. apply encode_nonbin in He; [|lia].
    destruct He as (js & Ejs & -> & ->). split; [exact He0|].
    pose proof (nobytes_leaves _ Hb) as Hlv. rewrite (noleaves_subst _ Hlv) in *.
    pose proof (dumps_opt_js_ok _ _ Hnum Ejs) as Hjs.
    pose proof (loads_js loads _ _ Hnum Ejs Hloads) as Hlj.
    unfold decode. cbn [truthy negb]. rewrite Hlv. cbn [List.length].
    replace (PInt t) with (PInt (Z.of_N (Z.to_N t))) by (f_equal; lia).
    apply decode_str_nonbin; [lia|exact Hns|exact Hid|exact Hjs|exact Hlj].
Qed.
