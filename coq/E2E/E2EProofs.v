(* C02 - proofs about E2E/Pipe.v and Codec/MsgPack.v.  Proofs only.
   The default-serializer results are corollaries of the C01 development: they reuse
   encode_total, encode_bin / encode_nonbin, decode_str_bin / decode_str_nonbin (header
   scanner), recon_subst (binary reconstruction), and the pointwise JSON-oracle premise of
   C01_roundtrip_pointwise_partial (json.loads inverts json.dumps on the ONE text of this
   packet), so no theorem here is vacuous because of a contradictory universal premise. *)
From VT Require Import Base.PyStrProofs Codec.JsonProofs Codec.PacketProofs Codec.SpecProofs.
From VT Require Import Codec.Packet Codec.SpecCodec Check.C01Check Check.C01CheckProofs.
From VT Require Import Codec.MsgPack E2E.Pipe Check.C02Check.
From Coq Require Import Lia ZifyBool ZifyN.
Open Scope N_scope.

(* ================================================================================== *)
(* 1. the two sides run the same code                                                   *)
(* ================================================================================== *)
Lemma client_pack_eq d : client_pack d = pack d.
Proof. destruct d; reflexivity. Qed.
Lemma client_split_event_eq d : client_split_event d = split_event d.
Proof. destruct d; reflexivity. Qed.
Lemma client_star_args_eq d : client_star_args d = star_args d.
Proof. destruct d; reflexivity. Qed.
Lemma client_ns_eq ns : client_ns ns = ns_or_default ns.
Proof. destruct ns as [[|c r]|]; reflexivity. Qed.

Lemma client_dispatch_event_eq p : client_dispatch_event p = server_dispatch_event p.
Proof. unfold client_dispatch_event, server_dispatch_event. rewrite client_split_event_eq, client_ns_eq. reflexivity. Qed.
Lemma client_dispatch_ack_eq p : client_dispatch_ack p = server_dispatch_ack p.
Proof. unfold client_dispatch_ack, server_dispatch_ack. rewrite client_star_args_eq, client_ns_eq. reflexivity. Qed.

Lemma client_rx_step_eq loads mloads ser st f :
  client_rx_step loads mloads ser st f = server_rx_step loads mloads ser st f.
Proof.
  unfold client_rx_step, server_rx_step, rx_step_with.
  destruct st as [r|].
  - destruct (add_attachment r f) as [[r' c]|e]; [|reflexivity]. cbn [bind].
    rewrite client_dispatch_event_eq, client_dispatch_ack_eq. reflexivity.
  - destruct (rx_decode loads mloads ser f) as [r|e]; [|reflexivity]. cbn [bind].
    rewrite client_dispatch_event_eq, client_dispatch_ack_eq. reflexivity.
Qed.

Lemma rx_step_dir loads mloads dir ser st f :
  rx_step loads mloads dir ser st f = server_rx_step loads mloads ser st f.
Proof. destruct dir; [reflexivity|apply client_rx_step_eq]. Qed.

Lemma rx_run_dir loads mloads dir ser : forall frames st,
  rx_run loads mloads dir ser st frames = rx_run loads mloads C2S ser st frames.
Proof.
  induction frames as [|f rest IH]; intro st; [reflexivity|].
  cbn [rx_run]. rewrite rx_step_dir. cbn [rx_step].
  destruct (server_rx_step loads mloads ser st f) as [[st1 e1]|e]; [|reflexivity]. cbn [bind].
  rewrite IH. reflexivity.
Qed.

Lemma sender_frames_dir mdumps dir ser ev data ns id :
  sender_frames mdumps dir ser ev data ns id = server_emit_frames mdumps ser ev data ns id.
Proof. destruct dir; [|reflexivity]. cbn [sender_frames]. unfold client_emit_frames, server_emit_frames. rewrite client_pack_eq. reflexivity. Qed.
Lemma ack_frames_dir mdumps dir ser r ns id :
  ack_frames mdumps dir ser r ns id = server_ack_frames mdumps ser r ns id.
Proof. destruct dir; [|reflexivity]. cbn [ack_frames]. unfold client_ack_frames, server_ack_frames. rewrite client_pack_eq. reflexivity. Qed.

(* ================================================================================== *)
(* 2. the reassembly loop                                                               *)
(* ================================================================================== *)
Lemma rx_run_app loads mloads dir ser : forall a st b,
  rx_run loads mloads dir ser st (a ++ b) =
  ('(st1, e1) <- rx_run loads mloads dir ser st a ;;
   '(st2, e2) <- rx_run loads mloads dir ser st1 b ;;
   Ok (st2, e1 ++ e2)).
Proof.
  induction a as [|f a IH]; intros st b.
  - cbn [app rx_run bind]. destruct (rx_run loads mloads dir ser st b) as [[st2 e2]|e]; reflexivity.
  - cbn [app rx_run]. destruct (rx_step loads mloads dir ser st f) as [[st1 e1]|e]; [|reflexivity]. cbn [bind].
    rewrite IH. destruct (rx_run loads mloads dir ser st1 a) as [[st2 e2]|e]; [|reflexivity]. cbn [bind].
    destruct (rx_run loads mloads dir ser st2 b) as [[st3 e3]|e]; [|reflexivity]. cbn [bind].
    rewrite app_assoc. reflexivity.
Qed.

(* the attachments of a binary packet, fed one by one while a packet is pending: nothing is
   delivered until the last one, which delivers the reconstructed packet and clears the state *)
Lemma rx_run_cons loads mloads dir ser st f rest :
  rx_run loads mloads dir ser st (f :: rest) =
  ('(st1, e1) <- rx_step loads mloads dir ser st f ;;
   '(st2, e2) <- rx_run loads mloads dir ser st1 rest ;;
   Ok (st2, e1 ++ e2)).
Proof. reflexivity. Qed.

Lemma rx_attachments loads mloads ser : forall atts r r',
  atts <> [] ->
  add_all r atts = Ok (r', last_only (List.length atts)) ->
  rx_run loads mloads C2S ser (Some r) atts =
  (evs <- (if type_is (rp r') BINARY_EVENT then server_dispatch_event (rp r') else server_dispatch_ack (rp r')) ;;
   Ok (None, evs)).
Proof.
  induction atts as [|a atts IH]; intros r r' Hne H; [contradiction|].
  cbn [add_all] in H. rewrite rx_run_cons. cbn [rx_step]. unfold server_rx_step, rx_step_with.
  destruct (add_attachment r a) as [[r1 b]|e]; [|discriminate]. cbn [bind] in *.
  destruct (add_all r1 atts) as [[r2 bs]|e] eqn:E2; [|discriminate]. cbn [bind] in H.
  destruct atts as [|a2 atts'].
  - cbn [add_all] in E2. inversion E2; subst r2 bs. cbn [List.length last_only] in H.
    inversion H; subst r1 b. cbn [rx_run].
    destruct (if type_is (rp r') BINARY_EVENT then server_dispatch_event (rp r') else server_dispatch_ack (rp r'))
      as [evs|e]; cbn [bind]; [rewrite app_nil_r|]; reflexivity.
  - change (List.length (a :: a2 :: atts')) with (S (S (List.length atts'))) in H.
    rewrite last_only_SS in H. inversion H; subst r2 b bs. cbn [bind app].
    rewrite (IH r1 r'); [|discriminate|exact E2].
    destruct (if type_is (rp r') BINARY_EVENT then server_dispatch_event (rp r') else server_dispatch_ack (rp r'))
      as [evs|e]; reflexivity.
Qed.

(* ================================================================================== *)
(* 3. one packet through the default serializer: exact frames, exact decoded packet    *)
(* ================================================================================== *)
Lemma frame_exact loads t data ns id :
  wf_input t data ns id = true ->
  (has_bytes data = true -> (t = 2 \/ t = 3)%Z) ->
  N.of_nat (List.length (leaves data)) < 10000000000 ->
  (forall s, json_dumps (subst data 0) = Ok s -> loads s = Ok (subst data 0)) ->
  exists p f, ctor true t data ns id None = Ok p /\
    encode p = Ok (f, if has_bytes data then Some (leaves data) else None) /\
    decode loads (PStr f) =
      Ok (mkR (mkPacket (PInt (promoted t data None)) (ns_dec ns) id (subst data 0))
              (N.of_nat (List.length (leaves data))) []).
Proof.
  intros Hwf0 Hbin Hcnt Hloads.
  destruct (encode_total t data ns id Hwf0 Hbin) as (p & f & atts & Hc & He & Ha).
  exists p, f. split; [exact Hc|].
  pose proof Hwf0 as Hwf. unfold wf_input in Hwf. repeat rewrite andb_true_iff in Hwf.
  destruct Hwf as [[[[[[[H0 H4] Hns] Hid] Hd] Hnum] Hl] Hev].
  apply negb_true_iff in Hnum. apply wf_ns_ok in Hns. apply wf_id_ok in Hid.
  unfold ctor in Hc. cbn [andb] in Hc. unfold promoted.
  destruct (has_bytes data) eqn:Hb.
  - assert (Ht : (t = 2 \/ t = 3)%Z) by (apply Hbin; reflexivity).
    assert (Hp : p = mkPacket (PInt (t + 3)) ns id data).
    { destruct Ht as [-> | ->]; cbn in Hc; inversion Hc; reflexivity. }
    subst p. pose proof He as He0. apply encode_bin in He; [|lia]. destruct He as (js & Ejs & -> & ->).
    split; [exact He0|].
    assert (Hsn : is_number (subst data 0) = false).
    { destruct Ht as [-> | ->]; destruct data; try discriminate; reflexivity. }
    pose proof (dumps_opt_js_ok _ _ Hsn Ejs) as Hjs.
    pose proof (loads_js loads _ _ Hsn Ejs Hloads) as Hlj.
    unfold decode. cbn [truthy negb].
    replace (Z.of_N (Z.to_N (t + 3))) with (t + 3)%Z by lia.
    replace (PInt (t + 3)) with (PInt (Z.of_N (Z.to_N (t + 3)))) by (f_equal; lia).
    apply decode_str_bin; [lia|exact Hcnt|exact Hns|exact Hid|exact Hjs|exact Hlj].
  - inversion Hc; subst p. pose proof He as He0. apply encode_nonbin in He; [|lia].
    destruct He as (js & Ejs & -> & ->). split; [exact He0|].
    pose proof (nobytes_leaves _ Hb) as Hlv. rewrite (noleaves_subst _ Hlv) in *.
    pose proof (dumps_opt_js_ok _ _ Hnum Ejs) as Hjs.
    pose proof (loads_js loads _ _ Hnum Ejs Hloads) as Hlj.
    unfold decode. cbn [truthy negb]. rewrite Hlv. cbn [List.length].
    replace (PInt t) with (PInt (Z.of_N (Z.to_N t))) by (f_equal; lia).
    apply decode_str_nonbin; [lia|exact Hns|exact Hid|exact Hjs|exact Hlj].
Qed.

(* ================================================================================== *)
(* 4. the domain of C02 is inside the domain of C01                                     *)
(* ================================================================================== *)
Lemma wf_list_forallb l : wf_list l = forallb wf_data l.
Proof. induction l as [|x l IH]; [reflexivity|]. cbn [wf_list forallb]. fold wf_list. rewrite IH. reflexivity. Qed.

Lemma wf_payload_pack data : wf_payload data = true -> forallb wf_data (pack data) = true.
Proof.
  destruct data; cbn [wf_payload pack forallb]; intro H; try reflexivity;
    try (rewrite H; reflexivity); try exact H; try discriminate.
Qed.

Lemma wf_nsname_wf_ns ns : wf_nsname ns = true -> wf_ns (Some ns) = true.
Proof.
  destruct ns as [|c r]; cbn [wf_nsname wf_ns]; [discriminate|].
  destruct c as [|p]; [discriminate|].
  repeat (destruct p as [p|p|]; try discriminate).
  intro H. apply andb_true_iff in H as [H _]. exact H.
Qed.

Lemma wf_nsname_shape ns : wf_nsname ns = true ->
  exists r, ns = 47 :: r /\ existsb (N.eqb 63) r = false.
Proof.
  destruct ns as [|c r]; cbn [wf_nsname]; [discriminate|].
  destruct c as [|p]; [discriminate|].
  repeat (destruct p as [p|p|]; try discriminate).
  intro H. apply andb_true_iff in H as [_ H]. apply negb_true_iff in H. exists r. split; [reflexivity|exact H].
Qed.

(* the namespace the receiver reports is the one the message was sent on *)
Lemma ns_received ns : wf_nsname ns = true -> ns_or_default (ns_dec (Some ns)) = ns.
Proof.
  intro H. destruct (wf_nsname_shape ns H) as (r & -> & Hq). cbn [ns_dec].
  destruct (str_eqb (47 :: r) [47]) eqn:E.
  - apply str_eqb_eq in E. inversion E; subst. reflexivity.
  - unfold strip_query.
    assert (F : find 63 (47 :: r) = None).
    { apply find_absent. intros x [Hx|Hx]; [subst x; discriminate|].
      apply (existsb_eqb_false 63 r Hq x Hx). }
    rewrite F. reflexivity.
Qed.

Lemma msg_wf_input m : msg_wf m = true ->
  wf_input (msg_type m) (msg_payload m) (Some (msg_ns m)) (msg_id m) = true /\
  wf_nsname (msg_ns m) = true /\ wf_data (msg_payload m) = true.
Proof.
  destruct m as [ev data ns id|r ns id]; cbn [msg_wf msg_type msg_payload msg_ns msg_id]; intro H;
    apply andb_true_iff in H as [H Hid]; apply andb_true_iff in H as [Hd Hns];
    pose proof (wf_payload_pack _ Hd) as Hp.
  - assert (Hw : wf_data (PList (PStr ev :: pack data)) = true).
    { rewrite wf_PList, wf_list_forallb. cbn [forallb wf_data]. exact Hp. }
    split; [|split; [exact Hns|exact Hw]].
    unfold wf_input. rewrite (wf_nsname_wf_ns _ Hns), Hid, Hw. reflexivity.
  - assert (Hw : wf_data (PList (pack r)) = true).
    { rewrite wf_PList, wf_list_forallb. exact Hp. }
    split; [|split; [exact Hns|exact Hw]].
    unfold wf_input. rewrite (wf_nsname_wf_ns _ Hns), Hid, Hw. reflexivity.
Qed.

(* ================================================================================== *)
(* 5. one message through the default serializer                                        *)
(* ================================================================================== *)
Definition pieces (f : str) (payload : pv) : list pv := PStr f :: map PBytes (leaves payload).

Lemma rx_packet_default loads mloads mdumps t payload ns id :
  (t = 2 \/ t = 3)%Z ->
  wf_input t payload (Some ns) id = true ->
  N.of_nat (List.length (leaves payload)) < 10000000000 ->
  (forall s, json_dumps (subst payload 0) = Ok s -> loads s = Ok (subst payload 0)) ->
  let q := mkPacket (PInt (promoted t payload None)) (ns_dec (Some ns)) id payload in
  exists f,
    (p <- ctor true t payload (Some ns) id None ;; encode_frames mdumps SerDefault p) = Ok (pieces f payload) /\
    rx_run loads mloads C2S SerDefault None (pieces f payload) =
      (evs <- (if (t =? 2)%Z then server_dispatch_event q else server_dispatch_ack q) ;; Ok (None, evs)).
Proof.
  intros Ht Hwf Hcnt Hl q.
  assert (Hd : wf_data payload = true).
  { unfold wf_input in Hwf. repeat rewrite andb_true_iff in Hwf. tauto. }
  destruct (frame_exact loads t payload (Some ns) id Hwf (fun _ => Ht) Hcnt Hl) as (p & f & Hc & He & Hdec).
  exists f. unfold pieces. split.
  - rewrite Hc. cbn [bind encode_frames]. rewrite He. cbn [bind]. unfold pieces_of. cbn [fst snd].
    destruct (has_bytes payload) eqn:Hb; [reflexivity|]. rewrite (nobytes_leaves _ Hb). reflexivity.
  - rewrite rx_run_cons. cbn [rx_step]. unfold server_rx_step, rx_step_with. cbn [rx_decode].
    rewrite Hdec. cbn [bind rp ptype]. unfold promoted in *.
    destruct (has_bytes payload) eqn:Hb.
    + (* binary: header stored, attachments complete it *)
      assert (T : type_is (mkPacket (PInt (t + 3)) (ns_dec (Some ns)) id (subst payload 0)) EVENT = false /\
                  type_is (mkPacket (PInt (t + 3)) (ns_dec (Some ns)) id (subst payload 0)) ACK = false /\
                  (type_is (mkPacket (PInt (t + 3)) (ns_dec (Some ns)) id (subst payload 0)) BINARY_EVENT ||
                   type_is (mkPacket (PInt (t + 3)) (ns_dec (Some ns)) id (subst payload 0)) BINARY_ACK) = true).
      { destruct Ht as [-> | ->]; repeat split; reflexivity. }
      destruct T as (T1 & T2 & T3). rewrite T1, T2, T3. cbn [bind app].
      pose proof (bytes_leaves _ Hb) as Hne.
      set (r0 := mkR (mkPacket (PInt (t + 3)) (ns_dec (Some ns)) id (subst payload 0))
                     (N.of_nat (List.length (leaves payload))) []).
      assert (Hadd : add_all r0 (map PBytes (leaves payload)) =
                     Ok (mkR (mkPacket (PInt (t + 3)) (ns_dec (Some ns)) id payload)
                             (N.of_nat (List.length (leaves payload))) (map PBytes (leaves payload)),
                         last_only (List.length (map PBytes (leaves payload))))).
      { rewrite (add_all_complete _ []); [|destruct (leaves payload); [contradiction|discriminate]|reflexivity|].
        - cbn [r0 rp pdata ptype pns pid rcount app].
          pose proof (recon_subst payload (wf_ph_free _ Hd) [] []) as R.
          cbn [List.length app] in R. rewrite app_nil_r in R. rewrite R. reflexivity.
        - cbn [r0 rcount List.length]. rewrite map_length. reflexivity. }
      rewrite (rx_attachments loads mloads SerDefault _ r0 _ ); [| |exact Hadd].
      * cbn [rp]. subst q.
        destruct Ht as [-> | ->]; cbn [Z.eqb Z.add];
          match goal with |- context [type_is ?p BINARY_EVENT] =>
            let b := eval vm_compute in (type_is (mkPacket (ptype p) None None PNone) BINARY_EVENT) in
            change (type_is p BINARY_EVENT) with b end;
          cbv iota;
          match goal with |- context [bind ?X _] => destruct X as [evs|e] end; reflexivity.
      * destruct (leaves payload); [contradiction|discriminate].
    + (* not binary: delivered at once *)
      pose proof (nobytes_leaves _ Hb) as Hlv. rewrite (noleaves_subst _ Hlv), Hlv. cbn [map].
      subst q. destruct Ht as [-> | ->].
      * change (type_is (mkPacket (PInt 2) (ns_dec (Some ns)) id payload) EVENT) with true. cbv iota.
        cbn [Z.eqb]. cbv iota.
        destruct (server_dispatch_event (mkPacket (PInt 2) (ns_dec (Some ns)) id payload)) as [evs|e];
          cbn [bind rx_run]; [rewrite app_nil_r|]; reflexivity.
      * change (type_is (mkPacket (PInt 3) (ns_dec (Some ns)) id payload) EVENT) with false.
        change (type_is (mkPacket (PInt 3) (ns_dec (Some ns)) id payload) ACK) with true. cbv iota.
        cbn [Z.eqb]. cbv iota.
        destruct (server_dispatch_ack (mkPacket (PInt 3) (ns_dec (Some ns)) id payload)) as [evs|e];
          cbn [bind rx_run]; [rewrite app_nil_r|]; reflexivity.
Qed.
