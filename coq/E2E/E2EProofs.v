(* C02 - proofs about E2E/Pipe.v and Codec/MsgPack.v.  Proofs only.
   The default-serializer results are corollaries of the C01 development: they reuse
   encode_total, encode_bin / encode_nonbin, decode_str_bin / decode_str_nonbin (header
   scanner), recon_subst (binary reconstruction), and the pointwise JSON-oracle premise of
   C01_roundtrip_pointwise_partial (json.loads inverts json.dumps on the ONE text of this
   packet), so no theorem here is vacuous because of a contradictory universal premise. *)
From VT Require Import Base.PyStrProofs Codec.JsonProofs Codec.PacketProofs Codec.SpecProofs.
From VT Require Import Codec.Packet Codec.SpecCodec Check.C01Check Check.C01CheckProofs.
From VT Require Import Codec.MsgPack E2E.Pipe Check.C02Check.
From Coq Require Import Lia ZifyBool ZifyN.
Open Scope N_scope.

(* ================================================================================== *)
(* 1. the two sides run the same code                                                   *)
(* ================================================================================== *)
Lemma client_pack_eq d : client_pack d = pack d.
Proof. destruct d; reflexivity. Qed.
Lemma client_split_event_eq d : client_split_event d = split_event d.
Proof. destruct d; reflexivity. Qed.
Lemma client_star_args_eq d : client_star_args d = star_args d.
Proof. destruct d; reflexivity. Qed.
Lemma client_ns_eq ns : client_ns ns = ns_or_default ns.
Proof. destruct ns as [[|c r]|]; reflexivity. Qed.

Lemma client_dispatch_event_eq p : client_dispatch_event p = server_dispatch_event p.
Proof. unfold client_dispatch_event, server_dispatch_event. rewrite client_split_event_eq, client_ns_eq. reflexivity. Qed.
Lemma client_dispatch_ack_eq p : client_dispatch_ack p = server_dispatch_ack p.
Proof. unfold client_dispatch_ack, server_dispatch_ack. rewrite client_star_args_eq, client_ns_eq. reflexivity. Qed.

Lemma client_rx_step_eq loads mloads ser st f :
  client_rx_step loads mloads ser st f = server_rx_step loads mloads ser st f.
Proof.
  unfold client_rx_step, server_rx_step, rx_step_with.
  destruct st as [r|].
  - destruct (add_attachment r f) as [[r' c]|e]; [|reflexivity]. cbn [bind].
    rewrite client_dispatch_event_eq, client_dispatch_ack_eq. reflexivity.
  - destruct (rx_decode loads mloads ser f) as [r|e]; [|reflexivity]. cbn [bind].
    rewrite client_dispatch_event_eq, client_dispatch_ack_eq. reflexivity.
Qed.

Lemma rx_step_dir loads mloads dir ser st f :
  rx_step loads mloads dir ser st f = server_rx_step loads mloads ser st f.
Proof. destruct dir; [reflexivity|apply client_rx_step_eq]. Qed.

Lemma rx_run_dir loads mloads dir ser : forall frames st,
  rx_run loads mloads dir ser st frames = rx_run loads mloads C2S ser st frames.
Proof.
  induction frames as [|f rest IH]; intro st; [reflexivity|].
  cbn [rx_run]. rewrite rx_step_dir. cbn [rx_step].
  destruct (server_rx_step loads mloads ser st f) as [[st1 e1]|e]; [|reflexivity]. cbn [bind].
  rewrite IH. reflexivity.
Qed.

Lemma sender_frames_dir mdumps dir ser ev data ns id :
  sender_frames mdumps dir ser ev data ns id = server_emit_frames mdumps ser ev data ns id.
Proof. destruct dir; [|reflexivity]. cbn [sender_frames]. unfold client_emit_frames, server_emit_frames. rewrite client_pack_eq. reflexivity. Qed.
Lemma ack_frames_dir mdumps dir ser r ns id :
  ack_frames mdumps dir ser r ns id = server_ack_frames mdumps ser r ns id.
Proof. destruct dir; [|reflexivity]. cbn [ack_frames]. unfold client_ack_frames, server_ack_frames. rewrite client_pack_eq. reflexivity. Qed.

(* ================================================================================== *)
(* 2. the reassembly loop                                                               *)
(* ================================================================================== *)
Lemma rx_run_app loads mloads dir ser : forall a st b,
  rx_run loads mloads dir ser st (a ++ b) =
  ('(st1, e1) <- rx_run loads mloads dir ser st a ;;
   '(st2, e2) <- rx_run loads mloads dir ser st1 b ;;
   Ok (st2, e1 ++ e2)).
Proof.
  induction a as [|f a IH]; intros st b.
  - cbn [app rx_run bind]. destruct (rx_run loads mloads dir ser st b) as [[st2 e2]|e]; reflexivity.
  - cbn [app rx_run]. destruct (rx_step loads mloads dir ser st f) as [[st1 e1]|e]; [|reflexivity]. cbn [bind].
    rewrite IH. destruct (rx_run loads mloads dir ser st1 a) as [[st2 e2]|e]; [|reflexivity]. cbn [bind].
    destruct (rx_run loads mloads dir ser st2 b) as [[st3 e3]|e]; [|reflexivity]. cbn [bind].
    rewrite app_assoc. reflexivity.
Qed.

(* the attachments of a binary packet, fed one by one while a packet is pending: nothing is
   delivered until the last one, which delivers the reconstructed packet and clears the state *)
Lemma rx_run_cons loads mloads dir ser st f rest :
  rx_run loads mloads dir ser st (f :: rest) =
  ('(st1, e1) <- rx_step loads mloads dir ser st f ;;
   '(st2, e2) <- rx_run loads mloads dir ser st1 rest ;;
   Ok (st2, e1 ++ e2)).
Proof. reflexivity. Qed.

Lemma rx_attachments loads mloads ser : forall atts r r',
  atts <> [] ->
  add_all r atts = Ok (r', last_only (List.length atts)) ->
  rx_run loads mloads C2S ser (Some r) atts =
  (evs <- (if type_is (rp r') BINARY_EVENT then server_dispatch_event (rp r') else server_dispatch_ack (rp r')) ;;
   Ok (None, evs)).
Proof.
  induction atts as [|a atts IH]; intros r r' Hne H; [contradiction|].
  cbn [add_all] in H. rewrite rx_run_cons. cbn [rx_step]. unfold server_rx_step, rx_step_with.
  destruct (add_attachment r a) as [[r1 b]|e]; [|discriminate]. cbn [bind] in *.
  destruct (add_all r1 atts) as [[r2 bs]|e] eqn:E2; [|discriminate]. cbn [bind] in H.
  destruct atts as [|a2 atts'].
  - cbn [add_all] in E2. inversion E2; subst r2 bs. cbn [List.length last_only] in H.
    inversion H; subst r1 b. cbn [rx_run].
    destruct (if type_is (rp r') BINARY_EVENT then server_dispatch_event (rp r') else server_dispatch_ack (rp r'))
      as [evs|e]; cbn [bind]; [rewrite app_nil_r|]; reflexivity.
  - change (List.length (a :: a2 :: atts')) with (S (S (List.length atts'))) in H.
    rewrite last_only_SS in H. inversion H; subst r2 b bs. cbn [bind app].
    rewrite (IH r1 r'); [|discriminate|exact E2].
    destruct (if type_is (rp r') BINARY_EVENT then server_dispatch_event (rp r') else server_dispatch_ack (rp r'))
      as [evs|e]; reflexivity.
Qed.

(* ================================================================================== *)
(* 3. one packet through the default serializer: exact frames, exact decoded packet    *)
(* ================================================================================== *)
Lemma frame_exact loads t data ns id :
  wf_input t data ns id = true ->
  (has_bytes data = true -> (t = 2 \/ t = 3)%Z) ->
  N.of_nat (List.length (leaves data)) < 10000000000 ->
  (forall s, json_dumps (subst data 0) = Ok s -> loads s = Ok (subst data 0)) ->
  exists p f, ctor true t data ns id None = Ok p /\
    encode p = Ok (f, if has_bytes data then Some (leaves data) else None) /\
    decode loads (PStr f) =
      Ok (mkR (mkPacket (PInt (promoted t data None)) (ns_dec ns) id (subst data 0))
              (N.of_nat (List.length (leaves data))) []).
Proof.
  intros Hwf0 Hbin Hcnt Hloads.
  destruct (encode_total t data ns id Hwf0 Hbin) as (p & f & atts & Hc & He & Ha).
  exists p, f. split; [exact Hc|].
  pose proof Hwf0 as Hwf. unfold wf_input in Hwf. repeat rewrite andb_true_iff in Hwf.
  destruct Hwf as [[[[[[[H0 H4] Hns] Hid] Hd] Hnum] Hl] Hev].
  apply negb_true_iff in Hnum. apply wf_ns_ok in Hns. apply wf_id_ok in Hid.
  unfold ctor in Hc. cbn [andb] in Hc. unfold promoted.
  destruct (has_bytes data) eqn:Hb.
  - assert (Ht : (t = 2 \/ t = 3)%Z) by (apply Hbin; reflexivity).
    assert (Hp : p = mkPacket (PInt (t + 3)) ns id data).
    { destruct Ht as [-> | ->]; cbn in Hc; inversion Hc; reflexivity. }
    subst p. pose proof He as He0. apply encode_bin in He; [|lia]. destruct He as (js & Ejs & -> & ->).
    split; [exact He0|].
    assert (Hsn : is_number (subst data 0) = false).
    { destruct Ht as [-> | ->]; destruct data; try discriminate; reflexivity. }
    pose proof (dumps_opt_js_ok _ _ Hsn Ejs) as Hjs.
    pose proof (loads_js loads _ _ Hsn Ejs Hloads) as Hlj.
    unfold decode. cbn [truthy negb].
    replace (Z.of_N (Z.to_N (t + 3))) with (t + 3)%Z by lia.
    replace (PInt (t + 3)) with (PInt (Z.of_N (Z.to_N (t + 3)))) by (f_equal; lia).
    apply decode_str_bin; [lia|exact Hcnt|exact Hns|exact Hid|exact Hjs|exact Hlj].
  - inversion Hc; subst p. pose proof He as He0. apply encode_nonbin in He; [|lia].
    destruct He as (js & Ejs & -> & ->). split; [exact He0|].
    pose proof (nobytes_leaves _ Hb) as Hlv. rewrite (noleaves_subst _ Hlv) in *.
    pose proof (dumps_opt_js_ok _ _ Hnum Ejs) as Hjs.
    pose proof (loads_js loads _ _ Hnum Ejs Hloads) as Hlj.
    unfold decode. cbn [truthy negb]. rewrite Hlv. cbn [List.length].
    replace (PInt t) with (PInt (Z.of_N (Z.to_N t))) by (f_equal; lia).
    apply decode_str_nonbin; [lia|exact Hns|exact Hid|exact Hjs|exact Hlj].
Qed.

(* ================================================================================== *)
(* 4. the domain of C02 is inside the domain of C01                                     *)
(* ================================================================================== *)
Lemma wf_list_forallb l : wf_list l = forallb wf_data l.
Proof. induction l as [|x l IH]; [reflexivity|]. cbn [wf_list forallb]. fold wf_list. rewrite IH. reflexivity. Qed.

Lemma wf_payload_pack data : wf_payload data = true -> forallb wf_data (pack data) = true.
Proof.
  destruct data; cbn [wf_payload pack forallb]; intro H; try reflexivity;
    try (rewrite H; reflexivity); try exact H; try discriminate.
Qed.

Lemma wf_nsname_wf_ns ns : wf_nsname ns = true -> wf_ns (Some ns) = true.
Proof.
  destruct ns as [|c r]; cbn [wf_nsname wf_ns]; [discriminate|].
  destruct c as [|p]; [discriminate|].
  repeat (destruct p as [p|p|]; try discriminate).
  intro H. apply andb_true_iff in H as [H _]. exact H.
Qed.

Lemma wf_nsname_shape ns : wf_nsname ns = true ->
  exists r, ns = 47 :: r /\ existsb (N.eqb 63) r = false.
Proof.
  destruct ns as [|c r]; cbn [wf_nsname]; [discriminate|].
  destruct c as [|p]; [discriminate|].
  repeat (destruct p as [p|p|]; try discriminate).
  intro H. apply andb_true_iff in H as [_ H]. apply negb_true_iff in H. exists r. split; [reflexivity|exact H].
Qed.

(* the namespace the receiver reports is the one the message was sent on *)
Lemma ns_received ns : wf_nsname ns = true -> ns_or_default (ns_dec (Some ns)) = ns.
Proof.
  intro H. destruct (wf_nsname_shape ns H) as (r & -> & Hq). cbn [ns_dec].
  destruct (str_eqb (47 :: r) [47]) eqn:E.
  - apply str_eqb_eq in E. inversion E; subst. reflexivity.
  - unfold strip_query.
    assert (F : PyStr.find 63 (47 :: r) = None).
    { apply find_absent. intros x [Hx|Hx]; [subst x; discriminate|].
      apply (existsb_eqb_false _ _ Hq x Hx). }
    rewrite F. reflexivity.
Qed.

Lemma msg_wf_input m : msg_wf m = true ->
  wf_input (msg_type m) (msg_payload m) (Some (msg_ns m)) (msg_id m) = true /\
  wf_nsname (msg_ns m) = true /\ wf_data (msg_payload m) = true.
Proof.
  destruct m as [ev data ns id|r ns id]; cbn [msg_wf msg_type msg_payload msg_ns msg_id]; intro H;
    apply andb_true_iff in H as [H Hid]; apply andb_true_iff in H as [Hd Hns];
    pose proof (wf_payload_pack _ Hd) as Hp.
  - assert (Hw : wf_data (PList (PStr ev :: pack data)) = true).
    { rewrite wf_PList, wf_list_forallb. cbn [forallb wf_data]. exact Hp. }
    split; [|split; [exact Hns|exact Hw]].
    unfold wf_input. rewrite (wf_nsname_wf_ns _ Hns), Hid, Hw. reflexivity.
  - assert (Hw : wf_data (PList (pack r)) = true).
    { rewrite wf_PList, wf_list_forallb. exact Hp. }
    split; [|split; [exact Hns|exact Hw]].
    unfold wf_input. rewrite (wf_nsname_wf_ns _ Hns), Hid, Hw. reflexivity.
Qed.

(* ================================================================================== *)
(* 5. one message through the default serializer                                        *)
(* ================================================================================== *)
Definition pieces (f : str) (payload : pv) : list pv := PStr f :: map PBytes (leaves payload).

Lemma type_is_int a ns id d b : type_is (mkPacket (PInt a) ns id d) b = (a =? b)%Z.
Proof. reflexivity. Qed.

Lemma rx_packet_default loads mloads mdumps t payload ns id :
  (t = 2 \/ t = 3)%Z ->
  wf_input t payload (Some ns) id = true ->
  N.of_nat (List.length (leaves payload)) < 10000000000 ->
  (forall s, json_dumps (subst payload 0) = Ok s -> loads s = Ok (subst payload 0)) ->
  let q := mkPacket (PInt (promoted t payload None)) (ns_dec (Some ns)) id payload in
  exists f,
    (p <- ctor true t payload (Some ns) id None ;; encode_frames mdumps SerDefault p) = Ok (pieces f payload) /\
    rx_run loads mloads C2S SerDefault None (pieces f payload) =
      (evs <- (if (t =? 2)%Z then server_dispatch_event q else server_dispatch_ack q) ;; Ok (None, evs)).
Proof.
  intros Ht Hwf Hcnt Hl q.
  assert (Hd : wf_data payload = true).
  { unfold wf_input in Hwf. repeat rewrite andb_true_iff in Hwf. tauto. }
  destruct (frame_exact loads t payload (Some ns) id Hwf (fun _ => Ht) Hcnt Hl) as (p & f & Hc & He & Hdec).
  exists f. unfold pieces. split.
  - rewrite Hc. cbn [bind encode_frames]. rewrite He. cbn [bind]. unfold pieces_of. cbn [fst snd].
    destruct (has_bytes payload) eqn:Hb; [reflexivity|]. rewrite (nobytes_leaves _ Hb). reflexivity.
  - rewrite rx_run_cons. cbn [rx_step]. unfold server_rx_step, rx_step_with. cbn [rx_decode].
    rewrite Hdec. cbn [bind rp]. subst q. unfold promoted in *. rewrite !type_is_int.
    unfold EVENT, ACK, BINARY_EVENT, BINARY_ACK.
    destruct (has_bytes payload) eqn:Hb.
    + (* binary: header stored, attachments complete it *)
      assert (T1 : (t + 3 =? 2)%Z = false) by lia. assert (T2 : (t + 3 =? 3)%Z = false) by lia.
      assert (T3 : ((t + 3 =? 5)%Z || (t + 3 =? 6)%Z) = true) by lia.
      rewrite T1, T2, T3. cbn [bind app].
      pose proof (bytes_leaves _ Hb) as Hne.
      set (r0 := mkR (mkPacket (PInt (t + 3)) (ns_dec (Some ns)) id (subst payload 0))
                     (N.of_nat (List.length (leaves payload))) []).
      assert (Hadd : add_all r0 (map PBytes (leaves payload)) =
                     Ok (mkR (mkPacket (PInt (t + 3)) (ns_dec (Some ns)) id payload)
                             (N.of_nat (List.length (leaves payload))) (map PBytes (leaves payload)),
                         last_only (List.length (map PBytes (leaves payload))))).
      { rewrite (add_all_complete _ []); [|destruct (leaves payload); [contradiction|discriminate]|reflexivity|].
        - cbn [r0 rp pdata ptype pns pid rcount app].
          pose proof (recon_subst payload (wf_ph_free _ Hd) [] []) as R.
          cbn [List.length app] in R. rewrite app_nil_r in R. rewrite R. reflexivity.
        - cbn [r0 rcount List.length]. rewrite map_length. reflexivity. }
      assert (Hne2 : map PBytes (leaves payload) <> []).
      { destruct (leaves payload); [contradiction|discriminate]. }
      rewrite (rx_attachments loads mloads SerDefault _ r0 _ Hne2 Hadd).
      cbn [rp]. rewrite type_is_int. unfold BINARY_EVENT.
      assert (T4 : (t + 3 =? 5)%Z = (t =? 2)%Z) by lia. rewrite T4.
      match goal with |- context [if (t =? 2)%Z then ?A else ?B] =>
        destruct (if (t =? 2)%Z then A else B) as [evs|e] end; reflexivity.
    + (* not binary: delivered at once *)
      pose proof (nobytes_leaves _ Hb) as Hlv. rewrite (noleaves_subst _ Hlv), Hlv. cbn [map].
      destruct Ht as [-> | ->];
        change (2 =? 2)%Z with true; change (3 =? 2)%Z with false; change (3 =? 3)%Z with true; cbv iota;
        match goal with |- _ = bind ?X _ => destruct X as [evs|e] end;
        cbn [bind rx_run]; rewrite ?app_nil_r; reflexivity.
Qed.

(* ================================================================================== *)
(* 6. one message of the pipe, default serializer                                       *)
(* ================================================================================== *)
Theorem msg_through_default loads mloads mdumps dir m :
  msg_wf m = true -> msg_small m -> msg_json_ok loads m ->
  exists f,
    msg_frames mdumps dir SerDefault m = Ok (pieces f (msg_payload m)) /\
    rx_run loads mloads dir SerDefault None (pieces f (msg_payload m)) = Ok (None, [msg_call m]).
Proof.
  intros Hwf Hsmall Hjson. destruct (msg_wf_input m Hwf) as (Hin & Hns & _).
  destruct m as [ev data ns id|r ns id];
    cbn [msg_type msg_payload msg_ns msg_id msg_frames msg_call] in *; unfold msg_small, msg_json_ok in *;
    cbn [msg_payload] in *.
  - destruct (rx_packet_default loads mloads mdumps 2 _ ns id (or_introl eq_refl) Hin Hsmall Hjson)
      as (f & Hf & Hrx).
    exists f. split.
    + rewrite sender_frames_dir. exact Hf.
    + rewrite rx_run_dir, Hrx. change (2 =? 2)%Z with true. cbv iota.
      unfold server_dispatch_event. cbn [pdata split_event bind fst snd pns pid].
      rewrite (ns_received _ Hns). reflexivity.
  - destruct (rx_packet_default loads mloads mdumps 3 _ ns (Some id) (or_intror eq_refl) Hin Hsmall Hjson)
      as (f & Hf & Hrx).
    exists f. split.
    + rewrite ack_frames_dir. exact Hf.
    + rewrite rx_run_dir, Hrx. change (3 =? 2)%Z with false. cbv iota.
      unfold server_dispatch_ack. cbn [pdata star_args bind pns pid].
      rewrite (ns_received _ Hns). reflexivity.
Qed.

(* ================================================================================== *)
(* 7. one message of the pipe, msgpack serializer                                       *)
(* ================================================================================== *)
Lemma of_dict_to_dict t ns id d :
  of_dict (to_dict (mkPacket (PInt t) (Some ns) id d)) = Ok (mkPacket (PInt t) (Some ns) id d).
Proof. destruct id; reflexivity. Qed.

Lemma ns_or_default_nonempty ns : ns <> [] -> ns_or_default (Some ns) = ns.
Proof. destruct ns; [contradiction|reflexivity]. Qed.

Theorem msg_through_msgpack loads mloads mdumps dir m :
  msg_ns m <> [] -> msg_msgpack_ok mdumps mloads m ->
  exists b,
    msg_frames mdumps dir SerMsgpack m = Ok [PBytes b] /\
    rx_run loads mloads dir SerMsgpack None [PBytes b] = Ok (None, [msg_call m]).
Proof.
  intros Hns (b & Hd & Hne & Hl). exists b.
  assert (Hrx : rx_decode loads mloads SerMsgpack (PBytes b) = Ok (mkR (msg_packet m) 0 [])).
  { cbn [rx_decode]. unfold mp_decode. destruct b as [|c b]; [contradiction|]. cbn [truthy negb].
    rewrite Hl. cbn [bind]. unfold msg_packet. rewrite of_dict_to_dict. reflexivity. }
  destruct m as [ev data ns id|r ns id]; cbn [msg_ns msg_frames msg_call] in *.
  - split.
    + rewrite sender_frames_dir. unfold server_emit_frames, ctor. cbn [ser_binary andb bind encode_frames].
      unfold mp_encode. unfold msg_msgpack_ok, msg_packet in *. cbn [msg_type msg_ns msg_id msg_payload] in Hd.
      rewrite Hd. reflexivity.
    + rewrite rx_run_dir, rx_run_cons. cbn [rx_step]. unfold server_rx_step, rx_step_with.
      rewrite Hrx. cbn [bind rp]. unfold msg_packet. cbn [msg_type msg_ns msg_id msg_payload].
      rewrite !type_is_int. change (EVENT =? EVENT)%Z with true. cbv iota.
      unfold server_dispatch_event. cbn [pdata split_event bind fst snd pns pid rx_run app].
      destruct ns; [contradiction|reflexivity].
  - split.
    + rewrite ack_frames_dir. unfold server_ack_frames, ctor. cbn [ser_binary andb bind encode_frames].
      unfold mp_encode. unfold msg_msgpack_ok, msg_packet in *. cbn [msg_type msg_ns msg_id msg_payload] in Hd.
      rewrite Hd. reflexivity.
    + rewrite rx_run_dir, rx_run_cons. cbn [rx_step]. unfold server_rx_step, rx_step_with.
      rewrite Hrx. cbn [bind rp]. unfold msg_packet. cbn [msg_type msg_ns msg_id msg_payload].
      rewrite !type_is_int. change (ACK =? EVENT)%Z with false. change (ACK =? ACK)%Z with true. cbv iota.
      unfold server_dispatch_ack. cbn [pdata star_args bind pns pid rx_run app].
      destruct ns; [contradiction|reflexivity].
Qed.

(* the universal form of the msgpack hypothesis reaches every message of the library's domain *)
Lemma mp_list_forallb l : msgpackable (PList l) = forallb msgpackable l.
Proof.
  induction l as [|x l IH]; [reflexivity|].
  change (msgpackable (PList (x :: l))) with (msgpackable x && msgpackable (PList l)).
  rewrite IH. reflexivity.
Qed.
Lemma mp_payload_pack data : mp_payload data = true -> forallb msgpackable (pack data) = true.
Proof.
  destruct data; cbn [mp_payload pack forallb]; intro H; try reflexivity;
    try (rewrite H; reflexivity); try exact H; try discriminate.
Qed.
Definition mp_dict_go : list (pv * pv) -> bool :=
  fix go (kv : list (pv * pv)) : bool :=
    match kv with
    | [] => true
    | (k, x) :: r => match k with PStr s => forallb scalar_cp s | _ => false end && msgpackable x && go r
    end.
Lemma mp_PDict kv : msgpackable (PDict kv) = mp_keys_distinct (map fst kv) && mp_dict_go kv.
Proof. reflexivity. Qed.
Lemma mp_dict3 a b c :
  msgpackable (PDict [(k_type, a); (MsgPack.k_data, b); (k_nsp, c)]) = msgpackable a && msgpackable b && msgpackable c.
Proof.
  rewrite mp_PDict. cbn [map fst mp_dict_go].
  change (mp_keys_distinct [k_type; MsgPack.k_data; k_nsp]) with true.
  unfold k_type, MsgPack.k_data, k_nsp.
  change (forallb scalar_cp (s2l "type")) with true. change (forallb scalar_cp (s2l "data")) with true.
  change (forallb scalar_cp (s2l "nsp")) with true.
  destruct (msgpackable a), (msgpackable b), (msgpackable c); reflexivity.
Qed.
Lemma mp_dict4 a b c d :
  msgpackable (PDict [(k_type, a); (MsgPack.k_data, b); (k_nsp, c); (k_id, d)]) =
  msgpackable a && msgpackable b && msgpackable c && msgpackable d.
Proof.
  rewrite mp_PDict. cbn [map fst mp_dict_go].
  change (mp_keys_distinct [k_type; MsgPack.k_data; k_nsp; k_id]) with true.
  unfold k_type, MsgPack.k_data, k_nsp, k_id.
  change (forallb scalar_cp (s2l "type")) with true. change (forallb scalar_cp (s2l "data")) with true.
  change (forallb scalar_cp (s2l "nsp")) with true. change (forallb scalar_cp (s2l "id")) with true.
  destruct (msgpackable a), (msgpackable b), (msgpackable c), (msgpackable d); reflexivity.
Qed.

Lemma msg_mp_wf_dict m : msg_mp_wf m = true -> msgpackable (to_dict (msg_packet m)) = true.
Proof.
  destruct m as [ev data ns id|r ns id]; cbn [msg_mp_wf]; intro H.
  - apply andb_true_iff in H as [H Hid]. apply andb_true_iff in H as [H Hns].
    apply andb_true_iff in H as [Hev Hd]. pose proof (mp_payload_pack _ Hd) as Hp.
    assert (Hl : msgpackable (PList (PStr ev :: pack data)) = true).
    { rewrite mp_list_forallb. cbn [forallb msgpackable]. rewrite Hev, Hp. reflexivity. }
    unfold msg_packet, to_dict. cbn [msg_type msg_ns msg_id msg_payload ptype pns pid pdata].
    destruct id as [i|]; cbn [app]; [rewrite mp_dict4|rewrite mp_dict3]; rewrite Hl;
      cbn [msgpackable]; rewrite ?Hns, ?Hid; reflexivity.
  - apply andb_true_iff in H as [H Hid]. apply andb_true_iff in H as [Hd Hns].
    pose proof (mp_payload_pack _ Hd) as Hp.
    assert (Hl : msgpackable (PList (pack r)) = true) by (rewrite mp_list_forallb; exact Hp).
    unfold msg_packet, to_dict. cbn [msg_type msg_ns msg_id msg_payload ptype pns pid pdata app].
    rewrite mp_dict4, Hl. cbn [msgpackable]. rewrite ?Hns, ?Hid. reflexivity.
Qed.

(* ================================================================================== *)
(* 8. sequences of messages from one sender                                             *)
(* ================================================================================== *)
Definition delivered loads mloads mdumps dir ser (m : msg) : Prop :=
  exists fr, msg_frames mdumps dir ser m = Ok fr /\
             rx_run loads mloads dir ser None fr = Ok (None, [msg_call m]).

(* the frames of each message are consumed by the loop as a unit (a binary packet's attachments
   directly follow its text frame and nothing else of the same sender comes in between), the
   loop is back in its initial state after each message, so the handler calls come out in the
   order the messages were sent *)
Theorem order_generic loads mloads mdumps dir ser ms :
  Forall (delivered loads mloads mdumps dir ser) ms ->
  exists frs, all_frames mdumps dir ser ms = Ok frs /\
              rx_run loads mloads dir ser None frs = Ok (None, map msg_call ms).
Proof.
  induction 1 as [|m ms (fr & Hf & Hrx) _ (frs & Hfs & Hrxs)].
  - exists []. split; reflexivity.
  - exists (fr ++ frs). split.
    + cbn [all_frames]. rewrite Hf, Hfs. reflexivity.
    + rewrite rx_run_app, Hrx. cbn [bind]. rewrite Hrxs. reflexivity.
Qed.

Theorem order_default loads mloads mdumps dir ms :
  Forall (fun m => msg_wf m = true /\ msg_small m /\ msg_json_ok loads m) ms ->
  exists frs, all_frames mdumps dir SerDefault ms = Ok frs /\
              rx_run loads mloads dir SerDefault None frs = Ok (None, map msg_call ms) /\
              receiver_calls loads mloads dir SerDefault frs = Ok (map msg_call ms).
Proof.
  intro H. assert (HD : Forall (delivered loads mloads mdumps dir SerDefault) ms).
  { eapply Forall_impl; [|exact H]. intros m (Hw & Hs & Hj).
    destruct (msg_through_default loads mloads mdumps dir m Hw Hs Hj) as (f & H1 & H2).
    eexists; split; eassumption. }
  destruct (order_generic loads mloads mdumps dir SerDefault ms HD) as (frs & Hf & Hrx).
  - exists frs. repeat split; try assumption. unfold receiver_calls. rewrite Hrx. reflexivity.
Qed.

Theorem order_msgpack loads mloads mdumps dir ms :
  Forall (fun m => msg_ns m <> [] /\ msg_msgpack_ok mdumps mloads m) ms ->
  exists frs, all_frames mdumps dir SerMsgpack ms = Ok frs /\
              rx_run loads mloads dir SerMsgpack None frs = Ok (None, map msg_call ms) /\
              receiver_calls loads mloads dir SerMsgpack frs = Ok (map msg_call ms).
Proof.
  intro H. assert (HD : Forall (delivered loads mloads mdumps dir SerMsgpack) ms).
  { eapply Forall_impl; [|exact H]. intros m (Hn & Hm).
    destruct (msg_through_msgpack loads mloads mdumps dir m Hn Hm) as (b & H1 & H2).
    eexists; split; eassumption. }
  destruct (order_generic loads mloads mdumps dir SerMsgpack ms HD) as (frs & Hf & Hrx).
  - exists frs. repeat split; try assumption. unfold receiver_calls. rewrite Hrx. reflexivity.
Qed.

(* ================================================================================== *)
(* 9. the statements of C02                                                             *)
(* ================================================================================== *)
Theorem same_code :
  (forall d, client_pack d = pack d) /\
  (forall d, client_split_event d = split_event d) /\
  (forall d, client_star_args d = star_args d) /\
  (forall loads mloads ser st f, client_rx_step loads mloads ser st f = server_rx_step loads mloads ser st f) /\
  (forall mdumps ser ev data ns id,
     client_emit_frames mdumps ser ev data ns id = server_emit_frames mdumps ser ev data ns id) /\
  (forall mdumps ser r ns id, client_ack_frames mdumps ser r ns id = server_ack_frames mdumps ser r ns id).
Proof.
  split; [exact client_pack_eq|]. split; [exact client_split_event_eq|].
  split; [exact client_star_args_eq|]. split; [exact client_rx_step_eq|]. split.
  - intros. exact (sender_frames_dir mdumps C2S ser ev data ns id).
  - intros. exact (ack_frames_dir mdumps C2S ser r ns id).
Qed.

Theorem args_default loads mloads mdumps dir event data ns id :
  wf_payload data = true -> wf_nsname ns = true -> wf_id id = true ->
  msg_small (MEmit event data ns id) ->
  msg_json_ok loads (MEmit event data ns id) ->
  exists f,
    let frames := PStr f :: map PBytes (leaves (PList (PStr event :: pack data))) in
    sender_frames mdumps dir SerDefault event data ns id = Ok frames /\
    receiver_calls loads mloads dir SerDefault frames = Ok [EvCall ns (PStr event) (pack data) id].
Proof.
  intros Hd Hns Hid Hs Hj.
  destruct (msg_through_default loads mloads mdumps dir (MEmit event data ns id)) as (f & H1 & H2);
    [cbn [msg_wf]; rewrite Hd, Hns, Hid; reflexivity|exact Hs|exact Hj|].
  exists f. cbv zeta. split; [exact H1|]. unfold receiver_calls.
  unfold pieces in H2. cbn [msg_payload] in H2. rewrite H2. reflexivity.
Qed.

Theorem args_msgpack loads mloads mdumps dir event data ns id :
  ns <> [] ->
  msg_msgpack_ok mdumps mloads (MEmit event data ns id) ->
  exists b,
    sender_frames mdumps dir SerMsgpack event data ns id = Ok [PBytes b] /\
    receiver_calls loads mloads dir SerMsgpack [PBytes b] = Ok [EvCall ns (PStr event) (pack data) id].
Proof.
  intros Hns Hm.
  destruct (msg_through_msgpack loads mloads mdumps dir (MEmit event data ns id) Hns Hm) as (b & H1 & H2).
  exists b. split; [exact H1|]. unfold receiver_calls. rewrite H2. reflexivity.
Qed.

Theorem ack_default loads mloads mdumps dir r ns id :
  wf_payload r = true -> wf_nsname ns = true -> wf_id (Some id) = true ->
  msg_small (MAck r ns id) ->
  msg_json_ok loads (MAck r ns id) ->
  exists f,
    let frames := PStr f :: map PBytes (leaves (PList (pack r))) in
    ack_frames mdumps dir SerDefault r ns id = Ok frames /\
    receiver_calls loads mloads dir SerDefault frames = Ok [AckCall ns (Some id) (pack r)] /\
    callback_args loads mloads dir SerDefault frames = Ok (pack r).
Proof.
  intros Hd Hns Hid Hs Hj.
  destruct (msg_through_default loads mloads mdumps dir (MAck r ns id)) as (f & H1 & H2);
    [cbn [msg_wf]; rewrite Hd, Hns, Hid; reflexivity|exact Hs|exact Hj|].
  exists f. cbv zeta. split; [exact H1|]. unfold callback_args, receiver_calls.
  unfold pieces in H2. cbn [msg_payload] in H2. rewrite H2. split; reflexivity.
Qed.

Theorem ack_msgpack loads mloads mdumps dir r ns id :
  ns <> [] ->
  msg_msgpack_ok mdumps mloads (MAck r ns id) ->
  exists b,
    ack_frames mdumps dir SerMsgpack r ns id = Ok [PBytes b] /\
    receiver_calls loads mloads dir SerMsgpack [PBytes b] = Ok [AckCall ns (Some id) (pack r)] /\
    callback_args loads mloads dir SerMsgpack [PBytes b] = Ok (pack r).
Proof.
  intros Hns Hm.
  destruct (msg_through_msgpack loads mloads mdumps dir (MAck r ns id) Hns Hm) as (b & H1 & H2).
  exists b. split; [exact H1|]. unfold callback_args, receiver_calls. rewrite H2. split; reflexivity.
Qed.

(* call(): None / the single value / the tuple *)
Theorem call_result_shape r :
  call_result (pack r) = match r with
                         | PTuple [] => PNone
                         | PTuple [x] => x
                         | _ => r
                         end.
Proof. destruct r as [| | | | | |l|[|x [|y l]]|kv|n]; reflexivity. Qed.

(* the universal forms of the two library hypotheses imply the pointwise ones *)
Theorem json_universal_pointwise (loads : str -> Res pv) m :
  (forall v s, jsonable v = true -> json_dumps v = Ok s -> loads s = Ok v) ->
  msg_wf m = true -> lex_ok (msg_payload m) = true -> msg_small m -> msg_json_ok loads m.
Proof.
  intros Hu Hwf Hfl Hs s Hd. apply Hu; [|exact Hd].
  destruct (msg_wf_input m Hwf) as (_ & _ & Hw).
  apply wf_jsonable_subst; [exact Hw|exact Hfl|]. unfold msg_small in Hs. lia.
Qed.

Theorem msgpack_universal_pointwise mdumps mloads m :
  (forall v, msgpackable v = true -> msgpack_rt mdumps mloads v) ->
  msg_mp_wf m = true -> msg_msgpack_ok mdumps mloads m.
Proof. intros Hu Hwf. apply Hu. apply msg_mp_wf_dict. exact Hwf. Qed.

(* ================================================================================== *)
(* 10. non-vacuity: concrete messages satisfying every hypothesis, evaluated            *)
(* ================================================================================== *)
(* emit("ev", ({"k": [b"\x01\x02", -3], "f": 1.5}, b"\xff", "x"), namespace="/chat", callback=...)
   with ack id 7: a tuple of three arguments, two byte strings (one nested two levels down) *)
Definition ex_ev : str := s2l "ev".
Definition ex_ns : str := s2l "/chat".
Definition ex_arg1 : pv :=
  PDict [(PStr (s2l "k"), PList [PBytes [1; 2]; PInt (-3)]); (PStr (s2l "f"), PFloat (s2l "1.5"))].
Definition ex_data : pv := PTuple [ex_arg1; PBytes [255]; PStr (s2l "x")].
Definition ex_m1 : msg := MEmit ex_ev ex_data ex_ns (Some 7%Z).
Definition ex_text1 : str :=
  s2l "[""ev"",{""k"":[{""_placeholder"":true,""num"":0},-3],""f"":1.5},{""_placeholder"":true,""num"":1},""x""]".
Definition ex_frames1 : list pv :=
  [PStr (s2l "52-/chat,7" ++ ex_text1); PBytes [1; 2]; PBytes [255]].
(* the handler returns (b"\x09", {"ok": True}): a binary ACK with two arguments *)
Definition ex_ret : pv := PTuple [PBytes [9]; PDict [(PStr (s2l "ok"), PBool true)]].
Definition ex_m2 : msg := MAck ex_ret ex_ns 7%Z.
Definition ex_text2 : str := s2l "[{""_placeholder"":true,""num"":0},{""ok"":true}]".
Definition ex_frames2 : list pv := [PStr (s2l "61-/chat,7" ++ ex_text2); PBytes [9]].
(* a plain emit on the default namespace without ack: one argument, no bytes *)
Definition ex_m3 : msg := MEmit (s2l "msg") (PList [PInt 1; PNone]) (s2l "/") None.
Definition ex_text3 : str := s2l "[""msg"",[1,null]]".
Definition ex_frames3 : list pv := [PStr (s2l "2" ++ ex_text3)].
(* json.loads as a three-entry table *)
Definition ex_loads : str -> Res pv :=
  jstable_loads [(ex_text1, Ok (subst (msg_payload ex_m1) 0));
                 (ex_text2, Ok (subst (msg_payload ex_m2) 0));
                 (ex_text3, Ok (msg_payload ex_m3))].
(* msgpack as a three-entry table of (dictionary, blob) *)
Definition ex_mt : mtable :=
  [(to_dict (msg_packet ex_m1), [132; 1]); (to_dict (msg_packet ex_m2), [132; 2]);
   (to_dict (msg_packet ex_m3), [131; 3])].
Definition ex_mdumps := table_mdumps ex_mt.
Definition ex_mloads := table_mloads ex_mt.

Example ex_hyp_default :
  Forall (fun m => msg_wf m = true /\ msg_small m /\ msg_json_ok ex_loads m) [ex_m1; ex_m2; ex_m3].
Proof.
  repeat constructor; try (vm_compute; reflexivity);
    intros s H; vm_compute in H; inversion H; subst; vm_compute; reflexivity.
Qed.
Example ex_hyp_msgpack :
  Forall (fun m => msg_ns m <> [] /\ msg_msgpack_ok ex_mdumps ex_mloads m) [ex_m1; ex_m2; ex_m3].
Proof.
  repeat constructor; try discriminate;
    (eexists; split; [vm_compute; reflexivity|split; [discriminate|vm_compute; reflexivity]]).
Qed.

(* C02_args: both directions, both serializers *)
Example ex_args :
  forall dir,
  sender_frames ex_mdumps dir SerDefault ex_ev ex_data ex_ns (Some 7%Z) = Ok ex_frames1 /\
  receiver_calls ex_loads ex_mloads dir SerDefault ex_frames1 =
    Ok [EvCall ex_ns (PStr ex_ev) [ex_arg1; PBytes [255]; PStr (s2l "x")] (Some 7%Z)] /\
  sender_frames ex_mdumps dir SerMsgpack ex_ev ex_data ex_ns (Some 7%Z) = Ok [PBytes [132; 1]] /\
  receiver_calls ex_loads ex_mloads dir SerMsgpack [PBytes [132; 1]] =
    Ok [EvCall ex_ns (PStr ex_ev) [ex_arg1; PBytes [255]; PStr (s2l "x")] (Some 7%Z)].
Proof. intros [|]; repeat split; vm_compute; reflexivity. Qed.

(* C02_ack and C02_call_result *)
Example ex_ack :
  forall dir,
  ack_frames ex_mdumps dir SerDefault ex_ret ex_ns 7 = Ok ex_frames2 /\
  callback_args ex_loads ex_mloads dir SerDefault ex_frames2 = Ok [PBytes [9]; PDict [(PStr (s2l "ok"), PBool true)]] /\
  ack_frames ex_mdumps dir SerMsgpack ex_ret ex_ns 7 = Ok [PBytes [132; 2]] /\
  callback_args ex_loads ex_mloads dir SerMsgpack [PBytes [132; 2]] = Ok (pack ex_ret) /\
  call_result (pack ex_ret) = ex_ret /\
  call_result (pack PNone) = PNone /\ call_result (pack (PTuple [])) = PNone /\
  call_result (pack (PTuple [PInt 5])) = PInt 5 /\ call_result (pack (PList [PInt 5])) = PList [PInt 5].
Proof. intros [|]; repeat split; vm_compute; reflexivity. Qed.

(* C02_order: binary emit, binary ack, plain emit, back to back *)
Example ex_order :
  forall dir,
  all_frames ex_mdumps dir SerDefault [ex_m1; ex_m2; ex_m3] = Ok (ex_frames1 ++ ex_frames2 ++ ex_frames3) /\
  receiver_calls ex_loads ex_mloads dir SerDefault (ex_frames1 ++ ex_frames2 ++ ex_frames3) =
    Ok [msg_call ex_m1; msg_call ex_m2; msg_call ex_m3] /\
  all_frames ex_mdumps dir SerMsgpack [ex_m1; ex_m2; ex_m3] = Ok [PBytes [132; 1]; PBytes [132; 2]; PBytes [131; 3]] /\
  receiver_calls ex_loads ex_mloads dir SerMsgpack [PBytes [132; 1]; PBytes [132; 2]; PBytes [131; 3]] =
    Ok [msg_call ex_m1; msg_call ex_m2; msg_call ex_m3].
Proof. intros [|]; repeat split; vm_compute; reflexivity. Qed.

(* the reassembly loop is sensitive to what the ordering theorem excludes: another message of
   the same connection between a text frame and its attachment is taken for the attachment *)
Example ex_interleaved_breaks :
  receiver_calls ex_loads ex_mloads C2S SerDefault
    [PStr (s2l "52-/chat,7" ++ ex_text1); PStr (s2l "2" ++ ex_text3); PBytes [1; 2]; PBytes [255]]
  <> Ok [msg_call ex_m1; msg_call ex_m3].
Proof. vm_compute. discriminate. Qed.

(* the theorems applied to the examples *)
Example ex_order_thm dir := order_default ex_loads ex_mloads ex_mdumps dir _ ex_hyp_default.
Example ex_order_msgpack_thm dir := order_msgpack ex_loads ex_mloads ex_mdumps dir _ ex_hyp_msgpack.
