(* C02 - the acknowledgement registry of a SENDER and the timeline of a sender whose
   acknowledgements may arrive late.  Definitions only; executable.

     base_client.py 276-283 / base_manager.py 143-149   _generate_ack_id:
         callbacks[key] = {0: itertools.count(1)} on first use; id = next(...); callbacks[key][id] = cb
     client.py 405-421 / manager.py 82-97               _handle_ack / trigger_callback:
         callbacks[key][id] (KeyError, or the non-callable generator under 0 -> ignored),
         del callbacks[key][id], callback( *data )
     client.py 287-300 / server.py 259-269 (+ async)    call(): emit with an internal callback,
         callback_event.wait(timeout) -> TimeoutError, or callback_args[0] shaped by call_result

   key = the namespace (client) or the sid of the recipient (manager; one sid per namespace of a
   client, so the namespace stands for it here).

   Two machines run over the same timeline of what happens at the sender:
     a_step  the REAL registry: ids from a per-key counter, routing by (key, id)
     i_step  the IDEAL registry: a registration is outstanding from the moment it is made until
             the first acknowledgement that replies to it; an acknowledgement invokes exactly
             the outstanding registration it replies to.  No ids.
   E2E/AckTableProofs.v: on every timeline in which each acknowledgement carries the
   (key, id) of the event it replies to, both machines invoke the same callbacks with the same
   arguments and every call() ends the same way - however late the acknowledgements are. *)
From VT Require Export E2E.Pipe.
Open Scope N_scope.

(* whose callback: the one an application passed to emit(callback=) in operation `op`, or the
   closure created by the call() of operation `op` *)
Inductive who := WUser (op : N) | WCall (op : N).
Definition who_eqb (a b : who) : bool :=
  match a, b with
  | WUser x, WUser y | WCall x, WCall y => N.eqb x y
  | _, _ => false
  end.
Definition who_op (w : who) : N := match w with WUser n | WCall n => n end.

(* ---- Python dict: lookup, d[k] = v, del d[k] (keys are unique, iteration order is not used) ---- *)
Section Dict.
  Context {K V : Type} (eqb : K -> K -> bool).
  Fixpoint dget (l : list (K * V)) (k : K) : option V :=
    match l with [] => None | (k', v) :: r => if eqb k' k then Some v else dget r k end.
  Definition ddel (l : list (K * V)) (k : K) : list (K * V) :=
    filter (fun kv => negb (eqb (fst kv) k)) l.
  Definition dset (l : list (K * V)) (k : K) (v : V) : list (K * V) := (k, v) :: ddel l k.
End Dict.

(* callbacks[key] = {0: itertools.count(1), id: callback, ...} *)
Record slot := mkSlot { s_next : N; s_cbs : list (N * who) }.
Definition table := list (str * slot).
(* a key that was never used behaves as the table it gets on first use *)
Definition slot_of (t : table) (key : str) : slot :=
  match dget str_eqb t key with Some s => s | None => mkSlot 1 [] end.

(* _generate_ack_id(key, callback) *)
Definition t_reg (t : table) (key : str) (w : who) : table * N :=
  let s := slot_of t key in
  (dset str_eqb t key (mkSlot (s_next s + 1) (dset N.eqb (s_cbs s) (s_next s) w)), s_next s).

(* callbacks[key][id]: KeyError for an unknown key / id and for id None; key 0 holds the
   generator, which is not callable *)
Definition t_lookup (t : table) (key : str) (id : option Z) : option (N * who) :=
  match id with
  | Some i =>
      if (i <=? 0)%Z then None else
      match dget N.eqb (s_cbs (slot_of t key)) (Z.to_N i) with
      | Some w => Some (Z.to_N i, w)
      | None => None
      end
  | None => None
  end.
(* _handle_ack / trigger_callback: the callback to invoke, removed from the table *)
Definition t_ack (t : table) (key : str) (id : option Z) : table * option who :=
  match t_lookup t key id with
  | Some (i, w) =>
      let s := slot_of t key in
      (dset str_eqb t key (mkSlot (s_next s) (ddel N.eqb (s_cbs s) i)), Some w)
  | None => (t, None)
  end.

(* ---- the timeline of one sender ---- *)
Inductive aev :=
| AReg (key : str) (w : who)
    (* emit(callback=) / call(): _generate_ack_id; the EVENT leaves with (key, id) *)
| AAckWire (key : str) (id : option Z) (args : list pv)
    (* an ACK packet as it reaches _handle_ack *)
| AAckOf (w : who) (args : list pv)
    (* the ACK with which the peer replies to the EVENT of registration w reaches _handle_ack:
       it carries the (key, id) that EVENT left with *)
| AEnd (op : N).
    (* the wait of the call() of operation op is over (acknowledged or timed out) *)

Inductive aout :=
| OutId (id : N)                                (* AReg: the id drawn (the ideal registry has none: 0) *)
| OutFired (f : option (who * list pv))         (* AAck*: the callback invoked, with its arguments *)
| OutRes (r : Res pv).                          (* AEnd: what call() returns / raises *)

(* callback_args of the call() closures that were invoked: call() looks at callback_args[0] *)
Definition got_add (got : list (N * list pv)) (w : who) (args : list pv) : list (N * list pv) :=
  match w with
  | WCall n => match dget N.eqb got n with Some _ => got | None => (n, args) :: got end
  | WUser _ => got
  end.
Definition call_outcome (got : list (N * list pv)) (op : N) : Res pv :=
  match dget N.eqb got op with
  | Some args => Ok (call_result args)
  | None => Err TimeoutError
  end.

(* the real registry *)
Record ast := mkA {
  a_tab : table;
  a_regs : list (who * (str * N));              (* what each registration's EVENT left with *)
  a_got : list (N * list pv)
}.
Definition a_init : ast := mkA [] [] [].
Definition a_wire (s : ast) (key : str) (id : option Z) (args : list pv) : ast * aout :=
  match t_ack (a_tab s) key id with
  | (t', Some w) => (mkA t' (a_regs s) (got_add (a_got s) w args), OutFired (Some (w, args)))
  | (t', None) => (mkA t' (a_regs s) (a_got s), OutFired None)
  end.
Definition a_step (s : ast) (e : aev) : ast * aout :=
  match e with
  | AReg key w =>
      let '(t', id) := t_reg (a_tab s) key w in
      (mkA t' ((w, (key, id)) :: a_regs s) (a_got s), OutId id)
  | AAckWire key id args => a_wire s key id args
  | AAckOf w args =>
      match dget who_eqb (a_regs s) w with
      | Some (key, id) => a_wire s key (Some (Z.of_N id)) args
      | None => (s, OutFired None)
      end
  | AEnd op => (s, OutRes (call_outcome (a_got s) op))
  end.
Fixpoint a_run (s : ast) (evs : list aev) : list aout :=
  match evs with
  | [] => []
  | e :: r => let '(s', o) := a_step s e in o :: a_run s' r
  end.

(* the ideal registry *)
Record ist := mkI { i_live : list who; i_got : list (N * list pv) }.
Definition i_init : ist := mkI [] [].
Definition w_mem (w : who) (l : list who) : bool := existsb (who_eqb w) l.
Definition w_remove (w : who) (l : list who) : list who := filter (fun x => negb (who_eqb w x)) l.
Definition i_step (s : ist) (e : aev) : ist * aout :=
  match e with
  | AReg _ w => (mkI (w :: i_live s) (i_got s), OutId 0)
  | AAckOf w args =>
      if w_mem w (i_live s)
      then (mkI (w_remove w (i_live s)) (got_add (i_got s) w args), OutFired (Some (w, args)))
      else (s, OutFired None)
  | AAckWire _ _ _ => (s, OutFired None)        (* not an event of the ideal registry *)
  | AEnd op => (s, OutRes (call_outcome (i_got s) op))
  end.
Fixpoint i_run (s : ist) (evs : list aev) : list aout :=
  match evs with
  | [] => []
  | e :: r => let '(s', o) := i_step s e in o :: i_run s' r
  end.

(* ids are not part of what an application sees *)
Definition no_ids (o : aout) : aout := match o with OutId _ => OutId 0 | x => x end.

(* ---- what the theorems are about ---- *)
(* every acknowledgement of the timeline is the reply to a registration of the timeline *)
Definition index_form (evs : list aev) : Prop :=
  Forall (fun e => match e with AAckWire _ _ _ => False | _ => True end) evs.
(* the callbacks registered, in order *)
Fixpoint reg_whos (evs : list aev) : list who :=
  match evs with
  | [] => []
  | AReg _ w :: r => w :: reg_whos r
  | _ :: r => reg_whos r
  end.
(* the callbacks invoked, in order *)
Fixpoint fired_whos (outs : list aout) : list who :=
  match outs with
  | [] => []
  | OutFired (Some (w, _)) :: r => w :: fired_whos r
  | _ :: r => fired_whos r
  end.
(* the peer answers the EVENT of registration w with the packed return value of the handler
   invocation for THAT event (C02_ack_partial / C02_ack_msgpack: the arguments reach _handle_ack
   as `pack r`) *)
Definition faithful (ret : who -> pv) (evs : list aev) : Prop :=
  Forall (fun e => match e with AAckOf w args => args = pack (ret w) | _ => True end) evs.

(* what one event of the timeline may produce, given what the handlers returned: an
   acknowledgement invokes nothing, or the callback of the operation it replies to with that
   operation's value; a call() raises TimeoutError or returns its own handler's value *)
Definition own_ok (ret : who -> pv) (e : aev) (o : aout) : Prop :=
  match e, o with
  | AEnd op, OutRes r => r = Err TimeoutError \/ r = Ok (call_result (pack (ret (WCall op))))
  | AEnd _, _ => False
  | AAckOf w args, OutFired f => f = None \/ f = Some (w, pack (ret w))
  | AAckOf _ _, _ => False
  | _, _ => True
  end.

(* ---- the seeded mistake as a model variant, for the refutation example ---- *)
(* call() "cleans up" on timeout: callbacks.pop(key) - the counter goes with it *)
Definition a_step_pop (key_of : N -> str) (s : ast) (e : aev) : ast * aout :=
  match e with
  | AEnd op =>
      match call_outcome (a_got s) op with
      | Err x => (mkA (ddel str_eqb (a_tab s) (key_of op)) (a_regs s) (a_got s), OutRes (Err x))
      | r => (s, OutRes r)
      end
  | e => a_step s e
  end.
Fixpoint a_run_pop (key_of : N -> str) (s : ast) (evs : list aev) : list aout :=
  match evs with
  | [] => []
  | e :: r => let '(s', o) := a_step_pop key_of s e in o :: a_run_pop key_of s' r
  end.
