(* C02 - the pure functions of E2E/Pipe.v are the ones used inside the stateful models
   Server/Server.v and Client/Client.v (both validated against the real classes by their own
   correspondence checks), and the reassembly state of Pipe.v's loop is the `_binary_packet`
   transition of those models.  Proofs only. *)
From VT Require Import Base.StateM Codec.Packet Codec.MsgPack Manager.Manager E2E.Pipe.
From VT Require Server.Server Client.Client.
Open Scope N_scope.

Module S := VT.Server.Server.
Module C := VT.Client.Client.

(* ---- client model ---- *)
Theorem client_model_functions :
  (forall d, C.pack d = client_pack d) /\
  (forall d, C.split_event d = client_split_event d) /\
  (forall d, C.star_args d = client_star_args d) /\
  (forall ns, C.ns_or_default ns = client_ns ns) /\
  (forall a, C.shape_result a = call_result a) /\
  (forall enc, C.pieces_of enc = S.pieces_of enc) /\
  (forall p t, C.type_is p t = S.type_is p t).
Proof.
  repeat split.
Qed.

(* Client.emit builds the packet of client_emit_frames *)
Lemma client_emit_payload (data : pv) :
  (match data with PTuple l => l | PNone => [] | x => [x] end) = client_pack data.
Proof. reflexivity. Qed.

(* ---- monad bookkeeping ---- *)
Lemma bind_getS {St E A} (k : St -> M St E A) s : bindM getS k s = k s s.
Proof. unfold bindM, getS. destruct (k s s) as [[s2 e2] r]. reflexivity. Qed.
Lemma bind_lift_ok {St E A B} (a : A) (k : A -> M St E B) s : bindM (lift (Ok a)) k s = k a s.
Proof. unfold bindM, lift. destruct (k a s) as [[s2 e2] r]. reflexivity. Qed.

Lemma type_is_event_excl p : type_is p EVENT = true \/ type_is p ACK = true \/
                             (type_is p BINARY_EVENT || type_is p BINARY_ACK) = true ->
  type_is p CONNECT = false /\ type_is p DISCONNECT = false.
Proof.
  unfold type_is. destruct (ptype p) as [|[|]|z| | | | | | |]; cbn; try (intros [H|[H|H]]; discriminate).
  destruct z as [|q|q]; try (intros [H|[H|H]]; discriminate).
  repeat (destruct q as [q|q|]; try (intros [H|[H|H]]; discriminate)); split; reflexivity.
Qed.

(* ---- the `_binary_packet` transition: client model ---- *)
(* a frame that does not complete a packet: same new state, nothing delivered *)
Theorem client_model_pending c loads mloads payload (s : C.cli) st' :
  client_rx_step loads mloads SerDefault (C.binpkt s) payload = Ok (Some st', []) ->
  exists s', C.handle_eio_message c loads payload s = (s', [], Ok tt) /\ C.binpkt s' = Some st'.
Proof.
  unfold client_rx_step, rx_step_with, C.handle_eio_message. rewrite bind_getS.
  destruct (C.binpkt s) as [r|] eqn:Eb.
  - destruct (add_attachment r payload) as [[r' [|]]|e]; cbn [bind]; intro H.
    + destruct (if type_is (rp r') BINARY_EVENT then client_dispatch_event (rp r') else client_dispatch_ack (rp r'));
        discriminate.
    + inversion H; subst. eexists. split; reflexivity.
    + discriminate.
  - cbn [rx_decode]. destruct (decode loads payload) as [r|e]; cbn [bind]; [|discriminate].
    rewrite bind_lift_ok. cbv zeta. change (C.type_is (rp r)) with (type_is (rp r)).
    destruct (type_is (rp r) EVENT) eqn:T2.
    { destruct (client_dispatch_event (rp r)); discriminate. }
    destruct (type_is (rp r) ACK) eqn:T3.
    { destruct (client_dispatch_ack (rp r)); discriminate. }
    destruct (type_is (rp r) BINARY_EVENT || type_is (rp r) BINARY_ACK) eqn:T56; [|discriminate].
    intro H. inversion H; subst.
    destruct (type_is_event_excl (rp st') (or_intror (or_intror T56))) as [T0 T1].
    rewrite T0, T1. eexists. split; reflexivity.
Qed.

(* a frame that completes a message: the model hands exactly the packet Pipe.v dispatches to
   _handle_event / _handle_ack, after clearing `_binary_packet` *)
Theorem client_model_dispatch c loads mloads payload (s : C.cli) evs :
  client_rx_step loads mloads SerDefault (C.binpkt s) payload = Ok (None, evs) ->
  match C.binpkt s with
  | None =>
      exists r, decode loads payload = Ok r /\
        ((type_is (rp r) EVENT = true /\ client_dispatch_event (rp r) = Ok evs /\
          C.handle_eio_message c loads payload s =
          C.handle_event c (pns (rp r)) (pid (rp r)) (pdata (rp r)) s) \/
         (type_is (rp r) EVENT = false /\ type_is (rp r) ACK = true /\ client_dispatch_ack (rp r) = Ok evs /\
          C.handle_eio_message c loads payload s =
          C.handle_ack c (pns (rp r)) (pid (rp r)) (pdata (rp r)) s))
  | Some r0 =>
      exists r', add_attachment r0 payload = Ok (r', true) /\
        (if type_is (rp r') BINARY_EVENT then client_dispatch_event (rp r') else client_dispatch_ack (rp r')) = Ok evs /\
        C.handle_eio_message c loads payload s =
        (C.set_binpkt None ;;;
         (if type_is (rp r') BINARY_EVENT
          then C.handle_event c (pns (rp r')) (pid (rp r')) (pdata (rp r'))
          else C.handle_ack c (pns (rp r')) (pid (rp r')) (pdata (rp r')))) s
  end.
Proof.
  unfold client_rx_step, rx_step_with, C.handle_eio_message. rewrite !bind_getS.
  destruct (C.binpkt s) as [r|] eqn:Eb.
  - destruct (add_attachment r payload) as [[r' [|]]|e]; cbn [bind]; intro H; try discriminate.
    exists r'. split; [reflexivity|].
    destruct (if type_is (rp r') BINARY_EVENT then client_dispatch_event (rp r') else client_dispatch_ack (rp r'))
      as [evs'|e] eqn:D; [|discriminate]. cbn [bind] in H. inversion H; subst. split; reflexivity.
  - cbn [rx_decode]. destruct (decode loads payload) as [r|e]; cbn [bind]; [|discriminate].
    rewrite !bind_lift_ok. cbv zeta. change (C.type_is (rp r)) with (type_is (rp r)).
    intro H. exists r. split; [reflexivity|].
    destruct (type_is (rp r) EVENT) eqn:T2.
    + destruct (type_is_event_excl (rp r) (or_introl T2)) as [T0 T1]. rewrite T0, T1.
      left. split; [reflexivity|].
      destruct (client_dispatch_event (rp r)) as [evs'|e]; [|discriminate]. cbn [bind] in H. inversion H; subst.
      split; reflexivity.
    + destruct (type_is (rp r) ACK) eqn:T3.
      * destruct (type_is_event_excl (rp r) (or_intror (or_introl T3))) as [T0 T1]. rewrite T0, T1.
        right. split; [reflexivity|]. split; [reflexivity|].
        destruct (client_dispatch_ack (rp r)) as [evs'|e]; [|discriminate]. cbn [bind] in H. inversion H; subst.
        split; reflexivity.
      * destruct (type_is (rp r) BINARY_EVENT || type_is (rp r) BINARY_ACK); discriminate.
Qed.

(* and what _handle_event does with it: data[0] / data[1:] to the handler, `pack r` in the ACK *)
Theorem client_model_handle_event c p ns ev args id s :
  client_dispatch_event p = Ok [EvCall ns ev args id] ->
  C.handle_event c (pns p) (pid p) (pdata p) s =
  (r <~ C.trigger_event c ev ns args ;;
   match id with
   | Some i => C.send_packet ACK (PList (client_pack r)) ns (Some i)
   | None => ret tt
   end) s.
Proof.
  unfold client_dispatch_event, C.handle_event. intro H.
  change (C.split_event (pdata p)) with (client_split_event (pdata p)).
  destruct (client_split_event (pdata p)) as [[e a]|x]; [|discriminate]. cbn [bind fst snd] in H.
  inversion H; subst. cbv zeta. rewrite bind_lift_ok. reflexivity.
Qed.

(* ---- the same for the server model ---- *)
Theorem server_model_pending c loads mloads eio payload (s : S.srv) st' :
  S.uses_binary c = true ->
  server_rx_step loads mloads SerDefault (aget str_eqb (S.binpkt s) eio) payload = Ok (Some st', []) ->
  exists s', S.handle_eio_message c loads eio payload s = (s', [], Ok tt) /\
             S.binpkt s' = aset str_eqb (S.binpkt s) eio st'.
Proof.
  intro Hub. unfold server_rx_step, rx_step_with, S.handle_eio_message. rewrite bind_getS.
  destruct (aget str_eqb (S.binpkt s) eio) as [r|] eqn:Eb.
  - destruct (add_attachment r payload) as [[r' [|]]|e]; cbn [bind]; intro H.
    + destruct (if type_is (rp r') BINARY_EVENT then server_dispatch_event (rp r') else server_dispatch_ack (rp r'));
        discriminate.
    + inversion H; subst. eexists. split; reflexivity.
    + discriminate.
  - cbn [rx_decode]. unfold S.decode_any. rewrite Hub. destruct (decode loads payload) as [r|e]; cbn [bind]; [|discriminate].
    rewrite bind_lift_ok. cbv zeta.
    destruct (type_is (rp r) EVENT) eqn:T2.
    { destruct (server_dispatch_event (rp r)); discriminate. }
    destruct (type_is (rp r) ACK) eqn:T3.
    { destruct (server_dispatch_ack (rp r)); discriminate. }
    destruct (type_is (rp r) BINARY_EVENT || type_is (rp r) BINARY_ACK) eqn:T56; [|discriminate].
    intro H. inversion H; subst.
    destruct (type_is_event_excl (rp st') (or_intror (or_intror T56))) as [T0 T1].
    rewrite T0, T1. eexists. split; reflexivity.
Qed.

Theorem server_model_dispatch c loads mloads eio payload (s : S.srv) evs :
  S.uses_binary c = true ->
  server_rx_step loads mloads SerDefault (aget str_eqb (S.binpkt s) eio) payload = Ok (None, evs) ->
  match aget str_eqb (S.binpkt s) eio with
  | None =>
      exists r, decode loads payload = Ok r /\
        ((type_is (rp r) EVENT = true /\ server_dispatch_event (rp r) = Ok evs /\
          S.handle_eio_message c loads eio payload s =
          S.handle_event c eio (pns (rp r)) (pid (rp r)) (pdata (rp r)) s) \/
         (type_is (rp r) EVENT = false /\ type_is (rp r) ACK = true /\ server_dispatch_ack (rp r) = Ok evs /\
          S.handle_eio_message c loads eio payload s =
          S.handle_ack c eio (pns (rp r)) (pid (rp r)) (pdata (rp r)) s))
  | Some r0 =>
      exists r', add_attachment r0 payload = Ok (r', true) /\
        (if type_is (rp r') BINARY_EVENT then server_dispatch_event (rp r') else server_dispatch_ack (rp r')) = Ok evs /\
        S.handle_eio_message c loads eio payload s =
        (S.set_binpkt (fun b => adel str_eqb b eio) ;;;
         (if type_is (rp r') BINARY_EVENT
          then S.handle_event c eio (pns (rp r')) (pid (rp r')) (pdata (rp r'))
          else S.handle_ack c eio (pns (rp r')) (pid (rp r')) (pdata (rp r')))) s
  end.
Proof.
  intro Hub. unfold server_rx_step, rx_step_with, S.handle_eio_message. rewrite !bind_getS.
  destruct (aget str_eqb (S.binpkt s) eio) as [r|] eqn:Eb.
  - destruct (add_attachment r payload) as [[r' [|]]|e]; cbn [bind]; intro H; try discriminate.
    exists r'. split; [reflexivity|].
    destruct (if type_is (rp r') BINARY_EVENT then server_dispatch_event (rp r') else server_dispatch_ack (rp r'))
      as [evs'|e] eqn:D; [|discriminate]. cbn [bind] in H. inversion H; subst. split; reflexivity.
  - cbn [rx_decode]. unfold S.decode_any. rewrite Hub. destruct (decode loads payload) as [r|e]; cbn [bind]; [|discriminate].
    rewrite !bind_lift_ok. cbv zeta.
    intro H. exists r. split; [reflexivity|].
    destruct (type_is (rp r) EVENT) eqn:T2.
    + destruct (type_is_event_excl (rp r) (or_introl T2)) as [T0 T1]. rewrite T0, T1.
      left. split; [reflexivity|].
      destruct (server_dispatch_event (rp r)) as [evs'|e]; [|discriminate]. cbn [bind] in H. inversion H; subst.
      split; reflexivity.
    + destruct (type_is (rp r) ACK) eqn:T3.
      * destruct (type_is_event_excl (rp r) (or_intror (or_introl T3))) as [T0 T1]. rewrite T0, T1.
        right. split; [reflexivity|]. split; [reflexivity|].
        destruct (server_dispatch_ack (rp r)) as [evs'|e]; [|discriminate]. cbn [bind] in H. inversion H; subst.
        split; reflexivity.
      * destruct (type_is (rp r) BINARY_EVENT || type_is (rp r) BINARY_ACK); discriminate.
Qed.

(* what the server's _handle_event does with the dispatched packet, for a connected client:
   sid, data[1:] to the handler; `pack v` in the ACK when an id was sent *)
Theorem server_model_handle_event c eio p ns ev args id sid (s : S.srv) :
  server_dispatch_event p = Ok [EvCall ns ev args id] ->
  sid_from_eio (S.mg s) eio ns = Some sid ->
  is_connected (S.mg s) (Some sid) ns = true ->
  S.handle_event c eio (pns p) (pid p) (pdata p) s =
  (r <~ S.trigger_event c ev ns (PStr sid :: args) ;;
   match r, id with
   | Some v, Some i => S.send_packet c (Some eio) ACK (PList (pack v)) ns (Some i)
   | _, _ => ret tt
   end) s.
Proof.
  unfold server_dispatch_event, S.handle_event. intros H Hsid Hconn.
  destruct (split_event (pdata p)) as [[e a]|x] eqn:Es; [|discriminate]. cbn [bind fst snd] in H.
  inversion H; subst. cbv zeta. rewrite bind_getS, Hsid, bind_lift_ok, Hconn. reflexivity.
Qed.
