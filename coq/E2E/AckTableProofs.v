(* C02 - proofs about the acknowledgement registry (E2E/AckTable.v):
   routing by (key, id) with ids from a per-key counter that is never reset = routing by the
   identity of the registration, for acknowledgements that arrive at any later time. *)
From VT Require Import E2E.Pipe E2E.AckTable.
From Coq Require Import Lia ZifyBool ZifyN.
Open Scope N_scope.

(* ---- dict algebra ---- *)
Section DictLemmas.
  Context {K V : Type} (eqb : K -> K -> bool).
  Hypothesis eqb_eq : forall a b, eqb a b = true <-> a = b.

  Lemma eqb_refl_ a : eqb a a = true.
  Proof. apply eqb_eq. reflexivity. Qed.
  Lemma eqb_neq_ a b : a <> b -> eqb a b = false.
  Proof. intro H. destruct (eqb a b) eqn:E; [apply eqb_eq in E; contradiction|reflexivity]. Qed.

  Lemma dget_ddel_same (l : list (K * V)) k : dget eqb (ddel eqb l k) k = None.
  Proof.
    induction l as [|[k' v] r IH]; [reflexivity|]. unfold ddel in *. cbn [filter fst].
    destruct (eqb k' k) eqn:E; cbn [negb]; [exact IH|]. cbn [dget]. rewrite E. exact IH.
  Qed.
  Lemma dget_ddel_other (l : list (K * V)) k k' : k' <> k -> dget eqb (ddel eqb l k) k' = dget eqb l k'.
  Proof.
    intro Hne. induction l as [|[k0 v] r IH]; [reflexivity|]. unfold ddel in *. cbn [filter fst].
    destruct (eqb k0 k) eqn:E; cbn [negb].
    - apply eqb_eq in E. subst k0. cbn [dget]. rewrite (eqb_neq_ k k') by congruence. exact IH.
    - cbn [dget]. destruct (eqb k0 k'); [reflexivity|exact IH].
  Qed.
  Lemma dget_dset_same (l : list (K * V)) k v : dget eqb (dset eqb l k v) k = Some v.
  Proof. unfold dset. cbn [dget]. rewrite eqb_refl_. reflexivity. Qed.
  Lemma dget_dset_other (l : list (K * V)) k k' v : k' <> k -> dget eqb (dset eqb l k v) k' = dget eqb l k'.
  Proof.
    intro Hne. unfold dset. cbn [dget]. rewrite (eqb_neq_ k k') by congruence.
    apply dget_ddel_other. exact Hne.
  Qed.
  Lemma dget_In (l : list (K * V)) k v : dget eqb l k = Some v -> In (k, v) l.
  Proof.
    induction l as [|[k' v'] r IH]; cbn [dget]; [discriminate|].
    destruct (eqb k' k) eqn:E.
    - intro H. injection H as ->. apply eqb_eq in E. subst. left. reflexivity.
    - intro H. right. exact (IH H).
  Qed.
  Lemma In_dget (l : list (K * V)) k : In k (map fst l) -> exists v, dget eqb l k = Some v.
  Proof.
    induction l as [|[k' v'] r IH]; cbn [map fst In dget]; [contradiction|].
    intros [->|H].
    - rewrite eqb_refl_. eauto.
    - destruct (eqb k' k); [eauto|exact (IH H)].
  Qed.
  Lemma NoDup_In_dget (l : list (K * V)) k v : NoDup (map fst l) -> In (k, v) l -> dget eqb l k = Some v.
  Proof.
    induction l as [|[k' v'] r IH]; cbn [map fst In dget]; [contradiction|].
    intros Hnd [H|H].
    - injection H as -> ->. rewrite eqb_refl_. reflexivity.
    - inversion Hnd as [|? ? Hni Hnd']; subst. destruct (eqb k' k) eqn:E.
      + apply eqb_eq in E. subst k'. exfalso. apply Hni. apply (in_map fst) in H. exact H.
      + exact (IH Hnd' H).
  Qed.
End DictLemmas.

Lemma who_eqb_eq a b : who_eqb a b = true <-> a = b.
Proof.
  destruct a, b; cbn [who_eqb]; try (split; discriminate).
  - rewrite N.eqb_eq. split; congruence.
  - rewrite N.eqb_eq. split; congruence.
Qed.
Lemma who_eqb_refl a : who_eqb a a = true.
Proof. apply who_eqb_eq. reflexivity. Qed.

Lemma w_mem_In w l : w_mem w l = true <-> In w l.
Proof.
  unfold w_mem. rewrite existsb_exists. split.
  - intros [x [Hin He]]. apply who_eqb_eq in He. subst. exact Hin.
  - intro H. exists w. split; [exact H|apply who_eqb_refl].
Qed.
Lemma w_mem_cons_other w w' l : w <> w' -> w_mem w (w' :: l) = w_mem w l.
Proof.
  intro Hne. unfold w_mem. cbn [existsb]. destruct (who_eqb w w') eqn:E; [|reflexivity].
  apply who_eqb_eq in E. contradiction.
Qed.
Lemma w_mem_cons_same w l : w_mem w (w :: l) = true.
Proof. unfold w_mem. cbn [existsb]. rewrite who_eqb_refl. reflexivity. Qed.
Lemma w_mem_remove_same w l : w_mem w (w_remove w l) = false.
Proof.
  destruct (w_mem w (w_remove w l)) eqn:E; [|reflexivity].
  apply w_mem_In in E. unfold w_remove in E. apply filter_In in E. destruct E as [_ E].
  rewrite who_eqb_refl in E. discriminate.
Qed.
Lemma w_mem_remove_other w w' l : w' <> w -> w_mem w' (w_remove w l) = w_mem w' l.
Proof.
  intro Hne. destruct (w_mem w' l) eqn:E.
  - apply w_mem_In. apply w_mem_In in E. unfold w_remove. apply filter_In. split; [exact E|].
    destruct (who_eqb w w') eqn:E2; [apply who_eqb_eq in E2; congruence|reflexivity].
  - destruct (w_mem w' (w_remove w l)) eqn:E2; [|reflexivity].
    apply w_mem_In in E2. unfold w_remove in E2. apply filter_In in E2. destruct E2 as [E2 _].
    apply w_mem_In in E2. congruence.
Qed.
Lemma In_w_remove x w l : In x (w_remove w l) -> In x l /\ x <> w.
Proof.
  unfold w_remove. intro H. apply filter_In in H. destruct H as [H1 H2]. split; [exact H1|].
  intros ->. rewrite who_eqb_refl in H2. discriminate.
Qed.

(* ---- the table ---- *)
Lemma slot_of_dset_same t key s : slot_of (dset str_eqb t key s) key = s.
Proof. unfold slot_of. rewrite (dget_dset_same str_eqb str_eqb_eq). reflexivity. Qed.
Lemma slot_of_dset_other t key key' s : key' <> key -> slot_of (dset str_eqb t key s) key' = slot_of t key'.
Proof. intro H. unfold slot_of. rewrite (dget_dset_other str_eqb str_eqb_eq) by exact H. reflexivity. Qed.

Lemma str_dec (a b : str) : a = b \/ a <> b.
Proof. destruct (str_eqb a b) eqn:E; [left; apply str_eqb_eq; exact E|right; intros ->; rewrite str_eqb_refl in E; discriminate]. Qed.

(* ---- simulation ---- *)
Record Inv (s : ast) (i : ist) : Prop := mkInv {
  inv_got : a_got s = i_got i;
  inv_nodup : NoDup (map fst (a_regs s));
  inv_next : forall key, 1 <= s_next (slot_of (a_tab s) key);
  inv_lt : forall w key id, In (w, (key, id)) (a_regs s) -> 1 <= id < s_next (slot_of (a_tab s) key);
  inv_inj : forall w w' key id, In (w, (key, id)) (a_regs s) -> In (w', (key, id)) (a_regs s) -> w = w';
  inv_tab : forall w key id, In (w, (key, id)) (a_regs s) ->
              dget N.eqb (s_cbs (slot_of (a_tab s) key)) id = if w_mem w (i_live i) then Some w else None;
  inv_live : forall w, In w (i_live i) -> In w (map fst (a_regs s))
}.

Lemma Inv_init : Inv a_init i_init.
Proof.
  constructor; cbn; try reflexivity; try (intros; contradiction); try (constructor; fail);
    try (intro key; lia).
Qed.

Definition is_wire (e : aev) : Prop := match e with AAckWire _ _ _ => True | _ => False end.
Definition fresh_reg (s : ast) (e : aev) : Prop :=
  match e with AReg _ w => ~ In w (map fst (a_regs s)) | _ => True end.

Lemma sim_reg s i key w : Inv s i -> ~ In w (map fst (a_regs s)) ->
  Inv (fst (a_step s (AReg key w))) (fst (i_step i (AReg key w))).
Proof.
  intros [Hgot Hnd Hnext Hlt Hinj Htab Hlive] Hfresh.
  cbn [a_step i_step t_reg fst].
  set (sl := slot_of (a_tab s) key). set (n := s_next sl).
  constructor; cbn [a_got a_regs a_tab i_got i_live map fst].
  - exact Hgot.
  - constructor; assumption.
  - intro key'. destruct (str_dec key' key) as [->|Hne].
    + rewrite slot_of_dset_same. cbn [s_next]. specialize (Hnext key). fold sl in Hnext. fold n in Hnext. lia.
    + rewrite slot_of_dset_other by exact Hne. apply Hnext.
  - intros w' key' id' [H|H].
    + injection H as <- <- <-. rewrite slot_of_dset_same. cbn [s_next].
      specialize (Hnext key). fold sl in Hnext. fold n in Hnext. lia.
    + specialize (Hlt _ _ _ H). destruct (str_dec key' key) as [->|Hne].
      * rewrite slot_of_dset_same. cbn [s_next]. fold sl in Hlt. fold n in Hlt. lia.
      * rewrite slot_of_dset_other by exact Hne. exact Hlt.
  - intros w1 w2 key' id' [H1|H1] [H2|H2].
    + congruence.
    + injection H1 as <- <- <-. specialize (Hlt _ _ _ H2). fold sl in Hlt. fold n in Hlt. lia.
    + injection H2 as <- <- <-. specialize (Hlt _ _ _ H1). fold sl in Hlt. fold n in Hlt. lia.
    + exact (Hinj _ _ _ _ H1 H2).
  - intros w' key' id' [H|H].
    + injection H as <- <- <-. rewrite slot_of_dset_same. cbn [s_cbs].
      rewrite (dget_dset_same N.eqb N.eqb_eq). rewrite w_mem_cons_same. reflexivity.
    + assert (Hw : w' <> w).
      { intros ->. apply Hfresh. apply (in_map fst) in H. exact H. }
      rewrite (w_mem_cons_other _ _ _ Hw). rewrite <- (Htab _ _ _ H).
      destruct (str_dec key' key) as [->|Hne].
      * rewrite slot_of_dset_same. cbn [s_cbs]. specialize (Hlt _ _ _ H). fold sl in Hlt. fold n in Hlt.
        rewrite (dget_dset_other N.eqb N.eqb_eq) by lia. reflexivity.
      * rewrite slot_of_dset_other by exact Hne. reflexivity.
  - intros w' [<-|H]; [left; reflexivity|right; exact (Hlive _ H)].
Qed.

Lemma t_lookup_pos t key id : 1 <= id ->
  t_lookup t key (Some (Z.of_N id)) =
  match dget N.eqb (s_cbs (slot_of t key)) id with Some w => Some (id, w) | None => None end.
Proof.
  intro H. unfold t_lookup. replace (Z.of_N id <=? 0)%Z with false by lia. rewrite N2Z.id. reflexivity.
Qed.

Lemma sim_ackof s i w args : Inv s i ->
  Inv (fst (a_step s (AAckOf w args))) (fst (i_step i (AAckOf w args))) /\
  snd (a_step s (AAckOf w args)) = snd (i_step i (AAckOf w args)).
Proof.
  intros HI. pose proof HI as [Hgot Hnd Hnext Hlt Hinj Htab Hlive].
  cbn [a_step i_step].
  destruct (dget who_eqb (a_regs s) w) as [[key id]|] eqn:Er.
  - pose proof (dget_In who_eqb who_eqb_eq _ _ _ Er) as Hin.
    pose proof (Hlt _ _ _ Hin) as Hid. pose proof (Htab _ _ _ Hin) as Ht.
    unfold a_wire, t_ack. rewrite t_lookup_pos by lia. rewrite Ht.
    destruct (w_mem w (i_live i)) eqn:Em.
    + cbn [fst snd]. split; [|reflexivity].
      set (sl := slot_of (a_tab s) key) in *.
      constructor; cbn [a_got a_regs a_tab i_got i_live].
      * rewrite Hgot. reflexivity.
      * exact Hnd.
      * intro key'. destruct (str_dec key' key) as [->|Hne].
        -- rewrite slot_of_dset_same. cbn [s_next]. apply Hnext.
        -- rewrite slot_of_dset_other by exact Hne. apply Hnext.
      * intros w' key' id' H. specialize (Hlt _ _ _ H). destruct (str_dec key' key) as [->|Hne].
        -- rewrite slot_of_dset_same. cbn [s_next]. exact Hlt.
        -- rewrite slot_of_dset_other by exact Hne. exact Hlt.
      * exact Hinj.
      * intros w' key' id' H. destruct (str_dec key' key) as [->|Hne].
        -- rewrite slot_of_dset_same. cbn [s_cbs]. destruct (N.eq_dec id' id) as [->|Hni].
           ++ rewrite (Hinj _ _ _ _ H Hin). rewrite (dget_ddel_same N.eqb).
              rewrite w_mem_remove_same. reflexivity.
           ++ rewrite (dget_ddel_other N.eqb N.eqb_eq) by exact Hni.
              assert (Hw : w' <> w).
              { intros ->. pose proof (NoDup_In_dget who_eqb who_eqb_eq _ _ _ Hnd H) as E.
                rewrite Er in E. congruence. }
              rewrite (w_mem_remove_other _ _ _ Hw). exact (Htab _ _ _ H).
        -- rewrite slot_of_dset_other by exact Hne.
           assert (Hw : w' <> w).
           { intros ->. pose proof (NoDup_In_dget who_eqb who_eqb_eq _ _ _ Hnd H) as E.
             rewrite Er in E. congruence. }
           rewrite (w_mem_remove_other _ _ _ Hw). exact (Htab _ _ _ H).
      * intros w' H. apply In_w_remove in H. apply Hlive. tauto.
    + cbn [fst snd]. split; [|reflexivity]. destruct s; exact HI.
  - destruct (w_mem w (i_live i)) eqn:Em.
    + exfalso. apply w_mem_In in Em. apply Hlive in Em.
      destruct (In_dget who_eqb who_eqb_eq _ _ Em) as [v Hv]. congruence.
    + cbn [fst snd]. split; [exact HI|reflexivity].
Qed.

Lemma sim_run : forall evs s i, Inv s i -> index_form evs -> NoDup (reg_whos evs) ->
  (forall w, In w (reg_whos evs) -> ~ In w (map fst (a_regs s))) ->
  map no_ids (a_run s evs) = map no_ids (i_run i evs).
Proof.
  induction evs as [|e r IH]; intros s i HI Hidx Hnd Hfresh; [reflexivity|].
  inversion Hidx as [|? ? He Hidx']; subst.
  cbn [a_run i_run].
  destruct e as [key w|key id args|w args|op].
  - pose proof (sim_reg s i key w HI (Hfresh w (or_introl eq_refl))) as HI'.
    cbn [reg_whos] in Hnd, Hfresh. inversion Hnd as [|? ? Hni Hnd']; subst.
    destruct (a_step s (AReg key w)) as [s' o] eqn:Ea. destruct (i_step i (AReg key w)) as [i' o'] eqn:Ei.
    cbn [fst] in HI'. cbn [map]. f_equal.
    + cbn [a_step t_reg] in Ea. cbn [i_step] in Ei. injection Ea as <- <-. injection Ei as <- <-. reflexivity.
    + apply IH; try assumption. intros w' Hin.
      cbn [a_step t_reg] in Ea. injection Ea as <- _. cbn [a_regs map fst]. intros [<-|H]; [contradiction|].
      exact (Hfresh w' (or_intror Hin) H).
  - contradiction.
  - pose proof (sim_ackof s i w args HI) as [HI' Ho].
    assert (Hregs : map fst (a_regs (fst (a_step s (AAckOf w args)))) = map fst (a_regs s)).
    { cbn [a_step]. destruct (dget who_eqb (a_regs s) w) as [[key id]|]; [|reflexivity].
      unfold a_wire. destruct (t_ack (a_tab s) key (Some (Z.of_N id))) as [t' [w'|]]; reflexivity. }
    destruct (a_step s (AAckOf w args)) as [s' o] eqn:Ea. destruct (i_step i (AAckOf w args)) as [i' o'] eqn:Ei.
    cbn [fst snd] in *. subst o'. cbn [map]. f_equal. apply IH; try assumption.
    rewrite Hregs. exact Hfresh.
  - cbn [a_step i_step map no_ids]. rewrite (inv_got _ _ HI). f_equal. apply IH; assumption.
Qed.

(* routing by (key, id) = routing by the identity of the registration *)
Theorem ack_routing : forall evs,
  index_form evs -> NoDup (reg_whos evs) ->
  map no_ids (a_run a_init evs) = map no_ids (i_run i_init evs).
Proof.
  intros evs Hidx Hnd. apply sim_run; try assumption; [exact Inv_init|].
  intros w _ H. exact H.
Qed.

(* ---- what the ideal registry delivers ---- *)
Definition got_ok (ret : who -> pv) (got : list (N * list pv)) : Prop :=
  forall n args, dget N.eqb got n = Some args -> args = pack (ret (WCall n)).

Lemma got_add_ok ret got w args : got_ok ret got -> args = pack (ret w) -> got_ok ret (got_add got w args).
Proof.
  intros Hg ->. destruct w as [n|n]; cbn [got_add]; [exact Hg|].
  destruct (dget N.eqb got n) eqn:E; [exact Hg|].
  intros m a. cbn [dget]. destruct (N.eqb n m) eqn:En.
  - apply N.eqb_eq in En. subst m. intro H. injection H as <-. reflexivity.
  - apply Hg.
Qed.

Lemma ideal_own : forall ret evs i, faithful ret evs -> got_ok ret (i_got i) ->
  Forall2 (own_ok ret) evs (i_run i evs).
Proof.
  intros ret. induction evs as [|e r IH]; intros i Hf Hg; [constructor|].
  inversion Hf as [|? ? He Hf']; subst. cbn [i_run].
  destruct e as [key w|key id args|w args|op]; cbn [i_step].
  - constructor; [exact I|]. apply IH; assumption.
  - constructor; [exact I|]. apply IH; assumption.
  - destruct (w_mem w (i_live i)).
    + constructor; [cbn; right; rewrite He; reflexivity|]. apply IH; [assumption|].
      cbn [i_got]. apply got_add_ok; assumption.
    + constructor; [cbn; left; reflexivity|]. apply IH; assumption.
  - constructor; [|apply IH; assumption]. cbn. unfold call_outcome.
    destruct (dget N.eqb (i_got i) op) eqn:E; [right; rewrite (Hg _ _ E); reflexivity|left; reflexivity].
Qed.

(* a callback is invoked at most once *)
Lemma ideal_once : forall evs i, NoDup (reg_whos evs) -> NoDup (i_live i) ->
  (forall w, In w (i_live i) -> ~ In w (reg_whos evs)) ->
  NoDup (fired_whos (i_run i evs)) /\
  (forall w, In w (fired_whos (i_run i evs)) -> In w (i_live i) \/ In w (reg_whos evs)).
Proof.
  induction evs as [|e r IH]; intros i Hnd Hl Hdis; [split; [constructor|contradiction]|].
  cbn [i_run]. destruct e as [key w|key id args|w args|op]; cbn [i_step reg_whos fired_whos] in *.
  - inversion Hnd as [|? ? Hni Hnd']; subst.
    destruct (IH (mkI (w :: i_live i) (i_got i)) Hnd') as [H1 H2].
    + cbn [i_live]. constructor; [|exact Hl]. intro H. exact (Hdis _ H (or_introl eq_refl)).
    + cbn [i_live]. intros w' [<-|H]; [exact Hni|]. intro H'. exact (Hdis _ H (or_intror H')).
    + split; [exact H1|]. intros w' H. cbn [i_live] in H2.
      destruct (H2 _ H) as [[<-|H']|H']; [right; left; reflexivity|left; exact H'|right; right; exact H'].
  - destruct (IH i Hnd Hl Hdis) as [H1 H2]. split; assumption.
  - destruct (w_mem w (i_live i)) eqn:Em.
    + destruct (IH (mkI (w_remove w (i_live i)) (got_add (i_got i) w args)) Hnd) as [H1 H2].
      * cbn [i_live]. unfold w_remove. apply NoDup_filter. exact Hl.
      * cbn [i_live]. intros w' H. apply In_w_remove in H. apply Hdis. tauto.
      * cbn [fired_whos]. split.
        -- constructor; [|exact H1]. intro H. destruct (H2 _ H) as [H'|H'].
           ++ cbn [i_live] in H'. apply In_w_remove in H'. tauto.
           ++ apply w_mem_In in Em. exact (Hdis _ Em H').
        -- intros w' [<-|H]; [left; apply w_mem_In; exact Em|].
           destruct (H2 _ H) as [H'|H']; [|right; exact H'].
           cbn [i_live] in H'. apply In_w_remove in H'. left. tauto.
    + destruct (IH i Hnd Hl Hdis) as [H1 H2]. split; assumption.
  - destruct (IH i Hnd Hl Hdis) as [H1 H2]. split; assumption.
Qed.

(* the acknowledgement of an outstanding registration invokes it: with `ideal_once`, exactly once *)
Lemma ideal_fires : forall evs i w args, In w (i_live i) -> ~ In w (reg_whos evs) ->
  In (AAckOf w args) evs -> In w (fired_whos (i_run i evs)).
Proof.
  induction evs as [|e r IH]; intros i w args Hl Hnr Hin; [contradiction|].
  cbn [i_run]. destruct Hin as [->|Hin].
  - cbn [i_step]. apply w_mem_In in Hl. rewrite Hl. cbn [fired_whos]. left. reflexivity.
  - destruct e as [key w'|key id args'|w' args'|op]; cbn [i_step reg_whos fired_whos] in *.
    + apply (IH _ w args); [cbn [i_live]; right; exact Hl|intro H; apply Hnr; right; exact H|exact Hin].
    + apply (IH _ w args); assumption.
    + destruct (w_mem w' (i_live i)) eqn:Em.
      * cbn [fired_whos]. destruct (who_eqb w' w) eqn:E.
        -- apply who_eqb_eq in E. left. exact E.
        -- right. apply (IH _ w args); [|exact Hnr|exact Hin]. cbn [i_live].
           unfold w_remove. apply filter_In. split; [exact Hl|]. rewrite E. reflexivity.
      * apply (IH _ w args); assumption.
    + apply (IH _ w args); assumption.
Qed.

Lemma ideal_fires_reg : forall evs i key w args pre post,
  evs = pre ++ AReg key w :: post -> NoDup (reg_whos evs) -> In (AAckOf w args) post ->
  In w (fired_whos (i_run i evs)).
Proof.
  intros evs i key w args pre. revert evs i. induction pre as [|e r IH]; intros evs i post -> Hnd Hin.
  - cbn [app i_run i_step]. cbn [app reg_whos] in Hnd. inversion Hnd as [|? ? Hni _]; subst.
    apply (ideal_fires post _ w args); [left; reflexivity|exact Hni|exact Hin].
  - cbn [app i_run]. assert (Hnd' : NoDup (reg_whos (r ++ AReg key w :: post))).
    { cbn [app reg_whos] in Hnd. destruct e; try exact Hnd. inversion Hnd; assumption. }
    destruct (i_step i e) as [i' o] eqn:E.
    assert (Hr : In w (fired_whos (i_run i' (r ++ AReg key w :: post)))) by (eapply IH; eauto).
    destruct o as [id|[[w' a']|]|res]; cbn [fired_whos]; auto. right. exact Hr.
Qed.

Lemma fired_whos_strip outs : fired_whos (map no_ids outs) = fired_whos outs.
Proof.
  induction outs as [|o r IH]; [reflexivity|]. destruct o as [id|[[w0 a0]|]|res]; cbn [map no_ids fired_whos]; congruence.
Qed.
Lemma own_ok_strip ret evs outs : Forall2 (own_ok ret) evs (map no_ids outs) <-> Forall2 (own_ok ret) evs outs.
Proof.
  revert evs. induction outs as [|o r IH]; intro evs; cbn [map].
  - tauto.
  - split; intro H; inversion H as [|e ? evs' ? Ho Hr]; subst; constructor; try (apply IH; exact Hr);
      destruct e, o as [id0|[[w0 a0]|]|res]; cbn in *; tauto.
Qed.

(* the headline: on the REAL registry, however late the acknowledgements arrive *)
Theorem late_ack_own_value : forall ret evs,
  index_form evs -> NoDup (reg_whos evs) -> faithful ret evs ->
  (* every acknowledgement invokes nothing or the callback of the operation it replies to, with the
     value that operation's handler invocation returned; every call() raises TimeoutError or
     returns the value its own handler invocation returned *)
  Forall2 (own_ok ret) evs (a_run a_init evs) /\
  (* no callback is invoked twice *)
  NoDup (fired_whos (a_run a_init evs)) /\
  (* a callback whose acknowledgement arrives - at any time after the registration - is invoked *)
  (forall key w args pre post, evs = pre ++ AReg key w :: post -> In (AAckOf w args) post ->
     In w (fired_whos (a_run a_init evs))).
Proof.
  intros ret evs Hidx Hnd Hf. pose proof (ack_routing evs Hidx Hnd) as E.
  split; [|split].
  - apply own_ok_strip. rewrite E. apply own_ok_strip. apply ideal_own; [exact Hf|].
    intros n args H. discriminate.
  - rewrite <- fired_whos_strip, E, fired_whos_strip.
    apply ideal_once; [exact Hnd|constructor|intros w H; contradiction].
  - intros key w args pre post Hev Hin. rewrite <- fired_whos_strip, E, fired_whos_strip.
    eapply ideal_fires_reg; eauto.
Qed.

(* ---- examples ---- *)
Definition ns1 : str := s2l "/chat".
(* scenario A of the seeded change: call (times out), retry, the late ACK, the retry's ACK *)
Definition ex_timeline_A : list aev :=
  [AReg ns1 (WCall 0); AEnd 0; AReg ns1 (WCall 1);
   AAckOf (WCall 0) [PStr (s2l "answer-1")]; AAckOf (WCall 1) [PStr (s2l "answer-2")]; AEnd 1].
(* scenario B: a pending callback, an unrelated call() that times out, then the ACKs *)
Definition ex_timeline_B : list aev :=
  [AReg ns1 (WUser 0); AReg ns1 (WCall 1); AEnd 1;
   AAckOf (WUser 0) [PStr (s2l "noted")]; AAckOf (WCall 1) []].

Example ex_A_real :
  a_run a_init ex_timeline_A =
  [OutId 1; OutRes (Err TimeoutError); OutId 2;
   OutFired (Some (WCall 0, [PStr (s2l "answer-1")])); OutFired (Some (WCall 1, [PStr (s2l "answer-2")]));
   OutRes (Ok (PStr (s2l "answer-2")))].
Proof. vm_compute. reflexivity. Qed.
Example ex_B_real :
  a_run a_init ex_timeline_B =
  [OutId 1; OutId 2; OutRes (Err TimeoutError);
   OutFired (Some (WUser 0, [PStr (s2l "noted")])); OutFired (Some (WCall 1, []))].
Proof. vm_compute. reflexivity. Qed.
Example ex_hyp_A : index_form ex_timeline_A /\ NoDup (reg_whos ex_timeline_A) /\
  faithful (fun w => match w with WCall 0 => PStr (s2l "answer-1") | _ => PStr (s2l "answer-2") end) ex_timeline_A.
Proof.
  split; [repeat constructor|split; [|repeat constructor]].
  cbn. constructor; [cbn; intros [H|[]]; discriminate|constructor; [intros []|constructor]].
Qed.

(* the registry that forgets the whole per-key table when a call() times out is NOT the ideal
   one: the retried call() returns the value of the earlier call's handler, the pending callback
   is never invoked *)
Example ex_pop_refuted :
  a_run_pop (fun _ => ns1) a_init ex_timeline_A =
  [OutId 1; OutRes (Err TimeoutError); OutId 1;
   OutFired (Some (WCall 1, [PStr (s2l "answer-1")])); OutFired None;
   OutRes (Ok (PStr (s2l "answer-1")))] /\
  a_run_pop (fun _ => ns1) a_init ex_timeline_B =
  [OutId 1; OutId 2; OutRes (Err TimeoutError); OutFired None; OutFired None].
Proof. split; vm_compute; reflexivity. Qed.
