(* C02 with json.loads := the concrete parser of Codec/JsonParse.v: the oracle premise of the
   default-serializer theorems is discharged (lex_ok: strings have no lone surrogates, floats are
   printed tokens - the domain on which the concrete printer is injective). *)
From VT Require Import Base.PyVal Base.PyStr Codec.Json Codec.Packet Codec.SpecCodec Codec.JsonParse.
From VT Require Import Check.C01Check Check.C01CheckProofs Codec.MsgPack E2E.Pipe Check.C02Check E2E.E2EProofs.
From Coq Require Import List NArith ZArith.
Import ListNotations.

Lemma json_ok_concrete m :
  msg_wf m = true -> lex_ok (msg_payload m) = true -> msg_small m -> msg_json_ok json_loads m.
Proof.
  intros Hwf Hlex Hsm. apply json_universal_pointwise; auto.
  intros v s Hj Hd. apply loads_dumps_jsonable; assumption.
Qed.

Lemma args_concrete mloads mdumps dir event data ns id :
  wf_payload data = true -> wf_nsname ns = true -> wf_id id = true ->
  lex_ok (msg_payload (MEmit event data ns id)) = true ->
  msg_small (MEmit event data ns id) ->
  exists f,
    let frames := PStr f :: map PBytes (leaves (PList (PStr event :: pack data))) in
    sender_frames mdumps dir SerDefault event data ns id = Ok frames /\
    receiver_calls json_loads mloads dir SerDefault frames = Ok [EvCall ns (PStr event) (pack data) id].
Proof.
  intros H1 H2 H3 Hl Hs. apply args_default; auto.
  apply json_ok_concrete; auto. cbn [msg_wf]. rewrite H1, H2, H3. reflexivity.
Qed.

Lemma ack_concrete mloads mdumps dir r ns id :
  wf_payload r = true -> wf_nsname ns = true -> wf_id (Some id) = true ->
  lex_ok (msg_payload (MAck r ns id)) = true ->
  msg_small (MAck r ns id) ->
  exists f,
    let frames := PStr f :: map PBytes (leaves (PList (pack r))) in
    ack_frames mdumps dir SerDefault r ns id = Ok frames /\
    receiver_calls json_loads mloads dir SerDefault frames = Ok [AckCall ns (Some id) (pack r)] /\
    callback_args json_loads mloads dir SerDefault frames = Ok (pack r).
Proof.
  intros H1 H2 H3 Hl Hs. apply ack_default; auto.
  apply json_ok_concrete; auto. cbn [msg_wf]. rewrite H1, H2, H3. reflexivity.
Qed.

Lemma order_concrete mloads mdumps dir ms :
  Forall (fun m => msg_wf m = true /\ lex_ok (msg_payload m) = true /\ msg_small m) ms ->
  exists frs, all_frames mdumps dir SerDefault ms = Ok frs /\
              rx_run json_loads mloads dir SerDefault None frs = Ok (None, map msg_call ms) /\
              receiver_calls json_loads mloads dir SerDefault frs = Ok (map msg_call ms).
Proof.
  intros H. apply order_default.
  eapply Forall_impl; [|exact H]. cbn beta. intros m (Hw & Hl & Hs).
  split; [exact Hw|]. split; [exact Hs|]. apply json_ok_concrete; auto.
Qed.
