(* Python str operations used by the packet codec: find, slices, isdigit, int(), str(int). *)
From VT Require Export Base.PyVal Base.Unicode.
From Coq Require Import Lia.
Open Scope N_scope.

Fixpoint find (c : N) (s : str) : option nat :=
  match s with
  | [] => None
  | x :: r => if N.eqb x c then Some O else option_map S (find c r)
  end.

Definition in_ranges (rs : list (N * N)) (c : N) : bool :=
  existsb (fun r => N.leb (fst r) c && N.leb c (snd r)) rs.
Definition is_digit (c : N) : bool := in_ranges digit_ranges c.
Definition is_decimal (c : N) : bool := in_ranges decimal_ranges c.
Fixpoint dec_val_in (rs : list (N * N)) (c : N) : option N :=
  match rs with
  | [] => None
  | (lo, hi) :: r => if N.leb lo c && N.leb c hi then Some ((c - lo) mod 10) else dec_val_in r c
  end.
Definition dec_val (c : N) : option N := dec_val_in decimal_ranges c.

(* str.isdigit(): non-empty and every character has the digit property *)
Definition isdigit_str (s : str) : bool :=
  match s with [] => false | _ => forallb is_digit s end.

(* int(s) for the strings the decoder passes it (non-empty, all isdigit()):
   decimal value if every character is a decimal digit (Nd), ValueError otherwise. *)
Fixpoint int_acc (s : str) (acc : N) : option N :=
  match s with
  | [] => Some acc
  | c :: r => match dec_val c with Some d => int_acc r (acc * 10 + d) | None => None end
  end.
Definition py_int (s : str) : Res N :=
  match s with
  | [] => Err ValueError
  | _ => match int_acc s 0 with Some n => Ok n | None => Err ValueError end
  end.

(* str(n) for n >= 0 *)
Fixpoint digits_fuel (fuel : nat) (n : N) : str :=
  match fuel with
  | O => [48 + n mod 10]
  | S f => if n <? 10 then [48 + n] else digits_fuel f (n / 10) ++ [48 + n mod 10]
  end.
Definition str_of_N (n : N) : str := digits_fuel (N.to_nat (N.log2 n)) n.
Definition str_of_Z (z : Z) : str :=
  match z with
  | Z0 => [48]
  | Zpos p => str_of_N (Npos p)
  | Zneg p => 45 :: str_of_N (Npos p)
  end.

Definition slice_to (n : nat) (s : str) : str := firstn n s.
Definition slice_from (n : nat) (s : str) : str := skipn n s.

(* length of the maximal prefix of digit characters, capped: the id scanner *)
Fixpoint digit_run (cap : nat) (s : str) : nat :=
  match cap, s with
  | S k, c :: r => if is_digit c then S (digit_run k r) else O
  | _, _ => O
  end.

Definition hexdigit (n : N) : N := if n <? 10 then 48 + n else 87 + n.
Definition hex4 (n : N) : str :=
  [hexdigit (n / 4096 mod 16); hexdigit (n / 256 mod 16); hexdigit (n / 16 mod 16); hexdigit (n mod 16)].
