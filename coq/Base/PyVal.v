(* Python value universe shared by every model in this development. *)
From Coq Require Export List ZArith NArith Bool String Ascii.
Export ListNotations.
Open Scope N_scope.

(* ---- exceptions and the result monad ---- *)
Inductive exn := ValueError | TypeError | KeyError | IndexError | AttributeError
               | BadNamespaceError | ConnectionError | TimeoutError | DisconnectedError
               | ConnectionRefused | RuntimeError | OracleMiss | OtherError.
Definition exn_eqb (a b : exn) : bool :=
  match a, b with
  | ValueError, ValueError | TypeError, TypeError | KeyError, KeyError
  | IndexError, IndexError | AttributeError, AttributeError
  | BadNamespaceError, BadNamespaceError | ConnectionError, ConnectionError
  | TimeoutError, TimeoutError | DisconnectedError, DisconnectedError
  | ConnectionRefused, ConnectionRefused | RuntimeError, RuntimeError
  | OracleMiss, OracleMiss | OtherError, OtherError => true
  | _, _ => false
  end.
Lemma exn_eqb_eq a b : exn_eqb a b = true <-> a = b.
Proof. destruct a, b; simpl; split; intro H; try reflexivity; try discriminate. Qed.

Inductive Res (T : Type) := Ok (t : T) | Err (e : exn).
Arguments Ok {T} t.
Arguments Err {T} e.
Definition bind {A B} (r : Res A) (k : A -> Res B) : Res B :=
  match r with Ok a => k a | Err e => Err e end.
Notation "x <- r ;; k" := (bind r (fun x => k))
  (at level 61, r at next level, right associativity).
Notation "' p <- r ;; k" := (bind r (fun x => match x with p => k end))
  (at level 61, p pattern, r at next level, right associativity).

(* ---- strings are lists of code points ---- *)
Definition str := list N.
Fixpoint s2l (s : string) : str :=
  match s with
  | EmptyString => []
  | String c r => N_of_ascii c :: s2l r
  end.
Fixpoint str_eqb (a b : str) : bool :=
  match a, b with
  | [], [] => true
  | x :: a', y :: b' => N.eqb x y && str_eqb a' b'
  | _, _ => false
  end.
Lemma str_eqb_eq a b : str_eqb a b = true <-> a = b.
Proof.
  revert b; induction a as [|x a IH]; intros [|y b]; simpl; split; intro H;
    try reflexivity; try discriminate.
  - apply andb_true_iff in H as [H1 H2]. apply N.eqb_eq in H1. apply IH in H2. congruence.
  - inversion H; subst. rewrite N.eqb_refl. simpl. apply IH. reflexivity.
Qed.
Lemma str_eqb_refl a : str_eqb a a = true.
Proof. apply str_eqb_eq; reflexivity. Qed.

(* ---- values ---- *)
Inductive pv :=
| PNone
| PBool (b : bool)
| PInt (z : Z)
| PFloat (tok : str)            (* finite float carried as its repr token *)
| PStr (s : str)
| PBytes (b : str)
| PList (l : list pv)
| PTuple (l : list pv)
| PDict (kv : list (pv * pv))
| PObj (n : N).                 (* opaque identity: handler, callback, object *)

Section pv_ind_nested.
  Variable P : pv -> Prop.
  Hypothesis HNone : P PNone.
  Hypothesis HBool : forall b, P (PBool b).
  Hypothesis HInt : forall z, P (PInt z).
  Hypothesis HFloat : forall t, P (PFloat t).
  Hypothesis HStr : forall s, P (PStr s).
  Hypothesis HBytes : forall s, P (PBytes s).
  Hypothesis HList : forall l, Forall P l -> P (PList l).
  Hypothesis HTuple : forall l, Forall P l -> P (PTuple l).
  Hypothesis HDict : forall kv, Forall (fun p => P (fst p) /\ P (snd p)) kv -> P (PDict kv).
  Hypothesis HObj : forall n, P (PObj n).
  Fixpoint pv_ind' (v : pv) : P v :=
    match v with
    | PNone => HNone | PBool b => HBool b | PInt z => HInt z | PFloat t => HFloat t
    | PStr s => HStr s | PBytes s => HBytes s | PObj n => HObj n
    | PList l => HList l ((fix go (l : list pv) : Forall P l :=
        match l with [] => Forall_nil _ | x :: r => Forall_cons _ (pv_ind' x) (go r) end) l)
    | PTuple l => HTuple l ((fix go (l : list pv) : Forall P l :=
        match l with [] => Forall_nil _ | x :: r => Forall_cons _ (pv_ind' x) (go r) end) l)
    | PDict kv => HDict kv ((fix go (l : list (pv*pv)) : Forall (fun p => P (fst p) /\ P (snd p)) l :=
        match l with [] => Forall_nil _
        | p :: r => Forall_cons (P:=fun p => P (fst p) /\ P (snd p)) p
                      (conj (pv_ind' (fst p)) (pv_ind' (snd p))) (go r) end) kv)
    end.
End pv_ind_nested.

(* structural equality *)
Fixpoint pv_eqb (a b : pv) {struct a} : bool :=
  match a, b with
  | PNone, PNone => true
  | PBool x, PBool y => Bool.eqb x y
  | PInt x, PInt y => Z.eqb x y
  | PFloat x, PFloat y => str_eqb x y
  | PStr x, PStr y => str_eqb x y
  | PBytes x, PBytes y => str_eqb x y
  | PObj x, PObj y => N.eqb x y
  | PList x, PList y | PTuple x, PTuple y =>
      (fix go (x y : list pv) : bool :=
         match x, y with
         | [], [] => true
         | u :: x', v :: y' => pv_eqb u v && go x' y'
         | _, _ => false
         end) x y
  | PDict x, PDict y =>
      (fix go (x y : list (pv*pv)) : bool :=
         match x, y with
         | [], [] => true
         | (k, u) :: x', (k', v) :: y' => pv_eqb k k' && pv_eqb u v && go x' y'
         | _, _ => false
         end) x y
  | _, _ => false
  end.

Lemma pv_eqb_eq : forall a b, pv_eqb a b = true <-> a = b.
Proof.
  induction a as [| | | | | |l H|l H|kv H|] using pv_ind'; intros b0; destruct b0 as [| | | | | |l0|l0|kv0|]; simpl; split; intro E;
    try reflexivity; try discriminate.
  all: try (apply Bool.eqb_prop in E; congruence).
  all: try (inversion E; subst; apply Bool.eqb_reflx).
  all: try (apply Z.eqb_eq in E; congruence).
  all: try (inversion E; subst; apply Z.eqb_refl).
  all: try (apply str_eqb_eq in E; congruence).
  all: try (inversion E; subst; apply str_eqb_refl).
  all: try (apply N.eqb_eq in E; congruence).
  all: try (inversion E; subst; apply N.eqb_refl).
  - f_equal. revert l0 E. induction H as [|x l Hx Hl IH]; intros [|y l0] E; try discriminate; try reflexivity.
    apply andb_true_iff in E as [E1 E2]. apply Hx in E1. apply IH in E2. congruence.
  - inversion E; subst. clear E. induction H as [|x l Hx Hl IH]; [reflexivity|].
    apply andb_true_iff; split; [apply Hx; reflexivity| apply IH].
  - f_equal. revert l0 E. induction H as [|x l Hx Hl IH]; intros [|y l0] E; try discriminate; try reflexivity.
    apply andb_true_iff in E as [E1 E2]. apply Hx in E1. apply IH in E2. congruence.
  - inversion E; subst. clear E. induction H as [|x l Hx Hl IH]; [reflexivity|].
    apply andb_true_iff; split; [apply Hx; reflexivity| apply IH].
  - f_equal. revert kv0 E. induction H as [|[k x] l [Hk Hx] Hl IH]; intros [|[k' y] l0] E; try discriminate; try reflexivity.
    simpl in *. apply andb_true_iff in E as [E E2]. apply andb_true_iff in E as [E0 E1].
    apply Hk in E0. apply Hx in E1. apply IH in E2. congruence.
  - inversion E; subst. clear E. induction H as [|[k x] l [Hk Hx] Hl IH]; [reflexivity|]. simpl in *.
    apply andb_true_iff; split; [apply andb_true_iff; split|].
    + apply Hk; reflexivity. + apply Hx; reflexivity. + apply IH.
Qed.
Lemma pv_eqb_refl a : pv_eqb a a = true.
Proof. apply pv_eqb_eq; reflexivity. Qed.

(* Python truthiness *)
Definition truthy (v : pv) : bool :=
  match v with
  | PNone => false
  | PBool b => b
  | PInt z => negb (Z.eqb z 0)
  | PFloat t => negb (str_eqb t (s2l "0.0") || str_eqb t (s2l "-0.0"))
  | PStr s | PBytes s => match s with [] => false | _ => true end
  | PList l | PTuple l => match l with [] => false | _ => true end
  | PDict kv => match kv with [] => false | _ => true end
  | PObj _ => true
  end.

(* Python == on the fragment the models need: bool/int compare numerically;
   floats only against floats by token (generators keep float/int apart). *)
Definition as_int (v : pv) : option Z :=
  match v with PBool b => Some (if b then 1%Z else 0%Z) | PInt z => Some z | _ => None end.
Fixpoint py_eq (a b : pv) {struct a} : bool :=
  match as_int a, as_int b with
  | Some x, Some y => Z.eqb x y
  | Some _, None | None, Some _ => false
  | None, None =>
    match a, b with
    | PNone, PNone => true
    | PFloat x, PFloat y => str_eqb x y
    | PStr x, PStr y => str_eqb x y
    | PBytes x, PBytes y => str_eqb x y
    | PObj x, PObj y => N.eqb x y
    | PList x, PList y | PTuple x, PTuple y =>
        (fix go (x y : list pv) : bool :=
           match x, y with
           | [], [] => true
           | u :: x', v :: y' => py_eq u v && go x' y'
           | _, _ => false
           end) x y
    | PDict x, PDict y =>
        (* dict equality: same size and every key of x maps to an equal value in y *)
        Nat.eqb (List.length x) (List.length y) &&
        (fix go (x : list (pv*pv)) : bool :=
           match x with
           | [] => true
           | (k, u) :: x' =>
               (fix find (y : list (pv*pv)) : bool :=
                  match y with
                  | [] => false
                  | (k', v) :: y' => if pv_eqb k k' then py_eq u v else find y'
                  end) y && go x'
           end) x
    | _, _ => false
    end
  end.

Definition is_hashable (v : pv) : bool :=
  match v with PList _ | PDict _ => false | _ => true end.

Definition opt_eqb {A} (f : A -> A -> bool) (a b : option A) : bool :=
  match a, b with Some x, Some y => f x y | None, None => true | _, _ => false end.
Fixpoint list_eqb {A} (f : A -> A -> bool) (a b : list A) : bool :=
  match a, b with
  | [], [] => true
  | x :: a', y :: b' => f x y && list_eqb f a' b'
  | _, _ => false
  end.
Lemma list_eqb_eq {A} (f : A -> A -> bool) :
  (forall x y, f x y = true <-> x = y) -> forall a b, list_eqb f a b = true <-> a = b.
Proof.
  intros Hf a; induction a as [|x a IH]; intros [|y b]; simpl; split; intro H;
    try reflexivity; try discriminate.
  - apply andb_true_iff in H as [H1 H2]. apply Hf in H1. apply IH in H2. congruence.
  - inversion H; subst. apply andb_true_iff; split; [apply Hf|apply IH]; reflexivity.
Qed.
Definition res_eqb {A} (f : A -> A -> bool) (a b : Res A) : bool :=
  match a, b with Ok x, Ok y => f x y | Err x, Err y => exn_eqb x y | _, _ => false end.

(* indices of the cases on which [f] does not return 0; used by every cases file *)
Fixpoint bad_from {A} (f : A -> nat) (i : nat) (l : list A) : list (nat * nat) :=
  match l with
  | [] => []
  | x :: r => match f x with O => bad_from f (S i) r | c => (i, c) :: bad_from f (S i) r end
  end.
Definition bad_indices {A} (f : A -> nat) (l : list A) := bad_from f O l.
