(* Facts about the string primitives of Base/PyStr.v: ASCII digits in the generated
   Unicode table, decimal printing/reading round trip, find, digit_run. Proofs only. *)
From VT Require Import Base.PyStr.
From Coq Require Import Lia ZifyBool ZifyN.
Open Scope N_scope.

(* ---------- ASCII digits and the generated table ---------- *)
Definition adigit (c : N) : bool := (48 <=? c) && (c <=? 57).

Lemma adigit_cases c : adigit c = true ->
  c = 48 \/ c = 49 \/ c = 50 \/ c = 51 \/ c = 52 \/ c = 53 \/ c = 54 \/ c = 55 \/ c = 56 \/ c = 57.
Proof. unfold adigit. lia. Qed.

Lemma adigit_is_digit c : adigit c = true -> is_digit c = true.
Proof.
  intro H. apply adigit_cases in H.
  repeat (destruct H as [H|H]; [subst c; vm_compute; reflexivity|]). subst c; vm_compute; reflexivity.
Qed.

Lemma adigit_dec_val c : adigit c = true -> dec_val c = Some (c - 48).
Proof.
  intro H. apply adigit_cases in H.
  repeat (destruct H as [H|H]; [subst c; vm_compute; reflexivity|]). subst c; vm_compute; reflexivity.
Qed.

Lemma all_adigit_is_digit s : forallb adigit s = true -> forallb is_digit s = true.
Proof.
  intro H. apply forallb_forall. intros x Hx.
  apply adigit_is_digit. rewrite forallb_forall in H. auto.
Qed.

(* the punctuation of the frame grammar and the first characters of JSON texts are not digits *)
Lemma not_digit_dash : is_digit 45 = false.   Proof. vm_compute. reflexivity. Qed.
Lemma not_digit_comma : is_digit 44 = false.  Proof. vm_compute. reflexivity. Qed.
Lemma not_digit_slash : is_digit 47 = false.  Proof. vm_compute. reflexivity. Qed.
Lemma not_digit_lbrack : is_digit 91 = false. Proof. vm_compute. reflexivity. Qed.
Lemma not_digit_lbrace : is_digit 123 = false. Proof. vm_compute. reflexivity. Qed.
Lemma not_digit_quote : is_digit 34 = false.  Proof. vm_compute. reflexivity. Qed.
Lemma not_digit_t : is_digit 116 = false.     Proof. vm_compute. reflexivity. Qed.
Lemma not_digit_f : is_digit 102 = false.     Proof. vm_compute. reflexivity. Qed.
Lemma not_digit_n : is_digit 110 = false.     Proof. vm_compute. reflexivity. Qed.

Lemma adigit_neq c x : adigit c = true -> adigit x = false -> c <> x.
Proof. intros H1 H2 E. subst. congruence. Qed.

(* ---------- decimal printing ---------- *)
Fixpoint pow10 (k : nat) : N := match k with O => 1 | S k => 10 * pow10 k end.

Lemma pow10_pos k : 0 < pow10 k.
Proof. induction k; cbn [pow10]; lia. Qed.

Lemma pow2_le_pow10 k : 2 ^ N.of_nat k <= pow10 k.
Proof.
  induction k as [|k IH]; [cbn; lia|].
  rewrite Nat2N.inj_succ, N.pow_succ_r'. cbn [pow10]. lia.
Qed.

Lemma fuel_ok n : n < pow10 (S (N.to_nat (N.log2 n))).
Proof.
  destruct (N.eq_dec n 0) as [->|Hn]; [cbn; lia|].
  assert (Hs : 0 < n) by lia. apply N.log2_spec in Hs. destruct Hs as [_ Hs].
  pose proof (pow2_le_pow10 (S (N.to_nat (N.log2 n)))) as Hp.
  rewrite Nat2N.inj_succ, N2Nat.id in Hp. lia.
Qed.

Lemma digits_fuel_adigit fuel : forall n, forallb adigit (digits_fuel fuel n) = true.
Proof.
  induction fuel as [|f IH]; intro n; cbn [digits_fuel].
  - pose proof (N.mod_upper_bound n 10). cbn [forallb]. unfold adigit. lia.
  - destruct (n <? 10) eqn:E.
    + cbn [forallb]. unfold adigit. lia.
    + rewrite forallb_app, IH. pose proof (N.mod_upper_bound n 10). cbn [forallb]. unfold adigit. lia.
Qed.

Lemma digits_fuel_nonnil fuel n : digits_fuel fuel n <> [].
Proof.
  destruct fuel; cbn [digits_fuel]; [discriminate|].
  destruct (n <? 10); [discriminate|]. intro H. apply app_eq_nil in H. destruct H; discriminate.
Qed.

Lemma digits_fuel_len fuel : forall n k, n < pow10 (S k) -> (List.length (digits_fuel fuel n) <= S k)%nat.
Proof.
  induction fuel as [|f IH]; intros n k H; cbn [digits_fuel].
  - cbn. lia.
  - destruct (n <? 10) eqn:E; [cbn; lia|].
    rewrite app_length. cbn [List.length].
    destruct k as [|k]; [cbn in H; lia|].
    assert (Hd : n / 10 < pow10 (S k)).
    { apply N.div_lt_upper_bound; [lia|]. exact H. }
    specialize (IH _ _ Hd). lia.
Qed.

Lemma int_acc_app s t acc :
  int_acc (s ++ t) acc = match int_acc s acc with Some a => int_acc t a | None => None end.
Proof.
  revert acc; induction s as [|c s IH]; intro acc; cbn [int_acc app]; [reflexivity|].
  destruct (dec_val c); [apply IH|reflexivity].
Qed.

Lemma int_acc_digit d acc : d < 10 -> int_acc [48 + d] acc = Some (acc * 10 + d).
Proof.
  intro H. cbn [int_acc]. rewrite adigit_dec_val by (unfold adigit; lia).
  f_equal. lia.
Qed.

Lemma int_acc_digits fuel : forall n, n < pow10 (S fuel) -> int_acc (digits_fuel fuel n) 0 = Some n.
Proof.
  induction fuel as [|f IH]; intros n H; cbn [digits_fuel].
  - cbn in H. rewrite N.mod_small by lia. rewrite int_acc_digit by lia. f_equal; lia.
  - destruct (n <? 10) eqn:E.
    + rewrite int_acc_digit by lia. f_equal; lia.
    + rewrite int_acc_app, IH.
      * pose proof (N.mod_upper_bound n 10). rewrite int_acc_digit by lia.
        f_equal. pose proof (N.div_mod' n 10). lia.
      * apply N.div_lt_upper_bound; [lia|]. exact H.
Qed.

Lemma str_of_N_adigit n : forallb adigit (str_of_N n) = true.
Proof. apply digits_fuel_adigit. Qed.
Lemma str_of_N_nonnil n : str_of_N n <> [].
Proof. apply digits_fuel_nonnil. Qed.
Lemma str_of_N_len n k : n < pow10 (S k) -> (List.length (str_of_N n) <= S k)%nat.
Proof. apply digits_fuel_len. Qed.

Theorem isdigit_str_of_N n : isdigit_str (str_of_N n) = true.
Proof.
  unfold isdigit_str. pose proof (str_of_N_nonnil n) as Hn.
  destruct (str_of_N n) eqn:E; [congruence|]. rewrite <- E.
  apply all_adigit_is_digit, str_of_N_adigit.
Qed.

Theorem py_int_str_of_N n : py_int (str_of_N n) = Ok n.
Proof.
  unfold py_int. pose proof (str_of_N_nonnil n) as Hn.
  destruct (str_of_N n) eqn:E; [congruence|]. rewrite <- E.
  unfold str_of_N. rewrite int_acc_digits by apply fuel_ok. reflexivity.
Qed.

Lemma str_of_Z_nonneg z : (0 <= z)%Z -> str_of_Z z = str_of_N (Z.to_N z).
Proof. destruct z; intro H; try reflexivity. lia. Qed.

Lemma str_of_Z_neg_first z : (z < 0)%Z -> exists r, str_of_Z z = 45 :: r.
Proof. destruct z; intro H; try lia. eexists; reflexivity. Qed.

Lemma str_of_Z_nonnil z : str_of_Z z <> [].
Proof. destruct z; cbn [str_of_Z]; try discriminate. apply str_of_N_nonnil. Qed.

(* single-digit numbers *)
Lemma str_of_N_small n : n < 10 -> str_of_N n = [48 + n].
Proof.
  intro H. unfold str_of_N. destruct (N.to_nat (N.log2 n)); cbn [digits_fuel].
  - rewrite N.mod_small by lia. reflexivity.
  - destruct (n <? 10) eqn:E; [reflexivity|lia].
Qed.

(* ---------- find ---------- *)
Lemma find_absent c s : (forall x, In x s -> x <> c) -> find c s = None.
Proof.
  induction s as [|x s IH]; intro H; cbn [find]; [reflexivity|].
  destruct (N.eqb_spec x c) as [E|E]; [exfalso; apply (H x); [left; reflexivity|exact E]|].
  rewrite IH; [reflexivity|]. intros y Hy. apply H. right; exact Hy.
Qed.

Lemma find_app_notin c a b : (forall x, In x a -> x <> c) -> find c (a ++ c :: b) = Some (List.length a).
Proof.
  induction a as [|x a IH]; intro H; cbn [find app List.length].
  - rewrite N.eqb_refl. reflexivity.
  - destruct (N.eqb_spec x c) as [E|E]; [exfalso; apply (H x); [left; reflexivity|exact E]|].
    rewrite IH; [reflexivity|]. intros y Hy. apply H. right; exact Hy.
Qed.

Lemma find_firstn_none c s q : find c s = Some q -> find c (firstn q s) = None.
Proof.
  revert q; induction s as [|x s IH]; intros q H; cbn [find] in H; [discriminate|].
  destruct (N.eqb_spec x c) as [E|E].
  - inversion H; subst. reflexivity.
  - destruct (find c s) as [k|] eqn:Ek; [|discriminate]. inversion H; subst.
    cbn [firstn find]. destruct (N.eqb_spec x c); [contradiction|]. rewrite (IH k eq_refl). reflexivity.
Qed.

Lemma existsb_eqb_false c s : existsb (N.eqb c) s = false -> forall x, In x s -> x <> c.
Proof.
  intros H x Hx E. subst x.
  assert (existsb (N.eqb c) s = true) by (apply existsb_exists; exists c; split; [exact Hx|apply N.eqb_refl]).
  congruence.
Qed.

Lemma all_adigit_notin s c : forallb adigit s = true -> adigit c = false -> forall x, In x s -> x <> c.
Proof.
  intros H Hc x Hx E. subst x. rewrite forallb_forall in H. specialize (H _ Hx). congruence.
Qed.

(* a run of digits followed by a non-digit other than c: the first c, if any, comes after a
   non-digit, so the text before it is not all digits *)
Lemma find_after_nondigit c a x b dash :
  is_digit c = false -> forallb is_digit a = true -> is_digit x = false -> x <> c ->
  find c (a ++ x :: b) = Some dash -> forallb is_digit (firstn dash (a ++ x :: b)) = false.
Proof.
  intros Hc Ha Hx Hxc. revert dash. induction a as [|y a IH]; intros dash H; cbn [app find] in H.
  - destruct (N.eqb_spec x c); [contradiction|].
    destruct (find c b); [|discriminate]. inversion H; subst.
    cbn [app firstn forallb]. rewrite Hx. reflexivity.
  - cbn [forallb] in Ha. apply andb_true_iff in Ha as [Hy Ha].
    destruct (N.eqb_spec y c) as [E|E]; [subst; congruence|].
    destruct (find c (a ++ x :: b)) as [k|] eqn:Ek; [|discriminate]. inversion H; subst.
    cbn [app firstn forallb]. rewrite (IH Ha k eq_refl). apply andb_false_r.
Qed.

(* ---------- digit_run ---------- *)
Lemma digit_run_exact a : forall cap rest,
  forallb is_digit a = true -> (List.length a <= cap)%nat ->
  match rest with [] => True | x :: _ => is_digit x = false end ->
  digit_run cap (a ++ rest) = List.length a.
Proof.
  induction a as [|y a IH]; intros cap rest Ha Hl Hr; cbn [app List.length].
  - destruct cap; [reflexivity|]. destruct rest as [|x r]; [reflexivity|].
    cbn [digit_run]. rewrite Hr. reflexivity.
  - cbn [forallb] in Ha. apply andb_true_iff in Ha as [Hy Ha].
    cbn [List.length] in Hl. destruct cap as [|cap]; [lia|].
    cbn [digit_run]. rewrite Hy. f_equal. apply IH; [exact Ha|lia|exact Hr].
Qed.

(* decimal round trip, collected *)
Theorem decimal_roundtrip n :
  py_int (str_of_N n) = Ok n /\ isdigit_str (str_of_N n) = true /\
  forallb adigit (str_of_N n) = true /\ str_of_N n <> [].
Proof.
  repeat split; [apply py_int_str_of_N|apply isdigit_str_of_N|apply str_of_N_adigit|apply str_of_N_nonnil].
Qed.
