(* State + effect-log + exception monad: models Python code that mutates attributes,
   performs observable effects and may raise (mutations and effects persist up to the raise). *)
From VT Require Export Base.PyVal.

Section StateM.
  Context {S E : Type}.
  Definition M (A : Type) := S -> S * list E * Res A.
  Definition ret {A} (a : A) : M A := fun s => (s, [], Ok a).
  Definition raise {A} (e : exn) : M A := fun s => (s, [], Err e).
  Definition bindM {A B} (m : M A) (k : A -> M B) : M B :=
    fun s => match m s with
             | (s1, e1, Ok a) => match k a s1 with (s2, e2, r) => (s2, e1 ++ e2, r) end
             | (s1, e1, Err x) => (s1, e1, Err x)
             end.
  Definition getS : M S := fun s => (s, [], Ok s).
  Definition putS (s' : S) : M unit := fun _ => (s', [], Ok tt).
  Definition modify (f : S -> S) : M unit := fun s => (f s, [], Ok tt).
  Definition tell (e : E) : M unit := fun s => (s, [e], Ok tt).
  Definition lift {A} (r : Res A) : M A := fun s => (s, [], r).
  (* try: m except <those exceptions for which h returns Some>: handler *)
  Definition catch {A} (m : M A) (h : exn -> option (M A)) : M A :=
    fun s => match m s with
             | (s1, e1, Err x) =>
                 match h x with
                 | Some k => match k s1 with (s2, e2, r) => (s2, e1 ++ e2, r) end
                 | None => (s1, e1, Err x)
                 end
             | r => r
             end.
  (* swallow every exception (engine.io's bare except around handlers) *)
  Definition contain (m : M unit) : M unit :=
    fun s => match m s with (s1, e1, _) => (s1, e1, Ok tt) end.
  (* try: m finally: f *)
  Definition finallyM {A} (m : M A) (f : M unit) : M A :=
    fun s => match m s with
             | (s1, e1, r) => match f s1 with
                              | (s2, e2, Ok _) => (s2, e1 ++ e2, r)
                              | (s2, e2, Err x) => (s2, e1 ++ e2, Err x)
                              end
             end.
  (* run every element, remember the first exception, report it at the end *)
  Fixpoint forM_keep {A} (l : list A) (f : A -> M unit) (first : option exn) : M (option exn) :=
    match l with
    | [] => ret first
    | x :: r => fun s => match f x s with
                         | (s1, e1, res) =>
                             let first' := match first, res with
                                           | None, Err e => Some e | _, _ => first end in
                             match forM_keep r f first' s1 with
                             | (s2, e2, out) => (s2, e1 ++ e2, out) end
                         end
    end.
  Fixpoint forM {A} (l : list A) (f : A -> M unit) : M unit :=
    match l with
    | [] => ret tt
    | x :: r => bindM (f x) (fun _ => forM r f)
    end.
End StateM.
Arguments M : clear implicits.

Notation "x <~ m ;; k" := (bindM m (fun x => k))
  (at level 61, m at next level, right associativity).
Notation "m ;;; k" := (bindM m (fun _ => k))
  (at level 61, right associativity).
