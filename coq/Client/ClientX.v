(* Extension of the client model with one re-entrant scenario: a server frame is delivered and, if
   it invokes an application EVENT handler, that handler's body delivers the next server frame (a
   nested _handle_eio_message, as happens when engine.io dispatches every message in its own
   thread / task and the second one overtakes the first handler) before it returns.
   Kept apart from Client.v: `xop` wraps the plain operations and adds the new one. *)
From VT Require Export Client.Client.
Open Scope N_scope.

Definition fits (c : cfg) (h : N) (n : nat) : bool :=
  match aget N.eqb (behav c) h with
  | Some b => match h_arity b with Some k => Nat.eqb k n | None => true end
  | None => false
  end.
(* does a scripted handler BODY run for this event (function handler or on_<event> method)? *)
Definition handler_runs (c : cfg) (ev : pv) (ns : str) (args : list pv) : bool :=
  match get_event_handler c ev ns args with
  | Ok (Some (h, a)) => fits c h (List.length a)
  | Ok None => match get_namespace_handler c ns args with
               | Some (methods, a) => match ev with
                                      | PStr s => match aget str_eqb methods s with
                                                  | Some h => fits c h (List.length a) | None => false end
                                      | _ => false end
               | None => false end
  | Err _ => false
  end.

(* _handle_event whose handler body delivers [nested] after it has been entered (Call recorded) and
   before it returns / raises.  The handler's own outcome has no effect and does not touch the
   state, so "Call, outcome, nested" has the same effects and state as "Call, nested, outcome". *)
Definition handle_event_nested (c : cfg) (nested : CM unit) (pns : option str) (id : option Z) (data : pv) : CM unit :=
  let ns := ns_or_default pns in
  ea <~ lift (split_event data) ;;
  let runs := handler_runs c (fst ea) ns (snd ea) && negb (reserved (fst ea)) in
  r <~ catch (trigger_event c (fst ea) ns (snd ea))
             (fun e => if runs then Some (nested ;;; raise e) else None) ;;
  (if runs then nested else ret tt) ;;;
  match id with
  | Some i => send_packet ACK (PList (pack r)) ns (Some i)
  | None => ret tt
  end.

(* _handle_eio_message with that event handler; everything else as in Client.v.  Note where the
   current code clears _binary_packet: BEFORE the reassembled packet is dispatched. *)
Definition handle_eio_message_nested (c : cfg) (loads : str -> Res pv) (payload : pv) (nested : CM unit) : CM unit :=
  s <~ getS ;;
  match binpkt s with
  | Some r =>
      match add_attachment r payload with
      | Ok (r', true) =>
          set_binpkt None ;;;
          if type_is (rp r') BINARY_EVENT
          then handle_event_nested c nested (pns (rp r')) (pid (rp r')) (pdata (rp r'))
          else handle_ack c (pns (rp r')) (pid (rp r')) (pdata (rp r'))
      | Ok (r', false) => set_binpkt (Some r')
      | Err e =>
          (if N.leb (rcount r) (N.of_nat (List.length (ratts r))) then ret tt
           else set_binpkt (Some (mkR (rp r) (rcount r) (ratts r ++ [payload])))) ;;;
          raise e
      end
  | None =>
      r <~ lift (decode loads payload) ;;
      let p := rp r in
      if type_is p CONNECT then handle_connect c (pns p) (pdata p)
      else if type_is p DISCONNECT then handle_disconnect c (pns p)
      else if type_is p EVENT then handle_event_nested c nested (pns p) (pid p) (pdata p)
      else if type_is p ACK then handle_ack c (pns p) (pid p) (pdata p)
      else if type_is p BINARY_EVENT || type_is p BINARY_ACK then set_binpkt (Some r)
      else if type_is p CONNECT_ERROR then handle_error c (pns p) (pdata p)
      else raise ValueError
  end.

Inductive xop := Plain (o : op) | MsgNested (payload : pv) (tbl : jtable) (payload2 : pv) (tbl2 : jtable).

Definition xstep (c : cfg) (s : cli) (x : xop) : cli * list eff :=
  match x with
  | Plain o => step c s o
  | MsgNested payload tbl payload2 tbl2 =>
      if eiost_eqb (eio_state s) EConnected
      then match contain (handle_eio_message_nested c (table_loads tbl) payload (deliver c payload2 tbl2)) s with
           | (s', e, _) => (s', e) end
      else (s, [])
  end.

Fixpoint xrun (c : cfg) (s : cli) (ops : list xop) : cli * list (cli * list eff) :=
  match ops with
  | [] => (s, [])
  | o :: r => let '(s1, e) := xstep c s o in let '(s2, es) := xrun c s1 r in (s2, (s1, e) :: es)
  end.
