(* Proofs about the re-entrant scenario of Client/ClientX.v. *)
From VT Require Import Client.ClientLemmas Client.CliCheck Client.ClientProofs Client.Witness Check.C09XCheck.
Open Scope N_scope.

Lemma handler_runs_responsible c ev ns args h a :
  responsible c (PStr ev) ns args = Some (h, a) ->
  handler_runs c (PStr ev) ns args = arity_fits c h (List.length a).
Proof.
  unfold responsible, handler_runs. destruct (get_event_handler_str c ev ns args) as [r Hg]. rewrite Hg.
  destruct r as [[h' a']|].
  - intro H. injection H as -> ->. reflexivity.
  - destruct (get_namespace_handler c ns args) as [[methods a']|]; [|discriminate].
    destruct (aget str_eqb methods ev) as [h'|]; [|discriminate]. intro H. injection H as -> ->. reflexivity.
Qed.

Lemma deliver_always_ok c payload tbl s : rs (deliver c payload tbl) s = Ok tt.
Proof.
  unfold rs, deliver. rewrite getS_bind. destruct (eiost_eqb (eio_state s) EConnected); [|reflexivity].
  unfold contain. destruct (handle_eio_message c (table_loads tbl) payload s) as [[? ?] ?]. reflexivity.
Qed.

(* _handle_event with a handler body that delivers [nested]: the handler is called once, then the
   nested frame is processed completely, then the outer ACK goes out with the handler's own value *)
Lemma handle_event_nested_run c nested s pns id data ev args h a v fr :
  split_event data = Ok (PStr ev, args) -> reserved (PStr ev) = false ->
  responsible c (PStr ev) (ns_or_default pns) args = Some (h, a) ->
  arity_fits c h (List.length a) = true -> returns c h = Some v ->
  (forall x, rs nested x = Ok tt) ->
  ack_effects (st nested s) (ns_or_default pns) id v = Ok fr ->
  handle_event_nested c nested pns id data s = (st nested s, Call h a :: ef nested s ++ fr, Ok tt).
Proof.
  intros Hs Hres Hr Ha Hv Hn Hfr. unfold handle_event_nested. rewrite Hs, lift_ok_bind. cbn [fst snd]. cbv zeta.
  rewrite (handler_runs_responsible c ev _ args h a Hr), Ha, Hres. cbn [negb andb].
  destruct (trig_responsible c ev _ args h a v Hr Ha Hv) as [He Hrs].
  assert (Ht : catch (trigger_event c (PStr ev) (ns_or_default pns) args)
                     (fun e => Some (nested ;;; raise e)) s = (s, [Call h a], Ok v)).
  { unfold catch. rewrite trigger_event_run, He, Hrs. reflexivity. }
  erewrite bind_eq by exact Ht. cbv beta.
  assert (Hnest : nested s = (st nested s, ef nested s, Ok tt)) by (rewrite (run_eta nested s), Hn; reflexivity).
  match goal with
  | |- (st ?t s, _ ++ ef ?t s, rs ?t s) = _ => assert (HT : t s = (st nested s, ef nested s ++ fr, Ok tt))
  end.
  { erewrite bind_eq by exact Hnest. cbv beta.
    unfold ack_effects in Hfr. destruct id as [i|].
    - pose proof (send_packet_run ACK (PList (pack v)) (ns_or_default pns) (Some i) (st nested s)) as Hsp.
      destruct (pieces ACK (PList (pack v)) (ns_or_default pns) (Some i)); [|discriminate].
      injection Hfr as <-. unfold st, ef, rs in *. rewrite Hsp. reflexivity.
    - injection Hfr as <-. unfold st, ef, rs, ret. cbn [fst snd]. reflexivity. }
  unfold st, ef, rs in *. rewrite HT. reflexivity.
Qed.

(* the binary-event case: the LAST attachment of a BINARY_EVENT arrives, and its handler delivers the
   next frame.  The nested frame is handled by a complete, ordinary _handle_eio_message in the state
   where the reassembled packet has already been consumed (_binary_packet = None): its effects and
   its state change are exactly those of delivering it on its own - in particular it is not mistaken
   for a further attachment - and the outer event is handled once and acknowledged once. *)
Theorem nested_binary_event c loads s r0 payload r' ev args h a v payload2 tbl2 fr :
  binpkt s = Some r0 -> add_attachment r0 payload = Ok (r', true) -> type_is (rp r') BINARY_EVENT = true ->
  split_event (pdata (rp r')) = Ok (PStr ev, args) -> reserved (PStr ev) = false ->
  let ns := ns_or_default (pns (rp r')) in
  responsible c (PStr ev) ns args = Some (h, a) -> arity_fits c h (List.length a) = true -> returns c h = Some v ->
  let s0 := with_binpkt s None in
  let s1 := st (deliver c payload2 tbl2) s0 in
  ack_effects s1 ns (pid (rp r')) v = Ok fr ->
  binpkt s0 = None /\
  handle_eio_message_nested c loads payload (deliver c payload2 tbl2) s
  = (s1, Call h a :: ef (deliver c payload2 tbl2) s0 ++ fr, Ok tt).
Proof.
  intros Hb Hadd Hty Hs Hres ns Hr Ha Hv s0 s1 Hfr. split; [reflexivity|].
  unfold handle_eio_message_nested. rewrite getS_bind, Hb, Hadd. unfold set_binpkt. rewrite modify_bind, Hty.
  apply (handle_event_nested_run c (deliver c payload2 tbl2) s0 (pns (rp r')) (pid (rp r')) (pdata (rp r')) ev args h a v fr
           Hs Hres Hr Ha Hv (deliver_always_ok c payload2 tbl2) Hfr).
Qed.
(* the text-event case *)
Theorem nested_text_event c loads s payload r ev args h a v payload2 tbl2 fr :
  binpkt s = None -> decode loads payload = Ok r ->
  type_is (rp r) CONNECT = false -> type_is (rp r) DISCONNECT = false -> type_is (rp r) EVENT = true ->
  split_event (pdata (rp r)) = Ok (PStr ev, args) -> reserved (PStr ev) = false ->
  let ns := ns_or_default (pns (rp r)) in
  responsible c (PStr ev) ns args = Some (h, a) -> arity_fits c h (List.length a) = true -> returns c h = Some v ->
  let s1 := st (deliver c payload2 tbl2) s in
  ack_effects s1 ns (pid (rp r)) v = Ok fr ->
  handle_eio_message_nested c loads payload (deliver c payload2 tbl2) s
  = (s1, Call h a :: ef (deliver c payload2 tbl2) s ++ fr, Ok tt).
Proof.
  intros Hb Hd H0 H1 H2 Hs Hres ns Hr Ha Hv s1 Hfr.
  unfold handle_eio_message_nested. rewrite getS_bind, Hb, Hd, lift_ok_bind. cbv zeta. rewrite H0, H1, H2.
  apply (handle_event_nested_run c (deliver c payload2 tbl2) s (pns (rp r)) (pid (rp r)) (pdata (rp r)) ev args h a v fr
           Hs Hres Hr Ha Hv (deliver_always_ok c payload2 tbl2) Hfr).
Qed.

(* the model's own run of a witness history with all three kinds of nested frame passes the
   extended checker (correspondence and every clause) *)
Definition cfg_x : cfg :=
  mkCfg [ (slash, [(s2l "ev", 3)]); (s2l "/a", [(s2l "ev", 5)]) ] []
        [ (3, mkBehav None (Returns (PTuple [PInt 1; PStr (s2l "x")]))); (5, mkBehav (Some 1%nat) (Returns (PStr (s2l "n")))) ].
Definition j_ph : Res pv := Ok (PList [PStr (s2l "ev"); PDict [(PStr (s2l "_placeholder"), PBool true); (PStr (s2l "num"), PInt 0)]]).
Definition witness_nested : list xop :=
  [ Plain (CConnect (Some [slash; s2l "/a"]) PNone false true false
             [ (PStr (s2l "0{""sid"":""S0""}"), j_sid0);
               (PStr (s2l "0/a,{""sid"":""S1""}"), [(s2l "{""sid"":""S1""}", Ok (PDict [(PStr (s2l "sid"), PStr (s2l "S1"))]))]) ]);
    Plain (CEmit (s2l "q") PNone (Some (s2l "/a")) (Some 7));
    Plain (CMsg (PStr (s2l "51-4[""ev"",{""_placeholder"":true,""num"":0}]")) [(s2l "[""ev"",{""_placeholder"":true,""num"":0}]", j_ph)]);
    (* last attachment; the handler delivers the ACK for the outstanding callback *)
    MsgNested (PBytes [1; 2]) [] (PStr (s2l "3/a,1[""ok""]")) [(s2l "[""ok""]", Ok (PList [PStr (s2l "ok")]))];
    (* text event; the handler delivers an event for the other namespace *)
    MsgNested (PStr (s2l "29[""ev"",1]")) [(s2l "[""ev"",1]", Ok (PList [PStr (s2l "ev"); PInt 1]))]
              (PStr (s2l "2/a,3[""ev"",2]")) [(s2l "[""ev"",2]", Ok (PList [PStr (s2l "ev"); PInt 2]))];
    Plain (CMsg (PStr (s2l "51-[""ev"",{""_placeholder"":true,""num"":0}]")) [(s2l "[""ev"",{""_placeholder"":true,""num"":0}]", j_ph)]);
    (* last attachment; the handler delivers the header of the next binary event, whose attachment follows *)
    MsgNested (PBytes [5]) [] (PStr (s2l "51-/a,8[""ev"",{""_placeholder"":true,""num"":0}]"))
              [(s2l "[""ev"",{""_placeholder"":true,""num"":0}]", j_ph)];
    Plain (CMsg (PBytes [122; 122]) []) ].
Theorem nested_model_passes_checker :
  c09x_code (xmodel_case cfg_x witness_nested) = 0%nat /\
  map snd (snd (xrun cfg_x cli_init witness_nested)) =
  [ [Sent (PStr (s2l "0{}")); Sent (PStr (s2l "0/a,{}")); Ret PNone];
    [Sent (PStr (s2l "2/a,1[""q""]"))];
    [];
    [Call 3 [PBytes [1; 2]]; CbCall 7 [PStr (s2l "ok")]; Sent (PStr (s2l "34[1,""x""]"))];
    [Call 3 [PInt 1]; Call 5 [PInt 2]; Sent (PStr (s2l "3/a,3[""n""]")); Sent (PStr (s2l "39[1,""x""]"))];
    [];
    [Call 3 [PBytes [5]]];
    [Call 5 [PBytes [122; 122]]; Sent (PStr (s2l "3/a,8[""n""]"))] ].
Proof. split; vm_compute; reflexivity. Qed.
