(* Concrete histories used as witnesses (refuted clauses) and as examples; the same histories are
   replayed on the real Client / AsyncClient by harness/props/c08.py (the WITNESS constants). *)
From VT Require Export Client.Client.
Open Scope N_scope.

Definition cfg_w : cfg :=
  mkCfg [ (slash, [(s2l "connect", 1); (s2l "disconnect", 2); (s2l "connect_error", 3)]);
          (s2l "/a", [(s2l "connect", 4); (s2l "disconnect", 5); (s2l "connect_error", 6)]) ]
        []
        [ (1, mkBehav (Some 0%nat) (Returns PNone)); (2, mkBehav (Some 1%nat) (Returns PNone));
          (3, mkBehav None (Returns PNone)); (4, mkBehav (Some 0%nat) (Returns PNone));
          (5, mkBehav (Some 1%nat) (Returns PNone)); (6, mkBehav None (Returns PNone)) ].

Definition j_sid0 : jtable := [(s2l "{""sid"":""S0""}", Ok (PDict [(PStr (s2l "sid"), PStr (s2l "S0"))]))].
Definition j_no : jtable := [(s2l "{""message"":""no""}", Ok (PDict [(PStr (s2l "message"), PStr (s2l "no"))]))].

(* 7.1-d: '/' accepted, '/a' refused inside the wait window *)
Definition window_partial : list (pv * jtable) :=
  [ (PStr (s2l "0{""sid"":""S0""}"), j_sid0); (PStr (s2l "4/a,{""message"":""no""}"), j_no) ].
Definition witness_partial : list op :=
  [ CConnect (Some [slash; s2l "/a"]) PNone false true false window_partial;
    CEmit (s2l "x") PNone (Some slash) None ].

(* 7.1-i: CONNECT immediately followed by DISCONNECT inside the wait window *)
Definition window_disconnect : list (pv * jtable) :=
  [ (PStr (s2l "0{""sid"":""S0""}"), j_sid0); (PStr (s2l "1"), []) ].
Definition witness_window_disconnect : list op :=
  [ CConnect (Some [slash]) PNone false true false window_disconnect;
    CEmit (s2l "x") PNone (Some slash) None ].

(* a clean history: two namespaces accepted, one ended by the server, then the transport is lost *)
Definition witness_clean : list op :=
  [ CConnect (Some [slash; s2l "/a"]) PNone false true false
             [ (PStr (s2l "0{""sid"":""S0""}"), j_sid0);
               (PStr (s2l "0/a,{""sid"":""S1""}"), [(s2l "{""sid"":""S1""}", Ok (PDict [(PStr (s2l "sid"), PStr (s2l "S1"))]))]) ];
    CEmit (s2l "x") (PInt 1) (Some (s2l "/a")) (Some 9);
    CMsg (PStr (s2l "1/a,")) [];
    CEmit (s2l "x") PNone (Some (s2l "/a")) None;
    CLoss;
    CEmit (s2l "x") PNone None None ].

(* (packet type, namespace) of the packets of a window, as the decoder sees them *)
Definition classify_window (w : list (pv * jtable)) : list (Z * str) :=
  flat_map (fun m => match decode (table_loads (snd m)) (fst m) with
                     | Ok r => match ptype (rp r) with PInt t => [(t, ns_or_default (pns (rp r)))] | _ => [] end
                     | Err _ => [] end) w.
