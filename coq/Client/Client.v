(* Model of src/socketio/base_client.py + client.py (= async_client.py: the coroutine
   version performs the same attribute updates and effects in the same order) on top of
   Packet.v, including the slice of the engine.io CLIENT contract socketio relies on
   (state disconnected / connected / disconnecting, send dropped unless connected, when the
   'disconnect' handler runs, _reset, exception containment).  Reconnection is disabled
   (reconnection=False; C10 models it separately).  Definitions only. *)
From VT Require Export Base.StateM Codec.Packet.
Open Scope N_scope.

(* ---- insertion-ordered association lists (CPython dict order) ---- *)
Section Assoc.
  Context {K V : Type} (eqb : K -> K -> bool).
  Fixpoint aget (l : list (K * V)) (k : K) : option V :=
    match l with [] => None | (k', v) :: r => if eqb k' k then Some v else aget r k end.
  Fixpoint aset (l : list (K * V)) (k : K) (v : V) : list (K * V) :=
    match l with
    | [] => [(k, v)]
    | (k', v') :: r => if eqb k' k then (k', v) :: r else (k', v') :: aset r k v
    end.
  Fixpoint adel (l : list (K * V)) (k : K) : list (K * V) :=
    match l with [] => [] | (k', v) :: r => if eqb k' k then r else (k', v) :: adel r k end.
  Definition ahas (l : list (K * V)) (k : K) : bool :=
    match aget l k with Some _ => true | None => false end.
End Assoc.

(* ---- configuration: registries and scripted application handlers ---- *)
Inductive outcome := Returns (v : pv) | Raises (e : exn).
Record hbehav := mkBehav { h_arity : option nat; h_outcome : outcome }.

Record cfg := mkCfg {
  handlers : list (str * list (str * N));        (* namespace -> event -> handler id *)
  ns_handlers : list (str * list (str * N));     (* class-based namespaces: namespace -> on_<event> -> handler id *)
  behav : list (N * hbehav)
}.

(* ---- state: the attributes the Python mutates + the fake engine.io client ---- *)
Inductive eiost := EDisconnected | EConnected | EDisconnecting.
Definition eiost_eqb (a b : eiost) : bool :=
  match a, b with
  | EDisconnected, EDisconnected | EConnected, EConnected | EDisconnecting, EDisconnecting => true
  | _, _ => false
  end.

(* a registered callback: one given by the application, or the closure call() creates *)
Inductive cbref := CbUser (n : N) | CbInt.
(* callbacks[namespace] = {0: itertools.count(1), id: callback, ...} *)
Record cslot := mkCSlot { c_next : N; c_entries : list (N * cbref) }.

Record cli := mkCli {
  connected : bool;
  namespaces : list (str * pv);                  (* namespace -> sid value *)
  conn_ns : list str;                            (* connection_namespaces *)
  conn_auth : pv;                                (* connection_auth (or what the callable returns) *)
  callbacks : list (str * cslot);
  binpkt : option rpacket;                       (* _binary_packet *)
  sid : pv;                                      (* None or the engine.io sid *)
  eio_state : eiost;                             (* eio.state *)
  eio_sid : pv;                                  (* eio.sid *)
  eio_count : N                                  (* transports opened so far: names E0, E1, ... *)
}.
Definition cli_init : cli := mkCli false [] [] PNone [] None PNone EDisconnected PNone 0.

Inductive eff :=
| Sent (piece : pv)                              (* engine.io MESSAGE handed to a connected transport *)
| Call (hid : N) (args : list pv)                (* application handler invoked *)
| CbCall (cb : N) (args : list pv)               (* ack callback invoked *)
| IntCb (ns : str) (id : N) (args : list pv)     (* call()'s own callback invoked (internal, not observable) *)
| Ret (v : pv) | Raised (e : exn).               (* result of an API operation *)

Definition CM := M cli eff.

Definition set_connected (b : bool) : CM unit :=
  modify (fun s => mkCli b (namespaces s) (conn_ns s) (conn_auth s) (callbacks s) (binpkt s) (sid s)
                         (eio_state s) (eio_sid s) (eio_count s)).
Definition set_namespaces (f : list (str * pv) -> list (str * pv)) : CM unit :=
  modify (fun s => mkCli (connected s) (f (namespaces s)) (conn_ns s) (conn_auth s) (callbacks s) (binpkt s) (sid s)
                         (eio_state s) (eio_sid s) (eio_count s)).
Definition set_conn (nss : list str) (auth : pv) : CM unit :=
  modify (fun s => mkCli (connected s) (namespaces s) nss auth (callbacks s) (binpkt s) (sid s)
                         (eio_state s) (eio_sid s) (eio_count s)).
Definition set_callbacks (f : list (str * cslot) -> list (str * cslot)) : CM unit :=
  modify (fun s => mkCli (connected s) (namespaces s) (conn_ns s) (conn_auth s) (f (callbacks s)) (binpkt s) (sid s)
                         (eio_state s) (eio_sid s) (eio_count s)).
Definition set_binpkt (b : option rpacket) : CM unit :=
  modify (fun s => mkCli (connected s) (namespaces s) (conn_ns s) (conn_auth s) (callbacks s) b (sid s)
                         (eio_state s) (eio_sid s) (eio_count s)).
Definition set_sid (v : pv) : CM unit :=
  modify (fun s => mkCli (connected s) (namespaces s) (conn_ns s) (conn_auth s) (callbacks s) (binpkt s) v
                         (eio_state s) (eio_sid s) (eio_count s)).
Definition set_eio_state (e : eiost) : CM unit :=
  modify (fun s => mkCli (connected s) (namespaces s) (conn_ns s) (conn_auth s) (callbacks s) (binpkt s) (sid s)
                         e (eio_sid s) (eio_count s)).
(* engine.io _reset() *)
Definition eio_reset : CM unit :=
  modify (fun s => mkCli (connected s) (namespaces s) (conn_ns s) (conn_auth s) (callbacks s) (binpkt s) (sid s)
                         EDisconnected PNone (eio_count s)).
(* a new transport: state 'connected', fresh sid *)
Definition eio_sid_name (n : N) : str := 69 :: str_of_N n.      (* "E<n>" *)
Definition eio_open : CM unit :=
  modify (fun s => mkCli (connected s) (namespaces s) (conn_ns s) (conn_auth s) (callbacks s) (binpkt s) (sid s)
                         EConnected (PStr (eio_sid_name (eio_count s))) (eio_count s + 1)).

Definition slash : str := [47].
Definition star : str := [42].
Definition ns_or_default (ns : option str) : str :=
  match ns with Some (c :: r) => c :: r | _ => slash end.

Definition r_client_disconnect := PStr (s2l "client disconnect").
Definition r_server_disconnect := PStr (s2l "server disconnect").
Definition r_transport_error := PStr (s2l "transport error").
Definition ev_connect := PStr (s2l "connect").
Definition ev_connect_error := PStr (s2l "connect_error").
Definition ev_disconnect := PStr (s2l "disconnect").
Definition ev_final := PStr (s2l "__disconnect_final").
Definition ev_message : str := s2l "message".

(* ---- sending: eio.send is a no-op unless the transport is in state 'connected' ---- *)
Definition eio_send (piece : pv) : CM unit :=
  s <~ getS ;;
  if eiost_eqb (eio_state s) EConnected then tell (Sent piece) else ret tt.

Definition pieces_of (enc : str * option (list str)) : list pv :=
  PStr (fst enc) :: match snd enc with Some atts => map PBytes atts | None => [] end.

(* _send_packet(packet_class(t, data=, namespace=, id=)) *)
Definition send_packet (t : Z) (data : pv) (ns : str) (id : option Z) : CM unit :=
  p <~ lift (ctor true t data (Some ns) id None) ;;
  enc <~ lift (encode p) ;;
  forM (pieces_of enc) eio_send.

(* ---- argument packing ---- *)
Definition pack (data : pv) : list pv :=
  match data with PTuple l => l | PNone => [] | x => [x] end.

(* ---- application handlers ---- *)
(* handler( *args ): arity mismatch raises TypeError before the body runs *)
Definition call_handler (c : cfg) (hid : N) (args : list pv) : CM pv :=
  match aget N.eqb (behav c) hid with
  | None => raise OtherError
  | Some b =>
      if match h_arity b with Some n => negb (Nat.eqb n (List.length args)) | None => false end
      then raise TypeError
      else
        tell (Call hid args) ;;;
        match h_outcome b with
        | Returns v => ret v
        | Raises e => raise e
        end
  end.

Definition is_unhashable (v : pv) : bool := match v with PList _ | PDict _ => true | _ => false end.
(* `event in d` for a dict with str keys: hashing an unhashable event raises TypeError *)
Definition ev_lookup (tbl : list (str * N)) (ev : pv) : Res (option N) :=
  if is_unhashable ev then Err TypeError
  else Ok (match ev with PStr s => aget str_eqb tbl s | _ => None end).
(* `event in self.reserved_events` (a list: compared with ==) *)
Definition reserved (ev : pv) : bool :=
  match ev with
  | PStr s => str_eqb s (s2l "connect") || str_eqb s (s2l "connect_error") ||
              str_eqb s (s2l "disconnect") || str_eqb s (s2l "__disconnect_final")
  | _ => false
  end.

(* BaseClient._get_event_handler *)
Definition get_event_handler (c : cfg) (ev : pv) (ns : str) (args : list pv) : Res (option (N * list pv)) :=
  own <- (match aget str_eqb (handlers c) ns with
          | Some tbl =>
              o <- ev_lookup tbl ev ;;
              match o with
              | Some h => Ok (Some (h, args))
              | None => if reserved ev then Ok None else
                        Ok (match aget str_eqb tbl star with Some h => Some (h, ev :: args) | None => None end)
              end
          | None => Ok None end) ;;
  match own with
  | Some r => Ok (Some r)
  | None =>
      match aget str_eqb (handlers c) star with
      | Some tbl =>
          o <- ev_lookup tbl ev ;;
          match o with
          | Some h => Ok (Some (h, PStr ns :: args))
          | None => if reserved ev then Ok None else
                    Ok (match aget str_eqb tbl star with Some h => Some (h, ev :: PStr ns :: args) | None => None end)
          end
      | None => Ok None
      end
  end.
(* BaseClient._get_namespace_handler *)
Definition get_namespace_handler (c : cfg) (ns : str) (args : list pv)
  : option (list (str * N) * list pv) :=
  match aget str_eqb (ns_handlers c) ns with
  | Some o => Some (o, args)
  | None => match aget str_eqb (ns_handlers c) star with
            | Some o => Some (o, PStr ns :: args)
            | None => None end
  end.

Definition is_disconnect (ev : pv) : bool := pv_eqb ev ev_disconnect.

(* handler( *args ) with the legacy-disconnect TypeError retry *)
Definition call_with_retry (c : cfg) (ev : pv) (hid : N) (args : list pv) : CM pv :=
  catch (call_handler c hid args)
        (fun e => match e with
                  | TypeError => if is_disconnect ev
                                 then Some (call_handler c hid (removelast args)) else None
                  | _ => None end).

(* _trigger_event: the handler's return value, None when nobody handles the event *)
Definition trigger_event (c : cfg) (ev : pv) (ns : str) (args : list pv) : CM pv :=
  r <~ lift (get_event_handler c ev ns args) ;;
  match r with
  | Some (h, args') => call_with_retry c ev h args'
  | None =>
      match get_namespace_handler c ns args with
      | Some (methods, args') =>
          (* ClientNamespace.trigger_event: 'on_' + (event or '') *)
          match ev with
          | PStr s => match aget str_eqb methods s with
                      | Some h => call_with_retry c ev h args'
                      | None => ret PNone
                      end
          | _ => if truthy ev then raise TypeError else ret PNone
          end
      | None => ret PNone
      end
  end.
Definition trigger_ (c : cfg) (ev : pv) (ns : str) (args : list pv) : CM unit :=
  _ <~ trigger_event c ev ns args ;; ret tt.

(* ---- _handle_eio_disconnect (reconnection disabled: will_reconnect = False) ---- *)
Definition handle_eio_disconnect (c : cfg) (reason : pv) : CM unit :=
  s <~ getS ;;
  (if connected s then
     forM (map fst (namespaces s)) (fun n =>
       trigger_ c ev_disconnect n [reason] ;;;
       trigger_ c ev_final n []) ;;;
     set_namespaces (fun _ => []) ;;;
     set_connected false
   else ret tt) ;;;
  set_callbacks (fun _ => []) ;;;
  set_binpkt None ;;;
  set_sid PNone.

(* engine.io client: disconnect(abort=, reason=) *)
Definition eio_disconnect (c : cfg) (reason : option pv) : CM unit :=
  s <~ getS ;;
  (if eiost_eqb (eio_state s) EConnected then
     (* CLOSE packet queued; *) set_eio_state EDisconnecting ;;;
     contain (handle_eio_disconnect c (match reason with Some r => r | None => r_client_disconnect end)) ;;;
     set_eio_state EDisconnected
   else ret tt) ;;;
  eio_reset.

(* engine.io client read loop ends on a transport error: the handler runs while the state
   is still 'connected', then _reset() *)
Definition eio_loss (c : cfg) : CM unit :=
  s <~ getS ;;
  if eiost_eqb (eio_state s) EConnected then
    contain (handle_eio_disconnect c r_transport_error) ;;; eio_reset
  else ret tt.

(* engine.io CLOSE packet from the server *)
Definition eio_server_close (c : cfg) : CM unit :=
  s <~ getS ;;
  if eiost_eqb (eio_state s) EConnected then eio_disconnect c (Some r_server_disconnect) else ret tt.

(* ---- packet handlers ---- *)
Definition k_sid := PStr (s2l "sid").
(* (data or {}).get('sid', self.sid) *)
Definition connect_sid (data : pv) (own : pv) : Res pv :=
  if negb (truthy data) then Ok own else
  match data with
  | PDict kv => Ok (match dict_get kv k_sid with Some v => v | None => own end)
  | _ => Err AttributeError
  end.

(* _handle_connect *)
Definition handle_connect (c : cfg) (pns : option str) (data : pv) : CM unit :=
  let ns := ns_or_default pns in
  s <~ getS ;;
  if ahas str_eqb (namespaces s) ns then ret tt else
  v <~ lift (connect_sid data (sid s)) ;;
  set_namespaces (fun d => aset str_eqb d ns v) ;;;
  trigger_ c ev_connect ns []
  (* ; self._connect_event.set() *).

(* _handle_disconnect *)
Definition handle_disconnect (c : cfg) (pns : option str) : CM unit :=
  let ns := ns_or_default pns in
  s <~ getS ;;
  if negb (connected s) && negb (ahas str_eqb (namespaces s) ns) then ret tt else
  trigger_ c ev_disconnect ns [r_server_disconnect] ;;;
  trigger_ c ev_final ns [] ;;;
  set_namespaces (fun d => adel str_eqb d ns) ;;;
  s' <~ getS ;;
  match namespaces s' with
  | [] => set_connected false ;;; eio_disconnect c None         (* eio.disconnect(abort=True) *)
  | _ => ret tt
  end.

(* data[0] and data[1:] on an arbitrary JSON value *)
Definition split_event (data : pv) : Res (pv * list pv) :=
  match data with
  | PList (x :: r) => Ok (x, r)
  | PList [] => Err IndexError
  | PStr (ch :: r) => Ok (PStr [ch], map (fun x => PStr [x]) r)
  | PStr [] => Err IndexError
  | PDict _ => Err KeyError
  | _ => Err TypeError
  end.

(* _handle_event: the ACK is sent whenever an id is present, handler or not *)
Definition handle_event (c : cfg) (pns : option str) (id : option Z) (data : pv) : CM unit :=
  let ns := ns_or_default pns in
  ea <~ lift (split_event data) ;;
  r <~ trigger_event c (fst ea) ns (snd ea) ;;
  match id with
  | Some i => send_packet ACK (PList (pack r)) ns (Some i)
  | None => ret tt
  end.

(* callback( *data ) for an arbitrary JSON value *)
Definition star_args (data : pv) : Res (list pv) :=
  match data with
  | PList l | PTuple l => Ok l
  | PStr s => Ok (map (fun x => PStr [x]) s)
  | PDict kv => Ok (map fst kv)
  | PBytes b => Ok (map (fun x => PInt (Z.of_N x)) b)
  | _ => Err TypeError
  end.

(* the callback registered for (namespace, id); key 0 holds the id generator, which is not callable *)
Definition outstanding (cbs : list (str * cslot)) (ns : str) (id : option Z) : option cbref :=
  match id with
  | Some i =>
      if (i <=? 0)%Z then None else
      match aget str_eqb cbs ns with
      | Some sl => aget N.eqb (c_entries sl) (Z.to_N i)
      | None => None end
  | None => None
  end.
Definition drop_callback (cbs : list (str * cslot)) (ns : str) (i : N) : list (str * cslot) :=
  match aget str_eqb cbs ns with
  | Some sl => aset str_eqb cbs ns (mkCSlot (c_next sl) (adel N.eqb (c_entries sl) i))
  | None => cbs
  end.
Definition invoke_callback (cb : cbref) (ns : str) (i : N) (args : list pv) : CM unit :=
  match cb with
  | CbUser n => tell (CbCall n args)
  | CbInt => tell (IntCb ns i args)
  end.

(* _handle_ack *)
Definition handle_ack (c : cfg) (pns : option str) (id : option Z) (data : pv) : CM unit :=
  let ns := ns_or_default pns in
  s <~ getS ;;
  match outstanding (callbacks s) ns id, id with
  | Some cb, Some i =>
      set_callbacks (fun cbs => drop_callback cbs ns (Z.to_N i)) ;;;
      args <~ lift (star_args data) ;;
      invoke_callback cb ns (Z.to_N i) args
  | _, _ => ret tt                         (* unknown callback: ignored *)
  end.

(* _handle_error *)
Definition handle_error (c : cfg) (pns : option str) (data : pv) : CM unit :=
  let ns := ns_or_default pns in
  let args := match data with PNone => [] | PTuple l | PList l => l | x => [x] end in
  trigger_ c ev_connect_error ns args ;;;
  (* self._connect_event.set() ;*)
  set_namespaces (fun d => adel str_eqb d ns) ;;;
  if str_eqb ns slash then set_namespaces (fun _ => []) ;;; set_connected false else ret tt.

Definition type_is (p : packet) (t : Z) : bool := py_eq (ptype p) (PInt t).

(* _handle_eio_message *)
Definition handle_eio_message (c : cfg) (loads : str -> Res pv) (payload : pv) : CM unit :=
  s <~ getS ;;
  match binpkt s with
  | Some r =>
      match add_attachment r payload with
      | Ok (r', true) =>
          set_binpkt None ;;;
          if type_is (rp r') BINARY_EVENT
          then handle_event c (pns (rp r')) (pid (rp r')) (pdata (rp r'))
          else handle_ack c (pns (rp r')) (pid (rp r')) (pdata (rp r'))
      | Ok (r', false) => set_binpkt (Some r')
      | Err e =>
          (* the attachment was appended before reconstruction failed *)
          (if N.leb (rcount r) (N.of_nat (List.length (ratts r))) then ret tt
           else set_binpkt (Some (mkR (rp r) (rcount r) (ratts r ++ [payload])))) ;;;
          raise e
      end
  | None =>
      r <~ lift (decode loads payload) ;;
      let p := rp r in
      if type_is p CONNECT then handle_connect c (pns p) (pdata p)
      else if type_is p DISCONNECT then handle_disconnect c (pns p)
      else if type_is p EVENT then handle_event c (pns p) (pid p) (pdata p)
      else if type_is p ACK then handle_ack c (pns p) (pid p) (pdata p)
      else if type_is p BINARY_EVENT || type_is p BINARY_ACK then set_binpkt (Some r)
      else if type_is p CONNECT_ERROR then handle_error c (pns p) (pdata p)
      else raise ValueError
  end.

(* engine.io delivers a MESSAGE only while the transport is connected; the handler's
   exceptions are contained (background task / logged) *)
Definition jtable := list (str * Res pv).
Fixpoint table_loads (tbl : jtable) (s : str) : Res pv :=
  match tbl with
  | [] => Err OracleMiss
  | (k, r) :: rest => if str_eqb k s then r else table_loads rest s
  end.
Definition deliver (c : cfg) (payload : pv) (tbl : jtable) : CM unit :=
  s <~ getS ;;
  if eiost_eqb (eio_state s) EConnected then contain (handle_eio_message c (table_loads tbl) payload) else ret tt.

(* ---- API ---- *)
(* _generate_ack_id *)
Definition generate_ack_id (ns : str) (cb : cbref) : CM N :=
  s <~ getS ;;
  let sl := match aget str_eqb (callbacks s) ns with Some sl => sl | None => mkCSlot 1 [] end in
  let id := c_next sl in
  set_callbacks (fun cbs => aset str_eqb cbs ns (mkCSlot (id + 1) (aset N.eqb (c_entries sl) id cb))) ;;;
  ret id.

(* emit(); returns the id it used *)
Definition api_emit (ev : str) (data : pv) (pns : option str) (cb : option cbref) : CM (option N) :=
  let ns := ns_or_default pns in
  s <~ getS ;;
  if negb (ahas str_eqb (namespaces s) ns) then raise BadNamespaceError else
  id <~ (match cb with Some r => i <~ generate_ack_id ns r ;; ret (Some i) | None => ret None end) ;;
  let dl := match data with PTuple l => l | PNone => [] | x => [x] end in
  send_packet EVENT (PList (PStr ev :: dl)) ns (option_map Z.of_N id) ;;;
  ret id.

(* run m and also return the effects it produced *)
Definition listen {A} (m : CM A) : CM (A * list eff) :=
  fun s => match m s with
           | (s1, e1, Ok a) => (s1, e1, Ok (a, e1))
           | (s1, e1, Err x) => (s1, e1, Err x)
           end.
Fixpoint find_intcb (ns : str) (id : N) (l : list eff) : option (list pv) :=
  match l with
  | [] => None
  | IntCb n i a :: r => if str_eqb n ns && N.eqb i id then Some a else find_intcb ns id r
  | _ :: r => find_intcb ns id r
  end.
Definition shape_result (args : list pv) : pv :=
  match args with [] => PNone | [x] => x | l => PTuple l end.

(* call(): emit with an internal callback, then callback_event.wait(timeout).  The fake server
   answers (if the scenario says so and the EVENT reached a connected transport) with an ACK
   for the id just used, delivered while call() waits; otherwise the wait times out. *)
Definition api_call (c : cfg) (ev : str) (data : pv) (pns : option str) (reply : option (list pv)) (tbl : jtable)
  : CM pv :=
  let ns := ns_or_default pns in
  oid <~ api_emit ev data pns (Some CbInt) ;;
  match oid with
  | None => raise OtherError                                   (* unreachable: a callback was given *)
  | Some id =>
      s <~ getS ;;
      x <~ listen (match reply with
                   | Some r =>
                       if eiost_eqb (eio_state s) EConnected then
                         p <~ lift (ctor true ACK (PList r) (Some ns) (Some (Z.of_N id)) None) ;;
                         enc <~ lift (encode p) ;;
                         deliver c (PStr (fst enc)) tbl
                       else ret tt
                   | None => ret tt
                   end) ;;
      match find_intcb ns id (snd x) with
      | Some args => ret (shape_result args)
      | None => raise TimeoutError
      end
  end.

(* disconnect() *)
Definition api_disconnect (c : cfg) : CM unit :=
  s <~ getS ;;
  forM (map fst (namespaces s)) (fun n => send_packet DISCONNECT PNone n None) ;;;
  eio_disconnect c None.

(* _handle_eio_connect *)
Definition handle_eio_connect (c : cfg) : CM unit :=
  s <~ getS ;;
  set_sid (eio_sid s) ;;;
  let real_auth := if truthy (conn_auth s) then conn_auth s else PDict [] in
  forM (conn_ns s) (fun n => send_packet CONNECT real_auth n None).

Fixpoint dedup (l : list str) : list str :=
  match l with
  | [] => []
  | x :: r => x :: filter (fun y => negb (str_eqb x y)) (dedup r)
  end.
(* namespaces=None: the namespaces that have handlers, minus '*', default ['/'].  (CPython
   iterates a set: the order is only meaningful for at most one derived namespace.) *)
Definition derived_namespaces (c : cfg) : list str :=
  match filter (fun n => negb (str_eqb n star)) (dedup (map fst (handlers c) ++ map fst (ns_handlers c))) with
  | [] => [slash]
  | l => l
  end.
Definition subset (a b : list str) : bool := forallb (fun x => existsb (str_eqb x) b) a.
Definition set_eqb (a b : list str) : bool := subset a b && subset b a.

Definition eio_error_message := PStr (s2l "eio-refused").

(* connect(url, auth=, namespaces=, wait=): `eio_fails` makes the fake transport raise
   engineio.exceptions.ConnectionError; `window` = the server packets that arrive while
   connect() waits (they are handled with `connected` still False). *)
(* connect(), up to and including eio.connect() and the CONNECT packets *)
Definition connect_begin (c : cfg) (nss : option (list str)) (auth : pv) (eio_fails : bool) : CM unit :=
  s <~ getS ;;
  if connected s then raise ConnectionError else
  let want := match nss with None => derived_namespaces c | Some l => l end in
  set_conn want auth ;;;
  set_namespaces (fun _ => []) ;;;
  s1 <~ getS ;;
  (* eio.connect *)
  if negb (eiost_eqb (eio_state s1) EDisconnected) then raise ValueError else
  if eio_fails then
    forM want (fun n => trigger_ c ev_connect_error n [eio_error_message]) ;;;
    raise ConnectionError
  else
  eio_open ;;;
  failed <~ (fun s => match handle_eio_connect c s with
                      | (s', e, Ok _) => (s', e, Ok false)
                      | (s', e, Err _) => (s', e, Ok true) end) ;;
  if failed : bool then
    (* the 'connect' handler failed: engine.io resets and raises its ConnectionError *)
    eio_reset ;;;
    forM want (fun n => trigger_ c ev_connect_error n [PStr (s2l "Connect handler failed")]) ;;;
    raise ConnectionError
  else ret tt.

(* the wait loop of connect(wait=True) and its failure path *)
Definition connect_wait (c : cfg) (window : list (pv * jtable)) : CM unit :=
  forM window (fun m => deliver c (fst m) (snd m)) ;;;
  s2 <~ getS ;;
  if set_eqb (map fst (namespaces s2)) (conn_ns s2) then ret tt
  else api_disconnect c ;;; set_namespaces (fun _ => []) ;;; raise ConnectionError.

Definition api_connect (c : cfg) (nss : option (list str)) (auth : pv) (wait eio_fails : bool)
           (window : list (pv * jtable)) : CM unit :=
  connect_begin c nss auth eio_fails ;;;
  (if wait then connect_wait c window else ret tt) ;;;
  set_connected true.

(* ---- operations of a history ---- *)
Inductive op :=
| CConnect (nss : option (list str)) (auth : pv) (auth_callable wait eio_fails : bool) (window : list (pv * jtable))
| CMsg (payload : pv) (tbl : jtable)
| CEmit (ev : str) (data : pv) (ns : option str) (cb : option N)
| CSend (data : pv) (ns : option str) (cb : option N)
| CCall (ev : str) (data : pv) (ns : option str) (reply : option (list pv)) (tbl : jtable)
| CDisconnect
| CLoss
| CServerClose.

(* an API call made by the application: exceptions are reported as Raised *)
Definition api (m : CM unit) : CM unit :=
  fun s => match m s with
           | (s1, e1, Ok _) => (s1, e1, Ok tt)
           | (s1, e1, Err x) => (s1, e1 ++ [Raised x], Ok tt)
           end.

Definition step_m (c : cfg) (o : op) : CM unit :=
  match o with
  | CConnect nss auth _ wait eio_fails window =>
      api (api_connect c nss auth wait eio_fails window ;;; tell (Ret PNone))
  | CMsg payload tbl => deliver c payload tbl
  | CEmit ev data ns cb => api (_ <~ api_emit ev data ns (option_map CbUser cb) ;; ret tt)
  | CSend data ns cb => api (_ <~ api_emit ev_message data ns (option_map CbUser cb) ;; ret tt)
  | CCall ev data ns reply tbl => api (v <~ api_call c ev data ns reply tbl ;; tell (Ret v))
  | CDisconnect => api (api_disconnect c)
  | CLoss => eio_loss c
  | CServerClose => eio_server_close c
  end.

Definition step (c : cfg) (s : cli) (o : op) : cli * list eff :=
  match step_m c o s with (s', e, _) => (s', e) end.

(* a history: the state after and the effects of each operation, in order *)
Fixpoint run (c : cfg) (s : cli) (ops : list op) : cli * list (cli * list eff) :=
  match ops with
  | [] => (s, [])
  | o :: r => let '(s1, e) := step c s o in let '(s2, es) := run c s1 r in (s2, (s1, e) :: es)
  end.
Definition final (c : cfg) (ops : list op) : cli := fst (run c cli_init ops).
