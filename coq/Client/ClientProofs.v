(* Proofs about Client/Client.v for C08 and C09.  Theorems are re-exported by Props/C08.v and
   Props/C09.v. *)
From VT Require Import Client.ClientLemmas Client.CliCheck.
From Coq Require Import Lia.
Open Scope N_scope.

(* ====================================================================================== *)
(* association lists                                                                      *)
(* ====================================================================================== *)
Section AssocFacts.
  Context {K V : Type} (eqb : K -> K -> bool).
  Hypothesis eqb_spec : forall a b, eqb a b = true <-> a = b.

  Lemma a_eqb_refl k : eqb k k = true.
  Proof. apply eqb_spec. reflexivity. Qed.
  Lemma a_eqb_neq a b : a <> b -> eqb a b = false.
  Proof. intro H. destruct (eqb a b) eqn:E; [|reflexivity]. apply eqb_spec in E. contradiction. Qed.

  Lemma aget_aset_same (l : list (K * V)) k v : aget eqb (aset eqb l k v) k = Some v.
  Proof.
    induction l as [|[k' v'] l IH]; cbn [aset aget].
    - rewrite a_eqb_refl. reflexivity.
    - destruct (eqb k' k) eqn:E; cbn [aget]; rewrite E; [reflexivity|exact IH].
  Qed.
  Lemma aget_aset_other (l : list (K * V)) k k' v : k <> k' -> aget eqb (aset eqb l k v) k' = aget eqb l k'.
  Proof.
    intro Hn. induction l as [|[k0 v0] l IH]; cbn [aset aget].
    - rewrite (a_eqb_neq k k' Hn). reflexivity.
    - destruct (eqb k0 k) eqn:E; cbn [aget].
      + apply eqb_spec in E. subst k0. rewrite (a_eqb_neq k k' Hn). reflexivity.
      + destruct (eqb k0 k'); [reflexivity|exact IH].
  Qed.
  Lemma aget_in (l : list (K * V)) k v : aget eqb l k = Some v -> In (k, v) l.
  Proof.
    induction l as [|[k' v'] l IH]; cbn [aget]; [discriminate|].
    destruct (eqb k' k) eqn:E; intro H.
    - apply eqb_spec in E. injection H as <-. subst. left. reflexivity.
    - right. apply IH, H.
  Qed.
  Lemma aget_none_notin (l : list (K * V)) k : aget eqb l k = None -> ~ In k (map fst l).
  Proof.
    induction l as [|[k' v'] l IH]; cbn [aget map fst]; [intros _ []|].
    destruct (eqb k' k) eqn:E; [discriminate|]. intros H [Hk|Hk].
    - subst. rewrite a_eqb_refl in E. discriminate.
    - exact (IH H Hk).
  Qed.
  Lemma notin_aget_none (l : list (K * V)) k : ~ In k (map fst l) -> aget eqb l k = None.
  Proof.
    induction l as [|[k' v'] l IH]; cbn [aget map fst]; [reflexivity|]. intro H.
    destruct (eqb k' k) eqn:E.
    - apply eqb_spec in E. subst. exfalso. apply H. left. reflexivity.
    - apply IH. intro Hk. apply H. right. exact Hk.
  Qed.
  Lemma keys_aset (l : list (K * V)) k v :
    map fst (aset eqb l k v) = match aget eqb l k with Some _ => map fst l | None => map fst l ++ [k] end.
  Proof.
    induction l as [|[k' v'] l IH]; cbn [aset aget map fst app]; [reflexivity|].
    destruct (eqb k' k) eqn:E; cbn [map fst]; [reflexivity|].
    rewrite IH. destruct (aget eqb l k); reflexivity.
  Qed.
  Lemma Forall_aset (Q : K * V -> Prop) (l : list (K * V)) k v :
    Forall Q l -> Q (k, v) -> Forall Q (aset eqb l k v).
  Proof.
    intros Hl Hq. induction Hl as [|[k' v'] l Hx Hl IH]; cbn [aset]; [constructor; [exact Hq|constructor]|].
    destruct (eqb k' k) eqn:E.
    - apply eqb_spec in E. subst. constructor; assumption.
    - constructor; assumption.
  Qed.
  Lemma Forall_adel (Q : K * V -> Prop) (l : list (K * V)) k : Forall Q l -> Forall Q (adel eqb l k).
  Proof.
    intro Hl. induction Hl as [|[k' v'] l Hx Hl IH]; cbn [adel]; [constructor|].
    destruct (eqb k' k); [exact Hl|constructor; assumption].
  Qed.
  Lemma keys_adel_incl (l : list (K * V)) k x : In x (map fst (adel eqb l k)) -> In x (map fst l).
  Proof.
    induction l as [|[k' v'] l IH]; cbn [adel map fst]; [auto|].
    destruct (eqb k' k); cbn [map fst In]; [auto|]. intros [H|H]; [left; exact H|right; apply IH, H].
  Qed.
  Lemma NoDup_keys_adel (l : list (K * V)) k : NoDup (map fst l) -> NoDup (map fst (adel eqb l k)).
  Proof.
    induction l as [|[k' v'] l IH]; cbn [adel map fst]; [auto|]. intro H. inversion H as [|? ? Hn Hl]; subst.
    destruct (eqb k' k); [exact Hl|]. cbn [map fst]. constructor; [|apply IH, Hl].
    intro Hin. apply Hn. eapply keys_adel_incl, Hin.
  Qed.
  Lemma aget_adel_same (l : list (K * V)) k : NoDup (map fst l) -> aget eqb (adel eqb l k) k = None.
  Proof.
    induction l as [|[k' v'] l IH]; cbn [adel map fst]; [reflexivity|]. intro H. inversion H as [|? ? Hn Hl]; subst.
    destruct (eqb k' k) eqn:E.
    - apply eqb_spec in E. subst. apply notin_aget_none, Hn.
    - cbn [aget]. rewrite E. apply IH, Hl.
  Qed.
  Lemma aget_adel_other (l : list (K * V)) k k' : k <> k' -> aget eqb (adel eqb l k) k' = aget eqb l k'.
  Proof.
    intro Hn. induction l as [|[k0 v0] l IH]; cbn [adel aget]; [reflexivity|].
    destruct (eqb k0 k) eqn:E.
    - apply eqb_spec in E. subst. rewrite (a_eqb_neq k k' Hn). reflexivity.
    - cbn [aget]. destruct (eqb k0 k'); [reflexivity|exact IH].
  Qed.
  Lemma aget_Forall (Q : K * V -> Prop) (l : list (K * V)) k v : Forall Q l -> aget eqb l k = Some v -> Q (k, v).
  Proof. intros Hl Hg. apply aget_in in Hg. rewrite Forall_forall in Hl. apply Hl, Hg. Qed.
End AssocFacts.

Lemma NoDup_snoc {A} (l : list A) x : NoDup l -> ~ In x l -> NoDup (l ++ [x]).
Proof.
  induction l as [|y l IH]; cbn [app]; intros Hl Hx.
  - constructor; [intros []|constructor].
  - inversion Hl as [|? ? Hn Hl']; subst. constructor.
    + intro Hin. apply in_app_or in Hin as [Hin|[Hin|[]]]; [exact (Hn Hin)|]. subst. apply Hx. left. reflexivity.
    + apply IH; [exact Hl'|]. intro Hin. apply Hx. right. exact Hin.
Qed.

Lemma Neqb_spec a b : N.eqb a b = true <-> a = b.
Proof. apply N.eqb_eq. Qed.

(* ====================================================================================== *)
(* C09: the callback table                                                                *)
(* ====================================================================================== *)
(* callbacks[ns] = {0: count(n), id: cb ...}: every outstanding id is a distinct number in
   [1, n), n being the next value of the generator *)
Definition slot_ok (sl : cslot) : Prop :=
  1 <= c_next sl /\
  Forall (fun e => 1 <= fst e < c_next sl) (c_entries sl) /\
  NoDup (map fst (c_entries sl)).
Definition cb_inv (s : cli) : Prop := Forall (fun p => slot_ok (snd p)) (callbacks s).

Lemma slot_ok_fresh : slot_ok (mkCSlot 1 []).
Proof. unfold slot_ok. cbn [c_next c_entries map]. split; [lia|split; constructor]. Qed.

Lemma slot_next_free sl : slot_ok sl -> aget N.eqb (c_entries sl) (c_next sl) = None.
Proof.
  intros (_ & Hall & _). apply (notin_aget_none N.eqb Neqb_spec).
  intro Hin. apply in_map_iff in Hin as ([i cb] & Hi & Hin). cbn [fst] in Hi. subst i.
  rewrite Forall_forall in Hall. specialize (Hall _ Hin). cbn [fst] in Hall. lia.
Qed.

Lemma slot_ok_gen sl cb :
  slot_ok sl -> slot_ok (mkCSlot (c_next sl + 1) (aset N.eqb (c_entries sl) (c_next sl) cb)).
Proof.
  intros Hs. pose proof (slot_next_free sl Hs) as Hfree. destruct Hs as (H1 & Hall & Hnd).
  unfold slot_ok. cbn [c_next c_entries]. split; [lia|]. split.
  - apply (Forall_aset N.eqb Neqb_spec).
    + eapply Forall_impl; [|exact Hall]. intros e He. cbn beta in *. lia.
    + cbn [fst]. lia.
  - rewrite (keys_aset N.eqb), Hfree. apply NoDup_snoc; [exact Hnd|].
    apply (aget_none_notin N.eqb Neqb_spec), Hfree.
Qed.

Lemma slot_ok_drop sl i : slot_ok sl -> slot_ok (mkCSlot (c_next sl) (adel N.eqb (c_entries sl) i)).
Proof.
  intros (H1 & Hall & Hnd). unfold slot_ok. cbn [c_next c_entries]. split; [exact H1|]. split.
  - apply Forall_adel, Hall.
  - apply NoDup_keys_adel, Hnd.
Qed.

Lemma cb_inv_slot s ns sl : cb_inv s -> aget str_eqb (callbacks s) ns = Some sl -> slot_ok sl.
Proof. intros H Hg. exact (aget_Forall str_eqb str_eqb_eq (fun p => slot_ok (snd p)) _ _ _ H Hg). Qed.

(* the state after _generate_ack_id, explicitly *)
Definition slot_of (s : cli) (ns : str) : cslot :=
  match aget str_eqb (callbacks s) ns with Some sl => sl | None => mkCSlot 1 [] end.
Definition with_callbacks (s : cli) (cbs : list (str * cslot)) : cli :=
  mkCli (connected s) (namespaces s) (conn_ns s) (conn_auth s) cbs (binpkt s) (sid s)
        (eio_state s) (eio_sid s) (eio_count s).
Lemma generate_ack_id_run ns cb s :
  generate_ack_id ns cb s =
  (with_callbacks s (aset str_eqb (callbacks s) ns
                          (mkCSlot (c_next (slot_of s ns) + 1)
                                   (aset N.eqb (c_entries (slot_of s ns)) (c_next (slot_of s ns)) cb))),
   [], Ok (c_next (slot_of s ns))).
Proof. reflexivity. Qed.

Lemma slot_of_ok s ns : cb_inv s -> slot_ok (slot_of s ns).
Proof.
  intro H. unfold slot_of. destruct (aget str_eqb (callbacks s) ns) as [sl|] eqn:E.
  - eapply cb_inv_slot; eassumption.
  - apply slot_ok_fresh.
Qed.

Lemma pres_cb_generate ns cb : pres cb_inv (generate_ack_id ns cb).
Proof.
  intros s H. unfold st. rewrite generate_ack_id_run. cbn [fst]. unfold cb_inv, with_callbacks. cbn [callbacks].
  apply (Forall_aset str_eqb str_eqb_eq); [exact H|]. cbn [snd]. apply slot_ok_gen, slot_of_ok, H.
Qed.
Lemma pres_cb_drop ns i : pres cb_inv (set_callbacks (fun cbs => drop_callback cbs ns i)).
Proof.
  intros s H. unfold st, set_callbacks, modify, cb_inv. cbn [fst callbacks]. unfold drop_callback.
  destruct (aget str_eqb (callbacks s) ns) as [sl|] eqn:E; [|exact H].
  apply (Forall_aset str_eqb str_eqb_eq); [exact H|]. cbn [snd]. apply slot_ok_drop. eapply cb_inv_slot; eassumption.
Qed.

(* ack-id invariant: it holds in the initial state and is preserved by every operation, hence
   after every history of any length (and in every intermediate state) *)
Lemma cb_inv_init : cb_inv cli_init.
Proof. constructor. Qed.
Lemma cb_inv_step c s o : cb_inv s -> cb_inv (fst (step c s o)).
Proof.
  apply pres_step; try (intros; intros s0 H0; exact H0).
  - intros s0 _. constructor.
  - apply pres_cb_drop.
  - apply pres_cb_generate.
Qed.
Theorem ack_id_invariant c ops : cb_inv (final c ops) /\ Forall (fun se => cb_inv (fst se)) (snd (run c cli_init ops)).
Proof.
  split.
  - unfold final. apply run_fst; try (intros; intros s0 H0; exact H0); try exact cb_inv_init.
    + intros s0 _. constructor.
    + apply pres_cb_drop.
    + apply pres_cb_generate.
  - apply run_all; try (intros; intros s0 H0; exact H0); try exact cb_inv_init.
    + intros s0 _. constructor.
    + apply pres_cb_drop.
    + apply pres_cb_generate.
Qed.
Example ack_id_invariant_nontrivial :
  exists s, cb_inv s /\ callbacks s = [(slash, mkCSlot 4 [(1, CbUser 7); (3, CbInt)])].
Proof.
  exists (with_callbacks cli_init [(slash, mkCSlot 4 [(1, CbUser 7); (3, CbInt)])]). split; [|reflexivity].
  constructor; [|constructor]. unfold slot_ok. cbn [snd c_next c_entries map fst]. split; [lia|]. split.
  - repeat constructor; cbn [fst]; lia.
  - constructor; [cbn; intros [H|[]]; discriminate|]. constructor; [intros []|constructor].
Qed.

(* unique: the id of an emit with a callback is positive, not outstanding in its namespace,
   registers exactly that callback and disturbs no other (namespace, id) *)
Theorem unique_id s ns cb :
  cb_inv s ->
  let id := c_next (slot_of s ns) in
  let s' := st (generate_ack_id ns cb) s in
  rs (generate_ack_id ns cb) s = Ok id /\ 1 <= id /\
  outstanding (callbacks s) ns (Some (Z.of_N id)) = None /\
  outstanding (callbacks s') ns (Some (Z.of_N id)) = Some cb /\
  (forall ns' i, (ns', i) <> (ns, Z.of_N id) ->
                 outstanding (callbacks s') ns' (Some i) = outstanding (callbacks s) ns' (Some i)).
Proof.
  intros Hinv id s'. pose proof (slot_of_ok s ns Hinv) as Hok. pose proof (slot_next_free _ Hok) as Hfree.
  assert (H1 : 1 <= id) by (destruct Hok as (H1 & _); exact H1).
  assert (Hpos : (Z.of_N id <=? 0)%Z = false) by (apply Z.leb_gt; lia).
  split; [reflexivity|]. split; [exact H1|]. split; [|split].
  - unfold outstanding. rewrite Hpos, N2Z.id. unfold slot_of in Hfree, id.
    destruct (aget str_eqb (callbacks s) ns); [exact Hfree|reflexivity].
  - unfold s', st. rewrite generate_ack_id_run. cbn [fst with_callbacks callbacks]. unfold outstanding.
    rewrite Hpos, N2Z.id, (aget_aset_same str_eqb str_eqb_eq). cbn [c_entries].
    apply (aget_aset_same N.eqb Neqb_spec).
  - intros ns' i Hne. unfold s', st. rewrite generate_ack_id_run. cbn [fst with_callbacks callbacks]. unfold outstanding.
    destruct (i <=? 0)%Z eqn:Ei; [reflexivity|].
    destruct (str_eqb ns ns') eqn:En.
    + apply str_eqb_eq in En. subst ns'. rewrite (aget_aset_same str_eqb str_eqb_eq). cbn [c_entries].
      assert (Hi : id <> Z.to_N i).
      { intro Hx. apply Hne. f_equal. rewrite Hx. rewrite Z2N.id; [reflexivity|]. apply Z.leb_gt in Ei. lia. }
      rewrite (aget_aset_other N.eqb Neqb_spec _ _ _ _ Hi). unfold slot_of.
      destruct (aget str_eqb (callbacks s) ns); reflexivity.
    + assert (Hn : ns <> ns') by (intro Hx; subst; rewrite str_eqb_refl in En; discriminate).
      rewrite (aget_aset_other str_eqb str_eqb_eq _ _ _ _ Hn). reflexivity.
Qed.

(* ---- small-step equations for monadic code ---- *)
Lemma getS_bind {B} (k : cli -> CM B) s : bindM getS k s = k s s.
Proof. unfold bindM, getS. destruct (k s s) as [[s2 e2] r]. reflexivity. Qed.
Lemma ret_bind {A B} (a : A) (k : A -> CM B) s : bindM (ret a) k s = k a s.
Proof. unfold bindM, ret. destruct (k a s) as [[s2 e2] r]. reflexivity. Qed.
Lemma modify_bind {B} f (k : unit -> CM B) s : bindM (modify f) k s = k tt (f s).
Proof. unfold bindM, modify. destruct (k tt (f s)) as [[s2 e2] r]. reflexivity. Qed.
Lemma lift_ok_bind {A B} (a : A) (k : A -> CM B) s : bindM (lift (Ok a)) k s = k a s.
Proof. unfold bindM, lift. destruct (k a s) as [[s2 e2] r]. reflexivity. Qed.
Lemma lift_err_bind {A B} x (k : A -> CM B) s : bindM (lift (Err x)) k s = (s, [], Err x).
Proof. reflexivity. Qed.
Lemma tell_bind {B} e (k : unit -> CM B) s :
  bindM (tell e) k s = (st (k tt) s, e :: ef (k tt) s, rs (k tt) s).
Proof. unfold bindM, tell, st, ef, rs. destruct (k tt s) as [[s2 e2] r]. reflexivity. Qed.
Lemma raise_bind {A B} x (k : A -> CM B) s : bindM (raise x) k s = (s, [], Err x).
Proof. reflexivity. Qed.
Lemma bind_eq {A B} (m : CM A) (k : A -> CM B) s s1 e1 a :
  m s = (s1, e1, Ok a) -> bindM m k s = (st (k a) s1, e1 ++ ef (k a) s1, rs (k a) s1).
Proof. intro H. unfold bindM, st, ef, rs. rewrite H. destruct (k a s1) as [[s2 e2] r]. reflexivity. Qed.
Lemma bind_eq_err {A B} (m : CM A) (k : A -> CM B) s s1 e1 x :
  m s = (s1, e1, Err x) -> bindM m k s = (s1, e1, Err x).
Proof. intro H. unfold bindM. rewrite H. reflexivity. Qed.

(* ---- _handle_ack, explicitly ---- *)
Lemma handle_ack_run c s pns id data :
  handle_ack c pns id data s =
  let ns := ns_or_default pns in
  match outstanding (callbacks s) ns id, id with
  | Some cb, Some i =>
      let s' := with_callbacks s (drop_callback (callbacks s) ns (Z.to_N i)) in
      match star_args data with
      | Ok args => (s', [match cb with CbUser n => CbCall n args | CbInt => IntCb ns (Z.to_N i) args end], Ok tt)
      | Err x => (s', [], Err x)
      end
  | _, _ => (s, [], Ok tt)
  end.
Proof.
  unfold handle_ack. rewrite getS_bind. cbv zeta.
  destruct (outstanding (callbacks s) (ns_or_default pns) id) as [cb|]; [|reflexivity].
  destruct id as [i|]; [|reflexivity].
  unfold set_callbacks. rewrite modify_bind.
  destruct (star_args data) as [args|x]; [rewrite lift_ok_bind|rewrite lift_err_bind; reflexivity].
  destruct cb; reflexivity.
Qed.

Lemma outstanding_some cbs ns i cb :
  outstanding cbs ns (Some i) = Some cb ->
  (0 < i)%Z /\ exists sl, aget str_eqb cbs ns = Some sl /\ aget N.eqb (c_entries sl) (Z.to_N i) = Some cb.
Proof.
  unfold outstanding. destruct (i <=? 0)%Z eqn:E; [discriminate|]. apply Z.leb_gt in E.
  destruct (aget str_eqb cbs ns) as [sl|]; [|discriminate]. intro H. split; [exact E|]. exists sl. split; [reflexivity|exact H].
Qed.

(* unknown_ignored: an ACK whose (namespace, id) is not outstanding - never issued, already
   used, id 0, no id, or outstanding only on another namespace - invokes nothing and changes nothing *)
Theorem unknown_ignored c s pns id data :
  outstanding (callbacks s) (ns_or_default pns) id = None ->
  handle_ack c pns id data s = (s, [], Ok tt).
Proof. intro H. rewrite handle_ack_run. cbv zeta. rewrite H. reflexivity. Qed.
Lemma id_zero_not_outstanding cbs ns : outstanding cbs ns (Some 0%Z) = None.
Proof. reflexivity. Qed.
Lemma no_id_not_outstanding cbs ns : outstanding cbs ns None = None.
Proof. reflexivity. Qed.
Example unknown_ignored_nontrivial :
  let s := with_callbacks cli_init [(slash, mkCSlot 3 [(2, CbUser 7)]); (s2l "/a", mkCSlot 2 [(1, CbUser 8)])] in
  outstanding (callbacks s) slash (Some 1%Z) = None /\ outstanding (callbacks s) (s2l "/a") (Some 1%Z) = Some (CbUser 8).
Proof. split; reflexivity. Qed.

(* right namespace and id: the only callback an ACK can invoke is the one outstanding under
   exactly its namespace and id, with the acknowledged arguments *)
Theorem right_namespace c s pns id data cb args :
  In (CbCall cb args) (ef (handle_ack c pns id data) s) ->
  outstanding (callbacks s) (ns_or_default pns) id = Some (CbUser cb) /\ star_args data = Ok args /\
  ef (handle_ack c pns id data) s = [CbCall cb args].
Proof.
  unfold ef. rewrite handle_ack_run. cbv zeta.
  destruct (outstanding (callbacks s) (ns_or_default pns) id) as [[n|]|]; [| |intros []].
  - destruct id as [i|]; [|intros []]. destruct (star_args data) as [a|x]; cbn [fst snd]; [|intros []].
    intros [H|[]]. injection H as -> ->. repeat split.
  - destruct id as [i|]; [|intros []]. destruct (star_args data) as [a|x]; cbn [fst snd]; [|intros []].
    intros [H|[]]. discriminate.
Qed.

(* at most once: the ACK that invokes a callback removes it; the same ACK again is unknown *)
Theorem at_most_once c s pns i data cb :
  cb_inv s ->
  outstanding (callbacks s) (ns_or_default pns) (Some i) = Some cb ->
  let s' := st (handle_ack c pns (Some i) data) s in
  outstanding (callbacks s') (ns_or_default pns) (Some i) = None /\
  cb_inv s' /\
  (forall data', handle_ack c pns (Some i) data' s' = (s', [], Ok tt)) /\
  (forall ns' j, (ns', j) <> (ns_or_default pns, i) ->
                 outstanding (callbacks s') ns' (Some j) = outstanding (callbacks s) ns' (Some j)).
Proof.
  intros Hinv Hout s'. set (ns := ns_or_default pns) in *.
  assert (Hs' : s' = with_callbacks s (drop_callback (callbacks s) ns (Z.to_N i))).
  { unfold s', st. rewrite handle_ack_run. cbv zeta. fold ns. rewrite Hout. destruct (star_args data); reflexivity. }
  destruct (outstanding_some _ _ _ _ Hout) as (Hpos & sl & Hsl & Hent).
  pose proof (cb_inv_slot s ns sl Hinv Hsl) as (_ & _ & Hnd).
  assert (Hnone : outstanding (callbacks s') ns (Some i) = None).
  { rewrite Hs'. cbn [with_callbacks callbacks]. unfold outstanding, drop_callback. rewrite Hsl.
    replace (i <=? 0)%Z with false by (symmetry; apply Z.leb_gt; exact Hpos).
    rewrite (aget_aset_same str_eqb str_eqb_eq). cbn [c_entries]. apply (aget_adel_same N.eqb Neqb_spec), Hnd. }
  split; [exact Hnone|]. split; [|split].
  - rewrite Hs'. apply (pres_cb_drop ns (Z.to_N i) s Hinv).
  - intro data'. apply unknown_ignored. exact Hnone.
  - intros ns' j Hne. rewrite Hs'. cbn [with_callbacks callbacks]. unfold outstanding, drop_callback. rewrite Hsl.
    destruct (j <=? 0)%Z eqn:Ej; [reflexivity|]. apply Z.leb_gt in Ej.
    destruct (str_eqb ns ns') eqn:En.
    + apply str_eqb_eq in En. subst ns'. rewrite (aget_aset_same str_eqb str_eqb_eq), Hsl. cbn [c_entries].
      apply (aget_adel_other N.eqb Neqb_spec). intro Hx. apply Hne. f_equal.
      apply (f_equal Z.of_N) in Hx. rewrite !Z2N.id in Hx by lia. congruence.
    + assert (Hn : ns <> ns') by (intro Hx; subst; rewrite str_eqb_refl in En; discriminate).
      rewrite (aget_aset_other str_eqb str_eqb_eq _ _ _ _ Hn). reflexivity.
Qed.

(* ====================================================================================== *)
(* C09: _handle_event                                                                     *)
(* ====================================================================================== *)
Lemma call_handler_ok c h a v s :
  arity_fits c h (List.length a) = true -> returns c h = Some v ->
  call_handler c h a s = (s, [Call h a], Ok v).
Proof.
  unfold arity_fits, returns, call_handler. destruct (aget N.eqb (behav c) h) as [b|]; [|discriminate].
  intros Ha Hr. destruct (h_arity b) as [n|].
  - rewrite Ha. cbn [negb]. rewrite tell_bind. destruct (h_outcome b); [|discriminate]. injection Hr as ->. reflexivity.
  - rewrite tell_bind. destruct (h_outcome b); [|discriminate]. injection Hr as ->. reflexivity.
Qed.
Lemma call_with_retry_ok c ev h a v s :
  arity_fits c h (List.length a) = true -> returns c h = Some v ->
  call_with_retry c ev h a s = (s, [Call h a], Ok v).
Proof. intros Ha Hr. unfold call_with_retry, catch. rewrite (call_handler_ok c h a v s Ha Hr). reflexivity. Qed.

Lemma get_event_handler_str c ev ns args : exists r, get_event_handler c (PStr ev) ns args = Ok r.
Proof.
  unfold get_event_handler, ev_lookup. cbn [is_unhashable bind].
  destruct (aget str_eqb (handlers c) ns) as [tbl|].
  - destruct (aget str_eqb tbl ev); cbn [bind].
    + eexists; reflexivity.
    + destruct (reserved (PStr ev)); cbn [bind].
      * destruct (aget str_eqb (handlers c) star) as [t2|]; [|eexists; reflexivity].
        destruct (aget str_eqb t2 ev); cbn [bind]; eexists; reflexivity.
      * destruct (aget str_eqb tbl star); [eexists; reflexivity|].
        destruct (aget str_eqb (handlers c) star) as [t2|]; [|eexists; reflexivity].
        destruct (aget str_eqb t2 ev); cbn [bind]; [eexists; reflexivity|].
        destruct (aget str_eqb t2 star); eexists; reflexivity.
  - cbn [bind]. destruct (aget str_eqb (handlers c) star) as [t2|]; [|eexists; reflexivity].
    destruct (aget str_eqb t2 ev); cbn [bind]; [eexists; reflexivity|].
    destruct (reserved (PStr ev)); [eexists; reflexivity|]. destruct (aget str_eqb t2 star); eexists; reflexivity.
Qed.

(* the responsible handler runs exactly once, with the documented arguments *)
Lemma trig_responsible c ev ns args h a v :
  responsible c (PStr ev) ns args = Some (h, a) ->
  arity_fits c h (List.length a) = true -> returns c h = Some v ->
  trig_eff c (PStr ev) ns args = [Call h a] /\ trig_res c (PStr ev) ns args = Ok v.
Proof.
  intros Hr Ha Hv. unfold trig_eff, trig_res, ef, rs, trigger_event. unfold responsible in Hr.
  destruct (get_event_handler_str c ev ns args) as [r Hg]. rewrite Hg in *. rewrite lift_ok_bind.
  destruct r as [[h' a']|].
  - injection Hr as -> ->. rewrite (call_with_retry_ok c (PStr ev) h a v cli_init Ha Hv). split; reflexivity.
  - destruct (get_namespace_handler c ns args) as [[methods a']|]; [|discriminate].
    destruct (aget str_eqb methods ev) as [h'|]; [|discriminate]. injection Hr as -> ->.
    rewrite (call_with_retry_ok c (PStr ev) h a v cli_init Ha Hv). split; reflexivity.
Qed.
(* nobody responsible: nothing is invoked and the result is None *)
Lemma trig_nobody c ev ns args :
  responsible c (PStr ev) ns args = None ->
  trig_eff c (PStr ev) ns args = [] /\ trig_res c (PStr ev) ns args = Ok PNone.
Proof.
  intros Hr. unfold trig_eff, trig_res, ef, rs, trigger_event. unfold responsible in Hr.
  destruct (get_event_handler_str c ev ns args) as [r Hg]. rewrite Hg in *. rewrite lift_ok_bind.
  destruct r as [[h' a']|]; [discriminate|].
  destruct (get_namespace_handler c ns args) as [[methods a']|]; [|split; reflexivity].
  destruct (aget str_eqb methods ev) as [h'|]; [discriminate|]. split; reflexivity.
Qed.

Lemma handle_event_run c s pns id data ev args :
  split_event data = Ok (ev, args) ->
  handle_event c pns id data s =
  let ns := ns_or_default pns in
  match trig_res c ev ns args with
  | Err x => (s, trig_eff c ev ns args, Err x)
  | Ok r =>
      match id with
      | None => (s, trig_eff c ev ns args, Ok tt)
      | Some i =>
          match pieces ACK (PList (pack r)) ns (Some i) with
          | Ok l => (s, trig_eff c ev ns args ++ (if sendable s then map Sent l else []), Ok tt)
          | Err x => (s, trig_eff c ev ns args, Err x)
          end
      end
  end.
Proof.
  intro Hs. unfold handle_event. rewrite Hs, lift_ok_bind. cbn [fst snd]. cbv zeta.
  rewrite bind_run. unfold rs, st, ef. rewrite trigger_event_run. cbn [fst snd].
  destruct (trig_res c ev (ns_or_default pns) args) as [r|x]; [|reflexivity].
  destruct id as [i|]; [|cbn; rewrite app_nil_r; reflexivity].
  rewrite send_packet_run. destruct (pieces ACK (PList (pack r)) (ns_or_default pns) (Some i)); cbn [fst snd];
    [reflexivity|rewrite app_nil_r; reflexivity].
Qed.

(* the ACK owed for an event that carried `id` and whose handler returned v *)
Definition ack_effects (s : cli) (ns : str) (id : option Z) (v : pv) : Res (list eff) :=
  match id with
  | None => Ok []
  | Some i => match pieces ACK (PList (pack v)) ns (Some i) with
              | Ok l => Ok (if sendable s then map Sent l else [])
              | Err x => Err x
              end
  end.

(* event: for every state and every EVENT, the responsible handler is invoked exactly once with
   the event's arguments, and - iff an id is present - exactly one ACK with that id and namespace
   carrying pack(return value) is sent; nothing else happens and the state is unchanged *)
Theorem event_handled c s pns id data ev args h a v fr :
  split_event data = Ok (PStr ev, args) ->
  responsible c (PStr ev) (ns_or_default pns) args = Some (h, a) ->
  arity_fits c h (List.length a) = true -> returns c h = Some v ->
  ack_effects s (ns_or_default pns) id v = Ok fr ->
  handle_event c pns id data s = (s, Call h a :: fr, Ok tt).
Proof.
  intros Hs Hr Ha Hv Hfr. rewrite (handle_event_run c s pns id data _ _ Hs). cbv zeta.
  destruct (trig_responsible c ev _ args h a v Hr Ha Hv) as [He Hres]. rewrite He, Hres.
  unfold ack_effects in Hfr. destruct id as [i|].
  - destruct (pieces ACK (PList (pack v)) (ns_or_default pns) (Some i)); [|discriminate]. injection Hfr as <-. reflexivity.
  - injection Hfr as <-. reflexivity.
Qed.
(* nobody responsible: nothing is invoked; an event that carried an id is still acknowledged (with no arguments) *)
Theorem event_unhandled c s pns id data ev args fr :
  split_event data = Ok (PStr ev, args) ->
  responsible c (PStr ev) (ns_or_default pns) args = None ->
  ack_effects s (ns_or_default pns) id PNone = Ok fr ->
  handle_event c pns id data s = (s, fr, Ok tt).
Proof.
  intros Hs Hr Hfr. rewrite (handle_event_run c s pns id data _ _ Hs). cbv zeta.
  destruct (trig_nobody c ev _ args Hr) as [He Hres]. rewrite He, Hres.
  unfold ack_effects in Hfr. destruct id as [i|].
  - destruct (pieces ACK (PList (pack PNone)) (ns_or_default pns) (Some i)); [|discriminate]. injection Hfr as <-. reflexivity.
  - injection Hfr as <-. reflexivity.
Qed.
(* return value packing: None -> no arguments, tuple -> its elements, anything else -> one argument *)
Lemma pack_shapes : pack PNone = [] /\ (forall l, pack (PTuple l) = l) /\
                    (forall v, v <> PNone -> (forall l, v <> PTuple l) -> pack v = [v]).
Proof. repeat split. intros v H1 H2. destruct v; try reflexivity; [contradiction|]. exfalso. eapply H2. reflexivity. Qed.
Example event_handled_nontrivial :
  let c := mkCfg [(slash, [(s2l "ev", 3)])] [] [(3, mkBehav None (Returns (PTuple [PInt 1; PStr (s2l "x")])))] in
  let s := fst (step c cli_init (CConnect (Some [slash]) PNone false false false [])) in
  handle_event c None (Some 7%Z) (PList [PStr (s2l "ev"); PInt 5]) s
  = (s, [Call 3 [PInt 5]; Sent (PStr (s2l "37[1,""x""]"))], Ok tt).
Proof. vm_compute. reflexivity. Qed.

(* ====================================================================================== *)
(* C09: emit with callback and call()                                                     *)
(* ====================================================================================== *)
Definition emit_args (data : pv) : list pv := match data with PTuple l => l | PNone => [] | x => [x] end.

Lemma api_emit_cb_run ev data pns cb s :
  ahas str_eqb (namespaces s) (ns_or_default pns) = true ->
  api_emit ev data pns (Some cb) s =
  let ns := ns_or_default pns in
  let id := c_next (slot_of s ns) in
  let s1 := st (generate_ack_id ns cb) s in
  match pieces EVENT (PList (PStr ev :: emit_args data)) ns (Some (Z.of_N id)) with
  | Ok l => (s1, if sendable s then map Sent l else [], Ok (Some id))
  | Err x => (s1, [], Err x)
  end.
Proof.
  intro Hns. unfold api_emit. rewrite getS_bind, Hns. cbn [negb]. cbv zeta.
  assert (Hg : (i <~ generate_ack_id (ns_or_default pns) cb ;; ret (Some i)) s
               = (st (generate_ack_id (ns_or_default pns) cb) s, [], Ok (Some (c_next (slot_of s (ns_or_default pns)))))).
  { reflexivity. }
  rewrite (bind_eq _ _ _ _ _ _ Hg). cbn [app option_map]. fold (emit_args data).
  unfold st at 1, ef at 1, rs at 1.
  destruct (pieces EVENT (PList (PStr ev :: emit_args data)) (ns_or_default pns)
                   (Some (Z.of_N (c_next (slot_of s (ns_or_default pns)))))) as [l|x] eqn:Hp.
  - erewrite bind_eq; [|rewrite send_packet_run, Hp; reflexivity]. cbn [fst snd ret st ef rs]. rewrite app_nil_r. reflexivity.
  - erewrite bind_eq_err; [|rewrite send_packet_run, Hp; reflexivity]. reflexivity.
Qed.

(* unique, at the level of emit(): the EVENT of an emit with a callback carries the fresh id *)
Theorem unique_emit ev data pns cb s l :
  cb_inv s ->
  ahas str_eqb (namespaces s) (ns_or_default pns) = true ->
  let ns := ns_or_default pns in
  let id := c_next (slot_of s ns) in
  pieces EVENT (PList (PStr ev :: emit_args data)) ns (Some (Z.of_N id)) = Ok l ->
  api_emit ev data pns (Some cb) s = (st (generate_ack_id ns cb) s, if sendable s then map Sent l else [], Ok (Some id)) /\
  outstanding (callbacks s) ns (Some (Z.of_N id)) = None /\
  outstanding (callbacks (st (generate_ack_id ns cb) s)) ns (Some (Z.of_N id)) = Some cb.
Proof.
  intros Hinv Hns ns id Hp. rewrite (api_emit_cb_run ev data pns cb s Hns). cbv zeta. fold ns id. rewrite Hp.
  destruct (unique_id s ns cb Hinv) as (_ & _ & H1 & H2 & _). repeat split; assumption.
Qed.

Lemma shape_result_shapes :
  shape_result [] = PNone /\ (forall x, shape_result [x] = x) /\
  (forall x y l, shape_result (x :: y :: l) = PTuple (x :: y :: l)).
Proof. repeat split. Qed.

Lemma find_intcb_sent l ns id : find_intcb ns id (map Sent l) = None.
Proof. induction l as [|p l IH]; [reflexivity|exact IH]. Qed.

(* call(): the arguments of the ACK for the id just used are returned as None / the single value /
   the tuple; without an ACK the wait times out.  `Hdec` is the codec round trip (C01) for the
   frame the server answers with. *)
Theorem call_result c s ev data pns r tbl fr p enc pns' :
  cb_inv s ->
  ahas str_eqb (namespaces s) (ns_or_default pns) = true ->
  sendable s = true -> binpkt s = None ->
  let ns := ns_or_default pns in
  let id := c_next (slot_of s ns) in
  pieces EVENT (PList (PStr ev :: emit_args data)) ns (Some (Z.of_N id)) = Ok fr ->
  ctor true ACK (PList r) (Some ns) (Some (Z.of_N id)) None = Ok p -> encode p = Ok enc ->
  decode (table_loads tbl) (PStr (fst enc)) = Ok (mkR (mkPacket (PInt ACK) pns' (Some (Z.of_N id)) (PList r)) 0 []) ->
  ns_or_default pns' = ns ->
  rs (api_call c ev data pns (Some r) tbl) s = Ok (shape_result r) /\
  filter observable (ef (api_call c ev data pns (Some r) tbl) s) = map Sent fr /\
  outstanding (callbacks (st (api_call c ev data pns (Some r) tbl) s)) ns (Some (Z.of_N id)) = None /\
  st (api_call c ev data pns (Some r) tbl) s
  = with_callbacks (st (generate_ack_id ns CbInt) s)
                   (drop_callback (callbacks (st (generate_ack_id ns CbInt) s)) ns id).
Proof.
  intros Hinv Hns Hsend Hbin ns id Hfr Hp Henc Hdec Hpns.
  destruct (unique_emit ev data pns CbInt s fr Hinv Hns Hfr) as (Hemit & _ & Hout). fold ns id in Hemit, Hout.
  set (s1 := st (generate_ack_id ns CbInt) s) in *.
  assert (Hsend1 : eiost_eqb (eio_state s1) EConnected = true) by exact Hsend.
  assert (Hbin1 : binpkt s1 = None) by exact Hbin.
  assert (Hinv1 : cb_inv s1) by (apply pres_cb_generate, Hinv).
  (* the delivery of the ACK *)
  assert (Hdel : deliver c (PStr (fst enc)) tbl s1 =
                 (with_callbacks s1 (drop_callback (callbacks s1) ns (Z.to_N (Z.of_N id))), [IntCb ns (Z.to_N (Z.of_N id)) r], Ok tt)).
  { unfold deliver. rewrite getS_bind, Hsend1. unfold contain, handle_eio_message. rewrite getS_bind, Hbin1, Hdec, lift_ok_bind.
    cbn [rp]. change (type_is _ CONNECT) with false. change (type_is _ DISCONNECT) with false.
    change (type_is _ EVENT) with false. change (type_is _ ACK) with true. cbn iota. cbn [Packet.pns Packet.pid Packet.pdata].
    rewrite handle_ack_run. cbv zeta. rewrite Hpns, Hout. cbn [star_args]. reflexivity. }
  set (s2 := with_callbacks s1 (drop_callback (callbacks s1) ns (Z.to_N (Z.of_N id)))) in *.
  assert (Hl : listen (if eiost_eqb (eio_state s1) EConnected
                       then p0 <~ lift (ctor true ACK (PList r) (Some ns) (Some (Z.of_N id)) None) ;;
                            enc0 <~ lift (encode p0) ;; deliver c (PStr (fst enc0)) tbl
                       else ret tt) s1
               = (s2, [IntCb ns (Z.to_N (Z.of_N id)) r], Ok (tt, [IntCb ns (Z.to_N (Z.of_N id)) r]))).
  { unfold listen. rewrite Hsend1, Hp, lift_ok_bind, Henc, lift_ok_bind, Hdel. reflexivity. }
  rewrite Hsend in Hemit.
  assert (Hrun : api_call c ev data pns (Some r) tbl s
                 = (s2, map Sent fr ++ [IntCb ns (Z.to_N (Z.of_N id)) r], Ok (shape_result r))).
  { unfold api_call. fold ns. erewrite bind_eq; [|exact Hemit]. cbv beta iota.
    match goal with
    | |- (st ?t s1, _ ++ ef ?t s1, rs ?t s1) = _ =>
        assert (Ht : t s1 = (s2, [IntCb ns (Z.to_N (Z.of_N id)) r], Ok (shape_result r)))
    end.
    { rewrite getS_bind. erewrite bind_eq; [|exact Hl]. cbn [snd find_intcb].
      rewrite N2Z.id, str_eqb_refl, N.eqb_refl. reflexivity. }
    unfold st, ef, rs. rewrite Ht. reflexivity. }
  unfold rs, ef, st. rewrite Hrun. cbn [fst snd].
  split; [reflexivity|]. split; [|split; [|unfold s2; rewrite N2Z.id; reflexivity]].
  - rewrite filter_app. cbn [filter observable app]. rewrite app_nil_r.
    clear. induction fr as [|x l IH]; [reflexivity|]. cbn [map filter observable]. f_equal. exact IH.
  - destruct (at_most_once c s1 pns' (Z.of_N id) (PList r) CbInt Hinv1) as (Hnone & _).
    { rewrite Hpns. exact Hout. }
    unfold st in Hnone. rewrite handle_ack_run in Hnone. cbv zeta in Hnone. rewrite Hpns, Hout in Hnone.
    cbn [star_args fst] in Hnone. exact Hnone.
Qed.

Theorem call_timeout c s ev data pns tbl fr :
  ahas str_eqb (namespaces s) (ns_or_default pns) = true ->
  let ns := ns_or_default pns in
  let id := c_next (slot_of s ns) in
  pieces EVENT (PList (PStr ev :: emit_args data)) ns (Some (Z.of_N id)) = Ok fr ->
  api_call c ev data pns None tbl s =
  (st (generate_ack_id ns CbInt) s, if sendable s then map Sent fr else [], Err TimeoutError).
Proof.
  intros Hns ns id Hfr. unfold api_call. fold ns.
  pose proof (api_emit_cb_run ev data pns CbInt s Hns) as Hemit. cbv zeta in Hemit. fold ns id in Hemit. rewrite Hfr in Hemit.
  erewrite bind_eq; [|exact Hemit]. cbv beta iota.
  set (s1 := st (generate_ack_id ns CbInt) s).
  match goal with
  | |- (st ?t s1, _ ++ ef ?t s1, rs ?t s1) = _ => assert (Ht : t s1 = (s1, [], Err TimeoutError))
  end.
  { rewrite getS_bind. erewrite bind_eq; [|reflexivity]. reflexivity. }
  unfold st, ef, rs. rewrite Ht. cbn [fst snd]. rewrite app_nil_r. reflexivity.
Qed.
Example call_result_nontrivial :
  let c := mkCfg [] [] [] in
  let s := fst (step c cli_init (CConnect (Some [slash]) PNone false true false [(PStr (s2l "0{""sid"":""S0""}"),
                 [(s2l "{""sid"":""S0""}", Ok (PDict [(PStr (s2l "sid"), PStr (s2l "S0"))]))])])) in
  step c s (CCall (s2l "q") PNone None (Some [PInt 1; PStr (s2l "two")]) [(s2l "[1,""two""]", Ok (PList [PInt 1; PStr (s2l "two")]))])
  = (with_callbacks s [(slash, mkCSlot 2 [])],
     [Sent (PStr (s2l "21[""q""]")); IntCb slash 1 [PInt 1; PStr (s2l "two")]; Ret (PTuple [PInt 1; PStr (s2l "two")])]).
Proof. vm_compute. reflexivity. Qed.

(* ====================================================================================== *)
(* C08                                                                                    *)
(* ====================================================================================== *)

(* ---- bad_namespace: emit / send / call on a namespace that is not in `namespaces` ---- *)
Theorem bad_namespace_emit ev data pns cb s :
  ahas str_eqb (namespaces s) (ns_or_default pns) = false ->
  api_emit ev data pns cb s = (s, [], Err BadNamespaceError).
Proof. intro H. unfold api_emit. rewrite getS_bind, H. reflexivity. Qed.
Theorem bad_namespace_call c ev data pns reply tbl s :
  ahas str_eqb (namespaces s) (ns_or_default pns) = false ->
  api_call c ev data pns reply tbl s = (s, [], Err BadNamespaceError).
Proof. intro H. unfold api_call. erewrite bind_eq_err by (apply bad_namespace_emit, H). reflexivity. Qed.
(* ... as operations of a history: the only effect is the exception, the state is unchanged *)
Theorem bad_namespace c s o :
  (match o with
   | CEmit _ _ pns _ | CSend _ pns _ | CCall _ _ pns _ _ => ahas str_eqb (namespaces s) (ns_or_default pns) = false
   | _ => False
   end) ->
  step c s o = (s, [Raised BadNamespaceError]).
Proof.
  destruct o; try contradiction; intro H; unfold step; cbn [step_m]; unfold api.
  - erewrite bind_eq_err by (apply bad_namespace_emit, H). reflexivity.
  - erewrite bind_eq_err by (apply bad_namespace_emit, H). reflexivity.
  - erewrite bind_eq_err by (apply bad_namespace_call, H). reflexivity.
Qed.
Example bad_namespace_nontrivial :
  let c := mkCfg [] [] [] in
  let s := fst (step c cli_init (CConnect (Some [slash]) PNone false true false [(PStr (s2l "0"), [])])) in
  namespaces s = [(slash, PStr (s2l "E0"))] /\
  step c s (CEmit (s2l "x") PNone (Some (s2l "/a")) (Some 4)) = (s, [Raised BadNamespaceError]).
Proof. vm_compute. split; reflexivity. Qed.

(* ---- connect_sends ---- *)
Fixpoint pieces_all (t : Z) (data : pv) (nss : list str) : Res (list pv) :=
  match nss with
  | [] => Ok []
  | n :: r => l <- pieces t data n None ;; l' <- pieces_all t data r ;; Ok (l ++ l')
  end.
Lemma forM_send_all t data nss s l :
  pieces_all t data nss = Ok l ->
  forM nss (fun n => send_packet t data n None) s = (s, if sendable s then map Sent l else [], Ok tt).
Proof.
  revert l. induction nss as [|n r IH]; intros l H; cbn [forM pieces_all] in *.
  - injection H as <-. destruct (sendable s); reflexivity.
  - destruct (pieces t data n None) as [l1|] eqn:E1; [|discriminate]. cbn [bind] in H.
    destruct (pieces_all t data r) as [l2|] eqn:E2; [|discriminate]. cbn [bind] in H. injection H as <-.
    erewrite bind_eq; [|rewrite send_packet_run, E1; reflexivity].
    unfold st, ef, rs. rewrite (IH l2 eq_refl). cbn [fst snd]. destruct (sendable s); [rewrite map_app|]; reflexivity.
Qed.

Definition auth_value (auth : pv) : pv := if truthy auth then auth else PDict [].
Definition with_sid (s : cli) (v : pv) : cli :=
  mkCli (connected s) (namespaces s) (conn_ns s) (conn_auth s) (callbacks s) (binpkt s) v
        (eio_state s) (eio_sid s) (eio_count s).
Lemma handle_eio_connect_run c s l :
  pieces_all CONNECT (auth_value (conn_auth s)) (conn_ns s) = Ok l ->
  handle_eio_connect c s = (with_sid s (eio_sid s), if sendable s then map Sent l else [], Ok tt).
Proof.
  intro H. unfold handle_eio_connect. rewrite getS_bind. unfold set_sid. rewrite modify_bind.
  fold (auth_value (conn_auth s)). apply (forM_send_all CONNECT (auth_value (conn_auth s)) (conn_ns s) (with_sid s (eio_sid s)) l H).
Qed.

(* the state in which connect() starts waiting *)
Definition opened (s : cli) (req : list str) (auth : pv) : cli :=
  mkCli false [] req auth (callbacks s) (binpkt s) (PStr (eio_sid_name (eio_count s)))
        EConnected (PStr (eio_sid_name (eio_count s))) (eio_count s + 1).
(* connect_sends: a connect() whose transport comes up sends exactly one CONNECT per requested
   namespace, in order, carrying the auth value (callable auth: its result) or {} - and nothing else *)
Theorem connect_sends c s nss auth l :
  connected s = false -> eio_state s = EDisconnected ->
  let req := match nss with None => derived_namespaces c | Some x => x end in
  pieces_all CONNECT (auth_value auth) req = Ok l ->
  connect_begin c nss auth false s = (opened s req auth, map Sent l, Ok tt).
Proof.
  intros Hc He req Hl. unfold connect_begin. rewrite getS_bind, Hc. fold req.
  unfold set_conn. rewrite modify_bind. unfold set_namespaces. rewrite modify_bind. rewrite getS_bind.
  cbn [eio_state]. rewrite He. cbn [eiost_eqb negb]. unfold eio_open. rewrite modify_bind.
  cbn [connected namespaces conn_ns conn_auth callbacks binpkt sid eio_state eio_sid eio_count].
  erewrite bind_eq.
  2:{ erewrite handle_eio_connect_run; [reflexivity|exact Hl]. }
  unfold st, ef, rs, ret, with_sid, opened, sendable. cbn [fst snd connected namespaces conn_ns conn_auth callbacks binpkt
    sid eio_state eio_sid eio_count eiost_eqb]. rewrite Hc, app_nil_r. reflexivity.
Qed.
Example connect_sends_nontrivial :
  pieces_all CONNECT (auth_value (PDict [(PStr (s2l "t"), PInt 1)])) [slash; s2l "/a"]
  = Ok [PStr (s2l "0{""t"":1}"); PStr (s2l "0/a,{""t"":1}")] /\
  pieces_all CONNECT (auth_value PNone) [s2l "/a"] = Ok [PStr (s2l "0/a,{}")].
Proof. vm_compute. split; reflexivity. Qed.

(* ---- reset: _handle_eio_disconnect ---- *)
Definition cleared (s : cli) : cli :=
  mkCli false (if connected s then [] else namespaces s) (conn_ns s) (conn_auth s) [] None PNone
        (eio_state s) (eio_sid s) (eio_count s).
(* whenever _handle_eio_disconnect completes (no handler raised) the callbacks, the half-received
   binary packet and the sid are gone, whatever the state was; `namespaces` is emptied only if
   `connected` was set *)
Theorem reset c reason s :
  rs (handle_eio_disconnect c reason) s = Ok tt ->
  st (handle_eio_disconnect c reason) s = cleared s.
Proof.
  unfold handle_eio_disconnect, rs, st. rewrite getS_bind.
  set (loop := forM (map fst (namespaces s)) (fun n => trigger_ c ev_disconnect n [reason] ;;; trigger_ c ev_final n [])).
  assert (Hloop : st loop s = s).
  { apply obliv_st. unfold loop. clear. induction (map fst (namespaces s)) as [|n r IH]; [apply obliv_ret|].
    cbn [forM]. apply obliv_bind; [|intro; exact IH].
    apply obliv_bind; [apply obliv_trigger_|intro; apply obliv_trigger_]. }
  unfold cleared. destruct (connected s) eqn:Hc.
  - fold loop. rewrite bind_run.
    assert (Hb : st (loop ;;; set_namespaces (fun _ => []) ;;; set_connected false) s
                 = match rs loop s with Ok _ => mkCli false [] (conn_ns s) (conn_auth s) (callbacks s) (binpkt s) (sid s)
                                                          (eio_state s) (eio_sid s) (eio_count s)
                                   | Err _ => s end).
    { unfold st at 1. rewrite bind_run, Hloop. destruct (rs loop s); reflexivity. }
    destruct (rs (loop ;;; set_namespaces (fun _ => []) ;;; set_connected false) s) as [u|x] eqn:Hr; cbn [fst snd]; [|discriminate].
    intros _. rewrite Hb. unfold rs in Hr. rewrite bind_run, Hloop in Hr.
    destruct (rs loop s); [reflexivity|discriminate].
  - intros _. cbn. rewrite Hc. reflexivity.
Qed.
Corollary reset_fields c reason s :
  rs (handle_eio_disconnect c reason) s = Ok tt ->
  let s' := st (handle_eio_disconnect c reason) s in
  callbacks s' = [] /\ binpkt s' = None /\ sid s' = PNone /\ connected s' = false /\
  (connected s = true -> namespaces s' = []).
Proof. intros H s'. unfold s'. rewrite (reset c reason s H). repeat split. cbn. intros ->. reflexivity. Qed.
Example reset_nontrivial :
  let c := mkCfg [] [] [] in
  let s := mkCli true [(slash, PStr (s2l "S0"))] [slash] PNone [(slash, mkCSlot 3 [(2, CbUser 5)])]
                 (Some (mkR default_packet 1 [])) (PStr (s2l "E0")) EConnected (PStr (s2l "E0")) 1 in
  handle_eio_disconnect c r_transport_error s = (cleared s, [], Ok tt) /\ namespaces (cleared s) = [] /\ callbacks (cleared s) = [].
Proof. vm_compute. repeat split. Qed.

(* ---- notifications: the checker's expectation [notify] is what the model does ---- *)
Definition to_calls (l : list (N * list pv)) : list eff := map (fun ha => Call (fst ha) (snd ha)) l.
Lemma calls_of_to_calls l : calls_of (to_calls l) = l.
Proof. induction l as [|[h a] l IH]; [reflexivity|]. cbn [to_calls map calls_of flat_map app fst snd] in *. f_equal. exact IH. Qed.

Lemma trig_via c ev ns args h a E R :
  responsible c (PStr ev) ns args = Some (h, a) ->
  call_with_retry c (PStr ev) h a cli_init = (cli_init, E, R) ->
  trig_eff c (PStr ev) ns args = E /\ trig_res c (PStr ev) ns args = R.
Proof.
  intros Hr Hc. unfold trig_eff, trig_res, ef, rs, trigger_event. unfold responsible in Hr.
  destruct (get_event_handler_str c ev ns args) as [r Hg]. rewrite Hg in *. rewrite lift_ok_bind.
  destruct r as [[h' a']|].
  - injection Hr as -> ->. rewrite Hc. split; reflexivity.
  - destruct (get_namespace_handler c ns args) as [[methods a']|]; [|discriminate].
    destruct (aget str_eqb methods ev) as [h'|]; [|discriminate]. injection Hr as -> ->.
    rewrite Hc. split; reflexivity.
Qed.
(* the legacy disconnect handler that takes no reason: TypeError, then the retry without it *)
Lemma call_with_retry_legacy c ev h a v s :
  is_disconnect ev = true ->
  arity_fits c h (List.length a) = false -> arity_fits c h (List.length (removelast a)) = true ->
  returns c h = Some v ->
  call_with_retry c ev h a s = (s, [Call h (removelast a)], Ok v).
Proof.
  intros Hd Hn Hy Hv. unfold call_with_retry, catch.
  assert (H1 : call_handler c h a s = (s, [], Err TypeError)).
  { unfold arity_fits, returns, call_handler in *. destruct (aget N.eqb (behav c) h) as [b|]; [|discriminate].
    destruct (h_arity b) as [n|]; [|discriminate]. rewrite Hn. reflexivity. }
  rewrite H1, Hd. rewrite (call_handler_ok c h (removelast a) v s Hy Hv). reflexivity.
Qed.
Lemma notify_sound c ev ns args l :
  notify c (PStr ev) ns args = Some l ->
  trig_eff c (PStr ev) ns args = to_calls l /\ exists v, trig_res c (PStr ev) ns args = Ok v.
Proof.
  unfold notify. destruct (get_event_handler_str c ev ns args) as [r Hg]. rewrite Hg.
  destruct (responsible c (PStr ev) ns args) as [[h a]|] eqn:Hr.
  - destruct (returns c h) as [v|] eqn:Hv; [|discriminate].
    destruct (arity_fits c h (List.length a)) eqn:Ha.
    + intro H. injection H as <-. destruct (trig_responsible c ev ns args h a v Hr Ha Hv) as [H1 H2].
      split; [exact H1|]. exists v. exact H2.
    + destruct (is_disconnect (PStr ev)) eqn:Hd; cbn [andb]; [|discriminate].
      destruct (arity_fits c h (List.length (removelast a))) eqn:Hy; [|discriminate].
      intro H. injection H as <-.
      destruct (trig_via c ev ns args h a _ _ Hr (call_with_retry_legacy c (PStr ev) h a v cli_init Hd Ha Hy Hv)) as [H1 H2].
      split; [exact H1|]. exists v. exact H2.
  - intro H. injection H as <-. destruct (trig_nobody c ev ns args Hr) as [H1 H2]. split; [exact H1|]. exists PNone. exact H2.
Qed.
Lemma trigger_notify c ev ns args l s :
  notify c (PStr ev) ns args = Some l -> trigger_ c (PStr ev) ns args s = (s, to_calls l, Ok tt).
Proof.
  intro H. destruct (notify_sound c ev ns args l H) as [He [v Hv]]. rewrite trigger_run, He, Hv. reflexivity.
Qed.

Definition expect_disconnects (c : cfg) (reason : pv) (nss : list str) : option (list (N * list pv)) :=
  fold_opt (fun n => notify c ev_disconnect n [reason]) nss.
Definition finals_silent (c : cfg) (nss : list str) : Prop :=
  forall n, In n nss -> notify c ev_final n [] = Some [].

Lemma notify_loop c reason nss calls s :
  expect_disconnects c reason nss = Some calls -> finals_silent c nss ->
  forM nss (fun n => trigger_ c ev_disconnect n [reason] ;;; trigger_ c ev_final n []) s = (s, to_calls calls, Ok tt).
Proof.
  revert calls. induction nss as [|n r IH]; intros calls H Hf; cbn [forM].
  - injection H as <-. reflexivity.
  - unfold expect_disconnects in H. cbn [fold_opt fold_right] in H.
    destruct (notify c ev_disconnect n [reason]) as [l1|] eqn:E1; [|discriminate].
    fold (fold_opt (fun n => notify c ev_disconnect n [reason]) r) in H.
    destruct (fold_opt (fun n => notify c ev_disconnect n [reason]) r) as [l2|] eqn:E2; [|discriminate].
    cbn [opt_app] in H. injection H as <-.
    assert (Hn : (trigger_ c ev_disconnect n [reason] ;;; trigger_ c ev_final n []) s = (s, to_calls l1, Ok tt)).
    { pose proof (trigger_notify c (s2l "disconnect") n [reason] l1 s E1) as T1.
      pose proof (trigger_notify c (s2l "__disconnect_final") n [] [] s (Hf n (or_introl eq_refl))) as T2.
      change (PStr (s2l "disconnect")) with ev_disconnect in T1. change (PStr (s2l "__disconnect_final")) with ev_final in T2.
      erewrite bind_eq by exact T1. unfold st, ef, rs. cbv beta. rewrite T2.
      cbn [fst snd to_calls map]. rewrite app_nil_r. reflexivity. }
    erewrite bind_eq by exact Hn. unfold st, ef, rs. cbv beta.
    rewrite (IH l2) by (try reflexivity; try exact E2; intros m Hm; apply Hf; right; exact Hm).
    cbn [fst snd]. unfold to_calls. rewrite map_app. reflexivity.
Qed.

(* _handle_eio_disconnect on a connected client: every namespace is notified once, then everything is cleared *)
Lemma handle_eio_disconnect_connected c reason s calls :
  connected s = true ->
  expect_disconnects c reason (map fst (namespaces s)) = Some calls -> finals_silent c (map fst (namespaces s)) ->
  handle_eio_disconnect c reason s = (cleared s, to_calls calls, Ok tt).
Proof.
  intros Hc He Hf. unfold handle_eio_disconnect. rewrite getS_bind, Hc.
  erewrite bind_eq.
  2:{ erewrite bind_eq by (apply (notify_loop c reason _ calls s He Hf)). reflexivity. }
  unfold st, ef, rs, cleared. cbn. rewrite Hc, !app_nil_r. reflexivity.
Qed.

(* the fully disconnected client *)
Definition down (s : cli) : cli :=
  mkCli false [] (conn_ns s) (conn_auth s) [] None PNone EDisconnected PNone (eio_count s).
Definition fully_disconnected (s : cli) : Prop :=
  connected s = false /\ namespaces s = [] /\ callbacks s = [] /\ binpkt s = None /\ sid s = PNone /\
  eio_state s = EDisconnected.
Lemma down_fully s : fully_disconnected (down s).
Proof. repeat split. Qed.

Lemma eio_disconnect_connected c reason s calls :
  connected s = true -> eio_state s = EConnected ->
  let r := match reason with Some r => r | None => r_client_disconnect end in
  expect_disconnects c r (map fst (namespaces s)) = Some calls -> finals_silent c (map fst (namespaces s)) ->
  eio_disconnect c reason s = (down s, to_calls calls, Ok tt).
Proof.
  intros Hc He r Hx Hf. unfold eio_disconnect. rewrite getS_bind, He. cbn [eiost_eqb]. fold r.
  set (s1 := mkCli (connected s) (namespaces s) (conn_ns s) (conn_auth s) (callbacks s) (binpkt s) (sid s)
                   EDisconnecting (eio_sid s) (eio_count s)).
  assert (H1 : contain (handle_eio_disconnect c r) s1 = (cleared s1, to_calls calls, Ok tt)).
  { unfold contain. rewrite (handle_eio_disconnect_connected c r s1 calls Hc Hx Hf). reflexivity. }
  assert (Hin : (set_eio_state EDisconnecting ;;; contain (handle_eio_disconnect c r) ;;; set_eio_state EDisconnected) s
                = (st (set_eio_state EDisconnected) (cleared s1), to_calls calls, Ok tt)).
  { unfold set_eio_state at 1. rewrite modify_bind. fold s1. erewrite bind_eq by exact H1.
    unfold ef, rs. cbn [set_eio_state modify fst snd]. rewrite app_nil_r. reflexivity. }
  erewrite bind_eq by exact Hin.
  unfold st, ef, rs, down, cleared, s1. cbn. rewrite Hc, !app_nil_r. reflexivity.
Qed.

(* disconnect_once, cause 1: disconnect() *)
Theorem disconnect_once_client c s calls frames :
  connected s = true -> eio_state s = EConnected ->
  pieces_all DISCONNECT PNone (map fst (namespaces s)) = Ok frames ->
  expect_disconnects c r_client_disconnect (map fst (namespaces s)) = Some calls ->
  finals_silent c (map fst (namespaces s)) ->
  api_disconnect c s = (down s, map Sent frames ++ to_calls calls, Ok tt).
Proof.
  intros Hc He Hp Hx Hf. unfold api_disconnect. rewrite getS_bind.
  erewrite bind_eq by (apply (forM_send_all DISCONNECT PNone _ s frames Hp)).
  unfold st, ef, rs. rewrite (eio_disconnect_connected c None s calls Hc He Hx Hf).
  unfold sendable. rewrite He. reflexivity.
Qed.
(* cause 2: the transport is lost *)
Theorem disconnect_once_loss c s calls :
  connected s = true -> eio_state s = EConnected ->
  expect_disconnects c r_transport_error (map fst (namespaces s)) = Some calls ->
  finals_silent c (map fst (namespaces s)) ->
  eio_loss c s = (down s, to_calls calls, Ok tt).
Proof.
  intros Hc He Hx Hf. unfold eio_loss. rewrite getS_bind, He. cbn [eiost_eqb].
  assert (H1 : contain (handle_eio_disconnect c r_transport_error) s = (cleared s, to_calls calls, Ok tt)).
  { unfold contain. rewrite (handle_eio_disconnect_connected c _ s calls Hc Hx Hf). reflexivity. }
  erewrite bind_eq by exact H1. unfold st, ef, rs, down, cleared. cbn. rewrite Hc, app_nil_r. reflexivity.
Qed.
(* cause 3: the server closes the engine.io connection *)
Theorem disconnect_once_server_close c s calls :
  connected s = true -> eio_state s = EConnected ->
  expect_disconnects c r_server_disconnect (map fst (namespaces s)) = Some calls ->
  finals_silent c (map fst (namespaces s)) ->
  eio_server_close c s = (down s, to_calls calls, Ok tt).
Proof.
  intros Hc He Hx Hf. unfold eio_server_close. rewrite getS_bind, He. cbn [eiost_eqb].
  apply (eio_disconnect_connected c (Some r_server_disconnect) s calls Hc He Hx Hf).
Qed.

(* exactly one notification per namespace: when a handler is responsible for 'disconnect' on the
   namespace and accepts the reason (or, legacy, no argument) and returns, the expectation for
   that namespace is that single call *)
Lemma expect_one c reason ns h a :
  responsible c ev_disconnect ns [reason] = Some (h, a) ->
  arity_fits c h (List.length a) = true -> (exists v, returns c h = Some v) ->
  notify c ev_disconnect ns [reason] = Some [(h, a)].
Proof.
  intros Hr Ha [v Hv]. unfold notify. destruct (get_event_handler_str c (s2l "disconnect") ns [reason]) as [r Hg].
  change ev_disconnect with (PStr (s2l "disconnect")) in *. rewrite Hg, Hr, Hv, Ha. reflexivity.
Qed.
Example disconnect_once_nontrivial :
  let c := mkCfg [(slash, [(s2l "disconnect", 2)]); (s2l "/a", [(s2l "disconnect", 5)])] []
                 [(2, mkBehav (Some 1%nat) (Returns PNone)); (5, mkBehav (Some 0%nat) (Returns PNone))] in
  expect_disconnects c r_transport_error [slash; s2l "/a"] = Some [(2, [r_transport_error]); (5, [])] /\
  finals_silent c [slash; s2l "/a"].
Proof. split; [vm_compute; reflexivity|]. intros n [<-|[<-|[]]]; vm_compute; reflexivity. Qed.

(* ---- wait_all_or_error ---- *)
From VT Require Import Client.Witness.

(* what disconnect() does while `connected` is still False: DISCONNECT packets, the transport is
   closed, callbacks / binary packet / sid are reset - but `namespaces` is NOT emptied *)
Definition failed_state (s : cli) : cli :=
  mkCli false (namespaces s) (conn_ns s) (conn_auth s) [] None PNone EDisconnected PNone (eio_count s).
Lemma handle_eio_disconnect_unconnected c r s :
  connected s = false -> handle_eio_disconnect c r s = (cleared s, [], Ok tt).
Proof.
  intro Hc. unfold handle_eio_disconnect. rewrite getS_bind, Hc. unfold cleared. rewrite Hc.
  unfold bindM, ret, set_callbacks, set_binpkt, set_sid, modify. cbn. rewrite Hc. reflexivity.
Qed.
Lemma eio_disconnect_unconnected c reason s :
  connected s = false -> eio_state s = EConnected ->
  eio_disconnect c reason s = (failed_state s, [], Ok tt).
Proof.
  intros Hc He. unfold eio_disconnect. rewrite getS_bind, He. cbn [eiost_eqb].
  set (r := match reason with Some r => r | None => r_client_disconnect end).
  set (s1 := mkCli (connected s) (namespaces s) (conn_ns s) (conn_auth s) (callbacks s) (binpkt s) (sid s)
                   EDisconnecting (eio_sid s) (eio_count s)).
  assert (H1 : contain (handle_eio_disconnect c r) s1 = (cleared s1, [], Ok tt)).
  { unfold contain. rewrite (handle_eio_disconnect_unconnected c r s1 Hc). reflexivity. }
  assert (Hin : (set_eio_state EDisconnecting ;;; contain (handle_eio_disconnect c r) ;;; set_eio_state EDisconnected) s
                = (st (set_eio_state EDisconnected) (cleared s1), [], Ok tt)).
  { unfold set_eio_state at 1. rewrite modify_bind. fold s1. erewrite bind_eq by exact H1. reflexivity. }
  erewrite bind_eq by exact Hin.
  unfold st, ef, rs, failed_state, cleared, s1. cbn. rewrite Hc. reflexivity.
Qed.
Lemma api_disconnect_unconnected c s d :
  connected s = false -> eio_state s = EConnected ->
  pieces_all DISCONNECT PNone (map fst (namespaces s)) = Ok d ->
  api_disconnect c s = (failed_state s, map Sent d, Ok tt).
Proof.
  intros Hc He Hd. unfold api_disconnect. rewrite getS_bind.
  erewrite bind_eq by (apply (forM_send_all DISCONNECT PNone _ s d Hd)).
  unfold sendable. rewrite He. cbn [eiost_eqb].
  unfold st, ef, rs. cbv beta. rewrite (eio_disconnect_unconnected c None s Hc He). cbn [fst snd]. rewrite app_nil_r. reflexivity.
Qed.

(* while connect() waits: connected is still False and the request is fixed; either the transport
   is up, or the last accepted namespace has been ended by the server inside the window, in which
   case the client has closed the transport and is already fully reset *)
Definition W (req : list str) (s : cli) : Prop :=
  connected s = false /\ eio_state s = EConnected /\ conn_ns s = req.
Definition Wd (req : list str) (s : cli) : Prop :=
  connected s = false /\ conn_ns s = req /\ eio_state s = EDisconnected /\ namespaces s = [] /\
  callbacks s = [] /\ binpkt s = None /\ sid s = PNone /\ eio_sid s = PNone.
Definition W' (req : list str) (s : cli) : Prop := W req s \/ Wd req s.
Definition hoareW (req : list str) {A} (m : CM A) : Prop := forall s, W req s -> W' req (st m s).

Lemma hoare_of_pres req {A} (m : CM A) : pres (W req) m -> hoareW req m.
Proof. intros H s Hs. left. apply H, Hs. Qed.
Lemma hoare_bind req {A B} (m : CM A) (k : A -> CM B) :
  pres (W req) m -> (forall a, hoareW req (k a)) -> hoareW req (bindM m k).
Proof.
  intros Hm Hk s Hs. unfold st. rewrite bind_run. destruct (rs m s) as [a|x]; cbn [fst].
  - apply Hk, Hm, Hs.
  - left. apply Hm, Hs.
Qed.
Lemma hoare_getS_bind req {B} (k : cli -> CM B) :
  (forall s, W req s -> W' req (st (k s) s)) -> hoareW req (bindM getS k).
Proof. intros Hk s Hs. unfold st. rewrite getS_bind. apply Hk, Hs. Qed.
Lemma hoare_contain req (m : CM unit) : hoareW req m -> hoareW req (contain m).
Proof. intros Hm s Hs. specialize (Hm s Hs). unfold st, contain in *. destruct (m s) as [[s1 e1] r]. exact Hm. Qed.

Lemma W_namespaces req f : pres (W req) (set_namespaces f).
Proof. intros s H. exact H. Qed.
Lemma W_binpkt req b : pres (W req) (set_binpkt b).
Proof. intros s H. exact H. Qed.
Lemma W_connected_false req : pres (W req) (set_connected false).
Proof. intros s H. destruct H as (? & ? & ?). repeat split; assumption. Qed.
Lemma W_cb_drop req ns i : pres (W req) (set_callbacks (fun cbs => drop_callback cbs ns i)).
Proof. intros s H. exact H. Qed.

(* _handle_disconnect inside the window: ignored for a namespace that is not listed; otherwise the
   namespace is removed and, when it was the last one, the transport is closed and everything reset *)
Lemma hoare_handle_disconnect req c pns : hoareW req (handle_disconnect c pns).
Proof.
  unfold handle_disconnect. apply hoare_getS_bind. intros s Hs.
  destruct (negb (connected s) && negb (ahas str_eqb (namespaces s) (ns_or_default pns))); [left; exact Hs|].
  revert s Hs.
  change (hoareW req (trigger_ c ev_disconnect (ns_or_default pns) [r_server_disconnect] ;;;
                      trigger_ c ev_final (ns_or_default pns) [] ;;;
                      set_namespaces (fun d => adel str_eqb d (ns_or_default pns)) ;;;
                      s' <~ getS ;; match namespaces s' with
                                    | [] => set_connected false ;;; eio_disconnect c None
                                    | _ => ret tt end)).
  apply hoare_bind; [apply pres_trigger_|intros _].
  apply hoare_bind; [apply pres_trigger_|intros _].
  apply hoare_bind; [apply W_namespaces|intros _].
  apply hoare_getS_bind. intros s (Hc & He & Hr).
  destruct (namespaces s) as [|x d] eqn:En; [|left; repeat split; assumption].
  right. unfold st, set_connected. rewrite modify_bind.
  erewrite eio_disconnect_unconnected by (try reflexivity; exact He).
  cbn [fst]. unfold Wd, failed_state. cbn. rewrite En. repeat split; assumption.
Qed.

Ltac W_base req :=
  first [ apply W_namespaces | apply W_binpkt | apply (pres_handle_connect _ (W_namespaces req))
        | apply pres_handle_event | apply (pres_handle_ack _ (W_cb_drop req))
        | apply (pres_handle_error _ (W_connected_false req) (W_namespaces req)) ].
Lemma hoare_handle_eio_message req c loads payload : hoareW req (handle_eio_message c loads payload).
Proof.
  unfold handle_eio_message.
  repeat first
    [ apply hoare_handle_disconnect
    | apply hoare_of_pres; solve [pres_go ltac:(W_base req)]
    | apply hoare_bind; [solve [pres_go ltac:(W_base req)]|intro]
    | match goal with
      | |- hoareW _ (match ?x with _ => _ end) => destruct x
      | |- hoareW _ (if ?x then _ else _) => destruct x
      end ].
Qed.
Lemma W'_deliver req c payload tbl : pres (W' req) (deliver c payload tbl).
Proof.
  intros s [Hs|Hs].
  - revert s Hs. change (hoareW req (deliver c payload tbl)). unfold deliver.
    apply hoare_getS_bind. intros s Hs. destruct (eiost_eqb (eio_state s) EConnected); [|left; exact Hs].
    apply (hoare_contain req _ (hoare_handle_eio_message req c (table_loads tbl) payload) s Hs).
  - right. unfold st, deliver. rewrite getS_bind. destruct Hs as (H1 & H2 & H3 & H4). rewrite H3. cbn.
    repeat split; try assumption; apply H4.
Qed.
Lemma W'_window req c window : pres (W' req) (forM window (fun m => deliver c (fst m) (snd m))).
Proof. apply pres_forM. intro m. apply W'_deliver. Qed.
Lemma W_opened s req auth : W req (opened s req auth).
Proof. repeat split. Qed.

Lemma forM_deliver_ok c window s : rs (forM window (fun m => deliver c (fst m) (snd m))) s = Ok tt.
Proof.
  revert s. induction window as [|m r IH]; intro s; [reflexivity|]. cbn [forM]. unfold rs. rewrite bind_run.
  assert (Hd : rs (deliver c (fst m) (snd m)) s = Ok tt).
  { unfold rs, deliver. rewrite getS_bind. destruct (eiost_eqb (eio_state s) EConnected); [|reflexivity].
    unfold contain. destruct (handle_eio_message c (table_loads (snd m)) (fst m) s) as [[? ?] ?]. reflexivity. }
  rewrite Hd. cbn [snd]. apply IH.
Qed.

Definition with_connected (s : cli) (b : bool) : cli :=
  mkCli b (namespaces s) (conn_ns s) (conn_auth s) (callbacks s) (binpkt s) (sid s) (eio_state s) (eio_sid s) (eio_count s).

Lemma api_disconnect_Wd c req s : Wd req s -> api_disconnect c s = (s, [], Ok tt) /\ s = down s.
Proof.
  destruct s as [cn nsp cns cau cbs bp sd es esd ec]. unfold Wd. cbn.
  intros (-> & _ & -> & -> & -> & -> & -> & ->). split; reflexivity.
Qed.
Lemma set_eqb_nil_l req : req <> [] -> set_eqb [] req = false.
Proof. destruct req as [|x r]; [intro H; contradiction H; reflexivity|reflexivity]. Qed.

(* wait_all_or_error, full strength: connect(wait=True) for at least one namespace on a clean client
   returns normally iff after the wait window `namespaces` has exactly the requested keys (and then
   the transport is still up); otherwise it raises ConnectionError and the client is fully
   disconnected - also when the server ended the last accepted namespace inside the window *)
Theorem wait_all_or_error c s nss auth window l :
  connected s = false -> eio_state s = EDisconnected ->
  let req := match nss with None => derived_namespaces c | Some x => x end in
  req <> [] ->
  pieces_all CONNECT (auth_value auth) req = Ok l ->
  let s1 := st (forM window (fun m => deliver c (fst m) (snd m))) (opened s req auth) in
  W' req s1 /\
  (set_eqb (map fst (namespaces s1)) req = true ->
   W req s1 /\
   rs (api_connect c nss auth true false window) s = Ok tt /\
   st (api_connect c nss auth true false window) s = with_connected s1 true) /\
  (set_eqb (map fst (namespaces s1)) req = false ->
   forall d, pieces_all DISCONNECT PNone (map fst (namespaces s1)) = Ok d ->
   rs (api_connect c nss auth true false window) s = Err ConnectionError /\
   st (api_connect c nss auth true false window) s = down s1 /\
   fully_disconnected (st (api_connect c nss auth true false window) s)).
Proof.
  intros Hc He req Hreq Hl s1.
  assert (HW : W' req s1) by (apply W'_window; left; apply W_opened).
  split; [exact HW|].
  pose proof (connect_sends c s nss auth l Hc He Hl) as Hb. fold req in Hb.
  assert (Hwin : forM window (fun m => deliver c (fst m) (snd m)) (opened s req auth)
                 = (s1, ef (forM window (fun m => deliver c (fst m) (snd m))) (opened s req auth), Ok tt)).
  { rewrite (run_eta _ (opened s req auth)). fold s1. rewrite forM_deliver_ok. reflexivity. }
  assert (Hr1 : conn_ns s1 = req) by (destruct HW as [(_ & _ & H)|(_ & H & _)]; exact H).
  split.
  - intro Hset.
    assert (HW1 : W req s1).
    { destruct HW as [H|H]; [exact H|]. destruct H as (_ & _ & _ & Hn & _). rewrite Hn in Hset. cbn [map] in Hset.
      rewrite (set_eqb_nil_l req Hreq) in Hset. discriminate. }
    split; [exact HW1|]. unfold api_connect, rs, st.
    erewrite bind_eq by exact Hb.
    assert (Hw : connect_wait c window (opened s req auth)
                 = (s1, ef (forM window (fun m => deliver c (fst m) (snd m))) (opened s req auth), Ok tt)).
    { unfold connect_wait. erewrite bind_eq by exact Hwin. unfold st, ef, rs. cbv beta. rewrite getS_bind, Hr1, Hset.
      cbn [ret fst snd]. rewrite app_nil_r. reflexivity. }
    unfold st, ef, rs. cbv beta iota. erewrite bind_eq by exact Hw. split; reflexivity.
  - intros Hset d Hd.
    assert (Hw : exists e, connect_wait c window (opened s req auth) = (down s1, e, Err ConnectionError)).
    { destruct HW as [(Hc1 & He1 & _)|HWd].
      - eexists. unfold connect_wait. erewrite bind_eq by exact Hwin. unfold st, ef, rs. cbv beta. rewrite getS_bind, Hr1, Hset.
        erewrite bind_eq by (apply (api_disconnect_unconnected c s1 d Hc1 He1 Hd)).
        unfold st, ef, rs. cbv beta. unfold set_namespaces. rewrite modify_bind. cbn [raise fst snd]. reflexivity.
      - destruct (api_disconnect_Wd c req s1 HWd) as [Hd1 Hdown].
        eexists. unfold connect_wait. erewrite bind_eq by exact Hwin. unfold st, ef, rs. cbv beta. rewrite getS_bind, Hr1, Hset.
        erewrite bind_eq by exact Hd1.
        unfold st, ef, rs. cbv beta. unfold set_namespaces. rewrite modify_bind. cbn [raise fst snd].
        f_equal. f_equal. destruct HWd as (Hc1 & _ & He1 & Hn & Hcb & Hbp & Hsid & Hesid).
        unfold down. cbn. rewrite Hc1, Hcb, Hbp, Hsid, He1, Hesid. reflexivity. }
    destruct Hw as [e Hw].
    assert (Hst : st (api_connect c nss auth true false window) s = down s1).
    { unfold api_connect, st. erewrite bind_eq by exact Hb. unfold st, ef, rs. cbv beta iota.
      erewrite bind_eq_err by exact Hw. reflexivity. }
    split; [|split; [exact Hst|rewrite Hst; apply down_fully]].
    unfold api_connect, rs. erewrite bind_eq by exact Hb. unfold st, ef, rs. cbv beta iota.
    erewrite bind_eq_err by exact Hw. reflexivity.
Qed.

(* ---- mirror: what each server packet does to `namespaces` / `connected` ---- *)
Definition with_namespaces (s : cli) (d : list (str * pv)) : cli :=
  mkCli (connected s) d (conn_ns s) (conn_auth s) (callbacks s) (binpkt s) (sid s) (eio_state s) (eio_sid s) (eio_count s).

Lemma st_bind_obliv {A B} (m : CM A) (k : A -> CM B) s :
  (forall a, obliv (k a)) -> st (bindM m k) s = st m s.
Proof.
  intro Hk. unfold st at 1. rewrite bind_run. destruct (rs m s) as [a|x]; cbn [fst]; [|reflexivity].
  apply (obliv_st _ (Hk a)).
Qed.

(* CONNECT: the namespace is added with the sid the server sent (legacy packets without a sid:
   the engine.io sid), unless it is already there *)
Theorem mirror_connect c pns data s :
  let ns := ns_or_default pns in
  st (handle_connect c pns data) s =
  if ahas str_eqb (namespaces s) ns then s
  else match connect_sid data (sid s) with
       | Ok v => with_namespaces s (aset str_eqb (namespaces s) ns v)
       | Err _ => s
       end.
Proof.
  cbv zeta. unfold handle_connect. unfold st. rewrite getS_bind.
  destruct (ahas str_eqb (namespaces s) (ns_or_default pns)); [reflexivity|].
  destruct (connect_sid data (sid s)) as [v|x]; [rewrite lift_ok_bind|reflexivity].
  change (fst (fst ((set_namespaces (fun d => aset str_eqb d (ns_or_default pns) v) ;;; trigger_ c ev_connect (ns_or_default pns) []) s)))
    with (st (set_namespaces (fun d => aset str_eqb d (ns_or_default pns) v) ;;; trigger_ c ev_connect (ns_or_default pns) []) s).
  rewrite st_bind_obliv by (intro; apply obliv_trigger_). reflexivity.
Qed.

(* DISCONNECT for a listed namespace (or while connected): the namespace is notified once and
   removed - also inside the connect() wait window, where `connected` is still False; when it was
   the last one, `connected` is cleared and the transport is closed without further notifications *)
Lemma mirror_disconnect_gen c pns s calls fl :
  eio_state s = EConnected ->
  let ns := ns_or_default pns in
  connected s = true \/ ahas str_eqb (namespaces s) ns = true ->
  notify c ev_disconnect ns [r_server_disconnect] = Some calls -> notify c ev_final ns [] = Some fl ->
  handle_disconnect c pns s =
  match adel str_eqb (namespaces s) ns with
  | [] => (down s, to_calls calls ++ to_calls fl, Ok tt)
  | d => (with_namespaces s d, to_calls calls ++ to_calls fl, Ok tt)
  end.
Proof.
  intros He ns Hg Hn Hf. unfold handle_disconnect. fold ns. rewrite getS_bind.
  assert (Hguard : negb (connected s) && negb (ahas str_eqb (namespaces s) ns) = false).
  { destruct Hg as [H|H]; rewrite H; [reflexivity|apply andb_false_r]. }
  rewrite Hguard.
  pose proof (trigger_notify c (s2l "disconnect") ns [r_server_disconnect] calls s Hn) as T1.
  change (PStr (s2l "disconnect")) with ev_disconnect in T1.
  erewrite bind_eq by exact T1. unfold st, ef, rs. cbv beta.
  pose proof (trigger_notify c (s2l "__disconnect_final") ns [] fl s Hf) as T2.
  change (PStr (s2l "__disconnect_final")) with ev_final in T2.
  erewrite bind_eq by exact T2. unfold st, ef, rs. cbv beta.
  unfold set_namespaces. rewrite modify_bind, getS_bind. cbn [namespaces].
  destruct (adel str_eqb (namespaces s) ns) as [|x d] eqn:Ed.
  - unfold set_connected. rewrite modify_bind.
    erewrite eio_disconnect_unconnected by (try reflexivity; exact He).
    cbn [fst snd]. rewrite app_nil_r. reflexivity.
  - cbn [ret fst snd]. rewrite app_nil_r. unfold with_namespaces. reflexivity.
Qed.
Theorem mirror_disconnect c pns s calls :
  eio_state s = EConnected ->
  let ns := ns_or_default pns in
  connected s = true \/ ahas str_eqb (namespaces s) ns = true ->
  notify c ev_disconnect ns [r_server_disconnect] = Some calls -> notify c ev_final ns [] = Some [] ->
  handle_disconnect c pns s =
  match adel str_eqb (namespaces s) ns with
  | [] => (down s, to_calls calls, Ok tt)
  | d => (with_namespaces s d, to_calls calls, Ok tt)
  end.
Proof.
  intros He ns Hg Hn Hf. pose proof (mirror_disconnect_gen c pns s calls [] He Hg Hn Hf) as H. cbv zeta in H. fold ns in H.
  rewrite H. cbn [to_calls map]. rewrite app_nil_r. reflexivity.
Qed.
(* the only DISCONNECT that is dropped: the client is not connected and does not list the namespace
   (the server's echo of the client's own disconnect()) *)
Theorem mirror_disconnect_unknown c pns s :
  connected s = false -> ahas str_eqb (namespaces s) (ns_or_default pns) = false ->
  handle_disconnect c pns s = (s, [], Ok tt).
Proof. intros Hc Hn. unfold handle_disconnect. rewrite getS_bind, Hc, Hn. reflexivity. Qed.

(* CONNECT_ERROR: the handler is told, the namespace is removed; for '/' everything is dropped *)
Theorem mirror_error c pns data s calls :
  let ns := ns_or_default pns in
  notify c ev_connect_error ns (match data with PNone => [] | PTuple l | PList l => l | x => [x] end) = Some calls ->
  handle_error c pns data s =
  (if str_eqb ns slash then with_connected (with_namespaces s []) false
   else with_namespaces s (adel str_eqb (namespaces s) ns), to_calls calls, Ok tt).
Proof.
  intros ns Hn. unfold handle_error. fold ns.
  pose proof (trigger_notify c (s2l "connect_error") ns _ calls s Hn) as T1.
  change (PStr (s2l "connect_error")) with ev_connect_error in T1.
  erewrite bind_eq by exact T1. unfold st, ef, rs. cbv beta.
  unfold set_namespaces at 1. rewrite modify_bind.
  destruct (str_eqb ns slash); cbn [fst snd]; rewrite app_nil_r; reflexivity.
Qed.

(* CONNECT immediately followed by DISCONNECT of the only requested namespace inside the wait
   window (what an always_connect server sends when it refuses): both handlers are told, the
   namespace is removed, the transport is closed, connect() raises ConnectionError and the client
   is fully disconnected; emit raises BadNamespaceError *)
Theorem window_disconnect_fails_connect :
  classify_window window_disconnect = [(0%Z, slash); (1%Z, slash)] /\
  let r := step cfg_w cli_init (CConnect (Some [slash]) PNone false true false window_disconnect) in
  snd r = [Sent (PStr (s2l "0{}")); Call 1 []; Call 2 [r_server_disconnect]; Raised ConnectionError] /\
  fully_disconnected (fst r) /\
  snd (step cfg_w (fst r) (CEmit (s2l "x") PNone (Some slash) None)) = [Raised BadNamespaceError].
Proof. vm_compute. repeat split. Qed.
