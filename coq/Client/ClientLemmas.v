(* Reasoning infrastructure for Client.v: running monadic code, state-preservation rules,
   state-oblivious computations (application handlers never touch the client's attributes),
   and a generic "every operation preserves P" theorem. *)
From VT Require Export Client.Client.
From Coq Require Import Lia.
Open Scope N_scope.

(* ---- projections of a run ---- *)
Definition st {A} (m : CM A) (s : cli) : cli := fst (fst (m s)).
Definition ef {A} (m : CM A) (s : cli) : list eff := snd (fst (m s)).
Definition rs {A} (m : CM A) (s : cli) : Res A := snd (m s).
Lemma run_eta {A} (m : CM A) s : m s = (st m s, ef m s, rs m s).
Proof. unfold st, ef, rs. destruct (m s) as [[a b] r]. reflexivity. Qed.

Lemma bind_run {A B} (m : CM A) (k : A -> CM B) s :
  bindM m k s = match rs m s with
                | Ok a => (st (k a) (st m s), ef m s ++ ef (k a) (st m s), rs (k a) (st m s))
                | Err x => (st m s, ef m s, Err x)
                end.
Proof.
  unfold bindM, st, ef, rs. destruct (m s) as [[s1 e1] [a|x]]; cbn [fst snd]; [|reflexivity].
  destruct (k a s1) as [[s2 e2] r]. reflexivity.
Qed.
Lemma bind_ok {A B} (m : CM A) (k : A -> CM B) s a :
  rs m s = Ok a -> bindM m k s = (st (k a) (st m s), ef m s ++ ef (k a) (st m s), rs (k a) (st m s)).
Proof. intro H. rewrite bind_run, H. reflexivity. Qed.
Lemma bind_err {A B} (m : CM A) (k : A -> CM B) s x :
  rs m s = Err x -> bindM m k s = (st m s, ef m s, Err x).
Proof. intro H. rewrite bind_run, H. reflexivity. Qed.

(* ---- P is preserved by m (whatever the outcome: mutations persist up to a raise) ---- *)
Definition pres (P : cli -> Prop) {A} (m : CM A) : Prop := forall s, P s -> P (st m s).

Section Pres.
  Variable P : cli -> Prop.
  Lemma pres_ret {A} (a : A) : pres P (ret a).
  Proof. intros s H. exact H. Qed.
  Lemma pres_raise {A} e : pres P (@raise cli eff A e).
  Proof. intros s H. exact H. Qed.
  Lemma pres_tell e : pres P (tell e).
  Proof. intros s H. exact H. Qed.
  Lemma pres_lift {A} (r : Res A) : pres P (lift r).
  Proof. intros s H. exact H. Qed.
  Lemma pres_getS : pres P getS.
  Proof. intros s H. exact H. Qed.
  Lemma pres_modify f : (forall s, P s -> P (f s)) -> pres P (modify f).
  Proof. intros Hf s H. apply Hf, H. Qed.
  Lemma pres_bind {A B} (m : CM A) (k : A -> CM B) :
    pres P m -> (forall a, pres P (k a)) -> pres P (bindM m k).
  Proof.
    intros Hm Hk s H. unfold st. rewrite bind_run. destruct (rs m s) as [a|x]; cbn [fst].
    - apply Hk, Hm, H.
    - apply Hm, H.
  Qed.
  (* the continuation may use what it read: s <~ getS ;; k s *)
  Lemma pres_getS_bind {B} (k : cli -> CM B) :
    (forall s, P s -> P (st (k s) s)) -> pres P (bindM getS k).
  Proof. intros Hk s H. unfold st. rewrite bind_run. cbn. apply Hk, H. Qed.
  Lemma pres_catch {A} (m : CM A) h :
    pres P m -> (forall e k, h e = Some k -> pres P k) -> pres P (catch m h).
  Proof.
    intros Hm Hh s H. unfold st, catch. specialize (Hm s H). unfold st in Hm.
    destruct (m s) as [[s1 e1] [a|x]]; cbn [fst] in *; [exact Hm|].
    destruct (h x) as [k|] eqn:E; [|exact Hm].
    specialize (Hh x k E s1 Hm). unfold st in Hh. destruct (k s1) as [[s2 e2] r]. exact Hh.
  Qed.
  Lemma pres_contain (m : CM unit) : pres P m -> pres P (contain m).
  Proof. intros Hm s H. specialize (Hm s H). unfold st, contain in *. destruct (m s) as [[s1 e1] r]. exact Hm. Qed.
  Lemma pres_forM {A} (l : list A) (f : A -> CM unit) : (forall x, pres P (f x)) -> pres P (forM l f).
  Proof.
    intro Hf. induction l as [|x l IH]; [apply pres_ret|].
    cbn [forM]. apply pres_bind; [apply Hf|intro; exact IH].
  Qed.
  Lemma pres_listen {A} (m : CM A) : pres P m -> pres P (listen m).
  Proof. intros Hm s H. specialize (Hm s H). unfold st, listen in *. destruct (m s) as [[s1 e1] [a|x]]; exact Hm. Qed.
  Lemma pres_api (m : CM unit) : pres P m -> pres P (api m).
  Proof. intros Hm s H. specialize (Hm s H). unfold st, api in *. destruct (m s) as [[s1 e1] [a|x]]; exact Hm. Qed.
  Lemma pres_if {A} (b : bool) (m1 m2 : CM A) : pres P m1 -> pres P m2 -> pres P (if b then m1 else m2).
  Proof. destruct b; auto. Qed.
End Pres.

(* structural solver; [base] closes the leaves (named functions, setters) *)
Ltac pres_step base :=
  first
  [ apply pres_ret | apply pres_raise | apply pres_tell | apply pres_lift | apply pres_getS
  | apply pres_contain | apply pres_listen | apply pres_api
  | apply pres_forM; intro
  | base
  | apply pres_bind; [|intro]
  | match goal with
    | |- pres _ (match ?x with _ => _ end) => destruct x
    | |- pres _ (if ?x then _ else _) => destruct x
    | |- pres _ (let '(_, _) := ?x in _) => destruct x
    end ].
Ltac pres_go base := repeat (pres_step base).

(* ---- computations that neither read nor write the state ---- *)
Definition obliv {A} (m : CM A) : Prop := forall s, m s = (s, ef m cli_init, rs m cli_init).
Lemma obliv_st {A} (m : CM A) : obliv m -> forall s, st m s = s.
Proof. intros H s. unfold st. rewrite H. reflexivity. Qed.
Lemma obliv_ef {A} (m : CM A) : obliv m -> forall s, ef m s = ef m cli_init.
Proof. intros H s. unfold ef at 1. rewrite H. reflexivity. Qed.
Lemma obliv_rs {A} (m : CM A) : obliv m -> forall s, rs m s = rs m cli_init.
Proof. intros H s. unfold rs at 1. rewrite H. reflexivity. Qed.
Lemma obliv_pres P {A} (m : CM A) : obliv m -> pres P m.
Proof. intros H s Hs. rewrite (obliv_st m H). exact Hs. Qed.

Lemma obliv_ret {A} (a : A) : obliv (ret a).
Proof. intro s. reflexivity. Qed.
Lemma obliv_raise {A} e : obliv (@raise cli eff A e).
Proof. intro s. reflexivity. Qed.
Lemma obliv_tell e : obliv (tell e).
Proof. intro s. reflexivity. Qed.
Lemma obliv_lift {A} (r : Res A) : obliv (lift r).
Proof. intro s. reflexivity. Qed.
Lemma obliv_bind {A B} (m : CM A) (k : A -> CM B) :
  obliv m -> (forall a, obliv (k a)) -> obliv (bindM m k).
Proof.
  intros Hm Hk s. unfold ef, rs. rewrite !bind_run.
  rewrite (obliv_rs m Hm s), (obliv_st m Hm s), (obliv_st m Hm cli_init), (obliv_ef m Hm s).
  destruct (rs m cli_init) as [a|x]; cbn [fst snd]; [|reflexivity].
  rewrite (obliv_st _ (Hk a) s), (obliv_ef _ (Hk a) s), (obliv_rs _ (Hk a) s). reflexivity.
Qed.
Lemma obliv_catch {A} (m : CM A) h :
  obliv m -> (forall e k, h e = Some k -> obliv k) -> obliv (catch m h).
Proof.
  intros Hm Hh s. unfold ef, rs, catch. rewrite (Hm s), (Hm cli_init).
  destruct (rs m cli_init) as [a|x]; cbn [fst snd]; [reflexivity|].
  destruct (h x) as [k|] eqn:E; cbn [fst snd]; [|reflexivity].
  rewrite (Hh x k E s), (Hh x k E cli_init). reflexivity.
Qed.

Lemma obliv_call_handler c h args : obliv (call_handler c h args).
Proof.
  unfold call_handler. destruct (aget N.eqb (behav c) h) as [b|]; [|apply obliv_raise].
  destruct (match h_arity b with Some n => negb (Nat.eqb n (List.length args)) | None => false end);
    [apply obliv_raise|].
  apply obliv_bind; [apply obliv_tell|intros _]. destruct (h_outcome b); [apply obliv_ret|apply obliv_raise].
Qed.
Lemma obliv_call_with_retry c ev h args : obliv (call_with_retry c ev h args).
Proof.
  unfold call_with_retry. apply obliv_catch; [apply obliv_call_handler|].
  intros e k Hk. destruct e; try discriminate. destruct (is_disconnect ev); [|discriminate].
  injection Hk as <-. apply obliv_call_handler.
Qed.
Lemma obliv_trigger_event c ev ns args : obliv (trigger_event c ev ns args).
Proof.
  unfold trigger_event. apply obliv_bind; [apply obliv_lift|intros [[h a]|]].
  - apply obliv_call_with_retry.
  - destruct (get_namespace_handler c ns args) as [[methods a]|]; [|apply obliv_ret].
    destruct ev; try (destruct (truthy _); [apply obliv_raise|apply obliv_ret]).
    destruct (aget str_eqb methods s); [apply obliv_call_with_retry|apply obliv_ret].
Qed.
Lemma obliv_trigger_ c ev ns args : obliv (trigger_ c ev ns args).
Proof. unfold trigger_. apply obliv_bind; [apply obliv_trigger_event|intro; apply obliv_ret]. Qed.

(* what notifying (event, namespace, args) does, independently of the state *)
Definition trig_eff (c : cfg) (ev : pv) (ns : str) (args : list pv) : list eff := ef (trigger_event c ev ns args) cli_init.
Definition trig_res (c : cfg) (ev : pv) (ns : str) (args : list pv) : Res pv := rs (trigger_event c ev ns args) cli_init.
Lemma trigger_event_run c ev ns args s :
  trigger_event c ev ns args s = (s, trig_eff c ev ns args, trig_res c ev ns args).
Proof. apply obliv_trigger_event. Qed.
Lemma trigger_run c ev ns args s :
  trigger_ c ev ns args s = (s, trig_eff c ev ns args,
                             match trig_res c ev ns args with Ok _ => Ok tt | Err x => Err x end).
Proof.
  unfold trigger_. rewrite bind_run. unfold st, ef, rs. rewrite trigger_event_run. cbn [fst snd].
  destruct (trig_res c ev ns args); cbn; [rewrite app_nil_r|]; reflexivity.
Qed.

(* ---- sending reads eio.state only ---- *)
Definition sendable (s : cli) : bool := eiost_eqb (eio_state s) EConnected.
Lemma eio_send_run p s : eio_send p s = (s, if sendable s then [Sent p] else [], Ok tt).
Proof. unfold eio_send, sendable. cbn. destruct (eiost_eqb (eio_state s) EConnected); reflexivity. Qed.
Lemma forM_send_run l s :
  forM l eio_send s = (s, if sendable s then map Sent l else [], Ok tt).
Proof.
  induction l as [|p l IH]; cbn [forM map].
  - destruct (sendable s); reflexivity.
  - rewrite bind_run. unfold st, ef, rs. rewrite eio_send_run. cbn [fst snd]. rewrite IH. cbn [fst snd].
    destruct (sendable s); reflexivity.
Qed.
(* pieces a packet is sent as *)
Definition pieces (t : Z) (data : pv) (ns : str) (id : option Z) : Res (list pv) :=
  p <- ctor true t data (Some ns) id None ;; enc <- encode p ;; Ok (pieces_of enc).
Lemma send_packet_run t data ns id s :
  send_packet t data ns id s =
  match pieces t data ns id with
  | Ok l => (s, if sendable s then map Sent l else [], Ok tt)
  | Err x => (s, [], Err x)
  end.
Proof.
  unfold send_packet, pieces. rewrite bind_run. unfold rs, st, ef, lift. cbn [fst snd].
  destruct (ctor true t data (Some ns) id None) as [p|x]; [|reflexivity].
  cbn [bind]. rewrite bind_run. unfold rs, st, ef. cbn [fst snd].
  destruct (encode p) as [enc|x]; [|reflexivity].
  cbn [bind]. rewrite forM_send_run. reflexivity.
Qed.
Lemma send_packet_st t data ns id s : st (send_packet t data ns id) s = s.
Proof. unfold st. rewrite send_packet_run. destruct (pieces t data ns id); reflexivity. Qed.
Lemma pres_send_packet P t data ns id : pres P (send_packet t data ns id).
Proof. intros s H. rewrite send_packet_st. exact H. Qed.
Lemma pres_trigger_ P c ev ns args : pres P (trigger_ c ev ns args).
Proof. apply obliv_pres, obliv_trigger_. Qed.
Lemma pres_trigger_event P c ev ns args : pres P (trigger_event c ev ns args).
Proof. apply obliv_pres, obliv_trigger_event. Qed.

(* ---- every operation preserves P, given that the elementary updates do ---- *)
Section StepPres.
  Variable P : cli -> Prop.
  Hypothesis H_connected_false : pres P (set_connected false).
  Hypothesis H_connected_true : pres P (set_connected true).
  Hypothesis H_namespaces : forall f, pres P (set_namespaces f).
  Hypothesis H_conn : forall l a, pres P (set_conn l a).
  Hypothesis H_binpkt : forall b, pres P (set_binpkt b).
  Hypothesis H_sid : forall v, pres P (set_sid v).
  Hypothesis H_eio_state : forall e, pres P (set_eio_state e).
  Hypothesis H_eio_reset : pres P eio_reset.
  Hypothesis H_eio_open : pres P eio_open.
  (* the three places where the callback table changes *)
  Hypothesis H_cb_clear : pres P (set_callbacks (fun _ => [])).
  Hypothesis H_cb_drop : forall ns i, pres P (set_callbacks (fun cbs => drop_callback cbs ns i)).
  Hypothesis H_cb_gen : forall ns cb, pres P (generate_ack_id ns cb).

  Ltac base :=
    first [ apply H_connected_false | apply H_connected_true | apply H_namespaces | apply H_conn | apply H_binpkt | apply H_sid
          | apply H_eio_state | apply H_eio_reset | apply H_eio_open | apply H_cb_clear | apply H_cb_drop
          | apply H_cb_gen | apply pres_send_packet | apply pres_trigger_ | apply pres_trigger_event
          | match goal with Hx : _ |- pres _ _ => solve [apply Hx] end ].

  Lemma pres_handle_eio_disconnect c reason : pres P (handle_eio_disconnect c reason).
  Proof. unfold handle_eio_disconnect. pres_go base. Qed.
  Lemma pres_eio_disconnect c reason : pres P (eio_disconnect c reason).
  Proof. unfold eio_disconnect. pose proof pres_handle_eio_disconnect. pres_go base. Qed.
  Lemma pres_eio_loss c : pres P (eio_loss c).
  Proof. unfold eio_loss. pose proof pres_handle_eio_disconnect. pres_go base. Qed.
  Lemma pres_eio_server_close c : pres P (eio_server_close c).
  Proof. unfold eio_server_close. pose proof pres_eio_disconnect. pres_go base. Qed.
  Lemma pres_handle_connect c pns data : pres P (handle_connect c pns data).
  Proof. unfold handle_connect. pres_go base. Qed.
  Lemma pres_handle_disconnect c pns : pres P (handle_disconnect c pns).
  Proof. unfold handle_disconnect. pose proof pres_eio_disconnect. pres_go base. Qed.
  Lemma pres_handle_event c pns id data : pres P (handle_event c pns id data).
  Proof. unfold handle_event. pres_go base. Qed.
  Lemma pres_invoke_callback cb ns i args : pres P (invoke_callback cb ns i args).
  Proof. unfold invoke_callback. pres_go base. Qed.
  Lemma pres_handle_ack c pns id data : pres P (handle_ack c pns id data).
  Proof. unfold handle_ack. pose proof pres_invoke_callback. pres_go base. Qed.
  Lemma pres_handle_error c pns data : pres P (handle_error c pns data).
  Proof. unfold handle_error. pres_go base. Qed.
  Lemma pres_handle_eio_message c loads payload : pres P (handle_eio_message c loads payload).
  Proof.
    unfold handle_eio_message.
    pose proof pres_handle_connect. pose proof pres_handle_disconnect. pose proof pres_handle_event.
    pose proof pres_handle_ack. pose proof pres_handle_error.
    pres_go base.
  Qed.
  Lemma pres_deliver c payload tbl : pres P (deliver c payload tbl).
  Proof. unfold deliver. pose proof pres_handle_eio_message. pres_go base. Qed.
  Lemma pres_api_emit ev data pns cb : pres P (api_emit ev data pns cb).
  Proof. unfold api_emit. pres_go base. Qed.
  Lemma pres_api_call c ev data pns reply tbl : pres P (api_call c ev data pns reply tbl).
  Proof. unfold api_call. pose proof pres_api_emit. pose proof pres_deliver. pres_go base. Qed.
  Lemma pres_api_disconnect c : pres P (api_disconnect c).
  Proof. unfold api_disconnect. pose proof pres_eio_disconnect. pres_go base. Qed.
  Lemma pres_handle_eio_connect c : pres P (handle_eio_connect c).
  Proof. unfold handle_eio_connect. pres_go base. Qed.
  Lemma pres_connect_begin c nss auth eio_fails : pres P (connect_begin c nss auth eio_fails).
  Proof.
    unfold connect_begin. pose proof (pres_handle_eio_connect c) as Hc.
    assert (Hf : pres P (fun s => match handle_eio_connect c s with
                                  | (s', e, Ok _) => (s', e, Ok false)
                                  | (s', e, Err _) => (s', e, Ok true) end)).
    { intros s Hs. specialize (Hc s Hs). unfold st in *. destruct (handle_eio_connect c s) as [[s1 e1] [a|x]]; exact Hc. }
    pres_go base.
  Qed.
  Lemma pres_connect_wait c window : pres P (connect_wait c window).
  Proof. unfold connect_wait. pose proof pres_deliver. pose proof pres_api_disconnect. pres_go base. Qed.
  Lemma pres_api_connect c nss auth wait eio_fails window : pres P (api_connect c nss auth wait eio_fails window).
  Proof. unfold api_connect. pose proof pres_connect_begin. pose proof pres_connect_wait. pres_go base. Qed.

  Theorem pres_step_m c o : pres P (step_m c o).
  Proof.
    pose proof pres_api_connect. pose proof pres_deliver. pose proof pres_api_emit. pose proof pres_api_call.
    pose proof pres_api_disconnect. pose proof pres_eio_loss. pose proof pres_eio_server_close.
    destruct o; cbn [step_m]; pres_go base.
  Qed.

  Lemma step_state c s o : fst (step c s o) = st (step_m c o) s.
  Proof. unfold step, st. destruct (step_m c o s) as [[s' e] r]. reflexivity. Qed.
  Theorem pres_step c s o : P s -> P (fst (step c s o)).
  Proof. intro H. rewrite step_state. apply pres_step_m, H. Qed.
  Lemma run_fst c ops : forall s, P s -> P (fst (run c s ops)).
  Proof.
    induction ops as [|o r IH]; intros s H; cbn [run]; [exact H|].
    pose proof (pres_step c s o H) as H1. destruct (step c s o) as [s1 e]. cbn [fst] in H1.
    specialize (IH s1 H1). destruct (run c s1 r) as [s2 es]. exact IH.
  Qed.
  (* ... and every intermediate state of a history satisfies P *)
  Lemma run_all c ops : forall s, P s -> Forall (fun se => P (fst se)) (snd (run c s ops)).
  Proof.
    induction ops as [|o r IH]; intros s H; cbn [run]; [constructor|].
    pose proof (pres_step c s o H) as H1. destruct (step c s o) as [s1 e]. cbn [fst] in H1.
    specialize (IH s1 H1). destruct (run c s1 r) as [s2 es]. cbn [snd] in *. constructor; [exact H1|exact IH].
  Qed.
End StepPres.
