(* Shared machinery for the client-side properties C08 / C09: observation equality, state
   dumps, history evaluation (correspondence bit) and specification-side helpers. *)
From VT Require Export Client.Client.
Open Scope N_scope.

(* call()'s internal callback cannot be observed from outside the client *)
Definition observable (e : eff) : bool := match e with IntCb _ _ _ => false | _ => true end.

Definition eff_eqb (a b : eff) : bool :=
  match a, b with
  | Sent p, Sent p' => pv_eqb p p'
  | Call h a, Call h' a' => N.eqb h h' && list_eqb pv_eqb a a'
  | CbCall h a, CbCall h' a' => N.eqb h h' && list_eqb pv_eqb a a'
  | IntCb n i a, IntCb n' i' a' => str_eqb n n' && N.eqb i i' && list_eqb pv_eqb a a'
  | Ret v, Ret v' => pv_eqb v v'
  | Raised e, Raised e' => exn_eqb e e'
  | _, _ => false
  end.
(* one peer, one thread of control: the whole effect sequence must agree, in order *)
Definition effs_eqb (a b : list eff) : bool :=
  list_eqb eff_eqb (filter observable a) (filter observable b).

Record cdump := mkDump {
  d_connected : bool;
  d_namespaces : list (str * pv);
  d_cbs : list (str * N * list N);           (* namespace, next id of the generator, outstanding ids *)
  d_binpkt_none : bool;
  d_sid : pv;
  d_eio : eiost
}.
Definition dump_of (s : cli) : cdump :=
  mkDump (connected s) (namespaces s)
         (map (fun x => (fst x, c_next (snd x), map fst (c_entries (snd x)))) (callbacks s))
         (match binpkt s with None => true | Some _ => false end) (sid s) (eio_state s).
Definition dump_init : cdump := dump_of cli_init.

Definition pair_eqb {A B} (fa : A -> A -> bool) (fb : B -> B -> bool) (x y : A * B) : bool :=
  fa (fst x) (fst y) && fb (snd x) (snd y).
Definition dump_eqb (a b : cdump) : bool :=
  Bool.eqb (d_connected a) (d_connected b) &&
  list_eqb (pair_eqb str_eqb pv_eqb) (d_namespaces a) (d_namespaces b) &&
  list_eqb (pair_eqb (pair_eqb str_eqb N.eqb) (list_eqb N.eqb)) (d_cbs a) (d_cbs b) &&
  Bool.eqb (d_binpkt_none a) (d_binpkt_none b) &&
  pv_eqb (d_sid a) (d_sid b) &&
  eiost_eqb (d_eio a) (d_eio b).

(* one history on the implementation: per operation the observed effects and the state dump *)
Record ccase := mkCase { k_cfg : cfg; k_ops : list op; k_obs : list (list eff * cdump) }.

(* correspondence: the model's run produces the same effects and the same state after EVERY operation *)
Fixpoint corr_steps (c : cfg) (s : cli) (ops : list op) (obs : list (list eff * cdump)) : bool :=
  match ops, obs with
  | [], [] => true
  | o :: r, (e, d) :: es =>
      let '(s1, me) := step c s o in
      effs_eqb me e && dump_eqb (dump_of s1) d && corr_steps c s1 r es
  | _, _ => false
  end.
Definition corr_ok (k : ccase) : bool := corr_steps (k_cfg k) cli_init (k_ops k) (k_obs k).

(* index of the first operation on which model and implementation differ, with what the model did *)
Fixpoint first_diff (c : cfg) (s : cli) (ops : list op) (obs : list (list eff * cdump)) (i : nat)
  : option (nat * list eff * cdump) :=
  match ops, obs with
  | o :: r, (e, d) :: es =>
      let '(s1, me) := step c s o in
      if effs_eqb me e && dump_eqb (dump_of s1) d then first_diff c s1 r es (S i)
      else Some (i, filter observable me, dump_of s1)
  | [], [] => None
  | _, _ => Some (i, [], dump_of s)
  end.

(* ---- specification-side helpers ---- *)
Definition calls_of (l : list eff) : list (N * list pv) :=
  flat_map (fun e => match e with Call h a => [(h, a)] | _ => [] end) l.
Definition cbcalls_of (l : list eff) : list (N * list pv) :=
  flat_map (fun e => match e with CbCall h a => [(h, a)] | _ => [] end) l.
Definition sent_of (l : list eff) : list pv :=
  flat_map (fun e => match e with Sent p => [p] | _ => [] end) l.
Definition raised_of (l : list eff) : list exn :=
  flat_map (fun e => match e with Raised x => [x] | _ => [] end) l.
Definition rets_of (l : list eff) : list pv :=
  flat_map (fun e => match e with Ret v => [v] | _ => [] end) l.
Definition calls_eqb (a b : list (N * list pv)) : bool :=
  list_eqb (pair_eqb N.eqb (list_eqb pv_eqb)) a b.

(* the handler responsible for (event, namespace) per the documented precedence: function
   handlers (own namespace, own catch-all, '*' namespace, '*'/'*'), then class-based
   namespaces.  None = nobody. *)
Definition responsible (c : cfg) (ev : pv) (ns : str) (args : list pv) : option (N * list pv) :=
  match get_event_handler c ev ns args with
  | Ok (Some (h, a)) => Some (h, a)
  | Ok None =>
      match get_namespace_handler c ns args with
      | Some (methods, a) =>
          match ev with
          | PStr s => match aget str_eqb methods s with Some h => Some (h, a) | None => None end
          | _ => None
          end
      | None => None
      end
  | Err _ => None
  end.
Definition arity_fits (c : cfg) (h : N) (n : nat) : bool :=
  match aget N.eqb (behav c) h with
  | Some b => match h_arity b with Some k => Nat.eqb k n | None => true end
  | None => false
  end.
Definition returns (c : cfg) (h : N) : option pv :=
  match aget N.eqb (behav c) h with
  | Some b => match h_outcome b with Returns v => Some v | Raises _ => None end
  | None => None
  end.
(* the invocations that notifying (event, namespace, args) must produce; None = the notification
   raises (the responsible handler raises, or its signature does not accept the arguments):
   outside the specified domain *)
Definition notify (c : cfg) (ev : pv) (ns : str) (args : list pv) : option (list (N * list pv)) :=
  match get_event_handler c ev ns args with
  | Err _ => None
  | Ok _ =>
      match responsible c ev ns args with
      | None => Some []
      | Some (h, a) =>
          match returns c h with
          | None => None
          | Some _ =>
              if arity_fits c h (List.length a) then Some [(h, a)]
              else if is_disconnect ev && arity_fits c h (List.length (removelast a)) then Some [(h, removelast a)]
              else None
          end
      end
  end.

Definition opt_app {A} (a b : option (list A)) : option (list A) :=
  match a, b with Some x, Some y => Some (x ++ y) | _, _ => None end.
Definition fold_opt {A} (f : A -> option (list (N * list pv))) (l : list A) : option (list (N * list pv)) :=
  fold_right (fun a acc => opt_app (f a) acc) (Some []) l.

(* handler ids registered for an event name, in function handlers and class-based namespaces *)
Definition hids_for (c : cfg) (ev : str) : list N :=
  flat_map (fun nt => match aget str_eqb (snd nt) ev with Some h => [h] | None => [] end)
           (handlers c ++ ns_handlers c).
Definition calls_for (c : cfg) (evs : list str) (l : list eff) : list (N * list pv) :=
  filter (fun ha => existsb (fun ev => existsb (N.eqb (fst ha)) (hids_for c ev)) evs) (calls_of l).

(* frames a packet with these fields must consist of *)
Definition frames_of (t : Z) (data : pv) (ns : str) (id : option Z) : Res (list pv) :=
  p <- ctor true t data (Some ns) id None ;; enc <- encode p ;; Ok (pieces_of enc).

Definition bits (corr : bool) (mask : nat) : nat :=
  ((if corr then 0 else 1) + (match mask with O => 0 | _ => 2 + mask end))%nat.

(* a checker applied to the model's own run: the observations the model itself produces *)
Definition model_obs (c : cfg) (ops : list op) : list (list eff * cdump) :=
  map (fun se => (filter observable (snd se), dump_of (fst se))) (snd (run c cli_init ops)).
Definition model_case (c : cfg) (ops : list op) : ccase := mkCase c ops (model_obs c ops).
