(* C08, history level: the mirror / reset clauses of the C08 checker (Check/C08Check.v: server view
   replay [view_step] + state judgement [c08_state]) accept the MODEL's own run of EVERY history,
   as long as the history stays in the specified domain.  The domain excludes, besides what
   [view_step] itself abandons (handlers that raise, packets outside the protocol), only the open
   finding class: a CONNECT_ERROR that arrives after connect() returned for the default namespace
   or for a namespace that is currently accepted. *)
From VT Require Import Client.ClientLemmas Client.CliCheck Client.ClientProofs Client.Witness Check.C08Check.
From Coq Require Import Lia.
Open Scope N_scope.

(* ---- small facts ---- *)
Lemma ahas_false_aget {V} (l : list (str * V)) k : ahas str_eqb l k = false -> aget str_eqb l k = None.
Proof. unfold ahas. destruct (aget str_eqb l k); [discriminate|reflexivity]. Qed.
Lemma adel_absent {V} (l : list (str * V)) ns : ahas str_eqb l ns = false -> adel str_eqb l ns = l.
Proof.
  intro H. apply ahas_false_aget in H. induction l as [|[k v] l IH]; [reflexivity|]. cbn [aget adel] in *.
  destruct (str_eqb k ns); [discriminate|]. rewrite (IH H). reflexivity.
Qed.
Lemma aset_nonempty {V} (l : list (str * V)) k v : aset str_eqb l k v <> [].
Proof. destruct l as [|[k' v'] l]; cbn [aset]; [discriminate|]. destruct (str_eqb k' k); discriminate. Qed.

Lemma py_eq_int x t : py_eq x (PInt t) = match as_int x with Some z => Z.eqb z t | None => false end.
Proof. destruct x; try reflexivity. Qed.
Lemma type_is_excl p a b : type_is p a = true -> a <> b -> type_is p b = false.
Proof.
  unfold type_is. rewrite !py_eq_int. destruct (as_int (ptype p)) as [z|]; [|discriminate].
  intros H Hn. apply Z.eqb_eq in H. subst. apply Z.eqb_neq. exact Hn.
Qed.

Lemma st_contain (m : CM unit) s : st (contain m) s = st m s.
Proof. unfold st, contain. destruct (m s) as [[s1 e1] r]. reflexivity. Qed.
Lemma deliver_live c payload tbl s :
  eio_state s = EConnected -> st (deliver c payload tbl) s = st (handle_eio_message c (table_loads tbl) payload) s.
Proof.
  intro He. unfold deliver. unfold st at 1. rewrite getS_bind, He. cbn [eiost_eqb].
  apply (st_contain (handle_eio_message c (table_loads tbl) payload) s).
Qed.
Lemma deliver_dead c payload tbl s : eio_state s = EDisconnected -> deliver c payload tbl s = (s, [], Ok tt).
Proof. intro He. unfold deliver. rewrite getS_bind, He. reflexivity. Qed.

Lemma msg_connect c loads payload s r :
  binpkt s = None -> decode loads payload = Ok r -> type_is (rp r) CONNECT = true ->
  handle_eio_message c loads payload s = handle_connect c (pns (rp r)) (pdata (rp r)) s.
Proof.
  intros Hb Hd Ht. unfold handle_eio_message. rewrite getS_bind, Hb, Hd, lift_ok_bind. cbv zeta. rewrite Ht. reflexivity.
Qed.
Lemma msg_disconnect c loads payload s r :
  binpkt s = None -> decode loads payload = Ok r -> type_is (rp r) CONNECT = false -> type_is (rp r) DISCONNECT = true ->
  handle_eio_message c loads payload s = handle_disconnect c (pns (rp r)) s.
Proof.
  intros Hb Hd H0 Ht. unfold handle_eio_message. rewrite getS_bind, Hb, Hd, lift_ok_bind. cbv zeta. rewrite H0, Ht. reflexivity.
Qed.
Lemma msg_error c loads payload s r :
  binpkt s = None -> decode loads payload = Ok r -> type_is (rp r) CONNECT_ERROR = true ->
  handle_eio_message c loads payload s = handle_error c (pns (rp r)) (pdata (rp r)) s.
Proof.
  intros Hb Hd Ht. unfold handle_eio_message. rewrite getS_bind, Hb, Hd, lift_ok_bind. cbv zeta.
  rewrite (type_is_excl _ _ CONNECT Ht), (type_is_excl _ _ DISCONNECT Ht), (type_is_excl _ _ EVENT Ht),
          (type_is_excl _ _ ACK Ht), (type_is_excl _ _ BINARY_EVENT Ht), (type_is_excl _ _ BINARY_ACK Ht), Ht by discriminate.
  reflexivity.
Qed.

Lemma classify_inv s payload tbl :
  match classify s payload tbl with
  | SConnect ns data =>
      exists r, binpkt s = None /\ decode (table_loads tbl) payload = Ok r /\ type_is (rp r) CONNECT = true /\
                ns = ns_or_default (pns (rp r)) /\ data = pdata (rp r)
  | SDisconnect ns =>
      exists r, binpkt s = None /\ decode (table_loads tbl) payload = Ok r /\ type_is (rp r) CONNECT = false /\
                type_is (rp r) DISCONNECT = true /\ ns = ns_or_default (pns (rp r))
  | SError ns data =>
      exists r, binpkt s = None /\ decode (table_loads tbl) payload = Ok r /\ type_is (rp r) CONNECT_ERROR = true /\
                ns = ns_or_default (pns (rp r)) /\ data = pdata (rp r)
  | SOther => True
  end.
Proof.
  unfold classify. destruct (binpkt s) eqn:Hb; [exact I|].
  destruct (decode (table_loads tbl) payload) as [r|x] eqn:Hd; [|exact I]. cbv zeta.
  destruct (type_is (rp r) CONNECT) eqn:H0; [exists r; repeat split; auto|].
  destruct (type_is (rp r) DISCONNECT) eqn:H1; [exists r; repeat split; auto|].
  destruct (type_is (rp r) CONNECT_ERROR) eqn:H4; [exists r; repeat split; auto|exact I].
Qed.

(* a message that is not a connection-level packet touches neither namespaces / connected nor the transport *)
Section OtherFrame.
  Variable P : cli -> Prop.
  Hypothesis P_binpkt : forall b, pres P (set_binpkt b).
  Hypothesis P_cb_drop : forall ns i, pres P (set_callbacks (fun cbs => drop_callback cbs ns i)).
  Lemma other_frame c payload tbl s :
    classify s payload tbl = SOther -> P s -> P (st (handle_eio_message c (table_loads tbl) payload) s).
  Proof.
    intros Hcl Hp. unfold classify in Hcl. unfold handle_eio_message, st. rewrite getS_bind.
    destruct (binpkt s) as [r0|] eqn:Hb.
    - revert s Hp Hb Hcl. intros s Hp _ _.
      assert (Hx : pres P (match add_attachment r0 payload with
                           | Ok (r', true) => set_binpkt None ;;;
                               (if type_is (rp r') BINARY_EVENT then handle_event c (pns (rp r')) (pid (rp r')) (pdata (rp r'))
                                else handle_ack c (pns (rp r')) (pid (rp r')) (pdata (rp r')))
                           | Ok (r', false) => set_binpkt (Some r')
                           | Err e => (if N.leb (rcount r0) (N.of_nat (List.length (ratts r0))) then ret tt
                                       else set_binpkt (Some (mkR (rp r0) (rcount r0) (ratts r0 ++ [payload])))) ;;; raise e
                           end)).
      { pres_go ltac:(first [apply P_binpkt | apply pres_handle_event | apply (pres_handle_ack _ P_cb_drop)]). }
      apply (Hx s Hp).
    - destruct (decode (table_loads tbl) payload) as [r|x] eqn:Hd; [|exact Hp].
      rewrite lift_ok_bind. cbv zeta in *.
      destruct (type_is (rp r) CONNECT); [discriminate|].
      destruct (type_is (rp r) DISCONNECT); [discriminate|].
      destruct (type_is (rp r) CONNECT_ERROR); [discriminate|].
      assert (Hx : pres P (if type_is (rp r) EVENT then handle_event c (pns (rp r)) (pid (rp r)) (pdata (rp r))
                           else if type_is (rp r) ACK then handle_ack c (pns (rp r)) (pid (rp r)) (pdata (rp r))
                           else if type_is (rp r) BINARY_EVENT || type_is (rp r) BINARY_ACK then set_binpkt (Some r)
                           else raise ValueError)).
      { pres_go ltac:(first [apply P_binpkt | apply pres_handle_event | apply (pres_handle_ack _ P_cb_drop)]). }
      apply (Hx s Hp).
  Qed.
End OtherFrame.
