(* C08, history level: the mirror / reset clauses of the C08 checker (Check/C08Check.v: server view
   replay [view_step] + state judgement [c08_state]) accept the MODEL's own run of EVERY history,
   as long as the history stays in the specified domain.  The domain excludes, besides what
   [view_step] itself abandons (handlers that raise, packets outside the protocol), only the open
   finding class: a CONNECT_ERROR that arrives after connect() returned for the default namespace
   or for a namespace that is currently accepted. *)
From VT Require Import Client.ClientLemmas Client.CliCheck Client.ClientProofs Client.Witness Check.C08Check.
From Coq Require Import Lia.
Open Scope N_scope.

(* ---- small facts ---- *)
Lemma ahas_false_aget {V} (l : list (str * V)) k : ahas str_eqb l k = false -> aget str_eqb l k = None.
Proof. unfold ahas. destruct (aget str_eqb l k); [discriminate|reflexivity]. Qed.
Lemma adel_absent {V} (l : list (str * V)) ns : ahas str_eqb l ns = false -> adel str_eqb l ns = l.
Proof.
  intro H. apply ahas_false_aget in H. induction l as [|[k v] l IH]; [reflexivity|]. cbn [aget adel] in *.
  destruct (str_eqb k ns); [discriminate|]. rewrite (IH H). reflexivity.
Qed.
Lemma aset_nonempty {V} (l : list (str * V)) k v : aset str_eqb l k v <> [].
Proof. destruct l as [|[k' v'] l]; cbn [aset]; [discriminate|]. destruct (str_eqb k' k); discriminate. Qed.

Lemma py_eq_int x t : py_eq x (PInt t) = match as_int x with Some z => Z.eqb z t | None => false end.
Proof. destruct x; try reflexivity. Qed.
Lemma type_is_excl p a b : type_is p a = true -> a <> b -> type_is p b = false.
Proof.
  unfold type_is. rewrite !py_eq_int. destruct (as_int (ptype p)) as [z|]; [|discriminate].
  intros H Hn. apply Z.eqb_eq in H. subst. apply Z.eqb_neq. exact Hn.
Qed.

Lemma st_contain (m : CM unit) s : st (contain m) s = st m s.
Proof. unfold st, contain. destruct (m s) as [[s1 e1] r]. reflexivity. Qed.
Lemma deliver_live c payload tbl s :
  eio_state s = EConnected -> st (deliver c payload tbl) s = st (handle_eio_message c (table_loads tbl) payload) s.
Proof.
  intro He. unfold deliver. unfold st at 1. rewrite getS_bind, He. cbn [eiost_eqb].
  apply (st_contain (handle_eio_message c (table_loads tbl) payload) s).
Qed.
Lemma deliver_dead c payload tbl s : eio_state s = EDisconnected -> deliver c payload tbl s = (s, [], Ok tt).
Proof. intro He. unfold deliver. rewrite getS_bind, He. reflexivity. Qed.

Lemma msg_connect c loads payload s r :
  binpkt s = None -> decode loads payload = Ok r -> type_is (rp r) CONNECT = true ->
  handle_eio_message c loads payload s = handle_connect c (pns (rp r)) (pdata (rp r)) s.
Proof.
  intros Hb Hd Ht. unfold handle_eio_message. rewrite getS_bind, Hb, Hd, lift_ok_bind. cbv zeta. rewrite Ht. reflexivity.
Qed.
Lemma msg_disconnect c loads payload s r :
  binpkt s = None -> decode loads payload = Ok r -> type_is (rp r) CONNECT = false -> type_is (rp r) DISCONNECT = true ->
  handle_eio_message c loads payload s = handle_disconnect c (pns (rp r)) s.
Proof.
  intros Hb Hd H0 Ht. unfold handle_eio_message. rewrite getS_bind, Hb, Hd, lift_ok_bind. cbv zeta. rewrite H0, Ht. reflexivity.
Qed.
Lemma msg_error c loads payload s r :
  binpkt s = None -> decode loads payload = Ok r -> type_is (rp r) CONNECT_ERROR = true ->
  handle_eio_message c loads payload s = handle_error c (pns (rp r)) (pdata (rp r)) s.
Proof.
  intros Hb Hd Ht. unfold handle_eio_message. rewrite getS_bind, Hb, Hd, lift_ok_bind. cbv zeta.
  rewrite (type_is_excl _ _ CONNECT Ht), (type_is_excl _ _ DISCONNECT Ht), (type_is_excl _ _ EVENT Ht),
          (type_is_excl _ _ ACK Ht), (type_is_excl _ _ BINARY_EVENT Ht), (type_is_excl _ _ BINARY_ACK Ht), Ht by discriminate.
  reflexivity.
Qed.

Lemma classify_inv s payload tbl :
  match classify s payload tbl with
  | SConnect ns data =>
      exists r, binpkt s = None /\ decode (table_loads tbl) payload = Ok r /\ type_is (rp r) CONNECT = true /\
                ns = ns_or_default (pns (rp r)) /\ data = pdata (rp r)
  | SDisconnect ns =>
      exists r, binpkt s = None /\ decode (table_loads tbl) payload = Ok r /\ type_is (rp r) CONNECT = false /\
                type_is (rp r) DISCONNECT = true /\ ns = ns_or_default (pns (rp r))
  | SError ns data =>
      exists r, binpkt s = None /\ decode (table_loads tbl) payload = Ok r /\ type_is (rp r) CONNECT_ERROR = true /\
                ns = ns_or_default (pns (rp r)) /\ data = pdata (rp r)
  | SOther => True
  end.
Proof.
  unfold classify. destruct (binpkt s) eqn:Hb; [exact I|].
  destruct (decode (table_loads tbl) payload) as [r|x] eqn:Hd; [|exact I]. cbv zeta.
  destruct (type_is (rp r) CONNECT) eqn:H0; [exists r; repeat split; auto|].
  destruct (type_is (rp r) DISCONNECT) eqn:H1; [exists r; repeat split; auto|].
  destruct (type_is (rp r) CONNECT_ERROR) eqn:H4; [exists r; repeat split; auto|exact I].
Qed.

(* a message that is not a connection-level packet touches neither namespaces / connected nor the transport *)
Section OtherFrame.
  Variable P : cli -> Prop.
  Hypothesis P_binpkt : forall b, pres P (set_binpkt b).
  Hypothesis P_cb_drop : forall ns i, pres P (set_callbacks (fun cbs => drop_callback cbs ns i)).
  Lemma other_frame c payload tbl s :
    classify s payload tbl = SOther -> P s -> P (st (handle_eio_message c (table_loads tbl) payload) s).
  Proof.
    intros Hcl Hp. unfold classify in Hcl. unfold handle_eio_message, st. rewrite getS_bind.
    destruct (binpkt s) as [r0|] eqn:Hb.
    - revert s Hp Hb Hcl. intros s Hp _ _.
      assert (Hx : pres P (match add_attachment r0 payload with
                           | Ok (r', true) => set_binpkt None ;;;
                               (if type_is (rp r') BINARY_EVENT then handle_event c (pns (rp r')) (pid (rp r')) (pdata (rp r'))
                                else handle_ack c (pns (rp r')) (pid (rp r')) (pdata (rp r')))
                           | Ok (r', false) => set_binpkt (Some r')
                           | Err e => (if N.leb (rcount r0) (N.of_nat (List.length (ratts r0))) then ret tt
                                       else set_binpkt (Some (mkR (rp r0) (rcount r0) (ratts r0 ++ [payload])))) ;;; raise e
                           end)).
      { pres_go ltac:(first [apply P_binpkt | apply pres_handle_event | apply (pres_handle_ack _ P_cb_drop)]). }
      apply (Hx s Hp).
    - destruct (decode (table_loads tbl) payload) as [r|x] eqn:Hd; [|exact Hp].
      rewrite lift_ok_bind. cbv zeta in *.
      destruct (type_is (rp r) CONNECT); [discriminate|].
      destruct (type_is (rp r) DISCONNECT); [discriminate|].
      destruct (type_is (rp r) CONNECT_ERROR); [discriminate|].
      assert (Hx : pres P (if type_is (rp r) EVENT then handle_event c (pns (rp r)) (pid (rp r)) (pdata (rp r))
                           else if type_is (rp r) ACK then handle_ack c (pns (rp r)) (pid (rp r)) (pdata (rp r))
                           else if type_is (rp r) BINARY_EVENT || type_is (rp r) BINARY_ACK then set_binpkt (Some r)
                           else raise ValueError)).
      { pres_go ltac:(first [apply P_binpkt | apply pres_handle_event | apply (pres_handle_ack _ P_cb_drop)]). }
      apply (Hx s Hp).
  Qed.
End OtherFrame.

(* ---- the simulation invariant between the model state and the server's view ---- *)
Definition Live (s : cli) (sv : sview) : Prop :=
  eio_state s = EConnected /\ namespaces s = sv_acc sv /\ connected s = true /\
  (sv_ever sv = true -> sv_acc sv <> []).
Definition Dead (s : cli) (sv : sview) : Prop :=
  connected s = false /\ namespaces s = [] /\ callbacks s = [] /\ binpkt s = None /\ sid s = PNone /\
  eio_state s = EDisconnected /\ sv_acc sv = [].
Definition Sim (s : cli) (sv : sview) : Prop := if sv_live sv then Live s sv else Dead s sv.

Lemma list_eqb_refl' {A} (f : A -> A -> bool) : (forall x, f x x = true) -> forall l, list_eqb f l l = true.
Proof. intros Hf l. induction l as [|x l IH]; [reflexivity|]. cbn [list_eqb]. rewrite Hf, IH. reflexivity. Qed.
Lemma nsmap_eqb_refl l : nsmap_eqb l l = true.
Proof.
  unfold nsmap_eqb. rewrite (list_eqb_refl' (pair_eqb str_eqb pv_eqb)); [reflexivity|].
  intros [a b]. unfold pair_eqb. cbn [fst snd]. rewrite str_eqb_refl, pv_eqb_refl. reflexivity.
Qed.

(* the invariant makes the mirror and reset clauses of the checker pass on the model's dump *)
Lemma sim_state_ok s sv : Sim s sv -> c08_state sv (dump_of s) = O.
Proof.
  unfold Sim, c08_state, dump_of. cbn [d_namespaces d_connected d_eio d_cbs d_binpkt_none d_sid].
  destruct (sv_live sv) eqn:Hl.
  - intros (He & Hn & Hc & Hev). rewrite Hn, nsmap_eqb_refl, He, Hc. cbn [eiost_eqb andb].
    destruct (sv_acc sv) eqn:Ea; [|reflexivity].
    destruct (sv_ever sv); [exfalso; apply Hev; reflexivity|reflexivity].
  - intros (Hc & Hn & Hcb & Hb & Hs & He & Ha). rewrite Hn, Ha, Hc, Hcb, Hb, Hs, He. cbn.
    rewrite orb_true_r. reflexivity.
Qed.

Lemma step_st c s o : fst (step c s o) = st (step_m c o) s.
Proof. unfold step, st. destruct (step_m c o s) as [[s' e] r]. reflexivity. Qed.
Lemma st_api (m : CM unit) s : st (api m) s = st m s.
Proof. unfold st, api. destruct (m s) as [[s1 e1] [a|x]]; reflexivity. Qed.
Lemma st_then_tell {A} (m : CM A) (f : A -> eff) s : st (a <~ m ;; tell (f a)) s = st m s.
Proof. apply st_bind_obliv. intro a. apply obliv_tell. Qed.
Lemma st_then_ret {A} (m : CM A) s : st (_ <~ m ;; ret tt) s = st m s.
Proof. apply st_bind_obliv. intro a. apply obliv_ret. Qed.

(* the part of the state the mirror clause looks at, as a preserved predicate *)
Definition Core (n : list (str * pv)) (b : bool) (e : eiost) (x : cli) : Prop :=
  namespaces x = n /\ connected x = b /\ eio_state x = e.
Lemma Core_binpkt n b e bp : pres (Core n b e) (set_binpkt bp).
Proof. intros s H. exact H. Qed.
Lemma Core_cb_drop n b e ns i : pres (Core n b e) (set_callbacks (fun cbs => drop_callback cbs ns i)).
Proof. intros s H. exact H. Qed.
Lemma Core_gen n b e ns cb : pres (Core n b e) (generate_ack_id ns cb).
Proof. intros s H. exact H. Qed.
Lemma Core_emit n b e ev data pns cb : pres (Core n b e) (api_emit ev data pns cb).
Proof. apply pres_api_emit. apply Core_gen. Qed.
Lemma live_core s sv s' :
  Live s sv -> Core (namespaces s) (connected s) (eio_state s) s' -> Live s' sv.
Proof. intros (He & Hn & Hc & Hev) (H1 & H2 & H3). repeat split; try congruence. exact Hev. Qed.
Lemma core_self s : Core (namespaces s) (connected s) (eio_state s) s.
Proof. repeat split. Qed.

(* ---- emit / send / call ---- *)
Lemma dead_emit s sv ev data pns cb : Dead s sv -> api_emit ev data pns cb s = (s, [], Err BadNamespaceError).
Proof. intros (_ & Hn & _). apply bad_namespace_emit. rewrite Hn. reflexivity. Qed.

Lemma call_core c ev data pns reply tbl s n b e :
  Core n b e s ->
  (forall s1 e1 id p enc, api_emit ev data pns (Some CbInt) s = (s1, e1, Ok (Some id)) ->
     ctor true ACK (PList (match reply with Some r => r | None => [] end)) (Some (ns_or_default pns)) (Some (Z.of_N id)) None = Ok p ->
     encode p = Ok enc -> reply <> None -> eio_state s1 = EConnected ->
     classify s1 (PStr (fst enc)) tbl = SOther) ->
  Core n b e (st (api_call c ev data pns reply tbl) s).
Proof.
  intros Hp Hside.
  pose proof (Core_emit n b e ev data pns (Some CbInt) s Hp) as Hp1. unfold st in Hp1.
  destruct (api_emit ev data pns (Some CbInt) s) as [[s1 e1] [oid|x]] eqn:Eem; cbn [fst] in Hp1;
    [|unfold api_call, st; erewrite bind_eq_err by exact Eem; exact Hp1].
  unfold api_call. unfold st at 1. erewrite bind_eq by exact Eem. cbn [fst].
  destruct oid as [id|]; [|exact Hp1].
  unfold st at 1.
  rewrite getS_bind. rewrite bind_run.
  match goal with |- context [listen ?m] => set (inner := m) end.
  assert (Hin : Core n b e (st inner s1)).
  { unfold inner. destruct reply as [r|]; [|exact Hp1].
    destruct (eiost_eqb (eio_state s1) EConnected) eqn:He1; [|exact Hp1].
    assert (He1' : eio_state s1 = EConnected) by (destruct (eio_state s1); try discriminate; reflexivity).
    unfold st. destruct (ctor true ACK (PList r) (Some (ns_or_default pns)) (Some (Z.of_N id)) None) as [p|x] eqn:Ep;
      [rewrite lift_ok_bind|exact Hp1].
    destruct (encode p) as [enc|x] eqn:Ee; [rewrite lift_ok_bind|exact Hp1].
    change (Core n b e (st (deliver c (PStr (fst enc)) tbl) s1)). rewrite (deliver_live c _ tbl s1 He1').
    apply (other_frame (Core n b e) (Core_binpkt n b e) (Core_cb_drop n b e)); [|exact Hp1].
    eapply (Hside s1 e1 id p enc); try eassumption; try reflexivity. discriminate. }
  assert (Hl : st (listen inner) s1 = st inner s1).
  { unfold st, listen. destruct (inner s1) as [[s2 e2] [a|x]]; reflexivity. }
  destruct (rs (listen inner) s1) as [xa|x]; cbn [fst]; [|rewrite Hl; exact Hin].
  rewrite Hl. destruct (find_intcb (ns_or_default pns) id (snd xa)); exact Hin.
Qed.

(* ---- the domain of the theorem: everything except the open finding class ---- *)
Definition in_domain (s : cli) (sv : sview) (o : op) : bool :=
  match o with
  | CMsg payload tbl =>
      if sv_live sv then
        match classify s payload tbl with
        | SError ns _ => negb (str_eqb ns slash) && negb (ahas str_eqb (sv_acc sv) ns)
        | _ => true
        end
      else true
  | _ => true
  end.

Lemma notify_end_some c reason ns calls :
  notify_end c reason ns = Some calls ->
  notify c ev_disconnect ns [reason] = Some calls /\ exists fl, notify c ev_final ns [] = Some fl.
Proof. unfold notify_end. destruct (notify c ev_final ns []) as [fl|]; [|discriminate]. intro H. split; [exact H|eauto]. Qed.

(* a DISCONNECT for a namespace that is not listed, while other namespaces are: handlers may run, the state stays *)
Lemma disconnect_absent_core c pns s :
  connected s = true -> ahas str_eqb (namespaces s) (ns_or_default pns) = false -> namespaces s <> [] ->
  Core (namespaces s) (connected s) (eio_state s) (st (handle_disconnect c pns) s).
Proof.
  intros Hc Ha Hne. unfold handle_disconnect, st. rewrite getS_bind.
  assert (Hg : negb (connected s) && negb (ahas str_eqb (namespaces s) (ns_or_default pns)) = false) by (rewrite Hc; reflexivity).
  rewrite Hg. clear Hg.
  destruct (trig_res c ev_disconnect (ns_or_default pns) [r_server_disconnect]) as [v1|x1] eqn:T1.
  2:{ erewrite bind_eq_err by (rewrite trigger_run, T1; reflexivity). apply core_self. }
  erewrite bind_eq by (rewrite trigger_run, T1; reflexivity). cbn [fst]. unfold st.
  destruct (trig_res c ev_final (ns_or_default pns) []) as [v2|x2] eqn:T2.
  2:{ erewrite bind_eq_err by (rewrite trigger_run, T2; reflexivity). apply core_self. }
  erewrite bind_eq by (rewrite trigger_run, T2; reflexivity). cbn [fst]. unfold st, set_namespaces.
  rewrite modify_bind, getS_bind. cbn [namespaces]. rewrite (adel_absent _ _ Ha).
  destruct (namespaces s) as [|x d] eqn:En; [contradiction Hne; reflexivity|]. cbn. repeat split.
Qed.

Lemma msg_sim c s sv payload tbl v :
  Sim s sv -> in_domain s sv (CMsg payload tbl) = true ->
  view_step c s sv (dump_of s) (CMsg payload tbl) = Some v ->
  Sim (st (deliver c payload tbl) s) (v_view v).
Proof.
  unfold Sim, in_domain. cbn [view_step]. destruct (sv_live sv) eqn:Hl; cbn [negb].
  - (* the transport is up *)
    intros HL Hdom Hv. pose proof HL as (He & Hn & Hc & Hev).
    rewrite (deliver_live c payload tbl s He).
    pose proof (classify_inv s payload tbl) as Hci.
    destruct (classify s payload tbl) as [ns data|ns|ns data|] eqn:Hcl.
    + (* CONNECT *)
      destruct Hci as (r & Hb & Hd & Ht & -> & ->).
      unfold st. rewrite (msg_connect c _ payload s r Hb Hd Ht). pose proof (mirror_connect c (pns (rp r)) (pdata (rp r)) s) as Hm.
      cbv zeta in Hm. unfold st in Hm. rewrite Hm. clear Hm. rewrite Hn.
      cbn [sv_packet] in Hv.
      destruct (ahas str_eqb (sv_acc sv) (ns_or_default (pns (rp r)))) eqn:Hin; [cbn in Hv; discriminate Hv|].
      destruct (connect_sid (pdata (rp r)) (sid s)) as [val|x].
      * cbn [ps_dom ps_calls ps_view negb] in Hv. unfold judged in Hv.
        destruct (notify c ev_connect (ns_or_default (pns (rp r))) []); [|discriminate].
        injection Hv as <-. cbn [v_view sv_live]. rewrite Hl. repeat split; try assumption.
        intros _. cbn [sv_acc]. apply aset_nonempty.
      * cbn in Hv. injection Hv as <-. cbn [v_view]. rewrite Hl. exact HL.
    + (* DISCONNECT *)
      destruct Hci as (r & Hb & Hd & H0 & Ht & ->).
      unfold st. rewrite (msg_disconnect c _ payload s r Hb Hd H0 Ht).
      destruct (sv_acc sv) as [|a0 acc0] eqn:Ea; [discriminate|]. rewrite <- Ea in *.
      cbn [sv_packet] in Hv.
      destruct (ahas str_eqb (sv_acc sv) (ns_or_default (pns (rp r)))) eqn:Hin.
      * cbn [ps_dom ps_calls ps_view negb] in Hv. unfold judged in Hv.
        destruct (notify_end c r_server_disconnect (ns_or_default (pns (rp r)))) as [calls|] eqn:Hne; [|discriminate].
        destruct (notify_end_some _ _ _ _ Hne) as (Hn1 & fl & Hn2).
        pose proof (mirror_disconnect_gen c (pns (rp r)) s calls fl He (or_introl Hc) Hn1 Hn2) as Hm. cbv zeta in Hm.
        rewrite Hm. clear Hm. rewrite Hn. cbn [sv_acc] in Hv.
        destruct (adel str_eqb (sv_acc sv) (ns_or_default (pns (rp r)))) as [|x d] eqn:Ed.
        -- injection Hv as <-. cbn [v_view sv_live fst]. repeat split.
        -- injection Hv as <-. cbn [v_view sv_live fst]. rewrite Hl. unfold with_namespaces. repeat split; try assumption.
           cbn [sv_acc]. discriminate.
      * cbn [ps_dom ps_view negb] in Hv. injection Hv as <-. cbn [v_view]. rewrite Hl.
        eapply live_core; [exact HL|]. apply (disconnect_absent_core c (pns (rp r)) s); [exact Hc|rewrite Hn; exact Hin|rewrite Hn, Ea; discriminate].
    + (* CONNECT_ERROR, for a namespace that is neither '/' nor accepted *)
      destruct Hci as (r & Hb & Hd & Ht & -> & ->).
      apply andb_true_iff in Hdom as [Hsl Hna]. apply negb_true_iff in Hsl, Hna.
      unfold st. rewrite (msg_error c _ payload s r Hb Hd Ht).
      assert (Hv' : judged (notify c ev_connect_error (ns_or_default (pns (rp r))) (error_args (pdata (rp r))))
                      (fun calls => Some (mkV (mkSV (adel str_eqb (sv_acc sv) (ns_or_default (pns (rp r)))) (sv_live sv) (sv_req sv) false (sv_ever sv))
                         (fun obs _ _ => flag (calls_eqb calls (calls_for c ev_names_all obs)) B_ONCE))) = Some v).
      { cbn [sv_packet ps_dom ps_calls ps_view negb] in Hv. rewrite Hsl, Hna in Hv. first [exact Hv | destruct (sv_acc sv); exact Hv]. }
      clear Hv. unfold judged in Hv'.
      destruct (notify c ev_connect_error (ns_or_default (pns (rp r))) (error_args (pdata (rp r)))) as [calls|] eqn:Hne; [|discriminate].
      injection Hv' as <-. cbn [v_view sv_live]. rewrite Hl.
      pose proof (mirror_error c (pns (rp r)) (pdata (rp r)) s calls Hne) as Hm. cbv zeta in Hm. rewrite Hm. clear Hm.
      rewrite Hsl. cbn [fst]. rewrite Hn, (adel_absent _ _ Hna). unfold with_namespaces. cbn [sv_acc sv_ever].
      repeat split; try assumption.
    + (* anything else *)
      assert (Hv' : v = mkV sv no_chk) by (first [injection Hv as <-; reflexivity | destruct (sv_acc sv); injection Hv as <-; reflexivity]).
      subst v. cbn [v_view]. rewrite Hl. eapply live_core; [exact HL|].
      apply (other_frame _ (Core_binpkt _ _ _) (Core_cb_drop _ _ _) c payload tbl s Hcl (core_self s)).
  - (* the transport is down: nothing is delivered *)
    intros HD _ Hv. injection Hv as <-. cbn [v_view]. rewrite Hl.
    destruct HD as (Hc & Hn & Hcb & Hb & Hs & He & Ha).
    unfold st. rewrite (deliver_dead c payload tbl s He). repeat split; assumption.
Qed.

(* ---- emit / send / call, as operations ---- *)
Lemma frames_pieces t data ns id : frames_of t data ns id = pieces t data ns id.
Proof. reflexivity. Qed.

Lemma emit_like_sim c s sv o v :
  Sim s sv ->
  match o with CEmit _ _ _ _ | CSend _ _ _ | CCall _ _ _ _ _ => True | _ => False end ->
  view_step c s sv (dump_of s) o = Some v ->
  Sim (st (step_m c o) s) (v_view v).
Proof.
  intros HS Ho Hv.
  assert (Hview : v_view v = sv).
  { destruct o; try contradiction; cbn [view_step] in Hv;
      match type of Hv with (if ?b then None else _) = _ => destruct b; [discriminate|injection Hv as <-; reflexivity] end. }
  rewrite Hview. unfold Sim in *. destruct (sv_live sv) eqn:Hl.
  - (* live: only the callback table can change *)
    eapply live_core; [exact HS|]. pose proof HS as (He & Hn & Hc & Hev).
    destruct o as [| |ev data ns cb|data ns cb|ev data ns reply tbl| | |]; try contradiction; cbn [step_m].
    + rewrite st_api, st_then_ret. apply Core_emit, core_self.
    + rewrite st_api, st_then_ret. apply Core_emit, core_self.
    + rewrite st_api, (st_then_tell (api_call c ev data ns reply tbl) Ret).
      destruct (ahas str_eqb (namespaces s) (ns_or_default ns)) eqn:Hns.
      2:{ unfold st. rewrite (bad_namespace_call c ev data ns reply tbl s Hns). apply core_self. }
      apply call_core; [apply core_self|].
      intros s1 e1 id p enc Hem Hp Henc Hrep He1.
      destruct reply as [r|]; [|contradiction Hrep; reflexivity].
      cbn [view_step] in Hv. rewrite Hl, <- Hn, Hns in Hv. cbn [andb] in Hv. rewrite Hem in Hv. cbn [fst snd] in Hv.
      rewrite frames_pieces in Hv. unfold pieces in Hv. rewrite Hp in Hv. cbn [bind] in Hv. rewrite Henc in Hv.
      cbn [bind pieces_of] in Hv.
      destruct (classify s1 (PStr (fst enc)) tbl); cbn [is_other negb] in Hv; try discriminate. reflexivity.
  - (* dead: BadNamespaceError, nothing changes *)
    destruct o as [| |ev data ns cb|data ns cb|ev data ns reply tbl| | |]; try contradiction; cbn [step_m].
    + rewrite st_api, st_then_ret. unfold st. rewrite (dead_emit s sv _ _ _ _ HS). exact HS.
    + rewrite st_api, st_then_ret. unfold st. rewrite (dead_emit s sv _ _ _ _ HS). exact HS.
    + rewrite st_api, (st_then_tell (api_call c ev data ns reply tbl) Ret). unfold st.
      destruct HS as (Hc & Hn & Hrest). rewrite (bad_namespace_call c ev data ns reply tbl s); [repeat split; tauto|].
      rewrite Hn. reflexivity.
Qed.

(* ---- the three ways a connection ends, state only ---- *)
Lemma fold_opt_all {A} (f : A -> option (list (N * list pv))) l x :
  fold_opt f l = Some x -> forall n, In n l -> exists y, f n = Some y.
Proof.
  revert x. induction l as [|a l IH]; intros x H n Hin; [destruct Hin|]. cbn [fold_opt fold_right] in H.
  fold (fold_opt f l) in H. destruct (f a) as [y|] eqn:Ea; [|discriminate].
  destruct (fold_opt f l) as [z|] eqn:El; [|discriminate]. destruct Hin as [<-|Hin]; [eauto|]. eapply IH; eauto.
Qed.
Lemma end_loop_run c reason nss s :
  (forall n, In n nss -> exists y, notify_end c reason n = Some y) ->
  exists E, forM nss (fun n => trigger_ c ev_disconnect n [reason] ;;; trigger_ c ev_final n []) s = (s, E, Ok tt).
Proof.
  induction nss as [|n r IH]; intro H; cbn [forM]; [eexists; reflexivity|].
  destruct (H n (or_introl eq_refl)) as [y Hy]. destruct (notify_end_some _ _ _ _ Hy) as (H1 & fl & H2).
  destruct IH as [E HE]; [intros m Hm; apply H; right; exact Hm|].
  pose proof (trigger_notify c (s2l "disconnect") n [reason] y s H1) as T1.
  pose proof (trigger_notify c (s2l "__disconnect_final") n [] fl s H2) as T2.
  change (PStr (s2l "disconnect")) with ev_disconnect in T1. change (PStr (s2l "__disconnect_final")) with ev_final in T2.
  assert (Hn : (trigger_ c ev_disconnect n [reason] ;;; trigger_ c ev_final n []) s = (s, to_calls y ++ to_calls fl, Ok tt)).
  { erewrite bind_eq by exact T1. unfold st, ef, rs. cbv beta. rewrite T2. reflexivity. }
  eexists. erewrite bind_eq by exact Hn. unfold st, ef, rs. cbv beta. rewrite HE. reflexivity.
Qed.
Lemma handle_eio_disconnect_state c reason s calls :
  connected s = true -> fold_opt (notify_end c reason) (map fst (namespaces s)) = Some calls ->
  exists E, handle_eio_disconnect c reason s = (cleared s, E, Ok tt).
Proof.
  intros Hc Hf. destruct (end_loop_run c reason (map fst (namespaces s)) s (fold_opt_all _ _ _ Hf)) as [E HE].
  exists (E ++ []). unfold handle_eio_disconnect. rewrite getS_bind, Hc.
  erewrite bind_eq.
  2:{ erewrite bind_eq by exact HE. reflexivity. }
  unfold st, ef, rs, cleared. cbn. rewrite Hc, !app_nil_r. reflexivity.
Qed.
Lemma eio_disconnect_state c reason s calls :
  connected s = true -> eio_state s = EConnected ->
  fold_opt (notify_end c (match reason with Some r => r | None => r_client_disconnect end)) (map fst (namespaces s)) = Some calls ->
  st (eio_disconnect c reason) s = down s.
Proof.
  intros Hc He Hf. unfold eio_disconnect, st. rewrite getS_bind, He. cbn [eiost_eqb].
  set (r := match reason with Some r => r | None => r_client_disconnect end) in *.
  set (s1 := mkCli (connected s) (namespaces s) (conn_ns s) (conn_auth s) (callbacks s) (binpkt s) (sid s)
                   EDisconnecting (eio_sid s) (eio_count s)).
  destruct (handle_eio_disconnect_state c r s1 calls Hc Hf) as [E HE].
  assert (H1 : contain (handle_eio_disconnect c r) s1 = (cleared s1, E, Ok tt)).
  { unfold contain. rewrite HE. reflexivity. }
  assert (Hin : (set_eio_state EDisconnecting ;;; contain (handle_eio_disconnect c r) ;;; set_eio_state EDisconnected) s
                = (st (set_eio_state EDisconnected) (cleared s1), E ++ [], Ok tt)).
  { unfold set_eio_state at 1. rewrite modify_bind. fold s1. erewrite bind_eq by exact H1. reflexivity. }
  erewrite bind_eq by exact Hin.
  unfold st, down, cleared, s1. cbn. rewrite Hc. reflexivity.
Qed.

Lemma frames_all_pieces t data nss w : frames_all t data nss = Some w -> pieces_all t data nss = Ok w.
Proof.
  revert w. induction nss as [|n r IH]; intros w H; cbn [frames_all fold_right pieces_all] in *.
  - injection H as <-. reflexivity.
  - fold (frames_all t data r) in H. rewrite frames_pieces in H. destruct (pieces t data n None) as [f|x]; [|discriminate].
    destruct (frames_all t data r) as [l|]; [|discriminate]. injection H as <-. rewrite (IH l eq_refl). reflexivity.
Qed.

Lemma dead_eio_disconnect c reason s sv : Dead s sv -> Dead (st (eio_disconnect c reason) s) sv.
Proof.
  intros (Hc & Hn & Hcb & Hb & Hs & He & Ha). unfold eio_disconnect, st. rewrite getS_bind, He. cbn.
  repeat split; assumption.
Qed.

Lemma ends_sim c s sv o v :
  Sim s sv ->
  match o with CDisconnect | CLoss | CServerClose => True | _ => False end ->
  view_step c s sv (dump_of s) o = Some v ->
  Sim (st (step_m c o) s) (v_view v).
Proof.
  intros HS Ho Hv. unfold Sim in *. destruct (sv_live sv) eqn:Hl.
  - pose proof HS as (He & Hn & Hc & Hev).
    destruct o; try contradiction; cbn [view_step step_m] in *; rewrite Hl in Hv; unfold judged in Hv.
    + (* disconnect() *)
      destruct (fold_opt (notify_end c r_client_disconnect) (map fst (sv_acc sv))) as [calls|] eqn:Hf; [|discriminate].
      destruct (frames_all DISCONNECT PNone (map fst (sv_acc sv))) as [w|] eqn:Hw; [|discriminate].
      injection Hv as <-. cbn [v_view sv_down sv_live].
      rewrite st_api. unfold api_disconnect, st. rewrite getS_bind. rewrite <- Hn in Hf, Hw.
      erewrite bind_eq by (apply (forM_send_all DISCONNECT PNone _ s w (frames_all_pieces _ _ _ _ Hw))).
      cbn [fst]. rewrite (eio_disconnect_state c None s calls Hc He Hf). repeat split.
    + (* transport lost *)
      destruct (fold_opt (notify_end c r_transport_error) (map fst (sv_acc sv))) as [calls|] eqn:Hf; [|discriminate].
      injection Hv as <-. cbn [v_view sv_down sv_live]. rewrite <- Hn in Hf.
      unfold eio_loss, st. rewrite getS_bind, He. cbn [eiost_eqb].
      destruct (handle_eio_disconnect_state c r_transport_error s calls Hc Hf) as [E HE].
      erewrite bind_eq by (unfold contain; rewrite HE; reflexivity).
      unfold st, cleared. cbn. rewrite Hc. repeat split.
    + (* engine.io CLOSE *)
      destruct (fold_opt (notify_end c r_server_disconnect) (map fst (sv_acc sv))) as [calls|] eqn:Hf; [|discriminate].
      injection Hv as <-. cbn [v_view sv_down sv_live]. rewrite <- Hn in Hf.
      unfold eio_server_close. unfold st at 1. rewrite getS_bind, He. cbn [eiost_eqb].
      change (Dead (st (eio_disconnect c (Some r_server_disconnect)) s) (mkSV [] false (sv_req sv) false false)).
      rewrite (eio_disconnect_state c (Some r_server_disconnect) s calls Hc He Hf). repeat split.
  - pose proof HS as (Hc & Hn & Hcb & Hb & Hs & He & Ha).
    destruct o; try contradiction; cbn [view_step step_m] in *; rewrite Hl in Hv; injection Hv as <-; cbn [v_view sv_down sv_live].
    + rewrite st_api. unfold api_disconnect. unfold st at 1. rewrite getS_bind, Hn. cbn [map forM]. rewrite ret_bind.
      apply (dead_eio_disconnect c None s (mkSV [] false (sv_req sv) false false)). repeat split; assumption.
    + unfold eio_loss, st. rewrite getS_bind, He. cbn. repeat split; assumption.
    + unfold eio_server_close, st. rewrite getS_bind, He. cbn. repeat split; assumption.
Qed.

(* ---- connect(): the wait window ---- *)
Lemma deliver_rs_ok c payload tbl s : rs (deliver c payload tbl) s = Ok tt.
Proof.
  unfold rs, deliver. rewrite getS_bind. destruct (eiost_eqb (eio_state s) EConnected); [|reflexivity].
  unfold contain. destruct (handle_eio_message c (table_loads tbl) payload s) as [[? ?] ?]. reflexivity.
Qed.
Lemma st_window_cons c m r s :
  st (forM (m :: r) (fun m => deliver c (fst m) (snd m))) s
  = st (forM r (fun m => deliver c (fst m) (snd m))) (st (deliver c (fst m) (snd m)) s).
Proof. cbn [forM]. unfold st at 1. rewrite bind_run, deliver_rs_ok. reflexivity. Qed.
Lemma window_dead c w s : eio_state s = EDisconnected -> st (forM w (fun m => deliver c (fst m) (snd m))) s = s.
Proof.
  intro He. induction w as [|m r IH]; [reflexivity|]. rewrite st_window_cons.
  unfold st at 2. rewrite (deliver_dead c (fst m) (snd m) s He). exact IH.
Qed.

Definition WN (req : list str) (n : list (str * pv)) (s : cli) : Prop := W req s /\ namespaces s = n.
Lemma WN_binpkt req n b : pres (WN req n) (set_binpkt b).
Proof. intros s H. exact H. Qed.
Lemma WN_cb_drop req n ns i : pres (WN req n) (set_callbacks (fun cbs => drop_callback cbs ns i)).
Proof. intros s H. exact H. Qed.

Lemma opt_app_some {A} (a b : option (list A)) x : opt_app a b = Some x -> exists y z, a = Some y /\ b = Some z.
Proof. destruct a, b; try discriminate. eauto. Qed.

Lemma W_with_namespaces req s d : W req s -> W req (with_namespaces s d).
Proof. intros (H1 & H2 & H3). repeat split; assumption. Qed.

(* one packet of the window: the model and the server's view move together *)
Lemma packet_sim c req s sv payload tbl :
  W req s -> namespaces s = sv_acc sv ->
  let p := classify s payload tbl in
  let stp := sv_packet c (sid s) sv p in
  let s' := st (deliver c payload tbl) s in
  win_here p stp <> None ->
  if win_stop p stp then Wd req s' /\ sv_acc (ps_view stp) = []
  else W req s' /\ namespaces s' = sv_acc (ps_view stp).
Proof.
  intros HW Hn. cbv zeta. pose proof HW as (Hc & He & Hr).
  pose proof (classify_inv s payload tbl) as Hci.
  rewrite (deliver_live c payload tbl s He).
  destruct (classify s payload tbl) as [ns data|ns|ns data|] eqn:Hcl.
  - (* CONNECT *)
    destruct Hci as (rr & Hb & Hd & Ht & -> & ->). intros _.
    unfold st. rewrite (msg_connect c _ payload s rr Hb Hd Ht).
    pose proof (mirror_connect c (pns (rp rr)) (pdata (rp rr)) s) as Hm. cbv zeta in Hm. unfold st in Hm. rewrite Hm. clear Hm.
    rewrite Hn. unfold win_stop, win_ended. cbn [is_disc andb sv_packet].
    destruct (ahas str_eqb (sv_acc sv) (ns_or_default (pns (rp rr)))); [split; assumption|].
    destruct (connect_sid (pdata (rp rr)) (sid s)) as [val|x]; cbn [ps_view sv_acc]; [|split; assumption].
    split; [apply W_with_namespaces, HW|reflexivity].
  - (* DISCONNECT *)
    destruct Hci as (rr & Hb & Hd & H0 & Ht & ->).
    unfold st. rewrite (msg_disconnect c _ payload s rr Hb Hd H0 Ht).
    unfold win_stop, win_ended, win_here. cbn [is_disc andb sv_packet].
    destruct (ahas str_eqb (sv_acc sv) (ns_or_default (pns (rp rr)))) eqn:Hin; cbn [ps_dom ps_calls ps_view sv_acc andb].
    + destruct (notify_end c r_server_disconnect (ns_or_default (pns (rp rr)))) as [calls|] eqn:Hne; [|intro H; contradiction H; reflexivity].
      intros _. destruct (notify_end_some _ _ _ _ Hne) as (Hn1 & fl & Hn2).
      assert (Hg : connected s = true \/ ahas str_eqb (namespaces s) (ns_or_default (pns (rp rr))) = true) by (right; rewrite Hn; exact Hin).
      pose proof (mirror_disconnect_gen c (pns (rp rr)) s calls fl He Hg Hn1 Hn2) as Hm. cbv zeta in Hm. rewrite Hm. clear Hm.
      rewrite Hn. destruct (adel str_eqb (sv_acc sv) (ns_or_default (pns (rp rr)))) as [|x d] eqn:Ed; cbn [fst].
      * split; [|reflexivity]. unfold Wd, down. cbn. repeat split; assumption.
      * split; [apply W_with_namespaces, HW|reflexivity].
    + intros _. rewrite (mirror_disconnect_unknown c (pns (rp rr)) s Hc); [split; assumption|rewrite Hn; exact Hin].
  - (* CONNECT_ERROR *)
    destruct Hci as (rr & Hb & Hd & Ht & -> & ->).
    unfold st. rewrite (msg_error c _ payload s rr Hb Hd Ht).
    unfold win_stop, win_ended, win_here. cbn [is_disc andb sv_packet ps_dom ps_calls ps_view sv_acc].
    destruct (notify c ev_connect_error (ns_or_default (pns (rp rr))) (error_args (pdata (rp rr)))) as [calls|] eqn:Hne;
      [|intro H; contradiction H; reflexivity].
    intros _. pose proof (mirror_error c (pns (rp rr)) (pdata (rp rr)) s calls Hne) as Hm. cbv zeta in Hm. rewrite Hm. clear Hm.
    cbn [fst]. destruct (str_eqb (ns_or_default (pns (rp rr))) slash).
    + split; [|reflexivity]. repeat split; assumption.
    + split; [apply W_with_namespaces, HW|]. cbn. rewrite Hn. reflexivity.
  - (* anything else *)
    intros _. unfold win_stop, win_ended. cbn [is_disc andb sv_packet ps_view].
    pose proof (other_frame (WN req (sv_acc sv)) (WN_binpkt req _) (WN_cb_drop req _) c payload tbl s Hcl (conj HW Hn)) as [H1 H2].
    split; assumption.
Qed.

Lemma window_sim c req : forall window s sv sv1 calls disc,
  W req s -> namespaces s = sv_acc sv ->
  sv_window c s sv window = (sv1, Some calls, disc) ->
  let s1 := st (forM window (fun m => deliver c (fst m) (snd m))) s in
  (W req s1 /\ namespaces s1 = sv_acc sv1) \/ (Wd req s1 /\ sv_acc sv1 = []).
Proof.
  induction window as [|[payload tbl] r IH]; intros s sv sv1 calls disc HW Hn Hsw; cbv zeta.
  - cbn in Hsw. injection Hsw as <- _ _. left. split; assumption.
  - rewrite st_window_cons. cbn [fst snd]. cbn [sv_window] in Hsw.
    pose proof (packet_sim c req s sv payload tbl HW Hn) as Hp. cbv zeta in Hp.
    destruct (win_stop (classify s payload tbl) (sv_packet c (sid s) sv (classify s payload tbl))) eqn:Hstop.
    + injection Hsw as <- Hh _. destruct Hp as [HWd Ha]; [rewrite Hh; discriminate|].
      right. rewrite (window_dead c r _ (proj1 (proj2 (proj2 HWd)))). split; assumption.
    + destruct (sv_window c (fst (fst (deliver c payload tbl s))) (ps_view (sv_packet c (sid s) sv (classify s payload tbl))) r)
        as [[sv' calls'] disc'] eqn:Er.
      injection Hsw as <- Hc' _. destruct (opt_app_some _ _ _ Hc') as (y & z & Hy & ->).
      destruct Hp as [HW' Hn']; [rewrite Hy; discriminate|].
      exact (IH _ _ _ _ _ HW' Hn' Er).
Qed.

(* ---- connect() ---- *)
Lemma pieces_disconnect_ok n : exists l, pieces DISCONNECT PNone n None = Ok l.
Proof. eexists. unfold pieces, ctor, encode. cbn. reflexivity. Qed.
Lemma pieces_all_disconnect_ok nss : exists d, pieces_all DISCONNECT PNone nss = Ok d.
Proof.
  induction nss as [|n r [d IH]]; [eexists; reflexivity|]. cbn [pieces_all].
  destruct (pieces_disconnect_ok n) as [l Hl]. rewrite Hl, IH. eexists. reflexivity.
Qed.

Lemma obliv_forM {A} (l : list A) (f : A -> CM unit) : (forall x, obliv (f x)) -> obliv (forM l f).
Proof.
  intro Hf. induction l as [|x l IH]; [apply obliv_ret|]. cbn [forM]. apply obliv_bind; [apply Hf|intro; exact IH].
Qed.
Lemma connect_begin_fails c nss auth s :
  connected s = false -> eio_state s = EDisconnected ->
  let req := match nss with None => derived_namespaces c | Some x => x end in
  st (connect_begin c nss auth true) s
  = mkCli false [] req auth (callbacks s) (binpkt s) (sid s) EDisconnected (eio_sid s) (eio_count s) /\
  exists x, rs (connect_begin c nss auth true) s = Err x.
Proof.
  intros Hc He req. unfold connect_begin. fold req.
  set (tail := forM req (fun n => trigger_ c ev_connect_error n [eio_error_message]) ;;; raise ConnectionError : CM unit).
  assert (Ho : obliv tail).
  { unfold tail. apply obliv_bind; [apply obliv_forM; intro; apply obliv_trigger_|intro; apply obliv_raise]. }
  assert (Hr : forall s0, exists x, rs tail s0 = Err x).
  { intro s0. unfold tail, rs. rewrite bind_run. destruct (rs (forM req (fun n => trigger_ c ev_connect_error n [eio_error_message])) s0);
      cbn [snd]; [exists ConnectionError; reflexivity|eexists; reflexivity]. }
  unfold st, rs. rewrite getS_bind, Hc. unfold set_conn. rewrite modify_bind. unfold set_namespaces. rewrite modify_bind, getS_bind.
  cbn [eio_state]. rewrite He. cbn [eiost_eqb negb]. fold tail.
  split.
  - match goal with |- fst (fst (tail ?x)) = _ => change (fst (fst (tail x))) with (st tail x) end.
    rewrite (obliv_st tail Ho). cbn. rewrite ?Hc, ?He. reflexivity.
  - apply Hr.
Qed.

Lemma set_eqb_nonempty a req : req <> [] -> set_eqb a req = true -> a <> [].
Proof. intros Hr H Ha. subst a. rewrite (set_eqb_nil_l req Hr) in H. discriminate. Qed.

Lemma connect_sim c s sv nss auth ac wait eio_fails window v :
  Sim s sv ->
  view_step c s sv (dump_of s) (CConnect nss auth ac wait eio_fails window) = Some v ->
  Sim (st (api_connect c nss auth wait eio_fails window) s) (v_view v).
Proof.
  intros HS Hv. unfold Sim in HS. cbn [view_step] in Hv. destruct (sv_live sv) eqn:Hl.
  - (* already connected *)
    destruct HS as (He & Hn & Hc & Hev). cbn [dump_of d_connected] in Hv. rewrite Hc in Hv. injection Hv as <-. cbn [v_view].
    unfold Sim. rewrite Hl. unfold api_connect, st. erewrite bind_eq_err.
    2:{ unfold connect_begin. rewrite getS_bind, Hc. reflexivity. }
    repeat split; assumption.
  - pose proof HS as (Hc & Hn & Hcb & Hb & Hs & He & Ha).
    cbn [dump_of d_eio] in Hv. rewrite He in Hv. cbn [eiost_eqb negb] in Hv.
    set (req := match nss with None => derived_namespaces c | Some l => l end) in *.
    destruct req as [|r0 rq] eqn:Ereq; [discriminate|]. rewrite <- Ereq in *.
    assert (Hreq : req <> []) by (rewrite Ereq; discriminate).
    destruct eio_fails.
    + (* the transport does not come up *)
      unfold judged in Hv. destruct (fold_opt _ req); [|discriminate]. injection Hv as <-. cbn [v_view]. unfold Sim. cbn [sv_live].
      destruct (connect_begin_fails c nss auth s Hc He) as [Hst [x Hrs]]. fold req in Hst.
      unfold api_connect, st. erewrite bind_eq_err by (rewrite (run_eta (connect_begin c nss auth true) s), Hrs; reflexivity).
      cbn [fst]. rewrite Hst. repeat split; assumption.
    + unfold judged in Hv.
      destruct (frames_all CONNECT (if truthy auth then auth else PDict []) req) as [w|] eqn:Hw; [|discriminate].
      pose proof (frames_all_pieces _ _ _ _ Hw) as Hpw. fold (auth_value auth) in Hpw.
      pose proof (connect_sends c s nss auth w Hc He Hpw) as Hcb1. fold req in Hcb1.
      rewrite Hcb1 in Hv. cbn [fst] in Hv.
      destruct wait.
      * (* wait=True *)
        destruct (sv_window c (opened s req auth) (mkSV [] true req true false) window) as [[sv1 ocalls] disc] eqn:Esw.
        destruct ocalls as [calls|]; [|discriminate].
        pose proof (window_sim c req window (opened s req auth) (mkSV [] true req true false) sv1 calls disc
                      (W_opened s req auth) eq_refl Esw) as Hws.
        cbv zeta in Hws.
        pose proof (wait_all_or_error c s nss auth window w Hc He) as Hwa. cbv zeta in Hwa. fold req in Hwa.
        specialize (Hwa Hreq Hpw). destruct Hwa as (_ & Hok & Hfail).
        set (s1 := st (forM window (fun m => deliver c (fst m) (snd m))) (opened s req auth)) in *.
        assert (Hsame : set_eqb (map fst (namespaces s1)) req = set_eqb (map fst (sv_acc sv1)) req).
        { destruct Hws as [[_ H]|[(_ & _ & _ & H & _) H2]]; [rewrite H; reflexivity|rewrite H, H2; reflexivity]. }
        destruct (set_eqb (map fst (sv_acc sv1)) req) eqn:Eset.
        -- injection Hv as <-. cbn [v_view]. unfold Sim. cbn [sv_live].
           destruct (Hok Hsame) as (HW1 & _ & Hst). rewrite Hst.
           destruct Hws as [[_ Hns]|[_ H2]].
           ++ destruct HW1 as (_ & He1 & _). repeat split; try assumption. cbn [sv_acc sv_ever]. intros _.
              intro Hx. rewrite Hx in Eset. cbn [map] in Eset. rewrite (set_eqb_nil_l req Hreq) in Eset. discriminate.
           ++ rewrite H2 in Eset. cbn [map] in Eset. rewrite (set_eqb_nil_l req Hreq) in Eset. discriminate.
        -- injection Hv as <-. cbn [v_view]. unfold Sim. cbn [sv_live].
           destruct (pieces_all_disconnect_ok (map fst (namespaces s1))) as [d Hd].
           destruct (Hfail Hsame d Hd) as (_ & Hst & _). rewrite Hst. repeat split.
      * (* wait=False *)
        injection Hv as <-. cbn [v_view]. unfold Sim. cbn [sv_live].
        unfold api_connect, st. erewrite bind_eq by exact Hcb1. cbn [fst]. unfold st. rewrite ret_bind. cbn.
        repeat split. intro H; discriminate.
Qed.

(* ---- every operation, then every history ---- *)
Lemma step_sim c s sv o v :
  Sim s sv -> in_domain s sv o = true -> view_step c s sv (dump_of s) o = Some v ->
  Sim (fst (step c s o)) (v_view v).
Proof.
  intros HS Hd Hv. rewrite step_st.
  destruct o as [nss auth ac wait ef0 window|payload tbl|ev data ns cb|data ns cb|ev data ns reply tbl| | |].
  - cbn [step_m]. rewrite st_api.
    rewrite (st_bind_obliv (api_connect c nss auth wait ef0 window) (fun _ => tell (Ret PNone)) s) by (intro; apply obliv_tell).
    apply (connect_sim c s sv nss auth ac wait ef0 window v HS Hv).
  - cbn [step_m]. apply (msg_sim c s sv payload tbl v HS Hd Hv).
  - apply (emit_like_sim c s sv (CEmit ev data ns cb) v HS I Hv).
  - apply (emit_like_sim c s sv (CSend data ns cb) v HS I Hv).
  - apply (emit_like_sim c s sv (CCall ev data ns reply tbl) v HS I Hv).
  - apply (ends_sim c s sv CDisconnect v HS I Hv).
  - apply (ends_sim c s sv CLoss v HS I Hv).
  - apply (ends_sim c s sv CServerClose v HS I Hv).
Qed.

(* the mirror + reset clauses of the C08 checker along the model's own run, up to the first operation
   that leaves the domain *)
Fixpoint mirror_run (c : cfg) (s : cli) (sv : sview) (ops : list op) : bool :=
  match ops with
  | [] => true
  | o :: r =>
      if negb (in_domain s sv o) then true else
      match view_step c s sv (dump_of s) o with
      | None => true
      | Some v =>
          Nat.eqb (c08_state (v_view v) (dump_of (fst (step c s o)))) O &&
          mirror_run c (fst (step c s o)) (v_view v) r
      end
  end.
Lemma mirror_from c ops : forall s sv, Sim s sv -> mirror_run c s sv ops = true.
Proof.
  induction ops as [|o r IH]; intros s sv HS; [reflexivity|]. cbn [mirror_run].
  destruct (in_domain s sv o) eqn:Hd; [|reflexivity]. cbn [negb].
  destruct (view_step c s sv (dump_of s) o) as [v|] eqn:Hv; [|reflexivity].
  pose proof (step_sim c s sv o v HS Hd Hv) as HS'.
  rewrite (sim_state_ok _ _ HS'), (IH _ _ HS'). reflexivity.
Qed.
Lemma sim_init : Sim cli_init sv_init.
Proof. repeat split. Qed.

(* C08 mirror, history level: for every configuration and every history of client operations and server
   packets, after every operation the client's `namespaces` (keys and sids) equals the set of namespaces
   the server has accepted and not ended, `connected` is set while one remains and cleared when the last
   one ended or the transport is down, and nothing (callbacks, binary packet, sid) survives the end of
   the transport - as long as the history stays in the domain (no handler raises, packets conform to
   the protocol, and no CONNECT_ERROR for '/' or for an accepted namespace arrives after connect()
   returned: the open finding class) *)
Theorem mirror_history c ops : mirror_run c cli_init sv_init ops = true.
Proof. apply mirror_from, sim_init. Qed.

(* ... which is exactly what the checker computes on the model's run: a history whose model run is
   flagged for the mirror or reset clause has left that domain *)
Example mirror_run_nontrivial :
  mirror_run cfg_w cli_init sv_init witness_clean = true /\
  mirror_run cfg_w cli_init sv_init witness_window_disconnect = true /\
  mirror_run cfg_w cli_init sv_init witness_partial = true.
Proof. repeat split; apply mirror_history. Qed.

Lemma mirror_step c s sv o v :
  Sim s sv -> in_domain s sv o = true -> view_step c s sv (dump_of s) o = Some v ->
  Sim (fst (step c s o)) (v_view v) /\ c08_state (v_view v) (dump_of (fst (step c s o))) = O.
Proof. intros HS Hd Hv. split; [|apply sim_state_ok]; apply (step_sim c s sv o v HS Hd Hv). Qed.
