(* Facts about the C08 / C09 checkers themselves: the correspondence test accepts the model's own
   run on every history; the C08 checker flags the two refuted clauses on the model's run of the
   witness histories and accepts the model's run of a clean history. *)
From VT Require Import Client.ClientLemmas Client.CliCheck Client.Witness Check.C08Check Check.C09Check.
Open Scope N_scope.

Lemma list_eqb_refl {A} (f : A -> A -> bool) : (forall x, f x x = true) -> forall l, list_eqb f l l = true.
Proof. intros Hf l. induction l as [|x l IH]; [reflexivity|]. cbn [list_eqb]. rewrite Hf, IH. reflexivity. Qed.
Lemma exn_eqb_refl e : exn_eqb e e = true.
Proof. apply exn_eqb_eq. reflexivity. Qed.
Lemma eff_eqb_refl e : eff_eqb e e = true.
Proof.
  destruct e; cbn [eff_eqb];
    rewrite ?pv_eqb_refl, ?N.eqb_refl, ?str_eqb_refl, ?exn_eqb_refl, ?(list_eqb_refl pv_eqb pv_eqb_refl); reflexivity.
Qed.
Lemma eiost_eqb_refl e : eiost_eqb e e = true.
Proof. destruct e; reflexivity. Qed.
Lemma dump_eqb_refl d : dump_eqb d d = true.
Proof.
  unfold dump_eqb. rewrite Bool.eqb_reflx, pv_eqb_refl, eiost_eqb_refl, Bool.eqb_reflx.
  rewrite (list_eqb_refl (pair_eqb str_eqb pv_eqb)).
  2:{ intros [a b]. unfold pair_eqb. cbn [fst snd]. rewrite str_eqb_refl, pv_eqb_refl. reflexivity. }
  rewrite (list_eqb_refl (pair_eqb (pair_eqb str_eqb N.eqb) (list_eqb N.eqb))).
  2:{ intros [[a b] l]. unfold pair_eqb. cbn [fst snd]. rewrite str_eqb_refl, N.eqb_refl, (list_eqb_refl N.eqb N.eqb_refl). reflexivity. }
  reflexivity.
Qed.
Lemma filter_idem {A} (f : A -> bool) l : filter f (filter f l) = filter f l.
Proof.
  induction l as [|x l IH]; [reflexivity|]. cbn [filter]. destruct (f x) eqn:E; [|exact IH].
  cbn [filter]. rewrite E, IH. reflexivity.
Qed.

Definition obs_from (c : cfg) (s : cli) (ops : list op) : list (list eff * cdump) :=
  map (fun se => (filter observable (snd se), dump_of (fst se))) (snd (run c s ops)).
Lemma corr_from c ops : forall s, corr_steps c s ops (obs_from c s ops) = true.
Proof.
  induction ops as [|o r IH]; intro s; [reflexivity|].
  unfold obs_from. cbn [run]. destruct (step c s o) as [s1 e] eqn:Es.
  specialize (IH s1). unfold obs_from in IH. destruct (run c s1 r) as [s2 es]. cbn [snd map fst corr_steps] in *.
  rewrite Es. unfold effs_eqb. rewrite filter_idem, (list_eqb_refl eff_eqb eff_eqb_refl), dump_eqb_refl, IH. reflexivity.
Qed.
(* the correspondence test is not vacuous in the other direction: the model's own observations
   always pass it, for every configuration and history *)
Theorem corr_model c ops : corr_ok (model_case c ops) = true.
Proof. unfold corr_ok, model_case, model_obs. cbn [k_cfg k_ops k_obs]. apply (corr_from c ops cli_init). Qed.

(* the C08 checker accepts the model's own run of the two former counter-examples (7.1-d, 7.1-i) *)
Theorem c08_accepts_partial_acceptance : c08_code (model_case cfg_w witness_partial) = 0%nat.
Proof. vm_compute. reflexivity. Qed.
Theorem c08_accepts_window_disconnect : c08_code (model_case cfg_w witness_window_disconnect) = 0%nat.
Proof. vm_compute. reflexivity. Qed.
(* ... and it accepts the model's run of a clean history (accept two namespaces, emit with callback,
   the server ends one, emit on it raises, transport loss, emit raises) *)
Theorem c08_accepts_clean : c08_code (model_case cfg_w witness_clean) = 0%nat.
Proof. vm_compute. reflexivity. Qed.
Theorem c09_accepts_clean : c09_code (model_case cfg_w witness_clean) = 0%nat.
Proof. vm_compute. reflexivity. Qed.
