(* C09, history level: over ANY history, the application callbacks handed to emit / send are
   invoked at most once each.  Proof: a flow relation between (state, effects, state) - a callback
   reference can only move from the callback table into a CbCall effect or disappear - is
   established for every piece of the model by structural rules (the relational twin of the
   preservation rules of ClientLemmas.v) and summed over the history. *)
From VT Require Import Client.ClientLemmas Client.CliCheck Client.ClientProofs.
From Coq Require Import Lia.
Open Scope N_scope.

(* ====================================================================================== *)
(* generic flow rules                                                                     *)
(* ====================================================================================== *)
Definition quiet (e : eff) : bool := match e with CbCall _ _ => false | _ => true end.

Section Flow.
  Variable R : cli -> list eff -> cli -> Prop.
  Hypothesis R_refl : forall s, R s [] s.
  Hypothesis R_trans : forall s e1 s1 e2 s2, R s e1 s1 -> R s1 e2 s2 -> R s (e1 ++ e2) s2.
  Hypothesis R_quiet : forall s e, quiet e = true -> R s [e] s.

  Definition flow {A} (m : CM A) : Prop := forall s, R s (ef m s) (st m s).

  Lemma flow_ret {A} (a : A) : flow (ret a).
  Proof. intro s. apply R_refl. Qed.
  Lemma flow_raise {A} e : flow (@raise cli eff A e).
  Proof. intro s. apply R_refl. Qed.
  Lemma flow_lift {A} (r : Res A) : flow (lift r).
  Proof. intro s. apply R_refl. Qed.
  Lemma flow_getS : flow getS.
  Proof. intro s. apply R_refl. Qed.
  Lemma flow_tell e : quiet e = true -> flow (tell e).
  Proof. intros H s. apply R_quiet, H. Qed.
  Lemma flow_modify f : (forall s, R s [] (f s)) -> flow (modify f).
  Proof. intros H s. apply H. Qed.
  Lemma flow_bind {A B} (m : CM A) (k : A -> CM B) : flow m -> (forall a, flow (k a)) -> flow (bindM m k).
  Proof.
    intros Hm Hk s. unfold st, ef. rewrite bind_run. destruct (rs m s) as [a|x]; cbn [fst snd].
    - eapply R_trans; [apply Hm|apply Hk].
    - apply Hm.
  Qed.
  Lemma flow_catch {A} (m : CM A) h : flow m -> (forall e k, h e = Some k -> flow k) -> flow (catch m h).
  Proof.
    intros Hm Hh s. specialize (Hm s). unfold st, ef, catch in *.
    destruct (m s) as [[s1 e1] [a|x]]; cbn [fst snd] in *; [exact Hm|].
    destruct (h x) as [k|] eqn:E; [|exact Hm].
    specialize (Hh x k E s1). unfold st, ef in Hh. destruct (k s1) as [[s2 e2] r]. cbn [fst snd] in *.
    eapply R_trans; eassumption.
  Qed.
  Lemma flow_contain (m : CM unit) : flow m -> flow (contain m).
  Proof. intros Hm s. specialize (Hm s). unfold st, ef, contain in *. destruct (m s) as [[s1 e1] r]. exact Hm. Qed.
  Lemma flow_forM {A} (l : list A) (f : A -> CM unit) : (forall x, flow (f x)) -> flow (forM l f).
  Proof.
    intro Hf. induction l as [|x l IH]; [apply flow_ret|]. cbn [forM]. apply flow_bind; [apply Hf|intro; exact IH].
  Qed.
  Lemma flow_listen {A} (m : CM A) : flow m -> flow (listen m).
  Proof. intros Hm s. specialize (Hm s). unfold st, ef, listen in *. destruct (m s) as [[s1 e1] [a|x]]; exact Hm. Qed.
  Lemma flow_api (m : CM unit) : flow m -> flow (api m).
  Proof.
    intros Hm s. specialize (Hm s). unfold st, ef, api in *. destruct (m s) as [[s1 e1] [a|x]]; cbn [fst snd] in *; [exact Hm|].
    eapply R_trans; [exact Hm|]. apply R_quiet. reflexivity.
  Qed.
  (* the wrapper connect() puts around the engine.io 'connect' handler *)
  Lemma flow_failed {A} (m : CM A) :
    flow m -> flow (fun s => match m s with (s', e, Ok _) => (s', e, Ok false) | (s', e, Err _) => (s', e, Ok true) end).
  Proof. intros Hm s. specialize (Hm s). unfold st, ef in *. destruct (m s) as [[s1 e1] [a|x]]; exact Hm. Qed.
End Flow.

Ltac flow_step base :=
  first
  [ solve [apply flow_ret; assumption] | solve [apply flow_raise; assumption]
  | solve [apply flow_lift; assumption] | solve [apply flow_getS; assumption]
  | solve [apply flow_tell; [assumption|reflexivity]]
  | apply flow_contain | apply flow_listen | (apply flow_api; [assumption|assumption|])
  | (apply flow_forM; [assumption|assumption|intro])
  | base
  | (apply flow_bind; [assumption| |intro])
  | match goal with
    | |- flow _ (match ?x with _ => _ end) => destruct x
    | |- flow _ (if ?x then _ else _) => destruct x
    | |- flow _ (let '(_, _) := ?x in _) => destruct x
    end ].
Ltac flow_go base := repeat (flow_step base).

Section StepFlow.
  Variable R : cli -> list eff -> cli -> Prop.
  Hypothesis R_refl : forall s, R s [] s.
  Hypothesis R_trans : forall s e1 s1 e2 s2, R s e1 s1 -> R s1 e2 s2 -> R s (e1 ++ e2) s2.
  Hypothesis R_quiet : forall s e, quiet e = true -> R s [e] s.
  Notation flowR := (flow R).
  Hypothesis H_connected : forall b, flowR (set_connected b).
  Hypothesis H_namespaces : forall f, flowR (set_namespaces f).
  Hypothesis H_conn : forall l a, flowR (set_conn l a).
  Hypothesis H_binpkt : forall b, flowR (set_binpkt b).
  Hypothesis H_sid : forall v, flowR (set_sid v).
  Hypothesis H_eio_state : forall e, flowR (set_eio_state e).
  Hypothesis H_eio_reset : flowR eio_reset.
  Hypothesis H_eio_open : flowR eio_open.
  Hypothesis H_cb_clear : flowR (set_callbacks (fun _ => [])).
  Hypothesis H_ack : forall c pns id data, flowR (handle_ack c pns id data).
  Hypothesis H_gen_int : forall ns, flowR (generate_ack_id ns CbInt).

  Ltac base :=
    first [ apply H_connected | apply H_namespaces | apply H_conn | apply H_binpkt | apply H_sid
          | apply H_eio_state | apply H_eio_reset | apply H_eio_open | apply H_cb_clear | apply H_ack
          | apply H_gen_int
          | match goal with Hx : _ |- flow _ _ => solve [apply Hx] end ].

  Lemma flow_eio_send p : flowR (eio_send p).
  Proof. unfold eio_send. flow_go base. Qed.
  Lemma flow_send_packet t data ns id : flowR (send_packet t data ns id).
  Proof. unfold send_packet. pose proof flow_eio_send. flow_go base. Qed.
  Lemma flow_call_handler c h args : flowR (call_handler c h args).
  Proof. unfold call_handler. flow_go base. Qed.
  Lemma flow_call_with_retry c ev h args : flowR (call_with_retry c ev h args).
  Proof.
    unfold call_with_retry. apply flow_catch; try assumption; [apply flow_call_handler|].
    intros e k Hk. destruct e; try discriminate. destruct (is_disconnect ev); [|discriminate].
    injection Hk as <-. apply flow_call_handler.
  Qed.
  Lemma flow_trigger_event c ev ns args : flowR (trigger_event c ev ns args).
  Proof. unfold trigger_event. pose proof flow_call_with_retry. flow_go base. Qed.
  Lemma flow_trigger_ c ev ns args : flowR (trigger_ c ev ns args).
  Proof. unfold trigger_. pose proof flow_trigger_event. flow_go base. Qed.
  Lemma flow_handle_eio_disconnect c reason : flowR (handle_eio_disconnect c reason).
  Proof. unfold handle_eio_disconnect. pose proof flow_trigger_. flow_go base. Qed.
  Lemma flow_eio_disconnect c reason : flowR (eio_disconnect c reason).
  Proof. unfold eio_disconnect. pose proof flow_handle_eio_disconnect. flow_go base. Qed.
  Lemma flow_eio_loss c : flowR (eio_loss c).
  Proof. unfold eio_loss. pose proof flow_handle_eio_disconnect. flow_go base. Qed.
  Lemma flow_eio_server_close c : flowR (eio_server_close c).
  Proof. unfold eio_server_close. pose proof flow_eio_disconnect. flow_go base. Qed.
  Lemma flow_handle_connect c pns data : flowR (handle_connect c pns data).
  Proof. unfold handle_connect. pose proof flow_trigger_. flow_go base. Qed.
  Lemma flow_handle_disconnect c pns : flowR (handle_disconnect c pns).
  Proof. unfold handle_disconnect. pose proof flow_trigger_. pose proof flow_eio_disconnect. flow_go base. Qed.
  Lemma flow_handle_event c pns id data : flowR (handle_event c pns id data).
  Proof. unfold handle_event. pose proof flow_trigger_event. pose proof flow_send_packet. flow_go base. Qed.
  Lemma flow_handle_error c pns data : flowR (handle_error c pns data).
  Proof. unfold handle_error. pose proof flow_trigger_. flow_go base. Qed.
  Lemma flow_handle_eio_message c loads payload : flowR (handle_eio_message c loads payload).
  Proof.
    unfold handle_eio_message.
    pose proof flow_handle_connect. pose proof flow_handle_disconnect. pose proof flow_handle_event.
    pose proof flow_handle_error.
    flow_go base.
  Qed.
  Lemma flow_deliver c payload tbl : flowR (deliver c payload tbl).
  Proof. unfold deliver. pose proof flow_handle_eio_message. flow_go base. Qed.
  (* emit without an application callback *)
  Lemma flow_api_emit_none ev data pns : flowR (api_emit ev data pns None).
  Proof. unfold api_emit. pose proof flow_send_packet. flow_go base. Qed.
  Lemma flow_api_emit_int ev data pns : flowR (api_emit ev data pns (Some CbInt)).
  Proof. unfold api_emit. pose proof flow_send_packet. flow_go base. Qed.
  Lemma flow_api_call c ev data pns reply tbl : flowR (api_call c ev data pns reply tbl).
  Proof. unfold api_call. pose proof flow_api_emit_int. pose proof flow_deliver. flow_go base. Qed.
  Lemma flow_api_disconnect c : flowR (api_disconnect c).
  Proof. unfold api_disconnect. pose proof flow_send_packet. pose proof flow_eio_disconnect. flow_go base. Qed.
  Lemma flow_handle_eio_connect c : flowR (handle_eio_connect c).
  Proof. unfold handle_eio_connect. pose proof flow_send_packet. flow_go base. Qed.
  Lemma flow_connect_begin c nss auth eio_fails : flowR (connect_begin c nss auth eio_fails).
  Proof.
    unfold connect_begin. pose proof flow_trigger_.
    pose proof (flow_failed R (handle_eio_connect c) (flow_handle_eio_connect c)) as Hf.
    flow_go base.
  Qed.
  Lemma flow_connect_wait c window : flowR (connect_wait c window).
  Proof. unfold connect_wait. pose proof flow_deliver. pose proof flow_api_disconnect. flow_go base. Qed.
  Lemma flow_api_connect c nss auth wait eio_fails window : flowR (api_connect c nss auth wait eio_fails window).
  Proof. unfold api_connect. pose proof flow_connect_begin. pose proof flow_connect_wait. flow_go base. Qed.
End StepFlow.

(* ====================================================================================== *)
(* the callback-reference flow                                                            *)
(* ====================================================================================== *)
Fixpoint cnt (n : N) (l : list N) : nat :=
  match l with [] => O | x :: r => ((if N.eqb x n then 1 else 0) + cnt n r)%nat end.
Lemma cnt_app n a b : cnt n (a ++ b) = (cnt n a + cnt n b)%nat.
Proof. induction a as [|x a IH]; [reflexivity|]. cbn [app cnt]. rewrite IH. lia. Qed.
Lemma cnt_nodup l : NoDup l -> forall n, (cnt n l <= 1)%nat.
Proof.
  induction 1 as [|x l Hn Hl IH]; intro n; [cbn; lia|]. cbn [cnt]. destruct (N.eqb x n) eqn:E; [|apply IH].
  apply N.eqb_eq in E. subst. assert (cnt n l = O); [|lia].
  clear IH Hl. induction l as [|y l IH]; [reflexivity|]. cbn [cnt]. destruct (N.eqb y n) eqn:E.
  - apply N.eqb_eq in E. subst. exfalso. apply Hn. left. reflexivity.
  - apply IH. intro H. apply Hn. right. exact H.
Qed.
Lemma cnt_zero_notin n l : cnt n l = O -> ~ In n l.
Proof.
  induction l as [|x l IH]; [intros _ []|]. cbn [cnt]. destruct (N.eqb x n) eqn:E; [discriminate|].
  intros H [Hx|Hx]; [subst; rewrite N.eqb_refl in E; discriminate|exact (IH H Hx)].
Qed.
Lemma nodup_cnt l : (forall n, (cnt n l <= 1)%nat) -> NoDup l.
Proof.
  induction l as [|x l IH]; intro H; [constructor|]. constructor.
  - apply cnt_zero_notin. specialize (H x). cbn [cnt] in H. rewrite N.eqb_refl in H. lia.
  - apply IH. intro n. specialize (H n). cbn [cnt] in H. lia.
Qed.

Definition ref_of (cb : cbref) : list N := match cb with CbUser m => [m] | CbInt => [] end.
Definition erefs (es : list (N * cbref)) : list N := flat_map (fun e => ref_of (snd e)) es.
Definition urefs (cbs : list (str * cslot)) : list N := flat_map (fun p => erefs (c_entries (snd p))) cbs.
Definition called (e : list eff) : list N := map fst (cbcalls_of e).
Lemma called_app a b : called (a ++ b) = called a ++ called b.
Proof. unfold called, cbcalls_of. rewrite flat_map_app, map_app. reflexivity. Qed.

Lemma erefs_adel es i cb n :
  aget N.eqb es i = Some cb -> (cnt n (erefs (adel N.eqb es i)) + cnt n (ref_of cb) = cnt n (erefs es))%nat.
Proof.
  induction es as [|[j c0] es IH]; cbn [aget adel]; [discriminate|].
  destruct (N.eqb j i); intro H.
  - injection H as ->. unfold erefs at 2. cbn [flat_map snd]. rewrite cnt_app. fold (erefs es). lia.
  - unfold erefs. cbn [flat_map snd]. fold (erefs (adel N.eqb es i)) (erefs es). rewrite !cnt_app. specialize (IH H). lia.
Qed.
Lemma erefs_aset_le es i cb n :
  (cnt n (erefs (aset N.eqb es i cb)) <= cnt n (erefs es) + cnt n (ref_of cb))%nat.
Proof.
  induction es as [|[j c0] es IH]; cbn [aset].
  - unfold erefs. cbn [flat_map snd]. rewrite app_nil_r. cbn [cnt]. lia.
  - destruct (N.eqb j i).
    + unfold erefs. cbn [flat_map snd]. rewrite !cnt_app. lia.
    + unfold erefs. cbn [flat_map snd]. fold (erefs (aset N.eqb es i cb)) (erefs es). rewrite !cnt_app. lia.
Qed.
Lemma urefs_aset_some cbs ns sl sl' n :
  aget str_eqb cbs ns = Some sl ->
  (cnt n (urefs (aset str_eqb cbs ns sl')) + cnt n (erefs (c_entries sl))
   = cnt n (urefs cbs) + cnt n (erefs (c_entries sl')))%nat.
Proof.
  induction cbs as [|[k v] cbs IH]; cbn [aget aset]; [discriminate|].
  destruct (str_eqb k ns); intro H.
  - injection H as ->. unfold urefs. cbn [flat_map snd]. rewrite !cnt_app. lia.
  - unfold urefs. cbn [flat_map snd]. fold (urefs (aset str_eqb cbs ns sl')) (urefs cbs). rewrite !cnt_app.
    specialize (IH H). lia.
Qed.
Lemma urefs_aset_none cbs ns sl' n :
  aget str_eqb cbs ns = None ->
  cnt n (urefs (aset str_eqb cbs ns sl')) = (cnt n (urefs cbs) + cnt n (erefs (c_entries sl')))%nat.
Proof.
  induction cbs as [|[k v] cbs IH]; cbn [aget aset].
  - intros _. unfold urefs. cbn [flat_map snd]. rewrite app_nil_r. reflexivity.
  - destruct (str_eqb k ns); [discriminate|]. intro H.
    unfold urefs. cbn [flat_map snd]. fold (urefs (aset str_eqb cbs ns sl')) (urefs cbs). rewrite !cnt_app.
    rewrite (IH H). lia.
Qed.

(* a reference moves from the table into a CbCall, or disappears; it never appears *)
Definition Rcb (s : cli) (e : list eff) (s' : cli) : Prop :=
  forall n, (cnt n (called e) + cnt n (urefs (callbacks s')) <= cnt n (urefs (callbacks s)))%nat.
Lemma Rcb_refl s : Rcb s [] s.
Proof. intro n. cbn. lia. Qed.
Lemma Rcb_trans s e1 s1 e2 s2 : Rcb s e1 s1 -> Rcb s1 e2 s2 -> Rcb s (e1 ++ e2) s2.
Proof. intros H1 H2 n. rewrite called_app, cnt_app. specialize (H1 n). specialize (H2 n). lia. Qed.
Lemma Rcb_quiet s e : quiet e = true -> Rcb s [e] s.
Proof. intros H n. destruct e; try discriminate; cbn; lia. Qed.

Lemma Rcb_ack c pns id data : flow Rcb (handle_ack c pns id data).
Proof.
  intros s n. unfold ef, st. rewrite handle_ack_run. cbv zeta.
  destruct (outstanding (callbacks s) (ns_or_default pns) id) as [cb|] eqn:Ho; [|cbn; lia].
  destruct id as [i|]; [|cbn; lia].
  destruct (outstanding_some _ _ _ _ Ho) as (_ & sl & Hsl & Hent).
  assert (Hd : (cnt n (urefs (drop_callback (callbacks s) (ns_or_default pns) (Z.to_N i))) + cnt n (ref_of cb)
                = cnt n (urefs (callbacks s)))%nat).
  { unfold drop_callback. rewrite Hsl.
    pose proof (urefs_aset_some (callbacks s) (ns_or_default pns) sl
                  (mkCSlot (c_next sl) (adel N.eqb (c_entries sl) (Z.to_N i))) n Hsl) as H1.
    cbn [c_entries] in H1. pose proof (erefs_adel (c_entries sl) (Z.to_N i) cb n Hent) as H2. lia. }
  destruct (star_args data) as [args|x]; cbn [fst snd with_callbacks callbacks].
  - destruct cb as [m|]; cbn [called cbcalls_of flat_map map fst app ref_of cnt] in *; [destruct (N.eqb m n)|]; lia.
  - cbn [called cbcalls_of flat_map map cnt]. lia.
Qed.
Lemma Rcb_gen ns cb s n :
  (cnt n (urefs (callbacks (st (generate_ack_id ns cb) s))) <= cnt n (urefs (callbacks s)) + cnt n (ref_of cb))%nat.
Proof.
  unfold st. rewrite generate_ack_id_run. cbn [fst with_callbacks callbacks]. unfold slot_of.
  destruct (aget str_eqb (callbacks s) ns) as [sl|] eqn:E.
  - pose proof (urefs_aset_some (callbacks s) ns sl
                  (mkCSlot (c_next sl + 1) (aset N.eqb (c_entries sl) (c_next sl) cb)) n E) as H1.
    cbn [c_entries] in H1. pose proof (erefs_aset_le (c_entries sl) (c_next sl) cb n). lia.
  - rewrite (urefs_aset_none _ _ _ n E). cbn [c_entries c_next].
    pose proof (erefs_aset_le [] 1 cb n) as H. cbn [erefs flat_map cnt] in H. cbn [aset erefs flat_map snd]. rewrite app_nil_r.
    cbn [cnt] in *. lia.
Qed.
Lemma Rcb_gen_int ns : flow Rcb (generate_ack_id ns CbInt).
Proof.
  intros s n. pose proof (Rcb_gen ns CbInt s n) as H. cbn [ref_of cnt] in H.
  assert (He : ef (generate_ack_id ns CbInt) s = []) by reflexivity. rewrite He.
  cbn [called cbcalls_of flat_map map cnt]. lia.
Qed.

Ltac same_cbs := unfold flow, Rcb; intros; first [exact (le_n _) | exact (Nat.le_0_l _)].

Lemma Rcb_api_connect c nss auth wait eio_fails window : flow Rcb (api_connect c nss auth wait eio_fails window).
Proof.
  apply flow_api_connect; try first [exact Rcb_refl|exact Rcb_trans|exact Rcb_quiet|exact Rcb_ack|same_cbs].
Qed.
Lemma Rcb_deliver c payload tbl : flow Rcb (deliver c payload tbl).
Proof. apply flow_deliver; try first [exact Rcb_refl|exact Rcb_trans|exact Rcb_quiet|exact Rcb_ack|same_cbs]. Qed.
Lemma Rcb_api_call c ev data pns reply tbl : flow Rcb (api_call c ev data pns reply tbl).
Proof.
  apply flow_api_call; try first [exact Rcb_refl|exact Rcb_trans|exact Rcb_quiet|exact Rcb_ack|exact Rcb_gen_int|same_cbs].
Qed.
Lemma Rcb_api_disconnect c : flow Rcb (api_disconnect c).
Proof. apply flow_api_disconnect; try first [exact Rcb_refl|exact Rcb_trans|exact Rcb_quiet|same_cbs]. Qed.
Lemma Rcb_eio_loss c : flow Rcb (eio_loss c).
Proof. apply flow_eio_loss; try first [exact Rcb_refl|exact Rcb_trans|exact Rcb_quiet|same_cbs]. Qed.
Lemma Rcb_eio_server_close c : flow Rcb (eio_server_close c).
Proof. apply flow_eio_server_close; try first [exact Rcb_refl|exact Rcb_trans|exact Rcb_quiet|same_cbs]. Qed.
Lemma Rcb_emit_none ev data pns : flow Rcb (api_emit ev data pns None).
Proof. apply flow_api_emit_none; try first [exact Rcb_refl|exact Rcb_trans|exact Rcb_quiet|same_cbs]. Qed.

(* emit with an application callback n: the only operation that can add a reference, and only n *)
Lemma emit_user_flow ev data pns n0 s n :
  (cnt n (called (ef (api_emit ev data pns (Some (CbUser n0))) s)) +
   cnt n (urefs (callbacks (st (api_emit ev data pns (Some (CbUser n0))) s)))
   <= cnt n (urefs (callbacks s)) + cnt n [n0])%nat.
Proof.
  destruct (ahas str_eqb (namespaces s) (ns_or_default pns)) eqn:Hns.
  - unfold ef, st. rewrite (api_emit_cb_run ev data pns (CbUser n0) s Hns). cbv zeta.
    pose proof (Rcb_gen (ns_or_default pns) (CbUser n0) s n) as Hg. cbn [ref_of] in Hg.
    destruct (pieces EVENT _ _ _) as [l|x]; cbn [fst snd].
    + assert (Hc : called (if sendable s then map Sent l else []) = []).
      { destruct (sendable s); [|reflexivity]. clear. induction l as [|p l IH]; [reflexivity|exact IH]. }
      rewrite Hc. cbn [cnt] in *. lia.
    + cbn [called cbcalls_of flat_map map cnt] in *. lia.
  - unfold ef, st. rewrite (bad_namespace_emit ev data pns _ s Hns). cbn. lia.
Qed.

Definition op_refs (o : op) : list N :=
  match o with CEmit _ _ _ (Some n) | CSend _ _ (Some n) => [n] | _ => [] end.

Lemma api_flow (m : CM unit) s n F :
  (cnt n (called (ef m s)) + cnt n (urefs (callbacks (st m s))) <= cnt n (urefs (callbacks s)) + cnt n F)%nat ->
  (cnt n (called (ef (api m) s)) + cnt n (urefs (callbacks (st (api m) s))) <= cnt n (urefs (callbacks s)) + cnt n F)%nat.
Proof.
  unfold ef, st, api. destruct (m s) as [[s1 e1] [a|x]]; cbn [fst snd]; [auto|].
  rewrite called_app, cnt_app. cbn. lia.
Qed.
Lemma bind_ret_flow {A} (m : CM A) s n F :
  (cnt n (called (ef m s)) + cnt n (urefs (callbacks (st m s))) <= cnt n (urefs (callbacks s)) + cnt n F)%nat ->
  (cnt n (called (ef (_ <~ m ;; ret tt) s)) + cnt n (urefs (callbacks (st (_ <~ m ;; ret tt) s)))
   <= cnt n (urefs (callbacks s)) + cnt n F)%nat.
Proof.
  unfold ef, st. rewrite bind_run. destruct (rs m s); cbn [fst snd ret]; [rewrite app_nil_r|]; auto.
Qed.

Lemma step_flow c s o n :
  (cnt n (called (snd (step c s o))) + cnt n (urefs (callbacks (fst (step c s o))))
   <= cnt n (urefs (callbacks s)) + cnt n (op_refs o))%nat.
Proof.
  assert (Hz : forall m : CM unit, flow Rcb m ->
               (cnt n (called (ef m s)) + cnt n (urefs (callbacks (st m s))) <= cnt n (urefs (callbacks s)) + cnt n [])%nat).
  { intros m Hm. specialize (Hm s n). cbn [cnt]. lia. }
  assert (Heta : step c s o = (st (step_m c o) s, ef (step_m c o) s)).
  { unfold step, st, ef. destruct (step_m c o s) as [[s' e] r]. reflexivity. }
  rewrite Heta. cbn [fst snd]. clear Heta.
  destruct o as [nss auth ac wait ef0 window|payload tbl|ev data ns cb|data ns cb|ev data ns reply tbl| | |]; cbn [step_m op_refs].
  - apply api_flow, Hz. apply flow_bind; try first [exact Rcb_refl|exact Rcb_trans|exact Rcb_quiet].
    + apply Rcb_api_connect.
    + intro. apply flow_tell; [exact Rcb_quiet|reflexivity].
  - apply Hz, Rcb_deliver.
  - destruct cb as [n0|]; cbn [option_map].
    + apply api_flow, bind_ret_flow, emit_user_flow.
    + apply api_flow, bind_ret_flow. pose proof (Rcb_emit_none ev data ns s n). cbn [cnt]. lia.
  - destruct cb as [n0|]; cbn [option_map].
    + apply api_flow, bind_ret_flow, emit_user_flow.
    + apply api_flow, bind_ret_flow. pose proof (Rcb_emit_none ev_message data ns s n). cbn [cnt]. lia.
  - apply api_flow, Hz. apply flow_bind; try first [exact Rcb_refl|exact Rcb_trans|exact Rcb_quiet].
    + apply Rcb_api_call.
    + intro. apply flow_tell; [exact Rcb_quiet|reflexivity].
  - apply api_flow, Hz, Rcb_api_disconnect.
  - apply Hz, Rcb_eio_loss.
  - apply Hz, Rcb_eio_server_close.
Qed.

Definition history_effects (c : cfg) (s : cli) (ops : list op) : list eff :=
  List.concat (map snd (snd (run c s ops))).
Lemma run_flow c ops : forall s n,
  (cnt n (called (history_effects c s ops)) + cnt n (urefs (callbacks (fst (run c s ops))))
   <= cnt n (urefs (callbacks s)) + cnt n (flat_map op_refs ops))%nat.
Proof.
  induction ops as [|o r IH]; intros s n; [cbn; lia|].
  unfold history_effects. cbn [run]. pose proof (step_flow c s o n) as H1.
  destruct (step c s o) as [s1 e]. cbn [fst snd] in H1. specialize (IH s1 n). unfold history_effects in IH.
  destruct (run c s1 r) as [s2 es]. cbn [fst snd map List.concat flat_map] in *.
  rewrite called_app, !cnt_app. lia.
Qed.

(* at most once, over histories: if the application hands pairwise distinct callback objects to
   emit / send, no callback is invoked twice - whatever the server sends, however long the history *)
Theorem at_most_once_history c ops :
  NoDup (flat_map op_refs ops) -> NoDup (called (history_effects c cli_init ops)).
Proof.
  intro Hnd. apply nodup_cnt. intro n. pose proof (run_flow c ops cli_init n) as H.
  pose proof (cnt_nodup _ Hnd n). cbn [cli_init callbacks urefs flat_map cnt] in H. lia.
Qed.
(* ... and a callback is only ever invoked if it was handed to an emit / send of the history *)
Theorem called_were_registered c ops n :
  In n (called (history_effects c cli_init ops)) -> In n (flat_map op_refs ops).
Proof.
  intro Hin. pose proof (run_flow c ops cli_init n) as H. cbn [cli_init callbacks urefs flat_map cnt] in H.
  destruct (cnt n (flat_map op_refs ops)) eqn:E.
  - exfalso. assert (Hz : cnt n (called (history_effects c cli_init ops)) = O) by lia.
    exact (cnt_zero_notin _ _ Hz Hin).
  - clear - E. induction (flat_map op_refs ops) as [|x l IH]; [discriminate|]. cbn [cnt] in E.
    destruct (N.eqb x n) eqn:Ex; [left; apply N.eqb_eq, Ex|right; apply IH; exact E].
Qed.
