(* The C09 clause checker (Check/C09Check.v, and the nested clause of Check/C09XCheck.v) accepts the
   MODEL's own run: per operation for every state satisfying the ack-id invariant, hence for every
   history. *)
From VT Require Import Client.ClientLemmas Client.CliCheck Client.ClientProofs Client.HistoryProofs Client.CheckProofs.
From VT Require Import Client.MirrorProofs Check.C09Check Check.C09XCheck Client.ClientXProofs.
From Coq Require Import Lia.
Open Scope N_scope.

(* ---- effect-list bookkeeping ---- *)
Lemma calls_of_app a b : calls_of (a ++ b) = calls_of a ++ calls_of b.
Proof. unfold calls_of. apply flat_map_app. Qed.
Lemma sent_of_app a b : sent_of (a ++ b) = sent_of a ++ sent_of b.
Proof. unfold sent_of. apply flat_map_app. Qed.
Lemma calls_of_sent l : calls_of (map Sent l) = [].
Proof. induction l; [reflexivity|exact IHl]. Qed.
Lemma sent_of_sent l : sent_of (map Sent l) = l.
Proof. induction l as [|x l IH]; [reflexivity|]. cbn. f_equal. exact IH. Qed.
Lemma cbcalls_of_sent l : cbcalls_of (map Sent l) = [].
Proof. induction l; [reflexivity|exact IHl]. Qed.
Lemma rets_of_sent l : rets_of (map Sent l) = [].
Proof. induction l; [reflexivity|exact IHl]. Qed.
Lemma raised_of_sent l : raised_of (map Sent l) = [].
Proof. induction l; [reflexivity|exact IHl]. Qed.
Lemma observable_sent l : filter observable (map Sent l) = map Sent l.
Proof. induction l as [|x l IH]; [reflexivity|]. cbn. f_equal. exact IH. Qed.
Lemma calls_eqb_refl l : calls_eqb l l = true.
Proof.
  unfold calls_eqb. apply list_eqb_refl. intros [h a]. unfold pair_eqb. cbn [fst snd].
  rewrite N.eqb_refl, (list_eqb_refl pv_eqb pv_eqb_refl). reflexivity.
Qed.
Lemma pvs_eqb_refl l : list_eqb pv_eqb l l = true.
Proof. apply list_eqb_refl, pv_eqb_refl. Qed.
Lemma effs_eqb_refl l : list_eqb eff_eqb l l = true.
Proof. apply list_eqb_refl, eff_eqb_refl. Qed.

(* ---- which handler a message reaches ---- *)
Lemma deliver_run c payload tbl s :
  eio_state s = EConnected ->
  deliver c payload tbl s = (st (handle_eio_message c (table_loads tbl) payload) s,
                             ef (handle_eio_message c (table_loads tbl) payload) s, Ok tt).
Proof.
  intro He. unfold deliver. rewrite getS_bind, He. cbn [eiost_eqb]. unfold contain, st, ef.
  destruct (handle_eio_message c (table_loads tbl) payload s) as [[s1 e1] r]. reflexivity.
Qed.
Lemma message_event c payload tbl s pn id data :
  packet_of s payload tbl = SEvent pn id data ->
  exists s0, (s0 = s \/ s0 = with_binpkt s None) /\
             handle_eio_message c (table_loads tbl) payload s = handle_event c pn id data s0.
Proof.
  unfold packet_of, handle_eio_message. rewrite getS_bind. destruct (binpkt s) as [r0|] eqn:Hb.
  - destruct (add_attachment r0 payload) as [[r' [|]]|x]; try discriminate.
    destruct (type_is (rp r') BINARY_EVENT) eqn:Ht; [|discriminate]. intro H. injection H as <- <- <-.
    exists (with_binpkt s None). split; [right; reflexivity|]. unfold set_binpkt. rewrite modify_bind. reflexivity.
  - destruct (decode (table_loads tbl) payload) as [r|x]; [|discriminate]. rewrite lift_ok_bind. cbv zeta.
    destruct (type_is (rp r) EVENT) eqn:Ht; [|destruct (type_is (rp r) ACK); discriminate].
    intro H. injection H as <- <- <-. exists s. split; [left; reflexivity|].
    rewrite (type_is_excl _ _ CONNECT Ht), (type_is_excl _ _ DISCONNECT Ht) by discriminate. reflexivity.
Qed.
Lemma message_ack c payload tbl s pn id data :
  packet_of s payload tbl = SAck pn id data ->
  exists s0, (s0 = s \/ s0 = with_binpkt s None) /\
             handle_eio_message c (table_loads tbl) payload s = handle_ack c pn id data s0.
Proof.
  unfold packet_of, handle_eio_message. rewrite getS_bind. destruct (binpkt s) as [r0|] eqn:Hb.
  - destruct (add_attachment r0 payload) as [[r' [|]]|x]; try discriminate.
    destruct (type_is (rp r') BINARY_EVENT) eqn:Ht; [discriminate|]. intro H. injection H as <- <- <-.
    exists (with_binpkt s None). split; [right; reflexivity|]. unfold set_binpkt. rewrite modify_bind. reflexivity.
  - destruct (decode (table_loads tbl) payload) as [r|x]; [|discriminate]. rewrite lift_ok_bind. cbv zeta.
    destruct (type_is (rp r) EVENT) eqn:Ht0; [discriminate|].
    destruct (type_is (rp r) ACK) eqn:Ht; [|discriminate].
    intro H. injection H as <- <- <-. exists s. split; [left; reflexivity|].
    rewrite (type_is_excl _ _ CONNECT Ht), (type_is_excl _ _ DISCONNECT Ht) by discriminate. reflexivity.
Qed.

(* ---- _trigger_event in the two remaining cases ---- *)
Lemma not_reserved_not_disconnect ev : reserved (PStr ev) = false -> is_disconnect (PStr ev) = false.
Proof.
  unfold is_disconnect, ev_disconnect, reserved. cbn [pv_eqb].
  intro H. destruct (str_eqb ev (s2l "disconnect")); [|reflexivity].
  destruct (str_eqb ev (s2l "connect")); destruct (str_eqb ev (s2l "connect_error")); cbn in H; discriminate.
Qed.
Lemma call_handler_mismatch c h a s :
  arity_fits c h (List.length a) = false ->
  exists x, call_handler c h a s = (s, [], Err x) /\ (x = TypeError \/ x = OtherError).
Proof.
  unfold arity_fits, call_handler. destruct (aget N.eqb (behav c) h) as [b|]; [|eexists; split; [reflexivity|right; reflexivity]].
  destruct (h_arity b) as [n|]; [|discriminate]. intros ->. eexists; split; [reflexivity|left; reflexivity].
Qed.
Lemma trig_no_call c ev ns args h a :
  responsible c (PStr ev) ns args = Some (h, a) -> arity_fits c h (List.length a) = false -> reserved (PStr ev) = false ->
  trig_eff c (PStr ev) ns args = [] /\ exists x, trig_res c (PStr ev) ns args = Err x.
Proof.
  intros Hr Ha Hres. pose proof (not_reserved_not_disconnect ev Hres) as Hd.
  destruct (call_handler_mismatch c h a cli_init Ha) as (x & Hx & Hor).
  destruct (trig_via c ev ns args h a [] (Err x) Hr) as [H1 H2].
  - unfold call_with_retry, catch. rewrite Hx, Hd. destruct Hor as [-> | ->]; reflexivity.
  - split; [exact H1|eauto].
Qed.
Lemma trig_raising c ev ns args h a :
  responsible c (PStr ev) ns args = Some (h, a) -> arity_fits c h (List.length a) = true -> returns c h = None ->
  reserved (PStr ev) = false ->
  trig_eff c (PStr ev) ns args = [Call h a] /\ exists x, trig_res c (PStr ev) ns args = Err x.
Proof.
  intros Hr Ha Hv Hres. pose proof (not_reserved_not_disconnect ev Hres) as Hd.
  unfold arity_fits, returns in *. destruct (aget N.eqb (behav c) h) as [b|] eqn:Eb; [|discriminate].
  destruct (h_outcome b) as [v|e] eqn:Eo; [discriminate|].
  destruct (trig_via c ev ns args h a [Call h a] (Err e) Hr) as [H1 H2].
  - unfold call_with_retry, catch, call_handler. rewrite Eb.
    destruct (h_arity b) as [n|]; [rewrite Ha; cbn [negb]|]; rewrite tell_bind, Eo; unfold st, ef, rs, raise; cbn [fst snd];
      destruct e; try reflexivity; rewrite Hd; reflexivity.
  - split; [exact H1|eauto].
Qed.

(* ---- the event clause ---- *)
Lemma obs_cons_call h a r : filter observable (Call h a :: r) = Call h a :: filter observable r.
Proof. reflexivity. Qed.
Lemma calls_cons_call h a r : calls_of (Call h a :: r) = (h, a) :: calls_of r.
Proof. reflexivity. Qed.
Lemma sent_cons_call h a r : sent_of (Call h a :: r) = sent_of r.
Proof. reflexivity. Qed.
Lemma cbcalls_cons_call h a r : cbcalls_of (Call h a :: r) = cbcalls_of r.
Proof. reflexivity. Qed.
Lemma rets_cons_call h a r : rets_of (Call h a :: r) = rets_of r.
Proof. reflexivity. Qed.
Lemma raised_cons_call h a r : raised_of (Call h a :: r) = raised_of r.
Proof. reflexivity. Qed.
Ltac fin :=
  cbn [fst snd app]; rewrite ?app_nil_r;
  rewrite ?obs_cons_call, ?observable_sent; unfold no_api_effects;
  rewrite ?calls_cons_call, ?sent_cons_call, ?cbcalls_cons_call, ?rets_cons_call, ?raised_cons_call,
          ?calls_of_sent, ?sent_of_sent, ?cbcalls_of_sent, ?rets_of_sent, ?raised_of_sent;
  rewrite ?calls_eqb_refl, ?pvs_eqb_refl; try reflexivity.

Lemma frames_pieces' t data ns id : frames_of t data ns id = pieces t data ns id.
Proof. reflexivity. Qed.

Lemma event_effects_ok c s0 pn id data evs args :
  sendable s0 = true -> split_event data = Ok (PStr evs, args) -> reserved (PStr evs) = false ->
  let ns := ns_or_default pn in
  let obs := filter observable (ef (handle_event c pn id data) s0) in
  let cr := match responsible c (PStr evs) ns args with
            | None => ([], Some PNone)
            | Some (h, a) => if arity_fits c h (List.length a) then ([(h, a)], returns c h) else ([], None)
            end in
  calls_eqb (calls_of obs) (fst cr) && no_api_effects obs &&
  match id, snd cr with
  | Some i, Some v => match frames_of ACK (PList (pack v)) ns (Some i) with
                      | Ok fr => list_eqb pv_eqb (sent_of obs) fr
                      | Err _ => true end
  | _, _ => match sent_of obs with [] => true | _ => false end
  end = true.
Proof.
  intros Hsend Hs Hres ns obs. unfold obs, ef. rewrite (handle_event_run c s0 pn id data _ _ Hs). cbv zeta. subst ns.
  set (ns := ns_or_default pn). rewrite Hsend.
  assert (Hcase : exists E R, trig_eff c (PStr evs) ns args = E /\ trig_res c (PStr evs) ns args = R /\
            match responsible c (PStr evs) ns args with
            | None => E = [] /\ R = Ok PNone
            | Some (h, a) => if arity_fits c h (List.length a)
                             then E = [Call h a] /\ match returns c h with Some v => R = Ok v | None => exists x, R = Err x end
                             else E = [] /\ exists x, R = Err x
            end).
  { eexists _, _. split; [reflexivity|]. split; [reflexivity|].
    destruct (responsible c (PStr evs) ns args) as [[h a]|] eqn:Hr.
    - destruct (arity_fits c h (List.length a)) eqn:Ha.
      + destruct (returns c h) as [v|] eqn:Hv.
        * destruct (trig_responsible c evs ns args h a v Hr Ha Hv). split; assumption.
        * destruct (trig_raising c evs ns args h a Hr Ha Hv Hres). split; assumption.
      + destruct (trig_no_call c evs ns args h a Hr Ha Hres). split; assumption.
    - destruct (trig_nobody c evs ns args Hr). split; assumption. }
  destruct Hcase as (E & R & -> & -> & Hc).
  destruct (responsible c (PStr evs) ns args) as [[h a]|].
  - destruct (arity_fits c h (List.length a)).
    + destruct Hc as [-> HR]. destruct (returns c h) as [v|].
      * subst R. destruct id as [i|].
        -- cbn [fst snd]. change (frames_of ACK (PList (pack v)) ns (Some i)) with (pieces ACK (PList (pack v)) ns (Some i)).
           destruct (pieces ACK (PList (pack v)) ns (Some i)) as [l|x]; fin.
        -- fin.
      * destruct HR as [x ->]. destruct id; fin.
    + destruct Hc as [-> [x ->]]. destruct id; fin.
  - destruct Hc as [-> ->]. destruct id as [i|]; [|fin].
    cbn [fst snd]. change (pack PNone) with (@nil pv). change (frames_of ACK (PList []) ns (Some i)) with (pieces ACK (PList []) ns (Some i)).
    destruct (pieces ACK (PList []) ns (Some i)) as [l|x]; fin.
Qed.

(* ---- the ACK clauses ---- *)
Lemma dump_slot_of x ns :
  dump_slot (dump_of x) ns = option_map (fun sl => (c_next sl, map fst (c_entries sl))) (aget str_eqb (callbacks x) ns).
Proof.
  unfold dump_slot, dump_of. cbn [d_cbs]. induction (callbacks x) as [|[k sl] l IH]; [reflexivity|].
  cbn [map dump_slot_in aget fst snd]. destruct (str_eqb k ns); [reflexivity|exact IH].
Qed.
Lemma existsb_notin i l : ~ In i l -> existsb (N.eqb i) l = false.
Proof.
  induction l as [|x l IH]; [reflexivity|]. intro H. cbn [existsb]. destruct (N.eqb i x) eqn:E.
  - apply N.eqb_eq in E. subst. exfalso. apply H. left. reflexivity.
  - apply IH. intro Hin. apply H. right. exact Hin.
Qed.

Lemma ack_clause_ok c s s0 pn id data :
  cb_inv s -> (s0 = s \/ s0 = with_binpkt s None) ->
  let ns := ns_or_default pn in
  let obs := filter observable (ef (handle_ack c pn id data) s0) in
  let d := dump_of (st (handle_ack c pn id data) s0) in
  match outstanding (callbacks s) ns id, id with
  | Some cb, Some i =>
      flag (match cb, star_args data with
            | CbUser n, Ok args => list_eqb eff_eqb obs [CbCall n args]
            | _, _ => match obs with [] => true | _ => false end
            end && negb (existsb (N.eqb (Z.to_N i)) (dump_ids d ns))) B_ACK
  | _, _ =>
      flag (match obs with [] => true | _ => false end &&
            dump_eqb d (mkDump (d_connected (dump_of s)) (d_namespaces (dump_of s)) (d_cbs (dump_of s)) (d_binpkt_none d)
                               (d_sid (dump_of s)) (d_eio (dump_of s)))) B_UNKNOWN
  end = O.
Proof.
  intros Hinv Hs0 ns obs d.
  assert (Hcb : callbacks s0 = callbacks s) by (destruct Hs0 as [->| ->]; reflexivity).
  assert (Hinv0 : cb_inv s0) by (unfold cb_inv; rewrite Hcb; exact Hinv).
  unfold obs, d, ef, st. rewrite handle_ack_run. cbv zeta. fold ns. rewrite Hcb.
  destruct (outstanding (callbacks s) ns id) as [cb|] eqn:Ho.
  - destruct id as [i|]; [|destruct Hs0 as [->| ->]; cbn; rewrite dump_eqb_refl; reflexivity].
    assert (Hids : existsb (N.eqb (Z.to_N i))
                     (dump_ids (dump_of (with_callbacks s0 (drop_callback (callbacks s) ns (Z.to_N i)))) ns) = false).
    { destruct (outstanding_some _ _ _ _ Ho) as (Hpos & sl & Hsl & Hent).
      pose proof (cb_inv_slot s ns sl Hinv Hsl) as (_ & _ & Hnd).
      unfold dump_ids. rewrite dump_slot_of. cbn [with_callbacks callbacks]. unfold drop_callback. rewrite Hsl.
      rewrite (aget_aset_same str_eqb str_eqb_eq). cbn [option_map c_entries]. apply existsb_notin.
      apply (aget_none_notin N.eqb Neqb_spec), (aget_adel_same N.eqb Neqb_spec), Hnd. }
    destruct (star_args data) as [args|x]; cbn [fst snd].
    + destruct cb as [n|]; cbn [filter observable]; rewrite Hids; [rewrite effs_eqb_refl|]; reflexivity.
    + rewrite Hids. destruct cb; reflexivity.
  - destruct Hs0 as [->| ->]; cbn; rewrite dump_eqb_refl; reflexivity.
Qed.

(* ---- every server message ---- *)
Lemma sendable_binpkt s : sendable (with_binpkt s None) = sendable s.
Proof. reflexivity. Qed.

Theorem c09_msg_ok c s payload tbl :
  cb_inv s ->
  c09_step c s (dump_of s) (CMsg payload tbl) (filter observable (snd (step c s (CMsg payload tbl))))
           (dump_of (fst (step c s (CMsg payload tbl)))) = O.
Proof.
  intro Hinv. unfold c09_step. destruct (eiost_eqb (eio_state s) EConnected) eqn:Hconn; [|reflexivity]. cbn [negb].
  assert (He : eio_state s = EConnected) by (destruct (eio_state s); try discriminate; reflexivity).
  unfold step. cbn [step_m]. rewrite (deliver_run c payload tbl s He). cbn [fst snd].
  destruct (packet_of s payload tbl) as [pn id data|pn id data|] eqn:Hp; [| |reflexivity].
  - destruct (message_event c payload tbl s pn id data Hp) as (s0 & Hs0 & Heq).
    unfold st, ef. rewrite Heq. fold (ef (handle_event c pn id data) s0).
    assert (Hsend : sendable s0 = true) by (destruct Hs0 as [->| ->]; exact Hconn).
    destruct (split_event data) as [[ev args]|x] eqn:Hs.
    + destruct ev; try reflexivity.
      destruct (reserved (PStr s1)) eqn:Hres; [reflexivity|].
      pose proof (event_effects_ok c s0 pn id data s1 args Hsend Hs Hres) as H. cbv zeta in H.
      destruct (responsible c (PStr s1) (ns_or_default pn) args) as [[h a]|].
      * destruct (arity_fits c h (List.length a)); cbn [fst snd] in H; rewrite H; reflexivity.
      * cbn [fst snd] in H. rewrite H. reflexivity.
    + unfold ef, handle_event. rewrite Hs. reflexivity.
  - destruct (message_ack c payload tbl s pn id data Hp) as (s0 & Hs0 & Heq).
    unfold st, ef. rewrite Heq.
    exact (ack_clause_ok c s s0 pn id data Hinv Hs0).
Qed.

(* ---- emit / send with a callback, call() ---- *)
Lemma slot_of_next s ns (cb : cbref) :
  dump_slot (dump_of (st (generate_ack_id ns cb) s)) ns
  = Some (c_next (slot_of s ns) + 1, map fst (aset N.eqb (c_entries (slot_of s ns)) (c_next (slot_of s ns)) cb)).
Proof.
  rewrite dump_slot_of. unfold st. rewrite generate_ack_id_run. cbn [fst with_callbacks callbacks].
  rewrite (aget_aset_same str_eqb str_eqb_eq). reflexivity.
Qed.
Lemma firstn_all' {A} (l : list A) : firstn (List.length l) l = l.
Proof. apply firstn_all. Qed.

(* the `unique` clause on the state right after _generate_ack_id, with the frames the model sends *)
Lemma uniq_after_generate s ns evname data l (sent : list pv) s' :
  cb_inv s ->
  dump_slot (dump_of s') ns = Some (c_next (slot_of s ns) + 1, l) ->
  (sendable s = true -> forall fr, pieces EVENT (PList (PStr evname :: emit_list data)) ns (Some (Z.of_N (c_next (slot_of s ns)))) = Ok fr ->
                        firstn (List.length fr) sent = fr) ->
  match dump_slot (dump_of s') ns with
  | Some (nxt, _) =>
      let i := nxt - 1 in
      (1 <=? i) &&
      match outstanding (callbacks s) ns (Some (Z.of_N i)) with None => true | Some _ => false end &&
      (if eiost_eqb (eio_state s) EConnected then
         match frames_of EVENT (PList (PStr evname :: emit_list data)) ns (Some (Z.of_N i)) with
         | Ok fr => list_eqb pv_eqb (firstn (List.length fr) sent) fr
         | Err _ => true
         end
       else true)
  | None => false
  end = true.
Proof.
  intros Hinv Hd Hfr. rewrite Hd. cbv zeta. rewrite N.add_sub.
  destruct (unique_id s ns CbInt Hinv) as (_ & H1 & Hout & _). cbv zeta in *.
  rewrite Hout. replace (1 <=? c_next (slot_of s ns)) with true by (symmetry; apply N.leb_le; exact H1). cbn [andb].
  fold (sendable s). destruct (sendable s) eqn:Hs; [|reflexivity].
  change (frames_of EVENT (PList (PStr evname :: emit_list data)) ns (Some (Z.of_N (c_next (slot_of s ns)))))
    with (pieces EVENT (PList (PStr evname :: emit_list data)) ns (Some (Z.of_N (c_next (slot_of s ns))))).
  destruct (pieces EVENT (PList (PStr evname :: emit_list data)) ns (Some (Z.of_N (c_next (slot_of s ns))))) as [fr|x] eqn:Ep;
    [|reflexivity].
  rewrite (Hfr eq_refl fr eq_refl). apply pvs_eqb_refl.
Qed.

Lemma emit_cb_ok c s evname data pn n o :
  cb_inv s ->
  (o = CEmit evname data pn (Some n) \/ (evname = ev_message /\ o = CSend data pn (Some n))) ->
  c09_step c s (dump_of s) o (filter observable (snd (step c s o))) (dump_of (fst (step c s o))) = O.
Proof.
  intros Hinv Ho.
  assert (Hstep : step c s o = match api (_ <~ api_emit evname data pn (Some (CbUser n)) ;; ret tt) s with (s', e, _) => (s', e) end).
  { destruct Ho as [->|[-> ->]]; reflexivity. }
  assert (Hgoal : forall obs d,
            c09_step c s (dump_of s) o obs d =
            (let ns := ns_or_default pn in
             if negb (ahas str_eqb (namespaces s) ns) then O else
             Nat.add (flag (match dump_slot d ns with
                    | Some (nxt, _) =>
                        let i := nxt - 1 in
                        (1 <=? i) &&
                        match outstanding (callbacks s) ns (Some (Z.of_N i)) with None => true | Some _ => false end &&
                        (if eiost_eqb (eio_state s) EConnected then
                           match frames_of EVENT (PList (PStr evname :: emit_list data)) ns (Some (Z.of_N i)) with
                           | Ok fr => list_eqb pv_eqb (firstn (List.length fr) (sent_of obs)) fr
                           | Err _ => true
                           end
                         else true)
                    | None => false
                    end) B_UNIQUE) (flag true B_CALL))).
  { intros obs d. destruct Ho as [->|[-> ->]]; reflexivity. }
  rewrite Hgoal, Hstep. clear Hgoal Hstep. cbv zeta.
  destruct (ahas str_eqb (namespaces s) (ns_or_default pn)) eqn:Hns; [|reflexivity]. cbn [negb].
  pose proof (api_emit_cb_run evname data pn (CbUser n) s Hns) as Hrun. cbv zeta in Hrun.
  change (emit_args data) with (emit_list data) in Hrun.
  set (ns := ns_or_default pn) in *.
  destruct (pieces EVENT (PList (PStr evname :: emit_list data)) ns (Some (Z.of_N (c_next (slot_of s ns))))) as [l|x] eqn:Ep.
  - assert (Hb : (_ <~ api_emit evname data pn (Some (CbUser n)) ;; ret tt) s
                 = (st (generate_ack_id ns (CbUser n)) s, (if sendable s then map Sent l else []) ++ [], Ok tt)).
    { erewrite bind_eq by exact Hrun. reflexivity. }
    unfold api. rewrite Hb. cbn [fst snd]. rewrite app_nil_r.
    rewrite (uniq_after_generate s ns evname data _ _ _ Hinv (slot_of_next s ns (CbUser n))); [reflexivity|].
    intros Hs fr Hfr. rewrite Hs, observable_sent, sent_of_sent. rewrite Ep in Hfr. injection Hfr as <-. apply firstn_all'.
  - assert (Hb : (_ <~ api_emit evname data pn (Some (CbUser n)) ;; ret tt) s
                 = (st (generate_ack_id ns (CbUser n)) s, [], Err x)).
    { erewrite bind_eq_err by exact Hrun. reflexivity. }
    unfold api. rewrite Hb. cbn [fst snd app].
    rewrite (uniq_after_generate s ns evname data _ _ _ Hinv (slot_of_next s ns (CbUser n))); [reflexivity|].
    intros Hs fr Hfr. rewrite Ep in Hfr. discriminate.
Qed.

Lemma skipn_sent_tail l (t : list eff) : skipn (List.length l) (map Sent l ++ t) = t.
Proof. induction l as [|x l IH]; [reflexivity|exact IH]. Qed.
Lemma sent_of_tail l (t : list eff) : sent_of t = [] -> sent_of (map Sent l ++ t) = l.
Proof. intro H. rewrite sent_of_app, sent_of_sent, H. apply app_nil_r. Qed.
Lemma obs_app a b : filter observable (a ++ b) = filter observable a ++ filter observable b.
Proof. apply filter_app. Qed.

(* call() that is not answered: TimeoutError after the EVENT with a fresh id went out *)
Theorem call_timeout_ok c s ev data pn tbl fr :
  cb_inv s ->
  pieces EVENT (PList (PStr ev :: emit_list data)) (ns_or_default pn) (Some (Z.of_N (c_next (slot_of s (ns_or_default pn))))) = Ok fr ->
  let o := CCall ev data pn None tbl in
  c09_step c s (dump_of s) o (filter observable (snd (step c s o))) (dump_of (fst (step c s o))) = O.
Proof.
  intros Hinv Hfr o. unfold o, c09_step.
  destruct (ahas str_eqb (namespaces s) (ns_or_default pn)) eqn:Hns; [|reflexivity]. cbn [negb].
  set (ns := ns_or_default pn) in *.
  pose proof (call_timeout c s ev data pn tbl fr Hns Hfr) as Hrun. cbv zeta in Hrun. fold ns in Hrun.
  unfold step. cbn [step_m]. unfold api. erewrite bind_eq_err by exact Hrun. cbn [fst snd].
  rewrite (uniq_after_generate s ns ev data _ _ _ Hinv (slot_of_next s ns CbInt)).
  2:{ intros Hs fr' Hfr'. rewrite Hs, obs_app, observable_sent. cbn [filter observable].
      rewrite (sent_of_tail fr [Raised TimeoutError] eq_refl). rewrite Hfr in Hfr'. injection Hfr' as <-. apply firstn_all'. }
  cbn [flag Nat.add].
  destruct (binpkt s); [reflexivity|]. fold (sendable s). unfold sendable. destruct (eio_state s) eqn:He; try reflexivity.
  cbn [eiost_eqb]. rewrite obs_app, observable_sent. cbn [filter observable].
  rewrite (sent_of_tail fr [Raised TimeoutError] eq_refl), skipn_sent_tail. reflexivity.
Qed.

(* call() answered by the ACK for its id (premises of C09_call_result: codec round trip of the reply frame) *)
Theorem call_reply_ok c s ev data pn r tbl fr p enc pns' :
  cb_inv s ->
  ahas str_eqb (namespaces s) (ns_or_default pn) = true -> sendable s = true -> binpkt s = None ->
  let ns := ns_or_default pn in
  let id := c_next (slot_of s ns) in
  pieces EVENT (PList (PStr ev :: emit_list data)) ns (Some (Z.of_N id)) = Ok fr ->
  ctor true ACK (PList r) (Some ns) (Some (Z.of_N id)) None = Ok p -> encode p = Ok enc ->
  decode (table_loads tbl) (PStr (fst enc)) = Ok (mkR (mkPacket (PInt ACK) pns' (Some (Z.of_N id)) (PList r)) 0 []) ->
  ns_or_default pns' = ns ->
  let o := CCall ev data pn (Some r) tbl in
  c09_step c s (dump_of s) o (filter observable (snd (step c s o))) (dump_of (fst (step c s o))) = O.
Proof.
  intros Hinv Hns Hsend Hbin ns id Hfr Hp Henc Hdec Hpns o.
  destruct (call_result c s ev data pn r tbl fr p enc pns' Hinv Hns Hsend Hbin Hfr Hp Henc Hdec Hpns) as (Hrs & Hobs & _ & Hst).
  fold ns id in Hst.
  assert (Hstep : step c s o = (st (api_call c ev data pn (Some r) tbl) s,
                                ef (api_call c ev data pn (Some r) tbl) s ++ [Ret (shape_result r)])).
  { unfold o, step. cbn [step_m]. unfold api.
    erewrite bind_eq by (rewrite (run_eta (api_call c ev data pn (Some r) tbl) s), Hrs; reflexivity). reflexivity. }
  rewrite Hstep. cbn [fst snd]. rewrite obs_app, Hobs. cbn [filter observable].
  unfold o, c09_step. rewrite Hns. cbn [negb]. fold ns.
  assert (Hslot : exists l, dump_slot (dump_of (st (api_call c ev data pn (Some r) tbl) s)) ns = Some (id + 1, l)).
  { rewrite Hst, dump_slot_of. cbn [with_callbacks callbacks]. unfold drop_callback, st. rewrite generate_ack_id_run.
    cbn [fst with_callbacks callbacks]. rewrite (aget_aset_same str_eqb str_eqb_eq), (aget_aset_same str_eqb str_eqb_eq).
    cbn [option_map c_next]. eexists. reflexivity. }
  destruct Hslot as [l Hslot].
  rewrite (uniq_after_generate s ns ev data l _ _ Hinv Hslot).
  2:{ intros _ fr' Hfr'. rewrite (sent_of_tail fr [Ret (shape_result r)] eq_refl). fold id in Hfr'. rewrite Hfr in Hfr'.
      injection Hfr' as <-. apply firstn_all'. }
  cbn [flag Nat.add]. rewrite Hbin. unfold sendable in Hsend. destruct (eio_state s); try discriminate.
  unfold rets_of, raised_of. rewrite !flat_map_app. fold (rets_of (map Sent fr)) (raised_of (map Sent fr)).
  rewrite rets_of_sent, raised_of_sent. cbn. rewrite pv_eqb_refl. reflexivity.
Qed.

(* ---- every operation, every history ---- *)
(* the domain: call() is only judged when its EVENT can be encoded and - if the scenario answers it - the
   client is in a position to receive the answer and the oracle table decodes the reply frame back to
   the ACK it encodes (the codec round trip, C01) *)
Definition c09_dom (c : cfg) (s : cli) (o : op) : Prop :=
  match o with
  | CCall ev data pn reply tbl =>
      let ns := ns_or_default pn in
      let id := c_next (slot_of s ns) in
      ahas str_eqb (namespaces s) ns = true ->
      exists fr, pieces EVENT (PList (PStr ev :: emit_list data)) ns (Some (Z.of_N id)) = Ok fr /\
        match reply with
        | None => True
        | Some r =>
            sendable s = true /\ binpkt s = None /\
            exists p enc pns', ctor true ACK (PList r) (Some ns) (Some (Z.of_N id)) None = Ok p /\ encode p = Ok enc /\
              decode (table_loads tbl) (PStr (fst enc)) = Ok (mkR (mkPacket (PInt ACK) pns' (Some (Z.of_N id)) (PList r)) 0 []) /\
              ns_or_default pns' = ns
        end
  | _ => True
  end.

Theorem c09_step_model c s o :
  cb_inv s -> c09_dom c s o ->
  c09_step c s (dump_of s) o (filter observable (snd (step c s o))) (dump_of (fst (step c s o))) = O.
Proof.
  intros Hinv Hd. destruct o as [nss auth ac wait ef0 window|payload tbl|ev data pn cb|data pn cb|ev data pn reply tbl| | |];
    try reflexivity.
  - apply c09_msg_ok, Hinv.
  - destruct cb as [n|]; [|reflexivity]. apply (emit_cb_ok c s ev data pn n); [exact Hinv|left; reflexivity].
  - destruct cb as [n|]; [|reflexivity]. apply (emit_cb_ok c s ev_message data pn n); [exact Hinv|right; split; reflexivity].
  - cbn [c09_dom] in Hd. destruct (ahas str_eqb (namespaces s) (ns_or_default pn)) eqn:Hns.
    + destruct (Hd eq_refl) as (fr & Hfr & Hrep). destruct reply as [r|].
      * destruct Hrep as (Hsend & Hbin & p & enc & pns' & Hp & Henc & Hdec & Hpns).
        exact (call_reply_ok c s ev data pn r tbl fr p enc pns' Hinv Hns Hsend Hbin Hfr Hp Henc Hdec Hpns).
      * exact (call_timeout_ok c s ev data pn tbl fr Hinv Hfr).
    + unfold c09_step. rewrite Hns. reflexivity.
Qed.

Fixpoint dom_run (c : cfg) (s : cli) (ops : list op) : Prop :=
  match ops with
  | [] => True
  | o :: r => c09_dom c s o /\ dom_run c (fst (step c s o)) r
  end.

Lemma c09_first_model c ops : forall s i, cb_inv s -> dom_run c s ops ->
  c09_first c s (dump_of s) ops (obs_from c s ops) i = None.
Proof.
  induction ops as [|o r IH]; intros s i Hinv Hd; [reflexivity|]. destruct Hd as [Hd Hr].
  unfold obs_from. cbn [run]. pose proof (c09_step_model c s o Hinv Hd) as Hs. pose proof (cb_inv_step c s o Hinv) as Hinv'.
  destruct (step c s o) as [s1 e] eqn:Es. cbn [fst snd] in *.
  specialize (IH s1 (S i) Hinv' Hr). unfold obs_from in IH. destruct (run c s1 r) as [s2 es]. cbn [snd map fst c09_first] in *.
  rewrite Hs, Es. cbn [fst]. exact IH.
Qed.

Lemma cbcalls_observable e : cbcalls_of (filter observable e) = cbcalls_of e.
Proof.
  induction e as [|x e IH]; [reflexivity|].
  destruct x; cbn [filter observable]; unfold cbcalls_of in *; cbn [flat_map app]; rewrite ?IH; reflexivity.
Qed.
Lemma nodup_n_true l : NoDup l -> nodup_n l = true.
Proof.
  induction 1 as [|x l Hn Hl IH]; [reflexivity|]. cbn [nodup_n]. rewrite IH, (existsb_notin x l Hn). reflexivity.
Qed.
Lemma once_model c ops : NoDup (flat_map op_refs ops) -> c09_once (model_obs c ops) = true.
Proof.
  intro Hnd. unfold c09_once. apply nodup_n_true.
  assert (Heq : cbcalls_of (List.concat (map fst (model_obs c ops))) = cbcalls_of (history_effects c cli_init ops)).
  { unfold model_obs, history_effects. induction (snd (run c cli_init ops)) as [|[s1 e] l IH]; [reflexivity|].
    cbn [map List.concat fst snd]. unfold cbcalls_of in *. rewrite !flat_map_app. fold (cbcalls_of (filter observable e)) (cbcalls_of e).
    rewrite cbcalls_observable, IH. reflexivity. }
  rewrite Heq. exact (at_most_once_history c ops Hnd).
Qed.

(* the C09 checker (correspondence and every clause) accepts the model's own run of EVERY history in the domain *)
Theorem model_passes_checker c ops :
  dom_run c cli_init ops -> NoDup (flat_map op_refs ops) -> c09_code (model_case c ops) = 0%nat.
Proof.
  intros Hd Hnd. unfold c09_code. rewrite corr_model. unfold c09_where, model_case. cbn [k_cfg k_ops k_obs].
  change (model_obs c ops) with (obs_from c cli_init ops) at 1.
  change dump_init with (dump_of cli_init).
  rewrite (c09_first_model c ops cli_init 0 cb_inv_init Hd), (once_model c ops Hnd). reflexivity.
Qed.
