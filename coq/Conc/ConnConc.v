(* A CONNECT IN PROGRESS beside the terminating causes (asyncio server): extension of the
   interleaving model of ServerConc.v at granularity GAsync.  Definitions only; proofs in
   ConnProofs.v, statements in Props/C04Async.v, case checker in Check/C04ConnCheck.v.

   src/socketio/async_server.py::_handle_connect, for a served namespace, as blocks between two
   suspension points (the awaits that suspend are the sends and the application's connect
   handler; `await manager.connect()` / `await manager.disconnect()` do not suspend - checked by
   the harness on every run, as in ServerConc.v):

     KStart    sid = manager.connect(eio_sid, namespace)   [mgr_connect, the generated id is supplied]
               sid is None -> KSendDup
               always_connect -> KSendC, otherwise read self.environ[eio_sid] (KeyError if the
               transport's environ is gone) and stand in front of the connect handler (KHandler)
     KSendC    (always_connect) send CONNECT {sid}; read environ; -> KHandler
     KHandler  the connect handler runs and accepts or returns False
               accepted: always_connect -> done, otherwise -> KSendOk
               refused:  always_connect -> manager.pre_disconnect(sid, namespace) (KeyError if the
                         namespace table is gone: finally manager.disconnect, the exception
                         escapes) -> KSendErr;  otherwise -> KSendErr
     KSendOk   send CONNECT {sid}
     KSendErr  send CONNECT_ERROR (always_connect: DISCONNECT) with the refusal; finally
               manager.disconnect(sid, namespace)
     KSendDup  send CONNECT_ERROR "Unable to connect"

   The terminating tasks are those of ServerConc.v, unchanged, over the same manager and environ.
   A schedule indexes the terminating tasks first, then the connects. *)
From VT Require Export Conc.ServerConc.
Open Scope N_scope.

Inductive cpc := KStart | KSendC | KHandler | KSendOk | KSendErr | KSendDup | KDone.

Record conn := mkConn {
  k_eio : str;
  k_ns : str;
  k_sid : str;              (* the id eio.generate_id() hands out for this request *)
  k_accept : bool }.        (* the scripted connect handler: accept / return False *)

Record ctask := mkCT { ct_conn : conn; ct_pc : cpc }.
Definition set_cpc (t : ctask) (p : cpc) : ctask := mkCT (ct_conn t) p.

(* every access, as observed: those of ServerConc.v and three more *)
Inductive xlbl :=
| XL (l : lbl)
| XConnect (eio ns : str) (r : option str)      (* manager.connect returned r *)
| XEnvGet (eio : str) (present : bool)           (* self.environ[eio_sid] *)
| XCHandler (sid ns : str).                      (* the connect handler ran (was resumed) *)

(* encoded packets *)
Definition ns_prefix (ns : str) : str := match ns with [47] => [] | _ => ns ++ [44] end.
Definition ok_frame (ns sid : str) : str :=
  48 :: ns_prefix ns ++ s2l "{""sid"":""" ++ sid ++ s2l """}".
Definition rejected : str := s2l "{""message"":""Connection rejected by server""}".
Definition err_frame (ns : str) : str := 52 :: ns_prefix ns ++ rejected.
Definition dis_frame (ns : str) : str := 49 :: ns_prefix ns ++ rejected.
Definition dup_frame (ns : str) : str := 52 :: ns_prefix ns ++ s2l """Unable to connect""".

Definition env_get (eio : str) (env : list str) (t : ctask) : ctask * list xlbl :=
  if memb eio env then (set_cpc t KHandler, [XEnvGet eio true])
  else (set_cpc t KDone, [XEnvGet eio false; XL (LRaise KeyError)]).

(* one block of a connect task ([ac] = always_connect) *)
Definition cstep (ac : bool) (m : mgr) (env : list str) (t : ctask) : mgr * ctask * list xlbl :=
  let eio := k_eio (ct_conn t) in
  let ns := k_ns (ct_conn t) in
  let sid := k_sid (ct_conn t) in
  match ct_pc t with
  | KStart =>
      let '(m', r) := mgr_connect m eio ns sid in
      match r with
      | None => (m', set_cpc t KSendDup, [XConnect eio ns None])
      | Some _ =>
          if ac then (m', set_cpc t KSendC, [XConnect eio ns r])
          else let '(t', l) := env_get eio env t in (m', t', XConnect eio ns r :: l)
      end
  | KSendC =>
      let '(t', l) := env_get eio env t in (m, t', XL (LSend (Some eio) (ok_frame ns sid)) :: l)
  | KHandler =>
      if k_accept (ct_conn t) then (m, set_cpc t (if ac then KDone else KSendOk), [XCHandler sid ns])
      else if ac then
        let '(m', r) := pre_disconnect m sid ns in
        match r with
        | Ok _ => (m', set_cpc t KSendErr, [XCHandler sid ns; XL (LMark sid ns r)])
        | Err e => (mgr_disconnect m' sid ns, set_cpc t KDone,
                    [XCHandler sid ns; XL (LMark sid ns r); XL (LDisc sid ns); XL (LRaise e)])
        end
      else (m, set_cpc t KSendErr, [XCHandler sid ns])
  | KSendOk => (m, set_cpc t KDone, [XL (LSend (Some eio) (ok_frame ns sid))])
  | KSendErr =>
      (mgr_disconnect m sid ns, set_cpc t KDone,
       [XL (LSend (Some eio) ((if ac then dis_frame else err_frame) ns)); XL (LDisc sid ns)])
  | KSendDup => (m, set_cpc t KDone, [XL (LSend (Some eio) (dup_frame ns))])
  | KDone => (m, t, [])
  end.

(* ---- configurations and schedules ---- *)
Record xcfg := mkX {
  x_cfg : cfg;                 (* manager, environ, the terminating tasks and their ghost log *)
  x_conns : list ctask;
  x_log : list xlbl }.         (* ghost: every label of every task, in order *)

Definition set_mgr (c : cfg) (m : mgr) : cfg := mkCfg m (c_env c) (c_tasks c) (c_log c).

Definition xstep (ac : bool) (R : list str) (x : xcfg) (i : nat) : xcfg * list xlbl :=
  let c := x_cfg x in
  let n := List.length (c_tasks c) in
  if Nat.ltb i n then
    let '(c', l) := step GAsync R c i in
    (mkX c' (x_conns x) (x_log x ++ map XL l), map XL l)
  else
    match nth_error (x_conns x) (i - n) with
    | None => (x, [])
    | Some t =>
        let '(m', t', l) := cstep ac (c_mgr c) (c_env c) t in
        (mkX (set_mgr c m') (upd (x_conns x) (i - n) t') (x_log x ++ l), l)
    end.

Fixpoint xrun (ac : bool) (R : list str) (x : xcfg) (sched : list nat) : xcfg :=
  match sched with [] => x | i :: r => xrun ac R (fst (xstep ac R x i)) r end.
Fixpoint xtrace (ac : bool) (R : list str) (x : xcfg) (sched : list nat) : list (list xlbl) :=
  match sched with
  | [] => []
  | i :: r => let '(x', l) := xstep ac R x i in l :: xtrace ac R x' r
  end.

Definition xinit (m : mgr) (env : list str) (causes : list cause) (conns : list conn) : xcfg :=
  mkX (init GAsync m env causes) (map (fun k => mkCT k KStart) conns) [].

(* ---- observers ---- *)
Definition cdone (t : ctask) : bool := match ct_pc t with KDone => true | _ => false end.
Definition xall_done (x : xcfg) : bool := all_done (x_cfg x) && forallb cdone (x_conns x).

Definition is_chandler (sid ns : str) (x : xlbl) : bool :=
  match x with XCHandler s n => str_eqb s sid && str_eqb n ns | _ => false end.
(* how often the connect handler was run for the request that got [sid] on [ns] *)
Definition chcount (sid ns : str) (log : list xlbl) : nat := List.length (filter (is_chandler sid ns) log).

(* the labels of ServerConc.v among the observed ones *)
Definition proj (log : list xlbl) : list lbl :=
  flat_map (fun x => match x with XL l => [l] | _ => [] end) log.

(* "in progress": the connect stands in front of its (suspended) handler, or is past it *)
Definition in_progress (t : ctask) : bool :=
  match ct_pc t with KStart | KSendC => false | _ => true end.
