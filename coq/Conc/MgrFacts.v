(* What the interleaving proofs need to know about the manager model, stated through three
   observers: [mem] (membership, from ManagerProofs.v), [pcount] (how often a sid occurs in
   pending_disconnect[ns]) and the callback table.  Everything is derived from Manager.v by
   unfolding and from the well-formedness development of ManagerProofs.v. *)
From VT Require Export Manager.Manager Manager.ManagerProofs.
From Coq Require Import Lia.
Open Scope N_scope.

Lemma str_eqb_sym a b : str_eqb a b = str_eqb b a.
Proof.
  destruct (str_eqb a b) eqn:E.
  - apply str_eqb_eq in E. subst. symmetry. apply str_eqb_refl.
  - destruct (str_eqb b a) eqn:E'; [|reflexivity]. apply str_eqb_eq in E'. subst.
    rewrite str_eqb_refl in E. discriminate.
Qed.

(* ---- occurrences in pending_disconnect ---- *)
Fixpoint occ (l : list str) (x : str) : nat :=
  match l with [] => O | y :: r => ((if str_eqb y x then 1 else 0) + occ r x)%nat end.
Definition plist (m : mgr) (ns : str) : list str := agetd str_eqb [] (pending m) ns.
Definition pcount (m : mgr) (ns s : str) : nat := occ (plist m ns) s.

Lemma occ_app l x s : occ (l ++ [x]) s = (occ l s + (if str_eqb x s then 1 else 0))%nat.
Proof. induction l as [|y l IH]; cbn [app occ]; [lia|]. rewrite IH. lia. Qed.
Lemma occ_existsb l s : existsb (str_eqb s) l = (0 <? occ l s)%nat.
Proof.
  induction l as [|y l IH]; cbn [existsb occ]; [reflexivity|].
  rewrite (str_eqb_sym s y). destruct (str_eqb y s); cbn [orb]; [reflexivity|exact IH].
Qed.
Lemma occ_remove_first l x s :
  occ (remove_first l x) s = (occ l s - (if str_eqb x s then 1 else 0))%nat.
Proof.
  induction l as [|y l IH]; cbn [remove_first occ]; [reflexivity|].
  destruct (str_eqb y x) eqn:E.
  - apply str_eqb_eq in E. subst y. destruct (str_eqb x s); lia.
  - cbn [occ]. rewrite IH. destruct (str_eqb y s) eqn:E2; [|lia].
    destruct (str_eqb x s) eqn:E3; [|lia].
    apply str_eqb_eq in E2, E3. subst. rewrite str_eqb_refl in E. discriminate.
Qed.

Lemma is_pending_count m s ns : is_pending m s ns = (0 <? pcount m ns s)%nat.
Proof.
  unfold is_pending, pcount, plist, agetd.
  destruct (aget str_eqb (pending m) ns); [apply occ_existsb|reflexivity].
Qed.

Definition is_some {A} (o : option A) : bool := match o with Some _ => true | None => false end.

Lemma mem_room_of m ns r s :
  mem m ns r s = match room_of m ns r with Some b => bd_get b s | None => None end.
Proof. unfold mem. rewrite look_room_of. destruct (room_of m ns r); reflexivity. Qed.

Lemma is_connected_spec m s ns :
  is_connected m (Some s) ns = negb (0 <? pcount m ns s)%nat && is_some (mem m ns PNone s).
Proof.
  unfold is_connected. rewrite is_pending_count, mem_room_of.
  destruct (0 <? pcount m ns s)%nat; cbn [negb andb]; [reflexivity|].
  destruct (room_of m ns PNone) as [b|]; [|reflexivity]. destruct (bd_get b s); reflexivity.
Qed.
Lemma is_connected_None m ns : is_connected m None ns = false.
Proof. reflexivity. Qed.

(* ---- pre_disconnect ---- *)
Lemma pre_disconnect_fst m sid ns :
  let m' := fst (pre_disconnect m sid ns) in
  rooms m' = rooms m /\ callbacks m' = callbacks m /\
  forall ns' s', pcount m' ns' s' =
                 (pcount m ns' s' + (if str_eqb ns ns' && str_eqb sid s' then 1 else 0))%nat.
Proof.
  assert (E : fst (pre_disconnect m sid ns) =
              mkMgr (rooms m) (aset str_eqb (pending m) ns (plist m ns ++ [sid])) (callbacks m)).
  { unfold pre_disconnect, plist, agetd. destruct (room_of m ns PNone); reflexivity. }
  cbv zeta. rewrite E. cbn [rooms callbacks]. split; [reflexivity|]. split; [reflexivity|].
  intros ns' s'. unfold pcount, plist at 1. cbn [pending].
  rewrite (e_agetd_aset str_eqb str_eqb_eq).
  destruct (str_eqb ns ns') eqn:E1; cbn [andb].
  - apply str_eqb_eq in E1. subst ns'. rewrite occ_app. reflexivity.
  - fold (plist m ns'). lia.
Qed.
Lemma pre_disconnect_snd m sid ns :
  snd (pre_disconnect m sid ns) =
  match room_of m ns PNone with Some b => Ok (bd_get b sid) | None => Err KeyError end.
Proof. unfold pre_disconnect. destruct (room_of m ns PNone); reflexivity. Qed.
Lemma pre_disconnect_member m sid ns e :
  mem m ns PNone sid = Some e -> snd (pre_disconnect m sid ns) = Ok (Some e).
Proof.
  rewrite mem_room_of, pre_disconnect_snd. destruct (room_of m ns PNone); [|discriminate].
  intros ->. reflexivity.
Qed.

(* ---- mgr_disconnect ---- *)
Lemma member_ns_rooms m ns r s e : mem m ns r s = Some e -> ns_rooms m ns <> None.
Proof.
  rewrite mem_room_of. unfold room_of. destruct (ns_rooms m ns); [discriminate|discriminate].
Qed.

Lemma disc_release_pcount m sid ns :
  NoDup (map fst (pending m)) ->
  forall ns' s', pcount (disc_release m sid ns) ns' s' =
                 (pcount m ns' s' - (if str_eqb ns ns' && str_eqb sid s' then 1 else 0))%nat.
Proof.
  intros Hnd ns' s'. unfold disc_release. cbv zeta.
  assert (Hpend : forall c, is_pending (mkMgr (rooms m) (pending m) c) sid ns = is_pending m sid ns) by reflexivity.
  rewrite Hpend. cbn [pending].
  destruct (is_pending m sid ns) eqn:Ep.
  - unfold pcount, plist at 1. cbn [pending].
    assert (Hl : match aget str_eqb (pending m) ns with Some l => remove_first l sid | None => [] end
                 = remove_first (plist m ns) sid).
    { unfold plist, agetd. destruct (aget str_eqb (pending m) ns); reflexivity. }
    rewrite Hl.
    change (match remove_first (plist m ns) sid with
            | [] => adel str_eqb (pending m) ns
            | _ :: _ => aset str_eqb (pending m) ns (remove_first (plist m ns) sid) end)
      with (acol str_eqb (pending m) ns (remove_first (plist m ns) sid)).
    rewrite (e_agetd_acol str_eqb str_eqb_eq) by exact Hnd.
    destruct (str_eqb ns ns') eqn:E1; cbn [andb].
    + apply str_eqb_eq in E1. subst ns'. apply occ_remove_first.
    + fold (plist m ns'). lia.
  - unfold pcount, plist. cbn [pending].
    destruct (str_eqb ns ns' && str_eqb sid s') eqn:E; [|lia].
    apply andb_true_iff in E as [E1 E2]. apply str_eqb_eq in E1, E2. subst ns' s'.
    rewrite is_pending_count in Ep. unfold pcount, plist in Ep.
    destruct (occ (agetd str_eqb [] (pending m) ns) sid); [reflexivity|discriminate].
Qed.

Lemma mgr_disconnect_pcount m sid ns :
  Struct m -> ns_rooms m ns <> None ->
  forall ns' s', pcount (mgr_disconnect m sid ns) ns' s' =
                 (pcount m ns' s' - (if str_eqb ns ns' && str_eqb sid s' then 1 else 0))%nat.
Proof.
  intros HS Hns ns' s'. destruct (ns_rooms m ns) as [rm|] eqn:Ens; [|congruence]. clear Hns.
  assert (Hrm : rm = nsmap m ns) by (unfold nsmap, agetd; unfold ns_rooms in Ens; rewrite Ens; reflexivity).
  set (L := map (fun r => (sid, r)) (disc_names rm sid)).
  assert (HL : Forall (fun x => room_ok (snd x)) L).
  { apply Forall_forall. intros x Hx. apply in_map_iff in Hx as (r & <- & Hi). cbn [snd].
    pose proof (disc_names_ok rm sid) as Hok. rewrite Hrm in Hok at 1.
    specialize (Hok (struct_nsmap m ns HS)). rewrite Forall_forall in Hok. auto. }
  destruct (fold_leave_spec ns L m HS HL) as (_ & Hp1 & _ & _).
  assert (Hm1 : fold_left (fun m r => leave_room m sid ns r) (disc_names rm sid) m = leave_pairs ns L m).
  { unfold L, leave_pairs. rewrite fold_left_map'. reflexivity. }
  unfold mgr_disconnect. rewrite Ens. unfold disc_names in Hm1. rewrite Hm1.
  set (m1 := leave_pairs ns L m) in *. clearbody m1. unfold disc_release. cbv zeta.
  assert (Hpend : forall c, is_pending (mkMgr (rooms m1) (pending m1) c) sid ns = is_pending m sid ns).
  { intro c. unfold is_pending. cbn [pending]. rewrite Hp1. reflexivity. }
  rewrite Hpend. cbn [pending]. rewrite Hp1.
  assert (Hnd : NoDup (map fst (pending m))) by apply HS.
  destruct (is_pending m sid ns) eqn:Ep.
  - unfold pcount, plist at 1. cbn [pending].
    assert (Hl : match aget str_eqb (pending m) ns with Some l => remove_first l sid | None => [] end
                 = remove_first (plist m ns) sid).
    { unfold plist, agetd. destruct (aget str_eqb (pending m) ns); reflexivity. }
    rewrite Hl.
    change (match remove_first (plist m ns) sid with
            | [] => adel str_eqb (pending m) ns
            | _ :: _ => aset str_eqb (pending m) ns (remove_first (plist m ns) sid) end)
      with (acol str_eqb (pending m) ns (remove_first (plist m ns) sid)).
    rewrite (e_agetd_acol str_eqb str_eqb_eq) by exact Hnd.
    destruct (str_eqb ns ns') eqn:E1; cbn [andb].
    + apply str_eqb_eq in E1. subst ns'. apply occ_remove_first.
    + fold (plist m ns'). lia.
  - unfold pcount, plist. cbn [pending].
    destruct (str_eqb ns ns' && str_eqb sid s') eqn:E; [|lia].
    apply andb_true_iff in E as [E1 E2]. apply str_eqb_eq in E1, E2. subst ns' s'.
    rewrite is_pending_count in Ep. unfold pcount, plist in Ep.
    destruct (occ (agetd str_eqb [] (pending m) ns) sid); [reflexivity|discriminate].
Qed.

(* ---- sid_from_eio ---- *)
Lemma sid_from_eio_spec m eio ns sid :
  WF m -> (sid_from_eio m eio ns = Some sid <-> mem m ns PNone sid = Some eio).
Proof.
  intros [HS [_ H2]]. unfold sid_from_eio. rewrite mem_room_of.
  pose proof (struct_look m ns PNone HS) as Hb. rewrite look_room_of in Hb.
  destruct (room_of m ns PNone) as [b|] eqn:Er; [|split; discriminate].
  assert (Hmem : forall s e, mem m ns PNone s = Some e <-> In (s, e) b).
  { intros s e. rewrite mem_room_of, Er. apply bd_get_in. exact Hb. }
  split; intro H.
  - apply bd_inv_some in H. apply bd_get_in; assumption.
  - destruct (bd_inv b eio) as [s'|] eqn:Ei.
    + apply bd_inv_some in Ei. f_equal. apply (H2 ns s' sid eio).
      * apply Hmem. exact Ei.
      * apply Hmem. apply bd_get_in; assumption.
    + exfalso. apply (bd_inv_none b eio sid Ei). apply bd_get_in; assumption.
Qed.

Lemma member_namespace m ns s e : mem m ns PNone s = Some e -> In ns (get_namespaces m).
Proof.
  rewrite mem_room_of. unfold room_of, ns_rooms, get_namespaces.
  destruct (aget str_eqb (rooms m) ns) as [rm|] eqn:E; [|discriminate]. intros _.
  apply (e_aget_some_in str_eqb str_eqb_eq) in E. change ns with (fst (ns, rm)). apply in_map. exact E.
Qed.

(* ---- callbacks ---- *)
Lemma aget_adel_other {V} (l : list (str * V)) k k' :
  k <> k' -> aget str_eqb (adel str_eqb l k) k' = aget str_eqb l k'.
Proof.
  intro N. induction l as [|[k0 v0] r IH]; cbn [adel aget]; [reflexivity|].
  destruct (str_eqb k0 k) eqn:E; cbn [aget].
  - apply str_eqb_eq in E. subst k0. rewrite (str_neq k k' N). reflexivity.
  - rewrite IH. reflexivity.
Qed.
Lemma aget_adel_same {V} (l : list (str * V)) k :
  NoDup (map fst l) -> aget str_eqb (adel str_eqb l k) k = None.
Proof. intro H. rewrite (e_aget_adel str_eqb str_eqb_eq) by exact H. rewrite str_eqb_refl. reflexivity. Qed.
Lemma aget_adel_none {V} (l : list (str * V)) k k' :
  aget str_eqb l k' = None -> aget str_eqb (adel str_eqb l k) k' = None.
Proof.
  induction l as [|[k0 v0] r IH]; cbn [adel aget]; [reflexivity|].
  destruct (str_eqb k0 k') eqn:E'; [discriminate|]. intro H.
  destruct (str_eqb k0 k); [exact H|]. cbn [aget]. rewrite E'. auto.
Qed.
