(* The property of C04 (asyncio interleavings) and C20 as a statement about a configuration
   reached from [init m0 env0 causes]; definitions only.  Everything is expressed with the
   observers of the model (hcount, raised, in_room, is_pending, is_connected, the callback
   table, the environ keys); [room_ok] (ManagerProofs.v) is the domain of room names - None,
   non-empty strings, non-zero integers - on which Python's == is Leibniz equality. *)
From VT Require Export Conc.ServerConc Manager.ManagerProofs.
Local Open Scope nat_scope.

(* the initial state: well-formed manager, nobody in the middle of a disconnect *)
Definition quiescent_start (m0 : mgr) : Prop :=
  WF m0 /\ NoDup (map fst (callbacks m0)) /\ pending m0 = [].

Record outcome (R : list str) (m0 : mgr) (env0 : list str) (causes : list cause) (c : cfg) : Prop := mkOutcome {
  (* at any moment: the disconnect handler of a client has run at most once ... *)
  o_once : forall s ns, hcount s ns (c_log c) <= 1;
  (* ... and only for clients that were connected at the start *)
  o_accepted : forall s ns, 1 <= hcount s ns (c_log c) -> in_room m0 ns PNone s = true;
  (* no exception escapes any task (unless a scripted handler raises) *)
  o_no_raise : R = [] -> raised (c_log c) = false;
  (* a client whose handler has not run keeps every room membership; a session id none of
     whose handlers has run keeps its callbacks *)
  o_untouched : forall s ns r, hcount s ns (c_log c) = 0 -> room_ok r ->
                  in_room (c_mgr c) ns r s = in_room m0 ns r s;
  o_cb_untouched : forall s, (forall ns, hcount s ns (c_log c) = 0) ->
                  aget str_eqb (callbacks (c_mgr c)) s = aget str_eqb (callbacks m0) s;
  (* when every task has finished: exactly once for every connected client some task was
     aimed at, and no trace of it is left *)
  o_final : all_done c = true ->
            forall k s ns, In k causes -> targets m0 k s ns -> in_room m0 ns PNone s = true ->
              hcount s ns (c_log c) = 1 /\
              (forall r, room_ok r -> in_room (c_mgr c) ns r s = false) /\
              is_connected (c_mgr c) (Some s) ns = false /\
              aget str_eqb (callbacks (c_mgr c)) s = None;
  o_no_pending : all_done c = true -> forall s ns, is_pending (c_mgr c) s ns = false;
  o_env_lost : all_done c = true -> forall e r, In (CLoss e r) causes -> ~ In e (c_env c);
  (* transports nobody lost keep their environ *)
  o_env_kept : forall e, In e env0 -> (forall r, ~ In (CLoss e r) causes) -> In e (c_env c) }.

(* prefixes of a schedule *)
Definition prefix_cfg (g : gran) (R : list str) (c : cfg) (sched : list nat) (k : nat) : cfg :=
  run g R c (firstn k sched).
