(* Small-step interleaving model of the TERMINATING paths of src/socketio/server.py
   (threads) and src/socketio/async_server.py (asyncio) over the shared client manager of
   Manager.v.  Definitions only; proofs are in MgrFacts.v / ConcProofs.v, the property
   statements in Props/C20.v and Props/C04Async.v.

   Shared state = what these paths read and write: the manager (rooms, pending_disconnect,
   callbacks) and the keys of server.environ; plus a ghost log of every access performed.

   A task is one terminating cause in progress:
     CApi sid ns      the application calls server.disconnect(sid, namespace=ns)
     CClient eio ns   a DISCONNECT packet for namespace ns arrives on transport eio
                      (_handle_eio_message -> _handle_disconnect)
     CLoss eio r      engine.io reports the loss of transport eio with reason r
                      (_handle_eio_disconnect: every namespace, then environ)
   ("disconnect of another namespace of the same transport" is CClient / CApi with that
   other namespace.)  Every task carries an explicit program counter; one micro step = one
   access to the shared state:

     PInit    list(self.manager.get_namespaces())                         [reads rooms]
     PLookup  self.manager.sid_from_eio_sid(eio_sid, namespace)           [reads rooms]
     PCheck   self.manager.is_connected / can_disconnect(sid, namespace)  [reads pending, rooms]
     PMark    self.manager.pre_disconnect(sid, namespace)     [appends to pending; reads rooms,
                                                               KeyError if the namespace is gone]
     PSend    self.eio.send(eio_sid, DISCONNECT packet)                   [API path only]
     PCall    the application's disconnect handler
     PFin     finally: self.manager.disconnect(sid, namespace) = basic_disconnect
     PEnv     if eio_sid in self.environ: del self.environ[eio_sid]; if exc: raise exc
   and, in the threaded server as it is now (locked code, granularity GLocked):
     PPre     disconnect(): self.manager.can_disconnect(sid, namespace), outside the lock
     PAcq     with self._disconnect_lock:  (then PCheck and PMark while holding it; the lock is
              released after pre_disconnect, or by the `return` of a failed check)

   Thread granularity: a scheduling choice moves one task by one micro step (GLocked: unless the
   task stands at PAcq while another task is at PCheck / PMark, i.e. holds the lock; GThread:
   the code before the lock was added, which goes from PLookup / the start straight to PCheck).
   Asyncio
   granularity: the same micro steps, grouped into the blocks between two suspension points;
   the only awaits that suspend are the send and the handler invocation (`await
   manager.can_disconnect()` / `await manager.disconnect()` are coroutines without an inner
   await: checked assumption of the harness), so a choice runs the task until it stands in
   front of PSend, PCall or is finished. *)
From VT Require Export Manager.Manager.
Open Scope N_scope.

(* GLocked = thread granularity of the threaded server as it is now: Server.disconnect() and
   Server._handle_disconnect() perform is_connected + pre_disconnect while holding
   self._disconnect_lock (a task that wants the lock cannot move while another task holds it;
   every access, inside or outside the lock, is still its own step, and disconnect() first
   makes one unlocked check through can_disconnect).
   GThread = thread granularity of the code BEFORE that repair (no lock): kept as the
   documentation of what the repair removed, and as the model of a tree from which the lock
   has been taken out again.  GAsync = the asyncio server (unchanged by the repair). *)
Inductive gran := GThread | GAsync | GLocked.
Definition locked_code (g : gran) : bool := match g with GLocked => true | _ => false end.

Inductive cause :=
| CApi (sid ns : str)
| CClient (eio ns : str)
| CLoss (eio reason : str).

Inductive pc :=
| PInit
| PLookup
| PCheck (osid : option str)
| PMark (sid : str)
| PSend (sid : str) (eio : option str)
| PCall (sid : str)
| PFin (sid : str) (hexc : option exn)
| PEnv
| PDone
| PPre (sid : str)             (* locked code, disconnect(): the unlocked can_disconnect check *)
| PAcq (osid : option str).    (* locked code: with self._disconnect_lock (acquire) *)

Record task := mkTask {
  t_cause : cause;
  t_pc : pc;
  t_ns : str;               (* namespace being processed *)
  t_todo : list str;        (* CLoss: namespaces of the snapshot still to visit *)
  t_exc : option exn }.     (* CLoss: first exception caught in the namespace loop *)

(* every access, as observed *)
Inductive lbl :=
| LNamespaces (l : list str)
| LLookup (eio ns : str) (r : option str)
| LCheck (sid : option str) (ns : str) (r : bool)
| LMark (sid ns : str) (r : Res (option str))
| LSend (eio : option str) (frame : str)
| LHandler (sid ns reason : str)
| LDisc (sid ns : str)
| LEnv (eio : str) (present : bool)
| LRaise (e : exn)                 (* the exception escapes the task *)
| LAcquire                         (* the task has taken self._disconnect_lock *)
| LOther (n : nat).                (* an access the model does not know; never produced *)

Record cfg := mkCfg {
  c_mgr : mgr;
  c_env : list str;                (* keys of server.environ *)
  c_tasks : list task;
  c_log : list lbl }.              (* ghost: every label so far, in order *)

Definition r_client : str := s2l "client disconnect".
Definition r_server : str := s2l "server disconnect".
Definition reason_of (k : cause) : str :=
  match k with
  | CApi _ _ => r_server
  | CClient _ _ => r_client
  | CLoss _ r => match r with [] => r_client | _ => r end      (* reason or CLIENT_DISCONNECT *)
  end.
Definition eio_of (k : cause) : option str :=
  match k with CApi _ _ => None | CClient e _ | CLoss e _ => Some e end.

(* the encoded DISCONNECT packet: "1" for the default namespace, "1/ns," otherwise *)
Definition disc_frame (ns : str) : str :=
  match ns with [47] => [49] | _ => 49 :: ns ++ [44] end.

Definition set_pc (t : task) (p : pc) : task := mkTask (t_cause t) p (t_ns t) (t_todo t) (t_exc t).

Definition spawn (lk : bool) (k : cause) : task :=
  match k with
  | CApi sid ns => mkTask k (if lk then PPre sid else PCheck (Some sid)) ns [] None
  | CClient _ ns => mkTask k PLookup ns [] None
  | CLoss _ _ => mkTask k PInit [] [] None
  end.

(* the processing of the current namespace is over, possibly with an exception: the API and
   the packet path let it escape; the transport-loss loop remembers the first one and goes on *)
Definition end_ns (t : task) (e : option exn) : task * list lbl :=
  match t_cause t with
  | CLoss _ _ =>
      let exc := match t_exc t with Some x => Some x | None => e end in
      match t_todo t with
      | n :: r => (mkTask (t_cause t) PLookup n r exc, [])
      | [] => (mkTask (t_cause t) PEnv (t_ns t) [] exc, [])
      end
  | _ => (set_pc t PDone, match e with Some x => [LRaise x] | None => [] end)
  end.

Definition memb (x : str) (l : list str) : bool := existsb (str_eqb x) l.
Definition remove_key (x : str) (l : list str) : list str := filter (fun y => negb (str_eqb y x)) l.

(* the scripted application: disconnect handlers of the sids in R raise RuntimeError *)
Definition handler_outcome (R : list str) (sid : str) : option exn :=
  if memb sid R then Some RuntimeError else None.

(* ---- one access ---- *)
Definition micro (lk : bool) (R : list str) (m : mgr) (env : list str) (t : task)
  : mgr * list str * task * list lbl :=
  let ns := t_ns t in
  match t_pc t with
  | PInit =>
      let nsl := get_namespaces m in
      let '(t', l) := end_ns (mkTask (t_cause t) PInit ns nsl (t_exc t)) None in
      (m, env, t', LNamespaces nsl :: l)
  | PLookup =>
      match eio_of (t_cause t) with
      | Some eio => let r := sid_from_eio m eio ns in
                    (m, env, set_pc t (if lk then PAcq r else PCheck r), [LLookup eio ns r])
      | None => (m, env, set_pc t PDone, [])                 (* not reachable from spawn *)
      end
  | PCheck osid =>
      match osid with
      | Some sid =>
          if is_connected m osid ns then (m, env, set_pc t (PMark sid), [LCheck osid ns true])
          else let '(t', l) := end_ns t None in (m, env, t', LCheck osid ns false :: l)
      | None => let '(t', l) := end_ns t None in (m, env, t', LCheck None ns (is_connected m None ns) :: l)
      end
  | PMark sid =>
      let '(m', r) := pre_disconnect m sid ns in
      match r with
      | Ok eio =>
          (m', env, set_pc t (match t_cause t with CApi _ _ => PSend sid eio | _ => PCall sid end),
           [LMark sid ns r])
      | Err e => let '(t', l) := end_ns t (Some e) in (m', env, t', LMark sid ns r :: l)
      end
  | PSend sid eio => (m, env, set_pc t (PCall sid), [LSend eio (disc_frame ns)])
  | PCall sid =>
      (m, env, set_pc t (PFin sid (handler_outcome R sid)), [LHandler sid ns (reason_of (t_cause t))])
  | PFin sid e =>
      let '(t', l) := end_ns t e in (mgr_disconnect m sid ns, env, t', LDisc sid ns :: l)
  | PEnv =>
      match eio_of (t_cause t) with
      | Some eio => (m, remove_key eio env, set_pc t PDone,
                     LEnv eio (memb eio env) :: match t_exc t with Some e => [LRaise e] | None => [] end)
      | None => (m, env, set_pc t PDone, [])                 (* not reachable from spawn *)
      end
  | PDone => (m, env, t, [])
  | PPre sid =>
      if is_connected m (Some sid) ns then (m, env, set_pc t (PAcq (Some sid)), [LCheck (Some sid) ns true])
      else let '(t', l) := end_ns t None in (m, env, t', LCheck (Some sid) ns false :: l)
  | PAcq osid => (m, env, set_pc t (PCheck osid), [LAcquire])
  end.

(* ---- asyncio: run on until the task stands in front of a suspension point ---- *)
Definition suspended (p : pc) : bool :=
  match p with PSend _ _ | PCall _ | PDone => true | _ => false end.

(* an upper bound on the accesses left before the next suspension point *)
Definition measure (m : mgr) (t : task) : nat :=
  match t_pc t with
  | PInit => 4 * List.length (get_namespaces m) + 7
  | PLookup | PPre _ => 4 * List.length (t_todo t) + 6
  | PAcq _ => 4 * List.length (t_todo t) + 5
  | PCheck _ => 4 * List.length (t_todo t) + 4
  | PMark _ => 4 * List.length (t_todo t) + 3
  | PFin _ _ => 4 * List.length (t_todo t) + 3
  | PEnv => 1
  | _ => 0
  end%nat.

Fixpoint cont (lk : bool) (R : list str) (fuel : nat) (m : mgr) (env : list str) (t : task)
  : mgr * list str * task * list lbl :=
  match fuel with
  | O => (m, env, t, [])
  | S f =>
      if suspended (t_pc t) then (m, env, t, []) else
      let '(m1, env1, t1, l1) := micro lk R m env t in
      let '(m2, env2, t2, l2) := cont lk R f m1 env1 t1 in
      (m2, env2, t2, l1 ++ l2)
  end.

Definition block (lk : bool) (R : list str) (m : mgr) (env : list str) (t : task)
  : mgr * list str * task * list lbl :=
  let '(m1, env1, t1, l1) := micro lk R m env t in
  let '(m2, env2, t2, l2) := cont lk R (measure m1 t1) m1 env1 t1 in
  (m2, env2, t2, l1 ++ l2).

Definition move (g : gran) :=
  match g with GThread => micro false | GAsync => block false | GLocked => micro true end.

(* ---- configurations and schedules ---- *)
Fixpoint upd {A} (l : list A) (i : nat) (x : A) : list A :=
  match l, i with
  | [], _ => []
  | _ :: r, O => x :: r
  | y :: r, S j => y :: upd r j x
  end.

(* the critical section of self._disconnect_lock: the lock is held from the acquire to the end
   of pre_disconnect (or to the `return` after a failed check) *)
Definition in_cs (t : task) : bool := match t_pc t with PCheck _ | PMark _ => true | _ => false end.
Definition at_acq (t : task) : bool := match t_pc t with PAcq _ => true | _ => false end.
Fixpoint other_in_cs (l : list task) (i : nat) : bool :=
  match l, i with
  | [], _ => false
  | _ :: r, O => existsb in_cs r
  | t :: r, S j => in_cs t || other_in_cs r j
  end.

(* a schedule is a list of task indices; a finished or non-existent task is a no-op, and so is
   (locked code) a task that wants the lock while another task holds it *)
Definition step (g : gran) (R : list str) (c : cfg) (i : nat) : cfg * list lbl :=
  match nth_error (c_tasks c) i with
  | None => (c, [])
  | Some t =>
      if locked_code g && at_acq t && other_in_cs (c_tasks c) i then (c, []) else
      let '(m, env, t', l) := move g R (c_mgr c) (c_env c) t in
      (mkCfg m env (upd (c_tasks c) i t') (c_log c ++ l), l)
  end.

Fixpoint run (g : gran) (R : list str) (c : cfg) (sched : list nat) : cfg :=
  match sched with [] => c | i :: r => run g R (fst (step g R c i)) r end.
Fixpoint trace (g : gran) (R : list str) (c : cfg) (sched : list nat) : list (list lbl) :=
  match sched with
  | [] => []
  | i :: r => let '(c', l) := step g R c i in l :: trace g R c' r
  end.

Definition init (g : gran) (m : mgr) (env : list str) (causes : list cause) : cfg :=
  mkCfg m env (map (spawn (locked_code g)) causes) [].
Definition run_sched (g : gran) (R : list str) (causes : list cause) (sched : list nat)
           (m : mgr) (env : list str) : cfg :=
  run g R (init g m env causes) sched.

(* ---- observers ---- *)
Definition done (t : task) : bool := match t_pc t with PDone => true | _ => false end.
Definition all_done (c : cfg) : bool := forallb done (c_tasks c).

(* member of room [room] of namespace [ns] *)
Definition in_room (m : mgr) (ns : str) (room : pv) (sid : str) : bool :=
  match room_of m ns room with
  | Some b => match bd_get b sid with Some _ => true | None => false end
  | None => false
  end.

Definition is_handler (sid ns : str) (x : lbl) : bool :=
  match x with LHandler s n _ => str_eqb s sid && str_eqb n ns | _ => false end.
(* how often the disconnect handler was invoked for (sid, ns) *)
Definition hcount (sid ns : str) (log : list lbl) : nat := List.length (filter (is_handler sid ns) log).
Definition is_raise (x : lbl) : bool := match x with LRaise _ => true | _ => false end.
Definition raised (log : list lbl) : bool := existsb is_raise log.

(* what a task is aimed at, judged in the state [m] *)
Definition targets (m : mgr) (k : cause) (sid ns : str) : Prop :=
  match k with
  | CApi s n => s = sid /\ n = ns
  | CClient e n => n = ns /\ sid_from_eio m e ns = Some sid
  | CLoss e _ => sid_from_eio m e ns = Some sid
  end.

(* the check-then-mark window of (sid, ns) is open in task t: is_connected has answered
   True, pre_disconnect has not run yet *)
Definition in_window (sid ns : str) (t : task) : bool :=
  match t_pc t with PMark s => str_eqb s sid && str_eqb (t_ns t) ns | _ => false end.
Definition window_of (t : task) : option (str * str) :=
  match t_pc t with PMark s => Some (s, t_ns t) | _ => None end.
Definition same_window (a b : option (str * str)) : bool :=
  match a, b with
  | Some (s1, n1), Some (s2, n2) => str_eqb s1 s2 && str_eqb n1 n2
  | _, _ => false
  end.
(* two tasks have observed is_connected = True for the same (sid, ns) and neither has marked it *)
Fixpoint double_window_l (l : list task) : bool :=
  match l with
  | [] => false
  | t :: r => existsb (fun u => same_window (window_of t) (window_of u)) r || double_window_l r
  end.
Definition double_window (c : cfg) : bool := double_window_l (c_tasks c).

(* the schedule never lets a second task answer its check for (sid, ns) while the window of
   another task for the same (sid, ns) is open *)
Fixpoint no_double_check (g : gran) (R : list str) (c : cfg) (sched : list nat) : Prop :=
  match sched with
  | [] => double_window c = false
  | i :: r => double_window c = false /\ no_double_check g R (fst (step g R c i)) r
  end.

(* a task is in flight: started and not finished *)
Definition in_flight (t : task) : bool :=
  match t_pc t with
  | PDone => false
  | p => negb (match p, t_pc (spawn false (t_cause t)) with
               | PInit, PInit | PLookup, PLookup => true
               | PCheck a, PCheck b => opt_eqb str_eqb a b
               | _, _ => false end)
  end.
Fixpoint others_idle (l : list task) (i : nat) : bool :=
  match l, i with
  | [], _ => true
  | _ :: r, O => forallb (fun t => negb (in_flight t)) r
  | t :: r, S j => negb (in_flight t) && others_idle r j
  end.
(* tasks run one after the other: a task is only moved while no other task is in flight *)
Fixpoint sequential (g : gran) (R : list str) (c : cfg) (sched : list nat) : Prop :=
  match sched with
  | [] => True
  | i :: r => others_idle (c_tasks c) i = true /\ sequential g R (fst (step g R c i)) r
  end.
