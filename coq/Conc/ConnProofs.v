(* Proofs about the connect-in-progress extension (ConnConc.v).

   1. Reduction ([xrun_cfg]): a connect task that stands in front of an ACCEPTING handler (or is
      past its handler / was refused as a duplicate) never touches the manager or the environ
      again, so the manager / environ / terminating tasks / their log of the combined run are
      EXACTLY those of the terminating tasks alone (ServerConc.run at GAsync) on the same
      schedule - the choices that name the connect are no-ops there.
   2. Hence ([connect_in_progress_accept]) the whole [outcome] of ConcSpec.v (C04_once_async)
      holds for every schedule of any number of terminating causes beside a CONNECT in progress
      whose handler accepts - judged from the state m1 in which the new session is registered:
      the established sessions AND the new one get their disconnect handler exactly once if a
      cause is aimed at them, are untouched otherwise, nothing is left behind, nothing raises.
   3. The connect handler runs at most once per request, whatever it answers
      ([connect_handler_at_most_once]).
   4. The REFUSING connect (section 4 at the end): its tail does touch the manager (pre_disconnect
      with always_connect, manager.disconnect in the finally), so there is no reduction to the
      run without it; instead the counting invariant of ConcProofs.v is re-established over
      abstract counts ([SafeA]) with the equalities restricted to the session ids other than the
      refused one and two-sided bounds on pending_disconnect for every id, and lifted through
      the blocks of both kinds of task ([connect_in_progress_refuse_partial]). *)
From Coq Require Import Lia.
From VT Require Import Conc.MgrFacts Conc.ConnConc Conc.ConcProofs.
Local Open Scope nat_scope.

(* the remaining blocks of the task do not access the shared state *)
Definition passive (t : ctask) : bool :=
  match ct_pc t with
  | KHandler => k_accept (ct_conn t)
  | KSendOk | KSendDup | KDone => true
  | _ => false
  end.

Lemma cstep_passive ac m env t :
  passive t = true ->
  fst (fst (cstep ac m env t)) = m /\ passive (snd (fst (cstep ac m env t))) = true.
Proof.
  unfold passive, cstep. destruct t as [k p]. cbn [ct_pc ct_conn].
  destruct p; try discriminate; intro H.
  - rewrite H. cbn. split; [reflexivity|]. destruct ac; reflexivity.
  - cbn. split; reflexivity.
  - cbn. split; reflexivity.
  - cbn. split; reflexivity.
Qed.

Lemma forallb_upd {A} (f : A -> bool) l i x :
  forallb f l = true -> f x = true -> forallb f (upd l i x) = true.
Proof.
  revert i. induction l as [|y l IH]; intros i Hl Hx; [destruct i; reflexivity|].
  cbn in Hl. apply andb_true_iff in Hl as [Hy Hl].
  destruct i; cbn; [rewrite Hx, Hl; reflexivity|rewrite Hy, (IH i Hl Hx); reflexivity].
Qed.

Lemma nth_error_forallb {A} (f : A -> bool) l i x :
  forallb f l = true -> nth_error l i = Some x -> f x = true.
Proof.
  intros Hl Hn. apply nth_error_In in Hn. rewrite forallb_forall in Hl. exact (Hl _ Hn).
Qed.

Lemma set_mgr_same c : set_mgr c (c_mgr c) = c.
Proof. destruct c; reflexivity. Qed.

Lemma step_beyond g R c i : List.length (c_tasks c) <= i -> step g R c i = (c, []).
Proof.
  intro H. unfold step. apply nth_error_None in H. rewrite H. reflexivity.
Qed.

Lemma xstep_cfg ac R x i :
  forallb passive (x_conns x) = true ->
  x_cfg (fst (xstep ac R x i)) = fst (step GAsync R (x_cfg x) i) /\
  forallb passive (x_conns (fst (xstep ac R x i))) = true.
Proof.
  intro HP. unfold xstep.
  destruct (Nat.ltb i (List.length (c_tasks (x_cfg x)))) eqn:Elt.
  - destruct (step GAsync R (x_cfg x) i) as [c' l]. cbn. split; [reflexivity|exact HP].
  - apply Nat.ltb_ge in Elt. rewrite (step_beyond _ _ _ _ Elt). cbn [fst].
    destruct (nth_error (x_conns x) (i - List.length (c_tasks (x_cfg x)))) as [t|] eqn:En.
    + pose proof (nth_error_forallb _ _ _ _ HP En) as Ht.
      destruct (cstep_passive ac (c_mgr (x_cfg x)) (c_env (x_cfg x)) t Ht) as [Hm Hp].
      destruct (cstep ac (c_mgr (x_cfg x)) (c_env (x_cfg x)) t) as [[m' t'] l].
      cbn [fst snd] in Hm, Hp. subst m'. cbn [fst x_cfg x_conns].
      split; [apply set_mgr_same|apply forallb_upd; assumption].
    + cbn. split; [reflexivity|exact HP].
Qed.

(* 1. the reduction *)
Lemma xrun_cfg ac R sched : forall x,
  forallb passive (x_conns x) = true ->
  x_cfg (xrun ac R x sched) = run GAsync R (x_cfg x) sched.
Proof.
  induction sched as [|i r IH]; intros x HP; [reflexivity|].
  cbn [xrun run]. destruct (xstep_cfg ac R x i HP) as [Hc Hp].
  rewrite (IH _ Hp), Hc. reflexivity.
Qed.

(* the prefix that brings a connect to its handler: one block, two with always_connect *)
Definition to_handler (ac : bool) (n : nat) : list nat := if ac then [n; n] else [n].

Lemma init_tasks_length g m env causes : List.length (c_tasks (init g m env causes)) = List.length causes.
Proof. unfold init. cbn. apply map_length. Qed.

Lemma prefix_registers ac R m0 env0 causes k :
  memb (k_eio k) env0 = true -> k_accept k = true ->
  let x := xrun ac R (xinit m0 env0 causes [k]) (to_handler ac (List.length causes)) in
  x_cfg x = init GAsync (fst (mgr_connect m0 (k_eio k) (k_ns k) (k_sid k))) env0 causes /\
  forallb passive (x_conns x) = true.
Proof.
  intros Henv Hacc.
  assert (Hstep : forall x : xcfg, List.length (c_tasks (x_cfg x)) = List.length causes ->
            forall t, x_conns x = [t] ->
            xstep ac R x (List.length causes) =
            let '(m', t', l) := cstep ac (c_mgr (x_cfg x)) (c_env (x_cfg x)) t in
            (mkX (set_mgr (x_cfg x) m') [t'] (x_log x ++ l), l)).
  { intros x Hl t Ht. unfold xstep. rewrite Hl, Nat.ltb_irrefl, Nat.sub_diag, Ht. cbn [nth_error upd].
    reflexivity. }
  unfold to_handler, xinit.
  set (x0 := mkX (init GAsync m0 env0 causes) (map (fun k0 => mkCT k0 KStart) [k]) []).
  assert (H0 : xstep ac R x0 (List.length causes) =
               let '(m', t', l) := cstep ac m0 env0 (mkCT k KStart) in
               (mkX (set_mgr (init GAsync m0 env0 causes) m') [t'] ([] ++ l), l)).
  { apply (Hstep x0); [apply init_tasks_length|reflexivity]. }
  unfold cstep in H0. cbn [ct_pc ct_conn] in H0.
  destruct (mgr_connect m0 (k_eio k) (k_ns k) (k_sid k)) as [m1 r] eqn:Ec. cbn [fst].
  destruct r as [s|].
  - destruct ac.
    + cbn [xrun]. rewrite H0. cbn [fst].
      match goal with |- context [xstep true R ?x1 _] =>
        assert (H1 : xstep true R x1 (List.length causes) =
                     let '(m', t', l) := cstep true (c_mgr (x_cfg x1)) (c_env (x_cfg x1)) (set_cpc (mkCT k KStart) KSendC) in
                     (mkX (set_mgr (x_cfg x1) m') [t'] (x_log x1 ++ l), l))
          by (apply (Hstep x1); [apply init_tasks_length|reflexivity]) end.
      rewrite H1. unfold cstep, env_get. cbn [ct_pc ct_conn set_cpc x_cfg set_mgr c_env c_mgr init].
      rewrite Henv. cbn [fst x_cfg x_conns set_mgr set_cpc c_mgr c_env c_tasks c_log forallb passive ct_pc ct_conn].
      rewrite Hacc. split; reflexivity.
    + cbn [xrun]. rewrite H0. unfold env_get. rewrite Henv.
      cbn [fst x_cfg x_conns set_mgr set_cpc init c_mgr c_env c_tasks c_log forallb passive ct_pc ct_conn].
      rewrite Hacc. split; reflexivity.
  - (* duplicate: refused without a handler; the state is that of mgr_connect all the same *)
    destruct ac.
    + cbn [xrun]. rewrite H0. cbn [fst].
      match goal with |- context [xstep true R ?x1 _] =>
        assert (H1 : xstep true R x1 (List.length causes) =
                     let '(m', t', l) := cstep true (c_mgr (x_cfg x1)) (c_env (x_cfg x1)) (set_cpc (mkCT k KStart) KSendDup) in
                     (mkX (set_mgr (x_cfg x1) m') [t'] (x_log x1 ++ l), l))
          by (apply (Hstep x1); [apply init_tasks_length|reflexivity]) end.
      rewrite H1. unfold cstep.
      cbn [fst ct_pc ct_conn set_cpc x_cfg x_conns set_mgr c_env c_mgr c_tasks c_log init forallb passive].
      split; reflexivity.
    + cbn [xrun]. rewrite H0.
      cbn [fst x_cfg x_conns set_mgr set_cpc init c_mgr c_env c_tasks c_log forallb passive ct_pc ct_conn].
      split; reflexivity.
Qed.

Lemma xrun_app ac R s1 : forall x s2, xrun ac R x (s1 ++ s2) = xrun ac R (xrun ac R x s1) s2.
Proof. induction s1 as [|i r IH]; intros x s2; [reflexivity|]. cbn [app xrun]. apply IH. Qed.

Lemma quiescent_after_connect m0 eio ns sid :
  quiescent_start m0 -> fresh_sid m0 sid -> quiescent_start (fst (mgr_connect m0 eio ns sid)).
Proof.
  intros (HW & HN & HP) Hf. destruct (mgr_connect m0 eio ns sid) as [m1 r] eqn:E.
  destruct (mgr_connect_spec _ _ _ _ _ _ HW Hf E) as (HW1 & Hp1 & Hc1 & _). cbn [fst].
  split; [exact HW1|]. split; [rewrite Hc1; exact HN|rewrite Hp1; exact HP].
Qed.

(* 2. every schedule of the terminating causes beside a CONNECT in progress that will be accepted *)
Theorem connect_in_progress_accept :
  forall ac R m0 env0 causes k,
    quiescent_start m0 -> fresh_sid m0 (k_sid k) -> memb (k_eio k) env0 = true -> k_accept k = true ->
    forall sched,
      let m1 := fst (mgr_connect m0 (k_eio k) (k_ns k) (k_sid k)) in
      let x := xrun ac R (xinit m0 env0 causes [k]) (to_handler ac (List.length causes) ++ sched) in
      x_cfg x = run_sched GAsync R causes sched m1 env0 /\
      outcome R m1 env0 causes (x_cfg x).
Proof.
  intros ac R m0 env0 causes k HQ Hf Henv Hacc sched m1 x.
  destruct (prefix_registers ac R m0 env0 causes k Henv Hacc) as [Hc Hp].
  assert (E : x_cfg x = run_sched GAsync R causes sched m1 env0).
  { unfold x. rewrite xrun_app, (xrun_cfg _ _ _ _ Hp), Hc. reflexivity. }
  split; [exact E|]. rewrite E. apply once_async. apply quiescent_after_connect; assumption.
Qed.

(* 3. the connect handler at most once *)
Definition early (p : cpc) : bool := match p with KStart | KSendC | KHandler => true | _ => false end.

Lemma chcount_app s n a b : chcount s n (a ++ b) = chcount s n a + chcount s n b.
Proof. unfold chcount. rewrite filter_app, app_length. reflexivity. Qed.
Lemma chcount_XL s n l : chcount s n (map XL l) = 0.
Proof. unfold chcount. induction l as [|y l IH]; [reflexivity|exact IH]. Qed.

Lemma cstep_chcount ac m env t :
  let '(_, t', l) := cstep ac m env t in
  let s := k_sid (ct_conn t) in let n := k_ns (ct_conn t) in
  ct_conn t' = ct_conn t /\
  (early (ct_pc t) = false -> chcount s n l = 0 /\ early (ct_pc t') = false) /\
  (early (ct_pc t) = true -> (chcount s n l = 0 \/ (chcount s n l = 1 /\ early (ct_pc t') = false))).
Proof.
  assert (Hrefl : forall s n : str, chcount s n [XCHandler s n] = 1).
  { intros s n. unfold chcount. cbn. rewrite !str_eqb_refl. reflexivity. }
  destruct t as [k p]. unfold cstep. cbn [ct_pc ct_conn].
  destruct p; cbn [early].
  - destruct (mgr_connect m (k_eio k) (k_ns k) (k_sid k)) as [m' r]. destruct r as [s0|].
    + destruct ac.
      * cbn. split; [reflexivity|]. split; [discriminate|]. intros _. left. reflexivity.
      * unfold env_get. destruct (memb (k_eio k) env); cbn;
          (split; [reflexivity|]; split; [discriminate|]; intros _; left; reflexivity).
    + cbn. split; [reflexivity|]. split; [discriminate|]. intros _. left. reflexivity.
  - unfold env_get. destruct (memb (k_eio k) env); cbn;
      (split; [reflexivity|]; split; [discriminate|]; intros _; left; reflexivity).
  - destruct (k_accept k).
    + cbn [fst snd set_cpc ct_conn ct_pc]. split; [reflexivity|]. split; [discriminate|]. intros _. right.
      rewrite Hrefl. destruct ac; split; reflexivity.
    + destruct ac.
      * destruct (pre_disconnect m (k_sid k) (k_ns k)) as [m' r]. destruct r as [o|e];
          cbn [fst snd set_cpc ct_conn ct_pc]; (split; [reflexivity|]; split; [discriminate|]; intros _; right);
          (split; [|reflexivity]); unfold chcount; cbn; rewrite !str_eqb_refl; reflexivity.
      * cbn [fst snd set_cpc ct_conn ct_pc]. split; [reflexivity|]. split; [discriminate|]. intros _. right.
        rewrite Hrefl. split; reflexivity.
  - cbn. split; [reflexivity|]. split; [intros _; split; reflexivity|discriminate].
  - cbn. split; [reflexivity|]. split; [intros _; split; reflexivity|discriminate].
  - cbn. split; [reflexivity|]. split; [intros _; split; reflexivity|discriminate].
  - cbn. split; [reflexivity|]. split; [intros _; split; reflexivity|discriminate].
Qed.

(* invariant of a configuration with one connect task *)
Definition ch_inv (k : conn) (x : xcfg) : Prop :=
  exists p, x_conns x = [mkCT k p] /\
            chcount (k_sid k) (k_ns k) (x_log x) <= 1 /\
            (early p = true -> chcount (k_sid k) (k_ns k) (x_log x) = 0).

Lemma xstep_ch_inv ac R k x i : ch_inv k x -> ch_inv k (fst (xstep ac R x i)).
Proof.
  intros (p & Hc & Hle & He). unfold xstep.
  destruct (Nat.ltb i (List.length (c_tasks (x_cfg x)))).
  - destruct (step GAsync R (x_cfg x) i) as [c' l]. cbn [fst]. exists p. cbn [x_conns x_log].
    rewrite chcount_app, chcount_XL, Nat.add_0_r. repeat split; assumption.
  - rewrite Hc. destruct (i - List.length (c_tasks (x_cfg x))) as [|j].
    + cbn [nth_error].
      pose proof (cstep_chcount ac (c_mgr (x_cfg x)) (c_env (x_cfg x)) (mkCT k p)) as H.
      destruct (cstep ac (c_mgr (x_cfg x)) (c_env (x_cfg x)) (mkCT k p)) as [[m' t'] l].
      cbn [ct_conn ct_pc] in H. destruct H as (Hk & Hlate & Hearly).
      cbn [fst upd x_conns x_log]. destruct t' as [k' p']. cbn [ct_conn ct_pc] in *. subst k'.
      exists p'. cbn [x_conns x_log upd]. split; [reflexivity|]. rewrite chcount_app.
      destruct (early p) eqn:Ep.
      * specialize (He eq_refl). destruct (Hearly eq_refl) as [H0|[H1 Hl]].
        -- rewrite H0, He. split; [lia|]. intros _. reflexivity.
        -- rewrite H1, He, Hl. split; [lia|discriminate].
      * destruct (Hlate eq_refl) as [H0 Hl]. rewrite H0, Hl, Nat.add_0_r. split; [exact Hle|discriminate].
    + cbn [nth_error]. destruct j; cbn [nth_error fst]; exists p; repeat split; assumption.
Qed.

Theorem connect_handler_at_most_once :
  forall ac R m env causes k sched,
    chcount (k_sid k) (k_ns k) (x_log (xrun ac R (xinit m env causes [k]) sched)) <= 1.
Proof.
  intros ac R m env causes k sched.
  assert (H : ch_inv k (xrun ac R (xinit m env causes [k]) sched)).
  { assert (H0 : ch_inv k (xinit m env causes [k])).
    { exists KStart. split; [reflexivity|]. split; [cbn; lia|intros _; reflexivity]. }
    revert H0. generalize (xinit m env causes [k]).
    induction sched as [|i r IH]; intros x Hx; [exact Hx|].
    cbn [xrun]. apply IH. apply xstep_ch_inv. exact Hx. }
  destruct H as (p & _ & Hle & _). exact Hle.
Qed.

(* ---- the hypotheses are satisfiable, and the refused case really differs ---- *)
Example x_conn_start :
  let m0 := fst (mgr_connect (fst (mgr_connect mgr_init (s2l "e0") (s2l "/") (s2l "S0"))) (s2l "e1") (s2l "/") (s2l "S1")) in
  let k := mkConn (s2l "e0") (s2l "/c") (s2l "S2") true in
  let x := xrun false [] (xinit m0 [s2l "e0"; s2l "e1"] [CLoss (s2l "e0") (s2l "transport close")] [k])
                [1; 0; 1; 0; 0; 1; 0] in
  xall_done x = true /\ hcount (s2l "S0") (s2l "/") (c_log (x_cfg x)) = 1 /\
  hcount (s2l "S2") (s2l "/c") (c_log (x_cfg x)) = 1 /\ chcount (s2l "S2") (s2l "/c") (x_log x) = 1 /\
  get_namespaces (c_mgr (x_cfg x)) = [s2l "/"].
Proof. vm_compute. repeat split; reflexivity. Qed.

(* ================================================================== *)
(* 4. the REFUSING connect                                             *)
(* ================================================================== *)

(* ---- manager level: what manager.disconnect / pre_disconnect of one sid change ---- *)
Lemma disc_pcount m sid ns :
  WF m -> forall ns' s', pcount (mgr_disconnect m sid ns) ns' s' =
                         pcount m ns' s' - (if str_eqb ns ns' && str_eqb sid s' then 1 else 0).
Proof.
  intros HW ns' s'. destruct (ns_rooms m ns) eqn:E.
  - apply mgr_disconnect_pcount; [apply HW|congruence].
  - destruct (mgr_disconnect_spec m sid ns HW) as (_ & _ & _ & Hn). rewrite (Hn E).
    apply disc_release_pcount. apply HW.
Qed.
Lemma disc_callbacks m sid ns :
  WF m -> callbacks (mgr_disconnect m sid ns) = adel str_eqb (callbacks m) sid.
Proof.
  intros HW. destruct (mgr_disconnect_spec m sid ns HW) as (_ & _ & Hs & Hn).
  destruct (ns_rooms m ns) eqn:E.
  - apply Hs. congruence.
  - rewrite (Hn eq_refl). apply disc_release_callbacks.
Qed.

(* manager.disconnect(sid, ns) is invisible to every other session id: memberships (hence
   is_connected, the reverse lookup of a well-formed manager), pending marks and callbacks *)
Lemma refusal_frame_mgr m sid ns :
  WF m ->
  let m' := mgr_disconnect m sid ns in
  WF m' /\
  forall s', s' <> sid ->
    (forall ns' r, room_ok r -> mem m' ns' r s' = mem m ns' r s') /\
    (forall ns', mb m' ns' s' = mb m ns' s') /\
    (forall ns', pcount m' ns' s' = pcount m ns' s') /\
    (forall ns', is_connected m' (Some s') ns' = is_connected m (Some s') ns') /\
    aget str_eqb (callbacks m') s' = aget str_eqb (callbacks m) s'.
Proof.
  intros HW m'. destruct (mgr_disconnect_spec m sid ns HW) as (HW' & Erem & _ & _). fold m' in HW', Erem.
  split; [exact HW'|]. intros s' Hne.
  assert (Hk : forall ns', str_eqb ns ns' && str_eqb sid s' = false).
  { intro ns'. rewrite (str_neq sid s') by congruence. apply andb_false_r. }
  assert (Hmem : forall ns' r, room_ok r -> mem m' ns' r s' = mem m ns' r s').
  { intros ns' r Hr. rewrite (Erem ns' r s' Hr), Hk. reflexivity. }
  assert (Hmb : forall ns', mb m' ns' s' = mb m ns' s').
  { intro ns'. unfold mb. rewrite (Hmem ns' PNone room_ok_None). reflexivity. }
  assert (Hpc : forall ns', pcount m' ns' s' = pcount m ns' s').
  { intro ns'. unfold m'. rewrite (disc_pcount m sid ns HW), Hk. lia. }
  split; [exact Hmem|]. split; [exact Hmb|]. split; [exact Hpc|]. split.
  - intro ns'. rewrite !is_connected_spec, Hpc, (Hmem ns' PNone room_ok_None). reflexivity.
  - unfold m'. rewrite (disc_callbacks m sid ns HW). apply aget_adel_other. congruence.
Qed.

(* ---- the invariant, over abstract counts ---- *)
Definition fn := str -> str -> nat.
Definition kk (sid ns0 s ns : str) : nat := b2n (str_eqb ns0 ns && str_eqb sid s).

Lemma kk_same sid ns0 : kk sid ns0 sid ns0 = 1.
Proof. unfold kk. rewrite !str_eqb_refl. reflexivity. Qed.
Lemma kk_other_sid sid ns0 s ns : s <> sid -> kk sid ns0 s ns = 0.
Proof. intro H. unfold kk. rewrite (str_neq sid s) by congruence. rewrite andb_false_r. reflexivity. Qed.
Lemma kk_cases sid ns0 s ns : (kk sid ns0 s ns = 1 /\ s = sid /\ ns = ns0) \/ kk sid ns0 s ns = 0.
Proof.
  unfold kk. destruct (str_eqb ns0 ns && str_eqb sid s) eqn:E; [left|right; reflexivity].
  apply andb_true_iff in E as [A B]. apply str_eqb_eq in A, B. subst. auto.
Qed.
Lemma kk_if sid ns0 s ns : (if str_eqb ns0 ns && str_eqb sid s then 1 else 0) = kk sid ns0 s ns.
Proof. reflexivity. Qed.

Section Abs.
  Variables (x nx : str) (m0 m1 : mgr).
  (* the registration of x is invisible to the other sids *)
  Hypothesis H01 : forall ns s, s <> x -> mb m1 ns s = mb m0 ns s.

  (* [pre] counts the tasks between their mark and the handler PLUS the connect task between
     its own mark (always_connect refusal) and its manager.disconnect; [xd]: the connect task
     has performed the manager.disconnect of its refusal *)
  Record SafeA (xd : bool) (m : mgr) (pre post win hc : fn) : Prop := mkSafeA {
    a_wf : WF m;
    a_cb : NoDup (map fst (callbacks m));
    a_le : forall s ns, pcount m ns s <= pre s ns + post s ns;
    a_ge : forall s ns, mb m ns s = 1 -> pre s ns + post s ns <= pcount m ns s;
    a_win : forall s ns, 1 <= win s ns -> mb m ns s = 1 /\ pcount m ns s = 0;
    a_hand : forall s ns, s <> x -> hc s ns + mb m ns s = mb m0 ns s + post s ns;
    a_own : forall s ns, s <> x -> pre s ns + post s ns <= mb m ns s;
    a_frame : forall ns r s, room_ok r ->
                mem m ns r s = if is_some (mem m ns PNone s) then mem m1 ns r s else None;
    a_cbs : forall s, s <> x -> (forall ns, mb m ns s = mb m0 ns s) ->
                aget str_eqb (callbacks m) s = aget str_eqb (callbacks m0) s;
    a_cbs_gone : forall s ns, s <> x -> mb m0 ns s = 1 -> mb m ns s = 0 ->
                aget str_eqb (callbacks m) s = None;
    a_xdone : xd = true -> mb m nx x = 0 /\ aget str_eqb (callbacks m) x = None;
    a_xother : forall ns, ns <> nx -> mb m ns x = 0 }.

  Lemma a_mono xd m pre post win hc : SafeA xd m pre post win hc -> forall ns s, mb m ns s <= mb m1 ns s.
  Proof.
    intros HS ns s. pose proof (a_frame _ _ _ _ _ _ HS ns PNone s room_ok_None) as H. unfold mb.
    destruct (mem m ns PNone s) as [e|] eqn:E; cbn [is_some b2n] in *; [|lia].
    rewrite <- H. cbn. lia.
  Qed.

  (* a step that does not touch the manager and moves no mark *)
  Lemma A_frame xd m pre post win hc pre' post' win' hc' :
    SafeA xd m pre post win hc ->
    (forall s ns, pre' s ns = pre s ns) -> (forall s ns, post' s ns = post s ns) ->
    (forall s ns, hc' s ns = hc s ns) ->
    (forall s ns, 1 <= win' s ns -> 1 <= win s ns \/ (mb m ns s = 1 /\ pcount m ns s = 0)) ->
    SafeA xd m pre' post' win' hc'.
  Proof.
    intros HS Hpre Hpost Hhc Hwin. constructor.
    - apply HS.
    - apply HS.
    - intros s ns. rewrite Hpre, Hpost. apply HS.
    - intros s ns. rewrite Hpre, Hpost. apply HS.
    - intros s ns H. destruct (Hwin s ns H) as [H1|H1]; [apply (a_win _ _ _ _ _ _ HS s ns H1)|exact H1].
    - intros s ns. rewrite Hhc, Hpost. apply HS.
    - intros s ns. rewrite Hpre, Hpost. apply HS.
    - apply HS.
    - apply HS.
    - apply HS.
    - apply HS.
    - apply HS.
  Qed.

  (* pre_disconnect(sid, ns0) by a task whose window is open, or by the connect task *)
  Lemma A_mark xd m pre post win hc sid ns0 pre' post' win' hc' :
    SafeA xd m pre post win hc ->
    (forall s ns, pre' s ns = pre s ns + kk sid ns0 s ns) -> (forall s ns, post' s ns = post s ns) ->
    (forall s ns, hc' s ns = hc s ns) ->
    (forall s ns, 1 <= win' s ns -> 1 <= win s ns /\ kk sid ns0 s ns = 0) ->
    (sid <> x -> 1 <= win sid ns0) ->
    SafeA xd (fst (pre_disconnect m sid ns0)) pre' post' win' hc'.
  Proof.
    intros HS Hpre Hpost Hhc Hwin Hown.
    destruct (pre_disconnect_fst m sid ns0) as (Er & Ec & Ep).
    set (m' := fst (pre_disconnect m sid ns0)) in *.
    assert (Em : mem m' = mem m) by (apply mem_ext; exact Er).
    assert (Emb : forall ns s, mb m' ns s = mb m ns s) by (intros; unfold mb; rewrite Em; reflexivity).
    assert (Ep' : forall ns s, pcount m' ns s = pcount m ns s + kk sid ns0 s ns).
    { intros ns s. rewrite Ep. reflexivity. }
    constructor.
    - apply pre_disconnect_wf. apply HS.
    - rewrite Ec. apply HS.
    - intros s ns. rewrite Ep', Hpre, Hpost. pose proof (a_le _ _ _ _ _ _ HS s ns). lia.
    - intros s ns H. rewrite Emb in H. rewrite Ep', Hpre, Hpost. pose proof (a_ge _ _ _ _ _ _ HS s ns H). lia.
    - intros s ns H. destruct (Hwin s ns H) as [H1 H2]. destruct (a_win _ _ _ _ _ _ HS s ns H1) as [A B].
      rewrite Emb, Ep'. split; [exact A|lia].
    - intros s ns Hs. rewrite Hhc, Hpost, Emb. apply HS. exact Hs.
    - intros s ns Hs. rewrite Hpre, Hpost, Emb. pose proof (a_own _ _ _ _ _ _ HS s ns Hs) as Ho.
      destruct (kk_cases sid ns0 s ns) as [(K & -> & ->)|K]; rewrite K; [|lia].
      destruct (a_win _ _ _ _ _ _ HS sid ns0 (Hown Hs)) as [A B].
      pose proof (a_ge _ _ _ _ _ _ HS sid ns0 A). lia.
    - intros ns r s Hr. rewrite Em. apply HS. exact Hr.
    - intros s Hs H. rewrite Ec. apply HS; [exact Hs|]. intros ns. rewrite <- Emb. apply H.
    - intros s ns Hs H1 H2. rewrite Ec. apply (a_cbs_gone _ _ _ _ _ _ HS s ns Hs H1). rewrite <- Emb. exact H2.
    - intro Hx. rewrite Emb, Ec. apply HS. exact Hx.
    - intros ns Hn. rewrite Emb. apply HS. exact Hn.
  Qed.

  (* the disconnect handler of (sid, ns0) is invoked by the task that marked it *)
  Lemma A_call xd m pre post win hc sid ns0 pre' post' win' hc' :
    SafeA xd m pre post win hc ->
    (forall s ns, pre' s ns + kk sid ns0 s ns = pre s ns) ->
    (forall s ns, post' s ns = post s ns + kk sid ns0 s ns) ->
    (forall s ns, hc' s ns = hc s ns + kk sid ns0 s ns) ->
    (forall s ns, win' s ns = win s ns) ->
    SafeA xd m pre' post' win' hc'.
  Proof.
    intros HS Hpre Hpost Hhc Hwin. constructor.
    - apply HS.
    - apply HS.
    - intros s ns. pose proof (Hpre s ns). pose proof (Hpost s ns). pose proof (a_le _ _ _ _ _ _ HS s ns). lia.
    - intros s ns H. pose proof (Hpre s ns). pose proof (Hpost s ns). pose proof (a_ge _ _ _ _ _ _ HS s ns H). lia.
    - intros s ns H. rewrite Hwin in H. apply (a_win _ _ _ _ _ _ HS s ns H).
    - intros s ns Hs. pose proof (Hhc s ns). pose proof (Hpost s ns). pose proof (a_hand _ _ _ _ _ _ HS s ns Hs). lia.
    - intros s ns Hs. pose proof (Hpre s ns). pose proof (Hpost s ns). pose proof (a_own _ _ _ _ _ _ HS s ns Hs). lia.
    - apply HS.
    - apply HS.
    - apply HS.
    - apply HS.
    - apply HS.
  Qed.

  (* manager.disconnect(sid, ns0): by the task that owns (sid, ns0), or by the connect task
     (then every window is closed: the connect's blocks run between the tasks' blocks) *)
  Lemma A_fin xd xd' m pre post win hc sid ns0 pre' post' win' hc' :
    SafeA xd m pre post win hc ->
    (forall s ns, pre' s ns <= pre s ns) -> (forall s ns, post' s ns <= post s ns) ->
    (forall s ns, pre s ns + post s ns <= pre' s ns + post' s ns + kk sid ns0 s ns) ->
    (sid <> x -> (forall s ns, post' s ns + kk sid ns0 s ns = post s ns) /\ 1 <= post sid ns0) ->
    (forall s ns, win' s ns = win s ns) -> (forall s ns, hc' s ns = hc s ns) ->
    (1 <= pre sid ns0 + post sid ns0 \/ forall s ns, win s ns = 0) ->
    (xd = true -> xd' = true) -> (xd' = true -> xd = true \/ (sid = x /\ ns0 = nx)) ->
    SafeA xd' (mgr_disconnect m sid ns0) pre' post' win' hc'.
  Proof.
    intros HS Hpre Hpost Hdec Hex Hwin Hhc Htok Hxd1 Hxd2.
    set (m' := mgr_disconnect m sid ns0).
    pose proof (a_wf _ _ _ _ _ _ HS) as HW.
    destruct (mgr_disconnect_spec m sid ns0 HW) as (HW' & Erem & _ & _). fold m' in HW', Erem.
    pose proof (disc_callbacks m sid ns0 HW) as Ecb. fold m' in Ecb.
    assert (Ep : forall ns s, pcount m' ns s = pcount m ns s - kk sid ns0 s ns).
    { intros ns s. unfold m'. rewrite (disc_pcount m sid ns0 HW). reflexivity. }
    assert (Emb : forall ns s, mb m' ns s = if str_eqb ns0 ns && str_eqb sid s then 0 else mb m ns s).
    { intros ns s. unfold mb. rewrite (Erem ns PNone s room_ok_None). destruct (str_eqb ns0 ns && str_eqb sid s); reflexivity. }
    assert (Emb1 : forall ns s, mb m' ns s = 1 -> kk sid ns0 s ns = 0 /\ mb m ns s = 1).
    { intros ns s. rewrite Emb. unfold kk. destruct (str_eqb ns0 ns && str_eqb sid s); cbn [b2n]; [discriminate|auto]. }
    assert (Emb0 : forall ns s, kk sid ns0 s ns = 0 -> mb m' ns s = mb m ns s).
    { intros ns s. rewrite Emb. unfold kk. destruct (str_eqb ns0 ns && str_eqb sid s); cbn [b2n]; [discriminate|auto]. }
    assert (EmbK : mb m' ns0 sid = 0) by (rewrite Emb, !str_eqb_refl; reflexivity).
    assert (Emble : forall ns s, mb m' ns s <= mb m ns s).
    { intros ns s. rewrite Emb. destruct (str_eqb ns0 ns && str_eqb sid s); lia. }
    constructor; fold m'.
    - exact HW'.
    - rewrite Ecb. apply nodup_adel. apply HS.
    - intros s ns. rewrite Ep. pose proof (a_le _ _ _ _ _ _ HS s ns). pose proof (Hdec s ns). lia.
    - intros s ns H. destruct (Emb1 ns s H) as [K H1]. rewrite Ep, K.
      pose proof (a_ge _ _ _ _ _ _ HS s ns H1). pose proof (Hpre s ns). pose proof (Hpost s ns). lia.
    - intros s ns H. rewrite Hwin in H. destruct (a_win _ _ _ _ _ _ HS s ns H) as [A B].
      destruct (kk_cases sid ns0 s ns) as [(K & -> & ->)|K].
      + exfalso. pose proof (a_ge _ _ _ _ _ _ HS sid ns0 A). destruct Htok as [T|T]; [lia|].
        rewrite T in H. lia.
      + rewrite (Emb0 ns s K), Ep, K. split; [exact A|lia].
    - intros s ns Hs. rewrite Hhc. pose proof (a_hand _ _ _ _ _ _ HS s ns Hs) as Hh.
      destruct (kk_cases sid ns0 s ns) as [(K & -> & ->)|K].
      + destruct (Hex Hs) as [Hp1 Hp2]. pose proof (Hp1 sid ns0) as Hp3. rewrite K in Hp3.
        pose proof (a_own _ _ _ _ _ _ HS sid ns0 Hs). pose proof (mb_le1 m ns0 sid). rewrite EmbK. lia.
      + rewrite (Emb0 ns s K). pose proof (Hpre s ns). pose proof (Hpost s ns). pose proof (Hdec s ns). lia.
    - intros s ns Hs. pose proof (a_own _ _ _ _ _ _ HS s ns Hs) as Ho.
      destruct (kk_cases sid ns0 s ns) as [(K & -> & ->)|K].
      + destruct (Hex Hs) as [Hp1 Hp2]. pose proof (Hp1 sid ns0) as Hp3. rewrite K in Hp3.
        pose proof (mb_le1 m ns0 sid). pose proof (Hpre sid ns0). rewrite EmbK. lia.
      + rewrite (Emb0 ns s K). pose proof (Hpre s ns). pose proof (Hpost s ns). lia.
    - intros ns r s Hr. rewrite (Erem ns r s Hr), (Erem ns PNone s room_ok_None).
      destruct (str_eqb ns0 ns && str_eqb sid s); [reflexivity|]. apply HS. exact Hr.
    - intros s Hs H. rewrite Ecb.
      destruct (str_eqb sid s) eqn:E.
      + apply str_eqb_eq in E. subst s. exfalso. specialize (H ns0). rewrite EmbK in H.
        destruct (Hex Hs) as [_ Hp2]. pose proof (a_own _ _ _ _ _ _ HS sid ns0 Hs).
        pose proof (a_mono _ _ _ _ _ _ HS ns0 sid). rewrite (H01 ns0 sid Hs) in H1. lia.
      + rewrite aget_adel_other by (intro; subst; rewrite str_eqb_refl in E; discriminate).
        apply HS; [exact Hs|]. intros ns. rewrite <- H. symmetry. apply Emb0. unfold kk. rewrite E, andb_false_r. reflexivity.
    - intros s ns Hs H1 H2. rewrite Ecb. destruct (str_eqb ns0 ns && str_eqb sid s) eqn:E.
      + apply andb_true_iff in E as [_ E]. apply str_eqb_eq in E. subst s. apply aget_adel_same. apply HS.
      + apply aget_adel_none. apply (a_cbs_gone _ _ _ _ _ _ HS s ns Hs H1). rewrite Emb, E in H2. exact H2.
    - intro Hx. destruct (Hxd2 Hx) as [Hx0|[-> ->]].
      + destruct (a_xdone _ _ _ _ _ _ HS Hx0) as [A B]. pose proof (Emble nx x). split; [lia|].
        rewrite Ecb. apply aget_adel_none. exact B.
      + split; [exact EmbK|]. rewrite Ecb. apply aget_adel_same. apply HS.
    - intros ns Hn. pose proof (a_xother _ _ _ _ _ _ HS ns Hn). pose proof (Emble ns x). lia.
  Qed.
End Abs.

(* ---- the invariant of a configuration, beside a connect task at pc [p] ---- *)
Section Conc.
  Variables (ac : bool) (R : list str) (x nx : str) (m0 m1 : mgr).
  Hypothesis H01 : forall ns s, s <> x -> mb m1 ns s = mb m0 ns s.

  (* the connect task holds a mark of its own between the pre_disconnect of the
     always_connect refusal and its manager.disconnect *)
  Definition br (p : cpc) : nat := if ac then match p with KSendErr => 1 | _ => 0 end else 0.
  Definition xdone (p : cpc) : bool := match p with KDone => true | _ => false end.
  Definition preF (p : cpc) (c : cfg) : fn := fun s ns => cnt (at_pre s ns) (c_tasks c) + br p * kk x nx s ns.
  Definition postF (c : cfg) : fn := fun s ns => cnt (at_post s ns) (c_tasks c).
  Definition winF (c : cfg) : fn := fun s ns => cnt (in_window s ns) (c_tasks c).
  Definition hcF (c : cfg) : fn := fun s ns => hcount s ns (c_log c).
  Definition SafeC (p : cpc) (c : cfg) : Prop :=
    SafeA x nx m0 m1 (xdone p) (c_mgr c) (preF p c) (postF c) (winF c) (hcF c).

  Lemma safeC_frame p c i t t' env' l :
    SafeC p c -> nth_error (c_tasks c) i = Some t ->
    (forall s ns, at_pre s ns t' = at_pre s ns t) ->
    (forall s ns, at_post s ns t' = at_post s ns t) ->
    (forall s ns, in_window s ns t' = true ->
                  in_window s ns t = true \/ (mb (c_mgr c) ns s = 1 /\ pcount (c_mgr c) ns s = 0)) ->
    (forall s ns x0, In x0 l -> is_handler s ns x0 = false) ->
    SafeC p (mkCfg (c_mgr c) env' (upd (c_tasks c) i t') (c_log c ++ l)).
  Proof.
    intros HS Hn Hpre Hpost Hwin Hl. unfold SafeC. cbn [c_mgr].
    apply (A_frame x nx m0 m1 _ _ _ _ _ _ _ _ _ _ HS); unfold preF, postF, winF, hcF; cbn [c_tasks c_log].
    - intros s ns. rewrite (cnt_upd_eq _ _ _ _ _ Hn (Hpre s ns)). reflexivity.
    - intros s ns. apply (cnt_upd_eq _ _ _ _ _ Hn (Hpost s ns)).
    - intros s ns. rewrite hcount_app, (hcount_none s ns l) by (intros; eapply Hl; eauto). lia.
    - intros s ns H. pose proof (cnt_upd (in_window s ns) _ _ _ t' Hn) as E.
      destruct (in_window s ns t') eqn:Ew.
      + destruct (Hwin s ns Ew) as [Ht|Hc]; [left|right; exact Hc].
        eapply cnt_in; [eapply nth_error_In; exact Hn|exact Ht].
      + left. cbn [b2n] in E. lia.
  Qed.

  Lemma safeC_idle p c i t t' env' l :
    SafeC p c -> nth_error (c_tasks c) i = Some t ->
    idle_pc (t_pc t) = true -> idle_pc (t_pc t') = true ->
    (forall s ns x0, In x0 l -> is_handler s ns x0 = false) ->
    SafeC p (mkCfg (c_mgr c) env' (upd (c_tasks c) i t') (c_log c ++ l)).
  Proof.
    intros HS Hn H1 H2 Hl. apply safeC_frame with (t := t); auto.
    - intros. rewrite !idle_pre by assumption. reflexivity.
    - intros. rewrite !idle_post by assumption. reflexivity.
    - intros s ns H. rewrite idle_win in H by assumption. discriminate.
  Qed.

  Lemma safeC_mark p c i t sid p' l :
    SafeC p c -> double_window c = false -> nth_error (c_tasks c) i = Some t ->
    t_pc t = PMark sid ->
    (p' = PCall sid \/ exists e, p' = PSend sid e) ->
    (forall s ns x0, In x0 l -> is_handler s ns x0 = false) ->
    exists e, mem (c_mgr c) (t_ns t) PNone sid = Some e /\
              snd (pre_disconnect (c_mgr c) sid (t_ns t)) = Ok (Some e) /\
    forall env', SafeC p (mkCfg (fst (pre_disconnect (c_mgr c) sid (t_ns t))) env'
                             (upd (c_tasks c) i (set_pc t p')) (c_log c ++ l)).
  Proof.
    intros HS Hndw Hn Hpc Hp' Hl. set (ns0 := t_ns t).
    assert (Hw : in_window sid ns0 t = true) by (unfold in_window; rewrite Hpc; apply eqb2; auto).
    assert (Hc1 : 1 <= cnt (in_window sid ns0) (c_tasks c)) by (eapply cnt_in; [eapply nth_error_In; exact Hn|exact Hw]).
    destruct (a_win _ _ _ _ _ _ _ _ _ _ HS sid ns0 Hc1) as [Hmb Hpc0].
    apply mb_one in Hmb as [e He]. exists e. split; [exact He|].
    split; [apply pre_disconnect_member; exact He|]. intro env'.
    set (t' := set_pc t p').
    assert (Hpre : forall s ns, at_pre s ns t' = str_eqb sid s && str_eqb ns0 ns).
    { intros s ns. unfold at_pre, t'. cbn. destruct Hp' as [->|[e' ->]]; reflexivity. }
    assert (Hpre0 : forall s ns, at_pre s ns t = false) by (intros; unfold at_pre; rewrite Hpc; reflexivity).
    assert (Hpost : forall s ns, at_post s ns t' = false).
    { intros s ns. unfold at_post, t'. cbn. destruct Hp' as [->|[e' ->]]; reflexivity. }
    assert (Hpost0 : forall s ns, at_post s ns t = false) by (intros; unfold at_post; rewrite Hpc; reflexivity).
    assert (Hwin' : forall s ns, in_window s ns t' = false).
    { intros s ns. unfold in_window, t'. cbn. destruct Hp' as [->|[e' ->]]; reflexivity. }
    assert (Hwin0 : forall s ns, in_window s ns t = str_eqb sid s && str_eqb ns0 ns).
    { intros s ns. unfold in_window. rewrite Hpc. reflexivity. }
    assert (B : forall s ns, b2n (str_eqb sid s && str_eqb ns0 ns) = kk sid ns0 s ns)
      by (intros; unfold kk; rewrite andb_comm; reflexivity).
    unfold SafeC. cbn [c_mgr].
    apply (A_mark x nx m0 m1 _ _ _ _ _ _ sid ns0 _ _ _ _ HS); unfold preF, postF, winF, hcF; cbn [c_tasks c_log].
    - intros s ns. pose proof (cnt_upd (at_pre s ns) _ _ _ t' Hn) as E. rewrite Hpre, Hpre0, B in E. cbn [b2n] in E. lia.
    - intros s ns. apply (cnt_upd_eq _ _ _ _ _ Hn). rewrite Hpost, Hpost0. reflexivity.
    - intros s ns. rewrite hcount_app, (hcount_none s ns l) by (intros; eapply Hl; eauto). lia.
    - intros s ns H. pose proof (cnt_upd (in_window s ns) _ _ _ t' Hn) as E. rewrite Hwin', Hwin0, B in E. cbn [b2n] in E.
      destruct (kk_cases sid ns0 s ns) as [(K & -> & ->)|K]; [|lia].
      pose proof (ndw_cnt _ Hndw sid ns0). lia.
    - intros _. exact Hc1.
  Qed.

  Lemma safeC_call p c i t sid e env' reason :
    SafeC p c -> nth_error (c_tasks c) i = Some t -> t_pc t = PCall sid ->
    SafeC p (mkCfg (c_mgr c) env' (upd (c_tasks c) i (set_pc t (PFin sid e)))
                (c_log c ++ [LHandler sid (t_ns t) reason])).
  Proof.
    intros HS Hn Hpc. set (ns0 := t_ns t). set (t' := set_pc t (PFin sid e)).
    assert (Hpre : forall s ns, at_pre s ns t' = false) by reflexivity.
    assert (Hpre0 : forall s ns, at_pre s ns t = str_eqb sid s && str_eqb ns0 ns)
      by (intros; unfold at_pre; rewrite Hpc; reflexivity).
    assert (Hpost : forall s ns, at_post s ns t' = str_eqb sid s && str_eqb ns0 ns) by reflexivity.
    assert (Hpost0 : forall s ns, at_post s ns t = false) by (intros; unfold at_post; rewrite Hpc; reflexivity).
    assert (Hwin : forall s ns, in_window s ns t' = in_window s ns t)
      by (intros; unfold in_window; rewrite Hpc; reflexivity).
    assert (B : forall s ns, b2n (str_eqb sid s && str_eqb ns0 ns) = kk sid ns0 s ns)
      by (intros; unfold kk; rewrite andb_comm; reflexivity).
    unfold SafeC. cbn [c_mgr].
    apply (A_call x nx m0 m1 _ _ _ _ _ _ sid ns0 _ _ _ _ HS); unfold preF, postF, winF, hcF; cbn [c_tasks c_log].
    - intros s ns. pose proof (cnt_upd (at_pre s ns) _ _ _ t' Hn) as E. rewrite Hpre, Hpre0, B in E. cbn [b2n] in E. lia.
    - intros s ns. pose proof (cnt_upd (at_post s ns) _ _ _ t' Hn) as E. rewrite Hpost, Hpost0, B in E. cbn [b2n] in E. lia.
    - intros s ns. rewrite hcount_app. f_equal. unfold hcount. cbn [filter is_handler]. rewrite <- B.
      destruct (str_eqb sid s && str_eqb ns0 ns); reflexivity.
    - intros s ns. apply (cnt_upd_eq _ _ _ _ _ Hn (Hwin s ns)).
  Qed.

  Lemma safeC_fin p c i t sid e t' env' l :
    SafeC p c -> nth_error (c_tasks c) i = Some t -> t_pc t = PFin sid e ->
    idle_pc (t_pc t') = true ->
    (forall s ns x0, In x0 l -> is_handler s ns x0 = false) ->
    SafeC p (mkCfg (mgr_disconnect (c_mgr c) sid (t_ns t)) env' (upd (c_tasks c) i t') (c_log c ++ l)).
  Proof.
    intros HS Hn Hpc Hidle Hl. set (ns0 := t_ns t).
    assert (Hpost0 : forall s ns, at_post s ns t = str_eqb sid s && str_eqb ns0 ns)
      by (intros; unfold at_post; rewrite Hpc; reflexivity).
    assert (Hpre0 : forall s ns, at_pre s ns t = false) by (intros; unfold at_pre; rewrite Hpc; reflexivity).
    assert (Hwin0 : forall s ns, in_window s ns t = false) by (intros; unfold in_window; rewrite Hpc; reflexivity).
    assert (B : forall s ns, b2n (str_eqb sid s && str_eqb ns0 ns) = kk sid ns0 s ns)
      by (intros; unfold kk; rewrite andb_comm; reflexivity).
    assert (Cpre : forall s ns, cnt (at_pre s ns) (upd (c_tasks c) i t') = cnt (at_pre s ns) (c_tasks c)).
    { intros s ns. apply (cnt_upd_eq _ _ _ _ _ Hn). rewrite Hpre0. apply idle_pre. exact Hidle. }
    assert (Cwin : forall s ns, cnt (in_window s ns) (upd (c_tasks c) i t') = cnt (in_window s ns) (c_tasks c)).
    { intros s ns. apply (cnt_upd_eq _ _ _ _ _ Hn). rewrite Hwin0. apply idle_win. exact Hidle. }
    assert (Cpost : forall s ns, cnt (at_post s ns) (upd (c_tasks c) i t') + kk sid ns0 s ns =
                                 cnt (at_post s ns) (c_tasks c)).
    { intros s ns. pose proof (cnt_upd (at_post s ns) _ _ _ t' Hn) as E. rewrite Hpost0, B in E.
      rewrite (idle_post s ns t' Hidle) in E. cbn [b2n] in E. lia. }
    assert (Hown : 1 <= cnt (at_post sid ns0) (c_tasks c)).
    { eapply cnt_in; [eapply nth_error_In; exact Hn|]. rewrite Hpost0. apply eqb2. auto. }
    unfold SafeC. cbn [c_mgr].
    apply (A_fin x nx m0 m1 H01 (xdone p) (xdone p) _ _ _ _ _ sid ns0 _ _ _ _ HS);
      unfold preF, postF, winF, hcF; cbn [c_tasks c_log].
    - intros s ns. rewrite Cpre. lia.
    - intros s ns. pose proof (Cpost s ns). lia.
    - intros s ns. rewrite Cpre. pose proof (Cpost s ns). lia.
    - intros _. split; [exact Cpost|exact Hown].
    - exact Cwin.
    - intros s ns. rewrite hcount_app, (hcount_none s ns l) by (intros; eapply Hl; eauto). lia.
    - left. lia.
    - auto.
    - auto.
  Qed.
  Lemma safeC_micro p c i t :
    SafeC p c -> double_window c = false -> nth_error (c_tasks c) i = Some t ->
    forall m env t' l, micro false R (c_mgr c) (c_env c) t = (m, env, t', l) ->
    SafeC p (mkCfg m env (upd (c_tasks c) i t') (c_log c ++ l)).
  Proof.
    intros HS Hndw Hn m env t' l. unfold micro.
    destruct (t_pc t) as [| |osid|sid|sid eio|sid|sid e| | |psid|aosid] eqn:Hpc.
    - (* PInit *)
      destruct (end_ns _ None) as [t1 l1] eqn:E. intro H; inversion H; subst; clear H.
      apply (safeC_idle p) with (t := t); auto.
      + rewrite Hpc; reflexivity.
      + change t' with (fst (t', l1)). rewrite <- E. apply end_ns_idle.
      + intros s ns x0 [<-|Hx]; [reflexivity|]. change l1 with (snd (t', l1)) in Hx. rewrite <- E in Hx.
        eapply end_ns_not_handler; eauto.
    - (* PLookup *)
      destruct (eio_of (t_cause t)) as [eio0|]; intro H; inversion H; subst; clear H.
      + apply (safeC_idle p) with (t := t); auto; try (rewrite Hpc; reflexivity).
        intros s ns x0 [<-|[]]; reflexivity.
      + apply (safeC_idle p) with (t := t); auto; [rewrite Hpc; reflexivity|intros ? ? ? []].
    - (* PCheck *)
      destruct osid as [sid|].
      + destruct (is_connected (c_mgr c) (Some sid) (t_ns t)) eqn:Ec.
        * intro H; inversion H; subst; clear H.
          apply (safeC_frame p) with (t := t); auto.
          -- intros; unfold at_pre; rewrite Hpc; reflexivity.
          -- intros; unfold at_post; rewrite Hpc; reflexivity.
          -- intros s ns Hw. right. unfold in_window in Hw. cbn in Hw. apply eqb2 in Hw as [<- <-].
             rewrite is_connected_spec in Ec. apply andb_true_iff in Ec as [E1 E2].
             split; [unfold mb; rewrite E2; reflexivity|].
             destruct (pcount (c_mgr c) (t_ns t) sid); [reflexivity|discriminate].
          -- intros s ns x0 [<-|[]]; reflexivity.
        * destruct (end_ns t None) as [t1 l1] eqn:E. intro H; inversion H; subst; clear H.
          apply (safeC_idle p) with (t := t); auto.
          -- rewrite Hpc; reflexivity.
          -- change t' with (fst (t', l1)). rewrite <- E. apply end_ns_idle.
          -- intros s ns x0 [<-|Hx]; [reflexivity|]. change l1 with (snd (t', l1)) in Hx. rewrite <- E in Hx.
             eapply end_ns_not_handler; eauto.
      + destruct (end_ns t None) as [t1 l1] eqn:E. intro H; inversion H; subst; clear H.
        apply (safeC_idle p) with (t := t); auto.
        * rewrite Hpc; reflexivity.
        * change t' with (fst (t', l1)). rewrite <- E. apply end_ns_idle.
        * intros s ns x0 [<-|Hx]; [reflexivity|]. change l1 with (snd (t', l1)) in Hx. rewrite <- E in Hx.
          eapply end_ns_not_handler; eauto.
    - (* PMark *)
      rewrite (surjective_pairing (pre_disconnect (c_mgr c) sid (t_ns t))).
      assert (Hp' : forall eio, (match t_cause t with CApi _ _ => PSend sid eio | _ => PCall sid end) = PCall sid \/
                                exists e0, (match t_cause t with CApi _ _ => PSend sid eio | _ => PCall sid end) = PSend sid e0).
      { intro eio0. destruct (t_cause t); [right; eauto|left; reflexivity|left; reflexivity]. }
      destruct (snd (pre_disconnect (c_mgr c) sid (t_ns t))) as [eio|ex] eqn:Es.
      + intro H; inversion H; subst; clear H.
        destruct (safeC_mark p c i t sid _ [LMark sid (t_ns t) (Ok eio)] HS Hndw Hn Hpc (Hp' eio)) as (e0 & _ & _ & Hsafe).
        * intros s ns x0 [<-|[]]; reflexivity.
        * apply Hsafe.
      + exfalso.
        destruct (safeC_mark p c i t sid (PCall sid) [] HS Hndw Hn Hpc (or_introl eq_refl)) as (e0 & _ & Hs & _).
        * intros ? ? ? [].
        * congruence.
    - (* PSend *)
      intro H; inversion H; subst; clear H.
      apply (safeC_frame p) with (t := t); auto.
      + intros; unfold at_pre; rewrite Hpc; reflexivity.
      + intros; unfold at_post; rewrite Hpc; reflexivity.
      + intros s ns Hw. discriminate Hw.
      + intros s ns x0 [<-|[]]; reflexivity.
    - (* PCall *)
      intro H; inversion H; subst; clear H. apply safeC_call; auto.
    - (* PFin *)
      destruct (end_ns t e) as [t1 l1] eqn:E. intro H; inversion H; subst; clear H.
      apply safeC_fin with (e := e); auto.
      + change t' with (fst (t', l1)). rewrite <- E. apply end_ns_idle.
      + intros s ns x0 [<-|Hx]; [reflexivity|]. change l1 with (snd (t', l1)) in Hx. rewrite <- E in Hx.
        eapply end_ns_not_handler; eauto.
    - (* PEnv *)
      destruct (eio_of (t_cause t)) as [eio0|]; intro H; inversion H; subst; clear H.
      + apply (safeC_idle p) with (t := t); auto; [rewrite Hpc; reflexivity|].
        intros s ns x0 [<-|Hx]; [reflexivity|]. destruct (t_exc t); [destruct Hx as [<-|[]]; reflexivity|destruct Hx].
      + apply (safeC_idle p) with (t := t); auto; [rewrite Hpc; reflexivity|intros ? ? ? []].
    - (* PDone *)
      intro H; inversion H; subst; clear H.
      apply (safeC_idle p) with (t := t'); auto; [rewrite Hpc; reflexivity|rewrite Hpc; reflexivity|intros ? ? ? []].
    - (* PPre *)
      destruct (is_connected (c_mgr c) (Some psid) (t_ns t)).
      + intro H; inversion H; subst; clear H.
        apply (safeC_idle p) with (t := t); auto; [rewrite Hpc; reflexivity|].
        intros s ns x0 [<-|[]]; reflexivity.
      + destruct (end_ns t None) as [t1 l1] eqn:E. intro H; inversion H; subst; clear H.
        apply (safeC_idle p) with (t := t); auto.
        * rewrite Hpc; reflexivity.
        * change t' with (fst (t', l1)). rewrite <- E. apply end_ns_idle.
        * intros s ns x0 [<-|Hx]; [reflexivity|]. change l1 with (snd (t', l1)) in Hx. rewrite <- E in Hx.
          eapply end_ns_not_handler; eauto.
    - (* PAcq *)
      intro H; inversion H; subst; clear H.
      apply (safeC_idle p) with (t := t); auto; [rewrite Hpc; reflexivity|].
      intros s ns x0 [<-|[]]; reflexivity.
  Qed.

  (* ---- the blocks of the refusing connect task (they run between the tasks' blocks) ---- *)
  Lemma quiet_win c : quiet c -> forall s ns, winF c s ns = 0.
  Proof.
    intros Hq s ns. unfold winF. apply cnt_zero. intros t Ht. specialize (Hq t Ht).
    unfold in_window. unfold window_of in Hq. destruct (t_pc t); try reflexivity. discriminate.
  Qed.

  Lemma safeC_cnoac c : ac = false -> SafeC KHandler c -> SafeC KSendErr c.
  Proof.
    intros Hac HS. unfold SafeC in *. cbn [xdone] in *.
    apply (A_frame x nx m0 m1 _ _ _ _ _ _ _ _ _ _ HS); auto.
    intros s ns. unfold preF, br. rewrite Hac. reflexivity.
  Qed.

  Lemma safeC_cmark c :
    ac = true -> SafeC KHandler c -> quiet c ->
    SafeC KSendErr (set_mgr c (fst (pre_disconnect (c_mgr c) x nx))).
  Proof.
    intros Hac HS Hq. unfold SafeC in *. cbn [xdone set_mgr c_mgr] in *.
    apply (A_mark x nx m0 m1 _ _ _ _ _ _ x nx _ _ _ _ HS).
    - intros s ns. unfold preF, br. rewrite Hac. cbn [set_mgr c_tasks]. lia.
    - reflexivity.
    - reflexivity.
    - intros s ns H. exfalso. change (winF (set_mgr c (fst (pre_disconnect (c_mgr c) x nx))) s ns) with (winF c s ns) in H.
      rewrite (quiet_win c Hq) in H. lia.
    - intro N. congruence.
  Qed.

  Lemma safeC_cdisc p c :
    (p = KHandler \/ p = KSendErr) -> SafeC p c -> quiet c ->
    SafeC KDone (set_mgr c (mgr_disconnect (c_mgr c) x nx)).
  Proof.
    intros Hp HS Hq. unfold SafeC in *. cbn [set_mgr c_mgr].
    assert (Hb : br p <= 1 /\ br KDone = 0).
    { unfold br. destruct ac; destruct Hp as [-> | ->]; lia. }
    destruct Hb as [Hb1 Hb0].
    apply (A_fin x nx m0 m1 H01 (xdone p) (xdone KDone) _ _ _ _ _ x nx _ _ _ _ HS).
    - intros s ns. unfold preF. rewrite Hb0. cbn [set_mgr c_tasks]. lia.
    - intros s ns. unfold postF. cbn [set_mgr c_tasks]. lia.
    - intros s ns. unfold preF, postF. rewrite Hb0. cbn [set_mgr c_tasks].
      assert (br p * kk x nx s ns <= kk x nx s ns) by (destruct (br p) as [|[|?]]; lia). lia.
    - intro N. congruence.
    - reflexivity.
    - reflexivity.
    - right. apply quiet_win. exact Hq.
    - destruct Hp as [-> | ->]; discriminate.
    - intros _. right. auto.
  Qed.
End Conc.


(* ---- the prefix that brings an admitted request to its handler, whatever it will answer ---- *)
Lemma prefix_to_handler ac R m0 env0 causes k :
  memb (k_eio k) env0 = true -> snd (mgr_connect m0 (k_eio k) (k_ns k) (k_sid k)) <> None ->
  let x := xrun ac R (xinit m0 env0 causes [k]) (to_handler ac (List.length causes)) in
  x_cfg x = init GAsync (fst (mgr_connect m0 (k_eio k) (k_ns k) (k_sid k))) env0 causes /\
  x_conns x = [mkCT k KHandler] /\ chcount (k_sid k) (k_ns k) (x_log x) = 0.
Proof.
  intros Henv Hadm.
  assert (Hstep : forall x : xcfg, List.length (c_tasks (x_cfg x)) = List.length causes ->
            forall t, x_conns x = [t] ->
            xstep ac R x (List.length causes) =
            let '(m', t', l) := cstep ac (c_mgr (x_cfg x)) (c_env (x_cfg x)) t in
            (mkX (set_mgr (x_cfg x) m') [t'] (x_log x ++ l), l)).
  { intros x Hl t Ht. unfold xstep. rewrite Hl, Nat.ltb_irrefl, Nat.sub_diag, Ht. cbn [nth_error upd].
    reflexivity. }
  unfold to_handler, xinit.
  set (x0 := mkX (init GAsync m0 env0 causes) (map (fun k0 => mkCT k0 KStart) [k]) []).
  assert (H0 : xstep ac R x0 (List.length causes) =
               let '(m', t', l) := cstep ac m0 env0 (mkCT k KStart) in
               (mkX (set_mgr (init GAsync m0 env0 causes) m') [t'] ([] ++ l), l)).
  { apply (Hstep x0); [apply init_tasks_length|reflexivity]. }
  unfold cstep in H0. cbn [ct_pc ct_conn] in H0.
  destruct (mgr_connect m0 (k_eio k) (k_ns k) (k_sid k)) as [mm r] eqn:Ec. cbn [fst snd] in *.
  destruct r as [s|]; [|congruence].
  destruct ac.
  - cbn [xrun]. rewrite H0. cbn [fst].
    match goal with |- context [xstep true R ?x1 _] =>
      assert (H1 : xstep true R x1 (List.length causes) =
                   let '(m', t', l) := cstep true (c_mgr (x_cfg x1)) (c_env (x_cfg x1)) (set_cpc (mkCT k KStart) KSendC) in
                   (mkX (set_mgr (x_cfg x1) m') [t'] (x_log x1 ++ l), l))
        by (apply (Hstep x1); [apply init_tasks_length|reflexivity]) end.
    rewrite H1. unfold cstep, env_get. cbn [ct_pc ct_conn set_cpc x_cfg set_mgr c_env c_mgr init].
    rewrite Henv. cbn [fst x_cfg x_conns x_log set_mgr set_cpc c_mgr c_env c_tasks c_log ct_pc ct_conn].
    split; [reflexivity|]. split; reflexivity.
  - cbn [xrun]. rewrite H0. unfold env_get. rewrite Henv.
    cbn [fst x_cfg x_conns x_log set_mgr set_cpc init c_mgr c_env c_tasks c_log ct_pc ct_conn].
    split; [reflexivity|]. split; reflexivity.
Qed.

Section RefuseRun.
  Variables (ac : bool) (R : list str) (m0 : mgr) (env0 : list str) (causes : list cause) (k : conn).
  Hypothesis Q0 : quiescent_start m0.
  Hypothesis F0 : fresh_sid m0 (k_sid k).
  Hypothesis Hrefuse : k_accept k = false.
  Hypothesis Hadm : snd (mgr_connect m0 (k_eio k) (k_ns k) (k_sid k)) <> None.
  Local Notation x := (k_sid k).
  Local Notation nx := (k_ns k).
  Local Notation m1 := (fst (mgr_connect m0 (k_eio k) (k_ns k) (k_sid k))).

  Lemma reg_facts :
    WF m1 /\ pending m1 = pending m0 /\ callbacks m1 = callbacks m0 /\
    (forall ns r s, room_ok r -> s <> x -> mem m1 ns r s = mem m0 ns r s) /\
    (forall ns, ns <> nx -> mem m1 ns PNone x = None).
  Proof.
    pose proof Hadm as Ha. destruct Q0 as (HW & _ & _).
    destruct (mgr_connect m0 (k_eio k) nx x) as [mm r] eqn:E. cbn [fst snd] in *.
    destruct (mgr_connect_spec _ _ _ _ _ _ HW F0 E) as (HW1 & Hp & Hc & Hr).
    destruct r as [s0|]; [|congruence]. destruct Hr as (_ & _ & Hm).
    split; [exact HW1|]. split; [exact Hp|]. split; [exact Hc|]. split.
    - intros ns r s Hr Hs. rewrite (Hm ns r s Hr). rewrite (str_neq x s) by congruence.
      rewrite andb_false_r. reflexivity.
    - intros ns Hn. rewrite (Hm ns PNone x room_ok_None). rewrite (str_neq nx ns) by congruence.
      cbn [andb]. apply F0.
  Qed.

  Lemma H01 : forall ns s, s <> x -> mb m1 ns s = mb m0 ns s.
  Proof.
    destruct reg_facts as (_ & _ & _ & Hm & _). intros ns s Hs. unfold mb.
    rewrite (Hm ns PNone s room_ok_None Hs). reflexivity.
  Qed.

  Lemma br_handler : br ac KHandler = 0.
  Proof. unfold br. destruct ac; reflexivity. Qed.

  Lemma safeC_init : SafeC ac x nx m0 m1 KHandler (init GAsync m1 env0 causes).
  Proof.
    destruct reg_facts as (HW1 & Hp & Hc & Hm & Hx). destruct Q0 as (HW & HN & HP).
    assert (Hidle : forall t, In t (c_tasks (init GAsync m1 env0 causes)) -> idle_pc (t_pc t) = true).
    { intros t Ht. cbn [init c_tasks] in Ht. apply in_map_iff in Ht as (k0 & <- & _). destruct k0; reflexivity. }
    assert (Cpre : forall s ns, cnt (at_pre s ns) (c_tasks (init GAsync m1 env0 causes)) = 0)
      by (intros; apply cnt_zero; intros t Ht; apply idle_pre, Hidle, Ht).
    assert (Cpost : forall s ns, cnt (at_post s ns) (c_tasks (init GAsync m1 env0 causes)) = 0)
      by (intros; apply cnt_zero; intros t Ht; apply idle_post, Hidle, Ht).
    assert (Cwin : forall s ns, cnt (in_window s ns) (c_tasks (init GAsync m1 env0 causes)) = 0)
      by (intros; apply cnt_zero; intros t Ht; apply idle_win, Hidle, Ht).
    assert (Hpc : forall ns s, pcount m1 ns s = 0) by (intros; unfold pcount, plist, agetd; rewrite Hp, HP; reflexivity).
    unfold SafeC. constructor; unfold preF, postF, winF, hcF; rewrite ?br_handler.
    - exact HW1.
    - cbn [init c_mgr]. rewrite Hc. exact HN.
    - intros s ns. cbn [init c_mgr]. rewrite Hpc. lia.
    - intros s ns _. rewrite Cpre, Cpost. lia.
    - intros s ns H. rewrite Cwin in H. lia.
    - intros s ns Hs. rewrite Cpost. cbn [init c_mgr c_log]. rewrite (H01 ns s Hs). cbn. lia.
    - intros s ns Hs. rewrite Cpre, Cpost. lia.
    - intros ns r s Hr. cbn [init c_mgr]. destruct (mem m1 ns PNone s) eqn:E; cbn [is_some]; [reflexivity|].
      destruct (mem m1 ns r s) eqn:E2; [|reflexivity].
      destruct HW1 as [_ [H3 _]]. rewrite (H3 ns r s _ Hr E2) in E. discriminate.
    - intros s Hs _. cbn [init c_mgr]. rewrite Hc. reflexivity.
    - intros s ns Hs H1 H2. exfalso. cbn [init c_mgr] in H2. rewrite (H01 ns s Hs) in H2. lia.
    - discriminate.
    - intros ns Hn. cbn [init c_mgr]. apply mb_zero. apply Hx. exact Hn.
  Qed.

  (* invariant of the combined configuration: one refusing connect task in front of / past its handler *)
  Definition XInv (xc : xcfg) : Prop :=
    exists p, x_conns xc = [mkCT k p] /\ (p = KHandler \/ p = KSendErr \/ p = KDone) /\
      SafeC ac x nx m0 m1 p (x_cfg xc) /\ quiet (x_cfg xc) /\
      chcount x nx (x_log xc) = match p with KHandler => 0 | _ => 1 end.

  Lemma chcount_refusal l : chcount x nx (XCHandler x nx :: map XL l) = 1.
  Proof.
    unfold chcount. cbn [filter is_chandler]. rewrite !str_eqb_refl. cbn [andb List.length]. f_equal.
    apply (chcount_XL x nx l).
  Qed.

  Lemma xstep_XInv xc i : XInv xc -> XInv (fst (xstep ac R xc i)).
  Proof.
    intros (p & Hc & Hp & HS & Hq & Hch). unfold xstep.
    destruct (Nat.ltb i (List.length (c_tasks (x_cfg xc)))).
    - destruct (lift_step_async R (SafeC ac x nx m0 m1 p) (safeC_micro ac R x nx m0 m1 H01 p) (x_cfg xc) i HS Hq) as [A B].
      destruct (step GAsync R (x_cfg xc) i) as [c' l] eqn:E. cbn [fst] in *. exists p. cbn [x_conns x_cfg x_log].
      split; [exact Hc|]. split; [exact Hp|]. split; [exact A|]. split; [exact B|].
      rewrite chcount_app, chcount_XL, Nat.add_0_r. exact Hch.
    - rewrite Hc. destruct (i - List.length (c_tasks (x_cfg xc))) as [|j].
      2:{ cbn [nth_error]. destruct j; cbn [nth_error fst]; exists p; auto. }
      cbn [nth_error]. unfold cstep. cbn [ct_pc ct_conn].
      destruct Hp as [-> | [-> | ->]].
      + (* in front of the handler: it refuses *)
        rewrite Hrefuse. destruct (Bool.bool_dec ac true) as [Eac|Eac]; [|apply Bool.not_true_is_false in Eac]; rewrite Eac.
        * pose proof (safeC_cmark ac x nx m0 m1 (x_cfg xc) Eac HS Hq) as HS1.
          destruct (pre_disconnect (c_mgr (x_cfg xc)) x nx) as [m' r] eqn:E. cbn [fst] in HS1.
          destruct r as [o|e]; cbn [fst x_conns x_cfg x_log upd set_cpc ct_conn].
          -- exists KSendErr. split; [reflexivity|]. split; [auto|]. split; [exact HS1|]. split; [exact Hq|].
             cbn [x_log]. rewrite chcount_app, Hch. apply (chcount_refusal [LMark x nx (Ok o)]).
          -- exists KDone. split; [reflexivity|]. split; [auto|].
             split; [|split; [exact Hq|]].
             ++ exact (safeC_cdisc ac x nx m0 m1 H01 KSendErr (set_mgr (x_cfg xc) m') (or_intror eq_refl) HS1 Hq).
             ++ cbn [x_log]. rewrite chcount_app, Hch. apply (chcount_refusal [LMark x nx (Err e); LDisc x nx; LRaise e]).
        * cbn [fst x_conns x_cfg x_log upd set_cpc ct_conn]. exists KSendErr.
          split; [reflexivity|]. split; [auto|]. rewrite set_mgr_same.
          split; [|split; [exact Hq|]].
          -- exact (safeC_cnoac ac x nx m0 m1 (x_cfg xc) Eac HS).
          -- cbn [x_log]. rewrite chcount_app, Hch. apply (chcount_refusal []).
      + (* the refusal is sent; finally: manager.disconnect *)
        cbn [fst x_conns x_cfg x_log upd set_cpc ct_conn]. exists KDone.
        split; [reflexivity|]. split; [auto|].
        split; [exact (safeC_cdisc ac x nx m0 m1 H01 KSendErr (x_cfg xc) (or_intror eq_refl) HS Hq)|].
        split; [exact Hq|]. cbn [x_log]. rewrite chcount_app, Hch. unfold chcount. reflexivity.
      + cbn [fst x_conns x_cfg x_log upd]. exists KDone. rewrite set_mgr_same, app_nil_r. auto 10.
  Qed.

  Lemma xrun_XInv sched : forall xc, XInv xc -> XInv (xrun ac R xc sched).
  Proof.
    induction sched as [|i r IH]; intros xc H; [exact H|]. cbn [xrun]. apply IH. apply xstep_XInv. exact H.
  Qed.
End RefuseRun.

(* 4. every schedule of the terminating causes beside a CONNECT in progress that will be REFUSED *)
Theorem connect_in_progress_refuse_partial :
  forall ac R m0 env0 causes k,
    quiescent_start m0 -> fresh_sid m0 (k_sid k) -> memb (k_eio k) env0 = true -> k_accept k = false ->
    snd (mgr_connect m0 (k_eio k) (k_ns k) (k_sid k)) <> None ->
    forall sched,
      let x := xrun ac R (xinit m0 env0 causes [k]) (to_handler ac (List.length causes) ++ sched) in
      let c := x_cfg x in
      (forall s ns, s <> k_sid k -> hcount s ns (c_log c) <= 1) /\
      (forall s ns, s <> k_sid k -> 1 <= hcount s ns (c_log c) -> in_room m0 ns PNone s = true) /\
      (forall s ns r, s <> k_sid k -> hcount s ns (c_log c) = 0 -> room_ok r ->
         in_room (c_mgr c) ns r s = in_room m0 ns r s) /\
      (forall s, s <> k_sid k -> (forall ns, hcount s ns (c_log c) = 0) ->
         aget str_eqb (callbacks (c_mgr c)) s = aget str_eqb (callbacks m0) s) /\
      (all_done c = true -> forall s ns, s <> k_sid k -> hcount s ns (c_log c) = 1 ->
         (forall r, room_ok r -> in_room (c_mgr c) ns r s = false) /\
         is_connected (c_mgr c) (Some s) ns = false /\
         aget str_eqb (callbacks (c_mgr c)) s = None) /\
      (forallb cdone (x_conns x) = true ->
         chcount (k_sid k) (k_ns k) (x_log x) = 1 /\
         (forall ns r, room_ok r -> in_room (c_mgr c) ns r (k_sid k) = false) /\
         (forall ns, is_connected (c_mgr c) (Some (k_sid k)) ns = false) /\
         aget str_eqb (callbacks (c_mgr c)) (k_sid k) = None) /\
      (xall_done x = true -> forall s ns, is_pending (c_mgr c) s ns = false).
Proof.
  intros ac R m0 env0 causes k HQ Hf Henv Href Hadm sched x c.
  destruct (prefix_to_handler ac R m0 env0 causes k Henv Hadm) as (Hc0 & Hk0 & Hch0).
  assert (HI : XInv ac m0 k x).
  { unfold x. rewrite xrun_app. apply (xrun_XInv ac R m0 k HQ Hf Href Hadm).
    exists KHandler. split; [exact Hk0|]. split; [auto|]. rewrite Hc0.
    split; [apply (safeC_init ac m0 env0 causes k HQ Hf Href Hadm)|]. split; [|exact Hch0].
    intros t Ht. cbn [init c_tasks] in Ht. apply in_map_iff in Ht as (k0 & <- & _). destruct k0; reflexivity. }
  destruct HI as (p & Hconns & Hp & HS & Hq & Hch). fold c in HS, Hq.
  pose proof (H01 m0 k HQ Hf Hadm) as H01'.
  destruct (reg_facts m0 k HQ Hf Hadm) as (_ & _ & _ & Hm & _).
  set (m1 := fst (mgr_connect m0 (k_eio k) (k_ns k) (k_sid k))) in *.
  unfold SafeC in HS.
  assert (Hbound : forall s ns, s <> k_sid k -> hcount s ns (c_log c) <= mb m0 ns s /\
                     (hcount s ns (c_log c) = 0 -> mb (c_mgr c) ns s = mb m0 ns s)).
  { intros s ns Hs. pose proof (a_hand _ _ _ _ _ _ _ _ _ _ HS s ns Hs) as A.
    pose proof (a_own _ _ _ _ _ _ _ _ _ _ HS s ns Hs) as B.
    pose proof (a_mono _ _ _ _ _ _ _ _ _ _ HS ns s) as C. rewrite (H01' ns s Hs) in C.
    unfold hcF, postF, preF in *. lia. }
  assert (Hnone : forall s ns r, room_ok r -> mb (c_mgr c) ns s = 0 -> in_room (c_mgr c) ns r s = false).
  { intros s ns r Hr H0. apply mb_zero in H0. rewrite in_room_mem, (a_frame _ _ _ _ _ _ _ _ _ _ HS ns r s Hr), H0. reflexivity. }
  destruct HQ as (HW & _ & _).
  split; [|split; [|split; [|split; [|split; [|split]]]]].
  - intros s ns Hs. destruct (Hbound s ns Hs) as [A _]. pose proof (mb_le1 m0 ns s). lia.
  - intros s ns Hs H. destruct (Hbound s ns Hs) as [A _]. pose proof (mb_le1 m0 ns s).
    assert (E : mb m0 ns s = 1) by lia. apply mb_one in E as [e E]. rewrite in_room_mem, E. reflexivity.
  - intros s ns r Hs H0 Hr. destruct (Hbound s ns Hs) as [_ B]. specialize (B H0).
    rewrite !in_room_mem, (a_frame _ _ _ _ _ _ _ _ _ _ HS ns r s Hr), (Hm ns r s Hr Hs).
    destruct (mem (c_mgr c) ns PNone s) as [e|] eqn:E; cbn [is_some]; [reflexivity|].
    assert (E0 : mem m0 ns PNone s = None) by (apply mb_zero; rewrite <- B; apply mb_zero; exact E).
    destruct (mem m0 ns r s) as [e|] eqn:E2; [|reflexivity].
    destruct HW as [_ [H3 _]]. rewrite (H3 ns r s e Hr E2) in E0. discriminate.
  - intros s Hs H0. apply (a_cbs _ _ _ _ _ _ _ _ _ _ HS s Hs). intros ns. apply (Hbound s ns Hs). apply H0.
  - intros Hd s ns Hs H1.
    assert (Hpost : postF c s ns = 0).
    { unfold postF. apply cnt_zero. intros t Ht. apply idle_post. rewrite (all_done_pc c Hd t Ht). reflexivity. }
    pose proof (a_hand _ _ _ _ _ _ _ _ _ _ HS s ns Hs) as A. unfold hcF in A. rewrite Hpost, H1 in A.
    pose proof (mb_le1 m0 ns s).
    assert (G : mb (c_mgr c) ns s = 0) by lia. assert (G0 : mb m0 ns s = 1) by lia.
    split; [intros r Hr; apply Hnone; assumption|].
    split; [rewrite is_connected_spec; apply mb_zero in G; rewrite G, andb_false_r; reflexivity|].
    apply (a_cbs_gone _ _ _ _ _ _ _ _ _ _ HS s ns Hs G0 G).
  - intros Hd. rewrite Hconns in Hd. cbn [forallb cdone ct_pc] in Hd.
    assert (Ep : p = KDone) by (destruct Hp as [-> | [-> | ->]]; [discriminate Hd|discriminate Hd|reflexivity]).
    subst p. split; [exact Hch|].
    destruct (a_xdone _ _ _ _ _ _ _ _ _ _ HS eq_refl) as [A B].
    assert (G : forall ns, mb (c_mgr c) ns (k_sid k) = 0).
    { intro ns. destruct (list_eq_dec N.eq_dec ns (k_ns k)) as [->|N]; [exact A|apply (a_xother _ _ _ _ _ _ _ _ _ _ HS ns N)]. }
    split; [intros ns r Hr; apply Hnone; [exact Hr|apply G]|].
    split; [|exact B]. intro ns. rewrite is_connected_spec. pose proof (G ns) as G1. apply mb_zero in G1.
    rewrite G1, andb_false_r. reflexivity.
  - intros Hd s ns. unfold xall_done in Hd. apply andb_true_iff in Hd as [Hd1 Hd2]. fold c in Hd1.
    rewrite Hconns in Hd2. cbn [forallb cdone ct_pc] in Hd2.
    assert (Ep : p = KDone) by (destruct Hp as [-> | [-> | ->]]; [discriminate Hd2|discriminate Hd2|reflexivity]).
    subst p. rewrite is_pending_count.
    pose proof (a_le _ _ _ _ _ _ _ _ _ _ HS s ns) as A. unfold preF, postF in A.
    rewrite !cnt_zero in A.
    + assert (E : br ac KDone = 0) by (unfold br; destruct ac; reflexivity). rewrite E in A.
      destruct (pcount (c_mgr c) ns s); [reflexivity|lia].
    + intros t Ht. apply idle_post. rewrite (all_done_pc c Hd1 t Ht). reflexivity.
    + intros t Ht. apply idle_pre. rewrite (all_done_pc c Hd1 t Ht). reflexivity.
Qed.


(* ---- the hypotheses of the refusing case are satisfiable; a non-trivial run ---- *)
Example x_refuse_start :
  let k := mkConn x_e0 (s2l "/c") (x_S "S9") false in
  quiescent_start x_full /\ fresh_sid x_full (k_sid k) /\ memb (k_eio k) [x_e0; x_e1] = true /\
  k_accept k = false /\ snd (mgr_connect x_full (k_eio k) (k_ns k) (k_sid k)) <> None /\
  (* always_connect: the transport is lost while the handler is suspended; the refusal then finds
     its namespace gone (KeyError in pre_disconnect), and still nothing of S9 is left *)
  let x := xrun true [] (xinit x_full [x_e0; x_e1] [CLoss x_e0 (s2l "transport close")] [k])
                (to_handler true 1 ++ [0; 0; 0; 0; 0; 0; 1; 1; 0]) in
  xall_done x = true /\ chcount (x_S "S9") (s2l "/c") (x_log x) = 1 /\
  hcount (x_S "S0") x_sl (c_log (x_cfg x)) = 1 /\ hcount (x_S "S9") (s2l "/c") (c_log (x_cfg x)) <= 1 /\
  is_connected (c_mgr (x_cfg x)) (Some (x_S "S9")) (s2l "/c") = false.
Proof.
  cbv zeta. split; [exact x_full_start|]. split.
  { split; [discriminate|]. intro ns. unfold mem, look, nsmap, agetd.
    set (rs := rooms x_full). vm_compute in rs. subst rs. cbn [aget].
    repeat (destruct (str_eqb _ ns)); vm_compute; reflexivity. }
  split; [vm_compute; reflexivity|]. split; [reflexivity|]. split; [vm_compute; discriminate|].
  vm_compute. repeat split; try reflexivity; lia.
Qed.
