(* Proofs about the connect-in-progress extension (ConnConc.v).

   1. Reduction ([xrun_cfg]): a connect task that stands in front of an ACCEPTING handler (or is
      past its handler / was refused as a duplicate) never touches the manager or the environ
      again, so the manager / environ / terminating tasks / their log of the combined run are
      EXACTLY those of the terminating tasks alone (ServerConc.run at GAsync) on the same
      schedule - the choices that name the connect are no-ops there.
   2. Hence ([connect_in_progress_accept]) the whole [outcome] of ConcSpec.v (C04_once_async)
      holds for every schedule of any number of terminating causes beside a CONNECT in progress
      whose handler accepts - judged from the state m1 in which the new session is registered:
      the established sessions AND the new one get their disconnect handler exactly once if a
      cause is aimed at them, are untouched otherwise, nothing is left behind, nothing raises.
   3. The connect handler runs at most once per request, whatever it answers
      ([connect_handler_at_most_once]). *)
From Coq Require Import Lia.
From VT Require Import Conc.ConnConc Conc.ConcProofs.
Local Open Scope nat_scope.

(* the remaining blocks of the task do not access the shared state *)
Definition passive (t : ctask) : bool :=
  match ct_pc t with
  | KHandler => k_accept (ct_conn t)
  | KSendOk | KSendDup | KDone => true
  | _ => false
  end.

Lemma cstep_passive ac m env t :
  passive t = true ->
  fst (fst (cstep ac m env t)) = m /\ passive (snd (fst (cstep ac m env t))) = true.
Proof.
  unfold passive, cstep. destruct t as [k p]. cbn [ct_pc ct_conn].
  destruct p; try discriminate; intro H.
  - rewrite H. cbn. split; [reflexivity|]. destruct ac; reflexivity.
  - cbn. split; reflexivity.
  - cbn. split; reflexivity.
  - cbn. split; reflexivity.
Qed.

Lemma forallb_upd {A} (f : A -> bool) l i x :
  forallb f l = true -> f x = true -> forallb f (upd l i x) = true.
Proof.
  revert i. induction l as [|y l IH]; intros i Hl Hx; [destruct i; reflexivity|].
  cbn in Hl. apply andb_true_iff in Hl as [Hy Hl].
  destruct i; cbn; [rewrite Hx, Hl; reflexivity|rewrite Hy, (IH i Hl Hx); reflexivity].
Qed.

Lemma nth_error_forallb {A} (f : A -> bool) l i x :
  forallb f l = true -> nth_error l i = Some x -> f x = true.
Proof.
  intros Hl Hn. apply nth_error_In in Hn. rewrite forallb_forall in Hl. exact (Hl _ Hn).
Qed.

Lemma set_mgr_same c : set_mgr c (c_mgr c) = c.
Proof. destruct c; reflexivity. Qed.

Lemma step_beyond g R c i : List.length (c_tasks c) <= i -> step g R c i = (c, []).
Proof.
  intro H. unfold step. apply nth_error_None in H. rewrite H. reflexivity.
Qed.

Lemma xstep_cfg ac R x i :
  forallb passive (x_conns x) = true ->
  x_cfg (fst (xstep ac R x i)) = fst (step GAsync R (x_cfg x) i) /\
  forallb passive (x_conns (fst (xstep ac R x i))) = true.
Proof.
  intro HP. unfold xstep.
  destruct (Nat.ltb i (List.length (c_tasks (x_cfg x)))) eqn:Elt.
  - destruct (step GAsync R (x_cfg x) i) as [c' l]. cbn. split; [reflexivity|exact HP].
  - apply Nat.ltb_ge in Elt. rewrite (step_beyond _ _ _ _ Elt). cbn [fst].
    destruct (nth_error (x_conns x) (i - List.length (c_tasks (x_cfg x)))) as [t|] eqn:En.
    + pose proof (nth_error_forallb _ _ _ _ HP En) as Ht.
      destruct (cstep_passive ac (c_mgr (x_cfg x)) (c_env (x_cfg x)) t Ht) as [Hm Hp].
      destruct (cstep ac (c_mgr (x_cfg x)) (c_env (x_cfg x)) t) as [[m' t'] l].
      cbn [fst snd] in Hm, Hp. subst m'. cbn [fst x_cfg x_conns].
      split; [apply set_mgr_same|apply forallb_upd; assumption].
    + cbn. split; [reflexivity|exact HP].
Qed.

(* 1. the reduction *)
Lemma xrun_cfg ac R sched : forall x,
  forallb passive (x_conns x) = true ->
  x_cfg (xrun ac R x sched) = run GAsync R (x_cfg x) sched.
Proof.
  induction sched as [|i r IH]; intros x HP; [reflexivity|].
  cbn [xrun run]. destruct (xstep_cfg ac R x i HP) as [Hc Hp].
  rewrite (IH _ Hp), Hc. reflexivity.
Qed.

(* the prefix that brings a connect to its handler: one block, two with always_connect *)
Definition to_handler (ac : bool) (n : nat) : list nat := if ac then [n; n] else [n].

Lemma init_tasks_length g m env causes : List.length (c_tasks (init g m env causes)) = List.length causes.
Proof. unfold init. cbn. apply map_length. Qed.

Lemma prefix_registers ac R m0 env0 causes k :
  memb (k_eio k) env0 = true -> k_accept k = true ->
  let x := xrun ac R (xinit m0 env0 causes [k]) (to_handler ac (List.length causes)) in
  x_cfg x = init GAsync (fst (mgr_connect m0 (k_eio k) (k_ns k) (k_sid k))) env0 causes /\
  forallb passive (x_conns x) = true.
Proof.
  intros Henv Hacc.
  assert (Hstep : forall x : xcfg, List.length (c_tasks (x_cfg x)) = List.length causes ->
            forall t, x_conns x = [t] ->
            xstep ac R x (List.length causes) =
            let '(m', t', l) := cstep ac (c_mgr (x_cfg x)) (c_env (x_cfg x)) t in
            (mkX (set_mgr (x_cfg x) m') [t'] (x_log x ++ l), l)).
  { intros x Hl t Ht. unfold xstep. rewrite Hl, Nat.ltb_irrefl, Nat.sub_diag, Ht. cbn [nth_error upd].
    reflexivity. }
  unfold to_handler, xinit.
  set (x0 := mkX (init GAsync m0 env0 causes) (map (fun k0 => mkCT k0 KStart) [k]) []).
  assert (H0 : xstep ac R x0 (List.length causes) =
               let '(m', t', l) := cstep ac m0 env0 (mkCT k KStart) in
               (mkX (set_mgr (init GAsync m0 env0 causes) m') [t'] ([] ++ l), l)).
  { apply (Hstep x0); [apply init_tasks_length|reflexivity]. }
  unfold cstep in H0. cbn [ct_pc ct_conn] in H0.
  destruct (mgr_connect m0 (k_eio k) (k_ns k) (k_sid k)) as [m1 r] eqn:Ec. cbn [fst].
  destruct r as [s|].
  - destruct ac.
    + cbn [xrun]. rewrite H0. cbn [fst].
      match goal with |- context [xstep true R ?x1 _] =>
        assert (H1 : xstep true R x1 (List.length causes) =
                     let '(m', t', l) := cstep true (c_mgr (x_cfg x1)) (c_env (x_cfg x1)) (set_cpc (mkCT k KStart) KSendC) in
                     (mkX (set_mgr (x_cfg x1) m') [t'] (x_log x1 ++ l), l))
          by (apply (Hstep x1); [apply init_tasks_length|reflexivity]) end.
      rewrite H1. unfold cstep, env_get. cbn [ct_pc ct_conn set_cpc x_cfg set_mgr c_env c_mgr init].
      rewrite Henv. cbn [fst x_cfg x_conns set_mgr set_cpc c_mgr c_env c_tasks c_log forallb passive ct_pc ct_conn].
      rewrite Hacc. split; reflexivity.
    + cbn [xrun]. rewrite H0. unfold env_get. rewrite Henv.
      cbn [fst x_cfg x_conns set_mgr set_cpc init c_mgr c_env c_tasks c_log forallb passive ct_pc ct_conn].
      rewrite Hacc. split; reflexivity.
  - (* duplicate: refused without a handler; the state is that of mgr_connect all the same *)
    destruct ac.
    + cbn [xrun]. rewrite H0. cbn [fst].
      match goal with |- context [xstep true R ?x1 _] =>
        assert (H1 : xstep true R x1 (List.length causes) =
                     let '(m', t', l) := cstep true (c_mgr (x_cfg x1)) (c_env (x_cfg x1)) (set_cpc (mkCT k KStart) KSendDup) in
                     (mkX (set_mgr (x_cfg x1) m') [t'] (x_log x1 ++ l), l))
          by (apply (Hstep x1); [apply init_tasks_length|reflexivity]) end.
      rewrite H1. unfold cstep.
      cbn [fst ct_pc ct_conn set_cpc x_cfg x_conns set_mgr c_env c_mgr c_tasks c_log init forallb passive].
      split; reflexivity.
    + cbn [xrun]. rewrite H0.
      cbn [fst x_cfg x_conns set_mgr set_cpc init c_mgr c_env c_tasks c_log forallb passive ct_pc ct_conn].
      split; reflexivity.
Qed.

Lemma xrun_app ac R s1 : forall x s2, xrun ac R x (s1 ++ s2) = xrun ac R (xrun ac R x s1) s2.
Proof. induction s1 as [|i r IH]; intros x s2; [reflexivity|]. cbn [app xrun]. apply IH. Qed.

Lemma quiescent_after_connect m0 eio ns sid :
  quiescent_start m0 -> fresh_sid m0 sid -> quiescent_start (fst (mgr_connect m0 eio ns sid)).
Proof.
  intros (HW & HN & HP) Hf. destruct (mgr_connect m0 eio ns sid) as [m1 r] eqn:E.
  destruct (mgr_connect_spec _ _ _ _ _ _ HW Hf E) as (HW1 & Hp1 & Hc1 & _). cbn [fst].
  split; [exact HW1|]. split; [rewrite Hc1; exact HN|rewrite Hp1; exact HP].
Qed.

(* 2. every schedule of the terminating causes beside a CONNECT in progress that will be accepted *)
Theorem connect_in_progress_accept :
  forall ac R m0 env0 causes k,
    quiescent_start m0 -> fresh_sid m0 (k_sid k) -> memb (k_eio k) env0 = true -> k_accept k = true ->
    forall sched,
      let m1 := fst (mgr_connect m0 (k_eio k) (k_ns k) (k_sid k)) in
      let x := xrun ac R (xinit m0 env0 causes [k]) (to_handler ac (List.length causes) ++ sched) in
      x_cfg x = run_sched GAsync R causes sched m1 env0 /\
      outcome R m1 env0 causes (x_cfg x).
Proof.
  intros ac R m0 env0 causes k HQ Hf Henv Hacc sched m1 x.
  destruct (prefix_registers ac R m0 env0 causes k Henv Hacc) as [Hc Hp].
  assert (E : x_cfg x = run_sched GAsync R causes sched m1 env0).
  { unfold x. rewrite xrun_app, (xrun_cfg _ _ _ _ Hp), Hc. reflexivity. }
  split; [exact E|]. rewrite E. apply once_async. apply quiescent_after_connect; assumption.
Qed.

(* 3. the connect handler at most once *)
Definition early (p : cpc) : bool := match p with KStart | KSendC | KHandler => true | _ => false end.

Lemma chcount_app s n a b : chcount s n (a ++ b) = chcount s n a + chcount s n b.
Proof. unfold chcount. rewrite filter_app, app_length. reflexivity. Qed.
Lemma chcount_XL s n l : chcount s n (map XL l) = 0.
Proof. unfold chcount. induction l as [|y l IH]; [reflexivity|exact IH]. Qed.

Lemma cstep_chcount ac m env t :
  let '(_, t', l) := cstep ac m env t in
  let s := k_sid (ct_conn t) in let n := k_ns (ct_conn t) in
  ct_conn t' = ct_conn t /\
  (early (ct_pc t) = false -> chcount s n l = 0 /\ early (ct_pc t') = false) /\
  (early (ct_pc t) = true -> (chcount s n l = 0 \/ (chcount s n l = 1 /\ early (ct_pc t') = false))).
Proof.
  assert (Hrefl : forall s n : str, chcount s n [XCHandler s n] = 1).
  { intros s n. unfold chcount. cbn. rewrite !str_eqb_refl. reflexivity. }
  destruct t as [k p]. unfold cstep. cbn [ct_pc ct_conn].
  destruct p; cbn [early].
  - destruct (mgr_connect m (k_eio k) (k_ns k) (k_sid k)) as [m' r]. destruct r as [s0|].
    + destruct ac.
      * cbn. split; [reflexivity|]. split; [discriminate|]. intros _. left. reflexivity.
      * unfold env_get. destruct (memb (k_eio k) env); cbn;
          (split; [reflexivity|]; split; [discriminate|]; intros _; left; reflexivity).
    + cbn. split; [reflexivity|]. split; [discriminate|]. intros _. left. reflexivity.
  - unfold env_get. destruct (memb (k_eio k) env); cbn;
      (split; [reflexivity|]; split; [discriminate|]; intros _; left; reflexivity).
  - destruct (k_accept k).
    + cbn [fst snd set_cpc ct_conn ct_pc]. split; [reflexivity|]. split; [discriminate|]. intros _. right.
      rewrite Hrefl. destruct ac; split; reflexivity.
    + destruct ac.
      * destruct (pre_disconnect m (k_sid k) (k_ns k)) as [m' r]. destruct r as [o|e];
          cbn [fst snd set_cpc ct_conn ct_pc]; (split; [reflexivity|]; split; [discriminate|]; intros _; right);
          (split; [|reflexivity]); unfold chcount; cbn; rewrite !str_eqb_refl; reflexivity.
      * cbn [fst snd set_cpc ct_conn ct_pc]. split; [reflexivity|]. split; [discriminate|]. intros _. right.
        rewrite Hrefl. split; reflexivity.
  - cbn. split; [reflexivity|]. split; [intros _; split; reflexivity|discriminate].
  - cbn. split; [reflexivity|]. split; [intros _; split; reflexivity|discriminate].
  - cbn. split; [reflexivity|]. split; [intros _; split; reflexivity|discriminate].
  - cbn. split; [reflexivity|]. split; [intros _; split; reflexivity|discriminate].
Qed.

(* invariant of a configuration with one connect task *)
Definition ch_inv (k : conn) (x : xcfg) : Prop :=
  exists p, x_conns x = [mkCT k p] /\
            chcount (k_sid k) (k_ns k) (x_log x) <= 1 /\
            (early p = true -> chcount (k_sid k) (k_ns k) (x_log x) = 0).

Lemma xstep_ch_inv ac R k x i : ch_inv k x -> ch_inv k (fst (xstep ac R x i)).
Proof.
  intros (p & Hc & Hle & He). unfold xstep.
  destruct (Nat.ltb i (List.length (c_tasks (x_cfg x)))).
  - destruct (step GAsync R (x_cfg x) i) as [c' l]. cbn [fst]. exists p. cbn [x_conns x_log].
    rewrite chcount_app, chcount_XL, Nat.add_0_r. repeat split; assumption.
  - rewrite Hc. destruct (i - List.length (c_tasks (x_cfg x))) as [|j].
    + cbn [nth_error].
      pose proof (cstep_chcount ac (c_mgr (x_cfg x)) (c_env (x_cfg x)) (mkCT k p)) as H.
      destruct (cstep ac (c_mgr (x_cfg x)) (c_env (x_cfg x)) (mkCT k p)) as [[m' t'] l].
      cbn [ct_conn ct_pc] in H. destruct H as (Hk & Hlate & Hearly).
      cbn [fst upd x_conns x_log]. destruct t' as [k' p']. cbn [ct_conn ct_pc] in *. subst k'.
      exists p'. cbn [x_conns x_log upd]. split; [reflexivity|]. rewrite chcount_app.
      destruct (early p) eqn:Ep.
      * specialize (He eq_refl). destruct (Hearly eq_refl) as [H0|[H1 Hl]].
        -- rewrite H0, He. split; [lia|]. intros _. reflexivity.
        -- rewrite H1, He, Hl. split; [lia|discriminate].
      * destruct (Hlate eq_refl) as [H0 Hl]. rewrite H0, Hl, Nat.add_0_r. split; [exact Hle|discriminate].
    + cbn [nth_error]. destruct j; cbn [nth_error fst]; exists p; repeat split; assumption.
Qed.

Theorem connect_handler_at_most_once :
  forall ac R m env causes k sched,
    chcount (k_sid k) (k_ns k) (x_log (xrun ac R (xinit m env causes [k]) sched)) <= 1.
Proof.
  intros ac R m env causes k sched.
  assert (H : ch_inv k (xrun ac R (xinit m env causes [k]) sched)).
  { assert (H0 : ch_inv k (xinit m env causes [k])).
    { exists KStart. split; [reflexivity|]. split; [cbn; lia|intros _; reflexivity]. }
    revert H0. generalize (xinit m env causes [k]).
    induction sched as [|i r IH]; intros x Hx; [exact Hx|].
    cbn [xrun]. apply IH. apply xstep_ch_inv. exact Hx. }
  destruct H as (p & _ & Hle & _). exact Hle.
Qed.

(* ---- the hypotheses are satisfiable, and the refused case really differs ---- *)
Example x_conn_start :
  let m0 := fst (mgr_connect (fst (mgr_connect mgr_init (s2l "e0") (s2l "/") (s2l "S0"))) (s2l "e1") (s2l "/") (s2l "S1")) in
  let k := mkConn (s2l "e0") (s2l "/c") (s2l "S2") true in
  let x := xrun false [] (xinit m0 [s2l "e0"; s2l "e1"] [CLoss (s2l "e0") (s2l "transport close")] [k])
                [1; 0; 1; 0; 0; 1; 0] in
  xall_done x = true /\ hcount (s2l "S0") (s2l "/") (c_log (x_cfg x)) = 1 /\
  hcount (s2l "S2") (s2l "/c") (c_log (x_cfg x)) = 1 /\ chcount (s2l "S2") (s2l "/c") (x_log x) = 1 /\
  get_namespaces (c_mgr (x_cfg x)) = [s2l "/"].
Proof. vm_compute. repeat split; reflexivity. Qed.
