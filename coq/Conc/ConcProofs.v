(* Proofs about the interleaving model of Conc/ServerConc.v.

   Main invariant [Safe]: every (sid, ns) is in one of four phases
     connected (member, not pending, handler not run)
     owned-before-handler (member, pending once, exactly one task past its mark, handler not run)
     owned-after-handler  (member, pending once, exactly one task in front of its finally)
     gone (not a member of any room, not pending, callbacks deleted, handler run once)
   expressed by counting equations over the tasks' program counters.  One access (micro step)
   preserves it provided the check-then-mark window of no (sid, ns) is open in two tasks at
   once in the state before the step.  At asyncio granularity that proviso is automatic (a task
   never suspends inside the window); at thread granularity it is exactly what fails. *)
From VT Require Import Conc.MgrFacts.
From VT Require Export Conc.ServerConc Conc.ConcSpec.
From Coq Require Import Lia.
Open Scope nat_scope.

(* ------------------------------------------------------------------ *)
(* counting over the task list                                         *)
(* ------------------------------------------------------------------ *)
Definition b2n (b : bool) : nat := if b then 1 else 0.
Definition cnt (p : task -> bool) (l : list task) : nat := List.length (filter p l).

Lemma cnt_cons p t l : cnt p (t :: l) = b2n (p t) + cnt p l.
Proof. unfold cnt. cbn [filter]. destruct (p t); reflexivity. Qed.

Lemma cnt_upd p l : forall i t t', nth_error l i = Some t ->
  cnt p (upd l i t') + b2n (p t) = cnt p l + b2n (p t').
Proof.
  induction l as [|x l IH]; intros [|i] t t' H; cbn [nth_error] in H; try discriminate.
  - inversion H; subst. cbn [upd]. rewrite !cnt_cons. lia.
  - cbn [upd]. rewrite !cnt_cons. specialize (IH i t t' H). lia.
Qed.

Lemma cnt_zero p l : (forall t, In t l -> p t = false) -> cnt p l = 0.
Proof.
  induction l as [|x l IH]; intro H; [reflexivity|]. rewrite cnt_cons, IH.
  - rewrite (H x (or_introl eq_refl)). reflexivity.
  - intros t Ht. apply H. right; exact Ht.
Qed.
Lemma cnt_pos p l : 1 <= cnt p l -> exists t, In t l /\ p t = true.
Proof.
  induction l as [|x l IH]; [cbn; lia|]. rewrite cnt_cons. destruct (p x) eqn:E.
  - intros _. exists x. split; [left; reflexivity|exact E].
  - cbn [b2n]. intro H. destruct (IH H) as (t & Ht & Hp). exists t. split; [right; exact Ht|exact Hp].
Qed.
Lemma cnt_in p l t : In t l -> p t = true -> 1 <= cnt p l.
Proof.
  induction l as [|x l IH]; [intros []|]. rewrite cnt_cons. intros [->|H] Hp.
  - rewrite Hp. cbn [b2n]. lia.
  - specialize (IH H Hp). lia.
Qed.

Lemma in_upd {A} (l : list A) : forall i x u, In u (upd l i x) -> u = x \/ In u l.
Proof.
  induction l as [|y l IH]; intros [|i] x u H; cbn [upd] in H; try (destruct H; fail).
  - destruct H as [H|H]; [left; symmetry; exact H|right; right; exact H].
  - destruct H as [H|H]; [right; left; exact H|]. destruct (IH i x u H); [left; assumption|right; right; assumption].
Qed.
Lemma nth_upd_same {A} (l : list A) : forall i x t, nth_error l i = Some t -> nth_error (upd l i x) i = Some x.
Proof.
  induction l as [|y l IH]; intros [|i] x t H; cbn [nth_error upd] in *; try discriminate; [reflexivity|eauto].
Qed.
Lemma nth_upd_other {A} (l : list A) : forall i j x, i <> j -> nth_error (upd l i x) j = nth_error l j.
Proof.
  induction l as [|y l IH]; intros [|i] [|j] x N; cbn [nth_error upd]; try reflexivity; try congruence.
  apply IH. congruence.
Qed.
Lemma map_upd {A B} (f : A -> B) (l : list A) : forall i x t,
  nth_error l i = Some t -> f x = f t -> map f (upd l i x) = map f l.
Proof.
  induction l as [|y l IH]; intros [|i] x t H E; cbn [nth_error upd map] in *; try discriminate.
  - inversion H; subst. rewrite E. reflexivity.
  - f_equal. eauto.
Qed.
Lemma forallb_upd {A} (p : A -> bool) (l : list A) : forall i x,
  forallb p l = true -> p x = true -> forallb p (upd l i x) = true.
Proof.
  induction l as [|y l IH]; intros [|i] x H Hx; cbn [upd forallb] in *; try reflexivity.
  - apply andb_true_iff in H as [_ H]. rewrite Hx, H. reflexivity.
  - apply andb_true_iff in H as [H1 H]. rewrite H1. cbn [andb]. auto.
Qed.

(* ------------------------------------------------------------------ *)
(* where a task stands with respect to a (sid, ns)                     *)
(* ------------------------------------------------------------------ *)
Definition at_pre (s ns : str) (t : task) : bool :=
  match t_pc t with
  | PSend s' _ | PCall s' => str_eqb s' s && str_eqb (t_ns t) ns
  | _ => false
  end.
Definition at_post (s ns : str) (t : task) : bool :=
  match t_pc t with PFin s' _ => str_eqb s' s && str_eqb (t_ns t) ns | _ => false end.

Definition idle_pc (p : pc) : bool :=
  match p with PInit | PLookup | PCheck _ | PEnv | PDone | PPre _ | PAcq _ => true | _ => false end.
Lemma idle_pre s ns t : idle_pc (t_pc t) = true -> at_pre s ns t = false.
Proof. unfold at_pre. destruct (t_pc t); cbn; congruence. Qed.
Lemma idle_post s ns t : idle_pc (t_pc t) = true -> at_post s ns t = false.
Proof. unfold at_post. destruct (t_pc t); cbn; congruence. Qed.
Lemma idle_win s ns t : idle_pc (t_pc t) = true -> in_window s ns t = false.
Proof. unfold in_window. destruct (t_pc t); cbn; congruence. Qed.

Definition is_loss (k : cause) : bool := match k with CLoss _ _ => true | _ => false end.

Lemma end_ns_idle t e : idle_pc (t_pc (fst (end_ns t e))) = true.
Proof. destruct t as [k p n td ex]. unfold end_ns. cbn. destruct k; try reflexivity. destruct td; reflexivity. Qed.
Lemma end_ns_cause t e : t_cause (fst (end_ns t e)) = t_cause t.
Proof. destruct t as [k p n td ex]. unfold end_ns. cbn. destruct k; try reflexivity. destruct td; reflexivity. Qed.
Lemma end_ns_labels t e x : In x (snd (end_ns t e)) -> exists y, e = Some y /\ x = LRaise y.
Proof.
  destruct t as [k p n td ex]. unfold end_ns. cbn [t_cause t_todo t_exc t_ns].
  destruct k.
  1,2: destruct e; cbn [snd]; intro H; [destruct H as [H|[]]; eauto|destruct H].
  destruct td; intros [].
Qed.

Lemma eqb2 s ns s' ns' : str_eqb s' s && str_eqb ns' ns = true <-> s' = s /\ ns' = ns.
Proof.
  rewrite andb_true_iff. split; intros [A B]; [apply str_eqb_eq in A, B|subst; rewrite !str_eqb_refl]; auto.
Qed.

(* handler counting *)
Lemma hcount_app s ns l1 l2 : hcount s ns (l1 ++ l2) = hcount s ns l1 + hcount s ns l2.
Proof. unfold hcount. rewrite filter_app, app_length. reflexivity. Qed.
Lemma hcount_none s ns l : (forall x, In x l -> is_handler s ns x = false) -> hcount s ns l = 0.
Proof.
  unfold hcount. induction l as [|x l IH]; intro H; [reflexivity|]. cbn [filter].
  rewrite (H x (or_introl eq_refl)). apply IH. intros y Hy. apply H. right; exact Hy.
Qed.
Lemma raised_app l1 l2 : raised (l1 ++ l2) = raised l1 || raised l2.
Proof. unfold raised. apply existsb_app. Qed.

(* ------------------------------------------------------------------ *)
(* the double-check window                                             *)
(* ------------------------------------------------------------------ *)
Lemma in_window_of s ns t : in_window s ns t = true <-> window_of t = Some (s, ns).
Proof.
  unfold in_window, window_of. destruct (t_pc t); try (split; discriminate).
  rewrite eqb2. split; [intros [-> ->]; reflexivity|intro H; inversion H; auto].
Qed.

Lemma ndw_cnt l : double_window_l l = false -> forall s ns, cnt (in_window s ns) l <= 1.
Proof.
  induction l as [|t l IH]; intros H s ns; [cbn; lia|].
  cbn [double_window_l] in H. apply orb_false_iff in H as [H1 H2].
  rewrite cnt_cons. specialize (IH H2 s ns).
  destruct (in_window s ns t) eqn:E; cbn [b2n]; [|lia].
  assert (cnt (in_window s ns) l = 0); [|lia].
  apply cnt_zero. intros u Hu. destruct (in_window s ns u) eqn:Eu; [|reflexivity]. exfalso.
  apply in_window_of in E, Eu.
  assert (existsb (fun u => same_window (window_of t) (window_of u)) l = true); [|congruence].
  apply existsb_exists. exists u. split; [exact Hu|]. rewrite E, Eu. cbn. rewrite !str_eqb_refl. reflexivity.
Qed.

Lemma existsb_same_none l : existsb (fun u => same_window None (window_of u)) l = false.
Proof. induction l as [|u l IH]; [reflexivity|]. cbn [existsb same_window]. exact IH. Qed.

Lemma no_window_ndw l : (forall t, In t l -> window_of t = None) -> double_window_l l = false.
Proof.
  induction l as [|t l IH]; intro H; [reflexivity|]. cbn [double_window_l].
  rewrite IH by (intros u Hu; apply H; right; exact Hu).
  rewrite (H t (or_introl eq_refl)). rewrite existsb_same_none. reflexivity.
Qed.

(* all tasks but the i-th have no open window *)
Definition quiet_but (l : list task) (i : nat) : Prop :=
  forall j t, nth_error l j = Some t -> j <> i -> window_of t = None.
Lemma quiet_but_ndw l : forall i, quiet_but l i -> double_window_l l = false.
Proof.
  induction l as [|t l IH]; intros i H; [reflexivity|]. cbn [double_window_l].
  destruct i as [|i].
  - rewrite (no_window_ndw l).
    + rewrite orb_false_r. apply not_true_is_false. intro E. apply existsb_exists in E as (u & Hu & Es).
      apply In_nth_error in Hu as (j & Hj). rewrite (H (S j) u Hj) in Es by discriminate.
      destruct (window_of t) as [[? ?]|]; discriminate.
    + intros u Hu. apply In_nth_error in Hu as (j & Hj). apply (H (S j) u Hj). discriminate.
  - rewrite (IH i).
    + rewrite (H 0 t eq_refl) by discriminate. rewrite existsb_same_none. reflexivity.
    + intros j u Hj N. apply (H (S j) u Hj). congruence.
Qed.

(* ------------------------------------------------------------------ *)
(* the invariant                                                       *)
(* ------------------------------------------------------------------ *)
Definition mb (m : mgr) (ns s : str) : nat := b2n (is_some (mem m ns PNone s)).

Lemma mb_le1 m ns s : mb m ns s <= 1.
Proof. unfold mb. destruct (is_some _); cbn; lia. Qed.
Lemma mb_one m ns s : mb m ns s = 1 <-> exists e, mem m ns PNone s = Some e.
Proof.
  unfold mb. destruct (mem m ns PNone s) as [e|]; cbn; split; intro H; try lia; eauto.
  destruct H; discriminate.
Qed.
Lemma mb_zero m ns s : mb m ns s = 0 <-> mem m ns PNone s = None.
Proof. unfold mb. destruct (mem m ns PNone s); cbn; split; intro H; try lia; congruence. Qed.

Lemma cnt_upd_eq p l i t t' : nth_error l i = Some t -> p t' = p t -> cnt p (upd l i t') = cnt p l.
Proof. intros H E. pose proof (cnt_upd p l i t t' H). rewrite E in *. lia. Qed.

Section Invariant.
  Variables (lk : bool) (R : list str) (m0 : mgr).

  Record Safe (c : cfg) : Prop := mkSafe {
    s_wf : WF (c_mgr c);
    s_cb : NoDup (map fst (callbacks (c_mgr c)));
    (* pending_disconnect[ns] holds s once per task that has marked (s, ns) and not finished it *)
    s_pend : forall s ns, pcount (c_mgr c) ns s = cnt (at_pre s ns) (c_tasks c) + cnt (at_post s ns) (c_tasks c);
    (* handler runs = tasks in front of their finally + clients already gone *)
    s_hand : forall s ns, hcount s ns (c_log c) + mb (c_mgr c) ns s = mb m0 ns s + cnt (at_post s ns) (c_tasks c);
    (* an owner's client is still a member, and there is at most one owner *)
    s_own : forall s ns, cnt (at_pre s ns) (c_tasks c) + cnt (at_post s ns) (c_tasks c) <= mb (c_mgr c) ns s;
    (* an open check-then-mark window is about a connected client *)
    s_win : forall s ns, 1 <= cnt (in_window s ns) (c_tasks c) -> mb (c_mgr c) ns s = 1 /\ pcount (c_mgr c) ns s = 0;
    (* rooms: a member keeps every membership it had, a non-member has none *)
    s_frame : forall ns r s, room_ok r ->
                mem (c_mgr c) ns r s = if is_some (mem (c_mgr c) ns PNone s) then mem m0 ns r s else None;
    (* callbacks: untouched for untouched sids, deleted for clients that are gone *)
    s_cbs : forall s, (forall ns, mb (c_mgr c) ns s = mb m0 ns s) ->
                aget str_eqb (callbacks (c_mgr c)) s = aget str_eqb (callbacks m0) s;
    s_cbs_gone : forall s ns, mb m0 ns s = 1 -> mb (c_mgr c) ns s = 0 ->
                aget str_eqb (callbacks (c_mgr c)) s = None }.

  Lemma safe_mb_mono c : Safe c -> forall ns s, mb (c_mgr c) ns s <= mb m0 ns s.
  Proof.
    intros HS ns s. pose proof (s_frame c HS ns PNone s room_ok_None) as H. unfold mb.
    destruct (mem (c_mgr c) ns PNone s) as [e|] eqn:E; cbn [is_some b2n] in *; [|lia].
    rewrite <- H. cbn. lia.
  Qed.

  (* ---- steps that do not touch the manager ---- *)
  Lemma safe_frame c i t t' env' l :
    Safe c -> nth_error (c_tasks c) i = Some t ->
    (forall s ns, at_pre s ns t' = at_pre s ns t) ->
    (forall s ns, at_post s ns t' = at_post s ns t) ->
    (forall s ns, in_window s ns t' = true ->
                  in_window s ns t = true \/ (mb (c_mgr c) ns s = 1 /\ pcount (c_mgr c) ns s = 0)) ->
    (forall s ns x, In x l -> is_handler s ns x = false) ->
    Safe (mkCfg (c_mgr c) env' (upd (c_tasks c) i t') (c_log c ++ l)).
  Proof.
    intros HS Hn Hpre Hpost Hwin Hl.
    constructor; cbn [c_mgr c_tasks c_log].
    - apply HS.
    - apply HS.
    - intros s ns. rewrite (cnt_upd_eq _ _ _ _ _ Hn (Hpre s ns)), (cnt_upd_eq _ _ _ _ _ Hn (Hpost s ns)). apply HS.
    - intros s ns. rewrite hcount_app, (hcount_none s ns l) by (intros; eapply Hl; eauto).
      rewrite (cnt_upd_eq _ _ _ _ _ Hn (Hpost s ns)). rewrite Nat.add_0_r. apply HS.
    - intros s ns. rewrite (cnt_upd_eq _ _ _ _ _ Hn (Hpre s ns)), (cnt_upd_eq _ _ _ _ _ Hn (Hpost s ns)). apply HS.
    - intros s ns H. pose proof (cnt_upd (in_window s ns) _ _ _ t' Hn) as E.
      destruct (in_window s ns t') eqn:Ew.
      + destruct (Hwin s ns Ew) as [Ht|Hc]; [|exact Hc].
        apply (s_win c HS). eapply cnt_in; [eapply nth_error_In; exact Hn|exact Ht].
      + apply (s_win c HS). cbn [b2n] in E. lia.
    - apply HS.
    - apply HS.
    - apply HS.
  Qed.

  (* ---- pre_disconnect by a task whose window is open ---- *)
  Lemma safe_mark c i t sid p' l :
    Safe c -> double_window c = false -> nth_error (c_tasks c) i = Some t ->
    t_pc t = PMark sid ->
    (p' = PCall sid \/ exists e, p' = PSend sid e) ->
    (forall s ns x, In x l -> is_handler s ns x = false) ->
    exists e, mem (c_mgr c) (t_ns t) PNone sid = Some e /\
              snd (pre_disconnect (c_mgr c) sid (t_ns t)) = Ok (Some e) /\
    forall env', Safe (mkCfg (fst (pre_disconnect (c_mgr c) sid (t_ns t))) env'
                             (upd (c_tasks c) i (set_pc t p')) (c_log c ++ l)).
  Proof.
    intros HS Hndw Hn Hpc Hp' Hl. set (ns0 := t_ns t).
    assert (Hw : in_window sid ns0 t = true) by (unfold in_window; rewrite Hpc; apply eqb2; auto).
    assert (Hc1 : 1 <= cnt (in_window sid ns0) (c_tasks c)) by (eapply cnt_in; [eapply nth_error_In; exact Hn|exact Hw]).
    destruct (s_win c HS sid ns0 Hc1) as [Hmb Hpc0].
    apply mb_one in Hmb as [e He]. exists e. split; [exact He|].
    split; [apply pre_disconnect_member; exact He|]. intro env'.
    destruct (pre_disconnect_fst (c_mgr c) sid ns0) as (Er & Ec & Ep).
    set (m' := fst (pre_disconnect (c_mgr c) sid ns0)) in *.
    assert (Em : mem m' = mem (c_mgr c)) by (apply mem_ext; exact Er).
    assert (Emb : forall ns s, mb m' ns s = mb (c_mgr c) ns s) by (intros; unfold mb; rewrite Em; reflexivity).
    set (t' := set_pc t p').
    assert (Hpre : forall s ns, at_pre s ns t' = str_eqb sid s && str_eqb ns0 ns).
    { intros s ns. unfold at_pre, t'. cbn. destruct Hp' as [->|[e' ->]]; reflexivity. }
    assert (Hpre0 : forall s ns, at_pre s ns t = false) by (intros; unfold at_pre; rewrite Hpc; reflexivity).
    assert (Hpost : forall s ns, at_post s ns t' = false).
    { intros s ns. unfold at_post, t'. cbn. destruct Hp' as [->|[e' ->]]; reflexivity. }
    assert (Hpost0 : forall s ns, at_post s ns t = false) by (intros; unfold at_post; rewrite Hpc; reflexivity).
    assert (Hwin' : forall s ns, in_window s ns t' = false).
    { intros s ns. unfold in_window, t'. cbn. destruct Hp' as [->|[e' ->]]; reflexivity. }
    assert (Hwin0 : forall s ns, in_window s ns t = str_eqb sid s && str_eqb ns0 ns).
    { intros s ns. unfold in_window. rewrite Hpc. reflexivity. }
    assert (Cpre : forall s ns, cnt (at_pre s ns) (upd (c_tasks c) i t') =
                                cnt (at_pre s ns) (c_tasks c) + b2n (str_eqb sid s && str_eqb ns0 ns)).
    { intros s ns. pose proof (cnt_upd (at_pre s ns) _ _ _ t' Hn) as E. rewrite Hpre, Hpre0 in E. cbn [b2n] in E. lia. }
    assert (Cpost : forall s ns, cnt (at_post s ns) (upd (c_tasks c) i t') = cnt (at_post s ns) (c_tasks c)).
    { intros s ns. apply (cnt_upd_eq _ _ _ _ _ Hn). rewrite Hpost, Hpost0. reflexivity. }
    assert (Cwin : forall s ns, cnt (in_window s ns) (upd (c_tasks c) i t') + b2n (str_eqb sid s && str_eqb ns0 ns) =
                                cnt (in_window s ns) (c_tasks c)).
    { intros s ns. pose proof (cnt_upd (in_window s ns) _ _ _ t' Hn) as E. rewrite Hwin', Hwin0 in E. cbn [b2n] in E. lia. }
    assert (B : forall s ns, b2n (str_eqb ns0 ns && str_eqb sid s) = b2n (str_eqb sid s && str_eqb ns0 ns))
      by (intros; rewrite andb_comm; reflexivity).
    constructor; cbn [c_mgr c_tasks c_log]; fold m'.
    - apply pre_disconnect_wf. apply HS.
    - rewrite Ec. apply HS.
    - intros s ns. rewrite Ep, Cpre, Cpost, (s_pend c HS).
      pose proof (B s ns). destruct (str_eqb ns0 ns && str_eqb sid s), (str_eqb sid s && str_eqb ns0 ns); cbn [b2n] in *; lia.
    - intros s ns. rewrite hcount_app, (hcount_none s ns l) by (intros; eapply Hl; eauto).
      rewrite Emb, Cpost, Nat.add_0_r. apply HS.
    - intros s ns. rewrite Cpre, Cpost, Emb. pose proof (s_own c HS s ns) as Ho.
      destruct (str_eqb sid s && str_eqb ns0 ns) eqn:E; cbn [b2n]; [|lia].
      apply eqb2 in E as [<- <-]. pose proof (s_pend c HS sid ns0). fold ns0 in He.
      assert (mb (c_mgr c) ns0 sid = 1) by (apply mb_one; eauto). lia.
    - intros s ns H. pose proof (Cwin s ns) as E.
      destruct (str_eqb sid s && str_eqb ns0 ns) eqn:E2; cbn [b2n] in E.
      + apply eqb2 in E2 as [<- <-]. pose proof (ndw_cnt _ Hndw sid ns0). lia.
      + assert (H1 : 1 <= cnt (in_window s ns) (c_tasks c)) by lia.
        destruct (s_win c HS s ns H1) as [A B']. rewrite Emb, Ep.
        split; [exact A|]. rewrite andb_comm in E2. rewrite E2. lia.
    - intros ns r s Hr. rewrite Em. apply HS. exact Hr.
    - intros s H. rewrite Ec. apply HS. intros ns. rewrite <- Emb. apply H.
    - intros s ns H1 H2. rewrite Ec. apply (s_cbs_gone c HS s ns H1). rewrite <- Emb. exact H2.
  Qed.

  (* ---- the handler invocation ---- *)
  Lemma safe_call c i t sid e env' reason :
    Safe c -> nth_error (c_tasks c) i = Some t -> t_pc t = PCall sid ->
    Safe (mkCfg (c_mgr c) env' (upd (c_tasks c) i (set_pc t (PFin sid e)))
                (c_log c ++ [LHandler sid (t_ns t) reason])).
  Proof.
    intros HS Hn Hpc. set (ns0 := t_ns t). set (t' := set_pc t (PFin sid e)).
    assert (Hpre : forall s ns, at_pre s ns t' = false) by reflexivity.
    assert (Hpre0 : forall s ns, at_pre s ns t = str_eqb sid s && str_eqb ns0 ns)
      by (intros; unfold at_pre; rewrite Hpc; reflexivity).
    assert (Hpost : forall s ns, at_post s ns t' = str_eqb sid s && str_eqb ns0 ns) by reflexivity.
    assert (Hpost0 : forall s ns, at_post s ns t = false) by (intros; unfold at_post; rewrite Hpc; reflexivity).
    assert (Hwin : forall s ns, in_window s ns t' = in_window s ns t)
      by (intros; unfold in_window; rewrite Hpc; reflexivity).
    assert (Cpre : forall s ns, cnt (at_pre s ns) (upd (c_tasks c) i t') + b2n (str_eqb sid s && str_eqb ns0 ns) =
                                cnt (at_pre s ns) (c_tasks c)).
    { intros s ns. pose proof (cnt_upd (at_pre s ns) _ _ _ t' Hn) as E. rewrite Hpre, Hpre0 in E. cbn [b2n] in E. lia. }
    assert (Cpost : forall s ns, cnt (at_post s ns) (upd (c_tasks c) i t') =
                                 cnt (at_post s ns) (c_tasks c) + b2n (str_eqb sid s && str_eqb ns0 ns)).
    { intros s ns. pose proof (cnt_upd (at_post s ns) _ _ _ t' Hn) as E. rewrite Hpost, Hpost0 in E. cbn [b2n] in E. lia. }
    assert (Hh : forall s ns, hcount s ns [LHandler sid ns0 reason] = b2n (str_eqb sid s && str_eqb ns0 ns)).
    { intros s ns. unfold hcount. cbn [filter is_handler]. destruct (str_eqb sid s && str_eqb ns0 ns); reflexivity. }
    constructor; cbn [c_mgr c_tasks c_log].
    - apply HS.
    - apply HS.
    - intros s ns. pose proof (Cpre s ns). pose proof (Cpost s ns). pose proof (s_pend c HS s ns). lia.
    - intros s ns. rewrite hcount_app, Hh. pose proof (Cpost s ns). pose proof (s_hand c HS s ns). lia.
    - intros s ns. pose proof (Cpre s ns). pose proof (Cpost s ns). pose proof (s_own c HS s ns). lia.
    - intros s ns H. rewrite (cnt_upd_eq _ _ _ _ _ Hn (Hwin s ns)) in H. apply (s_win c HS s ns H).
    - apply HS.
    - apply HS.
    - apply HS.
  Qed.

  (* ---- finally: manager.disconnect by the owner ---- *)
  Lemma safe_fin c i t sid e t' env' l :
    Safe c -> nth_error (c_tasks c) i = Some t -> t_pc t = PFin sid e ->
    idle_pc (t_pc t') = true ->
    (forall s ns x, In x l -> is_handler s ns x = false) ->
    Safe (mkCfg (mgr_disconnect (c_mgr c) sid (t_ns t)) env' (upd (c_tasks c) i t') (c_log c ++ l)).
  Proof.
    intros HS Hn Hpc Hidle Hl. set (ns0 := t_ns t). set (m := c_mgr c). set (m' := mgr_disconnect m sid ns0).
    assert (Hpost0 : forall s ns, at_post s ns t = str_eqb sid s && str_eqb ns0 ns)
      by (intros; unfold at_post; rewrite Hpc; reflexivity).
    assert (Hpre0 : forall s ns, at_pre s ns t = false) by (intros; unfold at_pre; rewrite Hpc; reflexivity).
    assert (Hwin0 : forall s ns, in_window s ns t = false) by (intros; unfold in_window; rewrite Hpc; reflexivity).
    assert (Cpre : forall s ns, cnt (at_pre s ns) (upd (c_tasks c) i t') = cnt (at_pre s ns) (c_tasks c)).
    { intros s ns. apply (cnt_upd_eq _ _ _ _ _ Hn). rewrite Hpre0. apply idle_pre. exact Hidle. }
    assert (Cwin : forall s ns, cnt (in_window s ns) (upd (c_tasks c) i t') = cnt (in_window s ns) (c_tasks c)).
    { intros s ns. apply (cnt_upd_eq _ _ _ _ _ Hn). rewrite Hwin0. apply idle_win. exact Hidle. }
    assert (Cpost : forall s ns, cnt (at_post s ns) (upd (c_tasks c) i t') + b2n (str_eqb sid s && str_eqb ns0 ns) =
                                 cnt (at_post s ns) (c_tasks c)).
    { intros s ns. pose proof (cnt_upd (at_post s ns) _ _ _ t' Hn) as E. rewrite Hpost0 in E.
      rewrite (idle_post s ns t' Hidle) in E. cbn [b2n] in E. lia. }
    (* the owner's client is a member *)
    assert (Hown : 1 <= cnt (at_post sid ns0) (c_tasks c)).
    { eapply cnt_in; [eapply nth_error_In; exact Hn|]. rewrite Hpost0. apply eqb2. auto. }
    assert (Hmb1 : mb m ns0 sid = 1).
    { pose proof (s_own c HS sid ns0). pose proof (mb_le1 m ns0 sid). fold m in H. lia. }
    destruct (proj1 (mb_one _ _ _) Hmb1) as [e0 He0].
    assert (Hns : ns_rooms m ns0 <> None) by (eapply member_ns_rooms; exact He0).
    destruct (mgr_disconnect_spec m sid ns0 (s_wf c HS)) as (HW' & Erem & Ecb & _). fold m' in HW', Erem, Ecb.
    specialize (Ecb Hns).
    pose proof (mgr_disconnect_pcount m sid ns0 (proj1 (s_wf c HS)) Hns) as Ep. fold m' in Ep.
    assert (Emb : forall ns s, mb m' ns s = if str_eqb ns0 ns && str_eqb sid s then 0 else mb m ns s).
    { intros ns s. unfold mb. rewrite (Erem ns PNone s room_ok_None). destruct (str_eqb ns0 ns && str_eqb sid s); reflexivity. }
    assert (B : forall s ns, str_eqb ns0 ns && str_eqb sid s = str_eqb sid s && str_eqb ns0 ns)
      by (intros; apply andb_comm).
    constructor; cbn [c_mgr c_tasks c_log]; fold m m'.
    - exact HW'.
    - rewrite Ecb. apply nodup_adel. apply HS.
    - intros s ns. rewrite Ep, Cpre. pose proof (Cpost s ns). pose proof (s_pend c HS s ns). fold m in H0.
      rewrite B. destruct (str_eqb sid s && str_eqb ns0 ns); cbn [b2n] in *; lia.
    - intros s ns. rewrite hcount_app, (hcount_none s ns l) by (intros; eapply Hl; eauto).
      rewrite Emb. pose proof (Cpost s ns). pose proof (s_hand c HS s ns). fold m in H0. rewrite B.
      destruct (str_eqb sid s && str_eqb ns0 ns) eqn:E; cbn [b2n] in *; [|lia].
      apply eqb2 in E as [<- <-]. lia.
    - intros s ns. rewrite Emb, Cpre. pose proof (Cpost s ns). pose proof (s_own c HS s ns). fold m in H0. rewrite B.
      destruct (str_eqb sid s && str_eqb ns0 ns) eqn:E; cbn [b2n] in *; [|lia].
      apply eqb2 in E as [<- <-]. pose proof (mb_le1 m ns0 sid). lia.
    - intros s ns H. rewrite Cwin in H. destruct (s_win c HS s ns H) as [A Bq]. fold m in A, Bq.
      rewrite Emb, Ep. rewrite B.
      destruct (str_eqb sid s && str_eqb ns0 ns) eqn:E; [|split; [exact A|lia]].
      apply eqb2 in E as [<- <-]. pose proof (s_pend c HS sid ns0). fold m in H0. lia.
    - intros ns r s Hr. rewrite (Erem ns r s Hr), (Erem ns PNone s room_ok_None).
      destruct (str_eqb ns0 ns && str_eqb sid s); [reflexivity|]. apply HS. exact Hr.
    - intros s H. rewrite Ecb.
      destruct (str_eqb sid s) eqn:E.
      + apply str_eqb_eq in E. subst s. exfalso. specialize (H ns0). rewrite Emb, !str_eqb_refl in H. cbn in H.
        pose proof (safe_mb_mono c HS ns0 sid). fold m in H0. lia.
      + rewrite aget_adel_other by (intro; subst; rewrite str_eqb_refl in E; discriminate).
        apply HS. intros ns. rewrite <- H, Emb, E, andb_false_r. reflexivity.
    - intros s ns H1 H2. rewrite Ecb. destruct (str_eqb ns0 ns && str_eqb sid s) eqn:E.
      + apply andb_true_iff in E as [_ E]. apply str_eqb_eq in E. subst s. apply aget_adel_same. apply HS.
      + apply aget_adel_none. apply (s_cbs_gone c HS s ns H1). rewrite Emb, E in H2. exact H2.
  Qed.

  Lemma end_ns_not_handler t e s ns x : In x (snd (end_ns t e)) -> is_handler s ns x = false.
  Proof. intro H. apply end_ns_labels in H as (y & _ & ->). reflexivity. Qed.

  Lemma safe_idle c i t t' env' l :
    Safe c -> nth_error (c_tasks c) i = Some t ->
    idle_pc (t_pc t) = true -> idle_pc (t_pc t') = true ->
    (forall s ns x, In x l -> is_handler s ns x = false) ->
    Safe (mkCfg (c_mgr c) env' (upd (c_tasks c) i t') (c_log c ++ l)).
  Proof.
    intros HS Hn H1 H2 Hl. apply safe_frame with (t := t); auto.
    - intros. rewrite !idle_pre by assumption. reflexivity.
    - intros. rewrite !idle_post by assumption. reflexivity.
    - intros s ns H. rewrite idle_win in H by assumption. discriminate.
  Qed.

  (* one access preserves the invariant when no window is open twice *)
  Lemma safe_micro c i t :
    Safe c -> double_window c = false -> nth_error (c_tasks c) i = Some t ->
    forall m env t' l, micro lk R (c_mgr c) (c_env c) t = (m, env, t', l) ->
    Safe (mkCfg m env (upd (c_tasks c) i t') (c_log c ++ l)).
  Proof.
    intros HS Hndw Hn m env t' l. unfold micro.
    destruct (t_pc t) as [| |osid|sid|sid eio|sid|sid e| | |psid|aosid] eqn:Hpc.
    - (* PInit *)
      destruct (end_ns _ None) as [t1 l1] eqn:E. intro H; inversion H; subst; clear H.
      apply safe_idle with (t := t); auto.
      + rewrite Hpc; reflexivity.
      + change t' with (fst (t', l1)). rewrite <- E. apply end_ns_idle.
      + intros s ns x [<-|Hx]; [reflexivity|]. change l1 with (snd (t', l1)) in Hx. rewrite <- E in Hx.
        eapply end_ns_not_handler; eauto.
    - (* PLookup *)
      destruct (eio_of (t_cause t)) as [eio0|]; intro H; inversion H; subst; clear H.
      + apply safe_idle with (t := t); auto; [rewrite Hpc; reflexivity|cbn; destruct lk; reflexivity|].
        intros s ns x [<-|[]]; reflexivity.
      + apply safe_idle with (t := t); auto; [rewrite Hpc; reflexivity|intros ? ? ? []].
    - (* PCheck *)
      destruct osid as [sid|].
      + destruct (is_connected (c_mgr c) (Some sid) (t_ns t)) eqn:Ec.
        * intro H; inversion H; subst; clear H.
          apply safe_frame with (t := t); auto.
          -- intros; unfold at_pre; rewrite Hpc; reflexivity.
          -- intros; unfold at_post; rewrite Hpc; reflexivity.
          -- intros s ns Hw. right. unfold in_window in Hw. cbn in Hw. apply eqb2 in Hw as [<- <-].
             rewrite is_connected_spec in Ec. apply andb_true_iff in Ec as [E1 E2].
             split; [unfold mb; rewrite E2; reflexivity|].
             destruct (pcount (c_mgr c) (t_ns t) sid); [reflexivity|discriminate].
          -- intros s ns x [<-|[]]; reflexivity.
        * destruct (end_ns t None) as [t1 l1] eqn:E. intro H; inversion H; subst; clear H.
          apply safe_idle with (t := t); auto.
          -- rewrite Hpc; reflexivity.
          -- change t' with (fst (t', l1)). rewrite <- E. apply end_ns_idle.
          -- intros s ns x [<-|Hx]; [reflexivity|]. change l1 with (snd (t', l1)) in Hx. rewrite <- E in Hx.
             eapply end_ns_not_handler; eauto.
      + destruct (end_ns t None) as [t1 l1] eqn:E. intro H; inversion H; subst; clear H.
        apply safe_idle with (t := t); auto.
        * rewrite Hpc; reflexivity.
        * change t' with (fst (t', l1)). rewrite <- E. apply end_ns_idle.
        * intros s ns x [<-|Hx]; [reflexivity|]. change l1 with (snd (t', l1)) in Hx. rewrite <- E in Hx.
          eapply end_ns_not_handler; eauto.
    - (* PMark *)
      rewrite (surjective_pairing (pre_disconnect (c_mgr c) sid (t_ns t))).
      assert (Hp' : forall eio, (match t_cause t with CApi _ _ => PSend sid eio | _ => PCall sid end) = PCall sid \/
                                exists e0, (match t_cause t with CApi _ _ => PSend sid eio | _ => PCall sid end) = PSend sid e0).
      { intro eio0. destruct (t_cause t); [right; eauto|left; reflexivity|left; reflexivity]. }
      destruct (snd (pre_disconnect (c_mgr c) sid (t_ns t))) as [eio|x] eqn:Es.
      + intro H; inversion H; subst; clear H.
        destruct (safe_mark c i t sid _ [LMark sid (t_ns t) (Ok eio)] HS Hndw Hn Hpc (Hp' eio)) as (e0 & _ & _ & Hsafe).
        * intros s ns x [<-|[]]; reflexivity.
        * apply Hsafe.
      + exfalso.
        destruct (safe_mark c i t sid (PCall sid) [] HS Hndw Hn Hpc (or_introl eq_refl)) as (e0 & _ & Hs & _).
        * intros ? ? ? [].
        * congruence.
    - (* PSend *)
      intro H; inversion H; subst; clear H.
      apply safe_frame with (t := t); auto.
      + intros; unfold at_pre; rewrite Hpc; reflexivity.
      + intros; unfold at_post; rewrite Hpc; reflexivity.
      + intros s ns Hw. discriminate Hw.
      + intros s ns x [<-|[]]; reflexivity.
    - (* PCall *)
      intro H; inversion H; subst; clear H. apply safe_call; auto.
    - (* PFin *)
      destruct (end_ns t e) as [t1 l1] eqn:E. intro H; inversion H; subst; clear H.
      apply safe_fin with (e := e); auto.
      + change t' with (fst (t', l1)). rewrite <- E. apply end_ns_idle.
      + intros s ns x [<-|Hx]; [reflexivity|]. change l1 with (snd (t', l1)) in Hx. rewrite <- E in Hx.
        eapply end_ns_not_handler; eauto.
    - (* PEnv *)
      destruct (eio_of (t_cause t)) as [eio0|]; intro H; inversion H; subst; clear H.
      + apply safe_idle with (t := t); auto; [rewrite Hpc; reflexivity|].
        intros s ns x [<-|Hx]; [reflexivity|]. destruct (t_exc t); [destruct Hx as [<-|[]]; reflexivity|destruct Hx].
      + apply safe_idle with (t := t); auto; [rewrite Hpc; reflexivity|intros ? ? ? []].
    - (* PDone *)
      intro H; inversion H; subst; clear H.
      apply safe_idle with (t := t'); auto; [rewrite Hpc; reflexivity|rewrite Hpc; reflexivity|intros ? ? ? []].
    - (* PPre *)
      destruct (is_connected (c_mgr c) (Some psid) (t_ns t)).
      + intro H; inversion H; subst; clear H.
        apply safe_idle with (t := t); auto; [rewrite Hpc; reflexivity|].
        intros s ns x [<-|[]]; reflexivity.
      + destruct (end_ns t None) as [t1 l1] eqn:E. intro H; inversion H; subst; clear H.
        apply safe_idle with (t := t); auto.
        * rewrite Hpc; reflexivity.
        * change t' with (fst (t', l1)). rewrite <- E. apply end_ns_idle.
        * intros s ns x [<-|Hx]; [reflexivity|]. change l1 with (snd (t', l1)) in Hx. rewrite <- E in Hx.
          eapply end_ns_not_handler; eauto.
    - (* PAcq *)
      intro H; inversion H; subst; clear H.
      apply safe_idle with (t := t); auto; [rewrite Hpc; reflexivity|].
      intros s ns x [<-|[]]; reflexivity.
  Qed.

End Invariant.

(* ------------------------------------------------------------------ *)
(* lifting a one-access invariant to schedules of both granularities   *)
(* ------------------------------------------------------------------ *)
Section Lift.
  Variable lk : bool.
  Variable R : list str.
  Variable P : cfg -> Prop.
  Hypothesis P_micro : forall c i t,
    P c -> double_window c = false -> nth_error (c_tasks c) i = Some t ->
    forall m env t' l, micro lk R (c_mgr c) (c_env c) t = (m, env, t', l) ->
    P (mkCfg m env (upd (c_tasks c) i t') (c_log c ++ l)).

  Lemma cfg_eta c : c = mkCfg (c_mgr c) (c_env c) (c_tasks c) (c_log c).
  Proof. destruct c; reflexivity. Qed.
  Lemma upd_same {A} (l : list A) : forall i t, nth_error l i = Some t -> upd l i t = l.
  Proof. induction l as [|x l IH]; intros [|i] t H; cbn [nth_error upd] in *; try discriminate; [congruence|f_equal; auto]. Qed.
  Lemma upd_upd {A} (l : list A) : forall i a b, upd (upd l i a) i b = upd l i b.
  Proof. induction l as [|x l IH]; intros [|i] a b; cbn [upd]; try reflexivity. f_equal. apply IH. Qed.

  (* ---- blocks (asyncio granularity) ---- *)
  Lemma end_ns_measure t e m :
    suspended (t_pc (fst (end_ns t e))) = true \/ measure m (fst (end_ns t e)) <= 4 * List.length (t_todo t) + 2.
  Proof.
    destruct t as [k p n td ex]. unfold end_ns. cbn [t_cause t_todo t_exc t_ns].
    destruct k; [left; reflexivity|left; reflexivity|]. right.
    destruct td as [|x td]; cbn [fst measure t_pc t_todo List.length]; lia.
  Qed.

  Lemma micro_measure m env t m1 env1 t1 l1 :
    suspended (t_pc t) = false -> micro lk R m env t = (m1, env1, t1, l1) ->
    suspended (t_pc t1) = true \/ measure m1 t1 < measure m t.
  Proof.
    intros Hs. unfold micro, measure at 2.
    destruct (t_pc t) as [| |osid|sid|sid eio|sid|sid e| | |psid|aosid] eqn:Hpc; try discriminate Hs.
    - set (t0 := mkTask (t_cause t) PInit (t_ns t) (get_namespaces m) (t_exc t)).
      destruct (end_ns t0 None) as [t2 l2] eqn:E. intro H; inversion H; subst; clear H.
      destruct (end_ns_measure t0 None m1) as [A|A]; rewrite E in A; cbn [fst] in A; [left; exact A|right].
      unfold t0 in A. cbn [t_todo] in A. lia.
    - destruct (eio_of (t_cause t)); intro H; inversion H; subst; clear H; [right|left; reflexivity].
      destruct lk; cbn [measure set_pc t_pc t_todo]; lia.
    - destruct osid as [sid|].
      + destruct (is_connected m (Some sid) (t_ns t)).
        * intro H; inversion H; subst; clear H. right. cbn [measure set_pc t_pc t_todo]. lia.
        * destruct (end_ns t None) as [t2 l2] eqn:E. intro H; inversion H; subst; clear H.
          destruct (end_ns_measure t None m1) as [A|A]; rewrite E in A; cbn [fst] in A; [left; exact A|right; lia].
      + destruct (end_ns t None) as [t2 l2] eqn:E. intro H; inversion H; subst; clear H.
        destruct (end_ns_measure t None m1) as [A|A]; rewrite E in A; cbn [fst] in A; [left; exact A|right; lia].
    - destruct (pre_disconnect m sid (t_ns t)) as [m' r]. destruct r as [eio|x].
      + intro H; inversion H; subst; clear H. left. cbn [set_pc t_pc]. destruct (t_cause t); reflexivity.
      + destruct (end_ns t (Some x)) as [t2 l2] eqn:E. intro H; inversion H; subst; clear H.
        destruct (end_ns_measure t (Some x) m1) as [A|A]; rewrite E in A; cbn [fst] in A; [left; exact A|right; lia].
    - destruct (end_ns t e) as [t2 l2] eqn:E. intro H; inversion H; subst; clear H.
      destruct (end_ns_measure t e (mgr_disconnect m sid (t_ns t))) as [A|A]; rewrite E in A; cbn [fst] in A; [left; exact A|right; lia].
    - destruct (eio_of (t_cause t)); intro H; inversion H; subst; clear H; left; reflexivity.
    - destruct (is_connected m (Some psid) (t_ns t)).
      + intro H; inversion H; subst; clear H. right. cbn [measure set_pc t_pc t_todo]. lia.
      + destruct (end_ns t None) as [t2 l2] eqn:E. intro H; inversion H; subst; clear H.
        destruct (end_ns_measure t None m1) as [A|A]; rewrite E in A; cbn [fst] in A; [left; exact A|right; lia].
    - intro H; inversion H; subst; clear H. right. cbn [measure set_pc t_pc t_todo]. lia.
  Qed.

  Lemma measure_zero m t : measure m t = 0 -> suspended (t_pc t) = true.
  Proof. unfold measure. destruct (t_pc t); try reflexivity; lia. Qed.

  Lemma quiet_but_upd l i t' : quiet_but l i -> quiet_but (upd l i t') i.
  Proof. intros H j u Hj N. rewrite nth_upd_other in Hj by congruence. eauto. Qed.

  Lemma lift_cont fuel : forall c i t,
    P c -> quiet_but (c_tasks c) i -> nth_error (c_tasks c) i = Some t ->
    forall m env t' l, cont lk R fuel (c_mgr c) (c_env c) t = (m, env, t', l) ->
    P (mkCfg m env (upd (c_tasks c) i t') (c_log c ++ l)) /\
    (measure (c_mgr c) t <= fuel -> suspended (t_pc t') = true).
  Proof.
    induction fuel as [|f IH]; intros c i t HS Hq Hn m env t' l; cbn [cont].
    - intro H; inversion H; subst; clear H. rewrite app_nil_r, (upd_same _ _ _ Hn), <- cfg_eta.
      split; [exact HS|]. intro Hm. apply (measure_zero (c_mgr c)). lia.
    - destruct (suspended (t_pc t)) eqn:Hs.
      + intro H; inversion H; subst; clear H. rewrite app_nil_r, (upd_same _ _ _ Hn), <- cfg_eta.
        split; [exact HS|]. intros _. exact Hs.
      + destruct (micro lk R (c_mgr c) (c_env c) t) as [[[m1 env1] t1] l1] eqn:E1.
        destruct (cont lk R f m1 env1 t1) as [[[m2 env2] t2] l2] eqn:E2.
        intro H; inversion H; subst; clear H.
        set (c1 := mkCfg m1 env1 (upd (c_tasks c) i t1) (c_log c ++ l1)).
        assert (HS1 : P c1).
        { eapply P_micro; eauto. apply (quiet_but_ndw _ i). exact Hq. }
        assert (Hq1 : quiet_but (c_tasks c1) i) by (apply quiet_but_upd; exact Hq).
        assert (Hn1 : nth_error (c_tasks c1) i = Some t1) by (eapply nth_upd_same; exact Hn).
        destruct (IH c1 i t1 HS1 Hq1 Hn1 m env t' l2 E2) as [A B].
        unfold c1 in A. cbn [c_tasks c_log] in A. rewrite upd_upd, <- app_assoc in A.
        split; [exact A|]. intro Hm.
        destruct (micro_measure _ _ _ _ _ _ _ Hs E1) as [S1|M1].
        * destruct f; cbn [cont] in E2; [|rewrite S1 in E2]; inversion E2; subst; exact S1.
        * apply B. unfold c1. cbn [c_mgr]. lia.
  Qed.

  (* nobody stands inside a check-then-mark window *)
  Definition quiet (c : cfg) : Prop := forall t, In t (c_tasks c) -> window_of t = None.

  Lemma quiet_quiet_but c i : quiet c -> quiet_but (c_tasks c) i.
  Proof. intros H j t Hj _. apply H. eapply nth_error_In; exact Hj. Qed.

  Lemma suspended_no_window t : suspended (t_pc t) = true -> window_of t = None.
  Proof. unfold window_of. destruct (t_pc t); try reflexivity; discriminate. Qed.

  Lemma lift_block c i t :
    P c -> quiet c -> nth_error (c_tasks c) i = Some t ->
    forall m env t' l, block lk R (c_mgr c) (c_env c) t = (m, env, t', l) ->
    P (mkCfg m env (upd (c_tasks c) i t') (c_log c ++ l)) /\
    quiet (mkCfg m env (upd (c_tasks c) i t') (c_log c ++ l)).
  Proof.
    intros HS Hq Hn m env t' l. unfold block.
    destruct (micro lk R (c_mgr c) (c_env c) t) as [[[m1 env1] t1] l1] eqn:E1.
    destruct (cont lk R (measure m1 t1) m1 env1 t1) as [[[m2 env2] t2] l2] eqn:E2.
    intro H; inversion H; subst; clear H.
    set (c1 := mkCfg m1 env1 (upd (c_tasks c) i t1) (c_log c ++ l1)).
    assert (HS1 : P c1).
    { eapply P_micro; eauto. apply (quiet_but_ndw _ i). apply quiet_quiet_but. exact Hq. }
    assert (Hq1 : quiet_but (c_tasks c1) i) by (apply quiet_but_upd, quiet_quiet_but; exact Hq).
    assert (Hn1 : nth_error (c_tasks c1) i = Some t1) by (eapply nth_upd_same; exact Hn).
    destruct (lift_cont _ c1 i t1 HS1 Hq1 Hn1 _ _ _ _ E2) as [A B].
    unfold c1 in A. cbn [c_tasks c_log] in A. rewrite upd_upd, <- app_assoc in A.
    split; [exact A|].
    intros u Hu. cbn [c_tasks] in Hu. apply in_upd in Hu as [->|Hu]; [|apply Hq; exact Hu].
    apply suspended_no_window. apply B. unfold c1. cbn [c_mgr]. lia.
  Qed.

  (* ---- the lock ---- *)
  (* at most one task is inside the critical section *)
  Definition cs_unique (l : list task) : Prop :=
    forall i j ti tj, nth_error l i = Some ti -> nth_error l j = Some tj ->
                      in_cs ti = true -> in_cs tj = true -> i = j.

  Lemma window_in_cs t : window_of t <> None -> in_cs t = true.
  Proof. unfold window_of, in_cs. destruct (t_pc t); try congruence; reflexivity. Qed.

  Lemma cs_unique_tl t l : cs_unique (t :: l) -> cs_unique l.
  Proof. intros H i j ti tj Hi Hj Ci Cj. assert (S i = S j) by (eapply H; eauto). congruence. Qed.

  Lemma cs_ndw l : cs_unique l -> double_window_l l = false.
  Proof.
    induction l as [|t l IH]; intro H; [reflexivity|]. cbn [double_window_l].
    rewrite (IH (cs_unique_tl _ _ H)), orb_false_r.
    apply not_true_is_false. intro E. apply existsb_exists in E as (u & Hu & Es).
    apply In_nth_error in Hu as (j & Hj).
    assert (0 = S j); [|discriminate].
    apply (H 0 (S j) t u eq_refl Hj); apply window_in_cs; intro N; rewrite N in Es.
    - discriminate.
    - destruct (window_of t) as [[? ?]|]; discriminate.
  Qed.

  Lemma other_in_cs_false l : forall i, other_in_cs l i = false ->
    forall j u, nth_error l j = Some u -> j <> i -> in_cs u = false.
  Proof.
    induction l as [|t l IH]; intros [|i] H j u Hj N; cbn [other_in_cs] in H.
    - destruct j; discriminate.
    - destruct j; discriminate.
    - destruct j as [|j]; [congruence|]. cbn [nth_error] in Hj.
      destruct (in_cs u) eqn:E; [|reflexivity]. rewrite <- H. symmetry. apply existsb_exists.
      exists u. split; [eapply nth_error_In; exact Hj|exact E].
    - apply orb_false_iff in H as [H1 H2]. destruct j as [|j].
      + cbn [nth_error] in Hj. inversion Hj; subst. exact H1.
      + cbn [nth_error] in Hj. apply (IH i H2 j u Hj). congruence.
  Qed.

  Lemma end_ns_not_cs t e : in_cs (fst (end_ns t e)) = false.
  Proof. destruct t as [k p n td ex]. unfold end_ns. cbn. destruct k; try reflexivity. destruct td; reflexivity. Qed.

  (* with the locked code the critical section is entered through the acquire only *)
  Lemma micro_cs m env t m' env' t' l :
    lk = true -> micro lk R m env t = (m', env', t', l) -> in_cs t' = true -> in_cs t = true \/ at_acq t = true.
  Proof.
    intros ->. unfold micro, in_cs at 2, at_acq.
    destruct (t_pc t) as [| |osid|sid|sid eio|sid|sid e| | |psid|aosid] eqn:Hpc; auto.
    - destruct (end_ns _ None) as [t1 l1] eqn:E. intro H; inversion H; subst.
      change t' with (fst (t', l1)). rewrite <- E, end_ns_not_cs. discriminate.
    - destruct (eio_of (t_cause t)); intro H; inversion H; subst; discriminate.
    - intro H; inversion H; subst; discriminate.
    - intro H; inversion H; subst; discriminate.
    - destruct (end_ns t e) as [t1 l1] eqn:E. intro H; inversion H; subst.
      change t' with (fst (t', l1)). rewrite <- E, end_ns_not_cs. discriminate.
    - destruct (eio_of (t_cause t)); intro H; inversion H; subst; discriminate.
    - intro H; inversion H; subst. unfold in_cs. rewrite Hpc. discriminate.
    - destruct (is_connected m (Some psid) (t_ns t)).
      + intro H; inversion H; subst; discriminate.
      + destruct (end_ns t None) as [t1 l1] eqn:E. intro H; inversion H; subst.
        change t' with (fst (t', l1)). rewrite <- E, end_ns_not_cs. discriminate.
  Qed.

  Lemma lift_locked c i t :
    lk = true -> P c -> cs_unique (c_tasks c) -> nth_error (c_tasks c) i = Some t ->
    (at_acq t = true -> other_in_cs (c_tasks c) i = false) ->
    forall m env t' l, micro lk R (c_mgr c) (c_env c) t = (m, env, t', l) ->
    P (mkCfg m env (upd (c_tasks c) i t') (c_log c ++ l)) /\ cs_unique (upd (c_tasks c) i t').
  Proof.
    intros Hlk HS Hcs Hn Hfree m env t' l E.
    split; [eapply P_micro; eauto; apply cs_ndw; exact Hcs|].
    assert (Hothers : in_cs t' = true -> forall j u, nth_error (c_tasks c) j = Some u -> j <> i -> in_cs u = false).
    { intros Ht' j u Hj N. destruct (micro_cs _ _ _ _ _ _ _ Hlk E Ht') as [A|A].
      - destruct (in_cs u) eqn:Eu; [|reflexivity]. exfalso. apply N. eapply Hcs; eauto.
      - eapply other_in_cs_false; eauto. }
    intros a b ta tb Ha Hb Ca Cb.
    destruct (Nat.eq_dec a i) as [->|Na]; destruct (Nat.eq_dec b i) as [->|Nb]; [reflexivity| | |].
    - rewrite (nth_upd_same _ _ _ _ Hn) in Ha. inversion Ha; subst ta.
      rewrite nth_upd_other in Hb by congruence. rewrite (Hothers Ca b tb Hb Nb) in Cb. discriminate.
    - rewrite (nth_upd_same _ _ _ _ Hn) in Hb. inversion Hb; subst tb.
      rewrite nth_upd_other in Ha by congruence. rewrite (Hothers Cb a ta Ha Na) in Ca. discriminate.
    - rewrite nth_upd_other in Ha, Hb by congruence. eapply Hcs; eauto.
  Qed.
End Lift.

(* ---- schedules of the three granularities ---- *)
Section LiftRuns.
  Variable R : list str.
  Variable P : cfg -> Prop.

  Section Unlocked.
    Hypothesis P_micro : forall c i t,
      P c -> double_window c = false -> nth_error (c_tasks c) i = Some t ->
      forall m env t' l, micro false R (c_mgr c) (c_env c) t = (m, env, t', l) ->
      P (mkCfg m env (upd (c_tasks c) i t') (c_log c ++ l)).

    Lemma lift_step_thread c i :
      P c -> double_window c = false -> P (fst (step GThread R c i)).
    Proof.
      intros HS Hndw. unfold step. destruct (nth_error (c_tasks c) i) as [t|] eqn:Hn; [|exact HS].
      cbn [locked_code andb move]. destruct (micro false R (c_mgr c) (c_env c) t) as [[[m env] t'] l] eqn:E. cbn [fst].
      eapply P_micro; eauto.
    Qed.

    Lemma lift_run_thread sched : forall c,
      P c -> no_double_check GThread R c sched -> P (run GThread R c sched).
    Proof.
      induction sched as [|i r IH]; intros c HS H; cbn [run]; [exact HS|].
      destruct H as [H1 H2]. apply IH; [apply lift_step_thread; assumption|exact H2].
    Qed.

    Lemma lift_step_async c i :
      P c -> quiet c -> P (fst (step GAsync R c i)) /\ quiet (fst (step GAsync R c i)).
    Proof.
      intros HS Hq. unfold step. destruct (nth_error (c_tasks c) i) as [t|] eqn:Hn; [|split; assumption].
      cbn [locked_code andb move]. destruct (block false R (c_mgr c) (c_env c) t) as [[[m env] t'] l] eqn:E. cbn [fst].
      eapply (lift_block false R P P_micro); eauto.
    Qed.

    Lemma lift_run_async sched : forall c,
      P c -> quiet c -> P (run GAsync R c sched) /\ quiet (run GAsync R c sched).
    Proof.
      induction sched as [|i r IH]; intros c HS Hq; cbn [run]; [split; assumption|].
      destruct (lift_step_async c i HS Hq) as [A B]. apply IH; assumption.
    Qed.
  End Unlocked.

  Section Locked.
    Hypothesis P_micro : forall c i t,
      P c -> double_window c = false -> nth_error (c_tasks c) i = Some t ->
      forall m env t' l, micro true R (c_mgr c) (c_env c) t = (m, env, t', l) ->
      P (mkCfg m env (upd (c_tasks c) i t') (c_log c ++ l)).

    Lemma lift_step_locked c i :
      P c -> cs_unique (c_tasks c) ->
      P (fst (step GLocked R c i)) /\ cs_unique (c_tasks (fst (step GLocked R c i))).
    Proof.
      intros HS Hcs. unfold step. destruct (nth_error (c_tasks c) i) as [t|] eqn:Hn; [|split; assumption].
      cbn [locked_code andb move].
      destruct (at_acq t && other_in_cs (c_tasks c) i) eqn:Eb; [split; assumption|].
      destruct (micro true R (c_mgr c) (c_env c) t) as [[[m env] t'] l] eqn:E. cbn [fst c_tasks].
      eapply (lift_locked true R P P_micro); eauto.
      intro Ha. rewrite Ha in Eb. exact Eb.
    Qed.

    Lemma lift_run_locked sched : forall c,
      P c -> cs_unique (c_tasks c) ->
      P (run GLocked R c sched) /\ cs_unique (c_tasks (run GLocked R c sched)).
    Proof.
      induction sched as [|i r IH]; intros c HS Hq; cbn [run]; [split; assumption|].
      destruct (lift_step_locked c i HS Hq) as [A B]. apply IH; assumption.
    Qed.
  End Locked.
End LiftRuns.

(* ------------------------------------------------------------------ *)
(* the remaining invariants: no exception, progress, environ           *)
(* ------------------------------------------------------------------ *)
Lemma end_ns_none_labels t : snd (end_ns t None) = [].
Proof. destruct t as [k p n td ex]. unfold end_ns. cbn. destruct k; try reflexivity. destruct td; reflexivity. Qed.

Lemma micro_cause lk R m env t m' env' t' l : micro lk R m env t = (m', env', t', l) -> t_cause t' = t_cause t.
Proof.
  unfold micro. destruct (t_pc t) as [| |osid|sid|sid eio|sid|sid e| | |psid|aosid].
  - destruct (end_ns _ None) as [t1 l1] eqn:E. intro H; inversion H; subst.
    change t' with (fst (t', l1)). rewrite <- E, end_ns_cause. reflexivity.
  - destruct (eio_of (t_cause t)); intro H; inversion H; reflexivity.
  - destruct osid as [sid|]; [destruct (is_connected m (Some sid) (t_ns t))|].
    + intro H; inversion H; reflexivity.
    + destruct (end_ns t None) as [t1 l1] eqn:E. intro H; inversion H; subst.
      change t' with (fst (t', l1)). rewrite <- E, end_ns_cause. reflexivity.
    + destruct (end_ns t None) as [t1 l1] eqn:E. intro H; inversion H; subst.
      change t' with (fst (t', l1)). rewrite <- E, end_ns_cause. reflexivity.
  - destruct (pre_disconnect m sid (t_ns t)) as [m1 r]. destruct r as [eio|x].
    + intro H; inversion H; reflexivity.
    + destruct (end_ns t (Some x)) as [t1 l1] eqn:E. intro H; inversion H; subst.
      change t' with (fst (t', l1)). rewrite <- E, end_ns_cause. reflexivity.
  - intro H; inversion H; reflexivity.
  - intro H; inversion H; reflexivity.
  - destruct (end_ns t e) as [t1 l1] eqn:E. intro H; inversion H; subst.
    change t' with (fst (t', l1)). rewrite <- E, end_ns_cause. reflexivity.
  - destruct (eio_of (t_cause t)); intro H; inversion H; reflexivity.
  - intro H; inversion H; reflexivity.
  - destruct (is_connected m (Some psid) (t_ns t)).
    + intro H; inversion H; reflexivity.
    + destruct (end_ns t None) as [t1 l1] eqn:E. intro H; inversion H; subst.
      change t' with (fst (t', l1)). rewrite <- E, end_ns_cause. reflexivity.
  - intro H; inversion H; reflexivity.
Qed.

Section Full.
  Variables (lk : bool) (R : list str) (m0 : mgr) (env0 : list str) (causes : list cause).
  Hypothesis WF0 : WF m0.

  (* what the mark step does in a safe state without a doubly open window *)
  Lemma micro_mark_ok c i t sid :
    Safe m0 c -> double_window c = false -> nth_error (c_tasks c) i = Some t -> t_pc t = PMark sid ->
    exists e, mem (c_mgr c) (t_ns t) PNone sid = Some e /\
      micro lk R (c_mgr c) (c_env c) t =
      (fst (pre_disconnect (c_mgr c) sid (t_ns t)), c_env c,
       set_pc t (match t_cause t with CApi _ _ => PSend sid (Some e) | _ => PCall sid end),
       [LMark sid (t_ns t) (Ok (Some e))]).
  Proof.
    intros HS Hndw Hn Hpc.
    destruct (safe_mark m0 c i t sid (PCall sid) [] HS Hndw Hn Hpc (or_introl eq_refl)) as (e & He & Hs & _).
    { intros ? ? ? []. }
    exists e. split; [exact He|]. unfold micro. rewrite Hpc.
    rewrite (surjective_pairing (pre_disconnect (c_mgr c) sid (t_ns t))), Hs. reflexivity.
  Qed.

  (* ---- no exception (when no scripted handler raises) ---- *)
  Definition calm_task (t : task) : Prop := t_exc t = None /\ forall s e, t_pc t = PFin s e -> e = None.
  Definition Calm (c : cfg) : Prop :=
    R = [] -> raised (c_log c) = false /\ forall t, In t (c_tasks c) -> calm_task t.

  Lemma end_ns_calm t : t_exc t = None -> calm_task (fst (end_ns t None)).
  Proof.
    destruct t as [k p n td ex]. cbn [t_exc]. intros ->. unfold end_ns, calm_task. cbn.
    destruct k; cbn; [split; [reflexivity|discriminate]|split; [reflexivity|discriminate]|].
    destruct td; cbn; split; try reflexivity; discriminate.
  Qed.

  Lemma calm_micro c i t :
    Safe m0 c -> double_window c = false -> Calm c -> nth_error (c_tasks c) i = Some t ->
    forall m env t' l, micro lk R (c_mgr c) (c_env c) t = (m, env, t', l) ->
    Calm (mkCfg m env (upd (c_tasks c) i t') (c_log c ++ l)).
  Proof.
    intros HS Hndw HC Hn m env t' l E HR. destruct (HC HR) as [Hr Ht]. cbn [c_log c_tasks].
    assert (Hct : calm_task t) by (apply Ht; eapply nth_error_In; exact Hn).
    destruct Hct as [Hexc Hfin].
    assert (Goal : raised l = false /\ calm_task t').
    { destruct (t_pc t) as [| |osid|sid|sid eio|sid|sid e| | |psid|aosid] eqn:Hpc.
      - unfold micro in E. rewrite Hpc in E.
        set (t0 := mkTask (t_cause t) PInit (t_ns t) (get_namespaces (c_mgr c)) (t_exc t)) in E.
        destruct (end_ns t0 None) as [t1 l1] eqn:E1. inversion E; subst; clear E.
        assert (l1 = []) by (change l1 with (snd (t', l1)); rewrite <- E1; apply end_ns_none_labels). subst l1.
        split; [reflexivity|]. change t' with (fst (t', @nil lbl)). rewrite <- E1. apply end_ns_calm. exact Hexc.
      - unfold micro in E. rewrite Hpc in E.
        destruct (eio_of (t_cause t)); inversion E; subst; clear E; (split; [reflexivity|]);
          (split; [exact Hexc|cbn; destruct lk; discriminate]).
      - unfold micro in E. rewrite Hpc in E.
        assert (Hend : forall t1 l1, end_ns t None = (t1, l1) -> l1 = [] /\ calm_task t1).
        { intros t1 l1 E1. split; [change l1 with (snd (t1, l1)); rewrite <- E1; apply end_ns_none_labels|].
          change t1 with (fst (t1, l1)). rewrite <- E1. apply end_ns_calm. exact Hexc. }
        destruct osid as [sid|]; [destruct (is_connected (c_mgr c) (Some sid) (t_ns t))|].
        + inversion E; subst; clear E. split; [reflexivity|]. split; [exact Hexc|cbn; discriminate].
        + destruct (end_ns t None) as [t1 l1] eqn:E1. inversion E; subst; clear E.
          destruct (Hend _ _ eq_refl) as [-> Hc]. split; [reflexivity|exact Hc].
        + destruct (end_ns t None) as [t1 l1] eqn:E1. inversion E; subst; clear E.
          destruct (Hend _ _ eq_refl) as [-> Hc]. split; [reflexivity|exact Hc].
      - destruct (micro_mark_ok c i t sid HS Hndw Hn Hpc) as (e & _ & Em). rewrite Em in E.
        inversion E; subst; clear E. split; [reflexivity|]. split; [exact Hexc|].
        cbn. destruct (t_cause t); discriminate.
      - unfold micro in E. rewrite Hpc in E. inversion E; subst; clear E.
        split; [reflexivity|]. split; [exact Hexc|cbn; discriminate].
      - unfold micro in E. rewrite Hpc in E. inversion E; subst; clear E.
        split; [reflexivity|]. split; [exact Hexc|]. cbn. intros s e H. inversion H; subst. rewrite HR. reflexivity.
      - unfold micro in E. rewrite Hpc in E. rewrite (Hfin sid e eq_refl) in E.
        destruct (end_ns t None) as [t1 l1] eqn:E1. inversion E; subst; clear E.
        assert (l1 = []) by (change l1 with (snd (t', l1)); rewrite <- E1; apply end_ns_none_labels). subst l1.
        split; [reflexivity|]. change t' with (fst (t', @nil lbl)). rewrite <- E1. apply end_ns_calm. exact Hexc.
      - unfold micro in E. rewrite Hpc in E. rewrite Hexc in E.
        destruct (eio_of (t_cause t)); inversion E; subst; clear E; (split; [reflexivity|]);
          (split; [exact Hexc|cbn; discriminate]).
      - unfold micro in E. rewrite Hpc in E. inversion E; subst; clear E.
        split; [reflexivity|]. split; [exact Hexc|rewrite Hpc; discriminate].
      - unfold micro in E. rewrite Hpc in E.
        destruct (is_connected (c_mgr c) (Some psid) (t_ns t)).
        + inversion E; subst; clear E. split; [reflexivity|]. split; [exact Hexc|cbn; discriminate].
        + destruct (end_ns t None) as [t1 l1] eqn:E1. inversion E; subst; clear E.
          assert (l1 = []) by (change l1 with (snd (t', l1)); rewrite <- E1; apply end_ns_none_labels). subst l1.
          split; [reflexivity|]. change t' with (fst (t', @nil lbl)). rewrite <- E1. apply end_ns_calm. exact Hexc.
      - unfold micro in E. rewrite Hpc in E. inversion E; subst; clear E.
        split; [reflexivity|]. split; [exact Hexc|cbn; discriminate]. }
    destruct Goal as [G1 G2]. split.
    - rewrite raised_app, Hr, G1. reflexivity.
    - intros u Hu. apply in_upd in Hu as [->|Hu]; [exact G2|apply Ht; exact Hu].
  Qed.

  (* ---- shape of the tasks ---- *)
  Definition tidy (t : task) : Prop :=
    match t_cause t with
    | CApi _ _ => t_todo t = [] /\ t_pc t <> PInit /\ t_pc t <> PLookup /\ t_pc t <> PEnv
    | CClient _ _ => t_todo t = [] /\ t_pc t <> PInit /\ t_pc t <> PEnv
    | CLoss _ _ => True
    end.
  Lemma tidy_micro m env t m' env' t' l : tidy t -> micro lk R m env t = (m', env', t', l) -> tidy t'.
  Proof.
    destruct t as [k p n td ex]. unfold tidy, micro. cbn [t_cause t_pc t_ns t_todo t_exc].
    destruct lk; destruct k as [s0 n0|e0 n0|e0 r0]; destruct p as [| |osid|sid|sid eio|sid|sid e| | |psid|aosid]; cbn -[is_connected pre_disconnect];
      intros Ht E;
      repeat (match type of E with
              | context [is_connected ?a ?b ?c] => destruct (is_connected a b c)
              | context [pre_disconnect ?a ?b ?c] => destruct (pre_disconnect a b c) as [? [?|?]]
              | context [match ?x with Some _ => _ | None => _ end] => destruct x
              | context [match ?x with [] => _ | _ :: _ => _ end] => destruct x
              end; cbn -[is_connected pre_disconnect] in E);
      try (inversion E; subst; cbn; intuition congruence).
  Qed.
  Lemma tidy_spawn k : tidy (spawn lk k).
  Proof. destruct k; destruct lk; cbn; intuition congruence. Qed.

  (* ---- the manager only moves towards "not connected" ---- *)
  Lemma micro_mgr m env t m' env' t' l :
    micro lk R m env t = (m', env', t', l) ->
    m' = m \/ (exists sid, t_pc t = PMark sid /\ m' = fst (pre_disconnect m sid (t_ns t))) \/
    (exists sid e, t_pc t = PFin sid e /\ m' = mgr_disconnect m sid (t_ns t)).
  Proof.
    unfold micro. destruct (t_pc t) as [| |osid|sid|sid eio|sid|sid e| | |psid|aosid].
    - destruct (end_ns _ None). intro H; inversion H; auto.
    - destruct (eio_of (t_cause t)); intro H; inversion H; auto.
    - destruct osid as [sid|]; [destruct (is_connected m (Some sid) (t_ns t))|].
      + intro H; inversion H; auto.
      + destruct (end_ns t None). intro H; inversion H; auto.
      + destruct (end_ns t None). intro H; inversion H; auto.
    - right; left. exists sid. split; [reflexivity|].
      destruct (pre_disconnect m sid (t_ns t)) as [m1 r]. destruct r as [eio|x].
      + inversion H; reflexivity.
      + destruct (end_ns t (Some x)). inversion H; reflexivity.
    - intro H; inversion H; auto.
    - intro H; inversion H; auto.
    - right; right. exists sid, e. split; [reflexivity|]. destruct (end_ns t e). inversion H; reflexivity.
    - destruct (eio_of (t_cause t)); intro H; inversion H; auto.
    - intro H; inversion H; auto.
    - destruct (is_connected m (Some psid) (t_ns t)); [intro H; inversion H; auto|].
      destruct (end_ns t None). intro H; inversion H; auto.
    - intro H; inversion H; auto.
  Qed.

  Lemma micro_mono m env t m' env' t' l :
    WF m -> micro lk R m env t = (m', env', t', l) ->
    forall ns s, mb m' ns s = 1 -> pcount m' ns s = 0 -> mb m ns s = 1 /\ pcount m ns s = 0.
  Proof.
    intros HW E ns s H1 H2. destruct (micro_mgr _ _ _ _ _ _ _ E) as [->|[(sid & _ & ->)|(sid & e & _ & ->)]].
    - auto.
    - destruct (pre_disconnect_fst m sid (t_ns t)) as (Er & _ & Ep).
      rewrite Ep in H2. unfold mb in *. rewrite (mem_ext _ _ Er) in H1. split; [exact H1|lia].
    - destruct (mgr_disconnect_spec m sid (t_ns t) HW) as (_ & Erem & _ & Enone).
      destruct (ns_rooms m (t_ns t)) eqn:Ens.
      + pose proof (mgr_disconnect_pcount m sid (t_ns t) (proj1 HW)) as Ep. rewrite Ens in Ep.
        specialize (Ep ltac:(discriminate)). rewrite Ep in H2. unfold mb in *.
        rewrite (Erem ns PNone s room_ok_None) in H1.
        destruct (str_eqb (t_ns t) ns && str_eqb sid s); [discriminate|]. split; [exact H1|lia].
      + rewrite (Enone eq_refl) in *.
        assert (Hr : rooms (disc_release m sid (t_ns t)) = rooms m) by apply disc_release_rooms.
        unfold mb in *. rewrite (mem_ext _ _ Hr) in H1. split; [exact H1|].
        rewrite (disc_release_pcount m sid (t_ns t) ltac:(apply HW)) in H2.
        destruct (str_eqb (t_ns t) ns && str_eqb sid s) eqn:Eb; [|lia].
        apply andb_true_iff in Eb as [E1 E2]. apply str_eqb_eq in E1, E2. subst ns s.
        exfalso. unfold mem, look, nsmap, agetd in H1. unfold ns_rooms in Ens. rewrite Ens in H1.
        cbn in H1. discriminate.
  Qed.

  (* ---- progress: a connected client some task is aimed at is still ahead of that task ---- *)
  Definition ahead (s ns : str) (t : task) : Prop :=
    match t_pc t with
    | PInit => True
    | PLookup => t_ns t = ns \/ In ns (t_todo t)
    | PCheck o => (t_ns t = ns /\ o = Some s) \/ In ns (t_todo t)
    | PMark s' => (t_ns t = ns /\ s' = s) \/ In ns (t_todo t)
    | PSend _ _ | PCall _ | PFin _ _ => In ns (t_todo t)
    | PEnv | PDone => False
    | PPre s' => (t_ns t = ns /\ s' = s) \/ In ns (t_todo t)
    | PAcq o => (t_ns t = ns /\ o = Some s) \/ In ns (t_todo t)
    end.
  Definition Ahead (c : cfg) : Prop :=
    forall t, In t (c_tasks c) ->
      tidy t /\ forall s ns, targets m0 (t_cause t) s ns ->
                 mb (c_mgr c) ns s = 1 -> pcount (c_mgr c) ns s = 0 -> ahead s ns t.

  Lemma end_ns_ahead t e s ns : tidy t -> In ns (t_todo t) -> ahead s ns (fst (end_ns t e)).
  Proof.
    destruct t as [k p n td ex]. unfold tidy, end_ns, ahead. cbn [t_cause t_pc t_ns t_todo t_exc].
    destruct k; cbn.
    - intros [-> _] [].
    - intros [-> _] [].
    - intros _ H. destruct td as [|x td]; [destruct H|]. cbn. destruct H as [->|H]; auto.
  Qed.

  Lemma target_member k s ns eio :
    eio_of k = Some eio -> targets m0 k s ns -> mem m0 ns PNone s = Some eio.
  Proof.
    destruct k as [s0 n0|e0 n0|e0 r0]; cbn; intro H; inversion H; subst; clear H.
    - intros [_ H]. apply sid_from_eio_spec; assumption.
    - intro H. apply sid_from_eio_spec; assumption.
  Qed.

  Lemma ahead_moving c i t s ns :
    Safe m0 c -> double_window c = false -> nth_error (c_tasks c) i = Some t -> tidy t ->
    targets m0 (t_cause t) s ns -> ahead s ns t ->
    forall m env t' l, micro lk R (c_mgr c) (c_env c) t = (m, env, t', l) ->
    mb m ns s = 1 -> pcount m ns s = 0 -> ahead s ns t'.
  Proof.
    intros HS Hndw Hn Htidy Htg Ha m env t' l E Hmb Hpc0.
    destruct (micro_mono _ _ _ _ _ _ _ (s_wf m0 c HS) E ns s Hmb Hpc0) as [Hmbc Hpcc].
    destruct (t_pc t) as [| |osid|sid|sid eio|sid|sid e| | |psid|aosid] eqn:Hpc; unfold ahead in Ha; rewrite Hpc in Ha.
    - (* PInit *)
      unfold micro in E. rewrite Hpc in E.
      set (t0 := mkTask (t_cause t) PInit (t_ns t) (get_namespaces (c_mgr c)) (t_exc t)) in E.
      destruct (end_ns t0 None) as [t1 l1] eqn:E1. inversion E; subst; clear E.
      change t' with (fst (t', l1)). rewrite <- E1. apply end_ns_ahead.
      + unfold tidy, t0. cbn [t_cause t_todo t_pc]. unfold tidy in Htidy. rewrite Hpc in Htidy.
        destruct (t_cause t); [destruct Htidy as (_ & N & _); congruence|destruct Htidy as (_ & N & _); congruence|exact I].
      + unfold t0. cbn [t_todo]. apply mb_one in Hmbc as [e0 He0]. eapply member_namespace; exact He0.
    - (* PLookup *)
      unfold micro in E. rewrite Hpc in E. destruct (eio_of (t_cause t)) as [eio|] eqn:Eeio.
      + inversion E; subst; clear E.
        assert (Hgoal : (t_ns t = ns /\ sid_from_eio (c_mgr c) eio (t_ns t) = Some s) \/ In ns (t_todo t));
          [|unfold ahead; destruct lk; cbn [set_pc t_pc t_ns t_todo]; exact Hgoal].
        destruct Ha as [Hns|Hin]; [left|right; exact Hin]. split; [exact Hns|]. rewrite Hns.
        apply sid_from_eio_spec; [apply HS|].
        pose proof (target_member _ _ _ _ Eeio Htg) as Hm0.
        rewrite (s_frame m0 c HS ns PNone s room_ok_None).
        apply mb_one in Hmbc as [e0 He0]. rewrite He0. cbn [is_some]. exact Hm0.
      + exfalso. unfold tidy in Htidy. rewrite Hpc in Htidy. destruct (t_cause t); try discriminate Eeio.
        destruct Htidy as (_ & _ & N & _). congruence.
    - (* PCheck *)
      unfold micro in E. rewrite Hpc in E.
      destruct Ha as [[Hns ->]|Hin].
      + assert (Hc : is_connected (c_mgr c) (Some s) (t_ns t) = true).
        { rewrite Hns, is_connected_spec, Hpcc. cbn. apply mb_one in Hmbc as [e0 ->]. reflexivity. }
        rewrite Hc in E. inversion E; subst; clear E. unfold ahead. cbn. left. auto.
      + destruct osid as [sid|]; [destruct (is_connected (c_mgr c) (Some sid) (t_ns t))|].
        * inversion E; subst; clear E. unfold ahead. cbn. right. exact Hin.
        * destruct (end_ns t None) as [t1 l1] eqn:E1. inversion E; subst; clear E.
          change t' with (fst (t', l1)). rewrite <- E1. apply end_ns_ahead; assumption.
        * destruct (end_ns t None) as [t1 l1] eqn:E1. inversion E; subst; clear E.
          change t' with (fst (t', l1)). rewrite <- E1. apply end_ns_ahead; assumption.
    - (* PMark *)
      destruct (micro_mark_ok c i t sid HS Hndw Hn Hpc) as (e0 & _ & Em). rewrite Em in E.
      inversion E; subst; clear E.
      destruct Ha as [[Hns ->]|Hin].
      + exfalso. destruct (pre_disconnect_fst (c_mgr c) s (t_ns t)) as (_ & _ & Ep).
        rewrite Ep, Hns, !str_eqb_refl in Hpc0. cbn in Hpc0. lia.
      + unfold ahead. cbn. destruct (t_cause t); exact Hin.
    - unfold micro in E. rewrite Hpc in E. inversion E; subst; clear E. exact Ha.
    - unfold micro in E. rewrite Hpc in E. inversion E; subst; clear E. exact Ha.
    - unfold micro in E. rewrite Hpc in E.
      destruct (end_ns t e) as [t1 l1] eqn:E1. inversion E; subst; clear E.
      change t' with (fst (t', l1)). rewrite <- E1. apply end_ns_ahead; assumption.
    - destruct Ha.
    - destruct Ha.
    - (* PPre *)
      unfold micro in E. rewrite Hpc in E.
      destruct Ha as [[Hns ->]|Hin].
      + assert (Hc : is_connected (c_mgr c) (Some s) (t_ns t) = true).
        { rewrite Hns, is_connected_spec, Hpcc. cbn. apply mb_one in Hmbc as [e0 ->]. reflexivity. }
        rewrite Hc in E. inversion E; subst; clear E. unfold ahead. cbn. left. auto.
      + destruct (is_connected (c_mgr c) (Some psid) (t_ns t)).
        * inversion E; subst; clear E. unfold ahead. cbn. right. exact Hin.
        * destruct (end_ns t None) as [t1 l1] eqn:E1. inversion E; subst; clear E.
          change t' with (fst (t', l1)). rewrite <- E1. apply end_ns_ahead; assumption.
    - (* PAcq *)
      unfold micro in E. rewrite Hpc in E. inversion E; subst; clear E. unfold ahead. cbn. exact Ha.
  Qed.

  Lemma ahead_micro c i t :
    Safe m0 c -> double_window c = false -> Ahead c -> nth_error (c_tasks c) i = Some t ->
    forall m env t' l, micro lk R (c_mgr c) (c_env c) t = (m, env, t', l) ->
    Ahead (mkCfg m env (upd (c_tasks c) i t') (c_log c ++ l)).
  Proof.
    intros HS Hndw HA Hn m env t' l E u Hu. cbn [c_tasks c_mgr] in *.
    assert (Ht : In t (c_tasks c)) by (eapply nth_error_In; exact Hn).
    apply in_upd in Hu as [->|Hu].
    - destruct (HA t Ht) as [Htidy Hah]. split; [eapply tidy_micro; eauto|].
      intros s ns Htg Hmb Hpc0. rewrite (micro_cause _ _ _ _ _ _ _ _ _ E) in Htg.
      destruct (micro_mono _ _ _ _ _ _ _ (s_wf m0 c HS) E ns s Hmb Hpc0) as [Hmbc Hpcc].
      eapply ahead_moving; eauto.
    - destruct (HA u Hu) as [Htidy Hah]. split; [exact Htidy|].
      intros s ns Htg Hmb Hpc0.
      destruct (micro_mono _ _ _ _ _ _ _ (s_wf m0 c HS) E ns s Hmb Hpc0) as [Hmbc Hpcc]. auto.
  Qed.

  (* ---- environ and the task list ---- *)
  Definition Envi (c : cfg) : Prop :=
    map t_cause (c_tasks c) = causes /\
    (forall t e r, In t (c_tasks c) -> t_cause t = CLoss e r -> t_pc t = PDone -> ~ In e (c_env c)) /\
    (forall e, In e env0 -> (forall r, ~ In (CLoss e r) causes) -> In e (c_env c)).

  Lemma in_remove_key x e l : In x (remove_key e l) <-> In x l /\ x <> e.
  Proof.
    unfold remove_key. rewrite filter_In. split; intros [A B]; split; auto.
    - intro; subst. rewrite str_eqb_refl in B. discriminate.
    - rewrite str_neq by exact B. reflexivity.
  Qed.

  Lemma micro_env m env t m' env' t' l :
    tidy t -> micro lk R m env t = (m', env', t', l) ->
    (env' = env /\ (is_loss (t_cause t) = true -> t_pc t' = PDone -> t_pc t = PDone)) \/
    (exists e r, t_cause t = CLoss e r /\ env' = remove_key e env).
  Proof.
    destruct t as [k p n td ex]. unfold tidy, micro. cbn [t_cause t_pc t_ns t_todo t_exc].
    destruct lk; destruct k as [s0 n0|e0 n0|e0 r0]; destruct p as [| |osid|sid|sid eio|sid|sid e| | |psid|aosid]; cbn -[is_connected pre_disconnect];
      intros Ht E;
      repeat (match type of E with
              | context [is_connected ?a ?b ?c] => destruct (is_connected a b c)
              | context [pre_disconnect ?a ?b ?c] => destruct (pre_disconnect a b c) as [? [?|?]]
              | context [match ?x with Some _ => _ | None => _ end] => destruct x
              | context [match ?x with [] => _ | _ :: _ => _ end] => destruct x
              end; cbn -[is_connected pre_disconnect] in E);
      try (inversion E; subst; cbn; first [left; split; [reflexivity|intros; congruence] | right; eauto]);
      try (exfalso; intuition congruence).
  Qed.

  Lemma envi_micro c i t :
    Envi c -> tidy t -> nth_error (c_tasks c) i = Some t ->
    forall m env t' l, micro lk R (c_mgr c) (c_env c) t = (m, env, t', l) ->
    Envi (mkCfg m env (upd (c_tasks c) i t') (c_log c ++ l)).
  Proof.
    intros (Hc & Hl & Hk) Htidy Hn m env t' l E. unfold Envi. cbn [c_tasks c_env].
    assert (Ht : In t (c_tasks c)) by (eapply nth_error_In; exact Hn).
    pose proof (micro_cause _ _ _ _ _ _ _ _ _ E) as Hcause.
    split; [rewrite (map_upd t_cause _ _ _ _ Hn Hcause); exact Hc|].
    destruct (micro_env _ _ _ _ _ _ _ Htidy E) as [[-> Hd]|(e0 & r0 & Hk0 & ->)].
    - split; [|exact Hk].
      intros u e r Hu Hcu Hpu. apply in_upd in Hu as [->|Hu]; [|eapply Hl; eauto].
      rewrite Hcause in Hcu. apply (Hl t e r Ht Hcu). apply Hd; [rewrite Hcu; reflexivity|exact Hpu].
    - split.
      + intros u e r Hu Hcu Hpu Hin. apply in_remove_key in Hin as [Hin Hne].
        apply in_upd in Hu as [->|Hu].
        * rewrite Hcause, Hk0 in Hcu. inversion Hcu; subst. congruence.
        * eapply Hl; eauto.
      + intros e He Hno. apply in_remove_key. split; [apply Hk; assumption|].
        intro; subst e0. apply (Hno r0). rewrite <- Hc, <- Hk0. apply in_map. exact Ht.
  Qed.

  (* ---- everything together ---- *)
  Definition Inv (c : cfg) : Prop := Safe m0 c /\ Calm c /\ Ahead c /\ Envi c.

  Lemma inv_micro c i t :
    Inv c -> double_window c = false -> nth_error (c_tasks c) i = Some t ->
    forall m env t' l, micro lk R (c_mgr c) (c_env c) t = (m, env, t', l) ->
    Inv (mkCfg m env (upd (c_tasks c) i t') (c_log c ++ l)).
  Proof.
    intros (HS & HC & HA & HE) Hndw Hn m env t' l E.
    assert (Htidy : tidy t) by (apply HA; eapply nth_error_In; exact Hn).
    split; [eapply safe_micro; eauto|]. split; [eapply calm_micro; eauto|].
    split; [eapply ahead_micro; eauto|eapply envi_micro; eauto].
  Qed.

  (* ---- the initial configuration ---- *)
  Hypothesis CB0 : NoDup (map fst (callbacks m0)).
  Hypothesis PEND0 : pending m0 = [].

  Lemma pcount0 ns s : pcount m0 ns s = 0.
  Proof. unfold pcount, plist, agetd. rewrite PEND0. reflexivity. Qed.

  Lemma spawn_idle k : idle_pc (t_pc (spawn lk k)) = true.
  Proof. destruct k; destruct lk; reflexivity. Qed.
  Definition c_init : cfg := mkCfg m0 env0 (map (spawn lk) causes) [].
  Lemma init_idle t : In t (map (spawn lk) causes) -> idle_pc (t_pc t) = true.
  Proof. intro H. apply in_map_iff in H as (k & <- & _). apply spawn_idle. Qed.

  Lemma inv_init : Inv c_init.
  Proof.
    unfold c_init. split; [|split; [|split]].
    - constructor; cbn [c_mgr c_tasks c_log].
      + exact WF0.
      + exact CB0.
      + intros s ns. rewrite pcount0, !cnt_zero; [reflexivity| |].
        * intros t Ht. apply idle_post, init_idle, Ht.
        * intros t Ht. apply idle_pre, init_idle, Ht.
      + intros s ns. rewrite cnt_zero by (intros t Ht; apply idle_post, init_idle, Ht). cbn. lia.
      + intros s ns. rewrite !cnt_zero; [lia| |].
        * intros t Ht. apply idle_post, init_idle, Ht.
        * intros t Ht. apply idle_pre, init_idle, Ht.
      + intros s ns H. rewrite cnt_zero in H by (intros t Ht; apply idle_win, init_idle, Ht). lia.
      + intros ns r s Hr. destruct (mem m0 ns PNone s) as [e|] eqn:E; cbn [is_some]; [reflexivity|].
        destruct (mem m0 ns r s) as [e|] eqn:E2; [|reflexivity].
        destruct WF0 as [_ [H3 _]]. rewrite (H3 ns r s e Hr E2) in E. discriminate.
      + reflexivity.
      + intros s ns H1 H2. lia.
    - intros _. split; [reflexivity|]. cbn [c_tasks]. intros t Ht. apply in_map_iff in Ht as (k & <- & _).
      destruct k; destruct lk; split; cbn; try reflexivity; discriminate.
    - intros t Ht. cbn [c_tasks] in Ht. apply in_map_iff in Ht as (k & <- & _). split; [apply tidy_spawn|].
      intros s ns Htg _ _. destruct k; cbn in Htg; unfold ahead.
      + destruct Htg as [-> ->]. destruct lk; cbn; left; auto.
      + destruct Htg as [-> _]. cbn. left. reflexivity.
      + exact I.
    - unfold Envi. cbn [c_tasks c_env]. split; [|split].
      + rewrite map_map. rewrite <- (map_id causes) at 2. apply map_ext. intros k. destruct k; reflexivity.
      + intros t e r Ht _ Hp. apply in_map_iff in Ht as (k & <- & _). destruct k; destruct lk; discriminate.
      + intros e He _. exact He.
  Qed.

  Lemma quiet_init : quiet c_init.
  Proof.
    intros t Ht. cbn [c_init c_tasks] in Ht. pose proof (init_idle t Ht) as H.
    unfold window_of. destruct (t_pc t); try reflexivity; discriminate.
  Qed.
  Lemma ndw_init : double_window c_init = false.
  Proof. apply no_window_ndw. apply quiet_init. Qed.

  (* ---- from the invariant to the property ---- *)
  Lemma in_room_mem m ns r s : in_room m ns r s = is_some (mem m ns r s).
  Proof. unfold in_room. rewrite mem_room_of. destruct (room_of m ns r) as [b|]; [|reflexivity]. destruct (bd_get b s); reflexivity. Qed.

  Lemma all_done_pc c : all_done c = true -> forall t, In t (c_tasks c) -> t_pc t = PDone.
  Proof.
    unfold all_done. rewrite forallb_forall. intros H t Ht. specialize (H t Ht). unfold done in H.
    destruct (t_pc t); try discriminate. reflexivity.
  Qed.

  Lemma inv_outcome c : Inv c -> outcome R m0 env0 causes c.
  Proof.
    intros (HS & HC & HA & (Hcs & Hlost & Hkept)).
    assert (Hbound : forall s ns, hcount s ns (c_log c) <= mb m0 ns s /\
                                  (hcount s ns (c_log c) = 0 -> mb (c_mgr c) ns s = mb m0 ns s)).
    { intros s ns. pose proof (s_hand m0 c HS s ns). pose proof (s_own m0 c HS s ns).
      pose proof (safe_mb_mono m0 c HS ns s). lia. }
    assert (Hdone : all_done c = true -> forall s ns, pcount (c_mgr c) ns s = 0 /\ cnt (at_post s ns) (c_tasks c) = 0).
    { intros Hd s ns. pose proof (all_done_pc c Hd) as Hp.
      assert (A : cnt (at_pre s ns) (c_tasks c) = 0) by (apply cnt_zero; intros t Ht; apply idle_pre; rewrite (Hp t Ht); reflexivity).
      assert (B : cnt (at_post s ns) (c_tasks c) = 0) by (apply cnt_zero; intros t Ht; apply idle_post; rewrite (Hp t Ht); reflexivity).
      rewrite (s_pend m0 c HS). lia. }
    constructor.
    - intros s ns. destruct (Hbound s ns) as [A _]. pose proof (mb_le1 m0 ns s). lia.
    - intros s ns H. destruct (Hbound s ns) as [A _]. pose proof (mb_le1 m0 ns s).
      assert (E : mb m0 ns s = 1) by lia. apply mb_one in E as [e E]. rewrite in_room_mem, E. reflexivity.
    - intro HR. apply (HC HR).
    - intros s ns r H0 Hr. destruct (Hbound s ns) as [_ B]. specialize (B H0).
      rewrite !in_room_mem, (s_frame m0 c HS ns r s Hr).
      destruct (mem (c_mgr c) ns PNone s) as [e|] eqn:E; cbn [is_some]; [reflexivity|].
      assert (E0 : mem m0 ns PNone s = None) by (apply mb_zero; rewrite <- B; apply mb_zero; exact E).
      destruct (mem m0 ns r s) as [e|] eqn:E2; [|reflexivity].
      destruct WF0 as [_ [H3 _]]. rewrite (H3 ns r s e Hr E2) in E0. discriminate.
    - intros s H0. apply (s_cbs m0 c HS). intros ns. apply Hbound. apply H0.
    - intros Hd k s ns Hk Htg Hin0.
      assert (Hmb0 : mb m0 ns s = 1).
      { rewrite in_room_mem in Hin0. unfold mb. rewrite Hin0. reflexivity. }
      destruct (Hdone Hd s ns) as [Hp0 Hpost0].
      assert (Hgone : mb (c_mgr c) ns s = 0).
      { pose proof (mb_le1 (c_mgr c) ns s). destruct (Nat.eq_dec (mb (c_mgr c) ns s) 1) as [E1|]; [|lia]. exfalso.
        rewrite <- Hcs in Hk. apply in_map_iff in Hk as (t & Hct & Ht). destruct (HA t Ht) as [_ Hah].
        rewrite <- Hct in Htg. specialize (Hah s ns Htg E1 Hp0). unfold ahead in Hah.
        rewrite (all_done_pc c Hd t Ht) in Hah. exact Hah. }
      split; [pose proof (s_hand m0 c HS s ns); lia|]. apply mb_zero in Hgone.
      split; [intros r Hr; rewrite in_room_mem, (s_frame m0 c HS ns r s Hr), Hgone; reflexivity|].
      split; [rewrite is_connected_spec, Hgone, andb_false_r; reflexivity|].
      apply (s_cbs_gone m0 c HS s ns Hmb0). apply mb_zero. exact Hgone.
    - intros Hd s ns. rewrite is_pending_count. destruct (Hdone Hd s ns) as [-> _]. reflexivity.
    - intros Hd e r Hk. rewrite <- Hcs in Hk. apply in_map_iff in Hk as (t & Hct & Ht).
      apply (Hlost t e r Ht Hct). apply (all_done_pc c Hd t Ht).
    - exact Hkept.
  Qed.
End Full.

(* ------------------------------------------------------------------ *)
(* the theorems                                                        *)
(* ------------------------------------------------------------------ *)
Section Theorems.
  Variables (R : list str) (m0 : mgr) (env0 : list str) (causes : list cause).
  Hypothesis Q0 : quiescent_start m0.

  Let WF0 : WF m0 := proj1 Q0.
  Let CB0 : NoDup (map fst (callbacks m0)) := proj1 (proj2 Q0).
  Let PEND0 : pending m0 = [] := proj2 (proj2 Q0).
  Let c0 := init GThread m0 env0 causes.
  Let I := Inv R m0 env0 causes.
  Let I_micro lk : forall c i t, I c -> double_window c = false -> nth_error (c_tasks c) i = Some t ->
      forall m env t' l, micro lk R (c_mgr c) (c_env c) t = (m, env, t', l) ->
      I (mkCfg m env (upd (c_tasks c) i t') (c_log c ++ l)) := inv_micro lk R m0 env0 causes WF0.
  Let I_init lk : I (c_init lk m0 env0 causes) := inv_init lk R m0 env0 causes WF0 CB0 PEND0.

  (* asyncio granularity: every schedule *)
  Theorem once_async sched : outcome R m0 env0 causes (run_sched GAsync R causes sched m0 env0).
  Proof.
    unfold run_sched. apply (inv_outcome R m0 env0 causes WF0).
    apply (lift_run_async R I (I_micro false) sched (init GAsync m0 env0 causes)).
    - apply (I_init false).
    - apply (quiet_init false).
  Qed.

  (* asyncio granularity: no task is ever suspended inside a check-then-mark window *)
  Theorem async_window_closed sched :
    forall t, In t (c_tasks (run_sched GAsync R causes sched m0 env0)) -> window_of t = None.
  Proof.
    unfold run_sched. apply (lift_run_async R I (I_micro false) sched (init GAsync m0 env0 causes)).
    - apply (I_init false).
    - apply (quiet_init false).
  Qed.

  (* thread granularity of the code with self._disconnect_lock: every schedule *)
  Lemma cs_unique_init : cs_unique (c_tasks (init GLocked m0 env0 causes)).
  Proof.
    intros i j ti tj Hi _ Ci _. exfalso. apply nth_error_In in Hi. cbn [init c_tasks locked_code] in Hi.
    apply in_map_iff in Hi as (k & <- & _). destruct k; discriminate.
  Qed.

  Theorem locked_all sched : outcome R m0 env0 causes (run_sched GLocked R causes sched m0 env0).
  Proof.
    unfold run_sched. apply (inv_outcome R m0 env0 causes WF0).
    apply (lift_run_locked R I (I_micro true) sched (init GLocked m0 env0 causes)).
    - apply (I_init true).
    - apply cs_unique_init.
  Qed.

  (* the three clauses of the property, spelled out *)
  Theorem locked_once sched :
    let c := run_sched GLocked R causes sched m0 env0 in
    (forall s ns, hcount s ns (c_log c) <= 1) /\
    (forall s ns, 1 <= hcount s ns (c_log c) -> in_room m0 ns PNone s = true) /\
    (all_done c = true -> forall k s ns, In k causes -> targets m0 k s ns ->
       in_room m0 ns PNone s = true -> hcount s ns (c_log c) = 1).
  Proof.
    cbv zeta. pose proof (locked_all sched) as H. split; [apply H|]. split; [apply H|].
    intros Hd k s ns Hk Ht Hi. apply (o_final _ _ _ _ _ H Hd k s ns Hk Ht Hi).
  Qed.
  Theorem locked_no_raise sched :
    R = [] -> raised (c_log (run_sched GLocked R causes sched m0 env0)) = false.
  Proof. apply (o_no_raise _ _ _ _ _ (locked_all sched)). Qed.
  Theorem locked_no_trace sched :
    let c := run_sched GLocked R causes sched m0 env0 in
    all_done c = true ->
    (forall k s ns, In k causes -> targets m0 k s ns -> in_room m0 ns PNone s = true ->
       (forall r, room_ok r -> in_room (c_mgr c) ns r s = false) /\
       is_connected (c_mgr c) (Some s) ns = false /\
       aget str_eqb (callbacks (c_mgr c)) s = None) /\
    (forall s ns, is_pending (c_mgr c) s ns = false) /\
    (forall e r, In (CLoss e r) causes -> ~ In e (c_env c)).
  Proof.
    cbv zeta. pose proof (locked_all sched) as H. intro Hd. split; [|split].
    - intros k s ns Hk Ht Hi. destruct (o_final _ _ _ _ _ H Hd k s ns Hk Ht Hi) as (_ & A & B & C). auto.
    - apply (o_no_pending _ _ _ _ _ H Hd).
    - apply (o_env_lost _ _ _ _ _ H Hd).
  Qed.

  (* ... where at most one task is ever between its locked check and its mark *)
  Theorem locked_window_exclusive sched :
    double_window (run_sched GLocked R causes sched m0 env0) = false.
  Proof.
    unfold run_sched, double_window. apply cs_ndw.
    apply (lift_run_locked R I (I_micro true) sched (init GLocked m0 env0 causes)).
    - apply (I_init true).
    - apply cs_unique_init.
  Qed.

  (* thread granularity WITHOUT the lock: every schedule that never opens the window of one client twice *)
  Theorem thread_except sched :
    no_double_check GThread R c0 sched -> outcome R m0 env0 causes (run_sched GThread R causes sched m0 env0).
  Proof.
    intro H. unfold run_sched. apply (inv_outcome R m0 env0 causes WF0).
    apply (lift_run_thread R I (I_micro false) sched c0); [apply (I_init false)|exact H].
  Qed.

  (* every violating schedule has a prefix after which two tasks stand inside the window of
     the same (sid, ns) *)
  Lemma ndc_or_dw sched : forall c,
    no_double_check GThread R c sched \/ exists k, double_window (prefix_cfg GThread R c sched k) = true.
  Proof.
    induction sched as [|i r IH]; intros c; cbn [no_double_check].
    - destruct (double_window c) eqn:E; [right; exists 0; exact E|left; reflexivity].
    - destruct (double_window c) eqn:E; [right; exists 0; exact E|].
      destruct (IH (fst (step GThread R c i))) as [A|[k A]]; [left; split; [reflexivity|exact A]|].
      right. exists (S k). exact A.
  Qed.

  Theorem only_via_double_check sched :
    ~ outcome R m0 env0 causes (run_sched GThread R causes sched m0 env0) ->
    exists k, double_window (prefix_cfg GThread R c0 sched k) = true.
  Proof.
    intro H. destruct (ndc_or_dw sched c0) as [A|A]; [|exact A]. exfalso. apply H. apply thread_except. exact A.
  Qed.

  (* tasks run one after the other *)
  Lemma in_flight_window t : in_flight t = false -> window_of t = None.
  Proof. unfold in_flight, window_of. destruct (t_pc t); try reflexivity. destruct (t_pc (spawn false (t_cause t))); discriminate. Qed.

  Lemma others_idle_quiet l : forall i, others_idle l i = true -> quiet_but l i.
  Proof.
    induction l as [|t l IH]; intros [|i] H j u Hj N; cbn [others_idle] in H.
    - destruct j; discriminate.
    - destruct j; discriminate.
    - destruct j as [|j]; [congruence|]. cbn [nth_error] in Hj. rewrite forallb_forall in H.
      apply in_flight_window. specialize (H u (nth_error_In _ _ Hj)). destruct (in_flight u); [discriminate|reflexivity].
    - apply andb_true_iff in H as [H1 H2]. destruct j as [|j].
      + cbn [nth_error] in Hj. inversion Hj; subst. apply in_flight_window. destruct (in_flight u); [discriminate|reflexivity].
      + cbn [nth_error] in Hj. apply (IH i H2 j u Hj). congruence.
  Qed.

  Lemma step_quiet_but g c i : quiet_but (c_tasks c) i -> quiet_but (c_tasks (fst (step g R c i))) i.
  Proof.
    intro H. unfold step. destruct (nth_error (c_tasks c) i) as [t|]; [|exact H].
    destruct (locked_code g && at_acq t && other_in_cs (c_tasks c) i); [exact H|].
    destruct (move g R (c_mgr c) (c_env c) t) as [[[m env] t'] l]. cbn [fst c_tasks].
    intros j u Hj N. rewrite nth_upd_other in Hj by congruence. eauto.
  Qed.

  Lemma sequential_ndc sched : forall c,
    double_window c = false -> sequential GThread R c sched -> no_double_check GThread R c sched.
  Proof.
    induction sched as [|i r IH]; intros c Hc Hs; cbn [no_double_check]; [exact Hc|].
    destruct Hs as [H1 H2]. split; [exact Hc|]. apply IH; [|exact H2].
    apply (quiet_but_ndw _ i). apply step_quiet_but. apply others_idle_quiet. exact H1.
  Qed.

  Theorem thread_sequential sched :
    sequential GThread R c0 sched -> outcome R m0 env0 causes (run_sched GThread R causes sched m0 env0).
  Proof.
    intro H. apply thread_except. apply sequential_ndc; [|exact H]. apply (ndw_init false).
  Qed.
End Theorems.

(* ------------------------------------------------------------------ *)
(* concrete states: the hypotheses are satisfiable, and the refutation *)
(* ------------------------------------------------------------------ *)
Definition x_sl : str := s2l "/".
Definition x_nb : str := s2l "/b".
Definition x_e0 : str := s2l "e0".
Definition x_e1 : str := s2l "e1".
Definition x_S (n : string) : str := s2l n.

(* one client alone in its namespace *)
Definition x_lone_ops : list mop := [MConnect x_e0 x_sl (x_S "S0")].
Definition x_lone : mgr := fold_left mstep x_lone_ops mgr_init.
(* transport e0 on two namespaces (S0 in "/", with a room and a pending callback; S1 in "/b"),
   a second transport e1 on "/" (S2) *)
Definition x_full_ops : list mop :=
  [ MConnect x_e0 x_sl (x_S "S0"); MConnect x_e0 x_nb (x_S "S1"); MConnect x_e1 x_sl (x_S "S2");
    MEnter (x_S "S0") x_sl (PStr (s2l "r1")); MGenAck (x_S "S0") 0%N ].
Definition x_full : mgr := fold_left mstep x_full_ops mgr_init.

Example x_lone_start : quiescent_start x_lone.
Proof.
  split; [|split].
  - apply C03_wf_thm; [solve_ops_ok|cbn; solve_nodup_str].
  - vm_compute. constructor.
  - vm_compute. reflexivity.
Qed.
Example x_full_start : quiescent_start x_full.
Proof.
  split; [|split].
  - apply C03_wf_thm; [solve_ops_ok|cbn; solve_nodup_str].
  - vm_compute. solve_nodup_str.
  - vm_compute. reflexivity.
Qed.

(* server.disconnect(S0) in one thread, the client's DISCONNECT packet in another *)
Definition x_two : list cause := [CApi (x_S "S0") x_sl; CClient x_e0 x_sl].
(* both pass is_connected, then both mark, both run the handler *)
Definition x_sched_twice : list nat := [0; 1; 1; 0; 1; 0; 1; 0; 1; 0].
(* both pass is_connected; the packet thread finishes; disconnect() then finds the namespace gone *)
Definition x_sched_keyerror : list nat := [0; 1; 1; 1; 1; 1; 0].

Theorem thread_refuted_twice :
  let c := run_sched GThread [] x_two x_sched_twice x_lone [x_e0] in
  all_done c = true /\ hcount (x_S "S0") x_sl (c_log c) = 2 /\ raised (c_log c) = false /\
  is_pending (c_mgr c) (x_S "S0") x_sl = false.
Proof. vm_compute. repeat split. Qed.

Theorem thread_refuted_keyerror :
  let c := run_sched GThread [] x_two x_sched_keyerror x_lone [x_e0] in
  all_done c = true /\ hcount (x_S "S0") x_sl (c_log c) = 1 /\ raised (c_log c) = true /\
  In (LMark (x_S "S0") x_sl (Err KeyError)) (c_log c) /\
  is_pending (c_mgr c) (x_S "S0") x_sl = true.
Proof. vm_compute. repeat split. auto 10. Qed.

Theorem thread_refuted :
  exists R m0 env0 causes sched, quiescent_start m0 /\
    ~ outcome R m0 env0 causes (run_sched GThread R causes sched m0 env0).
Proof.
  exists [], x_lone, [x_e0], x_two, x_sched_twice. split; [exact x_lone_start|].
  intro H. pose proof (o_once _ _ _ _ _ H (x_S "S0") x_sl) as H1.
  destruct thread_refuted_twice as (_ & H2 & _). cbv zeta in H2. rewrite H2 in H1. lia.
Qed.

(* in both witnesses the window of (S0, "/") is open in both tasks after three choices *)
Example thread_refuted_window :
  double_window (prefix_cfg GThread [] (init GThread x_lone [x_e0] x_two) x_sched_twice 3) = true /\
  double_window (prefix_cfg GThread [] (init GThread x_lone [x_e0] x_two) x_sched_keyerror 3) = true.
Proof. vm_compute. split; reflexivity. Qed.

(* the same two causes at asyncio granularity, same choices: once, no error, nothing left *)
Example async_same_choices :
  let c := run_sched GAsync [] x_two x_sched_twice x_lone [x_e0] in
  all_done c = true /\ hcount (x_S "S0") x_sl (c_log c) = 1 /\ raised (c_log c) = false /\
  c_mgr c = mgr_init.
Proof. vm_compute. repeat split. Qed.

(* the same race against the code with the lock: both tasks want the window, the second one has to
   wait (choices 4 and 6 are no-ops: task 0 is blocked on the lock) and then finds the client gone *)
Definition x_sched_locked : list nat := [0; 1; 1; 0; 1; 0; 1; 0; 0; 1; 1].
Example locked_same_race :
  let c := run_sched GLocked [] x_two x_sched_locked x_lone [x_e0] in
  all_done c = true /\ hcount (x_S "S0") x_sl (c_log c) = 1 /\ raised (c_log c) = false /\
  c_mgr c = mgr_init /\
  nth 3 (trace GLocked [] (init GLocked x_lone [x_e0] x_two) x_sched_locked) [LOther 0] = [] /\
  nth 7 (trace GLocked [] (init GLocked x_lone [x_e0] x_two) x_sched_locked) [] = [LAcquire].
Proof. vm_compute. repeat split. Qed.

(* three causes on the richer state: a schedule without double check exists and is not trivial *)
Definition x_three : list cause :=
  [CLoss x_e0 (s2l "transport close"); CApi (x_S "S0") x_sl; CClient x_e0 x_nb].
Definition x_sched_ok : list nat := [1; 1; 0; 0; 0; 2; 0; 0; 0; 2; 1; 0; 1; 0; 1; 0].
Example x_sched_ok_ndc : no_double_check GThread [] (init GThread x_full [x_e0; x_e1] x_three) x_sched_ok.
Proof. vm_compute. repeat split. Qed.
Example x_sched_ok_run :
  let c := run_sched GThread [] x_three x_sched_ok x_full [x_e0; x_e1] in
  all_done c = true /\ hcount (x_S "S0") x_sl (c_log c) = 1 /\ hcount (x_S "S1") x_nb (c_log c) = 1 /\
  hcount (x_S "S2") x_sl (c_log c) = 0 /\ c_env c = [x_e1].
Proof. vm_compute. repeat split. Qed.

(* one task after the other *)
Definition x_sched_seq : list nat := repeat 1 5 ++ repeat 0 12 ++ repeat 2 3.
Example x_sched_seq_sequential : sequential GThread [] (init GThread x_full [x_e0; x_e1] x_three) x_sched_seq.
Proof. vm_compute. repeat split. Qed.
Example x_sched_seq_run :
  all_done (run_sched GThread [] x_three x_sched_seq x_full [x_e0; x_e1]) = true.
Proof. vm_compute. reflexivity. Qed.
