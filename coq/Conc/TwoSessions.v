(* C20, two sessions of ONE transport (a transport connected to two namespaces): terminating
   actions aimed at the two sessions run concurrently.

   1. The lock self._disconnect_lock is one lock per SERVER, not per client: in the model
      (granularity GLocked) a task that stands in front of its acquire cannot move while ANY other
      task is inside the critical section, whatever session that task works on.  The model of
      ServerConc.v therefore needs no extension for this class of scenario; [locked_two_sessions]
      spells out what [locked_all] (all schedules, any number of tasks) says about it, and
      [x_ab_locked_blocked] shows the schedule in which disconnect(S1, "/b") is pre-empted INSIDE
      the critical section while the loss of the transport reaches its own acquire for "/a".

   2. A variant of the code in which Server._handle_disconnect() takes the lock with a
      NON-BLOCKING acquire and returns when it is busy ("somebody else is disconnecting this
      client") is modelled by [step_try]: a packet / loss task in front of its acquire while
      another task holds the lock gives up on the namespace it is processing.  For two actions on
      the same session that reasoning is right; with two sessions it is wrong:
      [trylock_refuted] (the handler of "/a" never runs, the session stays in the rooms). *)
From VT Require Import Conc.MgrFacts Conc.ConcProofs.
From Coq Require Import Lia.
Open Scope nat_scope.

(* ------------------------------------------------------------------ *)
(* 1. the code as it is (blocking lock), all schedules                  *)
(* ------------------------------------------------------------------ *)
Lemma sid_from_eio_in_room m e ns s : WF m -> sid_from_eio m e ns = Some s -> in_room m ns PNone s = true.
Proof.
  intros W H. apply (sid_from_eio_spec m e ns s W) in H. rewrite mem_room_of in H.
  unfold in_room. destruct (room_of m ns PNone) as [b|]; [|discriminate]. rewrite H. reflexivity.
Qed.

Section TwoSessions.
  Variables (R : list str) (m0 : mgr) (env0 : list str) (causes : list cause).
  Hypothesis Q0 : quiescent_start m0.
  (* transport [e] has session [sa] in namespace [nsa] and session [sb] in namespace [nsb] *)
  Variables (e sa sb nsa nsb : str).
  Hypothesis Ha : sid_from_eio m0 e nsa = Some sa.
  Hypothesis Hb : sid_from_eio m0 e nsb = Some sb.
  (* some task is aimed at the one, some task at the other (disconnect(), DISCONNECT packet, or
     the loss of the transport, which is aimed at both) *)
  Variables (ka kb : cause).
  Hypothesis Hka : In ka causes.
  Hypothesis Hkb : In kb causes.
  Hypothesis Ta : targets m0 ka sa nsa.
  Hypothesis Tb : targets m0 kb sb nsb.

  Theorem locked_two_sessions sched :
    let c := run_sched GLocked R causes sched m0 env0 in
    hcount sa nsa (c_log c) <= 1 /\ hcount sb nsb (c_log c) <= 1 /\
    (R = [] -> raised (c_log c) = false) /\
    (all_done c = true ->
       hcount sa nsa (c_log c) = 1 /\ hcount sb nsb (c_log c) = 1 /\
       is_connected (c_mgr c) (Some sa) nsa = false /\ is_connected (c_mgr c) (Some sb) nsb = false /\
       (forall r, room_ok r -> in_room (c_mgr c) nsa r sa = false /\ in_room (c_mgr c) nsb r sb = false) /\
       aget str_eqb (callbacks (c_mgr c)) sa = None /\ aget str_eqb (callbacks (c_mgr c)) sb = None /\
       (forall s ns, is_pending (c_mgr c) s ns = false)).
  Proof.
    cbv zeta. pose proof (locked_all R m0 env0 causes Q0 sched) as H.
    pose proof (sid_from_eio_in_room m0 e nsa sa (proj1 Q0) Ha) as Ia.
    pose proof (sid_from_eio_in_room m0 e nsb sb (proj1 Q0) Hb) as Ib.
    split; [apply H|]. split; [apply H|]. split; [apply H|]. intro Hd.
    destruct (o_final _ _ _ _ _ H Hd ka sa nsa Hka Ta Ia) as (A1 & A2 & A3 & A4).
    destruct (o_final _ _ _ _ _ H Hd kb sb nsb Hkb Tb Ib) as (B1 & B2 & B3 & B4).
    repeat split; auto. apply (o_no_pending _ _ _ _ _ H Hd).
  Qed.
End TwoSessions.

(* ------------------------------------------------------------------ *)
(* concrete state: transport e0 alone on the server, S0 in "/a", S1 in "/b" *)
(* ------------------------------------------------------------------ *)
Definition x_na : str := s2l "/a".
Definition x_ab_ops : list mop := [MConnect x_e0 x_na (x_S "S0"); MConnect x_e0 x_nb (x_S "S1")].
Definition x_ab : mgr := fold_left mstep x_ab_ops mgr_init.
Example x_ab_start : quiescent_start x_ab.
Proof.
  split; [|split].
  - apply C03_wf_thm; [solve_ops_ok|cbn; solve_nodup_str].
  - vm_compute. constructor.
  - vm_compute. reflexivity.
Qed.

(* thread 0 = server.disconnect(S1, "/b"), thread 1 = loss of the transport *)
Definition x_ab_causes : list cause := [CApi (x_S "S1") x_nb; CLoss x_e0 (s2l "transport close")].
(* thread 0: unlocked check, acquire, locked check - pre-empted while it holds the lock;
   thread 1: get_namespaces, lookup of "/a", then it wants the lock *)
Definition x_ab_prefix : list nat := [0; 0; 0; 1; 1].

(* the hypotheses of [locked_two_sessions] are satisfiable: both sessions belong to e0 *)
Example x_ab_two_sessions :
  sid_from_eio x_ab x_e0 x_na = Some (x_S "S0") /\ sid_from_eio x_ab x_e0 x_nb = Some (x_S "S1") /\
  targets x_ab (CLoss x_e0 (s2l "transport close")) (x_S "S0") x_na /\
  targets x_ab (CApi (x_S "S1") x_nb) (x_S "S1") x_nb.
Proof. vm_compute. repeat split. Qed.

(* with the (blocking) lock: the two choices of thread 1 after the prefix are no-ops (it waits),
   after the mark of thread 0 it gets the lock; both handlers run once and nothing is left *)
Definition x_ab_sched_locked : list nat := x_ab_prefix ++ [1; 1; 0; 1; 1; 1; 0; 0; 0; 1; 1; 1; 1; 1; 1].
Example x_ab_locked_blocked :
  let c := run_sched GLocked [] x_ab_causes x_ab_sched_locked x_ab [x_e0] in
  let tr := trace GLocked [] (init GLocked x_ab [x_e0] x_ab_causes) x_ab_sched_locked in
  nth 5 tr [LOther 0] = [] /\ nth 6 tr [LOther 0] = [] /\ nth 8 tr [] = [LAcquire] /\
  all_done c = true /\ hcount (x_S "S0") x_na (c_log c) = 1 /\ hcount (x_S "S1") x_nb (c_log c) = 1 /\
  raised (c_log c) = false /\ c_mgr c = mgr_init /\ c_env c = [].
Proof. vm_compute. repeat split. Qed.

(* ------------------------------------------------------------------ *)
(* 2. the variant with a non-blocking acquire in _handle_disconnect     *)
(* ------------------------------------------------------------------ *)
(* _handle_disconnect() serves the DISCONNECT packet and the loss of the transport; disconnect()
   keeps the blocking `with self._disconnect_lock:` *)
Definition gives_up (k : cause) : bool := match k with CApi _ _ => false | _ => true end.

Definition step_try (R : list str) (c : cfg) (i : nat) : cfg * list lbl :=
  match nth_error (c_tasks c) i with
  | None => (c, [])
  | Some t =>
      if at_acq t && other_in_cs (c_tasks c) i then
        if gives_up (t_cause t) then
          (* acquire(blocking=False) answers False: `return` from _handle_disconnect *)
          let '(t', l) := end_ns t None in
          (mkCfg (c_mgr c) (c_env c) (upd (c_tasks c) i t') (c_log c ++ LOther 2 :: l), LOther 2 :: l)
        else (c, [])
      else
        let '(m, env, t', l) := micro true R (c_mgr c) (c_env c) t in
        (mkCfg m env (upd (c_tasks c) i t') (c_log c ++ l), l)
  end.
Fixpoint run_try (R : list str) (c : cfg) (sched : list nat) : cfg :=
  match sched with [] => c | i :: r => run_try R (fst (step_try R c i)) r end.

(* while nobody holds the lock when it is asked for, the variant is the code as it is *)
Lemma step_try_same R c i :
  (forall t, nth_error (c_tasks c) i = Some t -> at_acq t && other_in_cs (c_tasks c) i = false) ->
  step_try R c i = step GLocked R c i.
Proof.
  intro H. unfold step_try, step. destruct (nth_error (c_tasks c) i) as [t|]; [|reflexivity].
  cbn [locked_code andb]. rewrite (H t eq_refl). reflexivity.
Qed.

(* same prefix as above; then thread 1 asks for the lock, gets False, gives up "/a", goes on
   to "/b" (lookup, again False), deletes environ and is finished; thread 0 completes *)
Definition x_ab_sched_try : list nat := x_ab_prefix ++ [1; 1; 1; 1; 0; 0; 0; 0].
Theorem trylock_refuted_run :
  let c := run_try [] (init GLocked x_ab [x_e0] x_ab_causes) x_ab_sched_try in
  all_done c = true /\ hcount (x_S "S0") x_na (c_log c) = 0 /\ hcount (x_S "S1") x_nb (c_log c) = 1 /\
  raised (c_log c) = false /\
  in_room (c_mgr c) x_na PNone (x_S "S0") = true /\ is_connected (c_mgr c) (Some (x_S "S0")) x_na = true /\
  c_env c = [].
Proof. vm_compute. repeat split. Qed.

Theorem trylock_refuted :
  exists R m0 env0 causes sched, quiescent_start m0 /\
    ~ outcome R m0 env0 causes (run_try R (init GLocked m0 env0 causes) sched).
Proof.
  exists [], x_ab, [x_e0], x_ab_causes, x_ab_sched_try. split; [exact x_ab_start|].
  intro H. destruct trylock_refuted_run as (Hd & H0 & _). cbv zeta in Hd, H0.
  assert (T : targets x_ab (CLoss x_e0 (s2l "transport close")) (x_S "S0") x_na) by (vm_compute; reflexivity).
  assert (I : in_room x_ab x_na PNone (x_S "S0") = true) by (vm_compute; reflexivity).
  destruct (o_final _ _ _ _ _ H Hd _ _ _ (or_intror (or_introl eq_refl)) T I) as (H1 & _).
  rewrite H0 in H1. discriminate.
Qed.

(* with ONE session the give-up is harmless on the same kind of schedule: whoever holds the lock
   is deciding about that very client (S0 alone in "/": disconnect(S0) pre-empted inside the
   critical section, the DISCONNECT packet gives up, disconnect() completes) *)
Example trylock_one_session_fine :
  let c := run_try [] (init GLocked x_lone [x_e0] x_two) [0; 0; 0; 1; 1; 0; 0; 0; 0] in
  all_done c = true /\ hcount (x_S "S0") x_sl (c_log c) = 1 /\ raised (c_log c) = false /\
  c_mgr c = mgr_init.
Proof. vm_compute. repeat split. Qed.
