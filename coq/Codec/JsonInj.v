(* Unique readability and injectivity of the concrete JSON printer on the parseable
   domain, and existence of an inverse; the surrogate-pair collision outside the domain. *)
From VT Require Import Base.PyStrProofs Codec.Json Codec.JsonProofs Codec.JsonParse.
From Coq Require Import Lia.
Open Scope N_scope.

(* two printed values followed by delimiters (or nothing) that give the same text are the
   same value followed by the same rest *)
Theorem dumps_unique_readability v1 v2 s1 s2 r1 r2 :
  parseable v1 = true -> parseable v2 = true ->
  json_dumps v1 = Ok s1 -> json_dumps v2 = Ok s2 ->
  rest_ok r1 -> rest_ok r2 ->
  s1 ++ r1 = s2 ++ r2 -> v1 = v2 /\ s1 = s2 /\ r1 = r2.
Proof.
  intros P1 P2 D1 D2 R1 R2 E.
  pose proof (parse_dumps_gen v1 P1 s1 D1 (List.length (s1 ++ r1)) r1 R1 (Nat.le_refl _)) as H1.
  pose proof (parse_dumps_gen v2 P2 s2 D2 (List.length (s1 ++ r1)) r2 R2) as H2.
  rewrite <- E in H2. specialize (H2 (Nat.le_refl _)). rewrite H1 in H2. inversion H2; subst.
  split; [reflexivity|]. split; [|reflexivity]. apply (app_inv_tail r2). exact E.
Qed.

Theorem json_dumps_injective v1 v2 s :
  parseable v1 = true -> parseable v2 = true ->
  json_dumps v1 = Ok s -> json_dumps v2 = Ok s -> v1 = v2.
Proof.
  intros P1 P2 D1 D2.
  destruct (dumps_unique_readability v1 v2 s s [] [] P1 P2 D1 D2 I I eq_refl) as [H _]. exact H.
Qed.

Theorem loads_exists :
  exists loads : str -> Res pv,
    forall v s, parseable v = true -> json_dumps v = Ok s -> loads s = Ok v.
Proof. exists json_loads. exact loads_dumps. Qed.

(* why str_ok is needed: a high surrogate followed by a low surrogate prints exactly like the
   non-BMP character they encode, and the parser (like json.loads) reads the character *)
Theorem surrogate_pair_collision :
  json_dumps (PStr [55357; 56832]) = json_dumps (PStr [128512]) /\
  str_ok [55357; 56832] = false /\ str_ok [128512] = true /\
  (s <- json_dumps (PStr [55357; 56832]) ;; json_loads s) = Ok (PStr [128512]).
Proof. repeat split; vm_compute; reflexivity. Qed.
