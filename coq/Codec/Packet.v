(* Model of src/socketio/packet.py: constructor, encode, decode (on ANY engine.io
   payload), add_attachment, binary (de)construction. Definitions only. *)
From VT Require Export Codec.Json.
Open Scope N_scope.

Definition CONNECT := 0%Z.
Definition DISCONNECT := 1%Z.
Definition EVENT := 2%Z.
Definition ACK := 3%Z.
Definition CONNECT_ERROR := 4%Z.
Definition BINARY_EVENT := 5%Z.
Definition BINARY_ACK := 6%Z.

Record packet := mkPacket {
  ptype : pv;               (* an int for every packet the library builds; decode can leave any value *)
  pns : option str;
  pid : option Z;
  pdata : pv                (* PNone = None *)
}.

(* a packet being received: declared attachment count and attachments so far *)
Record rpacket := mkR { rp : packet; rcount : N; ratts : list pv }.

Definition k_placeholder : pv := PStr (s2l "_placeholder").
Definition k_num : pv := PStr (s2l "num").

(* _data_is_binary: bytes, or inside lists / dict values (tuples are not descended) *)
Fixpoint has_bytes (v : pv) : bool :=
  match v with
  | PBytes _ => true
  | PList l => (fix go (l : list pv) : bool := match l with [] => false | x :: r => has_bytes x || go r end) l
  | PDict kv => (fix go (kv : list (pv * pv)) : bool :=
                   match kv with [] => false | (_, x) :: r => has_bytes x || go r end) kv
  | _ => false
  end.

Definition ctor (uses_binary : bool) (t : Z) (data : pv) (ns : option str) (id : option Z)
           (binary : option bool) : Res packet :=
  let isbin := uses_binary && match binary with Some b => b | None => has_bytes data end in
  if isbin then
    if (t =? EVENT)%Z then Ok (mkPacket (PInt BINARY_EVENT) ns id data)
    else if (t =? ACK)%Z then Ok (mkPacket (PInt BINARY_ACK) ns id data)
    else Err ValueError
  else Ok (mkPacket (PInt t) ns id data).

(* _deconstruct_binary_internal: depth first, placeholders numbered in order of discovery *)
Definition placeholder (n : nat) : pv :=
  PDict [(k_placeholder, PBool true); (k_num, PInt (Z.of_nat n))].

Fixpoint decon (v : pv) (acc : list str) : pv * list str :=
  match v with
  | PBytes b => (placeholder (List.length acc), acc ++ [b])
  | PList l =>
      let '(l', acc') :=
        (fix go (l : list pv) (acc : list str) : list pv * list str :=
           match l with
           | [] => ([], acc)
           | x :: r => let '(x', a1) := decon x acc in
                       let '(r', a2) := go r a1 in (x' :: r', a2)
           end) l acc in
      (PList l', acc')
  | PDict kv =>
      let '(kv', acc') :=
        (fix go (kv : list (pv * pv)) (acc : list str) : list (pv * pv) * list str :=
           match kv with
           | [] => ([], acc)
           | (k, x) :: r => let '(x', a1) := decon x acc in
                            let '(r', a2) := go r a1 in ((k, x') :: r', a2)
           end) kv acc in
      (PDict kv', acc')
  | _ => (v, acc)
  end.

(* dict lookup by key (Python ==, first match) *)
Fixpoint dict_get (kv : list (pv * pv)) (k : pv) : option pv :=
  match kv with
  | [] => None
  | (k', v) :: r => if py_eq k' k then Some v else dict_get r k
  end.

(* attachments[i] for an arbitrary JSON value i *)
Definition py_index (l : list pv) (i : pv) : Res pv :=
  match as_int i with
  | Some z =>
      let n := Z.of_nat (List.length l) in
      let j := if (z <? 0)%Z then (z + n)%Z else z in
      if (j <? 0)%Z || (n <=? j)%Z then Err IndexError
      else match nth_error l (Z.to_nat j) with Some x => Ok x | None => Err IndexError end
  | None => Err TypeError
  end.

Fixpoint recon (v : pv) (atts : list pv) : Res pv :=
  match v with
  | PList l =>
      l' <- (fix go (l : list pv) : Res (list pv) :=
               match l with
               | [] => Ok []
               | x :: r => x' <- recon x atts ;; r' <- go r ;; Ok (x' :: r')
               end) l ;;
      Ok (PList l')
  | PDict kv =>
      let ph := match dict_get kv k_placeholder with Some p => truthy p | None => false end in
      match (if ph then dict_get kv k_num else None) with
      | Some i => py_index atts i
      | None =>
          kv' <- (fix go (kv : list (pv * pv)) : Res (list (pv * pv)) :=
                    match kv with
                    | [] => Ok []
                    | (k, x) :: r => x' <- recon x atts ;; r' <- go r ;; Ok ((k, x') :: r')
                    end) kv ;;
          Ok (PDict kv')
      end
  | _ => Ok v
  end.

(* encode: text frame and, for binary packets, the attachment list *)
Definition encode (p : packet) : Res (str * option (list str)) :=
  match ptype p with
  | PInt t =>
      let isbin := (t =? BINARY_EVENT)%Z || (t =? BINARY_ACK)%Z in
      let '(data, atts) := if isbin then decon (pdata p) [] else (pdata p, []) in
      let head := str_of_Z t ++ (if isbin then str_of_N (N.of_nat (List.length atts)) ++ [45] else []) in
      let nsp := match pns p with
                 | Some ns => if str_eqb ns [47] then [] else ns ++ [44]
                 | None => [] end in
      let ids := match pid p with Some i => str_of_Z i | None => [] end in
      js <- (match data with PNone => Ok [] | d => json_dumps d end) ;;
      Ok (head ++ nsp ++ ids ++ js, if isbin then Some atts else None)
  | _ => Err OtherError
  end.

(* ---- decode ---- *)
Definition default_packet : packet := mkPacket (PInt EVENT) None None PNone.

Definition decode_str (loads : str -> Res pv) (s : str) : Res rpacket :=
  match s with
  | [] => Ok (mkR default_packet 0 [])
  | c0 :: ep =>
      match dec_val c0 with
      | None => Err ValueError                         (* int(ep[0:1]) *)
      | Some t =>
          (* attachment count *)
          '(count, ep) <-
             (match find 45 ep with
              | Some (S d) =>
                  let dash := S d in
                  if isdigit_str (firstn dash ep) then
                    if Nat.ltb 10 dash then Err ValueError
                    else n <- py_int (firstn dash ep) ;; Ok (n, skipn (S dash) ep)
                  else Ok (0, ep)
              | _ => Ok (0, ep)
              end) ;;
          (* namespace *)
          let '(ns, ep) :=
            match ep with
            | 47 :: _ =>
                let '(ns, rest) := match find 44 ep with
                                   | None => (ep, [])
                                   | Some sep => (firstn sep ep, skipn (S sep) ep)
                                   end in
                let ns := match find 63 ns with Some q => firstn q ns | None => ns end in
                (Some ns, rest)
            | _ => (None, ep)
            end in
          (* id *)
          '(id, ep) <-
             (match ep with
              | c :: r =>
                  if is_digit c then
                    let i := S (digit_run 99 r) in
                    n <- py_int (firstn i ep) ;;
                    let ep' := skipn i ep in
                    match ep' with
                    | c' :: _ => if is_digit c' then Err ValueError else Ok (Some (Z.of_N n), ep')
                    | [] => Ok (Some (Z.of_N n), ep')
                    end
                  else Ok (None, ep)
              | [] => Ok (None, ep)
              end) ;;
          data <- (match ep with [] => Ok PNone | _ => loads ep end) ;;
          Ok (mkR (mkPacket (PInt (Z.of_N t)) ns id data) count [])
      end
  end.

(* decode of whatever engine.io hands over (str, bytes, or a JSON value) *)
Definition decode (loads : str -> Res pv) (payload : pv) : Res rpacket :=
  if negb (truthy payload) then Ok (mkR default_packet 0 [])
  else match payload with
       | PStr s => decode_str loads s
       | PBytes b =>
           match b with
           | c :: _ => if (48 <=? c) && (c <=? 57) then Err TypeError else Err ValueError
           | [] => Ok (mkR default_packet 0 [])
           end
       | PDict _ => Err KeyError                        (* d[0:1] on CPython >= 3.12 *)
       | PList _ | PTuple _ | PObj _ => Ok (mkR (mkPacket payload None None PNone) 0 [])  (* int([..]) TypeError -> caught *)
       | _ => Ok (mkR (mkPacket payload None None PNone) 0 [])    (* x[0:1] TypeError -> caught *)
       end.

Definition add_attachment (r : rpacket) (a : pv) : Res (rpacket * bool) :=
  if N.leb (rcount r) (N.of_nat (List.length (ratts r))) then Err ValueError
  else
    let atts := ratts r ++ [a] in
    if N.eqb (rcount r) (N.of_nat (List.length atts)) then
      d <- recon (pdata (rp r)) atts ;;
      Ok (mkR (mkPacket (ptype (rp r)) (pns (rp r)) (pid (rp r)) d) (rcount r) atts, true)
    else Ok (mkR (rp r) (rcount r) atts, false).

(* feeding a list of attachments; returns the completion flags *)
Fixpoint add_all (r : rpacket) (atts : list pv) : Res (rpacket * list bool) :=
  match atts with
  | [] => Ok (r, [])
  | a :: rest => '(r', b) <- add_attachment r a ;; '(r'', bs) <- add_all r' rest ;; Ok (r'', b :: bs)
  end.

(* equality helpers for the correspondence checks *)
Definition packet_eqb (a b : packet) : bool :=
  pv_eqb (ptype a) (ptype b) && opt_eqb str_eqb (pns a) (pns b) &&
  opt_eqb Z.eqb (pid a) (pid b) && pv_eqb (pdata a) (pdata b).
