(* An independent codec written from the Socket.IO v5 protocol text:
     <type>[<n>"-"][<nsp>","][<id>][<json>]
   Placeholders are defined declaratively: the k-th bytes leaf in depth-first order
   is replaced by {"_placeholder":true,"num":k} and becomes the k-th attachment.
   The decoder follows the shape of the reference parser (socket.io-parser). *)
From VT Require Export Codec.Packet.
Open Scope N_scope.

(* bytes leaves in depth-first order *)
Fixpoint leaves (v : pv) : list str :=
  match v with
  | PBytes b => [b]
  | PList l => (fix go (l : list pv) : list str := match l with [] => [] | x :: r => leaves x ++ go r end) l
  | PDict kv => (fix go (kv : list (pv * pv)) : list str :=
                   match kv with [] => [] | (_, x) :: r => leaves x ++ go r end) kv
  | _ => []
  end.

(* replace the leaves, numbering from n *)
Fixpoint subst (v : pv) (n : nat) : pv :=
  match v with
  | PBytes _ => placeholder n
  | PList l => PList ((fix go (l : list pv) (n : nat) : list pv :=
                         match l with [] => [] | x :: r => subst x n :: go r (n + List.length (leaves x))%nat end) l n)
  | PDict kv => PDict ((fix go (kv : list (pv * pv)) (n : nat) : list (pv * pv) :=
                          match kv with [] => []
                          | (k, x) :: r => (k, subst x n) :: go r (n + List.length (leaves x))%nat end) kv n)
  | _ => v
  end.

Definition spec_encode (p : packet) : Res (str * option (list str)) :=
  match ptype p with
  | PInt t =>
      let binary := (t =? 5)%Z || (t =? 6)%Z in
      let atts := if binary then leaves (pdata p) else [] in
      let body := if binary then subst (pdata p) 0 else pdata p in
      js <- (match body with PNone => Ok [] | d => json_dumps d end) ;;
      Ok (str_of_Z t
          ++ (if binary then str_of_N (N.of_nat (List.length atts)) ++ s2l "-" else [])
          ++ (match pns p with Some ns => if str_eqb ns (s2l "/") then [] else ns ++ s2l "," | None => [] end)
          ++ (match pid p with Some i => str_of_Z i | None => [] end)
          ++ js,
          if binary then Some atts else None)
  | _ => Err OtherError
  end.

(* reference-parser shaped decoder: ASCII digits only *)
Definition ascii_digit (c : N) : bool := (48 <=? c) && (c <=? 57).
Fixpoint take_digits (s : str) : str * str :=
  match s with
  | c :: r => if ascii_digit c then let '(d, rest) := take_digits r in (c :: d, rest) else ([], s)
  | [] => ([], [])
  end.
Fixpoint take_until (c : N) (s : str) : str * option str :=   (* text before c, rest after c *)
  match s with
  | [] => ([], None)
  | x :: r => if x =? c then ([], Some r) else let '(a, b) := take_until c r in (x :: a, b)
  end.
Definition ascii_val (s : str) : N := fold_left (fun a c => a * 10 + (c - 48)) s 0.

Record spec_packet := mkSpec { st : Z; sns : str; sid : option Z; sdata : pv; satt : N }.

Definition spec_decode (loads : str -> Res pv) (s : str) : Res spec_packet :=
  match s with
  | [] => Err ValueError
  | c :: r =>
      if negb (ascii_digit c && (c <=? 54)) then Err ValueError else
      let t := Z.of_N (c - 48) in
      '(natt, r) <- (if (t =? 5)%Z || (t =? 6)%Z then
                       let '(d, rest) := take_digits r in
                       match d, rest with
                       | _ :: _, 45 :: rest' => Ok (ascii_val d, rest')
                       | _, _ => Err ValueError
                       end
                     else Ok (0, r)) ;;
      let '(ns, r) := match r with
                      | 47 :: _ => let '(a, b) := take_until 44 r in
                                   (a, match b with Some x => x | None => [] end)
                      | _ => (s2l "/", r)
                      end in
      let '(d, r) := take_digits r in
      let id := match d with [] => None | _ => Some (Z.of_N (ascii_val d)) end in
      data <- (match r with [] => Ok PNone | _ => loads r end) ;;
      Ok (mkSpec t ns id data natt)
  end.
