(* A total, fuelled recursive-descent parser for the output language of the concrete
   printer Json.json_dumps (null/true/false, decimal ints, float tokens, strings with the
   printer's escapes incl. \uXXXX and surrogate pairs, lists, string-keyed objects), and
   the proof that it inverts the printer:  json_parse (dumps v ++ rest) = (v, rest). *)
From VT Require Import Base.PyStrProofs Codec.Json Codec.JsonProofs.
From Coq Require Import ZArith Lia ZifyBool ZifyN.
Open Scope N_scope.

(* ================= lexical side conditions ================= *)
(* shape of a finite float literal as repr() prints it: digits, sign, '.', 'e'; at least
   one of '.' / 'e' (keeps float texts apart from ints and from every other JSON text) *)
Definition float_char (c : N) : bool := adigit c || (c =? 43) || (c =? 45) || (c =? 46) || (c =? 101).
Definition has_dot_e (t : str) : bool := existsb (fun c => (c =? 46) || (c =? 101)) t.
Definition float_tok (t : str) : bool :=
  match t with [] => false | _ => forallb float_char t && has_dot_e t end.

(* strings: code points below U+110000, and no high surrogate immediately followed by a low
   surrogate (json.dumps prints that pair exactly like the corresponding non-BMP character) *)
Definition is_hi (u : N) : bool := (55296 <=? u) && (u <=? 56319).
Definition is_lo (u : N) : bool := (56320 <=? u) && (u <=? 57343).
Fixpoint str_ok (s : str) : bool :=
  match s with
  | [] => true
  | c :: t => (c <? 1114112) &&
              negb (is_hi c && match t with lo :: _ => is_lo lo | [] => false end) &&
              str_ok t
  end.

(* the values the parser reads back: any int, float tokens of float shape, well-formed
   strings, lists, dicts with (well-formed) string keys -- duplicates allowed here *)
Definition pkey (k : pv) : bool := match k with PStr s => str_ok s | _ => false end.
Fixpoint parseable (v : pv) : bool :=
  match v with
  | PNone | PBool _ | PInt _ => true
  | PFloat t => float_tok t
  | PStr s => str_ok s
  | PList l => (fix go (l : list pv) : bool := match l with [] => true | x :: r => parseable x && go r end) l
  | PDict kv => forallb pkey (map fst kv) &&
                (fix go (kv : list (pv * pv)) : bool :=
                   match kv with [] => true | (_, x) :: r => parseable x && go r end) kv
  | PBytes _ | PTuple _ | PObj _ => false
  end.
Definition parseable_list : list pv -> bool :=
  fix go (l : list pv) : bool := match l with [] => true | x :: r => parseable x && go r end.
Definition parseable_dict : list (pv * pv) -> bool :=
  fix go (kv : list (pv * pv)) : bool := match kv with [] => true | (_, x) :: r => parseable x && go r end.
Lemma parseable_PList l : parseable (PList l) = parseable_list l.  Proof. reflexivity. Qed.
Lemma parseable_PDict kv : parseable (PDict kv) = forallb pkey (map fst kv) && parseable_dict kv.
Proof. reflexivity. Qed.

(* ================= the parser ================= *)
Fixpoint strip (p s : str) : option str :=
  match p, s with
  | [], _ => Some s
  | a :: p', b :: s' => if a =? b then strip p' s' else None
  | _ :: _, [] => None
  end.

Fixpoint span (p : N -> bool) (s : str) : str * str :=
  match s with
  | c :: r => if p c then let '(a, b) := span p r in (c :: a, b) else ([], s)
  | [] => ([], [])
  end.

(* --- strings: escapes to UTF-16 code units, then surrogate pairs to code points --- *)
Definition hexval (c : N) : option N :=
  if (48 <=? c) && (c <=? 57) then Some (c - 48)
  else if (97 <=? c) && (c <=? 102) then Some (c - 87)
  else if (65 <=? c) && (c <=? 70) then Some (c - 55)
  else None.
Definition hex4val (a b c d : N) : option N :=
  match hexval a, hexval b, hexval c, hexval d with
  | Some x, Some y, Some z, Some w => Some (((x * 16 + y) * 16 + z) * 16 + w)
  | _, _, _, _ => None
  end.
Definition unesc (e : N) : option N :=
  if e =? 34 then Some 34 else if e =? 92 then Some 92 else if e =? 47 then Some 47
  else if e =? 110 then Some 10 else if e =? 114 then Some 13 else if e =? 116 then Some 9
  else if e =? 98 then Some 8 else if e =? 102 then Some 12 else None.
Definition lift {A} (p : list A) (o : option (list A * str)) : option (list A * str) :=
  match o with Some (u, r) => Some (p ++ u, r) | None => None end.

(* text after the opening quote -> (code units, text after the closing quote) *)
Fixpoint tok (s : str) : option (list N * str) :=
  match s with
  | [] => None
  | c :: r =>
      if c =? 34 then Some ([], r)
      else if c =? 92 then
        match r with
        | [] => None
        | e :: r1 =>
            if e =? 117 then
              match r1 with
              | a :: b :: c2 :: d :: r2 =>
                  match hex4val a b c2 d with
                  | Some h => lift [h] (tok r2)
                  | None => None
                  end
              | _ => None
              end
            else match unesc e with Some x => lift [x] (tok r1) | None => None end
        end
      else lift [c] (tok r)
  end.

Fixpoint combine (l : list N) : list N :=
  match l with
  | [] => []
  | h :: t =>
      match t with
      | lo :: r => if is_hi h && is_lo lo
                   then (65536 + (h - 55296) * 1024 + (lo - 56320)) :: combine r
                   else h :: combine t
      | [] => [h]
      end
  end.

Definition parse_string (s : str) : option (str * str) :=
  match tok s with Some (u, r) => Some (combine u, r) | None => None end.

(* --- numbers --- *)
Definition parse_int (t : str) : option Z :=
  match t with
  | [] => None
  | c :: d =>
      if c =? 45 then match py_int d with Ok n => Some (- Z.of_N n)%Z | Err _ => None end
      else match py_int t with Ok n => Some (Z.of_N n) | Err _ => None end
  end.
Definition parse_number (s : str) : option (pv * str) :=
  let '(t, r) := span float_char s in
  match t with
  | [] => None
  | _ => if has_dot_e t then Some (PFloat t, r)
         else match parse_int t with Some z => Some (PInt z, r) | None => None end
  end.

(* --- values --- *)
Definition parse_member (p : str -> option (pv * str)) (s : str) : option ((pv * pv) * str) :=
  match s with
  | c :: r =>
      if c =? 34 then
        match parse_string r with
        | Some (k, c2 :: r2) =>
            if c2 =? 58 then match p r2 with Some (v, r3) => Some ((PStr k, v), r3) | None => None end
            else None
        | _ => None
        end
      else None
  | [] => None
  end.

Fixpoint parse (fuel : nat) (s : str) : option (pv * str) :=
  match fuel with
  | O => None
  | S f =>
      match s with
      | [] => None
      | c :: r =>
          if c =? 110 then option_map (fun r' => (PNone, r')) (strip [117; 108; 108] r)
          else if c =? 116 then option_map (fun r' => (PBool true, r')) (strip [114; 117; 101] r)
          else if c =? 102 then option_map (fun r' => (PBool false, r')) (strip [97; 108; 115; 101] r)
          else if c =? 34 then
            match parse_string r with Some (t, r') => Some (PStr t, r') | None => None end
          else if c =? 91 then
            match r with
            | [] => None
            | c1 :: r1 =>
                if c1 =? 93 then Some (PList [], r1)
                else match parse f r with
                     | Some (v, r2) =>
                         match parse_tail f r2 with
                         | Some (l, r3) => Some (PList (v :: l), r3)
                         | None => None
                         end
                     | None => None
                     end
            end
          else if c =? 123 then
            match r with
            | [] => None
            | c1 :: r1 =>
                if c1 =? 125 then Some (PDict [], r1)
                else match parse_member (parse f) r with
                     | Some (kv, r2) =>
                         match parse_dtail f r2 with
                         | Some (l, r3) => Some (PDict (kv :: l), r3)
                         | None => None
                         end
                     | None => None
                     end
            end
          else parse_number s
      end
  end
with parse_tail (fuel : nat) (s : str) : option (list pv * str) :=
  match fuel with
  | O => None
  | S f =>
      match s with
      | [] => None
      | c :: r =>
          if c =? 93 then Some ([], r)
          else if c =? 44 then
            match parse f r with
            | Some (v, r2) =>
                match parse_tail f r2 with Some (l, r3) => Some (v :: l, r3) | None => None end
            | None => None
            end
          else None
      end
  end
with parse_dtail (fuel : nat) (s : str) : option (list (pv * pv) * str) :=
  match fuel with
  | O => None
  | S f =>
      match s with
      | [] => None
      | c :: r =>
          if c =? 125 then Some ([], r)
          else if c =? 44 then
            match parse_member (parse f) r with
            | Some (kv, r2) =>
                match parse_dtail f r2 with Some (l, r3) => Some (kv :: l, r3) | None => None end
            | None => None
            end
          else None
      end
  end.

(* json.loads on printer output: the whole text must be consumed *)
Definition json_parse (s : str) : option (pv * str) := parse (List.length s) s.
Definition json_loads (s : str) : Res pv :=
  match json_parse s with Some (v, []) => Ok v | _ => Err ValueError end.

(* ================= strings ================= *)
Ltac Zify.zify_post_hook ::= Z.div_mod_to_equations.

Lemma hexval_hexdigit k : k < 16 -> hexval (hexdigit k) = Some k.
Proof.
  intro H. unfold hexdigit, hexval. destruct (k <? 10) eqn:E.
  - assert (E1 : (48 <=? 48 + k) && (48 + k <=? 57) = true) by lia. rewrite E1. f_equal. lia.
  - assert (E1 : (48 <=? 87 + k) && (87 + k <=? 57) = false) by lia. rewrite E1.
    assert (E2 : (97 <=? 87 + k) && (87 + k <=? 102) = true) by lia. rewrite E2. f_equal. lia.
Qed.

Lemma hex4val_hex4 n X : n < 65536 ->
  match hex4 n ++ X with
  | a :: b :: c :: d :: r => hex4val a b c d = Some n /\ r = X
  | _ => False
  end.
Proof.
  intro H. unfold hex4. cbn [app]. split; [|reflexivity]. unfold hex4val.
  rewrite !hexval_hexdigit by (apply N.mod_upper_bound; discriminate).
  f_equal. lia.
Qed.

Definition units_of (c : N) : list N :=
  if c <? 65536 then [c]
  else [55296 + (c - 65536) / 1024; 56320 + (c - 65536) mod 1024].

Lemma tok_u n X : n < 65536 -> tok (92 :: 117 :: hex4 n ++ X) = lift [n] (tok X).
Proof.
  intro H. pose proof (hex4val_hex4 n X H) as Hh.
  destruct (hex4 n ++ X) as [|a [|b [|c [|d r]]]]; try contradiction.
  destruct Hh as [Hv ->]. cbn [tok N.eqb Pos.eqb]. rewrite Hv. reflexivity.
Qed.

Lemma tok_lit c X : (c =? 34) = false -> (c =? 92) = false -> tok (c :: X) = lift [c] (tok X).
Proof. intros H1 H2. cbn [tok]. rewrite H1, H2. reflexivity. Qed.

Lemma lift_lift {A} (p q : list A) o : lift p (lift q o) = lift (p ++ q) o.
Proof. destruct o as [[u r]|]; cbn [lift]; [rewrite app_assoc|]; reflexivity. Qed.

Lemma tok_esc c X : c < 1114112 -> tok (esc_char c ++ X) = lift (units_of c) (tok X).
Proof.
  intro Hc. unfold esc_char, units_of.
  destruct (c =? 34) eqn:E1; [apply N.eqb_eq in E1; subst; reflexivity|].
  destruct (c =? 92) eqn:E2; [apply N.eqb_eq in E2; subst; reflexivity|].
  destruct (c =? 10) eqn:E3; [apply N.eqb_eq in E3; subst; reflexivity|].
  destruct (c =? 13) eqn:E4; [apply N.eqb_eq in E4; subst; reflexivity|].
  destruct (c =? 9) eqn:E5; [apply N.eqb_eq in E5; subst; reflexivity|].
  destruct (c =? 8) eqn:E6; [apply N.eqb_eq in E6; subst; reflexivity|].
  destruct (c =? 12) eqn:E7; [apply N.eqb_eq in E7; subst; reflexivity|].
  destruct ((32 <=? c) && (c <=? 126)) eqn:E8.
  - assert (E9 : (c <? 65536) = true) by lia. rewrite E9. cbn [app]. apply tok_lit; assumption.
  - destruct (c <? 65536) eqn:E9.
    + cbn [app]. apply tok_u. lia.
    + cbv zeta. rewrite <- app_assoc. cbn [app]. rewrite tok_u by lia. rewrite tok_u by lia.
      rewrite lift_lift. reflexivity.
Qed.

Definition units (s : str) : list N := flat_map units_of s.

Lemma tok_string s : forall rest, forallb (fun c => c <? 1114112) s = true ->
  tok (flat_map esc_char s ++ 34 :: rest) = Some (units s, rest).
Proof.
  induction s as [|c s IH]; intros rest H; [reflexivity|].
  cbn [forallb] in H. apply andb_true_iff in H as [Hc Hs].
  cbn [flat_map]. rewrite <- app_assoc, tok_esc by lia. rewrite (IH rest Hs).
  reflexivity.
Qed.

Lemma str_ok_range s : str_ok s = true -> forallb (fun c => c <? 1114112) s = true.
Proof.
  induction s as [|c s IH]; [reflexivity|]. cbn [str_ok forallb]. intro H.
  apply andb_true_iff in H as [H H2]. apply andb_true_iff in H as [H1 _]. rewrite H1, (IH H2). reflexivity.
Qed.

(* combine does nothing at h when the next unit is not a low surrogate for it *)
Lemma combine_skip h X :
  match X with lo :: _ => is_hi h && is_lo lo = false | [] => True end ->
  combine (h :: X) = h :: combine X.
Proof. intro H. destruct X as [|lo r]; [reflexivity|]. cbn [combine]. rewrite H. reflexivity. Qed.

Lemma units_head c t : c < 1114112 ->
  match units (c :: t) with
  | u :: _ => if c <? 65536 then u = c else is_hi u = true /\ is_lo u = false
  | [] => False
  end.
Proof.
  intro Hc. unfold units. cbn [flat_map]. unfold units_of. destruct (c <? 65536) eqn:E; cbn [app]; [reflexivity|].
  unfold is_hi, is_lo. lia.
Qed.

Lemma combine_units s : str_ok s = true -> combine (units s) = s.
Proof.
  induction s as [|c s IH]; intro H; [reflexivity|].
  cbn [str_ok] in H. apply andb_true_iff in H as [H H3]. apply andb_true_iff in H as [H1 H2].
  specialize (IH H3). apply negb_true_iff in H2.
  change (units (c :: s)) with (units_of c ++ units s). unfold units_of.
  destruct (c <? 65536) eqn:E; cbn [app].
  - rewrite combine_skip; [rewrite IH; reflexivity|].
    destruct s as [|c' s']; [exact I|].
    assert (Hc' : c' < 1114112).
    { cbn [str_ok] in H3. apply andb_true_iff in H3 as [H3 _]. apply andb_true_iff in H3 as [H3 _]. lia. }
    pose proof (units_head c' s' Hc') as Hh. destruct (units (c' :: s')) as [|u r]; [contradiction|].
    destruct (c' <? 65536).
    + subst u. exact H2.
    + destruct Hh as [_ Hlo]. rewrite Hlo. apply andb_false_r.
  - cbn [combine].
    assert (Ehi : is_hi (55296 + (c - 65536) / 1024) = true) by (unfold is_hi; lia).
    assert (Elo : is_lo (56320 + (c - 65536) mod 1024) = true) by (unfold is_lo; lia).
    rewrite Ehi, Elo. cbn [andb]. rewrite IH. f_equal. lia.
Qed.

Theorem parse_string_dumps s rest : str_ok s = true ->
  parse_string (flat_map esc_char s ++ 34 :: rest) = Some (s, rest).
Proof.
  intro H. unfold parse_string. rewrite tok_string by (apply str_ok_range, H).
  rewrite combine_units by exact H. reflexivity.
Qed.

(* ================= numbers ================= *)
Definition rest_ok (rest : str) : Prop :=
  match rest with [] => True | x :: _ => float_char x = false end.

Lemma span_app p a rest : forallb p a = true ->
  match rest with [] => True | x :: _ => p x = false end ->
  span p (a ++ rest) = (a, rest).
Proof.
  intros Ha Hr. induction a as [|c a IH]; cbn [app].
  - destruct rest as [|x b]; [reflexivity|]. cbn [span]. rewrite Hr. reflexivity.
  - cbn [forallb] in Ha. apply andb_true_iff in Ha as [Hc Ha]. cbn [span]. rewrite Hc, (IH Ha). reflexivity.
Qed.

Lemma str_of_Z_chars z : forallb (fun c => adigit c || (c =? 45)) (str_of_Z z) = true.
Proof.
  assert (H : forall n, forallb (fun c => adigit c || (c =? 45)) (str_of_N n) = true).
  { intro n. pose proof (str_of_N_adigit n) as Hn. rewrite forallb_forall in *. intros x Hx.
    rewrite (Hn x Hx). reflexivity. }
  destruct z; cbn [str_of_Z]; [reflexivity|apply H|]. cbn [forallb]. rewrite H. reflexivity.
Qed.

Lemma int_chars_float t : forallb (fun c => adigit c || (c =? 45)) t = true ->
  forallb float_char t = true /\ has_dot_e t = false.
Proof.
  induction t as [|c t IH]; intro H; [split; reflexivity|].
  cbn [forallb] in H. apply andb_true_iff in H as [Hc Ht]. destruct (IH Ht) as [I1 I2].
  unfold has_dot_e in *. cbn [forallb existsb]. rewrite I1, I2. unfold float_char, adigit in *. split; lia.
Qed.

Lemma parse_int_str_of_Z z : parse_int (str_of_Z z) = Some z.
Proof.
  destruct z as [|p|p]; [reflexivity| |].
  - cbn [str_of_Z]. pose proof (str_of_N_nonnil (Npos p)) as Hn.
    pose proof (str_of_N_adigit (Npos p)) as Ha. pose proof (py_int_str_of_N (Npos p)) as Hp.
    destruct (str_of_N (Npos p)) as [|c d]; [contradiction|].
    cbn [forallb] in Ha. apply andb_true_iff in Ha as [Hc _].
    unfold parse_int. assert (E : (c =? 45) = false) by (unfold adigit in Hc; lia).
    rewrite E, Hp. reflexivity.
  - cbn [str_of_Z]. unfold parse_int. cbn [N.eqb Pos.eqb]. rewrite py_int_str_of_N. reflexivity.
Qed.

Lemma parse_number_int z rest : rest_ok rest ->
  parse_number (str_of_Z z ++ rest) = Some (PInt z, rest).
Proof.
  intro Hr. unfold parse_number. destruct (int_chars_float _ (str_of_Z_chars z)) as [H1 H2].
  rewrite (span_app float_char _ rest H1) by exact Hr.
  pose proof (str_of_Z_nonnil z) as Hn. pose proof (parse_int_str_of_Z z) as Hp.
  destruct (str_of_Z z); [contradiction|]. rewrite H2, Hp. reflexivity.
Qed.

Lemma parse_number_float t rest : float_tok t = true -> rest_ok rest ->
  parse_number (t ++ rest) = Some (PFloat t, rest).
Proof.
  intros Ht Hr. unfold parse_number. unfold float_tok in Ht. destruct t as [|c t']; [discriminate|].
  apply andb_true_iff in Ht as [H1 H2].
  rewrite (span_app float_char _ rest H1) by exact Hr. rewrite H2. reflexivity.
Qed.

(* ================= values ================= *)
Lemma parse_num_dispatch f c r : float_char c = true -> parse (S f) (c :: r) = parse_number (c :: r).
Proof.
  intro H. cbn [parse].
  assert (E : (c =? 110) = false /\ (c =? 116) = false /\ (c =? 102) = false /\ (c =? 34) = false /\
              (c =? 91) = false /\ (c =? 123) = false) by (unfold float_char, adigit in H; lia).
  destruct E as (E1 & E2 & E3 & E4 & E5 & E6). rewrite E1, E2, E3, E4, E5, E6. reflexivity.
Qed.

Lemma parse_str_dispatch f r : parse (S f) (34 :: r) =
  match parse_string r with Some (t, r') => Some (PStr t, r') | None => None end.
Proof. reflexivity. Qed.

Lemma parse_list_step f c1 r1 : (c1 =? 93) = false ->
  parse (S f) (91 :: c1 :: r1) =
  match parse f (c1 :: r1) with
  | Some (v, r2) => match parse_tail f r2 with Some (l, r3) => Some (PList (v :: l), r3) | None => None end
  | None => None
  end.
Proof. intro H. cbn [parse N.eqb Pos.eqb]. rewrite H. reflexivity. Qed.

Lemma parse_dict_step f c1 r1 : (c1 =? 125) = false ->
  parse (S f) (123 :: c1 :: r1) =
  match parse_member (parse f) (c1 :: r1) with
  | Some (kv, r2) => match parse_dtail f r2 with Some (l, r3) => Some (PDict (kv :: l), r3) | None => None end
  | None => None
  end.
Proof. intro H. cbn [parse N.eqb Pos.eqb]. rewrite H. reflexivity. Qed.

Lemma parse_tail_step f r : parse_tail (S f) (44 :: r) =
  match parse f r with
  | Some (v, r2) => match parse_tail f r2 with Some (l, r3) => Some (v :: l, r3) | None => None end
  | None => None
  end.
Proof. reflexivity. Qed.

Lemma parse_dtail_step f r : parse_dtail (S f) (44 :: r) =
  match parse_member (parse f) r with
  | Some (kv, r2) => match parse_dtail f r2 with Some (l, r3) => Some (kv :: l, r3) | None => None end
  | None => None
  end.
Proof. reflexivity. Qed.

Lemma parse_member_dumps p k Y : str_ok k = true ->
  parse_member p (34 :: flat_map esc_char k ++ 34 :: 58 :: Y) =
  match p Y with Some (v, r3) => Some ((PStr k, v), r3) | None => None end.
Proof.
  intro H. unfold parse_member. cbn [N.eqb Pos.eqb]. rewrite parse_string_dumps by exact H.
  cbn [N.eqb Pos.eqb]. reflexivity.
Qed.

(* first character of a printed value *)
Lemma dumps_head v s : parseable v = true -> json_dumps v = Ok s ->
  exists c r, s = c :: r /\ (c =? 93) = false.
Proof.
  intros Hp H. destruct v as [|b|z|t|s0|b|l|l|kv|n]; cbn [json_dumps] in H; try discriminate Hp.
  - inversion H; subst. eexists _, _; split; reflexivity.
  - destruct b; inversion H; subst; eexists _, _; split; reflexivity.
  - inversion H; subst. pose proof (str_of_Z_chars z) as Hc. pose proof (str_of_Z_nonnil z) as Hn.
    destruct (str_of_Z z) as [|c d]; [contradiction|]. exists c, d. split; [reflexivity|].
    cbn [forallb] in Hc. apply andb_true_iff in Hc as [Hc _]. unfold adigit in Hc. lia.
  - inversion H; subst. cbn [parseable] in Hp. unfold float_tok in Hp. destruct s as [|c d]; [discriminate|].
    apply andb_true_iff in Hp as [Hc _]. cbn [forallb] in Hc. apply andb_true_iff in Hc as [Hc _].
    exists c, d. split; [reflexivity|]. unfold float_char, adigit in Hc. lia.
  - inversion H; subst. eexists _, _; split; reflexivity.
  - match type of H with (bind ?X _ = _) => destruct X end; cbn [bind] in H; [|discriminate].
    inversion H; subst. eexists _, _; split; reflexivity.
  - match type of H with (bind ?X _ = _) => destruct X end; cbn [bind] in H; [|discriminate].
    inversion H; subst. eexists _, _; split; reflexivity.
Qed.

Lemma dumps_list_false_rest l sr d X : dumps_list l false = Ok sr -> float_char d = false ->
  rest_ok (sr ++ d :: X).
Proof.
  intros H Hd. destruct l as [|x l]; cbn [dumps_list] in H.
  - inversion H; subst. exact Hd.
  - destruct (json_dumps x); cbn [bind] in H; [|discriminate]. fold dumps_list in H.
    destruct (dumps_list l false); cbn [bind] in H; [|discriminate]. inversion H; subst. reflexivity.
Qed.

Lemma dumps_dict_false_rest kv sr d X : dumps_dict kv false = Ok sr -> float_char d = false ->
  rest_ok (sr ++ d :: X).
Proof.
  intros H Hd. destruct kv as [|[k x] kv]; cbn [dumps_dict] in H.
  - inversion H; subst. exact Hd.
  - destruct (json_key k); cbn [bind] in H; [|discriminate].
    destruct (json_dumps x); cbn [bind] in H; [|discriminate]. fold dumps_dict in H.
    destruct (dumps_dict kv false); cbn [bind] in H; [|discriminate]. inversion H; subst. reflexivity.
Qed.

Ltac norm := repeat (progress (cbn [app]; rewrite <- ?app_assoc)); cbn [app].
Ltac len := repeat (progress (rewrite ?app_length in *; cbn [List.length] in *)); lia.

(* the heart: the parser reads a printed value back and stops exactly after it *)
Theorem parse_dumps_gen : forall v, parseable v = true -> forall s, json_dumps v = Ok s ->
  forall fuel rest, rest_ok rest -> (List.length (s ++ rest) <= fuel)%nat ->
  parse fuel (s ++ rest) = Some (v, rest).
Proof.
  induction v as [|b|z|t|s0|b|l IH|l IH|kv IH|o] using pv_ind';
    intros Hp s Hs fuel rest Hr Hlen; try discriminate Hp.
  - (* null *) inversion Hs; subst. destruct fuel; [cbn in Hlen; lia|]. reflexivity.
  - (* bool *) destruct b; inversion Hs; subst; (destruct fuel; [cbn in Hlen; lia|]); reflexivity.
  - (* int *) cbn [json_dumps] in Hs. inversion Hs; subst.
    pose proof (str_of_Z_chars z) as Hc. pose proof (str_of_Z_nonnil z) as Hn.
    pose proof (parse_number_int z rest Hr) as Hpn.
    destruct (str_of_Z z) as [|c d]; [contradiction|]. destruct fuel; [cbn in Hlen; lia|].
    cbn [app] in *. rewrite parse_num_dispatch; [exact Hpn|].
    cbn [forallb] in Hc. apply andb_true_iff in Hc as [Hc _]. unfold float_char. unfold adigit in *. lia.
  - (* float *) cbn [json_dumps] in Hs. inversion Hs; subst. cbn [parseable] in Hp.
    pose proof (parse_number_float s rest Hp Hr) as Hpn.
    unfold float_tok in Hp. destruct s as [|c d]; [discriminate|]. destruct fuel; [cbn in Hlen; lia|].
    apply andb_true_iff in Hp as [Hc _]. cbn [forallb] in Hc. apply andb_true_iff in Hc as [Hc _].
    cbn [app] in *. rewrite parse_num_dispatch; [exact Hpn|exact Hc].
  - (* string *) cbn [json_dumps] in Hs. inversion Hs; subst. cbn [parseable] in Hp.
    destruct fuel; [cbn in Hlen; lia|]. unfold json_str. rewrite <- app_comm_cons, <- app_assoc. cbn [app].
    rewrite parse_str_dispatch, parse_string_dumps by exact Hp. reflexivity.
  - (* list *)
    rewrite parseable_PList in Hp. rewrite json_dumps_PList in Hs.
    assert (Htail : forall l, Forall (fun v => parseable v = true -> forall s, json_dumps v = Ok s ->
                      forall fuel rest, rest_ok rest -> (List.length (s ++ rest) <= fuel)%nat ->
                      parse fuel (s ++ rest) = Some (v, rest)) l ->
                    parseable_list l = true -> forall sl, dumps_list l false = Ok sl ->
                    forall fuel rest, (List.length (sl ++ 93%N :: rest) <= fuel)%nat ->
                    parse_tail fuel (sl ++ 93 :: rest) = Some (l, rest)).
    { clear. intros l IH. induction IH as [|x l Hx Hl IHl]; intros Hp sl Hs fuel rest Hlen.
      - cbn in Hs. inversion Hs; subst. destruct fuel; [cbn in Hlen; lia|]. reflexivity.
      - cbn [parseable_list] in Hp. fold parseable_list in Hp. apply andb_true_iff in Hp as [Hp1 Hp2].
        cbn [dumps_list] in Hs. fold dumps_list in Hs.
        destruct (json_dumps x) as [sx|] eqn:Ex; cbn [bind] in Hs; [|discriminate].
        destruct (dumps_list l false) as [sr|] eqn:Er; cbn [bind] in Hs; [|discriminate].
        inversion Hs; subst. destruct fuel; [cbn in Hlen; lia|].
        norm. rewrite parse_tail_step.
        rewrite (Hx Hp1 sx eq_refl fuel (sr ++ 93 :: rest)); [| |len].
        + rewrite (IHl Hp2 sr eq_refl fuel rest) by len. reflexivity.
        + apply (dumps_list_false_rest l); [exact Er|reflexivity]. }
    destruct l as [|x l].
    + cbn in Hs. inversion Hs; subst. destruct fuel; [cbn in Hlen; lia|]. reflexivity.
    + cbn [dumps_list] in Hs. fold dumps_list in Hs.
      cbn [parseable_list] in Hp. fold parseable_list in Hp. apply andb_true_iff in Hp as [Hp1 Hp2].
      inversion IH as [|x' l' Hx Hl]; subst.
      destruct (json_dumps x) as [sx|] eqn:Ex; cbn [bind] in Hs; [|discriminate].
      destruct (dumps_list l false) as [sr|] eqn:Er; cbn [bind] in Hs; [|discriminate].
      inversion Hs; subst. destruct fuel; [cbn in Hlen; lia|].
      destruct (dumps_head x sx Hp1 Ex) as (c1 & sx' & Esx & Ec1).
      norm.
      pose proof (Hx Hp1 sx eq_refl fuel (sr ++ 93 :: rest)) as Hx1.
      rewrite Esx in *. cbn [app] in *. rewrite parse_list_step by exact Ec1.
      rewrite Hx1; [| |len].
      * rewrite (Htail l Hl Hp2 sr Er fuel rest) by len. reflexivity.
      * apply (dumps_list_false_rest l); [exact Er|reflexivity].
  - (* dict *)
    rewrite parseable_PDict in Hp. apply andb_true_iff in Hp as [Hk Hp]. rewrite json_dumps_PDict in Hs.
    assert (Htail : forall kv, Forall (fun p => (parseable (fst p) = true -> forall s, json_dumps (fst p) = Ok s ->
                      forall fuel rest, rest_ok rest -> (List.length (s ++ rest) <= fuel)%nat ->
                      parse fuel (s ++ rest) = Some (fst p, rest)) /\
                     (parseable (snd p) = true -> forall s, json_dumps (snd p) = Ok s ->
                      forall fuel rest, rest_ok rest -> (List.length (s ++ rest) <= fuel)%nat ->
                      parse fuel (s ++ rest) = Some (snd p, rest))) kv ->
                    forallb pkey (map fst kv) = true -> parseable_dict kv = true ->
                    forall sl, dumps_dict kv false = Ok sl ->
                    forall fuel rest, (List.length (sl ++ 125%N :: rest) <= fuel)%nat ->
                    parse_dtail fuel (sl ++ 125 :: rest) = Some (kv, rest)).
    { clear. intros kv IH. induction IH as [|[k x] kv [_ Hx] Hl IHl]; intros Hk Hp sl Hs fuel rest Hlen.
      - cbn in Hs. inversion Hs; subst. destruct fuel; [cbn in Hlen; lia|]. reflexivity.
      - cbn [snd] in Hx. cbn [map fst forallb] in Hk. apply andb_true_iff in Hk as [Hk1 Hk2].
        cbn [parseable_dict] in Hp. fold parseable_dict in Hp. apply andb_true_iff in Hp as [Hp1 Hp2].
        destruct k; try discriminate Hk1. cbn [pkey] in Hk1.
        cbn [dumps_dict json_key bind] in Hs. fold dumps_dict in Hs.
        destruct (json_dumps x) as [sx|] eqn:Ex; cbn [bind] in Hs; [|discriminate].
        destruct (dumps_dict kv false) as [sr|] eqn:Er; cbn [bind] in Hs; [|discriminate].
        inversion Hs; subst. destruct fuel; [cbn in Hlen; lia|].
        norm. rewrite parse_dtail_step. rewrite parse_member_dumps by exact Hk1.
        rewrite (Hx Hp1 sx eq_refl fuel (sr ++ 125 :: rest)); [| |len].
        + rewrite (IHl Hk2 Hp2 sr eq_refl fuel rest) by len. reflexivity.
        + apply (dumps_dict_false_rest kv); [exact Er|reflexivity]. }
    destruct kv as [|[k x] kv].
    + cbn in Hs. inversion Hs; subst. destruct fuel; [cbn in Hlen; lia|]. reflexivity.
    + cbn [map fst forallb] in Hk. apply andb_true_iff in Hk as [Hk1 Hk2].
      cbn [parseable_dict] in Hp. fold parseable_dict in Hp. apply andb_true_iff in Hp as [Hp1 Hp2].
      inversion IH as [|p' l' [_ Hx] Hl]; subst. cbn [snd] in Hx.
      destruct k; try discriminate Hk1. cbn [pkey] in Hk1.
      cbn [dumps_dict json_key bind] in Hs. fold dumps_dict in Hs.
      destruct (json_dumps x) as [sx|] eqn:Ex; cbn [bind] in Hs; [|discriminate].
      destruct (dumps_dict kv false) as [sr|] eqn:Er; cbn [bind] in Hs; [|discriminate].
      inversion Hs; subst. destruct fuel; [cbn in Hlen; lia|].
      norm.
      unfold json_str in *. norm. rewrite parse_dict_step by reflexivity.
      rewrite parse_member_dumps by exact Hk1.
      rewrite (Hx Hp1 sx eq_refl fuel (sr ++ 125 :: rest)); [| |unfold json_str in *; len].
      * rewrite (Htail kv Hl Hk2 Hp2 sr Er fuel rest) by (unfold json_str in *; len). reflexivity.
      * apply (dumps_dict_false_rest kv); [exact Er|reflexivity].
Qed.

(* ================= the parser inverts the printer ================= *)
Theorem parse_dumps v s : parseable v = true -> json_dumps v = Ok s -> json_parse s = Some (v, []).
Proof.
  intros Hp Hs. unfold json_parse.
  pose proof (parse_dumps_gen v Hp s Hs (List.length s) [] I) as H.
  rewrite app_nil_r in H. apply H. apply Nat.le_refl.
Qed.

Theorem loads_dumps v s : parseable v = true -> json_dumps v = Ok s -> json_loads s = Ok v.
Proof. intros Hp Hs. unfold json_loads. rewrite (parse_dumps v s Hp Hs). reflexivity. Qed.
