(* Facts about the concrete JSON printer: the first character of the text of a
   non-number value is never a digit, '-' or '/'. *)
From VT Require Import Base.PyStrProofs Codec.Json.
From Coq Require Import Lia ZifyBool ZifyN.
Open Scope N_scope.

(* characters that can follow the header of a frame without being taken for part of it *)
Definition jstart (x : N) : Prop := is_digit x = false /\ x <> 45 /\ x <> 47.

Lemma jstart_of x : x = 91 \/ x = 123 \/ x = 34 \/ x = 116 \/ x = 102 \/ x = 110 -> jstart x.
Proof.
  intro H. repeat (destruct H as [H|H]; [subst x; repeat split; try (vm_compute; reflexivity); discriminate|]).
  subst x; repeat split; try (vm_compute; reflexivity); discriminate.
Qed.

Definition not_number (v : pv) : Prop := match v with PInt _ | PFloat _ => False | _ => True end.

Theorem json_dumps_first v s : json_dumps v = Ok s -> not_number v ->
  exists x b, s = x :: b /\ jstart x.
Proof.
  intros H Hn. destruct v as [|b|z|t|s0|b|l|l|kv|n]; cbn [json_dumps] in H; try contradiction; try discriminate.
  - inversion H; subst. eexists _, _. split; [reflexivity|]. apply jstart_of. tauto.
  - destruct b; inversion H; subst; (eexists _, _; split; [reflexivity|]); apply jstart_of; tauto.
  - inversion H; subst. unfold json_str. eexists _, _. split; [reflexivity|]. apply jstart_of. tauto.
  - match type of H with (bind ?X _ = _) => destruct X end; cbn [bind] in H; [|discriminate].
    inversion H; subst. eexists _, _. split; [reflexivity|]. apply jstart_of. tauto.
  - match type of H with (bind ?X _ = _) => destruct X end; cbn [bind] in H; [|discriminate].
    inversion H; subst. eexists _, _. split; [reflexivity|]. apply jstart_of. tauto.
  - match type of H with (bind ?X _ = _) => destruct X end; cbn [bind] in H; [|discriminate].
    inversion H; subst. eexists _, _. split; [reflexivity|]. apply jstart_of. tauto.
Qed.

(* the local fixpoints of the printer, named *)
Definition dumps_list : list pv -> bool -> Res str :=
  fix go (l : list pv) (first : bool) : Res str :=
    match l with
    | [] => Ok []
    | x :: l' => sx <- json_dumps x ;; sr <- go l' false ;;
                 Ok ((if first then [] else [44]) ++ sx ++ sr)
    end.
Definition dumps_dict : list (pv * pv) -> bool -> Res str :=
  fix go (kv : list (pv * pv)) (first : bool) : Res str :=
    match kv with
    | [] => Ok []
    | (k, x) :: kv' => sk <- json_key k ;; sx <- json_dumps x ;; sr <- go kv' false ;;
                       Ok ((if first then [] else [44]) ++ sk ++ 58 :: sx ++ sr)
    end.
Lemma json_dumps_PList l : json_dumps (PList l) = (r <- dumps_list l true ;; Ok (91 :: r ++ [93])).
Proof. reflexivity. Qed.
Lemma json_dumps_PDict kv : json_dumps (PDict kv) = (r <- dumps_dict kv true ;; Ok (123 :: r ++ [125])).
Proof. reflexivity. Qed.
