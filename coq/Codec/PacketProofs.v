From VT Require Import Codec.Packet Codec.SpecCodec.
From Coq Require Import Lia.

Lemma binary_only_event_ack t data ns id :
  has_bytes data = true -> (t <> EVENT)%Z -> (t <> ACK)%Z ->
  ctor true t data ns id None = Err ValueError.
Proof.
  intros Hb H2 H3. unfold ctor. cbn [andb]. rewrite Hb.
  destruct (Z.eqb_spec t EVENT); [contradiction|].
  destruct (Z.eqb_spec t ACK); [contradiction|]. reflexivity.
Qed.
