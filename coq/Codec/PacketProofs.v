(* Proofs about Packet.v: binary only for EVENT/ACK; the header scanner of decode_str
   lands where the encoder wrote the fields. *)
From VT Require Import Base.PyStrProofs Codec.JsonProofs Codec.Packet Codec.SpecCodec.
From Coq Require Import Lia ZifyBool ZifyN.
Open Scope N_scope.

Lemma binary_only_event_ack t data ns id :
  has_bytes data = true -> (t <> EVENT)%Z -> (t <> ACK)%Z ->
  ctor true t data ns id None = Err ValueError.
Proof.
  intros Hb H2 H3. unfold ctor. cbn [andb]. rewrite Hb.
  destruct (Z.eqb_spec t EVENT); [contradiction|].
  destruct (Z.eqb_spec t ACK); [contradiction|]. reflexivity.
Qed.

(* ---- list slicing ---- *)
Lemma firstn_length_app {A} (a b : list A) : firstn (List.length a) (a ++ b) = a.
Proof. induction a; cbn; [destruct b; reflexivity|f_equal; assumption]. Qed.
Lemma skipn_length_app {A} (a b : list A) : skipn (List.length a) (a ++ b) = b.
Proof. induction a; cbn; [reflexivity|assumption]. Qed.
Lemma skipn_S_length_app {A} (a b : list A) c : skipn (S (List.length a)) (a ++ c :: b) = b.
Proof. induction a; cbn; [reflexivity|assumption]. Qed.

(* ---- the phases of decode_str, named ---- *)
Definition scan_count (ep : str) : Res (N * str) :=
  match find 45 ep with
  | Some (S d) =>
      let dash := S d in
      if isdigit_str (firstn dash ep) then
        if Nat.ltb 10 dash then Err ValueError
        else n <- py_int (firstn dash ep) ;; Ok (n, skipn (S dash) ep)
      else Ok (0, ep)
  | _ => Ok (0, ep)
  end.

Definition strip_query (ns : str) : str :=
  match find 63 ns with Some q => firstn q ns | None => ns end.

Definition scan_ns (ep : str) : option str * str :=
  match ep with
  | 47 :: _ =>
      let '(ns, rest) := match find 44 ep with
                         | None => (ep, [])
                         | Some sep => (firstn sep ep, skipn (S sep) ep)
                         end in
      let ns := match find 63 ns with Some q => firstn q ns | None => ns end in
      (Some ns, rest)
  | _ => (None, ep)
  end.

Definition scan_id (ep : str) : Res (option Z * str) :=
  match ep with
  | c :: r =>
      if is_digit c then
        let i := S (digit_run 99 r) in
        n <- py_int (firstn i ep) ;;
        let ep' := skipn i ep in
        match ep' with
        | c' :: _ => if is_digit c' then Err ValueError else Ok (Some (Z.of_N n), ep')
        | [] => Ok (Some (Z.of_N n), ep')
        end
      else Ok (None, ep)
  | [] => Ok (None, ep)
  end.

Definition decode_rest (loads : str -> Res pv) (t count : N) (ep : str) : Res rpacket :=
  let '(ns, ep) := scan_ns ep in
  '(id, ep) <- scan_id ep ;;
  data <- (match ep with [] => Ok PNone | _ => loads ep end) ;;
  Ok (mkR (mkPacket (PInt (Z.of_N t)) ns id data) count []).

Lemma decode_str_eq loads c0 ep :
  decode_str loads (c0 :: ep) =
  match dec_val c0 with
  | None => Err ValueError
  | Some t => '(count, ep) <- scan_count ep ;; decode_rest loads t count ep
  end.
Proof. reflexivity. Qed.

(* ---- shapes of the text the encoder writes after the type digit ---- *)
Definition js_ok (js : str) : Prop := js = [] \/ exists x b, js = x :: b /\ jstart x.
Definition ns_ok (ns : option str) : Prop :=
  match ns with None => True | Some s => exists r, s = 47 :: r /\ existsb (N.eqb 44) r = false end.
Definition id_ok (id : option Z) : Prop :=
  match id with None => True | Some i => (0 <= i)%Z /\ (List.length (str_of_Z i) <= 100)%nat end.
Definition nsp_of (ns : option str) : str :=
  match ns with Some ns => if str_eqb ns [47] then [] else ns ++ [44] | None => [] end.
Definition ids_of (id : option Z) : str :=
  match id with Some i => str_of_Z i | None => [] end.
(* the namespace the decoder reports *)
Definition ns_dec (ns : option str) : option str :=
  match ns with
  | None => None
  | Some s => if str_eqb s [47] then None else Some (strip_query s)
  end.

Lemma isdigit_str_false s : forallb is_digit s = false -> isdigit_str s = false.
Proof. destruct s; cbn [isdigit_str]; auto. Qed.

Lemma is_digit_neq c x : is_digit c = true -> is_digit x = false -> c <> x.
Proof. intros H1 H2 E; subst; congruence. Qed.

(* (a) no attachment count is read from a non-binary frame *)
Lemma scan_count_none a rest :
  forallb is_digit a = true ->
  (rest = [] \/ exists x b, rest = x :: b /\ is_digit x = false /\ x <> 45) ->
  scan_count (a ++ rest) = Ok (0, a ++ rest).
Proof.
  intros Ha Hr. unfold scan_count.
  destruct (find 45 (a ++ rest)) as [[|d]|] eqn:F; try reflexivity.
  destruct Hr as [->|(x & b & -> & Hx & Hx45)].
  - rewrite app_nil_r in F. rewrite find_absent in F; [discriminate|].
    intros y Hy. rewrite forallb_forall in Ha. apply is_digit_neq; [auto|exact not_digit_dash].
  - pose proof (find_after_nondigit 45 a x b (S d) not_digit_dash Ha Hx Hx45 F) as Hf.
    cbv zeta. rewrite (isdigit_str_false _ Hf). reflexivity.
Qed.

(* (b) the attachment count of a binary frame *)
Lemma scan_count_bin n rest : n < 10000000000 ->
  scan_count (str_of_N n ++ 45 :: rest) = Ok (n, rest).
Proof.
  intro Hn. unfold scan_count.
  rewrite find_app_notin by (apply all_adigit_notin; [apply str_of_N_adigit|reflexivity]).
  pose proof (str_of_N_nonnil n) as Hnn.
  assert (Hl : (List.length (str_of_N n) <= 10)%nat) by (apply str_of_N_len; exact Hn).
  destruct (List.length (str_of_N n)) as [|d] eqn:E; [apply length_zero_iff_nil in E; contradiction|].
  cbv zeta. rewrite <- E. rewrite firstn_length_app, skipn_S_length_app.
  rewrite isdigit_str_of_N, py_int_str_of_N.
  assert (El : Nat.ltb 10 (List.length (str_of_N n)) = false) by (apply Nat.ltb_ge; lia).
  rewrite El. reflexivity.
Qed.

(* (c) namespace *)
Lemma scan_ns_slash r :
  scan_ns (47 :: r) =
  let '(ns, rest) := match find 44 (47 :: r) with
                     | None => (47 :: r, [])
                     | Some sep => (firstn sep (47 :: r), skipn (S sep) (47 :: r))
                     end in
  (Some (strip_query ns), rest).
Proof. reflexivity. Qed.

Lemma scan_ns_some r rest : existsb (N.eqb 44) r = false ->
  scan_ns ((47 :: r) ++ 44 :: rest) = (Some (strip_query (47 :: r)), rest).
Proof.
  intro H. change ((47 :: r) ++ 44 :: rest) with (47 :: (r ++ 44 :: rest)).
  rewrite scan_ns_slash. change (47 :: (r ++ 44 :: rest)) with ((47 :: r) ++ 44 :: rest).
  rewrite find_app_notin.
  - rewrite firstn_length_app, skipn_S_length_app. reflexivity.
  - intros x [<-|Hx]; [discriminate|]. exact (existsb_eqb_false 44 r H x Hx).
Qed.

Lemma scan_ns_not_slash x r : x <> 47 -> scan_ns (x :: r) = (None, x :: r).
Proof.
  intro H. unfold scan_ns. destruct x as [|p]; [reflexivity|].
  repeat (destruct p as [p|p|]; try reflexivity). exfalso; apply H; reflexivity.
Qed.

Lemma scan_ns_none a js : forallb is_digit a = true -> js_ok js ->
  scan_ns (a ++ js) = (None, a ++ js).
Proof.
  intros Ha Hj. destruct a as [|c a].
  - cbn [app]. destruct Hj as [->|(x & b & -> & _ & _ & Hx)]; [reflexivity|]. apply scan_ns_not_slash, Hx.
  - cbn [app]. apply scan_ns_not_slash. cbn [forallb] in Ha. apply andb_true_iff in Ha as [Hc _].
    apply is_digit_neq; [exact Hc|exact not_digit_slash].
Qed.

(* (d) id *)
Lemma scan_id_some n js : (List.length (str_of_N n) <= 100)%nat -> js_ok js ->
  scan_id (str_of_N n ++ js) = Ok (Some (Z.of_N n), js).
Proof.
  intros Hl Hj. pose proof (str_of_N_nonnil n) as Hnn.
  pose proof (all_adigit_is_digit _ (str_of_N_adigit n)) as Hd.
  pose proof (py_int_str_of_N n) as Hp.
  destruct (str_of_N n) as [|c a] eqn:E; [contradiction|].
  cbn [forallb] in Hd. apply andb_true_iff in Hd as [Hc Ha]. cbn [List.length] in Hl.
  cbn [app]. unfold scan_id. rewrite Hc.
  assert (Hjd : match js with [] => True | x :: _ => is_digit x = false end).
  { destruct Hj as [->|(x & b & -> & Hx & _)]; [exact I|exact Hx]. }
  rewrite (digit_run_exact a 99 js Ha) by (lia || exact Hjd). cbv zeta.
  change (c :: a ++ js) with ((c :: a) ++ js).
  change (S (List.length a)) with (List.length (c :: a)).
  rewrite firstn_length_app, skipn_length_app, Hp. cbn [bind].
  destruct js as [|x b]; [reflexivity|]. rewrite Hjd. reflexivity.
Qed.

Lemma scan_id_none js : js_ok js -> scan_id js = Ok (None, js).
Proof.
  intros [->|(x & b & -> & Hx & _)]; [reflexivity|]. unfold scan_id. rewrite Hx. reflexivity.
Qed.

Lemma ids_digits id : id_ok id -> forallb is_digit (ids_of id) = true.
Proof.
  destruct id as [i|]; [|reflexivity]. intros [H0 _]. cbn [ids_of].
  rewrite str_of_Z_nonneg by exact H0. apply all_adigit_is_digit, str_of_N_adigit.
Qed.

Lemma scan_id_ids id js : id_ok id -> js_ok js -> scan_id (ids_of id ++ js) = Ok (id, js).
Proof.
  destruct id as [i|]; intros Hi Hj; cbn [ids_of app].
  - destruct Hi as [H0 Hl]. rewrite str_of_Z_nonneg in * by exact H0.
    rewrite scan_id_some by assumption. rewrite Z2N.id by exact H0. reflexivity.
  - apply scan_id_none, Hj.
Qed.

Lemma js_ok_nodash js : js_ok js ->
  js = [] \/ exists x b, js = x :: b /\ is_digit x = false /\ x <> 45.
Proof. intros [->|(x & b & -> & Hx & H45 & _)]; [left; reflexivity|right; eauto 6]. Qed.

(* the text after the count: namespace, id, JSON *)
Lemma decode_rest_frame loads t count ns id js body :
  ns_ok ns -> id_ok id -> js_ok js ->
  (match js with [] => Ok PNone | _ => loads js end) = Ok body ->
  decode_rest loads t count (nsp_of ns ++ ids_of id ++ js) =
  Ok (mkR (mkPacket (PInt (Z.of_N t)) (ns_dec ns) id body) count []).
Proof.
  intros Hns Hid Hjs Hl. unfold decode_rest.
  assert (Hrest : scan_ns (ids_of id ++ js) = (None, ids_of id ++ js)).
  { apply scan_ns_none; [apply ids_digits, Hid|exact Hjs]. }
  assert (Hfin : ('(id0, ep) <- scan_id (ids_of id ++ js) ;;
                  data <- (match ep with [] => Ok PNone | _ => loads ep end) ;;
                  Ok (mkR (mkPacket (PInt (Z.of_N t)) (ns_dec ns) id0 data) count []))
                 = Ok (mkR (mkPacket (PInt (Z.of_N t)) (ns_dec ns) id body) count [])).
  { rewrite scan_id_ids by assumption. cbn [bind]. rewrite Hl. reflexivity. }
  unfold nsp_of, ns_dec in *. destruct ns as [s|].
  - destruct Hns as (r & -> & Hr). destruct (str_eqb (47 :: r) [47]) eqn:E.
    + cbn [app]. rewrite Hrest. exact Hfin.
    + rewrite <- app_assoc. cbn [app]. change (47 :: r ++ 44 :: ids_of id ++ js) with ((47 :: r) ++ 44 :: ids_of id ++ js).
      rewrite scan_ns_some by exact Hr. exact Hfin.
  - cbn [app]. rewrite Hrest. exact Hfin.
Qed.

(* non-binary frame: type digit, namespace, id, JSON *)
Theorem decode_str_nonbin loads t ns id js body : t < 10 ->
  ns_ok ns -> id_ok id -> js_ok js ->
  (match js with [] => Ok PNone | _ => loads js end) = Ok body ->
  decode_str loads ((48 + t) :: nsp_of ns ++ ids_of id ++ js) =
  Ok (mkR (mkPacket (PInt (Z.of_N t)) (ns_dec ns) id body) 0 []).
Proof.
  intros Ht Hns Hid Hjs Hl. rewrite decode_str_eq.
  rewrite adigit_dec_val by (unfold adigit; lia). replace (48 + t - 48) with t by lia.
  assert (Hc : scan_count (nsp_of ns ++ ids_of id ++ js) = Ok (0, nsp_of ns ++ ids_of id ++ js)).
  { unfold nsp_of. destruct ns as [s|]; [destruct Hns as (r & -> & Hr); destruct (str_eqb (47 :: r) [47])|].
    - cbn [app]. apply scan_count_none; [apply ids_digits, Hid|apply js_ok_nodash, Hjs].
    - rewrite <- app_assoc. cbn [app]. apply (scan_count_none []); [reflexivity|].
      right. eexists _, _. split; [reflexivity|]. split; [exact not_digit_slash|discriminate].
    - cbn [app]. apply scan_count_none; [apply ids_digits, Hid|apply js_ok_nodash, Hjs]. }
  rewrite Hc. cbn [bind]. apply decode_rest_frame; assumption.
Qed.

(* binary frame: type digit, count, '-', namespace, id, JSON *)
Theorem decode_str_bin loads t n ns id js body : t < 10 -> n < 10000000000 ->
  ns_ok ns -> id_ok id -> js_ok js ->
  (match js with [] => Ok PNone | _ => loads js end) = Ok body ->
  decode_str loads ((48 + t) :: (str_of_N n ++ [45]) ++ nsp_of ns ++ ids_of id ++ js) =
  Ok (mkR (mkPacket (PInt (Z.of_N t)) (ns_dec ns) id body) n []).
Proof.
  intros Ht Hn Hns Hid Hjs Hl. rewrite decode_str_eq.
  rewrite adigit_dec_val by (unfold adigit; lia). replace (48 + t - 48) with t by lia.
  rewrite <- app_assoc. cbn [app]. rewrite scan_count_bin by exact Hn. cbn [bind].
  apply decode_rest_frame; assumption.
Qed.
