(* Conformance of Packet.encode with the specification-derived encoder, and binary
   reconstruction: deconstruct = (subst, leaves), reconstruct (subst v) (leaves v) = v. *)
From VT Require Import Base.PyStrProofs Codec.Packet Codec.SpecCodec.
From Coq Require Import Lia ZifyBool ZifyN.
Open Scope N_scope.

(* ---- the local fixpoints of the models, named ---- *)
Definition decon_list : list pv -> list str -> list pv * list str :=
  fix go (l : list pv) (acc : list str) : list pv * list str :=
    match l with
    | [] => ([], acc)
    | x :: r => let '(x', a1) := decon x acc in
                let '(r', a2) := go r a1 in (x' :: r', a2)
    end.
Definition decon_dict : list (pv * pv) -> list str -> list (pv * pv) * list str :=
  fix go (kv : list (pv * pv)) (acc : list str) : list (pv * pv) * list str :=
    match kv with
    | [] => ([], acc)
    | (k, x) :: r => let '(x', a1) := decon x acc in
                     let '(r', a2) := go r a1 in ((k, x') :: r', a2)
    end.
Definition leaves_list : list pv -> list str :=
  fix go (l : list pv) : list str := match l with [] => [] | x :: r => leaves x ++ go r end.
Definition leaves_dict : list (pv * pv) -> list str :=
  fix go (kv : list (pv * pv)) : list str :=
    match kv with [] => [] | (_, x) :: r => leaves x ++ go r end.
Definition subst_list : list pv -> nat -> list pv :=
  fix go (l : list pv) (n : nat) : list pv :=
    match l with [] => [] | x :: r => subst x n :: go r (n + List.length (leaves x))%nat end.
Definition subst_dict : list (pv * pv) -> nat -> list (pv * pv) :=
  fix go (kv : list (pv * pv)) (n : nat) : list (pv * pv) :=
    match kv with [] => []
    | (k, x) :: r => (k, subst x n) :: go r (n + List.length (leaves x))%nat end.
Definition recon_list (atts : list pv) : list pv -> Res (list pv) :=
  fix go (l : list pv) : Res (list pv) :=
    match l with
    | [] => Ok []
    | x :: r => x' <- recon x atts ;; r' <- go r ;; Ok (x' :: r')
    end.
Definition recon_dict (atts : list pv) : list (pv * pv) -> Res (list (pv * pv)) :=
  fix go (kv : list (pv * pv)) : Res (list (pv * pv)) :=
    match kv with
    | [] => Ok []
    | (k, x) :: r => x' <- recon x atts ;; r' <- go r ;; Ok ((k, x') :: r')
    end.
Definition has_bytes_list : list pv -> bool :=
  fix go (l : list pv) : bool := match l with [] => false | x :: r => has_bytes x || go r end.
Definition has_bytes_dict : list (pv * pv) -> bool :=
  fix go (kv : list (pv * pv)) : bool :=
    match kv with [] => false | (_, x) :: r => has_bytes x || go r end.

Lemma decon_PList l acc :
  decon (PList l) acc = let '(l', acc') := decon_list l acc in (PList l', acc').
Proof. reflexivity. Qed.
Lemma decon_PDict kv acc :
  decon (PDict kv) acc = let '(kv', acc') := decon_dict kv acc in (PDict kv', acc').
Proof. reflexivity. Qed.
Lemma leaves_PList l : leaves (PList l) = leaves_list l.  Proof. reflexivity. Qed.
Lemma leaves_PDict kv : leaves (PDict kv) = leaves_dict kv.  Proof. reflexivity. Qed.
Lemma subst_PList l n : subst (PList l) n = PList (subst_list l n).  Proof. reflexivity. Qed.
Lemma subst_PDict kv n : subst (PDict kv) n = PDict (subst_dict kv n).  Proof. reflexivity. Qed.
Lemma recon_PList l atts : recon (PList l) atts = (l' <- recon_list atts l ;; Ok (PList l')).
Proof. reflexivity. Qed.
Lemma has_bytes_PList l : has_bytes (PList l) = has_bytes_list l.  Proof. reflexivity. Qed.
Lemma has_bytes_PDict kv : has_bytes (PDict kv) = has_bytes_dict kv.  Proof. reflexivity. Qed.

(* ---- deconstruct is the declarative (subst, leaves) ---- *)
Lemma decon_spec : forall v acc,
  decon v acc = (subst v (List.length acc), acc ++ leaves v).
Proof.
  induction v as [| | | | | |l IH|l IH|kv IH|] using pv_ind'; intro acc;
    try (cbn [decon subst leaves]; rewrite ?app_nil_r; reflexivity).
  - (* list *)
    rewrite decon_PList, subst_PList, leaves_PList.
    assert (H : decon_list l acc = (subst_list l (List.length acc), acc ++ leaves_list l)).
    { revert acc. induction IH as [|x l Hx Hl IHl]; intro acc; cbn [decon_list subst_list leaves_list].
      - rewrite app_nil_r. reflexivity.
      - rewrite Hx. fold decon_list. rewrite IHl. rewrite app_length, app_assoc. reflexivity. }
    rewrite H. reflexivity.
  - (* dict *)
    rewrite decon_PDict, subst_PDict, leaves_PDict.
    assert (H : decon_dict kv acc = (subst_dict kv (List.length acc), acc ++ leaves_dict kv)).
    { revert acc. induction IH as [|[k x] kv [_ Hx] Hl IHl]; intro acc; cbn [decon_dict subst_dict leaves_dict].
      - rewrite app_nil_r. reflexivity.
      - cbn [snd] in Hx. rewrite Hx. fold decon_dict. rewrite IHl. rewrite app_length, app_assoc. reflexivity. }
    rewrite H. reflexivity.
Qed.

Corollary decon_nil v : decon v [] = (subst v 0, leaves v).
Proof. rewrite decon_spec. reflexivity. Qed.

(* ---- conformance: the two encoders are the same function ---- *)
Theorem conformance : forall p, encode p = spec_encode p.
Proof.
  intros [ty ns id data]. unfold encode, spec_encode. cbn [ptype pns pid pdata].
  destruct ty; try reflexivity.
  change BINARY_EVENT with 5%Z. change BINARY_ACK with 6%Z.
  destruct ((z =? 5)%Z || (z =? 6)%Z).
  - rewrite decon_nil.
    destruct (match subst data 0 with PNone => Ok [] | _ => json_dumps (subst data 0) end); [|reflexivity].
    cbn [bind]. change (s2l "-") with [45]. change (s2l "/") with [47]. change (s2l ",") with [44].
    rewrite <- !app_assoc. reflexivity.
  - destruct (match data with PNone => Ok [] | _ => json_dumps data end); [|reflexivity].
    cbn [bind]. change (s2l "/") with [47]. change (s2l ",") with [44].
    rewrite <- !app_assoc. reflexivity.
Qed.

(* ---- binary reconstruction ---- *)
(* the only requirement on the payload: no dict (reachable through lists and dict values)
   has a key equal to "_placeholder" *)
Definition no_ph_key (kv : list (pv * pv)) : bool :=
  forallb (fun k => negb (py_eq k k_placeholder)) (map fst kv).
Fixpoint ph_free (v : pv) : bool :=
  match v with
  | PList l => (fix go (l : list pv) : bool := match l with [] => true | x :: r => ph_free x && go r end) l
  | PDict kv => no_ph_key kv &&
                (fix go (kv : list (pv * pv)) : bool :=
                   match kv with [] => true | (_, x) :: r => ph_free x && go r end) kv
  | _ => true
  end.
Definition ph_free_list : list pv -> bool :=
  fix go (l : list pv) : bool := match l with [] => true | x :: r => ph_free x && go r end.
Definition ph_free_dict : list (pv * pv) -> bool :=
  fix go (kv : list (pv * pv)) : bool :=
    match kv with [] => true | (_, x) :: r => ph_free x && go r end.
Lemma ph_free_PList l : ph_free (PList l) = ph_free_list l.  Proof. reflexivity. Qed.
Lemma ph_free_PDict kv : ph_free (PDict kv) = no_ph_key kv && ph_free_dict kv.  Proof. reflexivity. Qed.

Lemma recon_PDict kv atts :
  recon (PDict kv) atts =
  let ph := match dict_get kv k_placeholder with Some p => truthy p | None => false end in
  match (if ph then dict_get kv k_num else None) with
  | Some i => py_index atts i
  | None => kv' <- recon_dict atts kv ;; Ok (PDict kv')
  end.
Proof. reflexivity. Qed.

Lemma recon_placeholder n atts : recon (placeholder n) atts = py_index atts (PInt (Z.of_nat n)).
Proof. reflexivity. Qed.

Lemma py_index_mid (pre post : list pv) x :
  py_index (pre ++ x :: post) (PInt (Z.of_nat (List.length pre))) = Ok x.
Proof.
  unfold py_index. cbn [as_int].
  assert (E1 : (Z.of_nat (List.length pre) <? 0)%Z = false) by lia.
  rewrite !E1. cbn [orb].
  assert (E2 : (Z.of_nat (List.length (pre ++ x :: post)) <=? Z.of_nat (List.length pre))%Z = false).
  { rewrite app_length. cbn [List.length]. lia. }
  rewrite E2. rewrite Nat2Z.id, nth_error_app2 by lia. rewrite Nat.sub_diag. reflexivity.
Qed.

Lemma dict_get_subst_none kv : no_ph_key kv = true ->
  forall n, dict_get (subst_dict kv n) k_placeholder = None.
Proof.
  unfold no_ph_key. induction kv as [|[k x] kv IH]; intros H n; [reflexivity|].
  cbn [map fst forallb] in H. apply andb_true_iff in H as [Hk H].
  cbn [subst_dict dict_get]. apply negb_true_iff in Hk. rewrite Hk. fold subst_dict. apply IH, H.
Qed.

Theorem recon_subst : forall v, ph_free v = true -> forall pre post,
  recon (subst v (List.length pre)) (pre ++ map PBytes (leaves v) ++ post) = Ok v.
Proof.
  induction v as [| | | | | |l IH|l IH|kv IH|] using pv_ind'; intros Hwf pre post;
    try reflexivity.
  - (* bytes *)
    cbn [subst leaves map app]. rewrite recon_placeholder. apply py_index_mid.
  - (* list *)
    rewrite ph_free_PList in Hwf. rewrite subst_PList, leaves_PList, recon_PList.
    assert (H : recon_list (pre ++ map PBytes (leaves_list l) ++ post) (subst_list l (List.length pre)) = Ok l).
    { revert pre post Hwf. induction IH as [|x l Hx Hl IHl]; intros pre post Hwf; [reflexivity|].
      cbn [ph_free_list] in Hwf. fold ph_free_list in Hwf. apply andb_true_iff in Hwf as [Hwx Hwl].
      cbn [subst_list leaves_list recon_list]. fold subst_list leaves_list.
      fold (recon_list (pre ++ map PBytes (leaves x ++ leaves_list l) ++ post)).
      rewrite map_app, <- app_assoc. rewrite (Hx Hwx). cbn [bind].
      specialize (IHl (pre ++ map PBytes (leaves x)) post Hwl).
      rewrite app_length, map_length, <- app_assoc in IHl. rewrite IHl. reflexivity. }
    rewrite H. reflexivity.
  - (* dict *)
    rewrite ph_free_PDict in Hwf. apply andb_true_iff in Hwf as [Hk Hwf].
    rewrite subst_PDict, leaves_PDict, recon_PDict.
    rewrite (dict_get_subst_none kv Hk). cbv zeta. cbn match.
    assert (H : recon_dict (pre ++ map PBytes (leaves_dict kv) ++ post) (subst_dict kv (List.length pre)) = Ok kv).
    { clear Hk. revert pre post Hwf. induction IH as [|[k x] kv [_ Hx] Hl IHl]; intros pre post Hwf; [reflexivity|].
      cbn [snd] in Hx.
      cbn [ph_free_dict] in Hwf. fold ph_free_dict in Hwf. apply andb_true_iff in Hwf as [Hwx Hwl].
      cbn [subst_dict leaves_dict recon_dict]. fold subst_dict leaves_dict.
      fold (recon_dict (pre ++ map PBytes (leaves x ++ leaves_dict kv) ++ post)).
      rewrite map_app, <- app_assoc. rewrite (Hx Hwx). cbn [bind].
      specialize (IHl (pre ++ map PBytes (leaves x)) post Hwl).
      rewrite app_length, map_length, <- app_assoc in IHl. rewrite IHl. reflexivity. }
    rewrite H. reflexivity.
Qed.

Corollary recon_decon v : ph_free v = true ->
  recon (fst (decon v [])) (map PBytes (snd (decon v []))) = Ok v.
Proof.
  intro H. rewrite decon_nil. cbn [fst snd].
  pose proof (recon_subst v H [] []) as R. cbn [List.length app] in R. rewrite app_nil_r in R. exact R.
Qed.
