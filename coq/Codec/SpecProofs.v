(* Conformance of Packet.encode with the specification-derived encoder, and binary
   reconstruction: deconstruct = (subst, leaves), reconstruct (subst v) (leaves v) = v. *)
From VT Require Import Base.PyStrProofs Codec.JsonProofs Codec.PacketProofs Codec.Packet Codec.SpecCodec.
From Coq Require Import Lia ZifyBool ZifyN.
Open Scope N_scope.

(* ---- the local fixpoints of the models, named ---- *)
Definition decon_list : list pv -> list str -> list pv * list str :=
  fix go (l : list pv) (acc : list str) : list pv * list str :=
    match l with
    | [] => ([], acc)
    | x :: r => let '(x', a1) := decon x acc in
                let '(r', a2) := go r a1 in (x' :: r', a2)
    end.
Definition decon_dict : list (pv * pv) -> list str -> list (pv * pv) * list str :=
  fix go (kv : list (pv * pv)) (acc : list str) : list (pv * pv) * list str :=
    match kv with
    | [] => ([], acc)
    | (k, x) :: r => let '(x', a1) := decon x acc in
                     let '(r', a2) := go r a1 in ((k, x') :: r', a2)
    end.
Definition leaves_list : list pv -> list str :=
  fix go (l : list pv) : list str := match l with [] => [] | x :: r => leaves x ++ go r end.
Definition leaves_dict : list (pv * pv) -> list str :=
  fix go (kv : list (pv * pv)) : list str :=
    match kv with [] => [] | (_, x) :: r => leaves x ++ go r end.
Definition subst_list : list pv -> nat -> list pv :=
  fix go (l : list pv) (n : nat) : list pv :=
    match l with [] => [] | x :: r => subst x n :: go r (n + List.length (leaves x))%nat end.
Definition subst_dict : list (pv * pv) -> nat -> list (pv * pv) :=
  fix go (kv : list (pv * pv)) (n : nat) : list (pv * pv) :=
    match kv with [] => []
    | (k, x) :: r => (k, subst x n) :: go r (n + List.length (leaves x))%nat end.
Definition recon_list (atts : list pv) : list pv -> Res (list pv) :=
  fix go (l : list pv) : Res (list pv) :=
    match l with
    | [] => Ok []
    | x :: r => x' <- recon x atts ;; r' <- go r ;; Ok (x' :: r')
    end.
Definition recon_dict (atts : list pv) : list (pv * pv) -> Res (list (pv * pv)) :=
  fix go (kv : list (pv * pv)) : Res (list (pv * pv)) :=
    match kv with
    | [] => Ok []
    | (k, x) :: r => x' <- recon x atts ;; r' <- go r ;; Ok ((k, x') :: r')
    end.
Definition has_bytes_list : list pv -> bool :=
  fix go (l : list pv) : bool := match l with [] => false | x :: r => has_bytes x || go r end.
Definition has_bytes_dict : list (pv * pv) -> bool :=
  fix go (kv : list (pv * pv)) : bool :=
    match kv with [] => false | (_, x) :: r => has_bytes x || go r end.

Lemma decon_PList l acc :
  decon (PList l) acc = let '(l', acc') := decon_list l acc in (PList l', acc').
Proof. reflexivity. Qed.
Lemma decon_PDict kv acc :
  decon (PDict kv) acc = let '(kv', acc') := decon_dict kv acc in (PDict kv', acc').
Proof. reflexivity. Qed.
Lemma leaves_PList l : leaves (PList l) = leaves_list l.  Proof. reflexivity. Qed.
Lemma leaves_PDict kv : leaves (PDict kv) = leaves_dict kv.  Proof. reflexivity. Qed.
Lemma subst_PList l n : subst (PList l) n = PList (subst_list l n).  Proof. reflexivity. Qed.
Lemma subst_PDict kv n : subst (PDict kv) n = PDict (subst_dict kv n).  Proof. reflexivity. Qed.
Lemma recon_PList l atts : recon (PList l) atts = (l' <- recon_list atts l ;; Ok (PList l')).
Proof. reflexivity. Qed.
Lemma has_bytes_PList l : has_bytes (PList l) = has_bytes_list l.  Proof. reflexivity. Qed.
Lemma has_bytes_PDict kv : has_bytes (PDict kv) = has_bytes_dict kv.  Proof. reflexivity. Qed.

(* ---- deconstruct is the declarative (subst, leaves) ---- *)
Lemma decon_spec : forall v acc,
  decon v acc = (subst v (List.length acc), acc ++ leaves v).
Proof.
  induction v as [| | | | | |l IH|l IH|kv IH|] using pv_ind'; intro acc;
    try (cbn [decon subst leaves]; rewrite ?app_nil_r; reflexivity).
  - (* list *)
    rewrite decon_PList, subst_PList, leaves_PList.
    assert (H : decon_list l acc = (subst_list l (List.length acc), acc ++ leaves_list l)).
    { revert acc. induction IH as [|x l Hx Hl IHl]; intro acc; cbn [decon_list subst_list leaves_list].
      - rewrite app_nil_r. reflexivity.
      - rewrite Hx. fold decon_list. rewrite IHl. rewrite app_length, app_assoc. reflexivity. }
    rewrite H. reflexivity.
  - (* dict *)
    rewrite decon_PDict, subst_PDict, leaves_PDict.
    assert (H : decon_dict kv acc = (subst_dict kv (List.length acc), acc ++ leaves_dict kv)).
    { revert acc. induction IH as [|[k x] kv [_ Hx] Hl IHl]; intro acc; cbn [decon_dict subst_dict leaves_dict].
      - rewrite app_nil_r. reflexivity.
      - cbn [snd] in Hx. rewrite Hx. fold decon_dict. rewrite IHl. rewrite app_length, app_assoc. reflexivity. }
    rewrite H. reflexivity.
Qed.

Corollary decon_nil v : decon v [] = (subst v 0, leaves v).
Proof. rewrite decon_spec. reflexivity. Qed.

(* ---- conformance: the two encoders are the same function ---- *)
Theorem conformance : forall p, encode p = spec_encode p.
Proof.
  intros [ty ns id data]. unfold encode, spec_encode. cbn [ptype pns pid pdata].
  destruct ty; try reflexivity.
  change BINARY_EVENT with 5%Z. change BINARY_ACK with 6%Z.
  destruct ((z =? 5)%Z || (z =? 6)%Z).
  - rewrite decon_nil.
    destruct (match subst data 0 with PNone => Ok [] | _ => json_dumps (subst data 0) end); [|reflexivity].
    cbn [bind]. change (s2l "-") with [45]. change (s2l "/") with [47]. change (s2l ",") with [44].
    rewrite <- !app_assoc. reflexivity.
  - destruct (match data with PNone => Ok [] | _ => json_dumps data end); [|reflexivity].
    cbn [bind]. change (s2l "/") with [47]. change (s2l ",") with [44].
    rewrite <- !app_assoc. reflexivity.
Qed.

(* ---- binary reconstruction ---- *)
(* the only requirement on the payload: no dict (reachable through lists and dict values)
   has a key equal to "_placeholder" *)
Definition no_ph_key (kv : list (pv * pv)) : bool :=
  forallb (fun k => negb (py_eq k k_placeholder)) (map fst kv).
Fixpoint ph_free (v : pv) : bool :=
  match v with
  | PList l => (fix go (l : list pv) : bool := match l with [] => true | x :: r => ph_free x && go r end) l
  | PDict kv => no_ph_key kv &&
                (fix go (kv : list (pv * pv)) : bool :=
                   match kv with [] => true | (_, x) :: r => ph_free x && go r end) kv
  | _ => true
  end.
Definition ph_free_list : list pv -> bool :=
  fix go (l : list pv) : bool := match l with [] => true | x :: r => ph_free x && go r end.
Definition ph_free_dict : list (pv * pv) -> bool :=
  fix go (kv : list (pv * pv)) : bool :=
    match kv with [] => true | (_, x) :: r => ph_free x && go r end.
Lemma ph_free_PList l : ph_free (PList l) = ph_free_list l.  Proof. reflexivity. Qed.
Lemma ph_free_PDict kv : ph_free (PDict kv) = no_ph_key kv && ph_free_dict kv.  Proof. reflexivity. Qed.

Lemma recon_PDict kv atts :
  recon (PDict kv) atts =
  let ph := match dict_get kv k_placeholder with Some p => truthy p | None => false end in
  match (if ph then dict_get kv k_num else None) with
  | Some i => py_index atts i
  | None => kv' <- recon_dict atts kv ;; Ok (PDict kv')
  end.
Proof. reflexivity. Qed.

Lemma recon_placeholder n atts : recon (placeholder n) atts = py_index atts (PInt (Z.of_nat n)).
Proof. reflexivity. Qed.

Lemma py_index_mid (pre post : list pv) x :
  py_index (pre ++ x :: post) (PInt (Z.of_nat (List.length pre))) = Ok x.
Proof.
  unfold py_index. cbn [as_int].
  assert (E1 : (Z.of_nat (List.length pre) <? 0)%Z = false) by lia.
  rewrite !E1. cbn [orb].
  assert (E2 : (Z.of_nat (List.length (pre ++ x :: post)) <=? Z.of_nat (List.length pre))%Z = false).
  { rewrite app_length. cbn [List.length]. lia. }
  rewrite E2. rewrite Nat2Z.id, nth_error_app2 by lia. rewrite Nat.sub_diag. reflexivity.
Qed.

Lemma dict_get_subst_none kv : no_ph_key kv = true ->
  forall n, dict_get (subst_dict kv n) k_placeholder = None.
Proof.
  unfold no_ph_key. induction kv as [|[k x] kv IH]; intros H n; [reflexivity|].
  cbn [map fst forallb] in H. apply andb_true_iff in H as [Hk H].
  cbn [subst_dict dict_get]. apply negb_true_iff in Hk. rewrite Hk. fold subst_dict. apply IH, H.
Qed.

Theorem recon_subst : forall v, ph_free v = true -> forall pre post,
  recon (subst v (List.length pre)) (pre ++ map PBytes (leaves v) ++ post) = Ok v.
Proof.
  induction v as [| | | | | |l IH|l IH|kv IH|] using pv_ind'; intros Hwf pre post;
    try reflexivity.
  - (* bytes *)
    cbn [subst leaves map app]. rewrite recon_placeholder. apply py_index_mid.
  - (* list *)
    rewrite ph_free_PList in Hwf. rewrite subst_PList, leaves_PList, recon_PList.
    assert (H : recon_list (pre ++ map PBytes (leaves_list l) ++ post) (subst_list l (List.length pre)) = Ok l).
    { revert pre post Hwf. induction IH as [|x l Hx Hl IHl]; intros pre post Hwf; [reflexivity|].
      cbn [ph_free_list] in Hwf. fold ph_free_list in Hwf. apply andb_true_iff in Hwf as [Hwx Hwl].
      cbn [subst_list leaves_list recon_list]. fold subst_list leaves_list.
      fold (recon_list (pre ++ map PBytes (leaves x ++ leaves_list l) ++ post)).
      rewrite map_app, <- app_assoc. rewrite (Hx Hwx). cbn [bind].
      specialize (IHl (pre ++ map PBytes (leaves x)) post Hwl).
      rewrite app_length, map_length, <- app_assoc in IHl. rewrite IHl. reflexivity. }
    rewrite H. reflexivity.
  - (* dict *)
    rewrite ph_free_PDict in Hwf. apply andb_true_iff in Hwf as [Hk Hwf].
    rewrite subst_PDict, leaves_PDict, recon_PDict.
    rewrite (dict_get_subst_none kv Hk). cbv zeta. cbn match.
    assert (H : recon_dict (pre ++ map PBytes (leaves_dict kv) ++ post) (subst_dict kv (List.length pre)) = Ok kv).
    { clear Hk. revert pre post Hwf. induction IH as [|[k x] kv [_ Hx] Hl IHl]; intros pre post Hwf; [reflexivity|].
      cbn [snd] in Hx.
      cbn [ph_free_dict] in Hwf. fold ph_free_dict in Hwf. apply andb_true_iff in Hwf as [Hwx Hwl].
      cbn [subst_dict leaves_dict recon_dict]. fold subst_dict leaves_dict.
      fold (recon_dict (pre ++ map PBytes (leaves x ++ leaves_dict kv) ++ post)).
      rewrite map_app, <- app_assoc. rewrite (Hx Hwx). cbn [bind].
      specialize (IHl (pre ++ map PBytes (leaves x)) post Hwl).
      rewrite app_length, map_length, <- app_assoc in IHl. rewrite IHl. reflexivity. }
    rewrite H. reflexivity.
Qed.

Corollary recon_decon v : ph_free v = true ->
  recon (fst (decon v [])) (map PBytes (snd (decon v []))) = Ok v.
Proof.
  intro H. rewrite decon_nil. cbn [fst snd].
  pose proof (recon_subst v H [] []) as R. cbn [List.length app] in R. rewrite app_nil_r in R. exact R.
Qed.

(* ---- the specification-derived decoder reads the encoder's frames ---- *)
Lemma take_digits_app a rest : forallb adigit a = true ->
  match rest with [] => True | x :: _ => adigit x = false end ->
  take_digits (a ++ rest) = (a, rest).
Proof.
  intros Ha Hr. induction a as [|c a IH]; cbn [app].
  - destruct rest as [|x b]; [reflexivity|]. cbn [take_digits].
    change (ascii_digit x) with (adigit x). rewrite Hr. reflexivity.
  - cbn [forallb] in Ha. apply andb_true_iff in Ha as [Hc Ha].
    cbn [take_digits]. change (ascii_digit c) with (adigit c). rewrite Hc, (IH Ha). reflexivity.
Qed.

Lemma take_until_app c a rest : (forall x, In x a -> x <> c) ->
  take_until c (a ++ c :: rest) = (a, Some rest).
Proof.
  intro H. induction a as [|x a IH]; cbn [app take_until].
  - rewrite N.eqb_refl. reflexivity.
  - destruct (N.eqb_spec x c) as [E|E]; [exfalso; apply (H x); [left; reflexivity|exact E]|].
    rewrite IH; [reflexivity|]. intros y Hy. apply H. right; exact Hy.
Qed.

Lemma ascii_val_app s c : ascii_val (s ++ [c]) = ascii_val s * 10 + (c - 48).
Proof. unfold ascii_val. rewrite fold_left_app. reflexivity. Qed.

Lemma ascii_val_digits fuel : forall n, n < pow10 (S fuel) -> ascii_val (digits_fuel fuel n) = n.
Proof.
  induction fuel as [|f IH]; intros n H; cbn [digits_fuel].
  - cbn in H. rewrite N.mod_small by lia. unfold ascii_val. cbn [fold_left]. lia.
  - destruct (n <? 10) eqn:E.
    + unfold ascii_val. cbn [fold_left]. lia.
    + rewrite ascii_val_app, IH.
      * pose proof (N.mod_upper_bound n 10). pose proof (N.div_mod' n 10). lia.
      * apply N.div_lt_upper_bound; [lia|]. exact H.
Qed.

Lemma ascii_val_str_of_N n : ascii_val (str_of_N n) = n.
Proof. apply ascii_val_digits, fuel_ok. Qed.

Definition spec_ns (r : str) : str * str :=
  match r with
  | 47 :: _ => let '(a, b) := take_until 44 r in
               (a, match b with Some x => x | None => [] end)
  | _ => (s2l "/", r)
  end.
Definition spec_rest (loads : str -> Res pv) (t : Z) (natt : N) (r : str) : Res spec_packet :=
  let '(ns, r) := spec_ns r in
  let '(d, r) := take_digits r in
  let id := match d with [] => None | _ => Some (Z.of_N (ascii_val d)) end in
  data <- (match r with [] => Ok PNone | _ => loads r end) ;;
  Ok (mkSpec t ns id data natt).

Lemma spec_decode_eq loads c r :
  spec_decode loads (c :: r) =
  if negb (ascii_digit c && (c <=? 54)) then Err ValueError else
  let t := Z.of_N (c - 48) in
  '(natt, r) <- (if (t =? 5)%Z || (t =? 6)%Z then
                   let '(d, rest) := take_digits r in
                   match d, rest with
                   | _ :: _, 45 :: rest' => Ok (ascii_val d, rest')
                   | _, _ => Err ValueError
                   end
                 else Ok (0, r)) ;;
  spec_rest loads t natt r.
Proof. reflexivity. Qed.

Lemma spec_ns_not_slash x r : x <> 47 -> spec_ns (x :: r) = (s2l "/", x :: r).
Proof.
  intro H. unfold spec_ns. destruct x as [|p]; [reflexivity|].
  repeat (destruct p as [p|p|]; try reflexivity). exfalso; apply H; reflexivity.
Qed.

Lemma jstart_not_adigit x : jstart x -> adigit x = false.
Proof.
  intros [H _]. destruct (adigit x) eqn:E; [|reflexivity].
  apply adigit_is_digit in E. congruence.
Qed.

Lemma js_ok_not_adigit js : js_ok js -> match js with [] => True | x :: _ => adigit x = false end.
Proof. intros [->|(x & b & -> & Hx)]; [exact I|apply jstart_not_adigit, Hx]. Qed.

Lemma ids_adigits id : id_ok id -> forallb adigit (ids_of id) = true.
Proof.
  destruct id as [i|]; [|reflexivity]. intros [H0 _]. cbn [ids_of].
  rewrite str_of_Z_nonneg by exact H0. apply str_of_N_adigit.
Qed.

(* the namespace as the specification decoder reports it: no query stripping, "/" by default *)
Definition sns_of (ns : option str) : str := match ns with Some s => s | None => s2l "/" end.

Lemma spec_rest_frame loads t natt ns id js body :
  ns_ok ns -> id_ok id -> js_ok js ->
  (match js with [] => Ok PNone | _ => loads js end) = Ok body ->
  spec_rest loads t natt (nsp_of ns ++ ids_of id ++ js) = Ok (mkSpec t (sns_of ns) id body natt).
Proof.
  intros Hns Hid Hjs Hl. unfold spec_rest.
  assert (Hrest : spec_ns (ids_of id ++ js) = (s2l "/", ids_of id ++ js)).
  { destruct (ids_of id) as [|c a] eqn:E.
    - cbn [app]. destruct Hjs as [->|(x & b & -> & _ & _ & Hx)]; [reflexivity|]. apply spec_ns_not_slash, Hx.
    - cbn [app]. apply spec_ns_not_slash. pose proof (ids_adigits id Hid) as Ha. rewrite E in Ha.
      cbn [forallb] in Ha. apply andb_true_iff in Ha as [Hc _]. apply adigit_neq; [exact Hc|reflexivity]. }
  assert (Hfin : forall nsx,
    (let '(d, r) := take_digits (ids_of id ++ js) in
     let id0 := match d with [] => None | _ => Some (Z.of_N (ascii_val d)) end in
     data <- (match r with [] => Ok PNone | _ => loads r end) ;;
     Ok (mkSpec t nsx id0 data natt)) = Ok (mkSpec t nsx id body natt)).
  { intro nsx. rewrite take_digits_app; [|apply ids_adigits, Hid|apply js_ok_not_adigit, Hjs].
    cbv zeta. rewrite Hl. cbn [bind]. destruct id as [i|]; [|reflexivity].
    destruct Hid as [H0 _]. cbn [ids_of]. rewrite str_of_Z_nonneg by exact H0.
    pose proof (str_of_N_nonnil (Z.to_N i)) as Hnn. pose proof (ascii_val_str_of_N (Z.to_N i)) as Hv.
    destruct (str_of_N (Z.to_N i)); [contradiction|]. rewrite Hv, Z2N.id by exact H0. reflexivity. }
  unfold nsp_of, sns_of. destruct ns as [s|].
  - destruct Hns as (r & -> & Hr). destruct (str_eqb (47 :: r) [47]) eqn:E.
    + apply str_eqb_eq in E. rewrite E. cbn [app]. rewrite Hrest. apply Hfin.
    + rewrite <- app_assoc. cbn [app]. unfold spec_ns.
      change (47 :: r ++ 44 :: ids_of id ++ js) with ((47 :: r) ++ 44 :: ids_of id ++ js).
      rewrite take_until_app.
      * apply Hfin.
      * intros x [<-|Hx]; [discriminate|]. exact (existsb_eqb_false 44 r Hr x Hx).
  - cbn [app]. rewrite Hrest. apply Hfin.
Qed.

Theorem spec_decode_nonbin loads t ns id js body : t <= 4 ->
  ns_ok ns -> id_ok id -> js_ok js ->
  (match js with [] => Ok PNone | _ => loads js end) = Ok body ->
  spec_decode loads ((48 + t) :: nsp_of ns ++ ids_of id ++ js) =
  Ok (mkSpec (Z.of_N t) (sns_of ns) id body 0).
Proof.
  intros Ht Hns Hid Hjs Hl. rewrite spec_decode_eq.
  assert (E1 : negb (ascii_digit (48 + t) && (48 + t <=? 54)) = false) by (unfold ascii_digit; lia).
  rewrite E1. cbv zeta. replace (48 + t - 48) with t by lia.
  assert (E2 : ((Z.of_N t =? 5)%Z || (Z.of_N t =? 6)%Z) = false) by lia.
  rewrite E2. cbn [bind]. apply spec_rest_frame; assumption.
Qed.

Theorem spec_decode_bin loads t n ns id js body : t = 5 \/ t = 6 ->
  ns_ok ns -> id_ok id -> js_ok js ->
  (match js with [] => Ok PNone | _ => loads js end) = Ok body ->
  spec_decode loads ((48 + t) :: (str_of_N n ++ [45]) ++ nsp_of ns ++ ids_of id ++ js) =
  Ok (mkSpec (Z.of_N t) (sns_of ns) id body n).
Proof.
  intros Ht Hns Hid Hjs Hl. rewrite spec_decode_eq.
  assert (E1 : negb (ascii_digit (48 + t) && (48 + t <=? 54)) = false) by (unfold ascii_digit; lia).
  rewrite E1. cbv zeta. replace (48 + t - 48) with t by lia.
  assert (E2 : ((Z.of_N t =? 5)%Z || (Z.of_N t =? 6)%Z) = true) by lia.
  rewrite E2. rewrite <- app_assoc. cbn [app].
  rewrite take_digits_app; [|apply str_of_N_adigit|reflexivity].
  pose proof (str_of_N_nonnil n) as Hnn. pose proof (ascii_val_str_of_N n) as Hv.
  destruct (str_of_N n); [contradiction|]. rewrite Hv. cbn [bind].
  apply spec_rest_frame; assumption.
Qed.
