(* Model of src/socketio/msgpack_packet.py (MsgPackPacket) over an ABSTRACT msgpack library.
   Definitions only.

     class MsgPackPacket(packet.Packet):
         uses_binary_events = False
         def encode(self):  return msgpack.dumps(self._to_dict())
         def decode(self, encoded_packet):
             decoded = msgpack.loads(encoded_packet)
             self.packet_type = decoded['type']
             self.data = decoded.get('data')
             self.id = decoded.get('id')
             self.namespace = decoded['nsp']

   and Packet._to_dict (packet.py:190-198): {'type':…, 'data':…, 'nsp':…} plus 'id' when the
   id is not None.  `msgpack.dumps` / `msgpack.loads` are the Section variables [mdumps] /
   [mloads]: every theorem about this serializer carries their round trip as a visible premise.
   uses_binary_events = False: the constructor never promotes EVENT/ACK to BINARY_*, byte
   strings travel inline in the one blob, there are no attachments. *)
From VT Require Export Codec.Packet.
Open Scope N_scope.

Definition k_type : pv := PStr (s2l "type").
Definition k_data : pv := PStr (s2l "data").
Definition k_nsp : pv := PStr (s2l "nsp").
Definition k_id : pv := PStr (s2l "id").

(* Packet._to_dict *)
Definition to_dict (p : packet) : pv :=
  PDict ([(k_type, ptype p);
          (k_data, pdata p);
          (k_nsp, match pns p with Some s => PStr s | None => PNone end)]
         ++ match pid p with Some i => [(k_id, PInt i)] | None => [] end).

(* the fields read back from the decoded dictionary.  decoded['type'] / decoded['nsp'] raise
   KeyError when absent; .get() gives None.  The packet record keeps the id as [option Z] and the
   namespace as [option str]: anything else the peer could have put there is outside what either
   side ever sends and is reported as TypeError (model boundary). *)
Definition of_dict (d : pv) : Res packet :=
  match d with
  | PDict kv =>
      match dict_get kv k_type with
      | None => Err KeyError
      | Some t =>
          let data := match dict_get kv k_data with Some x => x | None => PNone end in
          id <- (match dict_get kv k_id with
                 | None | Some PNone => Ok None
                 | Some (PInt i) => Ok (Some i)
                 | Some _ => Err TypeError end) ;;
          match dict_get kv k_nsp with
          | None => Err KeyError
          | Some (PStr s) => Ok (mkPacket t (Some s) id data)
          | Some PNone => Ok (mkPacket t None id data)
          | Some _ => Err TypeError
          end
      end
  | _ => Err TypeError                               (* decoded['type'] on a non-dict *)
  end.

Section MsgPack.
  Variable mdumps : pv -> Res str.                   (* msgpack.dumps: value -> bytes *)
  Variable mloads : str -> Res pv.                   (* msgpack.loads: bytes -> value *)

  (* MsgPackPacket(...).encode(): one blob, never a list *)
  Definition mp_encode (p : packet) : Res str := mdumps (to_dict p).

  (* MsgPackPacket(encoded_packet=payload): Packet.__init__ with the defaults, then decode()
     (which returns None, so attachment_count = 0).  A falsy payload is not decoded at all
     (`if encoded_packet:`) and leaves the default EVENT packet.  msgpack.loads of a str
     raises TypeError. *)
  Definition mp_decode (payload : pv) : Res rpacket :=
    if negb (truthy payload) then Ok (mkR default_packet 0 [])
    else match payload with
         | PBytes b => d <- mloads b ;; p <- of_dict d ;; Ok (mkR p 0 [])
         | _ => Err TypeError
         end.
End MsgPack.

(* the library's round trip on ONE value: dumps succeeds and loads gives the value back *)
Definition msgpack_rt (mdumps : pv -> Res str) (mloads : str -> Res pv) (v : pv) : Prop :=
  exists b, mdumps v = Ok b /\ b <> [] /\ mloads b = Ok v.

(* values msgpack carries faithfully (documentation of the library's domain, used by the
   universal form of the hypothesis): 64-bit integers, finite floats, text made of Unicode
   scalar values (UTF-8 encodable: no lone surrogates), bytes, lists, string-keyed dicts with
   distinct keys.  Tuples are excluded: they come back as lists. *)
Definition scalar_cp (c : N) : bool := (c <? 55296) || ((57343 <? c) && (c <? 1114112)).
Definition int64ish (z : Z) : bool := (-9223372036854775808 <=? z)%Z && (z <? 18446744073709551616)%Z.
Fixpoint mp_keys_distinct (ks : list pv) : bool :=
  match ks with [] => true | k :: r => negb (existsb (pv_eqb k) r) && mp_keys_distinct r end.
Fixpoint msgpackable (v : pv) : bool :=
  match v with
  | PNone | PBool _ | PBytes _ => true
  | PInt z => int64ish z
  | PFloat t => negb (str_eqb t (s2l "nan") || str_eqb t (s2l "inf") || str_eqb t (s2l "-inf"))
  | PStr s => forallb scalar_cp s
  | PList l => (fix go (l : list pv) : bool := match l with [] => true | x :: r => msgpackable x && go r end) l
  | PDict kv =>
      mp_keys_distinct (map fst kv) &&
      (fix go (kv : list (pv * pv)) : bool :=
         match kv with
         | [] => true
         | (k, x) :: r => match k with PStr s => forallb scalar_cp s | _ => false end && msgpackable x && go r
         end) kv
  | PTuple _ | PObj _ => false
  end.
