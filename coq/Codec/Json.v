(* Concrete model of json.dumps(v, separators=(',', ':')) with the stdlib defaults
   (ensure_ascii=True, allow_nan, skipkeys=False).  Floats are carried as their
   repr token.  The decoder side (json.loads) is an oracle: see Packet.v. *)
From VT Require Export Base.PyStr.
Open Scope N_scope.

Definition esc_char (c : N) : str :=
  if c =? 34 then [92; 34]
  else if c =? 92 then [92; 92]
  else if c =? 10 then [92; 110]
  else if c =? 13 then [92; 114]
  else if c =? 9 then [92; 116]
  else if c =? 8 then [92; 98]
  else if c =? 12 then [92; 102]
  else if (32 <=? c) && (c <=? 126) then [c]
  else if c <? 65536 then 92 :: 117 :: hex4 c
  else let v := c - 65536 in
       (92 :: 117 :: hex4 (55296 + v / 1024)) ++ (92 :: 117 :: hex4 (56320 + v mod 1024)).

Definition json_str (s : str) : str := 34 :: flat_map esc_char s ++ [34].

Definition json_key (k : pv) : Res str :=
  match k with
  | PStr s => Ok (json_str s)
  | PInt z => Ok (34 :: str_of_Z z ++ [34])
  | PBool true => Ok (s2l """true""")
  | PBool false => Ok (s2l """false""")
  | PNone => Ok (s2l """null""")
  | PFloat t => Ok (34 :: t ++ [34])
  | _ => Err TypeError
  end.

Fixpoint json_dumps (v : pv) : Res str :=
  match v with
  | PNone => Ok (s2l "null")
  | PBool true => Ok (s2l "true")
  | PBool false => Ok (s2l "false")
  | PInt z => Ok (str_of_Z z)
  | PFloat t => Ok t
  | PStr s => Ok (json_str s)
  | PBytes _ => Err TypeError
  | PObj _ => Err TypeError
  | PList l | PTuple l =>
      r <- (fix go (l : list pv) (first : bool) : Res str :=
              match l with
              | [] => Ok []
              | x :: l' => sx <- json_dumps x ;; sr <- go l' false ;;
                           Ok ((if first then [] else [44]) ++ sx ++ sr)
              end) l true ;;
      Ok (91 :: r ++ [93])
  | PDict kv =>
      r <- (fix go (kv : list (pv * pv)) (first : bool) : Res str :=
              match kv with
              | [] => Ok []
              | (k, x) :: kv' => sk <- json_key k ;; sx <- json_dumps x ;; sr <- go kv' false ;;
                                 Ok ((if first then [] else [44]) ++ sk ++ 58 :: sx ++ sr)
              end) kv true ;;
      Ok (123 :: r ++ [125])
  end.
