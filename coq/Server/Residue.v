(* C11: no residual server state once a client's transport has ended.  Everything here is a
   consequence of the invariant of SrvInv.v; in particular nothing assumes that application
   handlers return normally. *)
From VT Require Export Server.SrvInv Check.C11Check Server.ServerX.
From Coq Require Import Lia.
Open Scope N_scope.

(* ---- the invariant, read on the lists the state dump shows ---- *)
Lemma ns_rooms_of_In lv fr m ns rm : MInv lv fr m -> In (ns, rm) (rooms m) -> ns_rooms m ns = Some rm.
Proof. intros H Hin. apply keys_ok_aget; [apply (mi_keys _ _ _ H)|exact Hin]. Qed.

Lemma Inv_member_live s ns rm room b sid eio :
  Inv s -> In (ns, rm) (rooms (mg s)) -> In (room, b) rm -> In (sid, eio) b -> In eio (live s).
Proof.
  intros [HM _] H1 H2 H3. assert (HMI := mid_mg _ HM).
  destruct (mi_ns _ _ _ HMI _ _ (ns_rooms_of_In _ _ _ _ _ HMI H1)) as [_ Hi].
  apply (ri_live _ _ _ Hi room sid eio). exists b. auto.
Qed.

Lemma sids_of_eio_In lv fr m e sid :
  MInv lv fr m -> In sid (sids_of_eio m e) -> exists ns, sid_from_eio m e ns = Some sid.
Proof.
  intros H Hin. unfold sids_of_eio in Hin. apply in_flat_map in Hin as ([ns rm] & Hnr & Hin). cbn [snd] in Hin.
  exists ns. unfold sid_from_eio, room_of. rewrite (ns_rooms_of_In _ _ _ _ _ H Hnr).
  destruct (aget room_eqb rm PNone) as [b|]; [|destruct Hin].
  destruct (bd_inv b e) as [s'|]; [|destruct Hin]. destruct Hin as [->|[]]. reflexivity.
Qed.

(* ---- C11_gone ---- *)
(* no component of the state mentions transport e, nor any session id that lived on it *)
Record gone (e : str) (sids : list str) (s' : srv) : Prop := mkGone {
  g_live : ~ In e (live s');
  g_rooms : forall ns rm room b sid eio,
      In (ns, rm) (rooms (mg s')) -> In (room, b) rm -> In (sid, eio) b -> eio <> e;
  g_environ : ~ In e (map fst (environ s'));
  g_binpkt : ~ In e (map fst (binpkt s'));
  g_sessions : ~ In e (map fst (sessions s'));
  g_callbacks : forall sid, In sid sids -> ~ In sid (map fst (callbacks (mg s')));
  g_pending : forall sid ns l, In sid sids -> In (ns, l) (pending (mg s')) -> ~ In sid l
}.

Theorem C11_gone_lemma c s e reason :
  cfg_ok c -> Inv s -> In e (live s) ->
  gone e (sids_of_eio (mg s) e) (fst (step c s (EioClose e reason))).
Proof.
  intros Hc HI Hlive. destruct (step_close_spec c s e reason Hc HI Hlive) as [HI' Hl Hf Hcb Hsub].
  set (s' := fst (step c s (EioClose e reason))) in *.
  assert (Hne : forall x, In x (live s') -> x <> e).
  { intros x Hx. rewrite Hl in Hx. apply In_drop_live in Hx. tauto. }
  destruct HI' as [HM' Hp']. split.
  - intros Hin. apply (Hne e Hin). reflexivity.
  - intros ns rm room b sid eio H1 H2 H3. apply Hne. eapply Inv_member_live; eauto. split; auto.
  - intros Hin. apply (Hne e); [|reflexivity]. apply (proj2 (mid_env _ HM')). exact Hin.
  - intros Hin. apply (Hne e); [|reflexivity]. apply (proj2 (mid_bin _ HM')). exact Hin.
  - intros Hin. apply (Hne e); [|reflexivity]. apply (proj2 (mid_ses _ HM')). exact Hin.
  - intros sid Hin. destruct (sids_of_eio_In _ _ _ _ _ (mid_mg _ (proj1 HI)) Hin) as (ns & Hs).
    eapply Hcb; eauto.
  - intros sid ns l _ Hin. rewrite Hp' in Hin. destruct Hin.
Qed.

(* the transport-end operation on a transport that is not live is a no-op *)
Lemma C11_close_dead c s e reason : ~ In e (live s) -> step c s (EioClose e reason) = (s, []).
Proof. apply step_close_dead. Qed.

(* ---- C11_fresh ---- *)
Lemma keys_live_nil {V} (l : list (str * V)) : keys_live [] l -> l = [].
Proof. intros [_ H]. destruct l as [|[k v] l]; [reflexivity|]. destruct (H k). left. reflexivity. Qed.

Lemma Inv_nobody s : Inv s -> live s = [] -> s = mkSrv mgr_init [] [] [] [] (fresh s).
Proof.
  intros [[HMI H2 H3 H4] Hp] Hl. rewrite Hl in *.
  assert (Hr : rooms (mg s) = []).
  { destruct (rooms (mg s)) as [|[ns rm] r] eqn:E; [reflexivity|]. exfalso.
    assert (Hn : ns_rooms (mg s) ns = Some rm).
    { apply (ns_rooms_of_In _ _ _ _ _ HMI). rewrite E. left. reflexivity. }
    destruct (mi_ns _ _ _ HMI _ _ Hn) as [_ Hi]. destruct (RmInv_some_member _ _ _ Hi) as (sd & x & Hm).
    apply (ri_live _ _ _ Hi _ _ _ Hm). }
  assert (Hc : callbacks (mg s) = []).
  { destruct (callbacks (mg s)) as [|[k v] r] eqn:E; [reflexivity|]. exfalso.
    destruct (mi_cb _ _ _ HMI k) as (ns & rm & x & Hn & Hm); [rewrite E; left; reflexivity|].
    destruct (mi_ns _ _ _ HMI _ _ Hn) as [_ Hi]. apply (ri_live _ _ _ Hi _ _ _ Hm). }
  apply keys_live_nil in H2, H3, H4.
  destruct s as [m en bp ss lv fr]. cbn [mg environ binpkt sessions live fresh] in *.
  destruct m as [r p cb]. cbn [rooms pending callbacks] in *. subst. reflexivity.
Qed.

(* when the last transport has ended the state is the initial one, up to the id generator:
   not even an empty container (an empty pending list, a callbacks slot, an empty room) remains *)
Theorem C11_fresh_lemma c s e reason :
  cfg_ok c -> Inv s -> In e (live s) -> (forall x, In x (live s) -> x = e) ->
  fst (step c s (EioClose e reason)) = mkSrv mgr_init [] [] [] [] (fresh s).
Proof.
  intros Hc HI Hlive Honly. destruct (step_close_spec c s e reason Hc HI Hlive) as [HI' Hl Hf _ _].
  rewrite <- Hf. apply Inv_nobody; [auto|]. rewrite Hl.
  destruct (drop_live e (live s)) as [|x r] eqn:E; [reflexivity|]. exfalso.
  assert (Hx : In x (drop_live e (live s))) by (rewrite E; left; reflexivity).
  apply In_drop_live in Hx as [Hx Hne]. apply Hne. auto.
Qed.

(* ---- the executable checker accepts every reachable state ---- *)
Lemma is_live_dump s e : In e (live s) -> is_live (dump_of s) e = true.
Proof. intros H. unfold is_live. cbn [dump_of d_live]. apply existsb_exists. exists e. split; [auto|apply str_eqb_refl]. Qed.

Lemma dump_members_In s sid eio :
  In (sid, eio) (dump_members (dump_of s)) <->
  exists ns rm room b, In (ns, rm) (rooms (mg s)) /\ In (room, b) rm /\ In (sid, eio) b.
Proof.
  unfold dump_members. cbn [dump_of d_rooms]. rewrite in_flat_map. split.
  - intros ([ns rm] & H1 & H2). cbn [snd] in H2. apply in_flat_map in H2 as ([room b] & H2 & H3).
    exists ns, rm, room, b. auto.
  - intros (ns & rm & room & b & H1 & H2 & H3). exists (ns, rm). split; [auto|]. cbn [snd].
    apply in_flat_map. exists (room, b). auto.
Qed.

Theorem Inv_no_residue s : Inv s -> no_residue (dump_of s) = true.
Proof.
  intros HI. assert (HM := proj1 HI). assert (HMI := mid_mg _ HM). unfold no_residue.
  repeat (apply andb_true_iff; split).
  - apply forallb_forall. intros [sid eio] Hin. cbn [snd]. apply dump_members_In in Hin as (ns & rm & room & b & H1 & H2 & H3).
    apply is_live_dump. eapply Inv_member_live; eauto.
  - cbn [dump_of d_pending]. rewrite (proj2 HI). reflexivity.
  - apply forallb_forall. intros x Hx. cbn [dump_of d_cbs] in Hx. apply in_map_iff in Hx as ([k slot] & <- & Hk).
    cbn [fst]. destruct (mi_cb _ _ _ HMI k) as (ns & rm & e & Hn & b & Hb & Hs).
    { apply in_map_iff. exists (k, slot). auto. }
    unfold live_sid. apply existsb_exists. exists (k, e). split.
    + apply dump_members_In. exists ns, rm, PNone, b. split; [|auto]. apply (xaget_In _ str_eqb_eq). exact Hn.
    + cbn [fst snd]. rewrite str_eqb_refl. cbn [andb]. apply is_live_dump.
      destruct (mi_ns _ _ _ HMI _ _ Hn) as [_ Hi]. apply (ri_live _ _ _ Hi PNone k e). exists b. auto.
  - apply forallb_forall. intros k Hk. cbn [dump_of d_environ] in Hk. apply is_live_dump. apply (proj2 (mid_env _ HM)). auto.
  - apply forallb_forall. intros k Hk. cbn [dump_of d_binpkt] in Hk. apply is_live_dump. apply (proj2 (mid_bin _ HM)). auto.
  - apply forallb_forall. intros x Hx. cbn [dump_of d_sessions] in Hx. apply filter_In in Hx as [Hx _].
    apply is_live_dump. apply (proj2 (mid_ses _ HM)). apply in_map. auto.
Qed.

Theorem Inv_c11_final s : Inv s -> c11_final (dump_of s) = true.
Proof.
  intros HI. unfold c11_final. rewrite (Inv_no_residue s HI). cbn [andb].
  destruct (d_live (dump_of s)) eqn:E; [|reflexivity]. cbn [dump_of d_live] in E.
  rewrite (Inv_nobody s HI E). reflexivity.
Qed.

Theorem C11_no_residue_lemma c ops :
  cfg_ok c -> Forall op_ok ops -> no_residue (dump_of (fst (run c srv_init ops))) = true.
Proof. intros Hc Ho. apply Inv_no_residue. apply run_Inv; auto. apply Inv_init. Qed.

Theorem C11_final_lemma c ops :
  cfg_ok c -> Forall op_ok ops -> c11_final (dump_of (fst (run c srv_init ops))) = true.
Proof. intros Hc Ho. apply Inv_c11_final. apply run_Inv; auto. apply Inv_init. Qed.

Theorem C11_inv_lemma c ops : cfg_ok c -> Forall op_ok ops -> Inv (fst (run c srv_init ops)).
Proof. intros Hc Ho. apply run_Inv; auto. apply Inv_init. Qed.

(* ---- the re-entrant scenario of ServerX.v: an event handler that disconnects its own client ---- *)
Lemma api_disconnect_pres c sid pns : cfg_ok c -> pres Inv anyeff (api_disconnect c sid pns).
Proof.
  intros Hc s HI. eapply hp_conseq; [apply api_disconnect_Inv; auto|].
  intros r s' es H. split; [exact H|apply Forall_anyeff].
Qed.

Lemma handle_event_sd_Inv c eio pns id data : cfg_ok c -> pres Inv anyeff (handle_event_sd c eio pns id data).
Proof.
  intros Hc. unfold handle_event_sd. apply pres_bind; [apply pres_getS|]. intros s0.
  apply pres_bind; [apply pres_lift|]. intros ea.
  destruct (negb _); [apply pres_ret|].
  destruct (sid_from_eio (mg s0) eio (ns_or_default pns)) as [sid|]; [|apply pres_ret].
  apply pres_bind.
  - apply pres_catch; [apply (trigger_event_J c Hc Inv Inv_Mid Inv_hstep)|].
    intros x k Hx. destruct (handler_runs _ _ _ _ && _); [|discriminate]. injection Hx as <-.
    apply pres_bind; [apply api_disconnect_pres; auto|]. intros _. apply pres_raise.
  - intros r. apply pres_bind.
    + destruct (handler_runs _ _ _ _ && _); [apply api_disconnect_pres; auto|apply pres_ret].
    + intros _. destruct r as [v|]; [|apply pres_ret]. destruct id as [i|]; [|apply pres_ret]. apply send_packet_any.
Qed.

Theorem xstep_Inv c s x :
  cfg_ok c -> (match x with Plain o => op_ok o | _ => True end) -> Inv s -> Inv (fst (xstep c s x)).
Proof.
  intros Hc Hx HI. destruct x as [o|eio payload tbl]; cbn [xstep]; [apply step_Inv; auto|].
  destruct (existsb (str_eqb eio) (live s)) eqn:Ex; [|exact HI].
  assert (Hlive : In eio (live s)).
  { apply existsb_exists in Ex as (y & Hy & Hey). apply str_eqb_eq in Hey. subst. auto. }
  assert (G : hp s (contain (handle_eio_message_sd c (table_loads tbl) eio payload)) (fun _ s' _ => Inv s')).
  { apply hp_contain. unfold handle_eio_message_sd. apply hp_getS_bind.
    assert (Hplain : hp s (handle_eio_message c (table_loads tbl) eio payload) (fun _ s' _ => Inv s'))
      by (apply handle_eio_message_Inv; auto).
    destruct (aget str_eqb (binpkt s) eio); [exact Hplain|].
    destruct (decode_any c (table_loads tbl) payload) as [r|]; [|exact Hplain].
    destruct (_ && _); [|exact Hplain].
    eapply hp_conseq; [apply handle_event_sd_Inv; auto|]. intros ? ? ? [H _]. exact H. }
  unfold hp in G. destruct (contain _ s) as [[s' es] r]. exact G.
Qed.

Lemma xrun_cons c s o ops :
  xrun c s (o :: ops) = (fst (xrun c (fst (xstep c s o)) ops), snd (xstep c s o) :: snd (xrun c (fst (xstep c s o)) ops)).
Proof. cbn [xrun]. destruct (xstep c s o) as [s1 e]. cbn [fst snd]. destruct (xrun c s1 ops). reflexivity. Qed.

Theorem xrun_Inv c ops :
  cfg_ok c -> Forall (fun x => match x with Plain o => op_ok o | _ => True end) ops ->
  forall s, Inv s -> Inv (fst (xrun c s ops)).
Proof.
  intros Hc Hops. induction Hops as [|o ops Ho _ IH]; intros s HI; [exact HI|].
  rewrite xrun_cons. cbn [fst]. apply IH. apply xstep_Inv; auto.
Qed.

(* C11_gone / C11_fresh / the executable checker on histories that contain the re-entrant scenario:
   they are statements about any state satisfying Inv, hence about every xrun state *)
Definition xop_ok (x : xop) : Prop := match x with Plain o => op_ok o | _ => True end.

Theorem C11_gone_xrun_lemma c ops e reason :
  cfg_ok c -> Forall xop_ok ops ->
  let s := fst (xrun c srv_init ops) in
  In e (live s) ->
  gone e (sids_of_eio (mg s) e) (fst (xstep c s (Plain (EioClose e reason)))) /\
  ((forall x, In x (live s) -> x = e) ->
   fst (xstep c s (Plain (EioClose e reason))) = mkSrv mgr_init [] [] [] [] (fresh s)).
Proof.
  intros Hc Hops s Hl. assert (HI : Inv s) by (apply xrun_Inv; auto; apply Inv_init).
  cbn [xstep]. split; [apply C11_gone_lemma; auto|]. intros Honly. apply C11_fresh_lemma; auto.
Qed.

Theorem C11_final_xrun_lemma c ops :
  cfg_ok c -> Forall xop_ok ops ->
  no_residue (dump_of (fst (xrun c srv_init ops))) = true /\ c11_final (dump_of (fst (xrun c srv_init ops))) = true.
Proof.
  intros Hc Hops. assert (HI : Inv (fst (xrun c srv_init ops))) by (apply xrun_Inv; auto; apply Inv_init).
  split; [apply Inv_no_residue|apply Inv_c11_final]; auto.
Qed.

(* a configuration without scripted actions is well formed, whatever its handlers raise *)
Lemma cfg_ok_no_actions c : has_actions c = false -> cfg_ok c.
Proof.
  intros H hid b a Hin Ha. unfold has_actions in H.
  assert (Hb : (fun hb : N * hbehav => match h_actions (snd hb) with [] => false | _ => true end) (hid, b) = false).
  { destruct (h_actions b) eqn:E; [cbn; rewrite E; reflexivity|].
    assert (existsb (fun hb : N * hbehav => match h_actions (snd hb) with [] => false | _ => true end) (behav c) = true).
    { apply existsb_exists. exists (hid, b). split; [auto|]. cbn [snd]. rewrite E. reflexivity. }
    congruence. }
  cbn [snd] in Hb. destruct (h_actions b); [destruct Ha|discriminate].
Qed.

(* ---- what fails when application code leaves the room None (excluded by op_ok / cfg_ok) ---- *)
Definition ex_ns : str := s2l "/".
Definition ex_e1 : str := s2l "E1".
Definition ex_cfg0 : cfg :=
  mkCfg [(ex_ns, [(s2l "connect", 1)])] [] [(1, mkBehav None [] (Returns PNone))] None false true.
Theorem C11_leave_none_refuted :
  exists c ops, has_actions c = false /\
                no_residue (dump_of (fst (run c srv_init ops))) = false.
Proof.
  exists ex_cfg0.
  exists [EioConnect ex_e1 PNone; EioMessage ex_e1 (PStr (s2l "0")) [];
          ApiLeaveRoom (sid_name 0) PNone None; EioClose ex_e1 PNone].
  split; vm_compute; reflexivity.
Qed.

(* ---- non-vacuity: two namespaces on one transport, a raising disconnect handler, an
        outstanding callback, a half-received binary packet, a saved session ---- *)
Definition ex_nsa : str := s2l "/a".
Definition ex_cfg : cfg :=
  mkCfg [(ex_ns, [(s2l "connect", 1); (s2l "disconnect", 2)]); (ex_nsa, [(s2l "disconnect", 2)])] []
        [(1, mkBehav None [AEnter (PStr (s2l "lobby")); ASave (PInt 5)] (Returns PNone));
         (2, mkBehav None [AEmitRoom (s2l "bye") PNone (PStr (s2l "lobby")) true] (Raises RuntimeError))]
        None false true.
Definition ex_json : str := s2l "[""e""]".
Definition ex_ops : list op :=
  [EioConnect ex_e1 PNone;
   EioMessage ex_e1 (PStr (s2l "0")) [];
   EioMessage ex_e1 (PStr (s2l "0/a,")) [];
   ApiEmit (PStr (s2l "ping")) PNone PNone PNone PNone None (Some 7);
   EioMessage ex_e1 (PStr (s2l "51-[""e""]")) [(ex_json, Ok (PList [PStr (s2l "e")]))]].
Definition ex_state : srv := fst (run ex_cfg srv_init ex_ops).

Lemma ex_cfg_ok : cfg_ok ex_cfg.
Proof.
  intros hid b a Hin Ha. cbn in Hin.
  destruct Hin as [[= <- <-]|[[= <- <-]|[]]]; cbn in Ha.
  - destruct Ha as [<-|[<-|[]]]; cbn; [|exact I]. split; [discriminate|reflexivity].
  - destruct Ha as [<-|[]]. exact I.
Qed.
Lemma ex_ops_ok : Forall op_ok ex_ops.
Proof. repeat constructor. Qed.
Lemma ex_state_Inv : Inv ex_state.
Proof. apply C11_inv_lemma; [apply ex_cfg_ok|apply ex_ops_ok]. Qed.

(* the state before the close really holds something in every component *)
Example ex_state_nontrivial :
  sids_of_eio (mg ex_state) ex_e1 = [sid_name 0; sid_name 1] /\
  map fst (binpkt ex_state) = [ex_e1] /\ map fst (callbacks (mg ex_state)) = [sid_name 0] /\
  map fst (sessions ex_state) = [ex_e1] /\ map fst (environ ex_state) = [ex_e1] /\
  List.length (dump_members (dump_of ex_state)) = 5%nat.
Proof. vm_compute. repeat split. Qed.

(* both disconnect handlers ran and raised, and nothing is left *)
Example ex_close_effects :
  calls_of (snd (step ex_cfg ex_state (EioClose ex_e1 (PStr (s2l "transport close"))))) =
  [(2, [PStr (sid_name 0); PStr (s2l "transport close")]); (2, [PStr (sid_name 1); PStr (s2l "transport close")])].
Proof. vm_compute. reflexivity. Qed.

Example ex_gone :
  gone ex_e1 [sid_name 0; sid_name 1] (fst (step ex_cfg ex_state (EioClose ex_e1 (PStr (s2l "transport close"))))).
Proof.
  assert (H := C11_gone_lemma ex_cfg ex_state ex_e1 (PStr (s2l "transport close")) ex_cfg_ok ex_state_Inv).
  replace (sids_of_eio (mg ex_state) ex_e1) with [sid_name 0; sid_name 1] in H by (vm_compute; reflexivity).
  apply H. vm_compute. left. reflexivity.
Qed.

Example ex_fresh :
  fst (step ex_cfg ex_state (EioClose ex_e1 (PStr (s2l "transport close")))) = mkSrv mgr_init [] [] [] [] 2.
Proof. vm_compute. reflexivity. Qed.

(* regression for the refusal defect fixed in /repo (finally around the refusal branch of
   _handle_connect): always_connect, ConnectionRefusedError with an argument that cannot be
   encoded; the DISCONNECT packet cannot be built, the sid is forgotten nevertheless *)
Definition ex_cfg_refuse : cfg :=
  mkCfg [(ex_ns, [(s2l "connect", 1)])] []
        [(1, mkBehav None [] (RaisesRefused [PStr (s2l "no"); PBytes [1; 2]]))] None true true.
Example ex_refusal_clean :
  fst (run ex_cfg_refuse srv_init [EioConnect ex_e1 PNone; EioMessage ex_e1 (PStr (s2l "0")) []]) =
  mkSrv mgr_init [(ex_e1, PNone)] [] [] [ex_e1] 1.
Proof. vm_compute. reflexivity. Qed.

(* ---- quiescent points of runs with overlapping handler tasks (Check/C11Check.v, qcase) ----
   Such runs (async_handlers=True) are not operations of the sequential model; the implementation's dumps at
   quiescent points are judged by c11q_eval.  What is proved: the checker asks of a quiescent dump nothing that
   the model does not guarantee at EVERY operation boundary of EVERY history (any choice ks of boundaries). *)
Lemma Forall_firstn_ok {A} (P : A -> Prop) k (l : list A) : Forall P l -> Forall P (firstn k l).
Proof.
  intros H. revert k. induction H as [|x l Hx Hl IH]; intros [|k]; cbn [firstn]; constructor; auto.
Qed.

Theorem C11_quiescent_lemma c ops ks :
  cfg_ok c -> Forall op_ok ops ->
  c11q_eval (mkQ (map (fun k => dump_of (fst (run c srv_init (firstn k ops)))) ks) (map (fun _ => 0%nat) ks)) = 0%nat.
Proof.
  intros Hc Ho. unfold c11q_eval.
  assert (H : c11q_ok (mkQ (map (fun k => dump_of (fst (run c srv_init (firstn k ops)))) ks) (map (fun _ => 0%nat) ks)) = true).
  { unfold c11q_ok, no_retained_tasks. cbn [q_dumps q_tasks]. apply andb_true_intro. split.
    2:{ apply forallb_forall. intros n Hn. apply in_map_iff in Hn. destruct Hn as [k [<- _]]. reflexivity. }
    apply forallb_forall. intros d Hd. apply in_map_iff in Hd.
    destruct Hd as [k [<- _]]. apply C11_final_lemma; auto. apply Forall_firstn_ok; exact Ho. }
  rewrite H. reflexivity.
Qed.

(* non-vacuity: the example history passes at every boundary; a callback slot, or a pending entry, kept for a
   client that is gone is rejected, with the kind of residue in the code (2 + 2 * sum 2^kind) *)
Example ex_quiescent_ok :
  c11q_eval (mkQ (map (fun k => dump_of (fst (run ex_cfg srv_init (firstn k ex_ops)))) (seq 0 (S (List.length ex_ops))))
                 (map (fun _ => 0%nat) (seq 0 (S (List.length ex_ops))))) = 0%nat.
Proof. vm_compute. reflexivity. Qed.
Example ex_quiescent_rejects_callback :
  c11q_eval (mkQ [dump_of srv_init; mkDump [] [] [(sid_name 0, Some 2, [1])] [] [] [] []] [0; 0]%nat) = (2 + 2 * (8 + 128))%nat.
Proof. vm_compute. reflexivity. Qed.
Example ex_quiescent_rejects_pending :
  c11q_eval (mkQ [mkDump [] [(ex_ns, [sid_name 0])] [] [] [] [] []] [0%nat]) = (2 + 2 * (4 + 128))%nat.
Proof. vm_compute. reflexivity. Qed.
(* every table is empty, but finished handler tasks of departed clients are still referenced somewhere *)
Example ex_quiescent_rejects_retained_tasks :
  c11q_eval (mkQ [dump_of srv_init; dump_of srv_init] [0; 3]%nat) = (2 + 2 * 256)%nat.
Proof. vm_compute. reflexivity. Qed.
