(* Reachable-state invariant of the server model (Server.v) and its preservation by every
   operation, whatever the handler scripts do.  Proofs only; no definition of the model is
   changed here.

   Layout:
     1. weakest-precondition rules for the state/effect/exception monad
     2. facts about insertion-ordered association lists (aget / aset / adel)
     3. room maps: membership, well-formedness, the invariant of one namespace
     4. manager operations preserve the manager invariant (MInv)
     5. server invariant (Mid: holds even inside handlers; Inv: at operation boundaries)
     6. the handler machinery preserves any predicate that every scripted action preserves
     7. every operation preserves Inv *)
From VT Require Export Server.Server.
From Coq Require Import Lia.
Open Scope N_scope.

(* ------------------------------------------------------------------------------------ *)
(** * 1. Weakest-precondition rules *)

Definition Post (A : Type) := Res A -> srv -> list eff -> Prop.
Definition hp {A} (s : srv) (m : SM A) (Q : Post A) : Prop :=
  match m s with (s', es, r) => Q r s' es end.

Lemma hp_conseq {A} s (m : SM A) (Q1 Q : Post A) :
  hp s m Q1 -> (forall r s' es, Q1 r s' es -> Q r s' es) -> hp s m Q.
Proof. unfold hp. destruct (m s) as [[s' es] r]. auto. Qed.

Lemma hp_ret {A} s (a : A) (Q : Post A) : Q (Ok a) s [] -> hp s (ret a) Q.
Proof. exact (fun H => H). Qed.
Lemma hp_raise {A} s x (Q : Post A) : Q (Err x) s [] -> hp s (raise x) Q.
Proof. exact (fun H => H). Qed.
Lemma hp_lift {A} s (r : Res A) (Q : Post A) : Q r s [] -> hp s (lift r) Q.
Proof. exact (fun H => H). Qed.
Lemma hp_tell s e (Q : Post unit) : Q (Ok tt) s [e] -> hp s (tell e) Q.
Proof. exact (fun H => H). Qed.
Lemma hp_getS s (Q : Post srv) : Q (Ok s) s [] -> hp s getS Q.
Proof. exact (fun H => H). Qed.
Lemma hp_putS s s' (Q : Post unit) : Q (Ok tt) s' [] -> hp s (putS s') Q.
Proof. exact (fun H => H). Qed.
Lemma hp_modify s f (Q : Post unit) : Q (Ok tt) (f s) [] -> hp s (modify f) Q.
Proof. exact (fun H => H). Qed.

Lemma hp_bind {A B} s (m : SM A) (k : A -> SM B) (Q : Post B) :
  hp s m (fun r s1 e1 => match r with
                         | Ok a => hp s1 (k a) (fun r' s2 e2 => Q r' s2 (e1 ++ e2))
                         | Err x => Q (Err x) s1 e1 end) ->
  hp s (bindM m k) Q.
Proof.
  unfold hp, bindM. destruct (m s) as [[s1 e1] [a|x]]; [|auto].
  destruct (k a s1) as [[s2 e2] r]. auto.
Qed.

Lemma hp_getS_bind {B} s (k : srv -> SM B) (Q : Post B) : hp s (k s) Q -> hp s (bindM getS k) Q.
Proof. unfold hp, bindM, getS. destruct (k s s) as [[s2 e2] r]. auto. Qed.

Lemma hp_catch {A} s (m : SM A) h (Q : Post A) :
  hp s m (fun r s1 e1 => match r with
                         | Ok a => Q (Ok a) s1 e1
                         | Err x => match h x with
                                    | Some k => hp s1 k (fun r' s2 e2 => Q r' s2 (e1 ++ e2))
                                    | None => Q (Err x) s1 e1 end
                         end) ->
  hp s (catch m h) Q.
Proof.
  unfold hp, catch. destruct (m s) as [[s1 e1] [a|x]]; [auto|].
  destruct (h x) as [k|]; [|auto]. destruct (k s1) as [[s2 e2] r]. auto.
Qed.

Lemma hp_contain s (m : SM unit) (Q : Post unit) :
  hp s m (fun _ s1 e1 => Q (Ok tt) s1 e1) -> hp s (contain m) Q.
Proof. unfold hp, contain. destruct (m s) as [[s1 e1] r]. auto. Qed.

Lemma hp_finally {A} s (m : SM A) f (Q : Post A) :
  hp s m (fun r s1 e1 =>
            hp s1 f (fun rf s2 e2 => Q (match rf with Ok _ => r | Err x => Err x end) s2 (e1 ++ e2))) ->
  hp s (finallyM m f) Q.
Proof.
  unfold hp, finallyM. destruct (m s) as [[s1 e1] r].
  destruct (f s1) as [[s2 e2] [u|x]]; auto.
Qed.

Lemma hp_api s (m : SM unit) (Q : Post unit) :
  hp s m (fun r s1 e1 => match r with
                         | Ok _ => Q (Ok tt) s1 e1
                         | Err x => Q (Ok tt) s1 (e1 ++ [Raised x]) end) ->
  hp s (api m) Q.
Proof. unfold hp, api. destruct (m s) as [[s1 e1] [u|x]]; auto. Qed.

(* invariant-style judgement: J is preserved whatever the result, every effect satisfies E *)
Definition pres {A} (J : srv -> Prop) (E : eff -> Prop) (m : SM A) : Prop :=
  forall s, J s -> hp s m (fun _ s' es => J s' /\ Forall E es).

Section Pres.
  Variable J : srv -> Prop.
  Variable E : eff -> Prop.

  Lemma pres_ret {A} (a : A) : pres J E (ret a).
  Proof. intros s H. apply hp_ret. auto. Qed.
  Lemma pres_raise {A} x : pres J E (@raise srv eff A x).
  Proof. intros s H. apply hp_raise. auto. Qed.
  Lemma pres_lift {A} (r : Res A) : pres J E (lift r).
  Proof. intros s H. apply hp_lift. auto. Qed.
  Lemma pres_tell e : E e -> pres J E (tell e).
  Proof. intros He s H. apply hp_tell. auto. Qed.
  Lemma pres_getS : pres J E getS.
  Proof. intros s H. apply hp_getS. auto. Qed.

  Lemma pres_bind {A B} (m : SM A) (k : A -> SM B) :
    pres J E m -> (forall a, pres J E (k a)) -> pres J E (bindM m k).
  Proof.
    intros Hm Hk s H. apply hp_bind. eapply hp_conseq; [apply Hm, H|].
    intros [a|x] s1 e1 [H1 F1]; [|auto].
    eapply hp_conseq; [apply Hk, H1|]. intros r s2 e2 [H2 F2]. split; [auto|apply Forall_app; auto].
  Qed.

  (* the continuation may use that the value read is the current state *)
  Lemma pres_getS_bind {B} (k : srv -> SM B) :
    (forall s, J s -> hp s (k s) (fun _ s' es => J s' /\ Forall E es)) -> pres J E (bindM getS k).
  Proof. intros Hk s H. apply hp_getS_bind. auto. Qed.

  Lemma pres_catch {A} (m : SM A) h :
    pres J E m -> (forall x k, h x = Some k -> pres J E k) -> pres J E (catch m h).
  Proof.
    intros Hm Hh s H. apply hp_catch. eapply hp_conseq; [apply Hm, H|].
    intros [a|x] s1 e1 [H1 F1]; [auto|].
    destruct (h x) as [k|] eqn:Ehx; [|auto].
    eapply hp_conseq; [apply (Hh _ _ Ehx), H1|]. intros r s2 e2 [H2 F2]. split; [auto|apply Forall_app; auto].
  Qed.

  Lemma pres_contain (m : SM unit) : pres J E m -> pres J E (contain m).
  Proof. intros Hm s H. apply hp_contain. eapply hp_conseq; [apply Hm, H|]. auto. Qed.

  Lemma pres_finally {A} (m : SM A) f : pres J E m -> pres J E f -> pres J E (finallyM m f).
  Proof.
    intros Hm Hf s H. apply hp_finally. eapply hp_conseq; [apply Hm, H|].
    intros r s1 e1 [H1 F1]. eapply hp_conseq; [apply Hf, H1|].
    intros rf s2 e2 [H2 F2]. split; [auto|apply Forall_app; auto].
  Qed.

  Lemma pres_api (m : SM unit) : (forall x, E (Raised x)) -> pres J E m -> pres J E (api m).
  Proof.
    intros HE Hm s H. apply hp_api. eapply hp_conseq; [apply Hm, H|].
    intros [u|x] s1 e1 [H1 F1]; split; auto. apply Forall_app; auto.
  Qed.

  Lemma pres_forM {A} (l : list A) (f : A -> SM unit) :
    (forall x, In x l -> pres J E (f x)) -> pres J E (forM l f).
  Proof.
    induction l as [|x l IH]; intros Hf; cbn [forM]; [apply pres_ret|].
    apply pres_bind; [apply Hf; left; reflexivity|]. intros _. apply IH. intros y Hy. apply Hf. right; exact Hy.
  Qed.

  Lemma pres_forM_keep {A} (l : list A) (f : A -> SM unit) first :
    (forall x, In x l -> pres J E (f x)) -> pres J E (forM_keep l f first).
  Proof.
    revert first. induction l as [|x l IH]; intros first Hf; cbn [forM_keep]; [apply pres_ret|].
    intros s H. unfold hp.
    assert (Hx := Hf x (or_introl eq_refl) s H). unfold hp in Hx.
    destruct (f x s) as [[s1 e1] res]. destruct Hx as [H1 F1].
    assert (Hr := IH (match first, res with None, Err e => Some e | _, _ => first end)
                     (fun y Hy => Hf y (or_intror Hy)) s1 H1). unfold hp in Hr.
    destruct (forM_keep l f _ s1) as [[s2 e2] out]. destruct Hr as [H2 F2].
    split; [auto|apply Forall_app; auto].
  Qed.

  Lemma pres_modify f : (forall s, J s -> J (f s)) -> pres J E (modify f).
  Proof. intros Hf s H. apply hp_modify. auto. Qed.
  Lemma pres_putS s' : J s' -> pres J E (putS s').
  Proof. intros Hs s H. apply hp_putS. auto. Qed.
End Pres.

Lemma pres_weaken {A} (J : srv -> Prop) (E E' : eff -> Prop) (m : SM A) :
  (forall e, E e -> E' e) -> pres J E m -> pres J E' m.
Proof.
  intros HE Hm s H. eapply hp_conseq; [apply Hm, H|]. intros r s' es [H1 F1]. split; [auto|].
  eapply Forall_impl; eauto.
Qed.

Definition anyeff : eff -> Prop := fun _ => True.
Lemma Forall_anyeff l : Forall anyeff l.
Proof. apply Forall_forall. intros; exact I. Qed.
(* ------------------------------------------------------------------------------------ *)
(** * 2. Association lists *)

Section AssocFacts.
  Context {K V : Type} (eqb : K -> K -> bool).
  Implicit Types (l : list (K * V)) (k : K) (v : V).

  (* every stored key matches itself and is matched by no earlier key: lookups by a stored
     key find exactly that entry *)
  Fixpoint keys_ok (l : list (K * V)) : Prop :=
    match l with
    | [] => True
    | (k, _) :: r => eqb k k = true /\ (forall k', In k' (map fst r) -> eqb k k' = false) /\ keys_ok r
    end.

  Lemma aget_In l k v : aget eqb l k = Some v -> exists k', In (k', v) l /\ eqb k' k = true.
  Proof.
    induction l as [|[k0 v0] l IH]; cbn [aget]; [discriminate|].
    destruct (eqb k0 k) eqn:Ek.
    - intros [= <-]. exists k0. split; [left; reflexivity|exact Ek].
    - intros H. destruct (IH H) as (k' & Hin & Hk). exists k'. split; [right; exact Hin|exact Hk].
  Qed.

  Lemma aget_None_notin l k : aget eqb l k = None -> forall k' v, In (k', v) l -> eqb k' k = false.
  Proof.
    induction l as [|[k0 v0] l IH]; cbn [aget]; [intros _ k' v []|].
    destruct (eqb k0 k) eqn:Ek; [discriminate|].
    intros H k' v [[= <- <-]|Hin]; [exact Ek|eauto].
  Qed.

  Lemma keys_ok_aget l k v : keys_ok l -> In (k, v) l -> aget eqb l k = Some v.
  Proof.
    induction l as [|[k0 v0] l IH]; cbn [keys_ok aget]; [intros _ []|].
    intros (Hrefl & Hno & Hok) [[= -> ->]|Hin].
    - rewrite Hrefl. reflexivity.
    - rewrite (Hno k) by (apply in_map_iff; exists (k, v); auto). auto.
  Qed.

  Lemma keys_ok_functional l k v1 v2 : keys_ok l -> In (k, v1) l -> In (k, v2) l -> v1 = v2.
  Proof.
    intros Hok H1 H2. apply (keys_ok_aget _ _ _ Hok) in H1. apply (keys_ok_aget _ _ _ Hok) in H2. congruence.
  Qed.

  Lemma aset_same l k v : aget eqb l k = Some v -> aset eqb l k v = l.
  Proof.
    induction l as [|[k0 v0] l IH]; cbn [aget aset]; [discriminate|].
    destruct (eqb k0 k); [intros [= ->]; reflexivity|]. intros H. rewrite IH; auto.
  Qed.

  Lemma aset_none l k v : aget eqb l k = None -> aset eqb l k v = l ++ [(k, v)].
  Proof.
    induction l as [|[k0 v0] l IH]; cbn [aget aset]; [reflexivity|].
    destruct (eqb k0 k); [discriminate|]. intros H. rewrite IH; auto.
  Qed.

  Lemma aset_nonnil l k v : aset eqb l k v <> [].
  Proof. destruct l as [|[k0 v0] l]; cbn [aset]; [discriminate|]. destruct (eqb k0 k); discriminate. Qed.

  (* what an entry of the updated list can be *)
  Lemma In_aset l k v k' v' :
    In (k', v') (aset eqb l k v) ->
    In (k', v') l \/
    (v' = v /\ ((exists v0, In (k', v0) l /\ aget eqb l k = Some v0 /\ eqb k' k = true) \/
                (k' = k /\ aget eqb l k = None))).
  Proof.
    induction l as [|[k0 v0] l IH]; cbn [aget aset].
    - intros [[= <- <-]|[]]. right. split; [reflexivity|]. right. auto.
    - destruct (eqb k0 k) eqn:Ek.
      + intros [[= <- <-]|Hin]; [|left; right; exact Hin].
        right. split; [reflexivity|]. left. exists v0. repeat split; auto. left; reflexivity.
      + intros [[= <- <-]|Hin]; [left; left; reflexivity|].
        destruct (IH Hin) as [H|(-> & [(v1 & H1 & H2 & H3)|(-> & H2)])].
        * left; right; exact H.
        * right. split; [reflexivity|]. left. exists v1. repeat split; auto. right; exact H1.
        * right. split; [reflexivity|]. right. auto.
  Qed.

  Lemma In_aset_keys l k v k' : In k' (map fst (aset eqb l k v)) -> In k' (map fst l) \/ k' = k.
  Proof.
    intros H. apply in_map_iff in H as ([k1 v1] & <- & Hin). cbn [fst].
    apply In_aset in Hin as [H|(-> & [(v0 & H1 & _)|(-> & _)])].
    - left. apply in_map_iff. exists (k1, v1). auto.
    - left. apply in_map_iff. exists (k1, v0). auto.
    - right. reflexivity.
  Qed.

  (* entries whose key does not match survive an update *)
  Lemma In_aset_other l k v k' v' : In (k', v') l -> eqb k' k = false -> In (k', v') (aset eqb l k v).
  Proof.
    induction l as [|[k0 v0] l IH]; cbn [aset]; [intros []|].
    intros [[= -> ->]|Hin] Hk.
    - rewrite Hk. left; reflexivity.
    - destruct (eqb k0 k); [right; exact Hin|right; auto].
  Qed.

  Lemma In_aset_new l k v : exists k', In (k', v) (aset eqb l k v) /\ (k' = k \/ eqb k' k = true).
  Proof.
    induction l as [|[k0 v0] l IH]; cbn [aset].
    - exists k. split; [left; reflexivity|left; reflexivity].
    - destruct (eqb k0 k) eqn:Ek.
      + exists k0. split; [left; reflexivity|right; exact Ek].
      + destruct IH as (k' & H1 & H2). exists k'. split; [right; exact H1|exact H2].
  Qed.

  Lemma In_adel l k x : In x (adel eqb l k) -> In x l.
  Proof.
    induction l as [|[k0 v0] l IH]; cbn [adel]; [intros []|].
    destruct (eqb k0 k); [intros H; right; exact H|]. intros [<-|H]; [left; reflexivity|right; auto].
  Qed.

  Lemma In_adel_keys l k k' : In k' (map fst (adel eqb l k)) -> In k' (map fst l).
  Proof.
    intros H. apply in_map_iff in H as (x & <- & Hin). apply in_map_iff. exists x. split; [reflexivity|].
    eapply In_adel; eauto.
  Qed.

  Lemma In_adel_other l k k' v' : In (k', v') l -> eqb k' k = false -> In (k', v') (adel eqb l k).
  Proof.
    induction l as [|[k0 v0] l IH]; cbn [adel]; [intros []|].
    intros [[= -> ->]|Hin] Hk.
    - rewrite Hk. left; reflexivity.
    - destruct (eqb k0 k); [exact Hin|right; auto].
  Qed.

  Lemma keys_ok_aset l k v : keys_ok l -> eqb k k = true -> keys_ok (aset eqb l k v).
  Proof.
    induction l as [|[k0 v0] l IH]; cbn [keys_ok aset].
    - intros _ Hk. repeat split; auto. intros k' [].
    - intros (Hrefl & Hno & Hok) Hk. destruct (eqb k0 k) eqn:Ek; cbn [keys_ok map fst].
      + repeat split; auto.
      + repeat split; auto. intros k' Hin. apply In_aset_keys in Hin as [Hin| ->]; auto.
  Qed.

  Lemma keys_ok_adel l k : keys_ok l -> keys_ok (adel eqb l k).
  Proof.
    induction l as [|[k0 v0] l IH]; cbn [keys_ok adel]; [auto|].
    intros (Hrefl & Hno & Hok). destruct (eqb k0 k); [exact Hok|]. cbn [keys_ok].
    repeat split; auto. intros k' Hin. apply Hno. eapply In_adel_keys; eauto.
  Qed.

  (* the entry removed / replaced is the one a lookup finds *)
  Lemma keys_ok_adel_gone l k v : keys_ok l -> In (k, v) l -> forall v', ~ In (k, v') (adel eqb l k).
  Proof.
    induction l as [|[k0 v0] l IH]; cbn [keys_ok adel]; [intros _ []|].
    intros (Hrefl & Hno & Hok) [[= -> ->]|Hin] v' Hin'.
    - rewrite Hrefl in Hin'. specialize (Hno k). rewrite Hrefl in Hno.
      assert (true = false); [|discriminate]. apply Hno. apply in_map_iff. exists (k, v'). auto.
    - assert (Ek : eqb k0 k = false) by (apply Hno; apply in_map_iff; exists (k, v); auto).
      rewrite Ek in Hin'. destruct Hin' as [[= -> ->]|Hin'].
      + congruence.
      + eapply IH; eauto.
  Qed.

  (* a lookup by k0 is unaffected by updating / deleting a key that no k0-matching entry matches *)
  Lemma aget_aset_frame l k v k0 :
    (forall k', eqb k' k = true -> eqb k' k0 = false) -> eqb k k0 = false ->
    aget eqb (aset eqb l k v) k0 = aget eqb l k0.
  Proof.
    intros H1 H2. induction l as [|[k1 v1] l IH]; cbn [aget aset].
    - rewrite H2. reflexivity.
    - destruct (eqb k1 k) eqn:Ek; cbn [aget].
      + rewrite (H1 _ Ek). reflexivity.
      + destruct (eqb k1 k0); auto.
  Qed.

  Lemma aget_adel_frame l k k0 :
    (forall k', eqb k' k = true -> eqb k' k0 = false) ->
    aget eqb (adel eqb l k) k0 = aget eqb l k0.
  Proof.
    intros H1. induction l as [|[k1 v1] l IH]; cbn [aget adel]; [reflexivity|].
    destruct (eqb k1 k) eqn:Ek; cbn [aget].
    - rewrite (H1 _ Ek). reflexivity.
    - destruct (eqb k1 k0); auto.
  Qed.
End AssocFacts.

(* keys compared by an equality test that decides Leibniz equality (str_eqb, N.eqb) *)
Section AssocExact.
  Context {K V : Type} (eqb : K -> K -> bool).
  Implicit Types (k : K) (v : V).
  Hypothesis eqb_eq : forall a b, eqb a b = true <-> a = b.

  Lemma eqb_refl' a : eqb a a = true.
  Proof. apply eqb_eq. reflexivity. Qed.
  Lemma eqb_neq a b : a <> b -> eqb a b = false.
  Proof. intros H. destruct (eqb a b) eqn:E; [|reflexivity]. apply eqb_eq in E. contradiction. Qed.

  Lemma xaget_In (l : list (K * V)) k v : aget eqb l k = Some v -> In (k, v) l.
  Proof. intros H. apply aget_In in H as (k' & Hin & Hk). apply eqb_eq in Hk. subst. exact Hin. Qed.

  Lemma xaget_None (l : list (K * V)) k : aget eqb l k = None <-> ~ In k (map fst l).
  Proof.
    split.
    - intros H Hin. apply in_map_iff in Hin as ([k' v] & <- & Hin).
      apply (aget_None_notin _ _ _ H) in Hin. cbn [fst] in Hin. rewrite eqb_refl' in Hin. discriminate.
    - intros H. destruct (aget eqb l k) as [v|] eqn:E; [|reflexivity].
      exfalso. apply H. apply xaget_In in E. apply in_map_iff. exists (k, v). auto.
  Qed.

  Lemma xaget_aset_eq (l : list (K * V)) k v : aget eqb (aset eqb l k v) k = Some v.
  Proof.
    induction l as [|[k0 v0] l IH]; cbn [aget aset].
    - rewrite eqb_refl'. reflexivity.
    - destruct (eqb k0 k) eqn:Ek; cbn [aget]; rewrite Ek; auto.
  Qed.

  Lemma xaget_aset_neq (l : list (K * V)) k v k0 : k0 <> k -> aget eqb (aset eqb l k v) k0 = aget eqb l k0.
  Proof.
    intros Hne. apply aget_aset_frame.
    - intros k' Hk. apply eqb_eq in Hk. subst. apply eqb_neq. auto.
    - apply eqb_neq. auto.
  Qed.

  Lemma xaget_adel_neq (l : list (K * V)) k k0 : k0 <> k -> aget eqb (adel eqb l k) k0 = aget eqb l k0.
  Proof.
    intros Hne. apply aget_adel_frame. intros k' Hk. apply eqb_eq in Hk. subst. apply eqb_neq. auto.
  Qed.

  Lemma xaget_adel_eq (l : list (K * V)) k : keys_ok eqb l -> aget eqb (adel eqb l k) k = None.
  Proof.
    intros Hok. destruct (aget eqb (adel eqb l k) k) as [v'|] eqn:E; [|reflexivity]. exfalso.
    apply xaget_In in E. destruct (aget eqb l k) as [v|] eqn:E2.
    - apply xaget_In in E2. eapply keys_ok_adel_gone; eauto.
    - apply In_adel in E. apply xaget_None in E2. apply E2. apply in_map_iff. exists (k, v'). auto.
  Qed.

  Lemma xkeys_adel (l : list (K * V)) k k' : keys_ok eqb l -> In k' (map fst (adel eqb l k)) -> k' <> k /\ In k' (map fst l).
  Proof.
    intros Hok Hin. split; [|eapply In_adel_keys; eauto].
    intros ->. apply (xaget_adel_eq l k) in Hok. apply xaget_None in Hok. contradiction.
  Qed.

  Lemma xIn_aset (l : list (K * V)) k v k' v' : keys_ok eqb l ->
    In (k', v') (aset eqb l k v) -> (k' = k /\ v' = v) \/ (k' <> k /\ In (k', v') l).
  Proof.
    intros Hok Hin.
    assert (Hok' : keys_ok eqb (aset eqb l k v)) by (apply keys_ok_aset; auto using eqb_refl').
    apply (keys_ok_aget _ _ _ _ Hok') in Hin.
    destruct (eqb k' k) eqn:Ek.
    - apply eqb_eq in Ek. subst. rewrite xaget_aset_eq in Hin. left. split; congruence.
    - assert (k' <> k) by (intros ->; rewrite eqb_refl' in Ek; discriminate).
      rewrite xaget_aset_neq in Hin by auto. right. split; auto. apply xaget_In. auto.
  Qed.

  Lemma xkeys_aset (l : list (K * V)) k v k' : In k' (map fst (aset eqb l k v)) <-> In k' (map fst l) \/ k' = k.
  Proof.
    split; [apply In_aset_keys|].
    intros [H| ->].
    - apply in_map_iff in H as ([k1 v1] & <- & Hin). cbn [fst].
      destruct (eqb k1 k) eqn:Ek.
      + apply eqb_eq in Ek. subst. apply in_map_iff. exists (k, v). split; [reflexivity|].
        apply xaget_In. apply xaget_aset_eq.
      + apply in_map_iff. exists (k1, v1). split; [reflexivity|]. apply In_aset_other; auto.
    - apply in_map_iff. exists (k, v). split; [reflexivity|]. apply xaget_In. apply xaget_aset_eq.
  Qed.

  Lemma xkeys_ok_aset (l : list (K * V)) k v : keys_ok eqb l -> keys_ok eqb (aset eqb l k v).
  Proof. intros. apply keys_ok_aset; auto using eqb_refl'. Qed.

  Lemma xIn_iff_aget (l : list (K * V)) k v : keys_ok eqb l -> (In (k, v) l <-> aget eqb l k = Some v).
  Proof. intros Hok. split; [apply keys_ok_aget; auto|apply xaget_In]. Qed.
End AssocExact.
