(* Reachable-state invariant of the server model (Server.v) and its preservation by every
   operation, whatever the handler scripts do.  Proofs only; no definition of the model is
   changed here.

   Layout:
     1. weakest-precondition rules for the state/effect/exception monad
     2. facts about insertion-ordered association lists (aget / aset / adel)
     3. room maps: membership, well-formedness, the invariant of one namespace
     4. manager operations preserve the manager invariant (MInv)
     5. server invariant (Mid: holds even inside handlers; Inv: at operation boundaries)
     6. the handler machinery preserves any predicate that every scripted action preserves
     7. every operation preserves Inv *)
From VT Require Export Server.Server.
From Coq Require Import Lia.
Open Scope N_scope.

(* ------------------------------------------------------------------------------------ *)
(** * 1. Weakest-precondition rules *)

Definition Post (A : Type) := Res A -> srv -> list eff -> Prop.
Definition hp {A} (s : srv) (m : SM A) (Q : Post A) : Prop :=
  match m s with (s', es, r) => Q r s' es end.

Lemma hp_conseq {A} s (m : SM A) (Q1 Q : Post A) :
  hp s m Q1 -> (forall r s' es, Q1 r s' es -> Q r s' es) -> hp s m Q.
Proof. unfold hp. destruct (m s) as [[s' es] r]. auto. Qed.

Lemma hp_ret {A} s (a : A) (Q : Post A) : Q (Ok a) s [] -> hp s (ret a) Q.
Proof. exact (fun H => H). Qed.
Lemma hp_raise {A} s x (Q : Post A) : Q (Err x) s [] -> hp s (raise x) Q.
Proof. exact (fun H => H). Qed.
Lemma hp_lift {A} s (r : Res A) (Q : Post A) : Q r s [] -> hp s (lift r) Q.
Proof. exact (fun H => H). Qed.
Lemma hp_tell s e (Q : Post unit) : Q (Ok tt) s [e] -> hp s (tell e) Q.
Proof. exact (fun H => H). Qed.
Lemma hp_getS s (Q : Post srv) : Q (Ok s) s [] -> hp s getS Q.
Proof. exact (fun H => H). Qed.
Lemma hp_putS s s' (Q : Post unit) : Q (Ok tt) s' [] -> hp s (putS s') Q.
Proof. exact (fun H => H). Qed.
Lemma hp_modify s f (Q : Post unit) : Q (Ok tt) (f s) [] -> hp s (modify f) Q.
Proof. exact (fun H => H). Qed.

Lemma hp_bind {A B} s (m : SM A) (k : A -> SM B) (Q : Post B) :
  hp s m (fun r s1 e1 => match r with
                         | Ok a => hp s1 (k a) (fun r' s2 e2 => Q r' s2 (e1 ++ e2))
                         | Err x => Q (Err x) s1 e1 end) ->
  hp s (bindM m k) Q.
Proof.
  unfold hp, bindM. destruct (m s) as [[s1 e1] [a|x]]; [|auto].
  destruct (k a s1) as [[s2 e2] r]. auto.
Qed.

Lemma hp_getS_bind {B} s (k : srv -> SM B) (Q : Post B) : hp s (k s) Q -> hp s (bindM getS k) Q.
Proof. unfold hp, bindM, getS. destruct (k s s) as [[s2 e2] r]. auto. Qed.

Lemma hp_catch {A} s (m : SM A) h (Q : Post A) :
  hp s m (fun r s1 e1 => match r with
                         | Ok a => Q (Ok a) s1 e1
                         | Err x => match h x with
                                    | Some k => hp s1 k (fun r' s2 e2 => Q r' s2 (e1 ++ e2))
                                    | None => Q (Err x) s1 e1 end
                         end) ->
  hp s (catch m h) Q.
Proof.
  unfold hp, catch. destruct (m s) as [[s1 e1] [a|x]]; [auto|].
  destruct (h x) as [k|]; [|auto]. destruct (k s1) as [[s2 e2] r]. auto.
Qed.

Lemma hp_contain s (m : SM unit) (Q : Post unit) :
  hp s m (fun _ s1 e1 => Q (Ok tt) s1 e1) -> hp s (contain m) Q.
Proof. unfold hp, contain. destruct (m s) as [[s1 e1] r]. auto. Qed.

Lemma hp_finally {A} s (m : SM A) f (Q : Post A) :
  hp s m (fun r s1 e1 =>
            hp s1 f (fun rf s2 e2 => Q (match rf with Ok _ => r | Err x => Err x end) s2 (e1 ++ e2))) ->
  hp s (finallyM m f) Q.
Proof.
  unfold hp, finallyM. destruct (m s) as [[s1 e1] r].
  destruct (f s1) as [[s2 e2] [u|x]]; auto.
Qed.

Lemma hp_api s (m : SM unit) (Q : Post unit) :
  hp s m (fun r s1 e1 => match r with
                         | Ok _ => Q (Ok tt) s1 e1
                         | Err x => Q (Ok tt) s1 (e1 ++ [Raised x]) end) ->
  hp s (api m) Q.
Proof. unfold hp, api. destruct (m s) as [[s1 e1] [u|x]]; auto. Qed.

(* invariant-style judgement: J is preserved whatever the result, every effect satisfies E *)
Definition pres {A} (J : srv -> Prop) (E : eff -> Prop) (m : SM A) : Prop :=
  forall s, J s -> hp s m (fun _ s' es => J s' /\ Forall E es).

Section Pres.
  Variable J : srv -> Prop.
  Variable E : eff -> Prop.

  Lemma pres_ret {A} (a : A) : pres J E (ret a).
  Proof. intros s H. apply hp_ret. auto. Qed.
  Lemma pres_raise {A} x : pres J E (@raise srv eff A x).
  Proof. intros s H. apply hp_raise. auto. Qed.
  Lemma pres_lift {A} (r : Res A) : pres J E (lift r).
  Proof. intros s H. apply hp_lift. auto. Qed.
  Lemma pres_tell e : E e -> pres J E (tell e).
  Proof. intros He s H. apply hp_tell. auto. Qed.
  Lemma pres_getS : pres J E getS.
  Proof. intros s H. apply hp_getS. auto. Qed.

  Lemma pres_bind {A B} (m : SM A) (k : A -> SM B) :
    pres J E m -> (forall a, pres J E (k a)) -> pres J E (bindM m k).
  Proof.
    intros Hm Hk s H. apply hp_bind. eapply hp_conseq; [apply Hm, H|].
    intros [a|x] s1 e1 [H1 F1]; [|auto].
    eapply hp_conseq; [apply Hk, H1|]. intros r s2 e2 [H2 F2]. split; [auto|apply Forall_app; auto].
  Qed.

  (* the continuation may use that the value read is the current state *)
  Lemma pres_getS_bind {B} (k : srv -> SM B) :
    (forall s, J s -> hp s (k s) (fun _ s' es => J s' /\ Forall E es)) -> pres J E (bindM getS k).
  Proof. intros Hk s H. apply hp_getS_bind. auto. Qed.

  Lemma pres_catch {A} (m : SM A) h :
    pres J E m -> (forall x k, h x = Some k -> pres J E k) -> pres J E (catch m h).
  Proof.
    intros Hm Hh s H. apply hp_catch. eapply hp_conseq; [apply Hm, H|].
    intros [a|x] s1 e1 [H1 F1]; [auto|].
    destruct (h x) as [k|] eqn:Ehx; [|auto].
    eapply hp_conseq; [apply (Hh _ _ Ehx), H1|]. intros r s2 e2 [H2 F2]. split; [auto|apply Forall_app; auto].
  Qed.

  Lemma pres_contain (m : SM unit) : pres J E m -> pres J E (contain m).
  Proof. intros Hm s H. apply hp_contain. eapply hp_conseq; [apply Hm, H|]. auto. Qed.

  Lemma pres_finally {A} (m : SM A) f : pres J E m -> pres J E f -> pres J E (finallyM m f).
  Proof.
    intros Hm Hf s H. apply hp_finally. eapply hp_conseq; [apply Hm, H|].
    intros r s1 e1 [H1 F1]. eapply hp_conseq; [apply Hf, H1|].
    intros rf s2 e2 [H2 F2]. split; [auto|apply Forall_app; auto].
  Qed.

  Lemma pres_api (m : SM unit) : (forall x, E (Raised x)) -> pres J E m -> pres J E (api m).
  Proof.
    intros HE Hm s H. apply hp_api. eapply hp_conseq; [apply Hm, H|].
    intros [u|x] s1 e1 [H1 F1]; split; auto. apply Forall_app; auto.
  Qed.

  Lemma pres_forM {A} (l : list A) (f : A -> SM unit) :
    (forall x, In x l -> pres J E (f x)) -> pres J E (forM l f).
  Proof.
    induction l as [|x l IH]; intros Hf; cbn [forM]; [apply pres_ret|].
    apply pres_bind; [apply Hf; left; reflexivity|]. intros _. apply IH. intros y Hy. apply Hf. right; exact Hy.
  Qed.

  Lemma pres_forM_keep {A} (l : list A) (f : A -> SM unit) first :
    (forall x, In x l -> pres J E (f x)) -> pres J E (forM_keep l f first).
  Proof.
    revert first. induction l as [|x l IH]; intros first Hf; cbn [forM_keep]; [apply pres_ret|].
    intros s H. unfold hp.
    assert (Hx := Hf x (or_introl eq_refl) s H). unfold hp in Hx.
    destruct (f x s) as [[s1 e1] res]. destruct Hx as [H1 F1].
    assert (Hr := IH (match first, res with None, Err e => Some e | _, _ => first end)
                     (fun y Hy => Hf y (or_intror Hy)) s1 H1). unfold hp in Hr.
    destruct (forM_keep l f _ s1) as [[s2 e2] out]. destruct Hr as [H2 F2].
    split; [auto|apply Forall_app; auto].
  Qed.

  Lemma pres_modify f : (forall s, J s -> J (f s)) -> pres J E (modify f).
  Proof. intros Hf s H. apply hp_modify. auto. Qed.
  Lemma pres_putS s' : J s' -> pres J E (putS s').
  Proof. intros Hs s H. apply hp_putS. auto. Qed.
End Pres.

Lemma pres_weaken {A} (J : srv -> Prop) (E E' : eff -> Prop) (m : SM A) :
  (forall e, E e -> E' e) -> pres J E m -> pres J E' m.
Proof.
  intros HE Hm s H. eapply hp_conseq; [apply Hm, H|]. intros r s' es [H1 F1]. split; [auto|].
  eapply Forall_impl; eauto.
Qed.

Definition anyeff : eff -> Prop := fun _ => True.
Lemma Forall_anyeff l : Forall anyeff l.
Proof. apply Forall_forall. intros; exact I. Qed.
(* ------------------------------------------------------------------------------------ *)
(** * 2. Association lists *)

Section AssocFacts.
  Context {K V : Type} (eqb : K -> K -> bool).
  Implicit Types (l : list (K * V)) (k : K) (v : V).

  (* every stored key matches itself and is matched by no earlier key: lookups by a stored
     key find exactly that entry *)
  Fixpoint keys_ok (l : list (K * V)) : Prop :=
    match l with
    | [] => True
    | (k, _) :: r => eqb k k = true /\ (forall k', In k' (map fst r) -> eqb k k' = false) /\ keys_ok r
    end.

  Lemma aget_In l k v : aget eqb l k = Some v -> exists k', In (k', v) l /\ eqb k' k = true.
  Proof.
    induction l as [|[k0 v0] l IH]; cbn [aget]; [discriminate|].
    destruct (eqb k0 k) eqn:Ek.
    - intros [= <-]. exists k0. split; [left; reflexivity|exact Ek].
    - intros H. destruct (IH H) as (k' & Hin & Hk). exists k'. split; [right; exact Hin|exact Hk].
  Qed.

  Lemma aget_None_notin l k : aget eqb l k = None -> forall k' v, In (k', v) l -> eqb k' k = false.
  Proof.
    induction l as [|[k0 v0] l IH]; cbn [aget]; [intros _ k' v []|].
    destruct (eqb k0 k) eqn:Ek; [discriminate|].
    intros H k' v [[= <- <-]|Hin]; [exact Ek|eauto].
  Qed.

  Lemma keys_ok_aget l k v : keys_ok l -> In (k, v) l -> aget eqb l k = Some v.
  Proof.
    induction l as [|[k0 v0] l IH]; cbn [keys_ok aget]; [intros _ []|].
    intros (Hrefl & Hno & Hok) [[= -> ->]|Hin].
    - rewrite Hrefl. reflexivity.
    - rewrite (Hno k) by (apply in_map_iff; exists (k, v); auto). auto.
  Qed.

  Lemma keys_ok_functional l k v1 v2 : keys_ok l -> In (k, v1) l -> In (k, v2) l -> v1 = v2.
  Proof.
    intros Hok H1 H2. apply (keys_ok_aget _ _ _ Hok) in H1. apply (keys_ok_aget _ _ _ Hok) in H2. congruence.
  Qed.

  Lemma aset_same l k v : aget eqb l k = Some v -> aset eqb l k v = l.
  Proof.
    induction l as [|[k0 v0] l IH]; cbn [aget aset]; [discriminate|].
    destruct (eqb k0 k); [intros [= ->]; reflexivity|]. intros H. rewrite IH; auto.
  Qed.

  Lemma aset_none l k v : aget eqb l k = None -> aset eqb l k v = l ++ [(k, v)].
  Proof.
    induction l as [|[k0 v0] l IH]; cbn [aget aset]; [reflexivity|].
    destruct (eqb k0 k); [discriminate|]. intros H. rewrite IH; auto.
  Qed.

  Lemma aset_nonnil l k v : aset eqb l k v <> [].
  Proof. destruct l as [|[k0 v0] l]; cbn [aset]; [discriminate|]. destruct (eqb k0 k); discriminate. Qed.

  (* what an entry of the updated list can be *)
  Lemma In_aset l k v k' v' :
    In (k', v') (aset eqb l k v) ->
    In (k', v') l \/
    (v' = v /\ ((exists v0, In (k', v0) l /\ aget eqb l k = Some v0 /\ eqb k' k = true) \/
                (k' = k /\ aget eqb l k = None))).
  Proof.
    induction l as [|[k0 v0] l IH]; cbn [aget aset].
    - intros [[= <- <-]|[]]. right. split; [reflexivity|]. right. auto.
    - destruct (eqb k0 k) eqn:Ek.
      + intros [[= <- <-]|Hin]; [|left; right; exact Hin].
        right. split; [reflexivity|]. left. exists v0. repeat split; auto. left; reflexivity.
      + intros [[= <- <-]|Hin]; [left; left; reflexivity|].
        destruct (IH Hin) as [H|(-> & [(v1 & H1 & H2 & H3)|(-> & H2)])].
        * left; right; exact H.
        * right. split; [reflexivity|]. left. exists v1. repeat split; auto. right; exact H1.
        * right. split; [reflexivity|]. right. auto.
  Qed.

  Lemma In_aset_keys l k v k' : In k' (map fst (aset eqb l k v)) -> In k' (map fst l) \/ k' = k.
  Proof.
    intros H. apply in_map_iff in H as ([k1 v1] & <- & Hin). cbn [fst].
    apply In_aset in Hin as [H|(-> & [(v0 & H1 & _)|(-> & _)])].
    - left. apply in_map_iff. exists (k1, v1). auto.
    - left. apply in_map_iff. exists (k1, v0). auto.
    - right. reflexivity.
  Qed.

  (* entries whose key does not match survive an update *)
  Lemma In_aset_other l k v k' v' : In (k', v') l -> eqb k' k = false -> In (k', v') (aset eqb l k v).
  Proof.
    induction l as [|[k0 v0] l IH]; cbn [aset]; [intros []|].
    intros [[= -> ->]|Hin] Hk.
    - rewrite Hk. left; reflexivity.
    - destruct (eqb k0 k); [right; exact Hin|right; auto].
  Qed.

  Lemma In_aset_new l k v : exists k', In (k', v) (aset eqb l k v) /\ (k' = k \/ eqb k' k = true).
  Proof.
    induction l as [|[k0 v0] l IH]; cbn [aset].
    - exists k. split; [left; reflexivity|left; reflexivity].
    - destruct (eqb k0 k) eqn:Ek.
      + exists k0. split; [left; reflexivity|right; exact Ek].
      + destruct IH as (k' & H1 & H2). exists k'. split; [right; exact H1|exact H2].
  Qed.

  Lemma In_adel l k x : In x (adel eqb l k) -> In x l.
  Proof.
    induction l as [|[k0 v0] l IH]; cbn [adel]; [intros []|].
    destruct (eqb k0 k); [intros H; right; exact H|]. intros [<-|H]; [left; reflexivity|right; auto].
  Qed.

  Lemma In_adel_keys l k k' : In k' (map fst (adel eqb l k)) -> In k' (map fst l).
  Proof.
    intros H. apply in_map_iff in H as (x & <- & Hin). apply in_map_iff. exists x. split; [reflexivity|].
    eapply In_adel; eauto.
  Qed.

  Lemma In_adel_other l k k' v' : In (k', v') l -> eqb k' k = false -> In (k', v') (adel eqb l k).
  Proof.
    induction l as [|[k0 v0] l IH]; cbn [adel]; [intros []|].
    intros [[= -> ->]|Hin] Hk.
    - rewrite Hk. left; reflexivity.
    - destruct (eqb k0 k); [exact Hin|right; auto].
  Qed.

  Lemma keys_ok_aset l k v : keys_ok l -> eqb k k = true -> keys_ok (aset eqb l k v).
  Proof.
    induction l as [|[k0 v0] l IH]; cbn [keys_ok aset].
    - intros _ Hk. repeat split; auto. intros k' [].
    - intros (Hrefl & Hno & Hok) Hk. destruct (eqb k0 k) eqn:Ek; cbn [keys_ok map fst].
      + repeat split; auto.
      + repeat split; auto. intros k' Hin. apply In_aset_keys in Hin as [Hin| ->]; auto.
  Qed.

  Lemma keys_ok_adel l k : keys_ok l -> keys_ok (adel eqb l k).
  Proof.
    induction l as [|[k0 v0] l IH]; cbn [keys_ok adel]; [auto|].
    intros (Hrefl & Hno & Hok). destruct (eqb k0 k); [exact Hok|]. cbn [keys_ok].
    repeat split; auto. intros k' Hin. apply Hno. eapply In_adel_keys; eauto.
  Qed.

  (* the entry removed / replaced is the one a lookup finds *)
  Lemma keys_ok_adel_gone l k v : keys_ok l -> In (k, v) l -> forall v', ~ In (k, v') (adel eqb l k).
  Proof.
    induction l as [|[k0 v0] l IH]; cbn [keys_ok adel]; [intros _ []|].
    intros (Hrefl & Hno & Hok) [[= -> ->]|Hin] v' Hin'.
    - rewrite Hrefl in Hin'. specialize (Hno k). rewrite Hrefl in Hno.
      assert (true = false); [|discriminate]. apply Hno. apply in_map_iff. exists (k, v'). auto.
    - assert (Ek : eqb k0 k = false) by (apply Hno; apply in_map_iff; exists (k, v); auto).
      rewrite Ek in Hin'. destruct Hin' as [[= -> ->]|Hin'].
      + congruence.
      + eapply IH; eauto.
  Qed.

  (* a lookup by k0 is unaffected by updating / deleting a key that no k0-matching entry matches *)
  Lemma aget_aset_frame l k v k0 :
    (forall k', eqb k' k = true -> eqb k' k0 = false) -> eqb k k0 = false ->
    aget eqb (aset eqb l k v) k0 = aget eqb l k0.
  Proof.
    intros H1 H2. induction l as [|[k1 v1] l IH]; cbn [aget aset].
    - rewrite H2. reflexivity.
    - destruct (eqb k1 k) eqn:Ek; cbn [aget].
      + rewrite (H1 _ Ek). reflexivity.
      + destruct (eqb k1 k0); auto.
  Qed.

  Lemma aget_adel_frame l k k0 :
    (forall k', eqb k' k = true -> eqb k' k0 = false) ->
    aget eqb (adel eqb l k) k0 = aget eqb l k0.
  Proof.
    intros H1. induction l as [|[k1 v1] l IH]; cbn [aget adel]; [reflexivity|].
    destruct (eqb k1 k) eqn:Ek; cbn [aget].
    - rewrite (H1 _ Ek). reflexivity.
    - destruct (eqb k1 k0); auto.
  Qed.
End AssocFacts.

(* keys compared by an equality test that decides Leibniz equality (str_eqb, N.eqb) *)
Section AssocExact.
  Context {K V : Type} (eqb : K -> K -> bool).
  Implicit Types (k : K) (v : V).
  Hypothesis eqb_eq : forall a b, eqb a b = true <-> a = b.

  Lemma eqb_refl' a : eqb a a = true.
  Proof. apply eqb_eq. reflexivity. Qed.
  Lemma eqb_neq a b : a <> b -> eqb a b = false.
  Proof. intros H. destruct (eqb a b) eqn:E; [|reflexivity]. apply eqb_eq in E. contradiction. Qed.

  Lemma xaget_In (l : list (K * V)) k v : aget eqb l k = Some v -> In (k, v) l.
  Proof. intros H. apply aget_In in H as (k' & Hin & Hk). apply eqb_eq in Hk. subst. exact Hin. Qed.

  Lemma xaget_None (l : list (K * V)) k : aget eqb l k = None <-> ~ In k (map fst l).
  Proof.
    split.
    - intros H Hin. apply in_map_iff in Hin as ([k' v] & <- & Hin).
      apply (aget_None_notin _ _ _ H) in Hin. cbn [fst] in Hin. rewrite eqb_refl' in Hin. discriminate.
    - intros H. destruct (aget eqb l k) as [v|] eqn:E; [|reflexivity].
      exfalso. apply H. apply xaget_In in E. apply in_map_iff. exists (k, v). auto.
  Qed.

  Lemma xaget_aset_eq (l : list (K * V)) k v : aget eqb (aset eqb l k v) k = Some v.
  Proof.
    induction l as [|[k0 v0] l IH]; cbn [aget aset].
    - rewrite eqb_refl'. reflexivity.
    - destruct (eqb k0 k) eqn:Ek; cbn [aget]; rewrite Ek; auto.
  Qed.

  Lemma xaget_aset_neq (l : list (K * V)) k v k0 : k0 <> k -> aget eqb (aset eqb l k v) k0 = aget eqb l k0.
  Proof.
    intros Hne. apply aget_aset_frame.
    - intros k' Hk. apply eqb_eq in Hk. subst. apply eqb_neq. auto.
    - apply eqb_neq. auto.
  Qed.

  Lemma xaget_adel_neq (l : list (K * V)) k k0 : k0 <> k -> aget eqb (adel eqb l k) k0 = aget eqb l k0.
  Proof.
    intros Hne. apply aget_adel_frame. intros k' Hk. apply eqb_eq in Hk. subst. apply eqb_neq. auto.
  Qed.

  Lemma xaget_adel_eq (l : list (K * V)) k : keys_ok eqb l -> aget eqb (adel eqb l k) k = None.
  Proof.
    intros Hok. destruct (aget eqb (adel eqb l k) k) as [v'|] eqn:E; [|reflexivity]. exfalso.
    apply xaget_In in E. destruct (aget eqb l k) as [v|] eqn:E2.
    - apply xaget_In in E2. eapply keys_ok_adel_gone; eauto.
    - apply In_adel in E. apply xaget_None in E2. apply E2. apply in_map_iff. exists (k, v'). auto.
  Qed.

  Lemma xkeys_adel (l : list (K * V)) k k' : keys_ok eqb l -> In k' (map fst (adel eqb l k)) -> k' <> k /\ In k' (map fst l).
  Proof.
    intros Hok Hin. split; [|eapply In_adel_keys; eauto].
    intros ->. apply (xaget_adel_eq l k) in Hok. apply xaget_None in Hok. contradiction.
  Qed.

  Lemma xIn_aset (l : list (K * V)) k v k' v' : keys_ok eqb l ->
    In (k', v') (aset eqb l k v) -> (k' = k /\ v' = v) \/ (k' <> k /\ In (k', v') l).
  Proof.
    intros Hok Hin.
    assert (Hok' : keys_ok eqb (aset eqb l k v)) by (apply keys_ok_aset; auto using eqb_refl').
    apply (keys_ok_aget _ _ _ _ Hok') in Hin.
    destruct (eqb k' k) eqn:Ek.
    - apply eqb_eq in Ek. subst. rewrite xaget_aset_eq in Hin. left. split; congruence.
    - assert (k' <> k) by (intros ->; rewrite eqb_refl' in Ek; discriminate).
      rewrite xaget_aset_neq in Hin by auto. right. split; auto. apply xaget_In. auto.
  Qed.

  Lemma xkeys_aset (l : list (K * V)) k v k' : In k' (map fst (aset eqb l k v)) <-> In k' (map fst l) \/ k' = k.
  Proof.
    split; [apply In_aset_keys|].
    intros [H| ->].
    - apply in_map_iff in H as ([k1 v1] & <- & Hin). cbn [fst].
      destruct (eqb k1 k) eqn:Ek.
      + apply eqb_eq in Ek. subst. apply in_map_iff. exists (k, v). split; [reflexivity|].
        apply xaget_In. apply xaget_aset_eq.
      + apply in_map_iff. exists (k1, v1). split; [reflexivity|]. apply In_aset_other; auto.
    - apply in_map_iff. exists (k, v). split; [reflexivity|]. apply xaget_In. apply xaget_aset_eq.
  Qed.

  Lemma xkeys_ok_aset (l : list (K * V)) k v : keys_ok eqb l -> keys_ok eqb (aset eqb l k v).
  Proof. intros. apply keys_ok_aset; auto using eqb_refl'. Qed.

  Lemma xIn_iff_aget (l : list (K * V)) k v : keys_ok eqb l -> (In (k, v) l <-> aget eqb l k = Some v).
  Proof. intros Hok. split; [apply keys_ok_aget; auto|apply xaget_In]. Qed.
End AssocExact.
(* ------------------------------------------------------------------------------------ *)
(** * 3. Room maps *)

Section AssocFacts2.
  Context {K V : Type} (eqb : K -> K -> bool).
  Implicit Types (l : list (K * V)) (k : K) (v : V).

  (* an entry either survives an update or is the one a lookup finds, and is replaced *)
  Lemma In_aset_fate l k v k' v' :
    In (k', v') l ->
    In (k', v') (aset eqb l k v) \/ (aget eqb l k = Some v' /\ eqb k' k = true /\ In (k', v) (aset eqb l k v)).
  Proof.
    induction l as [|[k0 v0] l IH]; cbn [aset aget]; [intros []|].
    intros [[= -> ->]|Hin].
    - destruct (eqb k' k) eqn:Ek; [right; repeat split; auto; left; reflexivity|left; left; reflexivity].
    - destruct (eqb k0 k) eqn:Ek; [left; right; exact Hin|].
      destruct (IH Hin) as [H|(H1 & H2 & H3)]; [left; right; exact H|right; repeat split; auto; right; exact H3].
  Qed.

  Lemma In_adel_fate l k k' v' :
    In (k', v') l -> In (k', v') (adel eqb l k) \/ (aget eqb l k = Some v' /\ eqb k' k = true).
  Proof.
    induction l as [|[k0 v0] l IH]; cbn [adel aget]; [intros []|].
    intros [[= -> ->]|Hin].
    - destruct (eqb k' k) eqn:Ek; [right; auto|left; left; reflexivity].
    - destruct (eqb k0 k) eqn:Ek; [left; exact Hin|].
      destruct (IH Hin) as [H|H]; [left; right; exact H|right; exact H].
  Qed.

  (* a stored key is found by its own lookup, so the replaced entry keeps that very key *)
  Lemma keys_ok_aset_stored l k v v0 : keys_ok eqb l -> In (k, v0) l -> In (k, v) (aset eqb l k v).
  Proof.
    induction l as [|[k1 v1] l IH]; cbn [keys_ok aset]; [intros _ []|].
    intros (Hrefl & Hno & Hok) [[= -> ->]|Hin].
    - rewrite Hrefl. left; reflexivity.
    - rewrite (Hno k) by (apply in_map_iff; exists (k, v0); auto). right; auto.
  Qed.

  Lemma aset_keys_some l k v v0 : aget eqb l k = Some v0 -> map fst (aset eqb l k v) = map fst l.
  Proof.
    induction l as [|[k1 v1] l IH]; cbn [aget aset]; [discriminate|].
    destruct (eqb k1 k); cbn [map fst]; [reflexivity|]. intros H. rewrite IH; auto.
  Qed.

  Lemma keys_ok_ext l l' : map fst l = map fst l' -> keys_ok eqb l -> keys_ok eqb l'.
  Proof.
    revert l'. induction l as [|[k1 v1] l IH]; intros [|[k2 v2] l']; cbn [map fst keys_ok]; try discriminate; auto.
    intros [= -> Hm] (H1 & H2 & H3). rewrite <- Hm. repeat split; auto.
  Qed.

  Lemma keys_ok_aset_some l k v v0 : keys_ok eqb l -> aget eqb l k = Some v0 -> keys_ok eqb (aset eqb l k v).
  Proof. intros Hok Hget. eapply keys_ok_ext; [symmetry; eapply aset_keys_some; eauto|exact Hok]. Qed.
End AssocFacts2.

Lemma py_eq_none_l x : py_eq PNone x = true -> x = PNone.
Proof. destruct x; cbn; intros H; try discriminate; reflexivity. Qed.
Lemma py_eq_none_r x : py_eq x PNone = true -> x = PNone.
Proof. destruct x; cbn; intros H; try discriminate; try reflexivity; destruct b; discriminate. Qed.
Lemma room_eqb_none_refl : room_eqb PNone PNone = true.
Proof. reflexivity. Qed.
Lemma room_eqb_none_frame room : room <> PNone -> forall k', room_eqb k' room = true -> room_eqb k' PNone = false.
Proof.
  intros Hne k' Hk. destruct (room_eqb k' PNone) eqn:E; [|reflexivity].
  apply py_eq_none_r in E. subst. apply py_eq_none_l in Hk. contradiction.
Qed.
Lemma room_neq_none room : room <> PNone -> room_eqb room PNone = false.
Proof. intros Hne. destruct (room_eqb room PNone) eqn:E; [|reflexivity]. apply py_eq_none_r in E. contradiction. Qed.

Definition str_eqb_spec := str_eqb_eq.

(* bidicts *)
Lemma bd_inv_In b e s : bd_inv b e = Some s -> In (s, e) b.
Proof.
  induction b as [|[s0 e0] b IH]; cbn [bd_inv]; [discriminate|].
  destruct (str_eqb e0 e) eqn:Ee.
  - apply str_eqb_eq in Ee. subst. intros [= ->]. left; reflexivity.
  - intros H. right; auto.
Qed.
Lemma bd_inv_None b e : bd_inv b e = None -> forall s, ~ In (s, e) b.
Proof.
  induction b as [|[s0 e0] b IH]; cbn [bd_inv]; [intros _ s []|].
  destruct (str_eqb e0 e) eqn:Ee; [discriminate|].
  intros H s [[= -> ->]|Hin]; [rewrite str_eqb_refl in Ee; discriminate|]. eapply IH; eauto.
Qed.
Lemma bd_inv_some b e s : In (s, e) b -> exists s', bd_inv b e = Some s'.
Proof.
  intros Hin. destruct (bd_inv b e) as [s'|] eqn:E; [eauto|]. exfalso. eapply bd_inv_None; eauto.
Qed.

(* membership of (sid, eio) in room [room] of a namespace's room map (stored key = room) *)
Definition rmem (rm : roommap) (room : pv) (sid eio : str) : Prop :=
  exists b, In (room, b) rm /\ In (sid, eio) b.
Definition RmWf (rm : roommap) : Prop :=
  keys_ok room_eqb rm /\ forall room b, In (room, b) rm -> b <> [] /\ keys_ok str_eqb b.

Lemma rmem_none_iff rm sid eio : RmWf rm ->
  (rmem rm PNone sid eio <-> exists b0, aget room_eqb rm PNone = Some b0 /\ bd_get b0 sid = Some eio).
Proof.
  intros [Hk Hb]. split.
  - intros (b & Hin & Hs). exists b. split; [apply keys_ok_aget; auto|].
    apply keys_ok_aget; auto. apply (Hb _ _ Hin).
  - intros (b0 & H1 & H2). apply aget_In in H1 as (k' & Hin & Hk'). apply py_eq_none_r in Hk'. subst.
    exists b0. split; [auto|]. apply (xaget_In _ str_eqb_eq) in H2. exact H2.
Qed.

Lemma RmWf_nil : RmWf [].
Proof. split; [exact I|intros ? ? []]. Qed.

(* adding (sid, eio) to the bidict of [room], creating the room if necessary *)
Lemma rmem_put rm room b sid eio :
  RmWf rm -> room_eqb room room = true ->
  (aget room_eqb rm room = Some b \/ (aget room_eqb rm room = None /\ b = [])) ->
  let rm' := aset room_eqb rm room (aset str_eqb b sid eio) in
  RmWf rm' /\
  (forall r s e, rmem rm' r s e ->
                 rmem rm r s e \/ (s = sid /\ e = eio /\ (r = room \/ room_eqb r room = true))) /\
  (forall r s e, rmem rm r s e -> s <> sid -> rmem rm' r s e) /\
  (forall r s e, rmem rm r s e -> room_eqb r room = false -> rmem rm' r s e) /\
  (exists r, (r = room \/ room_eqb r room = true) /\ rmem rm' r sid eio).
Proof.
  intros [Hk Hb] Hrefl Hget rm'.
  assert (Hkb : keys_ok str_eqb b).
  { destruct Hget as [Hget|[_ ->]]; [|exact I]. apply aget_In in Hget as (k' & Hin & _). apply (Hb _ _ Hin). }
  split; [split|split; [|split; [|split]]].
  - apply keys_ok_aset; auto.
  - intros r b1 Hin. apply In_aset in Hin as [Hin|(-> & _)]; [apply (Hb _ _ Hin)|].
    split; [apply aset_nonnil|apply (xkeys_ok_aset _ str_eqb_eq); auto].
  - intros r s e (b1 & Hin & Hs). apply In_aset in Hin as [Hin|(-> & Hcase)]; [left; exists b1; auto|].
    apply (xIn_aset _ str_eqb_eq) in Hs as [[-> ->]|[Hne Hs]]; auto.
    + right. repeat split; auto. destruct Hcase as [(v0 & _ & _ & H)|[-> _]]; auto.
    + left. destruct Hcase as [(v0 & H1 & H2 & _)|[_ Hn]].
      * destruct Hget as [Hget|[Hget _]]; [|congruence]. assert (v0 = b) by congruence. subst. exists b; auto.
      * destruct Hget as [Hget|[_ ->]]; [congruence|destruct Hs].
  - intros r s e (b1 & Hin & Hs) Hne.
    destruct (In_aset_fate room_eqb rm room (aset str_eqb b sid eio) r b1 Hin) as [H|(H1 & H2 & H3)].
    + exists b1; auto.
    + destruct Hget as [Hget|[Hget _]]; [|congruence]. assert (b1 = b) by congruence. subst.
      exists (aset str_eqb b sid eio). split; [auto|]. apply In_aset_other; auto.
      apply (eqb_neq _ str_eqb_eq). auto.
  - intros r s e (b1 & Hin & Hs) Hne. exists b1. split; [|auto]. apply In_aset_other; auto.
  - destruct (In_aset_new room_eqb rm room (aset str_eqb b sid eio)) as (k' & H1 & H2).
    exists k'. split; [auto|]. exists (aset str_eqb b sid eio). split; [auto|].
    apply (xaget_In _ str_eqb_eq). apply (xaget_aset_eq _ str_eqb_eq).
Qed.

(* the room-map part of basic_leave_room; None = nothing to do *)
Definition rm_leave (rm : roommap) (sid : str) (room : pv) : option roommap :=
  match aget room_eqb rm room with
  | None => None
  | Some b =>
      match bd_get b sid with
      | None => None
      | Some _ =>
          let b' := adel str_eqb b sid in
          Some (match b' with [] => adel room_eqb rm room | _ => aset room_eqb rm room b' end)
      end
  end.

Lemma rm_leave_spec rm sid room rm' :
  RmWf rm -> rm_leave rm sid room = Some rm' ->
  RmWf rm' /\
  (forall r s e, rmem rm' r s e -> rmem rm r s e) /\
  (forall r s e, rmem rm r s e -> s <> sid -> rmem rm' r s e) /\
  (forall r s e, rmem rm r s e -> room_eqb r room = false -> rmem rm' r s e) /\
  (forall e, ~ rmem rm' room sid e).
Proof.
  intros [Hk Hb]. unfold rm_leave.
  destruct (aget room_eqb rm room) as [b|] eqn:Hget; [|discriminate].
  destruct (bd_get b sid) as [e0|] eqn:Hsid; [|discriminate].
  intros [= <-].
  destruct (aget_In _ _ _ _ Hget) as (k0 & Hin0 & Hk0).
  destruct (Hb _ _ Hin0) as [Hbne Hkb].
  assert (Hgone : forall e, ~ In (sid, e) (adel str_eqb b sid)).
  { apply (xaget_In _ str_eqb_eq) in Hsid. eapply keys_ok_adel_gone; eauto. }
  destruct (adel str_eqb b sid) as [|x b'] eqn:Hb'.
  - (* the room is removed *)
    split; [split|split; [|split; [|split]]].
    + apply keys_ok_adel; auto.
    + intros r b1 Hin. apply In_adel in Hin. apply (Hb _ _ Hin).
    + intros r s e (b1 & Hin & Hs). apply In_adel in Hin. exists b1; auto.
    + intros r s e (b1 & Hin & Hs) Hne.
      destruct (In_adel_fate room_eqb rm room r b1 Hin) as [H|[H1 H2]]; [exists b1; auto|].
      assert (b1 = b) by congruence. subst. exfalso.
      assert (Hin' : In (s, e) (adel str_eqb b sid)).
      { apply In_adel_other; auto. apply (eqb_neq _ str_eqb_eq). auto. }
      rewrite Hb' in Hin'. destruct Hin'.
    + intros r s e (b1 & Hin & Hs) Hne. exists b1. split; [|auto]. apply In_adel_other; auto.
    + intros e (b1 & Hin & Hs).
      assert (Hin1 : In (room, b1) rm) by (eapply In_adel; eauto).
      exact (keys_ok_adel_gone room_eqb rm room b1 Hk Hin1 b1 Hin).
  - assert (Hnn : adel str_eqb b sid <> []) by (rewrite Hb'; discriminate).
    rewrite <- Hb' in *. clear Hb' x b'.
    split; [split|split; [|split; [|split]]].
    + eapply keys_ok_aset_some; eauto.
    + intros r b1 Hin. apply In_aset in Hin as [Hin|(-> & _)]; [apply (Hb _ _ Hin)|].
      split; [exact Hnn|apply keys_ok_adel; auto].
    + intros r s e (b1 & Hin & Hs). apply In_aset in Hin as [Hin|(-> & Hcase)]; [exists b1; auto|].
      destruct Hcase as [(v0 & H1 & H2 & _)|[_ Hn]]; [|congruence].
      assert (v0 = b) by congruence. subst. exists b. split; [auto|]. eapply In_adel; eauto.
    + intros r s e (b1 & Hin & Hs) Hne.
      destruct (In_aset_fate room_eqb rm room (adel str_eqb b sid) r b1 Hin) as [H|(H1 & H2 & H3)]; [exists b1; auto|].
      assert (b1 = b) by congruence. subst. exists (adel str_eqb b sid). split; [auto|].
      apply In_adel_other; auto. apply (eqb_neq _ str_eqb_eq). auto.
    + intros r s e (b1 & Hin & Hs) Hne. exists b1. split; [|auto]. apply In_aset_other; auto.
    + intros e (b1 & Hin & Hs).
      assert (Hk' : keys_ok room_eqb (aset room_eqb rm room (adel str_eqb b sid))) by (eapply keys_ok_aset_some; eauto).
      assert (Hin' := Hin).
      apply In_aset in Hin as [Hin|(-> & _)]; [|eapply Hgone; eauto].
      assert (b1 = b) by (apply (keys_ok_aget _ _ _ _ Hk) in Hin; congruence). subst.
      assert (Hnew : In (room, adel str_eqb b sid) (aset room_eqb rm room (adel str_eqb b sid)))
        by (eapply keys_ok_aset_stored; eauto).
      assert (b = adel str_eqb b sid) by (eapply keys_ok_functional; eauto).
      apply (Hgone e). congruence.
Qed.
