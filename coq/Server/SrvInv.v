(* Reachable-state invariant of the server model (Server.v) and its preservation by every
   operation, whatever the handler scripts do.  Proofs only; no definition of the model is
   changed here.

   Layout:
     1. weakest-precondition rules for the state/effect/exception monad
     2. facts about insertion-ordered association lists (aget / aset / adel)
     3. room maps: membership, well-formedness, the invariant of one namespace
     4. manager operations preserve the manager invariant (MInv)
     5. server invariant (Mid: holds even inside handlers; Inv: at operation boundaries)
     6. the handler machinery preserves any predicate that every scripted action preserves
     7. every operation preserves Inv *)
From VT Require Export Server.Server.
From VT Require Import Base.PyStrProofs.
From Coq Require Import Lia.
Open Scope N_scope.

(* ------------------------------------------------------------------------------------ *)
(** * 1. Weakest-precondition rules *)

Definition Post (A : Type) := Res A -> srv -> list eff -> Prop.
Definition hp {A} (s : srv) (m : SM A) (Q : Post A) : Prop :=
  match m s with (s', es, r) => Q r s' es end.

Lemma hp_conseq {A} s (m : SM A) (Q1 Q : Post A) :
  hp s m Q1 -> (forall r s' es, Q1 r s' es -> Q r s' es) -> hp s m Q.
Proof. unfold hp. destruct (m s) as [[s' es] r]. auto. Qed.

Lemma hp_ret {A} s (a : A) (Q : Post A) : Q (Ok a) s [] -> hp s (ret a) Q.
Proof. exact (fun H => H). Qed.
Lemma hp_raise {A} s x (Q : Post A) : Q (Err x) s [] -> hp s (raise x) Q.
Proof. exact (fun H => H). Qed.
Lemma hp_lift {A} s (r : Res A) (Q : Post A) : Q r s [] -> hp s (lift r) Q.
Proof. exact (fun H => H). Qed.
Lemma hp_tell s e (Q : Post unit) : Q (Ok tt) s [e] -> hp s (tell e) Q.
Proof. exact (fun H => H). Qed.
Lemma hp_getS s (Q : Post srv) : Q (Ok s) s [] -> hp s getS Q.
Proof. exact (fun H => H). Qed.
Lemma hp_putS s s' (Q : Post unit) : Q (Ok tt) s' [] -> hp s (putS s') Q.
Proof. exact (fun H => H). Qed.
Lemma hp_modify s f (Q : Post unit) : Q (Ok tt) (f s) [] -> hp s (modify f) Q.
Proof. exact (fun H => H). Qed.

Lemma hp_bind {A B} s (m : SM A) (k : A -> SM B) (Q : Post B) :
  hp s m (fun r s1 e1 => match r with
                         | Ok a => hp s1 (k a) (fun r' s2 e2 => Q r' s2 (e1 ++ e2))
                         | Err x => Q (Err x) s1 e1 end) ->
  hp s (bindM m k) Q.
Proof.
  unfold hp, bindM. destruct (m s) as [[s1 e1] [a|x]]; [|auto].
  destruct (k a s1) as [[s2 e2] r]. auto.
Qed.

Lemma hp_getS_bind {B} s (k : srv -> SM B) (Q : Post B) : hp s (k s) Q -> hp s (bindM getS k) Q.
Proof. unfold hp, bindM, getS. destruct (k s s) as [[s2 e2] r]. auto. Qed.

Lemma hp_catch {A} s (m : SM A) h (Q : Post A) :
  hp s m (fun r s1 e1 => match r with
                         | Ok a => Q (Ok a) s1 e1
                         | Err x => match h x with
                                    | Some k => hp s1 k (fun r' s2 e2 => Q r' s2 (e1 ++ e2))
                                    | None => Q (Err x) s1 e1 end
                         end) ->
  hp s (catch m h) Q.
Proof.
  unfold hp, catch. destruct (m s) as [[s1 e1] [a|x]]; [auto|].
  destruct (h x) as [k|]; [|auto]. destruct (k s1) as [[s2 e2] r]. auto.
Qed.

Lemma hp_contain s (m : SM unit) (Q : Post unit) :
  hp s m (fun _ s1 e1 => Q (Ok tt) s1 e1) -> hp s (contain m) Q.
Proof. unfold hp, contain. destruct (m s) as [[s1 e1] r]. auto. Qed.

Lemma hp_finally {A} s (m : SM A) f (Q : Post A) :
  hp s m (fun r s1 e1 =>
            hp s1 f (fun rf s2 e2 => Q (match rf with Ok _ => r | Err x => Err x end) s2 (e1 ++ e2))) ->
  hp s (finallyM m f) Q.
Proof.
  unfold hp, finallyM. destruct (m s) as [[s1 e1] r].
  destruct (f s1) as [[s2 e2] [u|x]]; auto.
Qed.

Lemma hp_api s (m : SM unit) (Q : Post unit) :
  hp s m (fun r s1 e1 => match r with
                         | Ok _ => Q (Ok tt) s1 e1
                         | Err x => Q (Ok tt) s1 (e1 ++ [Raised x]) end) ->
  hp s (api m) Q.
Proof. unfold hp, api. destruct (m s) as [[s1 e1] [u|x]]; auto. Qed.

(* invariant-style judgement: J is preserved whatever the result, every effect satisfies E *)
Definition pres {A} (J : srv -> Prop) (E : eff -> Prop) (m : SM A) : Prop :=
  forall s, J s -> hp s m (fun _ s' es => J s' /\ Forall E es).

Section Pres.
  Variable J : srv -> Prop.
  Variable E : eff -> Prop.

  Lemma pres_ret {A} (a : A) : pres J E (ret a).
  Proof. intros s H. apply hp_ret. auto. Qed.
  Lemma pres_raise {A} x : pres J E (@raise srv eff A x).
  Proof. intros s H. apply hp_raise. auto. Qed.
  Lemma pres_lift {A} (r : Res A) : pres J E (lift r).
  Proof. intros s H. apply hp_lift. auto. Qed.
  Lemma pres_tell e : E e -> pres J E (tell e).
  Proof. intros He s H. apply hp_tell. auto. Qed.
  Lemma pres_getS : pres J E getS.
  Proof. intros s H. apply hp_getS. auto. Qed.

  Lemma pres_bind {A B} (m : SM A) (k : A -> SM B) :
    pres J E m -> (forall a, pres J E (k a)) -> pres J E (bindM m k).
  Proof.
    intros Hm Hk s H. apply hp_bind. eapply hp_conseq; [apply Hm, H|].
    intros [a|x] s1 e1 [H1 F1]; [|auto].
    eapply hp_conseq; [apply Hk, H1|]. intros r s2 e2 [H2 F2]. split; [auto|apply Forall_app; auto].
  Qed.

  (* the continuation may use that the value read is the current state *)
  Lemma pres_getS_bind {B} (k : srv -> SM B) :
    (forall s, J s -> hp s (k s) (fun _ s' es => J s' /\ Forall E es)) -> pres J E (bindM getS k).
  Proof. intros Hk s H. apply hp_getS_bind. auto. Qed.

  Lemma pres_catch {A} (m : SM A) h :
    pres J E m -> (forall x k, h x = Some k -> pres J E k) -> pres J E (catch m h).
  Proof.
    intros Hm Hh s H. apply hp_catch. eapply hp_conseq; [apply Hm, H|].
    intros [a|x] s1 e1 [H1 F1]; [auto|].
    destruct (h x) as [k|] eqn:Ehx; [|auto].
    eapply hp_conseq; [apply (Hh _ _ Ehx), H1|]. intros r s2 e2 [H2 F2]. split; [auto|apply Forall_app; auto].
  Qed.

  Lemma pres_contain (m : SM unit) : pres J E m -> pres J E (contain m).
  Proof. intros Hm s H. apply hp_contain. eapply hp_conseq; [apply Hm, H|]. auto. Qed.

  Lemma pres_finally {A} (m : SM A) f : pres J E m -> pres J E f -> pres J E (finallyM m f).
  Proof.
    intros Hm Hf s H. apply hp_finally. eapply hp_conseq; [apply Hm, H|].
    intros r s1 e1 [H1 F1]. eapply hp_conseq; [apply Hf, H1|].
    intros rf s2 e2 [H2 F2]. split; [auto|apply Forall_app; auto].
  Qed.

  Lemma pres_api (m : SM unit) : (forall x, E (Raised x)) -> pres J E m -> pres J E (api m).
  Proof.
    intros HE Hm s H. apply hp_api. eapply hp_conseq; [apply Hm, H|].
    intros [u|x] s1 e1 [H1 F1]; split; auto. apply Forall_app; auto.
  Qed.

  Lemma pres_forM {A} (l : list A) (f : A -> SM unit) :
    (forall x, In x l -> pres J E (f x)) -> pres J E (forM l f).
  Proof.
    induction l as [|x l IH]; intros Hf; cbn [forM]; [apply pres_ret|].
    apply pres_bind; [apply Hf; left; reflexivity|]. intros _. apply IH. intros y Hy. apply Hf. right; exact Hy.
  Qed.

  Lemma pres_forM_keep {A} (l : list A) (f : A -> SM unit) first :
    (forall x, In x l -> pres J E (f x)) -> pres J E (forM_keep l f first).
  Proof.
    revert first. induction l as [|x l IH]; intros first Hf; cbn [forM_keep]; [apply pres_ret|].
    intros s H. unfold hp.
    assert (Hx := Hf x (or_introl eq_refl) s H). unfold hp in Hx.
    destruct (f x s) as [[s1 e1] res]. destruct Hx as [H1 F1].
    assert (Hr := IH (match first, res with None, Err e => Some e | _, _ => first end)
                     (fun y Hy => Hf y (or_intror Hy)) s1 H1). unfold hp in Hr.
    destruct (forM_keep l f _ s1) as [[s2 e2] out]. destruct Hr as [H2 F2].
    split; [auto|apply Forall_app; auto].
  Qed.

  Lemma pres_modify f : (forall s, J s -> J (f s)) -> pres J E (modify f).
  Proof. intros Hf s H. apply hp_modify. auto. Qed.
  Lemma pres_putS s' : J s' -> pres J E (putS s').
  Proof. intros Hs s H. apply hp_putS. auto. Qed.
End Pres.

Lemma pres_weaken {A} (J : srv -> Prop) (E E' : eff -> Prop) (m : SM A) :
  (forall e, E e -> E' e) -> pres J E m -> pres J E' m.
Proof.
  intros HE Hm s H. eapply hp_conseq; [apply Hm, H|]. intros r s' es [H1 F1]. split; [auto|].
  eapply Forall_impl; eauto.
Qed.

Definition anyeff : eff -> Prop := fun _ => True.
Lemma Forall_anyeff l : Forall anyeff l.
Proof. apply Forall_forall. intros; exact I. Qed.
(* ------------------------------------------------------------------------------------ *)
(** * 2. Association lists *)

Section AssocFacts.
  Context {K V : Type} (eqb : K -> K -> bool).
  Implicit Types (l : list (K * V)) (k : K) (v : V).

  (* every stored key matches itself and is matched by no earlier key: lookups by a stored
     key find exactly that entry *)
  Fixpoint keys_ok (l : list (K * V)) : Prop :=
    match l with
    | [] => True
    | (k, _) :: r => eqb k k = true /\ (forall k', In k' (map fst r) -> eqb k k' = false) /\ keys_ok r
    end.

  Lemma aget_In l k v : aget eqb l k = Some v -> exists k', In (k', v) l /\ eqb k' k = true.
  Proof.
    induction l as [|[k0 v0] l IH]; cbn [aget]; [discriminate|].
    destruct (eqb k0 k) eqn:Ek.
    - intros [= <-]. exists k0. split; [left; reflexivity|exact Ek].
    - intros H. destruct (IH H) as (k' & Hin & Hk). exists k'. split; [right; exact Hin|exact Hk].
  Qed.

  Lemma aget_None_notin l k : aget eqb l k = None -> forall k' v, In (k', v) l -> eqb k' k = false.
  Proof.
    induction l as [|[k0 v0] l IH]; cbn [aget]; [intros _ k' v []|].
    destruct (eqb k0 k) eqn:Ek; [discriminate|].
    intros H k' v [[= <- <-]|Hin]; [exact Ek|eauto].
  Qed.

  Lemma keys_ok_aget l k v : keys_ok l -> In (k, v) l -> aget eqb l k = Some v.
  Proof.
    induction l as [|[k0 v0] l IH]; cbn [keys_ok aget]; [intros _ []|].
    intros (Hrefl & Hno & Hok) [[= -> ->]|Hin].
    - rewrite Hrefl. reflexivity.
    - rewrite (Hno k) by (apply in_map_iff; exists (k, v); auto). auto.
  Qed.

  Lemma keys_ok_functional l k v1 v2 : keys_ok l -> In (k, v1) l -> In (k, v2) l -> v1 = v2.
  Proof.
    intros Hok H1 H2. apply (keys_ok_aget _ _ _ Hok) in H1. apply (keys_ok_aget _ _ _ Hok) in H2. congruence.
  Qed.

  Lemma aset_same l k v : aget eqb l k = Some v -> aset eqb l k v = l.
  Proof.
    induction l as [|[k0 v0] l IH]; cbn [aget aset]; [discriminate|].
    destruct (eqb k0 k); [intros [= ->]; reflexivity|]. intros H. rewrite IH; auto.
  Qed.

  Lemma aset_none l k v : aget eqb l k = None -> aset eqb l k v = l ++ [(k, v)].
  Proof.
    induction l as [|[k0 v0] l IH]; cbn [aget aset]; [reflexivity|].
    destruct (eqb k0 k); [discriminate|]. intros H. rewrite IH; auto.
  Qed.

  Lemma aset_nonnil l k v : aset eqb l k v <> [].
  Proof. destruct l as [|[k0 v0] l]; cbn [aset]; [discriminate|]. destruct (eqb k0 k); discriminate. Qed.

  (* what an entry of the updated list can be *)
  Lemma In_aset l k v k' v' :
    In (k', v') (aset eqb l k v) ->
    In (k', v') l \/
    (v' = v /\ ((exists v0, In (k', v0) l /\ aget eqb l k = Some v0 /\ eqb k' k = true) \/
                (k' = k /\ aget eqb l k = None))).
  Proof.
    induction l as [|[k0 v0] l IH]; cbn [aget aset].
    - intros [[= <- <-]|[]]. right. split; [reflexivity|]. right. auto.
    - destruct (eqb k0 k) eqn:Ek.
      + intros [[= <- <-]|Hin]; [|left; right; exact Hin].
        right. split; [reflexivity|]. left. exists v0. repeat split; auto. left; reflexivity.
      + intros [[= <- <-]|Hin]; [left; left; reflexivity|].
        destruct (IH Hin) as [H|(-> & [(v1 & H1 & H2 & H3)|(-> & H2)])].
        * left; right; exact H.
        * right. split; [reflexivity|]. left. exists v1. repeat split; auto. right; exact H1.
        * right. split; [reflexivity|]. right. auto.
  Qed.

  Lemma In_aset_keys l k v k' : In k' (map fst (aset eqb l k v)) -> In k' (map fst l) \/ k' = k.
  Proof.
    intros H. apply in_map_iff in H as ([k1 v1] & <- & Hin). cbn [fst].
    apply In_aset in Hin as [H|(-> & [(v0 & H1 & _)|(-> & _)])].
    - left. apply in_map_iff. exists (k1, v1). auto.
    - left. apply in_map_iff. exists (k1, v0). auto.
    - right. reflexivity.
  Qed.

  (* entries whose key does not match survive an update *)
  Lemma In_aset_other l k v k' v' : In (k', v') l -> eqb k' k = false -> In (k', v') (aset eqb l k v).
  Proof.
    induction l as [|[k0 v0] l IH]; cbn [aset]; [intros []|].
    intros [[= -> ->]|Hin] Hk.
    - rewrite Hk. left; reflexivity.
    - destruct (eqb k0 k); [right; exact Hin|right; auto].
  Qed.

  Lemma In_aset_new l k v : exists k', In (k', v) (aset eqb l k v) /\ (k' = k \/ eqb k' k = true).
  Proof.
    induction l as [|[k0 v0] l IH]; cbn [aset].
    - exists k. split; [left; reflexivity|left; reflexivity].
    - destruct (eqb k0 k) eqn:Ek.
      + exists k0. split; [left; reflexivity|right; exact Ek].
      + destruct IH as (k' & H1 & H2). exists k'. split; [right; exact H1|exact H2].
  Qed.

  Lemma In_adel l k x : In x (adel eqb l k) -> In x l.
  Proof.
    induction l as [|[k0 v0] l IH]; cbn [adel]; [intros []|].
    destruct (eqb k0 k); [intros H; right; exact H|]. intros [<-|H]; [left; reflexivity|right; auto].
  Qed.

  Lemma In_adel_keys l k k' : In k' (map fst (adel eqb l k)) -> In k' (map fst l).
  Proof.
    intros H. apply in_map_iff in H as (x & <- & Hin). apply in_map_iff. exists x. split; [reflexivity|].
    eapply In_adel; eauto.
  Qed.

  Lemma In_adel_other l k k' v' : In (k', v') l -> eqb k' k = false -> In (k', v') (adel eqb l k).
  Proof.
    induction l as [|[k0 v0] l IH]; cbn [adel]; [intros []|].
    intros [[= -> ->]|Hin] Hk.
    - rewrite Hk. left; reflexivity.
    - destruct (eqb k0 k); [exact Hin|right; auto].
  Qed.

  Lemma keys_ok_aset l k v : keys_ok l -> eqb k k = true -> keys_ok (aset eqb l k v).
  Proof.
    induction l as [|[k0 v0] l IH]; cbn [keys_ok aset].
    - intros _ Hk. repeat split; auto. intros k' [].
    - intros (Hrefl & Hno & Hok) Hk. destruct (eqb k0 k) eqn:Ek; cbn [keys_ok map fst].
      + repeat split; auto.
      + repeat split; auto. intros k' Hin. apply In_aset_keys in Hin as [Hin| ->]; auto.
  Qed.

  Lemma keys_ok_adel l k : keys_ok l -> keys_ok (adel eqb l k).
  Proof.
    induction l as [|[k0 v0] l IH]; cbn [keys_ok adel]; [auto|].
    intros (Hrefl & Hno & Hok). destruct (eqb k0 k); [exact Hok|]. cbn [keys_ok].
    repeat split; auto. intros k' Hin. apply Hno. eapply In_adel_keys; eauto.
  Qed.

  (* the entry removed / replaced is the one a lookup finds *)
  Lemma keys_ok_adel_gone l k v : keys_ok l -> In (k, v) l -> forall v', ~ In (k, v') (adel eqb l k).
  Proof.
    induction l as [|[k0 v0] l IH]; cbn [keys_ok adel]; [intros _ []|].
    intros (Hrefl & Hno & Hok) [[= -> ->]|Hin] v' Hin'.
    - rewrite Hrefl in Hin'. specialize (Hno k). rewrite Hrefl in Hno.
      assert (true = false); [|discriminate]. apply Hno. apply in_map_iff. exists (k, v'). auto.
    - assert (Ek : eqb k0 k = false) by (apply Hno; apply in_map_iff; exists (k, v); auto).
      rewrite Ek in Hin'. destruct Hin' as [[= -> ->]|Hin'].
      + congruence.
      + eapply IH; eauto.
  Qed.

  (* a lookup by k0 is unaffected by updating / deleting a key that no k0-matching entry matches *)
  Lemma aget_aset_frame l k v k0 :
    (forall k', eqb k' k = true -> eqb k' k0 = false) -> eqb k k0 = false ->
    aget eqb (aset eqb l k v) k0 = aget eqb l k0.
  Proof.
    intros H1 H2. induction l as [|[k1 v1] l IH]; cbn [aget aset].
    - rewrite H2. reflexivity.
    - destruct (eqb k1 k) eqn:Ek; cbn [aget].
      + rewrite (H1 _ Ek). reflexivity.
      + destruct (eqb k1 k0); auto.
  Qed.

  Lemma aget_adel_frame l k k0 :
    (forall k', eqb k' k = true -> eqb k' k0 = false) ->
    aget eqb (adel eqb l k) k0 = aget eqb l k0.
  Proof.
    intros H1. induction l as [|[k1 v1] l IH]; cbn [aget adel]; [reflexivity|].
    destruct (eqb k1 k) eqn:Ek; cbn [aget].
    - rewrite (H1 _ Ek). reflexivity.
    - destruct (eqb k1 k0); auto.
  Qed.
End AssocFacts.

(* keys compared by an equality test that decides Leibniz equality (str_eqb, N.eqb) *)
Section AssocExact.
  Context {K V : Type} (eqb : K -> K -> bool).
  Implicit Types (k : K) (v : V).
  Hypothesis eqb_eq : forall a b, eqb a b = true <-> a = b.

  Lemma eqb_refl' a : eqb a a = true.
  Proof. apply eqb_eq. reflexivity. Qed.
  Lemma eqb_neq a b : a <> b -> eqb a b = false.
  Proof. intros H. destruct (eqb a b) eqn:E; [|reflexivity]. apply eqb_eq in E. contradiction. Qed.

  Lemma xaget_In (l : list (K * V)) k v : aget eqb l k = Some v -> In (k, v) l.
  Proof. intros H. apply aget_In in H as (k' & Hin & Hk). apply eqb_eq in Hk. subst. exact Hin. Qed.

  Lemma xaget_None (l : list (K * V)) k : aget eqb l k = None <-> ~ In k (map fst l).
  Proof.
    split.
    - intros H Hin. apply in_map_iff in Hin as ([k' v] & <- & Hin).
      apply (aget_None_notin _ _ _ H) in Hin. cbn [fst] in Hin. rewrite eqb_refl' in Hin. discriminate.
    - intros H. destruct (aget eqb l k) as [v|] eqn:E; [|reflexivity].
      exfalso. apply H. apply xaget_In in E. apply in_map_iff. exists (k, v). auto.
  Qed.

  Lemma xaget_aset_eq (l : list (K * V)) k v : aget eqb (aset eqb l k v) k = Some v.
  Proof.
    induction l as [|[k0 v0] l IH]; cbn [aget aset].
    - rewrite eqb_refl'. reflexivity.
    - destruct (eqb k0 k) eqn:Ek; cbn [aget]; rewrite Ek; auto.
  Qed.

  Lemma xaget_aset_neq (l : list (K * V)) k v k0 : k0 <> k -> aget eqb (aset eqb l k v) k0 = aget eqb l k0.
  Proof.
    intros Hne. apply aget_aset_frame.
    - intros k' Hk. apply eqb_eq in Hk. subst. apply eqb_neq. auto.
    - apply eqb_neq. auto.
  Qed.

  Lemma xaget_adel_neq (l : list (K * V)) k k0 : k0 <> k -> aget eqb (adel eqb l k) k0 = aget eqb l k0.
  Proof.
    intros Hne. apply aget_adel_frame. intros k' Hk. apply eqb_eq in Hk. subst. apply eqb_neq. auto.
  Qed.

  Lemma xaget_adel_eq (l : list (K * V)) k : keys_ok eqb l -> aget eqb (adel eqb l k) k = None.
  Proof.
    intros Hok. destruct (aget eqb (adel eqb l k) k) as [v'|] eqn:E; [|reflexivity]. exfalso.
    apply xaget_In in E. destruct (aget eqb l k) as [v|] eqn:E2.
    - apply xaget_In in E2. eapply keys_ok_adel_gone; eauto.
    - apply In_adel in E. apply xaget_None in E2. apply E2. apply in_map_iff. exists (k, v'). auto.
  Qed.

  Lemma xkeys_adel (l : list (K * V)) k k' : keys_ok eqb l -> In k' (map fst (adel eqb l k)) -> k' <> k /\ In k' (map fst l).
  Proof.
    intros Hok Hin. split; [|eapply In_adel_keys; eauto].
    intros ->. apply (xaget_adel_eq l k) in Hok. apply xaget_None in Hok. contradiction.
  Qed.

  Lemma xIn_aset (l : list (K * V)) k v k' v' : keys_ok eqb l ->
    In (k', v') (aset eqb l k v) -> (k' = k /\ v' = v) \/ (k' <> k /\ In (k', v') l).
  Proof.
    intros Hok Hin.
    assert (Hok' : keys_ok eqb (aset eqb l k v)) by (apply keys_ok_aset; auto using eqb_refl').
    apply (keys_ok_aget _ _ _ _ Hok') in Hin.
    destruct (eqb k' k) eqn:Ek.
    - apply eqb_eq in Ek. subst. rewrite xaget_aset_eq in Hin. left. split; congruence.
    - assert (k' <> k) by (intros ->; rewrite eqb_refl' in Ek; discriminate).
      rewrite xaget_aset_neq in Hin by auto. right. split; auto. apply xaget_In. auto.
  Qed.

  Lemma xkeys_aset (l : list (K * V)) k v k' : In k' (map fst (aset eqb l k v)) <-> In k' (map fst l) \/ k' = k.
  Proof.
    split; [apply In_aset_keys|].
    intros [H| ->].
    - apply in_map_iff in H as ([k1 v1] & <- & Hin). cbn [fst].
      destruct (eqb k1 k) eqn:Ek.
      + apply eqb_eq in Ek. subst. apply in_map_iff. exists (k, v). split; [reflexivity|].
        apply xaget_In. apply xaget_aset_eq.
      + apply in_map_iff. exists (k1, v1). split; [reflexivity|]. apply In_aset_other; auto.
    - apply in_map_iff. exists (k, v). split; [reflexivity|]. apply xaget_In. apply xaget_aset_eq.
  Qed.

  Lemma xkeys_ok_aset (l : list (K * V)) k v : keys_ok eqb l -> keys_ok eqb (aset eqb l k v).
  Proof. intros. apply keys_ok_aset; auto using eqb_refl'. Qed.

  Lemma xIn_iff_aget (l : list (K * V)) k v : keys_ok eqb l -> (In (k, v) l <-> aget eqb l k = Some v).
  Proof. intros Hok. split; [apply keys_ok_aget; auto|apply xaget_In]. Qed.
End AssocExact.
(* ------------------------------------------------------------------------------------ *)
(** * 3. Room maps *)

Section AssocFacts2.
  Context {K V : Type} (eqb : K -> K -> bool).
  Implicit Types (l : list (K * V)) (k : K) (v : V).

  (* an entry either survives an update or is the one a lookup finds, and is replaced *)
  Lemma In_aset_fate l k v k' v' :
    In (k', v') l ->
    In (k', v') (aset eqb l k v) \/ (aget eqb l k = Some v' /\ eqb k' k = true /\ In (k', v) (aset eqb l k v)).
  Proof.
    induction l as [|[k0 v0] l IH]; cbn [aset aget]; [intros []|].
    intros [[= -> ->]|Hin].
    - destruct (eqb k' k) eqn:Ek; [right; repeat split; auto; left; reflexivity|left; left; reflexivity].
    - destruct (eqb k0 k) eqn:Ek; [left; right; exact Hin|].
      destruct (IH Hin) as [H|(H1 & H2 & H3)]; [left; right; exact H|right; repeat split; auto; right; exact H3].
  Qed.

  Lemma In_adel_fate l k k' v' :
    In (k', v') l -> In (k', v') (adel eqb l k) \/ (aget eqb l k = Some v' /\ eqb k' k = true).
  Proof.
    induction l as [|[k0 v0] l IH]; cbn [adel aget]; [intros []|].
    intros [[= -> ->]|Hin].
    - destruct (eqb k' k) eqn:Ek; [right; auto|left; left; reflexivity].
    - destruct (eqb k0 k) eqn:Ek; [left; exact Hin|].
      destruct (IH Hin) as [H|H]; [left; right; exact H|right; exact H].
  Qed.

  (* a stored key is found by its own lookup, so the replaced entry keeps that very key *)
  Lemma keys_ok_aset_stored l k v v0 : keys_ok eqb l -> In (k, v0) l -> In (k, v) (aset eqb l k v).
  Proof.
    induction l as [|[k1 v1] l IH]; cbn [keys_ok aset]; [intros _ []|].
    intros (Hrefl & Hno & Hok) [[= -> ->]|Hin].
    - rewrite Hrefl. left; reflexivity.
    - rewrite (Hno k) by (apply in_map_iff; exists (k, v0); auto). right; auto.
  Qed.

  Lemma aset_keys_some l k v v0 : aget eqb l k = Some v0 -> map fst (aset eqb l k v) = map fst l.
  Proof.
    induction l as [|[k1 v1] l IH]; cbn [aget aset]; [discriminate|].
    destruct (eqb k1 k); cbn [map fst]; [reflexivity|]. intros H. rewrite IH; auto.
  Qed.

  Lemma keys_ok_ext l l' : map fst l = map fst l' -> keys_ok eqb l -> keys_ok eqb l'.
  Proof.
    revert l'. induction l as [|[k1 v1] l IH]; intros [|[k2 v2] l']; cbn [map fst keys_ok]; try discriminate; auto.
    intros [= -> Hm] (H1 & H2 & H3). rewrite <- Hm. repeat split; auto.
  Qed.

  Lemma keys_ok_aset_some l k v v0 : keys_ok eqb l -> aget eqb l k = Some v0 -> keys_ok eqb (aset eqb l k v).
  Proof. intros Hok Hget. eapply keys_ok_ext; [symmetry; eapply aset_keys_some; eauto|exact Hok]. Qed.
End AssocFacts2.

Lemma py_eq_none_l x : py_eq PNone x = true -> x = PNone.
Proof. destruct x; cbn; intros H; try discriminate; reflexivity. Qed.
Lemma py_eq_none_r x : py_eq x PNone = true -> x = PNone.
Proof. destruct x; cbn; intros H; try discriminate; try reflexivity; destruct b; discriminate. Qed.
Lemma room_eqb_none_refl : room_eqb PNone PNone = true.
Proof. reflexivity. Qed.
Lemma room_eqb_none_frame room : room <> PNone -> forall k', room_eqb k' room = true -> room_eqb k' PNone = false.
Proof.
  intros Hne k' Hk. destruct (room_eqb k' PNone) eqn:E; [|reflexivity].
  apply py_eq_none_r in E. subst. apply py_eq_none_l in Hk. contradiction.
Qed.
Lemma room_neq_none room : room <> PNone -> room_eqb room PNone = false.
Proof. intros Hne. destruct (room_eqb room PNone) eqn:E; [|reflexivity]. apply py_eq_none_r in E. contradiction. Qed.

Definition str_eqb_spec := str_eqb_eq.

(* bidicts *)
Lemma bd_inv_In b e s : bd_inv b e = Some s -> In (s, e) b.
Proof.
  induction b as [|[s0 e0] b IH]; cbn [bd_inv]; [discriminate|].
  destruct (str_eqb e0 e) eqn:Ee.
  - apply str_eqb_eq in Ee. subst. intros [= ->]. left; reflexivity.
  - intros H. right; auto.
Qed.
Lemma bd_inv_None b e : bd_inv b e = None -> forall s, ~ In (s, e) b.
Proof.
  induction b as [|[s0 e0] b IH]; cbn [bd_inv]; [intros _ s []|].
  destruct (str_eqb e0 e) eqn:Ee; [discriminate|].
  intros H s [[= -> ->]|Hin]; [rewrite str_eqb_refl in Ee; discriminate|]. eapply IH; eauto.
Qed.
Lemma bd_inv_some b e s : In (s, e) b -> exists s', bd_inv b e = Some s'.
Proof.
  intros Hin. destruct (bd_inv b e) as [s'|] eqn:E; [eauto|]. exfalso. eapply bd_inv_None; eauto.
Qed.

(* membership of (sid, eio) in room [room] of a namespace's room map (stored key = room) *)
Definition rmem (rm : roommap) (room : pv) (sid eio : str) : Prop :=
  exists b, In (room, b) rm /\ In (sid, eio) b.
Definition RmWf (rm : roommap) : Prop :=
  keys_ok room_eqb rm /\ forall room b, In (room, b) rm -> b <> [] /\ keys_ok str_eqb b.

Lemma rmem_none_iff rm sid eio : RmWf rm ->
  (rmem rm PNone sid eio <-> exists b0, aget room_eqb rm PNone = Some b0 /\ bd_get b0 sid = Some eio).
Proof.
  intros [Hk Hb]. split.
  - intros (b & Hin & Hs). exists b. split; [apply keys_ok_aget; auto|].
    apply keys_ok_aget; auto. apply (Hb _ _ Hin).
  - intros (b0 & H1 & H2). apply aget_In in H1 as (k' & Hin & Hk'). apply py_eq_none_r in Hk'. subst.
    exists b0. split; [auto|]. apply (xaget_In _ str_eqb_eq) in H2. exact H2.
Qed.

Lemma RmWf_nil : RmWf [].
Proof. split; [exact I|intros ? ? []]. Qed.

(* adding (sid, eio) to the bidict of [room], creating the room if necessary *)
Lemma rmem_put rm room b sid eio :
  RmWf rm -> room_eqb room room = true ->
  (aget room_eqb rm room = Some b \/ (aget room_eqb rm room = None /\ b = [])) ->
  let rm' := aset room_eqb rm room (aset str_eqb b sid eio) in
  RmWf rm' /\
  (forall r s e, rmem rm' r s e ->
                 rmem rm r s e \/ (s = sid /\ e = eio /\ (r = room \/ room_eqb r room = true))) /\
  (forall r s e, rmem rm r s e -> s <> sid -> rmem rm' r s e) /\
  (forall r s e, rmem rm r s e -> room_eqb r room = false -> rmem rm' r s e) /\
  (exists r, (r = room \/ room_eqb r room = true) /\ rmem rm' r sid eio).
Proof.
  intros [Hk Hb] Hrefl Hget rm'.
  assert (Hkb : keys_ok str_eqb b).
  { destruct Hget as [Hget|[_ ->]]; [|exact I]. apply aget_In in Hget as (k' & Hin & _). apply (Hb _ _ Hin). }
  split; [split|split; [|split; [|split]]].
  - apply keys_ok_aset; auto.
  - intros r b1 Hin. apply In_aset in Hin as [Hin|(-> & _)]; [apply (Hb _ _ Hin)|].
    split; [apply aset_nonnil|apply (xkeys_ok_aset _ str_eqb_eq); auto].
  - intros r s e (b1 & Hin & Hs). apply In_aset in Hin as [Hin|(-> & Hcase)]; [left; exists b1; auto|].
    apply (xIn_aset _ str_eqb_eq) in Hs as [[-> ->]|[Hne Hs]]; auto.
    + right. repeat split; auto. destruct Hcase as [(v0 & _ & _ & H)|[-> _]]; auto.
    + left. destruct Hcase as [(v0 & H1 & H2 & _)|[_ Hn]].
      * destruct Hget as [Hget|[Hget _]]; [|congruence]. assert (v0 = b) by congruence. subst. exists b; auto.
      * destruct Hget as [Hget|[_ ->]]; [congruence|destruct Hs].
  - intros r s e (b1 & Hin & Hs) Hne.
    destruct (In_aset_fate room_eqb rm room (aset str_eqb b sid eio) r b1 Hin) as [H|(H1 & H2 & H3)].
    + exists b1; auto.
    + destruct Hget as [Hget|[Hget _]]; [|congruence]. assert (b1 = b) by congruence. subst.
      exists (aset str_eqb b sid eio). split; [auto|]. apply In_aset_other; auto.
      apply (eqb_neq _ str_eqb_eq). auto.
  - intros r s e (b1 & Hin & Hs) Hne. exists b1. split; [|auto]. apply In_aset_other; auto.
  - destruct (In_aset_new room_eqb rm room (aset str_eqb b sid eio)) as (k' & H1 & H2).
    exists k'. split; [auto|]. exists (aset str_eqb b sid eio). split; [auto|].
    apply (xaget_In _ str_eqb_eq). apply (xaget_aset_eq _ str_eqb_eq).
Qed.

(* the room-map part of basic_leave_room; None = nothing to do *)
Definition rm_leave (rm : roommap) (sid : str) (room : pv) : option roommap :=
  match aget room_eqb rm room with
  | None => None
  | Some b =>
      match bd_get b sid with
      | None => None
      | Some _ =>
          let b' := adel str_eqb b sid in
          Some (match b' with [] => adel room_eqb rm room | _ => aset room_eqb rm room b' end)
      end
  end.

Lemma rm_leave_spec rm sid room rm' :
  RmWf rm -> rm_leave rm sid room = Some rm' ->
  RmWf rm' /\
  (forall r s e, rmem rm' r s e -> rmem rm r s e) /\
  (forall r s e, rmem rm r s e -> s <> sid -> rmem rm' r s e) /\
  (forall r s e, rmem rm r s e -> room_eqb r room = false -> rmem rm' r s e) /\
  (forall e, ~ rmem rm' room sid e).
Proof.
  intros [Hk Hb]. unfold rm_leave.
  destruct (aget room_eqb rm room) as [b|] eqn:Hget; [|discriminate].
  destruct (bd_get b sid) as [e0|] eqn:Hsid; [|discriminate].
  intros [= <-].
  destruct (aget_In _ _ _ _ Hget) as (k0 & Hin0 & Hk0).
  destruct (Hb _ _ Hin0) as [Hbne Hkb].
  assert (Hgone : forall e, ~ In (sid, e) (adel str_eqb b sid)).
  { apply (xaget_In _ str_eqb_eq) in Hsid. eapply keys_ok_adel_gone; eauto. }
  destruct (adel str_eqb b sid) as [|x b'] eqn:Hb'.
  - (* the room is removed *)
    split; [split|split; [|split; [|split]]].
    + apply keys_ok_adel; auto.
    + intros r b1 Hin. apply In_adel in Hin. apply (Hb _ _ Hin).
    + intros r s e (b1 & Hin & Hs). apply In_adel in Hin. exists b1; auto.
    + intros r s e (b1 & Hin & Hs) Hne.
      destruct (In_adel_fate room_eqb rm room r b1 Hin) as [H|[H1 H2]]; [exists b1; auto|].
      assert (b1 = b) by congruence. subst. exfalso.
      assert (Hin' : In (s, e) (adel str_eqb b sid)).
      { apply In_adel_other; auto. apply (eqb_neq _ str_eqb_eq). auto. }
      rewrite Hb' in Hin'. destruct Hin'.
    + intros r s e (b1 & Hin & Hs) Hne. exists b1. split; [|auto]. apply In_adel_other; auto.
    + intros e (b1 & Hin & Hs).
      assert (Hin1 : In (room, b1) rm) by (eapply In_adel; eauto).
      exact (keys_ok_adel_gone room_eqb rm room b1 Hk Hin1 b1 Hin).
  - assert (Hnn : adel str_eqb b sid <> []) by (rewrite Hb'; discriminate).
    rewrite <- Hb' in *. clear Hb' x b'.
    split; [split|split; [|split; [|split]]].
    + eapply keys_ok_aset_some; eauto.
    + intros r b1 Hin. apply In_aset in Hin as [Hin|(-> & _)]; [apply (Hb _ _ Hin)|].
      split; [exact Hnn|apply keys_ok_adel; auto].
    + intros r s e (b1 & Hin & Hs). apply In_aset in Hin as [Hin|(-> & Hcase)]; [exists b1; auto|].
      destruct Hcase as [(v0 & H1 & H2 & _)|[_ Hn]]; [|congruence].
      assert (v0 = b) by congruence. subst. exists b. split; [auto|]. eapply In_adel; eauto.
    + intros r s e (b1 & Hin & Hs) Hne.
      destruct (In_aset_fate room_eqb rm room (adel str_eqb b sid) r b1 Hin) as [H|(H1 & H2 & H3)]; [exists b1; auto|].
      assert (b1 = b) by congruence. subst. exists (adel str_eqb b sid). split; [auto|].
      apply In_adel_other; auto. apply (eqb_neq _ str_eqb_eq). auto.
    + intros r s e (b1 & Hin & Hs) Hne. exists b1. split; [|auto]. apply In_aset_other; auto.
    + intros e (b1 & Hin & Hs).
      assert (Hk' : keys_ok room_eqb (aset room_eqb rm room (adel str_eqb b sid))) by (eapply keys_ok_aset_some; eauto).
      assert (Hin' := Hin).
      apply In_aset in Hin as [Hin|(-> & _)]; [|eapply Hgone; eauto].
      assert (b1 = b) by (apply (keys_ok_aget _ _ _ _ Hk) in Hin; congruence). subst.
      assert (Hnew : In (room, adel str_eqb b sid) (aset room_eqb rm room (adel str_eqb b sid)))
        by (eapply keys_ok_aset_stored; eauto).
      assert (b = adel str_eqb b sid) by (eapply keys_ok_functional; eauto).
      apply (Hgone e). congruence.
Qed.
(* ------------------------------------------------------------------------------------ *)
(** * 4. The manager invariant *)

(* invariant of the room map of one namespace *)
Record RmInv (lv : list str) (fr : N) (rm : roommap) : Prop := mkRmInv {
  ri_wf : RmWf rm;
  ri_ne : rm <> [];
  (* every member of any room is a member of the namespace (room None) with the same transport *)
  ri_sub : forall room sid eio, rmem rm room sid eio -> rmem rm PNone sid eio;
  (* one session id per transport in a namespace *)
  ri_inj : forall s1 s2 e, rmem rm PNone s1 e -> rmem rm PNone s2 e -> s1 = s2;
  ri_live : forall room sid eio, rmem rm room sid eio -> In eio lv;
  ri_fresh : forall room sid eio, rmem rm room sid eio -> exists k, k < fr /\ sid = sid_name k
}.

Record MInv (lv : list str) (fr : N) (m : mgr) : Prop := mkMInv {
  mi_keys : keys_ok str_eqb (rooms m);
  mi_ns : forall ns rm, ns_rooms m ns = Some rm -> ns <> [] /\ RmInv lv fr rm;
  mi_cbkeys : keys_ok str_eqb (callbacks m);
  mi_cb : forall sid, In sid (map fst (callbacks m)) ->
                      exists ns rm e, ns_rooms m ns = Some rm /\ rmem rm PNone sid e
}.

Lemma MInv_init lv fr : MInv lv fr mgr_init.
Proof. split; cbn; auto; try discriminate. intros sid []. Qed.

Lemma RmInv_mono lv lv' fr fr' rm :
  (forall e, In e lv -> In e lv') -> fr <= fr' -> RmInv lv fr rm -> RmInv lv' fr' rm.
Proof.
  intros Hl Hf [H1 H2 H3 H4 H5 H6]. split; auto.
  - intros room sid eio H. apply Hl. eauto.
  - intros room sid eio H. destruct (H6 _ _ _ H) as (k & Hk & ->). exists k. split; [lia|reflexivity].
Qed.

Lemma MInv_mono lv lv' fr fr' m :
  (forall e, In e lv -> In e lv') -> fr <= fr' -> MInv lv fr m -> MInv lv' fr' m.
Proof.
  intros Hl Hf [H1 H2 H3 H4]. split; auto.
  intros ns rm H. destruct (H2 _ _ H). split; [auto|]. eapply RmInv_mono; eauto.
Qed.

Lemma MInv_ext lv fr m m' : rooms m' = rooms m -> callbacks m' = callbacks m -> MInv lv fr m -> MInv lv fr m'.
Proof.
  intros Hr Hc [H1 H2 H3 H4]. unfold ns_rooms in *. split; unfold ns_rooms; rewrite ?Hr, ?Hc; auto.
Qed.

(* replace the room map of one namespace; an empty room map removes the namespace *)
Definition ns_put (m : mgr) (ns : str) (rm' : roommap) : mgr :=
  match rm' with
  | [] => set_rooms m (adel str_eqb (rooms m) ns)
  | _ :: _ => set_rooms m (aset str_eqb (rooms m) ns rm')
  end.

Lemma ns_put_nonnil m ns rm' : rm' <> [] -> ns_put m ns rm' = set_rooms m (aset str_eqb (rooms m) ns rm').
Proof. destruct rm'; [contradiction|reflexivity]. Qed.

Lemma set_rooms_same m : set_rooms m (rooms m) = m.
Proof. destruct m; reflexivity. Qed.

Lemma ns_put_same m ns rm : ns_rooms m ns = Some rm -> rm <> [] -> ns_put m ns rm = m.
Proof.
  intros H Hne. rewrite ns_put_nonnil by auto. unfold ns_rooms in H. rewrite (aset_same _ _ _ _ H).
  apply set_rooms_same.
Qed.

Lemma ns_put_pending m ns rm' : pending (ns_put m ns rm') = pending m.
Proof. destruct rm'; reflexivity. Qed.
Lemma ns_put_callbacks m ns rm' : callbacks (ns_put m ns rm') = callbacks m.
Proof. destruct rm'; reflexivity. Qed.

Lemma ns_rooms_ns_put m ns rm' ns0 : keys_ok str_eqb (rooms m) ->
  ns_rooms (ns_put m ns rm') ns0 =
  if str_eqb ns0 ns then (match rm' with [] => None | _ :: _ => Some rm' end) else ns_rooms m ns0.
Proof.
  intros Hk. unfold ns_rooms. destruct (str_eqb ns0 ns) eqn:E.
  - apply str_eqb_eq in E. subst. destruct rm'; cbn [ns_put set_rooms rooms].
    + apply (xaget_adel_eq _ str_eqb_eq). exact Hk.
    + apply (xaget_aset_eq _ str_eqb_eq).
  - assert (ns0 <> ns) by (intros ->; rewrite str_eqb_refl in E; discriminate).
    destruct rm'; cbn [ns_put set_rooms rooms].
    + apply (xaget_adel_neq _ str_eqb_eq). auto.
    + apply (xaget_aset_neq _ str_eqb_eq). auto.
Qed.

Lemma keys_ok_ns_put m ns rm' : keys_ok str_eqb (rooms m) -> keys_ok str_eqb (rooms (ns_put m ns rm')).
Proof.
  intros Hk. destruct rm'; cbn [ns_put set_rooms rooms].
  - apply keys_ok_adel; auto.
  - apply (xkeys_ok_aset _ str_eqb_eq); auto.
Qed.

Lemma ns_put_ns_put m ns rm1 rm2 : rm1 <> [] -> ns_put (ns_put m ns rm1) ns rm2 = ns_put m ns rm2.
Proof.
  intros Hne.
  assert (Ha : forall (l : list (str * roommap)) v1 v2, aset str_eqb (aset str_eqb l ns v1) ns v2 = aset str_eqb l ns v2).
  { induction l as [|[k v] l IH]; intros; cbn [aset].
    - rewrite str_eqb_refl. reflexivity.
    - destruct (str_eqb k ns) eqn:E; cbn [aset]; rewrite E; [reflexivity|]. rewrite IH. reflexivity. }
  assert (Hd : forall (l : list (str * roommap)) v1, adel str_eqb (aset str_eqb l ns v1) ns = adel str_eqb l ns).
  { induction l as [|[k v] l IH]; intros; cbn [aset adel].
    - rewrite str_eqb_refl. reflexivity.
    - destruct (str_eqb k ns) eqn:E; cbn [adel]; rewrite E; [reflexivity|]. rewrite IH. reflexivity. }
  destruct m as [r p c]. destruct rm1; [contradiction|].
  destruct rm2; unfold ns_put, set_rooms; cbn [rooms pending callbacks]; rewrite ?Ha, ?Hd; reflexivity.
Qed.

Lemma MInv_ns_put lv fr m ns rm' :
  MInv lv fr m -> ns <> [] -> (rm' = [] \/ RmInv lv fr rm') ->
  (forall sid rm e, In sid (map fst (callbacks m)) -> ns_rooms m ns = Some rm -> rmem rm PNone sid e ->
                    exists e', rmem rm' PNone sid e') ->
  MInv lv fr (ns_put m ns rm').
Proof.
  intros [H1 H2 H3 H4] Hns Hrm Hcb. split.
  - apply keys_ok_ns_put; auto.
  - intros ns0 rm0. rewrite ns_rooms_ns_put by auto. destruct (str_eqb ns0 ns) eqn:E.
    + apply str_eqb_eq in E. subst. destruct rm' as [|x rm']; [discriminate|]. intros [= <-].
      split; [auto|]. destruct Hrm as [Hrm|Hrm]; [discriminate|auto].
    + apply H2.
  - rewrite ns_put_callbacks. auto.
  - intros sid. rewrite ns_put_callbacks. intros Hin.
    destruct (H4 _ Hin) as (ns1 & rm1 & e & Hn1 & Hm1).
    destruct (str_eqb ns1 ns) eqn:E.
    + apply str_eqb_eq in E. subst. destruct (Hcb _ _ _ Hin Hn1 Hm1) as (e' & He').
      exists ns, rm', e'. split; [|auto]. rewrite ns_rooms_ns_put by auto. rewrite str_eqb_refl.
      destruct rm'; [destruct He' as (b & [] & _)|reflexivity].
    + exists ns1, rm1, e. split; [|auto]. rewrite ns_rooms_ns_put by auto. rewrite E. auto.
Qed.

(* ---- leave_room ---- *)
Lemma leave_room_eq m sid ns room :
  leave_room m sid ns room =
  match ns_rooms m ns with
  | None => m
  | Some rm => match rm_leave rm sid room with None => m | Some rm' => ns_put m ns rm' end
  end.
Proof.
  unfold leave_room, rm_leave, ns_put. destruct (ns_rooms m ns) as [rm|]; [|reflexivity].
  destruct (aget room_eqb rm room) as [b|]; [|reflexivity].
  destruct (bd_get b sid); [|reflexivity]. reflexivity.
Qed.

Lemma leave_room_pending m sid ns room : pending (leave_room m sid ns room) = pending m.
Proof.
  rewrite leave_room_eq. destruct (ns_rooms m ns); [|reflexivity].
  destruct (rm_leave _ _ _); [apply ns_put_pending|reflexivity].
Qed.
Lemma leave_room_callbacks m sid ns room : callbacks (leave_room m sid ns room) = callbacks m.
Proof.
  rewrite leave_room_eq. destruct (ns_rooms m ns); [|reflexivity].
  destruct (rm_leave _ _ _); [apply ns_put_callbacks|reflexivity].
Qed.

Lemma rm_leave_none_room rm sid room rm' :
  rm_leave rm sid room = Some rm' -> room <> PNone -> aget room_eqb rm' PNone = aget room_eqb rm PNone.
Proof.
  unfold rm_leave. destruct (aget room_eqb rm room) as [b|]; [|discriminate].
  destruct (bd_get b sid); [|discriminate]. intros [= <-] Hne.
  destruct (adel str_eqb b sid).
  - apply aget_adel_frame. apply room_eqb_none_frame. auto.
  - apply aget_aset_frame; [apply room_eqb_none_frame; auto|apply room_neq_none; auto].
Qed.

Lemma RmInv_some_member lv fr rm : RmInv lv fr rm -> exists s e, rmem rm PNone s e.
Proof.
  intros H. destruct (ri_wf _ _ _ H) as [_ Hb].
  destruct rm as [|[r b] rm']; [destruct (ri_ne _ _ _ H); reflexivity|].
  destruct (Hb r b (or_introl eq_refl)) as [Hbne _].
  destruct b as [|[s e] b]; [contradiction|]. exists s, e. apply (ri_sub _ _ _ H r).
  exists ((s, e) :: b). split; left; reflexivity.
Qed.

Lemma rmem_nonnil rm r s e : rmem rm r s e -> rm <> [].
Proof. intros (b & Hin & _) ->. destruct Hin. Qed.

Lemma RmInv_leave lv fr rm sid room rm' :
  RmInv lv fr rm -> room <> PNone -> rm_leave rm sid room = Some rm' -> RmInv lv fr rm'.
Proof.
  intros H Hne Hl. destruct (rm_leave_spec _ _ _ _ (ri_wf _ _ _ H) Hl) as (Hwf & Hshr & _ & Hfr & _).
  assert (Hnone : forall s e, rmem rm PNone s e -> rmem rm' PNone s e).
  { intros s e Hm. apply Hfr; auto. destruct (room_eqb PNone room) eqn:E; [|reflexivity].
    apply py_eq_none_l in E. contradiction. }
  split; auto.
  - destruct (RmInv_some_member _ _ _ H) as (s & e & Hm). eapply rmem_nonnil; eauto.
  - intros r s e Hm. apply Hnone. eapply ri_sub; eauto.
  - intros s1 s2 e Hm1 Hm2. eapply ri_inj; eauto.
  - intros r s e Hm. eapply ri_live; eauto.
  - intros r s e Hm. eapply ri_fresh; eauto.
Qed.

Lemma MInv_leave_room lv fr m sid ns room :
  MInv lv fr m -> room <> PNone -> MInv lv fr (leave_room m sid ns room).
Proof.
  intros H Hne. rewrite leave_room_eq. destruct (ns_rooms m ns) as [rm|] eqn:Hns; [|auto].
  destruct (rm_leave rm sid room) as [rm'|] eqn:Hl; [|auto].
  destruct (mi_ns _ _ _ H _ _ Hns) as [Hnsne Hrm].
  apply MInv_ns_put; auto.
  - right. eapply RmInv_leave; eauto.
  - intros sid0 rm0 e _ Hns0 Hm. assert (rm0 = rm) by congruence. subst. exists e.
    destruct (rm_leave_spec _ _ _ _ (ri_wf _ _ _ Hrm) Hl) as (_ & _ & _ & Hfr & _).
    apply Hfr; auto. destruct (room_eqb PNone room) eqn:E; [|reflexivity].
    apply py_eq_none_l in E. contradiction.
Qed.

Definition nroom (m : mgr) (ns : str) : option bidict := room_of m ns PNone.

Lemma leave_room_nroom m sid ns room ns0 :
  keys_ok str_eqb (rooms m) -> room <> PNone -> nroom (leave_room m sid ns room) ns0 = nroom m ns0.
Proof.
  intros Hk Hne. rewrite leave_room_eq. destruct (ns_rooms m ns) as [rm|] eqn:Hns; [|reflexivity].
  destruct (rm_leave rm sid room) as [rm'|] eqn:Hl; [|reflexivity].
  unfold nroom, room_of. rewrite ns_rooms_ns_put by auto.
  destruct (str_eqb ns0 ns) eqn:E; [|reflexivity]. apply str_eqb_eq in E. subst. rewrite Hns.
  rewrite <- (rm_leave_none_room _ _ _ _ Hl Hne). destruct rm'; reflexivity.
Qed.

(* ---- basic_disconnect: leave every room, forget callbacks and the pending mark ---- *)
Definition rm_leave' (rm : roommap) (sid : str) (room : pv) : roommap :=
  match rm_leave rm sid room with Some rm' => rm' | None => rm end.
Definition rm_leave_all (rm : roommap) (sid : str) (names : list pv) : roommap :=
  fold_left (fun rm r => rm_leave' rm sid r) names rm.

Lemma fold_leave_none m sid ns names :
  ns_rooms m ns = None -> fold_left (fun m r => leave_room m sid ns r) names m = m.
Proof.
  intros H. induction names as [|r names IH]; cbn [fold_left]; [reflexivity|].
  rewrite leave_room_eq, H. exact IH.
Qed.

Lemma rm_leave_all_nil sid names : rm_leave_all [] sid names = [].
Proof. induction names as [|r names IH]; cbn [rm_leave_all fold_left]; [reflexivity|]. exact IH. Qed.

Lemma rm_leave_all_cons rm sid r names :
  rm_leave_all rm sid (r :: names) = rm_leave_all (rm_leave' rm sid r) sid names.
Proof. reflexivity. Qed.

Lemma fold_leave_eq sid ns names : forall m rm,
  keys_ok str_eqb (rooms m) -> ns_rooms m ns = Some rm -> rm <> [] ->
  fold_left (fun m r => leave_room m sid ns r) names m = ns_put m ns (rm_leave_all rm sid names).
Proof.
  induction names as [|r names IH]; intros m rm Hk Hns Hne.
  - symmetry. apply ns_put_same; auto.
  - cbn [fold_left]. rewrite rm_leave_all_cons.
    rewrite leave_room_eq, Hns. unfold rm_leave'. destruct (rm_leave rm sid r) as [rm1|] eqn:Hl.
    + destruct rm1 as [|x rm1].
      * rewrite fold_leave_none.
        -- rewrite rm_leave_all_nil. reflexivity.
        -- rewrite ns_rooms_ns_put by auto. rewrite str_eqb_refl. reflexivity.
      * rewrite (IH (ns_put m ns (x :: rm1)) (x :: rm1)).
        -- apply ns_put_ns_put. discriminate.
        -- apply keys_ok_ns_put; auto.
        -- rewrite ns_rooms_ns_put by auto. rewrite str_eqb_refl. reflexivity.
        -- discriminate.
    + apply IH; auto.
Qed.

Lemma rm_leave_none rm sid room : RmWf rm -> rm_leave rm sid room = None -> forall e, ~ rmem rm room sid e.
Proof.
  intros [Hk Hb] Hl e (b & Hin & Hs). unfold rm_leave in Hl.
  rewrite (keys_ok_aget _ _ _ _ Hk Hin) in Hl.
  destruct (Hb _ _ Hin) as [_ Hkb]. unfold bd_get in Hl. rewrite (keys_ok_aget _ _ _ _ Hkb Hs) in Hl. discriminate.
Qed.

Lemma rm_leave_all_spec sid names : forall rm, RmWf rm ->
  let rmf := rm_leave_all rm sid names in
  RmWf rmf /\
  (forall r s e, rmem rmf r s e -> rmem rm r s e) /\
  (forall r s e, rmem rm r s e -> s <> sid -> rmem rmf r s e) /\
  (forall r e, In r names -> ~ rmem rmf r sid e).
Proof.
  induction names as [|r0 names IH]; intros rm Hwf.
  - cbn. split; [auto|split; [auto|split; [auto|intros r e []]]].
  - rewrite rm_leave_all_cons. assert (H1 : RmWf (rm_leave' rm sid r0) /\
                 (forall r s e, rmem (rm_leave' rm sid r0) r s e -> rmem rm r s e) /\
                 (forall r s e, rmem rm r s e -> s <> sid -> rmem (rm_leave' rm sid r0) r s e) /\
                 (forall e, ~ rmem (rm_leave' rm sid r0) r0 sid e)).
    { unfold rm_leave'. destruct (rm_leave rm sid r0) as [rm1|] eqn:Hl.
      - destruct (rm_leave_spec _ _ _ _ Hwf Hl) as (A & B & C & _ & D). auto.
      - split; [auto|split; [auto|split; [auto|apply rm_leave_none; auto]]]. }
    destruct H1 as (A & B & C & D). destruct (IH _ A) as (A' & B' & C' & D').
    split; [auto|split; [auto|split; [auto|]]].
    intros r e [<-|Hin]; [|auto]. intros Hm. apply (D e). auto.
Qed.

Definition rooms_with (rm : roommap) (sid : str) : list pv :=
  map fst (filter (fun rb => match bd_get (snd rb) sid with Some _ => true | None => false end) rm).

Lemma rooms_with_complete rm sid r e : RmWf rm -> rmem rm r sid e -> In r (rooms_with rm sid).
Proof.
  intros [Hk Hb] (b & Hin & Hs). unfold rooms_with. apply in_map_iff. exists (r, b). split; [reflexivity|].
  apply filter_In. split; [auto|]. cbn [snd]. destruct (Hb _ _ Hin) as [_ Hkb].
  unfold bd_get. rewrite (keys_ok_aget _ _ _ _ Hkb Hs). reflexivity.
Qed.

Lemma rm_purge_spec rm sid : RmWf rm ->
  let rmf := rm_leave_all rm sid (rooms_with rm sid) in
  RmWf rmf /\
  (forall r s e, rmem rmf r s e -> rmem rm r s e /\ s <> sid) /\
  (forall r s e, rmem rm r s e -> s <> sid -> rmem rmf r s e).
Proof.
  intros Hwf rmf. destruct (rm_leave_all_spec sid (rooms_with rm sid) rm Hwf) as (A & B & C & D).
  fold rmf in A, B, C, D. split; [auto|split; [|auto]].
  intros r s e Hm. split; [auto|]. intros ->. apply (D r e); auto. eapply rooms_with_complete; eauto.
Qed.

Lemma RmInv_purge lv fr rm sid :
  RmInv lv fr rm -> let rmf := rm_leave_all rm sid (rooms_with rm sid) in rmf = [] \/ RmInv lv fr rmf.
Proof.
  intros H rmf. destruct (rm_purge_spec rm sid (ri_wf _ _ _ H)) as (A & B & C). fold rmf in A, B, C.
  destruct rmf as [|x rmf'] eqn:E; [left; reflexivity|right]. rewrite <- E in *. split; auto.
  - rewrite E. discriminate.
  - intros r s e Hm. destruct (B _ _ _ Hm) as [Hm0 Hne]. apply C; auto. eapply ri_sub; eauto.
  - intros s1 s2 e Hm1 Hm2. destruct (B _ _ _ Hm1), (B _ _ _ Hm2). eapply ri_inj; eauto.
  - intros r s e Hm. destruct (B _ _ _ Hm). eapply ri_live; eauto.
  - intros r s e Hm. destruct (B _ _ _ Hm). eapply ri_fresh; eauto.
Qed.

Lemma fold_leave_pending sid ns names : forall m,
  pending (fold_left (fun m r => leave_room m sid ns r) names m) = pending m.
Proof. induction names as [|r names IH]; intros m; cbn [fold_left]; [reflexivity|]. rewrite IH. apply leave_room_pending. Qed.
Lemma fold_leave_callbacks sid ns names : forall m,
  callbacks (fold_left (fun m r => leave_room m sid ns r) names m) = callbacks m.
Proof. induction names as [|r names IH]; intros m; cbn [fold_left]; [reflexivity|]. rewrite IH. apply leave_room_callbacks. Qed.

Lemma mgr_disconnect_rooms m sid ns rm : ns_rooms m ns = Some rm ->
  rooms (mgr_disconnect m sid ns) = rooms (fold_left (fun m r => leave_room m sid ns r) (rooms_with rm sid) m).
Proof. intros H. unfold mgr_disconnect. rewrite H. unfold disc_release. cbv zeta. destruct (is_pending _ _ _); reflexivity. Qed.
Lemma mgr_disconnect_callbacks m sid ns rm : ns_rooms m ns = Some rm ->
  callbacks (mgr_disconnect m sid ns) = adel str_eqb (callbacks m) sid.
Proof.
  intros H. unfold mgr_disconnect. rewrite H. unfold disc_release. cbv zeta.
  destruct (is_pending _ _ _); cbn [callbacks]; rewrite (fold_leave_callbacks sid ns); reflexivity.
Qed.
Lemma mgr_disconnect_none m sid ns : ns_rooms m ns = None -> mgr_disconnect m sid ns = disc_release m sid ns.
Proof. intros H. unfold mgr_disconnect. rewrite H. reflexivity. Qed.
Lemma disc_release_rooms_s m sid ns : rooms (disc_release m sid ns) = rooms m.
Proof. unfold disc_release. destruct (is_pending _ sid ns); reflexivity. Qed.
Lemma disc_release_callbacks_s m sid ns : callbacks (disc_release m sid ns) = adel str_eqb (callbacks m) sid.
Proof. unfold disc_release. destruct (is_pending _ sid ns); reflexivity. Qed.

Lemma mgr_disconnect_pending_nil m sid ns : pending m = [] -> pending (mgr_disconnect m sid ns) = [].
Proof.
  intros H. unfold mgr_disconnect. destruct (ns_rooms m ns); unfold disc_release; cbv zeta;
    unfold is_pending; cbn [pending]; rewrite ?(fold_leave_pending sid ns), H; cbn [aget pending];
    rewrite ?(fold_leave_pending sid ns); auto.
Qed.
Lemma mgr_disconnect_pending_one m sid ns rm :
  ns_rooms m ns = Some rm -> pending m = [(ns, [sid])] -> pending (mgr_disconnect m sid ns) = [].
Proof.
  intros Hn H. unfold mgr_disconnect. rewrite Hn. unfold disc_release. cbv zeta.
  unfold is_pending. cbn [pending]. rewrite !(fold_leave_pending sid ns), H.
  repeat (first [rewrite str_eqb_refl | progress cbn [aget existsb orb pending remove_first adel]]). reflexivity.
Qed.

(* what basic_disconnect does to the rooms of the manager *)
Lemma mgr_disconnect_spec lv fr m sid ns :
  MInv lv fr m ->
  let m' := mgr_disconnect m sid ns in
  MInv lv fr m' /\
  (forall ns0, ns0 <> ns -> ns_rooms m' ns0 = ns_rooms m ns0) /\
  (forall rm' r s e, ns_rooms m' ns = Some rm' -> rmem rm' r s e ->
                     s <> sid /\ exists rm, ns_rooms m ns = Some rm /\ rmem rm r s e) /\
  (forall rm r s e, ns_rooms m ns = Some rm -> rmem rm r s e -> s <> sid ->
                    exists rm', ns_rooms m' ns = Some rm' /\ rmem rm' r s e) /\
  (forall k, In k (map fst (callbacks m')) -> In k (map fst (callbacks m))) /\
  (ns_rooms m ns <> None -> ~ In sid (map fst (callbacks m'))).
Proof.
  intros H m'. destruct (ns_rooms m ns) as [rm|] eqn:Hns.
  2:{ unfold m'. rewrite mgr_disconnect_none by auto.
      set (ma := mkMgr (rooms m) (pending m) (adel str_eqb (callbacks m) sid)).
      assert (Hma : MInv lv fr ma).
      { destruct H as [H1 H2 H3 H4]. split; auto.
        - cbn [callbacks ma]. apply keys_ok_adel; auto.
        - intros k Hk. cbn [callbacks ma] in Hk. apply In_adel_keys in Hk. apply H4; auto. }
      assert (Hnr : forall n0, ns_rooms (disc_release m sid ns) n0 = ns_rooms m n0).
      { intro n0. unfold ns_rooms. rewrite disc_release_rooms_s. reflexivity. }
      split; [apply (MInv_ext lv fr ma); [rewrite disc_release_rooms_s; reflexivity|rewrite disc_release_callbacks_s; reflexivity|exact Hma]|].
      split; [intros ns0 _; apply Hnr|].
      split; [intros rm' r s e Hn; rewrite Hnr, Hns in Hn; discriminate|].
      split; [intros; discriminate|].
      split; [intros k; rewrite disc_release_callbacks_s; apply In_adel_keys|intros Hc; contradiction]. }
  destruct (mi_ns _ _ _ H _ _ Hns) as [Hnsne Hrm].
  set (rmf := rm_leave_all rm sid (rooms_with rm sid)).
  destruct (rm_purge_spec rm sid (ri_wf _ _ _ Hrm)) as (A & B & C). fold rmf in A, B, C.
  assert (Hrooms : rooms m' = rooms (ns_put m ns rmf)).
  { unfold m'. rewrite (mgr_disconnect_rooms _ _ _ _ Hns).
    rewrite (fold_leave_eq sid ns _ m rm (mi_keys _ _ _ H) Hns (ri_ne _ _ _ Hrm)). reflexivity. }
  assert (Hcbs : callbacks m' = adel str_eqb (callbacks m) sid) by (eapply mgr_disconnect_callbacks; eauto).
  assert (Hnsr : forall ns0, ns_rooms m' ns0 = ns_rooms (ns_put m ns rmf) ns0).
  { intros ns0. unfold ns_rooms. rewrite Hrooms. reflexivity. }
  set (ma := mkMgr (rooms m) (pending m) (adel str_eqb (callbacks m) sid)).
  assert (Hma : MInv lv fr ma).
  { destruct H as [H1 H2 H3 H4]. split; auto.
    - cbn [callbacks ma]. apply keys_ok_adel; auto.
    - intros k Hk. cbn [callbacks ma] in Hk. apply In_adel_keys in Hk. apply H4; auto. }
  split; [|split; [|split; [|split; [|split]]]].
  - apply (MInv_ext lv fr (ns_put ma ns rmf)).
    + rewrite Hrooms. destruct rmf; reflexivity.
    + rewrite Hcbs, ns_put_callbacks. reflexivity.
    + apply MInv_ns_put; auto.
      * apply RmInv_purge; auto.
      * intros k rm0 e Hk Hns0 Hm. cbn [callbacks ma] in Hk.
        apply (xkeys_adel _ str_eqb_eq) in Hk; [|apply (mi_cbkeys _ _ _ H)]. destruct Hk as [Hne _].
        assert (rm0 = rm) by (unfold ns_rooms in *; cbn [rooms ma] in Hns0; congruence). subst.
        exists e. apply C; auto.
  - intros ns0 Hne. rewrite Hnsr, ns_rooms_ns_put by (apply (mi_keys _ _ _ H)).
    destruct (str_eqb ns0 ns) eqn:E; [apply str_eqb_eq in E; contradiction|reflexivity].
  - intros rm' r s e Hn Hm. rewrite Hnsr, ns_rooms_ns_put in Hn by (apply (mi_keys _ _ _ H)).
    rewrite str_eqb_refl in Hn. assert (rm' = rmf) by (destruct rmf; congruence). subst.
    destruct (B _ _ _ Hm). split; [auto|]. exists rm. auto.
  - intros rm0 r s e Hn Hm Hne. assert (rm0 = rm) by congruence. subst.
    exists rmf. split; [|auto]. rewrite Hnsr, ns_rooms_ns_put by (apply (mi_keys _ _ _ H)).
    rewrite str_eqb_refl. assert (Hm' := C _ _ _ Hm Hne). destruct rmf; [destruct Hm' as (b & [] & _)|reflexivity].
  - intros k. rewrite Hcbs. apply In_adel_keys.
  - intros _. rewrite Hcbs. intros Hin.
    apply (xkeys_adel _ str_eqb_eq) in Hin; [|apply (mi_cbkeys _ _ _ H)]. destruct Hin as [Hne _]. auto.
Qed.
(* ---- connect ---- *)
Ltac splits := repeat match goal with |- _ /\ _ => split end.

Lemma sid_name_inj a b : sid_name a = sid_name b -> a = b.
Proof.
  unfold sid_name. intros [= H].
  assert (H0 : py_int (str_of_N a) = py_int (str_of_N b)) by congruence.
  rewrite !py_int_str_of_N in H0. congruence.
Qed.

Lemma put_member_spec m ns room sid eio m' ok :
  put_member m ns room sid eio = (m', ok) ->
  (m' = m /\ exists rm b s', ns_rooms m ns = Some rm /\ aget room_eqb rm room = Some b /\
                             bd_inv b eio = Some s' /\ ok = str_eqb s' sid) \/
  (ok = true /\ exists rm b,
      (ns_rooms m ns = Some rm \/ (ns_rooms m ns = None /\ rm = [])) /\
      (aget room_eqb rm room = Some b \/ (aget room_eqb rm room = None /\ b = [])) /\
      bd_inv b eio = None /\
      m' = set_rooms m (aset str_eqb (rooms m) ns (aset room_eqb rm room (aset str_eqb b sid eio)))).
Proof.
  unfold put_member, bd_put.
  set (rm := match ns_rooms m ns with Some rm => rm | None => [] end).
  set (b := match aget room_eqb rm room with Some b => b | None => [] end).
  assert (Hrm : ns_rooms m ns = Some rm \/ (ns_rooms m ns = None /\ rm = [])).
  { unfold rm. destruct (ns_rooms m ns); auto. }
  assert (Hb : aget room_eqb rm room = Some b \/ (aget room_eqb rm room = None /\ b = [])).
  { unfold b. destruct (aget room_eqb rm room); auto. }
  destruct (bd_inv b eio) as [s'|] eqn:Hinv.
  - (* the transport already has an entry in this room: nothing changes *)
    assert (Hb' : aget room_eqb rm room = Some b).
    { destruct Hb as [Hb|[_ Hb]]; [auto|]. rewrite Hb in Hinv. discriminate. }
    assert (Hrm' : ns_rooms m ns = Some rm).
    { destruct Hrm as [Hrm|[_ Hrm]]; [auto|]. rewrite Hrm in Hb'. discriminate. }
    assert (Hsame : set_rooms m (aset str_eqb (rooms m) ns (aset room_eqb rm room b)) = m).
    { rewrite (aset_same _ _ _ _ Hb'). unfold ns_rooms in Hrm'. rewrite (aset_same _ _ _ _ Hrm'). apply set_rooms_same. }
    intros H. left. destruct (str_eqb s' sid) eqn:E; inversion H; subst; (split; [auto|]);
      exists rm, b, s'; auto.
  - intros [= <- <-]. right. split; [reflexivity|]. exists rm, b. auto.
Qed.

Lemma set_rooms_aset_twice m ns rm1 rm2 :
  set_rooms (set_rooms m (aset str_eqb (rooms m) ns rm1))
            (aset str_eqb (rooms (set_rooms m (aset str_eqb (rooms m) ns rm1))) ns rm2) =
  set_rooms m (aset str_eqb (rooms m) ns rm2).
Proof.
  destruct m as [r p c]. unfold set_rooms. cbn [rooms pending callbacks]. f_equal.
  induction r as [|[k v] l IH]; cbn [aset].
  - rewrite str_eqb_refl. reflexivity.
  - destruct (str_eqb k ns) eqn:E; cbn [aset]; rewrite E; [reflexivity|]. rewrite IH. reflexivity.
Qed.

Lemma RmWf_of lv fr m ns rm : MInv lv fr m -> (ns_rooms m ns = Some rm \/ (ns_rooms m ns = None /\ rm = [])) -> RmWf rm.
Proof.
  intros H [Hn|[_ ->]]; [|apply RmWf_nil]. destruct (mi_ns _ _ _ H _ _ Hn) as [_ Hr]. apply (ri_wf _ _ _ Hr).
Qed.

(* the members of the namespace after a connect: the old ones and the new session id *)
Lemma mgr_connect_spec lv fr m eio ns :
  MInv lv fr m -> In eio lv -> ns <> [] ->
  let sid := sid_name fr in
  let m' := fst (mgr_connect m eio ns sid) in
  MInv lv (fr + 1) m' /\ pending m' = pending m /\ callbacks m' = callbacks m /\
  (forall ns0, ns0 <> ns -> ns_rooms m' ns0 = ns_rooms m ns0) /\
  (snd (mgr_connect m eio ns sid) = None -> m' = m) /\
  (snd (mgr_connect m eio ns sid) = None \/ snd (mgr_connect m eio ns sid) = Some sid) /\
  (snd (mgr_connect m eio ns sid) = Some sid ->
   exists rm', ns_rooms m' ns = Some rm' /\ rmem rm' PNone sid eio /\
     (forall r s e, rmem rm' r s e ->
        (s = sid /\ e = eio) \/ (s <> sid /\ exists rm, ns_rooms m ns = Some rm /\ rmem rm r s e)) /\
     (forall rm r s e, ns_rooms m ns = Some rm -> rmem rm r s e -> rmem rm' r s e)).
Proof.
  intros H Hlive Hns sid m'.
  assert (Hmono : MInv lv (fr + 1) m) by (eapply MInv_mono; eauto; lia).
  unfold m'. unfold mgr_connect.
  destruct (put_member m ns PNone sid eio) as [m1 ok1] eqn:Hp1.
  apply put_member_spec in Hp1 as [(-> & rm & b & s' & Hn & Hg & Hi & ->)|(-> & rm & b & Hrm & Hb & Hinv & ->)].
  - (* this transport is already connected to the namespace *)
    assert (Hs' : s' <> sid).
    { destruct (mi_ns _ _ _ H _ _ Hn) as [_ Hr].
      assert (Hm : rmem rm PNone s' eio).
      { apply rmem_none_iff; [apply (ri_wf _ _ _ Hr)|]. exists b. split; [auto|].
        apply bd_inv_In in Hi. apply aget_In in Hg as (k' & Hin & _).
        destruct (ri_wf _ _ _ Hr) as [_ Hbb]. destruct (Hbb _ _ Hin) as [_ Hkb]. apply keys_ok_aget; auto. }
      destruct (ri_fresh _ _ _ Hr _ _ _ Hm) as (k & Hk & ->). intros E. apply sid_name_inj in E. lia. }
    rewrite (eqb_neq _ str_eqb_eq _ _ Hs'). cbn [fst snd].
    splits; auto. discriminate.
  - set (rm1 := aset room_eqb rm PNone (aset str_eqb b sid eio)).
    assert (Hwf : RmWf rm) by (eapply RmWf_of; eauto).
    destruct (rmem_put rm PNone b sid eio Hwf room_eqb_none_refl Hb) as (W1 & A1 & B1 & C1 & D1). fold rm1 in W1, A1, B1, C1, D1.
    set (m1 := set_rooms m (aset str_eqb (rooms m) ns rm1)).
    assert (Hn1 : ns_rooms m1 ns = Some rm1).
    { unfold ns_rooms, m1. cbn [set_rooms rooms]. apply (xaget_aset_eq _ str_eqb_eq). }
    destruct (put_member m1 ns (PStr sid) sid eio) as [m2 ok2] eqn:Hp2. cbn [fst snd].
    assert (Hsidrefl : room_eqb (PStr sid) (PStr sid) = true) by (cbn; apply str_eqb_refl).
    (* the room map of the namespace at the end *)
    assert (Hfin : exists rm2, m2 = set_rooms m (aset str_eqb (rooms m) ns rm2) /\ RmWf rm2 /\
              (forall r s e, rmem rm2 r s e -> rmem rm1 r s e \/ (s = sid /\ e = eio)) /\
              (forall r s e, rmem rm1 r s e -> room_eqb r (PStr sid) = false \/ s <> sid -> rmem rm2 r s e)).
    { apply put_member_spec in Hp2 as [(-> & _)|(_ & rm' & b2 & Hrm' & Hb2 & Hinv2 & ->)].
      - exists rm1. splits; auto.
      - assert (rm' = rm1) by (destruct Hrm' as [Hrm'|[Hrm' _]]; congruence). subst rm'.
        destruct (rmem_put rm1 (PStr sid) b2 sid eio W1 Hsidrefl Hb2) as (W2 & A2 & B2 & C2 & _).
        exists (aset room_eqb rm1 (PStr sid) (aset str_eqb b2 sid eio)). split; [apply set_rooms_aset_twice|].
        split; [auto|split].
        + intros r s e Hm. destruct (A2 _ _ _ Hm) as [Hm'|(-> & -> & _)]; auto.
        + intros r s e Hm [Hr|Hs]; auto. }
    destruct Hfin as (rm2 & -> & W2 & A2 & B2).
    assert (Hnone1 : rmem rm1 PNone sid eio).
    { destruct D1 as (r & [->|Hr] & Hm); [auto|]. apply py_eq_none_r in Hr. subst. auto. }
    assert (Hnone2 : forall s e, rmem rm1 PNone s e -> rmem rm2 PNone s e).
    { intros s e Hm. apply B2; auto. }
    assert (Hold : forall r s e, rmem rm r s e -> exists k, k < fr /\ s = sid_name k).
    { intros r s e Hm. destruct Hrm as [Hn|[_ ->]]; [|destruct Hm as (? & [] & _)].
      destruct (mi_ns _ _ _ H _ _ Hn) as [_ Hr]. eapply ri_fresh; eauto. }
    assert (Holdne : forall r s e, rmem rm r s e -> s <> sid).
    { intros r s e Hm. destruct (Hold _ _ _ Hm) as (k & Hk & ->). intros E. apply sid_name_inj in E. lia. }
    assert (Hcases : forall r s e, rmem rm2 r s e -> (s = sid /\ e = eio) \/ (s <> sid /\ rmem rm r s e)).
    { intros r s e Hm. destruct (A2 _ _ _ Hm) as [Hm1|[-> ->]]; [|auto].
      destruct (A1 _ _ _ Hm1) as [Hm0|(-> & -> & _)]; [|auto]. right. split; [eapply Holdne; eauto|auto]. }
    assert (Hkeep : forall r s e, rmem rm r s e -> rmem rm2 r s e).
    { intros r s e Hm. apply B2; [|right; eapply Holdne; eauto]. apply B1; auto. eapply Holdne; eauto. }
    assert (Hinv' : RmInv lv (fr + 1) rm2).
    { split; auto.
      - eapply rmem_nonnil. apply Hnone2. eauto.
      - intros r s e Hm. destruct (Hcases _ _ _ Hm) as [[-> ->]|[Hne Hm0]]; [auto|].
        apply Hkeep. destruct Hrm as [Hn|[_ ->]]; [|destruct Hm0 as (? & [] & _)].
        destruct (mi_ns _ _ _ H _ _ Hn) as [_ Hr]. eapply ri_sub; eauto.
      - intros s1 s2 e Hm1 Hm2.
        destruct (Hcases _ _ _ Hm1) as [[Hs1 He1]|[Hne1 Hm01]], (Hcases _ _ _ Hm2) as [[Hs2 He2]|[Hne2 Hm02]].
        + congruence.
        + exfalso. subst e. apply (rmem_none_iff _ _ _ Hwf) in Hm02 as (b0 & Hg0 & Hs0).
          destruct Hb as [Hb|[Hb _]]; [|congruence]. assert (b0 = b) by congruence. subst.
          apply (xaget_In _ str_eqb_eq) in Hs0. eapply bd_inv_None; eauto.
        + exfalso. subst e. apply (rmem_none_iff _ _ _ Hwf) in Hm01 as (b0 & Hg0 & Hs0).
          destruct Hb as [Hb|[Hb _]]; [|congruence]. assert (b0 = b) by congruence. subst.
          apply (xaget_In _ str_eqb_eq) in Hs0. eapply bd_inv_None; eauto.
        + destruct Hrm as [Hn|[_ ->]]; [|destruct Hm01 as (? & [] & _)].
          destruct (mi_ns _ _ _ H _ _ Hn) as [_ Hr]. eapply ri_inj; eauto.
      - intros r s e Hm. destruct (Hcases _ _ _ Hm) as [[-> ->]|[Hne Hm0]]; [auto|].
        destruct Hrm as [Hn|[_ ->]]; [|destruct Hm0 as (? & [] & _)].
        destruct (mi_ns _ _ _ H _ _ Hn) as [_ Hr]. eapply ri_live; eauto.
      - intros r s e Hm. destruct (Hcases _ _ _ Hm) as [[-> ->]|[Hne Hm0]].
        + exists fr. split; [lia|reflexivity].
        + destruct (Hold _ _ _ Hm0) as (k & Hk & ->). exists k. split; [lia|reflexivity]. }
    assert (Hrm2ne : rm2 <> []) by apply (ri_ne _ _ _ Hinv').
    rewrite <- (ns_put_nonnil m ns rm2 Hrm2ne).
    split; [|split; [|split; [|split; [|split; [|split]]]]].
    + apply MInv_ns_put; auto. intros k rm0 e _ Hn0 Hm. exists e. apply Hkeep.
      destruct Hrm as [Hn|[Hn _]]; congruence.
    + apply ns_put_pending.
    + apply ns_put_callbacks.
    + intros ns0 Hne. rewrite ns_rooms_ns_put by apply (mi_keys _ _ _ H).
      destruct (str_eqb ns0 ns) eqn:E; [apply str_eqb_eq in E; contradiction|reflexivity].
    + discriminate.
    + auto.
    + intros _. exists rm2. split; [|split; [|split]].
      * rewrite ns_rooms_ns_put by apply (mi_keys _ _ _ H). rewrite str_eqb_refl. destruct rm2; [contradiction|reflexivity].
      * auto.
      * intros r s e Hm. destruct (Hcases _ _ _ Hm) as [?|[Hne Hm0]]; [auto|]. right. split; [auto|].
        destruct Hrm as [Hn|[_ ->]]; [|destruct Hm0 as (? & [] & _)]. exists rm. auto.
      * intros rm0 r s e Hn0 Hm. apply Hkeep. destruct Hrm as [Hn|[Hn _]]; congruence.
Qed.

Lemma nroom_ns_put m ns rm' ns0 : keys_ok str_eqb (rooms m) ->
  nroom (ns_put m ns rm') ns0 = if str_eqb ns0 ns then aget room_eqb rm' PNone else nroom m ns0.
Proof.
  intros Hk. unfold nroom, room_of. rewrite ns_rooms_ns_put by auto.
  destruct (str_eqb ns0 ns); [|reflexivity]. destruct rm'; reflexivity.
Qed.

(* ---- enter_room (any room name except None that is equal to itself) ---- *)
Definition room_ok (room : pv) : Prop := room <> PNone /\ room_eqb room room = true.

Lemma enter_room_spec lv fr m sid ns room :
  MInv lv fr m -> room_ok room ->
  let m' := fst (enter_room m sid ns room) in
  MInv lv fr m' /\ pending m' = pending m /\ callbacks m' = callbacks m /\
  (forall ns0, nroom m' ns0 = nroom m ns0).
Proof.
  intros H [Hne Hrefl] m'. unfold m', enter_room.
  destruct (ns_rooms m ns) as [rm|] eqn:Hn; [|cbn [fst]; splits; auto].
  destruct (mi_ns _ _ _ H _ _ Hn) as [Hnsne Hr].
  destruct (match aget room_eqb rm PNone with Some b0 => bd_get b0 sid | None => None end) as [eio|] eqn:He;
    [|cbn [fst]; splits; auto].
  assert (Hmem : rmem rm PNone sid eio).
  { apply rmem_none_iff; [apply (ri_wf _ _ _ Hr)|]. destruct (aget room_eqb rm PNone) as [b0|]; [|discriminate]. eauto. }
  set (b := match aget room_eqb rm room with Some b => b | None => [] end).
  assert (Hb : aget room_eqb rm room = Some b \/ (aget room_eqb rm room = None /\ b = [])).
  { unfold b. destruct (aget room_eqb rm room); auto. }
  unfold bd_put. destruct (bd_inv b eio) as [s'|] eqn:Hinv.
  - assert (Hb' : aget room_eqb rm room = Some b).
    { destruct Hb as [Hb|[_ Hb]]; [auto|]. rewrite Hb in Hinv. discriminate. }
    assert (s' = sid).
    { apply bd_inv_In in Hinv. apply aget_In in Hb' as (k' & Hin & _).
      assert (Hm' : rmem rm k' s' eio) by (exists b; auto).
      apply (ri_sub _ _ _ Hr) in Hm'. eapply ri_inj; eauto. }
    subst s'. rewrite str_eqb_refl. cbn [fst].
    rewrite (aset_same _ _ _ _ Hb'). unfold ns_rooms in Hn. rewrite (aset_same _ _ _ _ Hn), set_rooms_same.
    splits; auto.
  - cbn [fst]. set (rm' := aset room_eqb rm room (aset str_eqb b sid eio)).
    destruct (rmem_put rm room b sid eio (ri_wf _ _ _ Hr) Hrefl Hb) as (W1 & A1 & B1 & C1 & D1). fold rm' in W1, A1, B1, C1, D1.
    assert (Hnone : forall s e, rmem rm PNone s e -> rmem rm' PNone s e).
    { intros s e Hm. apply C1; auto. destruct (room_eqb PNone room) eqn:E; [|reflexivity]. apply py_eq_none_l in E. contradiction. }
    assert (Hcases : forall r s e, rmem rm' r s e -> rmem rm r s e \/ (s = sid /\ e = eio /\ r <> PNone)).
    { intros r s e Hm. destruct (A1 _ _ _ Hm) as [?|(-> & -> & Hrr)]; [auto|]. right. splits; auto.
      intros ->. destruct Hrr as [Hrr|Hrr]; [congruence|]. apply py_eq_none_l in Hrr. contradiction. }
    assert (Hr' : RmInv lv fr rm').
    { split; auto.
      - eapply rmem_nonnil. eauto.
      - intros r s e Hm. destruct (Hcases _ _ _ Hm) as [Hm0|(-> & -> & _)]; [|auto].
        apply Hnone. eapply ri_sub; eauto.
      - intros s1 s2 e Hm1 Hm2.
        destruct (Hcases _ _ _ Hm1) as [Hm01|(_ & _ & Hc)]; [|contradiction].
        destruct (Hcases _ _ _ Hm2) as [Hm02|(_ & _ & Hc)]; [|contradiction]. eapply ri_inj; eauto.
      - intros r s e Hm. destruct (Hcases _ _ _ Hm) as [Hm0|(-> & -> & _)]; eapply ri_live; eauto.
      - intros r s e Hm. destruct (Hcases _ _ _ Hm) as [Hm0|(-> & -> & _)]; eapply ri_fresh; eauto. }
    rewrite <- (ns_put_nonnil m ns rm' (ri_ne _ _ _ Hr')).
    splits.
    + apply MInv_ns_put; auto. intros k rm0 e _ Hn0 Hm. exists e. apply Hnone. congruence.
    + apply ns_put_pending.
    + apply ns_put_callbacks.
    + intros ns0. rewrite nroom_ns_put by apply (mi_keys _ _ _ H).
      destruct (str_eqb ns0 ns) eqn:E; [|reflexivity]. apply str_eqb_eq in E. subst.
      unfold nroom, room_of. rewrite Hn. unfold rm'. apply aget_aset_frame.
      * apply room_eqb_none_frame; auto.
      * apply room_neq_none; auto.
Qed.

(* ---- close_room ---- *)
Lemma fold_leave_MInv lv fr ns room (l : bidict) : room <> PNone -> forall m,
  MInv lv fr m ->
  let m' := fold_left (fun m se => leave_room m (fst se) ns room) l m in
  MInv lv fr m' /\ pending m' = pending m /\ callbacks m' = callbacks m /\ (forall ns0, nroom m' ns0 = nroom m ns0).
Proof.
  intros Hne. induction l as [|se l IH]; intros m H; cbn [fold_left]; [splits; auto|].
  destruct (IH (leave_room m (fst se) ns room)) as (A & B & C & D); [apply MInv_leave_room; auto|].
  splits; auto.
  - rewrite B. apply leave_room_pending.
  - rewrite C. apply leave_room_callbacks.
  - intros ns0. rewrite D. apply leave_room_nroom; auto. apply (mi_keys _ _ _ H).
Qed.

Lemma close_room_spec lv fr m room ns :
  MInv lv fr m -> room <> PNone ->
  let m' := close_room m room ns in
  MInv lv fr m' /\ pending m' = pending m /\ callbacks m' = callbacks m /\ (forall ns0, nroom m' ns0 = nroom m ns0).
Proof.
  intros H Hne. unfold close_room. destruct (participants m ns room); [|splits; auto].
  apply fold_leave_MInv; auto.
Qed.

(* ---- callbacks ---- *)
Lemma generate_ack_id_MInv lv fr m sid cb :
  MInv lv fr m -> (exists ns rm e, ns_rooms m ns = Some rm /\ rmem rm PNone sid e) ->
  let m' := fst (generate_ack_id m sid cb) in
  MInv lv fr m' /\ rooms m' = rooms m /\ pending m' = pending m.
Proof.
  intros [H1 H2 H3 H4] Hmem. unfold generate_ack_id.
  set (slot := match aget str_eqb (callbacks m) sid with Some s => s | None => mkSlot (Some 1) [] end).
  assert (G : forall slot', MInv lv fr (mkMgr (rooms m) (pending m) (aset str_eqb (callbacks m) sid slot'))).
  { intros slot'. split; auto.
    - cbn [callbacks]. apply (xkeys_ok_aset _ str_eqb_eq). auto.
    - intros k Hk. cbn [callbacks] in Hk. apply (xkeys_aset _ str_eqb_eq) in Hk as [Hk| ->]; [apply H4; auto|].
      exact Hmem. }
  destruct (cb_counter slot); cbn [fst]; splits; auto.
Qed.

Lemma trigger_callback_MInv lv fr m osid id :
  MInv lv fr m ->
  let m' := fst (trigger_callback m osid id) in
  MInv lv fr m' /\ rooms m' = rooms m /\ pending m' = pending m /\
  (forall k, In k (map fst (callbacks m')) <-> In k (map fst (callbacks m))).
Proof.
  intros H. unfold trigger_callback.
  destruct osid as [s|]; [|cbn [fst]; splits; auto; tauto].
  destruct id as [i|]; [|cbn [fst]; splits; auto; tauto].
  destruct (aget str_eqb (callbacks m) s) as [slot|] eqn:Hs; [|cbn [fst]; splits; auto; tauto].
  destruct (i <=? 0)%Z; [cbn [fst]; splits; auto; tauto|].
  destruct (aget N.eqb (cb_entries slot) (Z.to_N i)); [|cbn [fst]; splits; auto; tauto].
  cbn [fst rooms pending callbacks].
  assert (Hkeys : forall k slot', In k (map fst (aset str_eqb (callbacks m) s slot')) <-> In k (map fst (callbacks m))).
  { intros k slot'. rewrite (xkeys_aset _ str_eqb_eq). split; [|auto]. intros [Hk| ->]; [auto|].
    apply (xaget_In _ str_eqb_eq) in Hs. apply in_map_iff. exists (s, slot). auto. }
  destruct H as [H1 H2 H3 H4]. splits; auto. split; auto.
  - cbn [callbacks]. apply (xkeys_ok_aset _ str_eqb_eq). auto.
  - intros k Hk. cbn [callbacks] in Hk. apply Hkeys in Hk. apply H4; auto.
Qed.

Lemma pre_disconnect_MInv lv fr m sid ns :
  MInv lv fr m -> MInv lv fr (fst (pre_disconnect m sid ns)).
Proof.
  intros H. unfold pre_disconnect. destruct (room_of m ns PNone); cbn [fst]; (apply (MInv_ext lv fr m); [reflexivity|reflexivity|exact H]).
Qed.
(* ------------------------------------------------------------------------------------ *)
(** * 5. The server invariant *)

Definition keys_live {V} (lv : list str) (l : list (str * V)) : Prop :=
  keys_ok str_eqb l /\ forall k, In k (map fst l) -> In k lv.

(* holds at every point of an execution, including inside application handlers *)
Record Mid (s : srv) : Prop := mkMid {
  mid_mg : MInv (live s) (fresh s) (mg s);
  mid_env : keys_live (live s) (environ s);
  mid_bin : keys_live (live s) (binpkt s);
  mid_ses : keys_live (live s) (sessions s)
}.
(* holds between operations: nobody is half-way through a disconnect *)
Definition Inv (s : srv) : Prop := Mid s /\ pending (mg s) = [].

Lemma Inv_init : Inv srv_init.
Proof.
  split; [|reflexivity]. split; cbn; [apply MInv_init| | |]; (split; [exact I|intros k []]).
Qed.

Definition upd_mg (s : srv) (m' : mgr) : srv := mkSrv m' (environ s) (binpkt s) (sessions s) (live s) (fresh s).

Lemma with_mg_run {A} (f : mgr -> mgr * A) s :
  with_mg f s = (upd_mg s (fst (f (mg s))), [], Ok (snd (f (mg s)))).
Proof. unfold with_mg, bindM, getS, putS, ret, upd_mg. destruct (f (mg s)) as [m' a]. reflexivity. Qed.
Lemma set_mg_run f s : set_mg f s = (upd_mg s (f (mg s)), [], Ok tt).
Proof. reflexivity. Qed.

Lemma hp_with_mg {A} (f : mgr -> mgr * A) s (Q : Post A) :
  Q (Ok (snd (f (mg s)))) (upd_mg s (fst (f (mg s)))) [] -> hp s (with_mg f) Q.
Proof. unfold hp. rewrite with_mg_run. auto. Qed.
Lemma hp_set_mg f s (Q : Post unit) : Q (Ok tt) (upd_mg s (f (mg s))) [] -> hp s (set_mg f) Q.
Proof. unfold hp. rewrite set_mg_run. auto. Qed.

Lemma Mid_upd_mg s m' : Mid s -> MInv (live s) (fresh s) m' -> Mid (upd_mg s m').
Proof. intros [H1 H2 H3 H4] H. split; auto. Qed.

(* what an application handler never changes: the pending list, the callbacks, who is connected
   to which namespace (the None rooms), the environ and binary-packet tables, liveness, the
   id generator.  (It may change other rooms and the user sessions.) *)
Record hframe (s0 s : srv) : Prop := mkHframe {
  hf_pending : pending (mg s) = pending (mg s0);
  hf_callbacks : callbacks (mg s) = callbacks (mg s0);
  hf_nroom : forall ns, nroom (mg s) ns = nroom (mg s0) ns;
  hf_environ : environ s = environ s0;
  hf_binpkt : binpkt s = binpkt s0;
  hf_live : live s = live s0;
  hf_fresh : fresh s = fresh s0
}.
Lemma hframe_refl s : hframe s s.
Proof. split; auto. Qed.
Lemma hframe_trans s0 s1 s2 : hframe s0 s1 -> hframe s1 s2 -> hframe s0 s2.
Proof.
  intros [A1 A2 A3 A4 A5 A6 A7] [B1 B2 B3 B4 B5 B6 B7]. split; try congruence; try (intros ns; rewrite B3; apply A3).
Qed.

(* ---- things that do not touch the state ---- *)
Lemma forM_tell_run (ps : list pv) eio (s : srv) :
  forM ps (fun p => tell (Out eio p) : SM unit) s = (s, map (Out eio) ps, Ok tt).
Proof.
  induction ps as [|p ps IH]; cbn [forM map]; [reflexivity|].
  unfold bindM at 1. unfold tell at 1. rewrite IH. reflexivity.
Qed.

Lemma send_pieces_run eio ps s :
  send_pieces eio ps s = (s, if existsb (str_eqb eio) (live s) then map (Out eio) ps else [], Ok tt).
Proof.
  unfold send_pieces, bindM, getS. destruct (existsb (str_eqb eio) (live s)).
  - rewrite forM_tell_run. reflexivity.
  - reflexivity.
Qed.

Section Quiet.
  Variable J : srv -> Prop.
  Variable E : eff -> Prop.

  Lemma send_pieces_pres eio ps : (forall p, E (Out eio p)) -> pres J E (send_pieces eio ps).
  Proof.
    intros HE s H. unfold hp. rewrite send_pieces_run. split; [auto|].
    destruct (existsb _ _); [|constructor]. apply Forall_forall. intros x Hx.
    apply in_map_iff in Hx as (p & <- & _). auto.
  Qed.

  Lemma send_packet_pres c eio t data ns id :
    (forall e p, eio = Some e -> E (Out e p)) -> pres J E (send_packet c eio t data ns id).
  Proof.
    intros HE. unfold send_packet. apply pres_bind; [apply pres_lift|]. intros p.
    apply pres_bind; [apply pres_lift|]. intros enc.
    destruct eio as [e|]; [|apply pres_ret]. apply send_pieces_pres. intros q. apply HE. reflexivity.
  Qed.

  Lemma mgr_emit_nocb_pres c ev data ns room skip :
    (forall e p, E (Out e p)) -> pres J E (mgr_emit c ev data ns room skip None).
  Proof.
    intros HE. unfold mgr_emit. apply pres_bind; [apply pres_getS|]. intros s0.
    destruct (ns_rooms (mg s0) ns); [|apply pres_ret].
    apply pres_bind; [apply pres_lift|]. intros p.
    apply pres_bind; [apply pres_lift|]. intros enc.
    apply pres_bind; [apply pres_lift|]. intros parts.
    apply pres_forM. intros se _. destruct (skipped _ _); [apply pres_ret|].
    apply send_pieces_pres. auto.
  Qed.
End Quiet.

(* ---- sessions ---- *)
Lemma Mid_set_session s e d : Mid s -> In e (live s) ->
  Mid (mkSrv (mg s) (environ s) (binpkt s) (aset str_eqb (sessions s) e d) (live s) (fresh s)).
Proof.
  intros [H1 H2 H3 [H4 H5]] He. split; auto. cbn [sessions live]. split.
  - apply (xkeys_ok_aset _ str_eqb_eq). auto.
  - intros k Hk. apply (xkeys_aset _ str_eqb_eq) in Hk as [Hk| ->]; auto.
Qed.

Lemma eio_session_live s eio d : eio_session s eio = Ok d -> exists e, eio = Some e /\ In e (live s).
Proof.
  unfold eio_session. destruct eio as [e|]; [|discriminate].
  destruct (existsb (str_eqb e) (live s)) eqn:Ex; [|discriminate]. intros _. exists e. split; [reflexivity|].
  apply existsb_exists in Ex as (x & Hx & Hex). apply str_eqb_eq in Hex. subst. auto.
Qed.

Lemma api_save_session_frame sid v ns s :
  Mid s -> hp s (api_save_session sid v ns) (fun _ s' _ => Mid s' /\ hframe s s').
Proof.
  intros H. unfold api_save_session. apply hp_getS_bind. apply hp_bind. apply hp_lift.
  destruct (eio_session s (eio_from_sid (mg s) sid (ns_or_default ns))) as [d|x] eqn:Hd;
    [|split; [auto|apply hframe_refl]].
  apply eio_session_live in Hd as (e & -> & He). unfold set_session. apply hp_modify.
  split; [apply Mid_set_session; auto|split; auto].
Qed.

Lemma api_get_session_frame sid ns s :
  Mid s -> hp s (api_get_session sid ns) (fun _ s' _ => Mid s' /\ hframe s s').
Proof.
  intros H. unfold api_get_session. apply hp_getS_bind. apply hp_bind. apply hp_lift.
  destruct (eio_session s (eio_from_sid (mg s) sid (ns_or_default ns))) as [d|x] eqn:Hd;
    [|split; [auto|apply hframe_refl]].
  apply eio_session_live in Hd as (e & -> & He).
  destruct (aget str_eqb d (ns_or_default ns)); [apply hp_ret; split; [auto|apply hframe_refl]|].
  apply hp_bind. unfold set_session. apply hp_modify. apply hp_ret.
  split; [apply Mid_set_session; auto|split; auto].
Qed.

(* ------------------------------------------------------------------------------------ *)
(** * 6. Application handlers *)

Definition action_ok (a : action) : Prop :=
  match a with
  | AEnter room => room_ok room
  | ALeave room => room <> PNone
  | _ => True
  end.
(* application misuse excluded from the claims: handlers do not leave / enter the room None *)
Definition cfg_ok (c : cfg) : Prop :=
  forall hid b a, In (hid, b) (behav c) -> In a (h_actions b) -> action_ok a.

Lemma run_action_frame c ns sid a s :
  action_ok a -> Mid s -> hp s (run_action c ns sid a) (fun _ s' _ => Mid s' /\ hframe s s').
Proof.
  intros Hok H. destruct a as [room|room|ev data|ev data room sk|v|]; cbn [run_action action_ok] in *.
  - apply hp_bind. apply hp_with_mg.
    destruct (enter_room_spec _ _ _ sid ns room (mid_mg _ H) Hok) as (A & B & C & D).
    assert (G : Mid (upd_mg s (fst (enter_room (mg s) sid ns room))) /\
                hframe s (upd_mg s (fst (enter_room (mg s) sid ns room)))).
    { split; [apply Mid_upd_mg; auto|split; auto]. }
    destruct (snd (enter_room (mg s) sid ns room)); apply hp_lift; exact G.
  - apply hp_set_mg. split.
    + apply Mid_upd_mg; auto. apply MInv_leave_room; auto. apply (mid_mg _ H).
    + split; cbn [upd_mg mg environ binpkt live fresh]; auto.
      * apply leave_room_pending.
      * apply leave_room_callbacks.
      * intros ns0. apply leave_room_nroom; auto. apply (mi_keys _ _ _ (mid_mg _ H)).
  - unfold api_emit. eapply hp_conseq.
    + apply (mgr_emit_nocb_pres (fun s' => s' = s) anyeff); [intros; exact I|reflexivity].
    + intros r s' es [-> _]. split; [auto|apply hframe_refl].
  - unfold api_emit. eapply hp_conseq.
    + apply (mgr_emit_nocb_pres (fun s' => s' = s) anyeff); [intros; exact I|reflexivity].
    + intros r s' es [-> _]. split; [auto|apply hframe_refl].
  - apply api_save_session_frame; auto.
  - apply hp_bind. eapply hp_conseq; [apply api_get_session_frame; auto|].
    intros [v|x] s' es HH; [apply hp_tell|]; exact HH.
Qed.

Section Handlers.
  Variable c : cfg.
  Hypothesis Hc : cfg_ok c.
  (* any predicate that is kept by Mid-preserving, frame-respecting steps *)
  Variable J : srv -> Prop.
  Hypothesis J_Mid : forall s, J s -> Mid s.
  Hypothesis J_step : forall s s', J s -> Mid s' -> hframe s s' -> J s'.

  Lemma run_action_J ns sid a : action_ok a -> pres J anyeff (run_action c ns sid a).
  Proof.
    intros Hok s Hs. eapply hp_conseq; [apply run_action_frame; auto|].
    intros r s' es [HM HF]. split; [eauto|apply Forall_anyeff].
  Qed.

  Lemma call_handler_J hid ns sid args : pres J anyeff (call_handler c hid ns sid args).
  Proof.
    unfold call_handler. destruct (aget N.eqb (behav c) hid) as [b|] eqn:Hb; [|apply pres_raise].
    destruct (match h_arity b with Some n => negb (Nat.eqb n (List.length args)) | None => false end);
      [apply pres_raise|].
    apply pres_bind; [apply pres_tell; exact I|]. intros _.
    apply pres_bind.
    - apply pres_forM. intros a Ha. apply run_action_J.
      apply aget_In in Hb as (hid' & Hin & Heq). apply N.eqb_eq in Heq. subst. eapply Hc; eauto.
    - intros _. destruct (h_outcome b); [apply pres_ret|apply pres_raise|apply pres_raise].
  Qed.

  Lemma call_with_retry_J ev hid ns sid args : pres J anyeff (call_with_retry c ev hid ns sid args).
  Proof.
    unfold call_with_retry. apply pres_catch; [apply call_handler_J|].
    intros x k Hx. destruct x; try discriminate. destruct (is_disconnect ev); [|discriminate].
    injection Hx as <-. apply call_handler_J.
  Qed.

  Lemma trigger_event_J ev ns args : pres J anyeff (trigger_event c ev ns args).
  Proof.
    unfold trigger_event. destruct (is_unhashable ev && _); [apply pres_raise|].
    destruct (get_event_handler c ev ns args) as [[h args']|].
    - apply pres_bind; [apply call_with_retry_J|]. intros v. apply pres_ret.
    - destruct (get_namespace_handler c ns args) as [[methods args']|]; [|apply pres_ret].
      destruct ev; try (destruct (truthy _); [apply pres_raise|apply pres_ret]).
      destruct (aget str_eqb methods s) as [h|]; [|apply pres_ret].
      apply pres_bind; [apply call_with_retry_J|]. intros v. apply pres_ret.
  Qed.
End Handlers.

Lemma trigger_event_frame c ev ns args s :
  cfg_ok c -> Mid s -> hp s (trigger_event c ev ns args) (fun _ s' _ => Mid s' /\ hframe s s').
Proof.
  intros Hc H.
  assert (G := trigger_event_J c Hc (fun s' => Mid s' /\ hframe s s') (fun _ HH => proj1 HH)
                 (fun s1 s2 HH HM HF => conj HM (hframe_trans _ _ _ (proj2 HH) HF)) ev ns args s
                 (conj H (hframe_refl s))).
  eapply hp_conseq; [exact G|]. intros r s' es [HH _]. exact HH.
Qed.
(* ------------------------------------------------------------------------------------ *)
(** * 7. Operations *)

Lemma nroom_rmem lv fr m ns b sid e :
  MInv lv fr m -> nroom m ns = Some b -> In (sid, e) b ->
  exists rm, ns_rooms m ns = Some rm /\ rmem rm PNone sid e.
Proof.
  intros H Hn Hin. unfold nroom, room_of in Hn. destruct (ns_rooms m ns) as [rm|] eqn:Hr; [|discriminate].
  exists rm. split; [reflexivity|]. apply aget_In in Hn as (k' & Hin' & Hk). apply py_eq_none_r in Hk. subst.
  exists b. auto.
Qed.

Lemma rmem_nroom lv fr m ns rm sid e :
  MInv lv fr m -> ns_rooms m ns = Some rm -> rmem rm PNone sid e ->
  exists b, nroom m ns = Some b /\ bd_get b sid = Some e /\ In (sid, e) b.
Proof.
  intros H Hr Hm. destruct (mi_ns _ _ _ H _ _ Hr) as [_ Hi].
  apply (rmem_none_iff _ _ _ (ri_wf _ _ _ Hi)) in Hm as (b & Hg & Hs). exists b.
  unfold nroom, room_of. rewrite Hr. splits; auto. apply (xaget_In _ str_eqb_eq). exact Hs.
Qed.

Lemma sid_from_eio_some lv fr m e ns sid :
  MInv lv fr m -> sid_from_eio m e ns = Some sid ->
  exists b rm, nroom m ns = Some b /\ In (sid, e) b /\ bd_get b sid = Some e /\
               ns_rooms m ns = Some rm /\ rmem rm PNone sid e.
Proof.
  intros H Hs. unfold sid_from_eio in Hs. fold (nroom m ns) in Hs.
  destruct (nroom m ns) as [b|] eqn:Hn; [|discriminate]. apply bd_inv_In in Hs.
  destruct (nroom_rmem _ _ _ _ _ _ _ H Hn Hs) as (rm & Hr & Hm).
  destruct (rmem_nroom _ _ _ _ _ _ _ H Hr Hm) as (b' & Hn' & Hg & _).
  assert (b' = b) by congruence. subst. exists b, rm. splits; auto.
Qed.

Lemma sid_from_eio_none lv fr m e ns :
  MInv lv fr m -> sid_from_eio m e ns = None -> forall rm r s, ns_rooms m ns = Some rm -> ~ rmem rm r s e.
Proof.
  intros H Hs rm r s Hr Hm. destruct (mi_ns _ _ _ H _ _ Hr) as [_ Hi].
  apply (ri_sub _ _ _ Hi) in Hm. destruct (rmem_nroom _ _ _ _ _ _ _ H Hr Hm) as (b & Hn & _ & Hin).
  unfold sid_from_eio in Hs. fold (nroom m ns) in Hs. rewrite Hn in Hs. eapply bd_inv_None; eauto.
Qed.

Lemma is_connected_nopending m sid ns b e :
  pending m = [] -> nroom m ns = Some b -> bd_get b sid = Some e -> is_connected m (Some sid) ns = true.
Proof.
  intros Hp Hn Hg. unfold is_connected, is_pending. rewrite Hp. cbn [aget].
  fold (nroom m ns). rewrite Hn, Hg. reflexivity.
Qed.

Lemma pre_disconnect_run m sid ns b :
  pending m = [] -> nroom m ns = Some b ->
  pre_disconnect m sid ns = (mkMgr (rooms m) [(ns, [sid])] (callbacks m), Ok (bd_get b sid)).
Proof.
  intros Hp Hn. unfold pre_disconnect. fold (nroom m ns). rewrite Hn, Hp. reflexivity.
Qed.

(* what _handle_disconnect guarantees for transport e and one namespace, whatever the handler does *)
Record hd_post (e ns : str) (s s' : srv) : Prop := mkHdPost {
  hd_inv : Inv s';
  hd_gone : sid_from_eio (mg s') e ns = None;
  hd_other : forall ns0, ns0 <> ns -> nroom (mg s') ns0 = nroom (mg s) ns0;
  hd_cbsub : forall k, In k (map fst (callbacks (mg s'))) -> In k (map fst (callbacks (mg s)));
  hd_cbgone : forall sid, sid_from_eio (mg s) e ns = Some sid -> ~ In sid (map fst (callbacks (mg s')));
  hd_environ : environ s' = environ s;
  hd_binpkt : binpkt s' = binpkt s;
  hd_live : live s' = live s;
  hd_fresh : fresh s' = fresh s
}.

(* the state after "handler in try, manager.disconnect in finally", started with the sid marked
   as pending *)
Lemma disconnect_tail c ev ns sid e args s1 b (Q : Post unit) :
  cfg_ok c -> Mid s1 -> pending (mg s1) = [(ns, [sid])] -> nroom (mg s1) ns = Some b -> In (sid, e) b ->
  (forall r s3 es,
      Inv s3 -> sid_from_eio (mg s3) e ns = None ->
      (forall ns0, ns0 <> ns -> nroom (mg s3) ns0 = nroom (mg s1) ns0) ->
      (forall k, In k (map fst (callbacks (mg s3))) -> In k (map fst (callbacks (mg s1)))) ->
      ~ In sid (map fst (callbacks (mg s3))) ->
      environ s3 = environ s1 -> binpkt s3 = binpkt s1 -> live s3 = live s1 -> fresh s3 = fresh s1 ->
      Q r s3 es) ->
  hp s1 (finallyM (_ <~ trigger_event c ev ns args ;; ret tt)
                  (set_mg (fun m => mgr_disconnect m sid ns))) Q.
Proof.
  intros Hc HM Hp Hn Hin HQ. apply hp_finally. apply hp_bind.
  eapply hp_conseq; [apply trigger_event_frame; auto|].
  intros r s2 e1 [HM2 HF].
  assert (G : hp s2 (set_mg (fun m => mgr_disconnect m sid ns))
                (fun rf s3 e2 => forall r0, Q r0 s3 (e1 ++ e2))).
  { apply hp_set_mg. intros r0.
    destruct (mgr_disconnect_spec _ _ _ sid ns (mid_mg _ HM2)) as (A & B & C & D & F & G).
    assert (Hn2 : nroom (mg s2) ns = Some b) by (rewrite (hf_nroom _ _ HF); auto).
    destruct (nroom_rmem _ _ _ _ _ _ _ (mid_mg _ HM2) Hn2 Hin) as (rm2 & Hr2 & Hm2).
    destruct (mi_ns _ _ _ (mid_mg _ HM2) _ _ Hr2) as [_ Hi2].
    apply HQ; cbn [upd_mg mg environ binpkt live fresh].
    - split; [apply Mid_upd_mg; auto|]. cbn [upd_mg mg].
      eapply mgr_disconnect_pending_one; eauto. rewrite (hf_pending _ _ HF). auto.
    - destruct (sid_from_eio (mgr_disconnect (mg s2) sid ns) e ns) as [sid3|] eqn:Hs3; [|reflexivity]. exfalso.
      destruct (sid_from_eio_some _ _ _ _ _ _ A Hs3) as (b3 & rm3 & _ & _ & _ & Hr3 & Hm3).
      destruct (C _ _ _ _ Hr3 Hm3) as (Hne & rm2' & Hr2' & Hm2').
      assert (rm2' = rm2) by congruence. subst. apply Hne. eapply ri_inj; eauto.
    - intros ns0 Hne. unfold nroom, room_of. rewrite (B _ Hne). apply (hf_nroom _ _ HF).
    - intros k Hk. rewrite <- (hf_callbacks _ _ HF). auto.
    - apply G. congruence.
    - apply (hf_environ _ _ HF).
    - apply (hf_binpkt _ _ HF).
    - apply (hf_live _ _ HF).
    - apply (hf_fresh _ _ HF). }
  destruct r as [v|x]; [apply hp_ret|]; (eapply hp_conseq; [exact G|]); intros rf s3 e2 HH; rewrite ?app_nil_r; apply HH.
Qed.

Lemma handle_disconnect_spec c e pns reason s :
  cfg_ok c -> Inv s ->
  hp s (handle_disconnect c e pns reason) (fun _ s' _ => hd_post e (ns_or_default pns) s s').
Proof.
  intros Hc [HM Hp]. unfold handle_disconnect. set (ns := ns_or_default pns). apply hp_getS_bind.
  assert (Hsame : hd_post e ns s s -> forall u, hp s (ret u : SM unit) (fun _ s' _ => hd_post e ns s s')).
  { intros HH u. apply hp_ret. exact HH. }
  destruct (sid_from_eio (mg s) e ns) as [sid|] eqn:Hsid.
  - destruct (sid_from_eio_some _ _ _ _ _ _ (mid_mg _ HM) Hsid) as (b & rm & Hn & Hin & Hg & Hr & Hm).
    rewrite (is_connected_nopending _ _ _ _ _ Hp Hn Hg). cbn [negb].
    apply hp_bind. apply hp_with_mg. rewrite (pre_disconnect_run _ _ _ _ Hp Hn). cbn [fst snd].
    apply hp_bind. apply hp_lift. cbn beta iota.
    set (s1 := upd_mg s (mkMgr (rooms (mg s)) [(ns, [sid])] (callbacks (mg s)))).
    apply (disconnect_tail c _ ns sid e _ s1 b); auto.
    + apply Mid_upd_mg; auto. apply (MInv_ext _ _ (mg s)); auto. apply (mid_mg _ HM).
    + intros r s3 es A1 A2 A3 A4 A5 A6 A7 A8 A9. split; auto.
      intros sid' Heq. assert (sid' = sid) by congruence. subst sid'. auto.
  - cbn [is_connected negb]. apply hp_ret. split; auto.
    + split; auto.
    + intros sid' Heq. congruence.
Qed.

(* ---- transport end ---- *)
Lemma hp_forM_keep_cons {A} (x : A) r (f : A -> SM unit) first s (Q : Post (option exn)) :
  hp s (f x) (fun _ s1 e1 => forall first', hp s1 (forM_keep r f first') (fun out s2 e2 => Q out s2 (e1 ++ e2))) ->
  hp s (forM_keep (x :: r) f first) Q.
Proof.
  unfold hp. cbn [forM_keep]. destruct (f x s) as [[s1 e1] res]. intros H.
  specialize (H (match first, res with None, Err e => Some e | _, _ => first end)).
  destruct (forM_keep r f _ s1) as [[s2 e2] out]. exact H.
Qed.

Lemma sid_from_eio_nroom m m' e n : nroom m' n = nroom m n -> sid_from_eio m' e n = sid_from_eio m e n.
Proof. unfold sid_from_eio, nroom. intros ->. reflexivity. Qed.

Section XKeys.
  Context {V : Type}.
  Lemma xkeys_nodup (l : list (str * V)) : keys_ok str_eqb l -> NoDup (map fst l).
  Proof.
    induction l as [|[k v] l IH]; cbn [keys_ok map fst]; [constructor|].
    intros (_ & Hno & Hok). constructor; [|auto]. intros Hin. specialize (Hno _ Hin).
    rewrite str_eqb_refl in Hno. discriminate.
  Qed.
End XKeys.

Lemma close_loop c e reason s0 : cfg_ok c -> forall rest s first,
  NoDup rest -> (forall n, In n rest -> n <> []) ->
  Inv s ->
  (forall n, ~ In n rest -> sid_from_eio (mg s) e n = None) ->
  (forall n, In n rest -> nroom (mg s) n = nroom (mg s0) n) ->
  (forall n sid, ~ In n rest -> sid_from_eio (mg s0) e n = Some sid -> ~ In sid (map fst (callbacks (mg s)))) ->
  (forall k, In k (map fst (callbacks (mg s))) -> In k (map fst (callbacks (mg s0)))) ->
  environ s = environ s0 -> binpkt s = binpkt s0 -> live s = live s0 -> fresh s = fresh s0 ->
  hp s (forM_keep rest (fun n => handle_disconnect c e (Some n) reason) first)
     (fun r s' _ =>
        (exists o, r = Ok o) /\
        Inv s' /\ (forall n, sid_from_eio (mg s') e n = None) /\
        (forall n sid, sid_from_eio (mg s0) e n = Some sid -> ~ In sid (map fst (callbacks (mg s')))) /\
        (forall k, In k (map fst (callbacks (mg s'))) -> In k (map fst (callbacks (mg s0)))) /\
        environ s' = environ s0 /\ binpkt s' = binpkt s0 /\ live s' = live s0 /\ fresh s' = fresh s0).
Proof.
  intros Hc. induction rest as [|n rest IH]; intros s first Hnd Hne HI HA HB HC HD E1 E2 E3 E4.
  - cbn [forM_keep]. apply hp_ret. splits; eauto.
  - apply hp_forM_keep_cons. inversion Hnd as [|? ? Hnotin Hnd']; subst.
    assert (Hn : ns_or_default (Some n) = n).
    { destruct n as [|ch n']; [exfalso; apply (Hne []); [left|]; reflexivity|reflexivity]. }
    eapply hp_conseq; [apply handle_disconnect_spec; auto|]. rewrite Hn.
    intros r s1 e1 P first'. eapply hp_conseq.
    + apply (IH s1 first'); auto.
      * intros n' Hin. apply Hne. right; auto.
      * apply (hd_inv _ _ _ _ P).
      * intros n' Hn'. destruct (list_eq_dec N.eq_dec n' n) as [->|Hd]; [apply (hd_gone _ _ _ _ P)|].
        rewrite (sid_from_eio_nroom _ _ _ _ (hd_other _ _ _ _ P _ Hd)). apply HA. intros [<-|Hin]; auto.
      * intros n' Hn'. assert (Hd : n' <> n) by (intros ->; contradiction).
        rewrite (hd_other _ _ _ _ P _ Hd). apply HB. right; auto.
      * intros n' sid Hn' Hs0. destruct (list_eq_dec N.eq_dec n' n) as [->|Hd].
        -- apply (hd_cbgone _ _ _ _ P). rewrite (sid_from_eio_nroom (mg s0) (mg s)); [auto|]. apply HB. left; reflexivity.
        -- intros Hk. apply (hd_cbsub _ _ _ _ P) in Hk. revert Hk. apply (HC n'); auto. intros [<-|Hin]; auto.
      * intros k Hk. apply HD. apply (hd_cbsub _ _ _ _ P). auto.
      * rewrite (hd_environ _ _ _ _ P). auto.
      * rewrite (hd_binpkt _ _ _ _ P). auto.
      * rewrite (hd_live _ _ _ _ P). auto.
      * rewrite (hd_fresh _ _ _ _ P). auto.
    + intros out s2 e2 HH. exact HH.
Qed.

Lemma MInv_live_shrink lv lv' fr m :
  MInv lv fr m -> (forall ns rm r s x, ns_rooms m ns = Some rm -> rmem rm r s x -> In x lv') -> MInv lv' fr m.
Proof.
  intros [H1 H2 H3 H4] Hl. split; auto. intros ns rm Hr. destruct (H2 _ _ Hr) as [A [B1 B2 B3 B4 B5 B6]].
  split; [auto|]. split; auto. intros r s x Hm. eapply Hl; eauto.
Qed.

Definition drop_live (e : str) (lv : list str) : list str := filter (fun x => negb (str_eqb x e)) lv.
Lemma In_drop_live e lv x : In x (drop_live e lv) <-> In x lv /\ x <> e.
Proof.
  unfold drop_live. rewrite filter_In. split; intros [A B]; split; auto.
  - intros ->. rewrite str_eqb_refl in B. discriminate.
  - rewrite (eqb_neq _ str_eqb_eq); auto.
Qed.

Lemma keys_live_adel {V} e lv (l : list (str * V)) : keys_live lv l -> keys_live (drop_live e lv) (adel str_eqb l e).
Proof.
  intros [Hk Hl]. split; [apply keys_ok_adel; auto|]. intros k Hin.
  apply (xkeys_adel _ str_eqb_eq) in Hin as [Hne Hin]; auto. apply In_drop_live. auto.
Qed.

(* the state after the transport-end operation *)
Record close_post (e : str) (s s' : srv) : Prop := mkClosePost {
  cp_inv : Inv s';
  cp_live : live s' = drop_live e (live s);
  cp_fresh : fresh s' = fresh s;
  cp_callbacks : forall n sid, sid_from_eio (mg s) e n = Some sid -> ~ In sid (map fst (callbacks (mg s')));
  cp_cbsub : forall k, In k (map fst (callbacks (mg s'))) -> In k (map fst (callbacks (mg s)))
}.

Lemma step_close_spec c s e reason :
  cfg_ok c -> Inv s -> In e (live s) -> close_post e s (fst (step c s (EioClose e reason))).
Proof.
  intros Hc HI Hlive.
  assert (Hex : existsb (str_eqb e) (live s) = true).
  { apply existsb_exists. exists e. split; [auto|apply str_eqb_refl]. }
  assert (G : hp s (step_m c (EioClose e reason)) (fun _ s' _ => close_post e s s')).
  { cbn [step_m]. apply hp_getS_bind. rewrite Hex. apply hp_bind. apply hp_contain.
    unfold handle_eio_disconnect. apply hp_getS_bind. apply hp_bind.
    destruct HI as [HM Hp]. assert (HMI := mid_mg _ HM).
    eapply hp_conseq.
    - apply (close_loop c e reason s Hc (get_namespaces (mg s)) s None); auto.
      + apply xkeys_nodup. apply (mi_keys _ _ _ HMI).
      + intros n Hin. unfold get_namespaces in Hin. apply in_map_iff in Hin as ([n' rm] & <- & Hin).
        apply (keys_ok_aget _ _ _ _ (mi_keys _ _ _ HMI)) in Hin. apply (mi_ns _ _ _ HMI _ _ Hin).
      + split; auto.
      + intros n Hn. unfold sid_from_eio, room_of, ns_rooms.
        apply (xaget_None _ str_eqb_eq) in Hn. rewrite Hn. reflexivity.
      + intros n sid Hn Hs. exfalso. unfold sid_from_eio, room_of, ns_rooms in Hs.
        apply (xaget_None _ str_eqb_eq) in Hn. rewrite Hn in Hs. discriminate.
    - intros out0 s1 e1 ((out & ->) & [HM1 Hp1] & A & B & C & E1 & E2 & E3 & E4).
      assert (Fin : close_post e s (mkSrv (mg s1) (adel str_eqb (environ s1) e) (adel str_eqb (binpkt s1) e)
                                          (adel str_eqb (sessions s1) e)
                                          (filter (fun x => negb (str_eqb x e)) (live s1)) (fresh s1))).
      { fold (drop_live e (live s1)). split; cbn [mg live fresh]; auto; try congruence.
        - split; [|auto]. split; cbn [mg environ binpkt sessions live fresh].
          + eapply MInv_live_shrink; [apply (mid_mg _ HM1)|].
            intros ns rm r0 sd x Hr Hm. apply In_drop_live. split.
            * destruct (mi_ns _ _ _ (mid_mg _ HM1) _ _ Hr) as [_ Hi]. eapply ri_live; eauto.
            * intros ->. exact (sid_from_eio_none _ _ _ _ _ (mid_mg _ HM1) (A ns) _ _ _ Hr Hm).
          + apply keys_live_adel. apply (mid_env _ HM1).
          + apply keys_live_adel. apply (mid_bin _ HM1).
          + apply keys_live_adel. apply (mid_ses _ HM1). }
      apply hp_bind. apply hp_modify.
      destruct out as [x|]; [apply hp_raise|apply hp_ret]; apply hp_modify;
        cbn [mg environ binpkt sessions live fresh]; exact Fin. }
  unfold step. unfold hp in G. destruct (step_m c (EioClose e reason) s) as [[s' es] r]. exact G.
Qed.

Lemma step_close_dead c s e reason : ~ In e (live s) -> step c s (EioClose e reason) = (s, []).
Proof.
  intros Hn. unfold step. cbn [step_m]. unfold bindM, getS.
  destruct (existsb (str_eqb e) (live s)) eqn:Ex; [|reflexivity].
  exfalso. apply existsb_exists in Ex as (x & Hx & Hex). apply str_eqb_eq in Hex. subst. auto.
Qed.
(* ---- incoming packets ---- *)
Lemma Inv_Mid s : Inv s -> Mid s.
Proof. intros [H _]. exact H. Qed.
Lemma Inv_hstep s s' : Inv s -> Mid s' -> hframe s s' -> Inv s'.
Proof. intros [_ Hp] HM HF. split; [auto|]. rewrite (hf_pending _ _ HF). auto. Qed.

Lemma pres_with_mg {A} (J : srv -> Prop) E (f : mgr -> mgr * A) :
  (forall s, J s -> J (upd_mg s (fst (f (mg s))))) -> pres J E (with_mg f).
Proof. intros Hf s H. apply hp_with_mg. split; [auto|constructor]. Qed.
Lemma pres_set_mg (J : srv -> Prop) E f :
  (forall s, J s -> J (upd_mg s (f (mg s)))) -> pres J E (set_mg f).
Proof. intros Hf s H. apply hp_set_mg. split; [auto|constructor]. Qed.

Lemma send_packet_any J c eio t data ns id : pres J anyeff (send_packet c eio t data ns id).
Proof. apply send_packet_pres. intros; exact I. Qed.

Lemma handle_event_Inv c eio pns id data : cfg_ok c -> pres Inv anyeff (handle_event c eio pns id data).
Proof.
  intros Hc. unfold handle_event. apply pres_bind; [apply pres_getS|]. intros s0.
  apply pres_bind; [apply pres_lift|]. intros ea.
  destruct (negb _); [apply pres_ret|].
  destruct (sid_from_eio (mg s0) eio (ns_or_default pns)) as [sid|]; [|apply pres_ret].
  apply pres_bind; [apply (trigger_event_J c Hc Inv Inv_Mid Inv_hstep)|]. intros r.
  destruct r as [v|]; [|apply pres_ret]. destruct id as [i|]; [|apply pres_ret]. apply send_packet_any.
Qed.

Lemma handle_ack_Inv c eio pns id data : pres Inv anyeff (handle_ack c eio pns id data).
Proof.
  unfold handle_ack. apply pres_bind; [apply pres_getS|]. intros s0.
  apply pres_bind.
  - apply pres_with_mg. intros s [HM Hp].
    destruct (trigger_callback_MInv _ _ _ (sid_from_eio (mg s0) eio (ns_or_default pns)) id (mid_mg _ HM)) as (A & B & C & D).
    split; [apply Mid_upd_mg; auto|]. cbn [upd_mg mg]. congruence.
  - intros t. destruct t; [apply pres_ret|]. apply pres_bind; [apply pres_lift|]. intros args.
    apply pres_tell. exact I.
Qed.

Lemma Inv_fresh_succ s :
  Inv s -> Inv (mkSrv (mg s) (environ s) (binpkt s) (sessions s) (live s) (fresh s + 1)).
Proof.
  intros [[H1 H2 H3 H4] Hp]. split; [|auto]. split; auto. cbn [mg live fresh].
  eapply MInv_mono; eauto. lia.
Qed.

Lemma handle_connect_Inv c eio pns data s :
  cfg_ok c -> Inv s -> In eio (live s) ->
  hp s (handle_connect c eio pns data) (fun _ s' _ => Inv s').
Proof.
  intros Hc HI Hlive. unfold handle_connect. set (ns := ns_or_default pns).
  assert (Hns : ns <> []).
  { unfold ns, ns_or_default. destruct pns as [[|ch r]|]; discriminate. }
  apply hp_getS_bind. apply hp_bind.
  (* the state after manager.connect *)
  assert (G1 : hp s (if served c ns
                     then putS (mkSrv (mg s) (environ s) (binpkt s) (sessions s) (live s) (fresh s + 1)) ;;;
                          with_mg (fun m => mgr_connect m eio ns (sid_name (fresh s)))
                     else ret None)
                  (fun r s1 es => Inv s1 /\ live s1 = live s /\ environ s1 = environ s /\ es = [] /\
                     (r = Ok None \/
                      (r = Ok (Some (sid_name (fresh s))) /\
                       exists b, nroom (mg s1) ns = Some b /\ In (sid_name (fresh s), eio) b)))).
  { destruct (served c ns).
    - apply hp_bind. apply hp_putS. apply hp_with_mg. cbn [mg environ binpkt sessions live fresh upd_mg].
      destruct HI as [HM Hp].
      destruct (mgr_connect_spec _ _ _ eio ns (mid_mg _ HM) Hlive Hns) as (A & B & C & D & F & G & K).
      splits; auto.
      + split; [|cbn [mg upd_mg]; congruence]. destruct HM as [H1 H2 H3 H4]. split; auto.
      + destruct G as [G|G]; rewrite G; [left; reflexivity|right]. split; [reflexivity|].
        destruct (K G) as (rm' & Hr' & Hm' & _).
        destruct (rmem_nroom _ _ _ _ _ _ _ A Hr' Hm') as (b & Hn & _ & Hin). exists b. auto.
    - apply hp_ret. splits; auto. }
  eapply hp_conseq; [exact G1|]. clear G1.
  intros r s1 es (HI1 & Hl1 & He1 & -> & Hcase).
  destruct Hcase as [->|(-> & b & Hn1 & Hin1)].
  { eapply hp_conseq; [apply (send_packet_any Inv); auto|]. intros ? ? ? [? _]. auto. }
  set (sid := sid_name (fresh s)) in *.
  (* everything up to the verdict keeps the frame of s1 *)
  set (J := fun s' => Mid s' /\ hframe s1 s').
  assert (JM : forall s', J s' -> Mid s') by (intros s' [A _]; exact A).
  assert (JS : forall s' s'', J s' -> Mid s'' -> hframe s' s'' -> J s'').
  { intros s' s'' [_ A] B C. split; [auto|]. eapply hframe_trans; eauto. }
  assert (J1 : J s1) by (split; [apply HI1|apply hframe_refl]).
  assert (JInv : forall s', J s' -> Inv s').
  { intros s' [A B]. split; [auto|]. rewrite (hf_pending _ _ B). apply HI1. }
  apply hp_bind. eapply hp_conseq.
  { assert (P : pres J anyeff (if always_connect c then send_packet c (Some eio) CONNECT (sid_dict sid) ns None else ret tt)).
    { destruct (always_connect c); [apply send_packet_any|apply pres_ret]. }
    apply P. exact J1. }
  intros [u|x] s2 e2 [J2 _]; [|apply JInv; auto].
  apply hp_bind. eapply hp_conseq.
  { assert (P : pres J anyeff (match aget str_eqb (environ s) eio with Some e => ret e | None => raise KeyError end)).
    { destruct (aget str_eqb (environ s) eio); [apply pres_ret|apply pres_raise]. }
    apply P. exact J2. }
  intros [env|x] s3 e3 [J3 _]; [|apply JInv; auto].
  apply hp_bind. eapply hp_conseq.
  { refine ((_ : pres J anyeff _) s3 J3).
    apply pres_catch.
    - apply pres_bind; [|intros r; apply pres_ret].
      destruct (truthy data); [apply (trigger_event_J c Hc J JM JS)|].
      apply pres_catch; [apply (trigger_event_J c Hc J JM JS)|].
      intros x k Hx. destruct x; try discriminate. injection Hx as <-. apply (trigger_event_J c Hc J JM JS).
    - intros x k Hx. destruct x; try discriminate. injection Hx as <-. apply pres_ret. }
  intros [[success fail_reason]|x] s4 e4 [J4 _]; [|apply JInv; auto].
  destruct (match success with Some v => pv_eqb v (PBool false) | None => false end).
  2:{ eapply hp_conseq.
      - refine ((_ : pres J anyeff _) s4 J4). destruct (always_connect c); [apply pres_ret|apply send_packet_any].
      - intros ? ? ? [? _]. apply JInv; auto. }
  (* refusal: the sid is forgotten in the finally clause whatever the send does *)
  destruct J4 as [M4 F4].
  assert (Hn4 : nroom (mg s4) ns = Some b) by (rewrite (hf_nroom _ _ F4); auto).
  assert (Hp4 : pending (mg s4) = []) by (rewrite (hf_pending _ _ F4); apply HI1).
  destruct (nroom_rmem _ _ _ _ _ _ _ (mid_mg _ M4) Hn4 Hin1) as (rm4 & Hr4 & Hm4).
  apply hp_finally. destruct (always_connect c).
  - apply hp_bind. apply hp_with_mg. rewrite (pre_disconnect_run _ _ _ _ Hp4 Hn4). cbn [fst snd].
    set (s5 := upd_mg s4 (mkMgr (rooms (mg s4)) [(ns, [sid])] (callbacks (mg s4)))).
    assert (M5 : Mid s5).
    { apply Mid_upd_mg; auto. apply (MInv_ext _ _ (mg s4)); auto. apply (mid_mg _ M4). }
    apply hp_bind. apply hp_lift. cbn beta iota.
    eapply hp_conseq; [apply (send_packet_any (fun s' => s' = s5)); reflexivity|].
    intros r5 s5' e5 [-> _]. apply hp_set_mg.
    destruct (mgr_disconnect_spec _ _ _ sid ns (mid_mg _ M5)) as (A & _).
    split; [apply Mid_upd_mg; auto|]. cbn [upd_mg mg]. eapply mgr_disconnect_pending_one; eauto.
  - eapply hp_conseq; [apply (send_packet_any (fun s' => s' = s4)); reflexivity|].
    intros r5 s5' e5 [-> _]. apply hp_set_mg.
    destruct (mgr_disconnect_spec _ _ _ sid ns (mid_mg _ M4)) as (A & _).
    split; [apply Mid_upd_mg; auto|]. cbn [upd_mg mg]. apply mgr_disconnect_pending_nil; auto.
Qed.

Lemma Inv_binpkt_adel s e :
  Inv s -> Inv (mkSrv (mg s) (environ s) (adel str_eqb (binpkt s) e) (sessions s) (live s) (fresh s)).
Proof.
  intros [[H1 H2 [H3 H3'] H4] Hp]. split; [|auto]. split; auto. cbn [binpkt live]. split.
  - apply keys_ok_adel; auto.
  - intros k Hk. apply In_adel_keys in Hk. auto.
Qed.
Lemma Inv_binpkt_aset s e r : In e (live s) ->
  Inv s -> Inv (mkSrv (mg s) (environ s) (aset str_eqb (binpkt s) e r) (sessions s) (live s) (fresh s)).
Proof.
  intros He [[H1 H2 [H3 H3'] H4] Hp]. split; [|auto]. split; auto. cbn [binpkt live]. split.
  - apply (xkeys_ok_aset _ str_eqb_eq); auto.
  - intros k Hk. apply (xkeys_aset _ str_eqb_eq) in Hk as [Hk| ->]; auto.
Qed.

Lemma handle_eio_message_Inv c loads eio payload s :
  cfg_ok c -> Inv s -> In eio (live s) ->
  hp s (handle_eio_message c loads eio payload) (fun _ s' _ => Inv s').
Proof.
  intros Hc HI Hlive. unfold handle_eio_message. apply hp_getS_bind.
  assert (Hev : forall pns id data s1, Inv s1 -> hp s1 (handle_event c eio pns id data) (fun _ s' _ => Inv s')).
  { intros pns id data s1 H1. eapply hp_conseq; [apply handle_event_Inv; auto|]. intros ? ? ? [? _]. auto. }
  assert (Hack : forall pns id data s1, Inv s1 -> hp s1 (handle_ack c eio pns id data) (fun _ s' _ => Inv s')).
  { intros pns id data s1 H1. eapply hp_conseq; [apply handle_ack_Inv; auto|]. intros ? ? ? [? _]. auto. }
  destruct (aget str_eqb (binpkt s) eio) as [r|].
  - destruct (add_attachment r payload) as [[r' [|]]|x].
    + apply hp_bind. unfold set_binpkt. apply hp_modify.
      destruct (type_is (rp r') BINARY_EVENT); [apply Hev|apply Hack]; apply Inv_binpkt_adel; auto.
    + unfold set_binpkt. apply hp_modify. apply Inv_binpkt_aset; auto.
    + apply hp_bind. destruct (N.leb _ _).
      * apply hp_ret. apply hp_raise. auto.
      * unfold set_binpkt. apply hp_modify. apply hp_raise. apply Inv_binpkt_aset; auto.
  - apply hp_bind. apply hp_lift.
    destruct (decode_any c loads payload) as [r|x]; [|auto].
    destruct (type_is (rp r) CONNECT); [apply handle_connect_Inv; auto|].
    destruct (type_is (rp r) DISCONNECT).
    { eapply hp_conseq; [apply handle_disconnect_spec; auto|]. intros ? ? ? P. apply (hd_inv _ _ _ _ P). }
    destruct (type_is (rp r) EVENT); [apply Hev; auto|].
    destruct (type_is (rp r) ACK); [apply Hack; auto|].
    destruct (type_is (rp r) BINARY_EVENT || type_is (rp r) BINARY_ACK).
    + unfold set_binpkt. apply hp_modify. apply Inv_binpkt_aset; auto.
    + apply hp_raise. auto.
Qed.

(* ---- API operations ---- *)
Definition op_ok (o : op) : Prop :=
  match o with
  | ApiEnterRoom _ room _ => room_ok room
  | ApiLeaveRoom _ room _ => room <> PNone
  | ApiCloseRoom room _ => room <> PNone
  | _ => True
  end.

Lemma In_merge_members acc b s e : In (s, e) (merge_members acc b) -> In (s, e) acc \/ In (s, e) b.
Proof.
  unfold merge_members. revert acc. induction b as [|[s0 e0] b IH]; intros acc; cbn [fold_left]; [auto|].
  intros H. destruct (IH _ H) as [H1|H1]; [|right; right; exact H1].
  cbn [fst snd] in H1. apply In_aset in H1 as [H1|(-> & [(v0 & _ & _ & Hk)|(-> & _)])]; [auto| |].
  - apply str_eqb_eq in Hk. subst. right; left; reflexivity.
  - right; left; reflexivity.
Qed.

Lemma participants_members lv fr m ns room parts :
  MInv lv fr m -> participants m ns room = Ok parts ->
  forall s e, In (s, e) parts -> exists rm, ns_rooms m ns = Some rm /\ rmem rm PNone s e.
Proof.
  intros H Hp s e Hin.
  assert (Hlook : forall r, In (s, e) (match room_of m ns r with Some b => b | None => [] end) ->
                            exists rm, ns_rooms m ns = Some rm /\ rmem rm PNone s e).
  { intros r Hl. unfold room_of in Hl. destruct (ns_rooms m ns) as [rm|] eqn:Hr; [|destruct Hl].
    destruct (aget room_eqb rm r) as [b|] eqn:Hb; [|destruct Hl]. exists rm. split; [reflexivity|].
    apply aget_In in Hb as (r' & Hin' & _). destruct (mi_ns _ _ _ H _ _ Hr) as [_ Hi].
    apply (ri_sub _ _ _ Hi r'). exists b. auto. }
  assert (Hfold : forall rs acc,
             In (s, e) (fold_left (fun a r => merge_members a (match room_of m ns r with Some b => b | None => [] end)) rs acc) ->
             In (s, e) acc \/ exists r, In (s, e) (match room_of m ns r with Some b => b | None => [] end)).
  { induction rs as [|r1 rs IH]; intros acc; cbn [fold_left]; [auto|]. intros Hf.
    destruct (IH _ Hf) as [H1|H1]; [|auto]. apply In_merge_members in H1 as [H1|H1]; eauto. }
  unfold participants in Hp.
  destruct room as [| | | | | |l|l| |]; try discriminate;
    try (injection Hp as <-; eapply Hlook; eauto; fail).
  - destruct l as [|r0 rs]; [discriminate|]. injection Hp as <-.
    apply Hfold in Hin as [H1|[r H1]]; eapply Hlook; eauto.
  - destruct l as [|r0 rs]; [discriminate|]. injection Hp as <-.
    apply Hfold in Hin as [H1|[r H1]]; eapply Hlook; eauto.
Qed.

Lemma mgr_emit_Inv c ev data ns room skip cb : pres Inv anyeff (mgr_emit c ev data ns room skip cb).
Proof.
  destruct cb as [cbref|]; [|apply mgr_emit_nocb_pres; intros; exact I].
  unfold mgr_emit. apply pres_getS_bind. intros s0 HI0.
  destruct (ns_rooms (mg s0) ns) eqn:Hns; [|apply hp_ret; split; [auto|constructor]].
  apply hp_bind. apply hp_lift. destruct (participants (mg s0) ns room) as [parts|x] eqn:Hparts; [|split; [auto|constructor]].
  set (J := fun s' => Inv s' /\ rooms (mg s') = rooms (mg s0)).
  assert (P : pres J anyeff
     (forM parts (fun se =>
        if skipped (skip_list skip) (fst se) then ret tt else
        r <~ with_mg (fun m => generate_ack_id m (fst se) cbref) ;; id <~ lift r ;;
        send_packet c (Some (snd se)) EVENT (PList (ev :: pack data)) ns (Some (Z.of_N id))))).
  { apply pres_forM. intros [sd e] Hin. cbn [fst snd]. destruct (skipped _ _); [apply pres_ret|].
    apply pres_bind.
    - apply pres_with_mg. intros s [[HM Hp] Hr].
      destruct (participants_members _ _ _ _ _ _ (mid_mg _ (proj1 HI0)) Hparts _ _ Hin) as (rm & Hrm & Hm).
      assert (Hmem : exists ns' rm' e', ns_rooms (mg s) ns' = Some rm' /\ rmem rm' PNone sd e').
      { exists ns, rm, e. split; [|auto]. unfold ns_rooms in *. rewrite Hr. auto. }
      destruct (generate_ack_id_MInv _ _ _ sd cbref (mid_mg _ HM) Hmem) as (A & B & C).
      split; [split|]; cbn [upd_mg mg]; try congruence. apply Mid_upd_mg; auto.
    - intros rr. apply pres_bind; [apply pres_lift|]. intros id. apply send_packet_any. }
  eapply hp_conseq; [apply P; split; auto|]. intros rr s' es [[A _] B]. auto.
Qed.

Lemma send_packet_disconnect_ok c eio ns s :
  hp s (send_packet c eio DISCONNECT PNone ns None)
     (fun r s' _ => s' = s /\ match r with Ok _ => True | Err _ => False end).
Proof.
  unfold send_packet, ctor. cbn [has_bytes]. rewrite andb_false_r.
  apply hp_bind. apply hp_lift. apply hp_bind. apply hp_lift.
  unfold encode_pieces, encode. cbn [ptype pdata pns pid].
  destruct (uses_binary c); cbn; (destruct eio as [e|]; [|apply hp_ret; auto]);
    unfold hp; rewrite send_pieces_run; auto.
Qed.

Lemma api_disconnect_Inv c sid pns s :
  cfg_ok c -> Inv s -> hp s (api_disconnect c sid pns) (fun _ s' _ => Inv s').
Proof.
  intros Hc [HM Hp]. unfold api_disconnect. set (ns := ns_or_default pns). apply hp_getS_bind.
  destruct (is_connected (mg s) (Some sid) ns) eqn:Hcon; cbn [negb]; [|apply hp_ret; split; auto].
  unfold is_connected in Hcon. destruct (is_pending (mg s) sid ns); [discriminate|].
  fold (nroom (mg s) ns) in Hcon. destruct (nroom (mg s) ns) as [b|] eqn:Hn; [|discriminate].
  destruct (bd_get b sid) as [e|] eqn:Hg; [|discriminate].
  assert (Hin : In (sid, e) b) by (apply (xaget_In _ str_eqb_eq); exact Hg).
  apply hp_bind. apply hp_with_mg. rewrite (pre_disconnect_run _ _ _ _ Hp Hn). cbn [fst snd].
  apply hp_bind. apply hp_lift. cbn beta iota.
  set (s1 := upd_mg s (mkMgr (rooms (mg s)) [(ns, [sid])] (callbacks (mg s)))).
  assert (M1 : Mid s1).
  { apply Mid_upd_mg; auto. apply (MInv_ext _ _ (mg s)); auto. apply (mid_mg _ HM). }
  apply hp_bind. eapply hp_conseq; [apply (send_packet_disconnect_ok c (bd_get b sid) ns s1)|].
  intros r1 s1' e1 [-> Hok].
  assert (G : hp s1 (finallyM (_ <~ trigger_event c (PStr (s2l "disconnect")) ns [PStr sid; r_server_disconnect] ;; ret tt)
                             (set_mg (fun m => mgr_disconnect m sid ns))) (fun _ s' _ => Inv s')).
  { apply (disconnect_tail c _ ns sid e _ s1 b); auto. }
  destruct r1 as [u|x]; [exact G|]. exfalso. exact Hok.
Qed.

Lemma hp_step c s o (Q : srv -> list eff -> Prop) :
  hp s (step_m c o) (fun _ s' es => Q s' es) -> Q (fst (step c s o)) (snd (step c s o)).
Proof. unfold hp, step. destruct (step_m c o s) as [[s' es] r]. auto. Qed.

Lemma api_Inv (m : SM unit) s : hp s m (fun _ s' _ => Inv s') -> hp s (api m) (fun _ s' _ => Inv s').
Proof. intros H. apply hp_api. eapply hp_conseq; [exact H|]. intros [u|x] s' es HI; exact HI. Qed.

Theorem step_Inv c s o : cfg_ok c -> op_ok o -> Inv s -> Inv (fst (step c s o)).
Proof.
  intros Hc Ho HI. apply (hp_step c s o (fun s' _ => Inv s')).
  destruct o as [eio env|eio payload tbl|eio reason|ev data to room skip ns cb|sid room ns|sid room ns|room ns
                 |sid ns|sid ns|sid ns|sid v ns|sid ns k v]; cbn [step_m op_ok] in *.
  - (* EioConnect *)
    apply hp_modify. destruct HI as [[H1 [H2 H2'] [H3 H3'] [H4 H4']] Hp]. split; [|auto].
    assert (Hsub : forall x, In x (live s) -> In x (live s ++ [eio])) by (intros; apply in_or_app; auto).
    split; cbn [mg environ binpkt sessions live fresh].
    + eapply MInv_mono; eauto. lia.
    + split; [apply (xkeys_ok_aset _ str_eqb_eq); auto|]. intros k Hk.
      apply (xkeys_aset _ str_eqb_eq) in Hk as [Hk| ->]; [auto|]. apply in_or_app. right. left. reflexivity.
    + split; auto.
    + split; auto.
  - (* EioMessage *)
    apply hp_getS_bind. destruct (existsb (str_eqb eio) (live s)) eqn:Ex; [|apply hp_ret; auto].
    apply hp_contain. apply handle_eio_message_Inv; auto.
    apply existsb_exists in Ex as (x & Hx & Hex). apply str_eqb_eq in Hex. subst. auto.
  - (* EioClose *)
    assert (G : Inv (fst (step c s (EioClose eio reason)))).
    { destruct (in_dec (list_eq_dec N.eq_dec) eio (live s)) as [Hin|Hnin].
      - apply (cp_inv _ _ _ (step_close_spec c s eio reason Hc HI Hin)).
      - rewrite step_close_dead by auto. exact HI. }
    unfold step in G. cbn [step_m] in G. unfold hp.
    destruct ((s0 <~ getS ;; _) s) as [[s' es] r]. exact G.
  - (* ApiEmit *)
    apply api_Inv. unfold api_emit. eapply hp_conseq; [apply mgr_emit_Inv; auto|]. intros ? ? ? [? _]. auto.
  - (* ApiEnterRoom *)
    apply api_Inv. apply hp_bind. apply hp_with_mg. destruct HI as [HM Hp].
    destruct (enter_room_spec _ _ _ sid (ns_or_default ns) room (mid_mg _ HM) Ho) as (A & B & C & D).
    assert (G : Inv (upd_mg s (fst (enter_room (mg s) sid (ns_or_default ns) room)))).
    { split; [apply Mid_upd_mg; auto|]. cbn [upd_mg mg]. congruence. }
    destruct (snd (enter_room (mg s) sid (ns_or_default ns) room)); [apply hp_lift|]; exact G.
  - (* ApiLeaveRoom *)
    apply api_Inv. apply hp_set_mg. destruct HI as [HM Hp]. split.
    + apply Mid_upd_mg; auto. apply MInv_leave_room; auto. apply (mid_mg _ HM).
    + cbn [upd_mg mg]. rewrite leave_room_pending. auto.
  - (* ApiCloseRoom *)
    apply api_Inv. apply hp_set_mg. destruct HI as [HM Hp].
    destruct (close_room_spec _ _ _ room (ns_or_default ns) (mid_mg _ HM) Ho) as (A & B & C & D). split.
    + apply Mid_upd_mg; auto.
    + cbn [upd_mg mg]. congruence.
  - (* ApiRooms *)
    apply hp_getS_bind. apply hp_tell. auto.
  - (* ApiDisconnect *)
    apply api_Inv. apply api_disconnect_Inv; auto.
  - (* ApiGetSession *)
    apply api_Inv. apply hp_bind. eapply hp_conseq; [apply api_get_session_frame; apply HI|].
    intros [v|x] s' es [HM HF]; [apply hp_tell|]; eapply Inv_hstep; eauto.
  - (* ApiSaveSession *)
    apply api_Inv. eapply hp_conseq; [apply api_save_session_frame; apply HI|].
    intros r s' es [HM HF]. eapply Inv_hstep; eauto.
  - (* ApiSessionSet *)
    apply api_Inv. apply hp_bind. eapply hp_conseq; [apply api_get_session_frame; apply HI|].
    intros [d|x] s' es [HM HF]; [|eapply Inv_hstep; eauto].
    assert (HI' : Inv s') by (eapply Inv_hstep; eauto).
    eapply hp_conseq; [apply api_save_session_frame; apply HI'|].
    intros r s'' es' [HM' HF']. eapply Inv_hstep; eauto.
Qed.

Lemma run_cons c s o ops :
  run c s (o :: ops) = (fst (run c (fst (step c s o)) ops), snd (step c s o) :: snd (run c (fst (step c s o)) ops)).
Proof. cbn [run]. destruct (step c s o) as [s1 e]. cbn [fst snd]. destruct (run c s1 ops). reflexivity. Qed.

Theorem run_Inv c ops : cfg_ok c -> Forall op_ok ops -> forall s, Inv s -> Inv (fst (run c s ops)).
Proof.
  intros Hc Hops. induction Hops as [|o ops Ho _ IH]; intros s HI; [exact HI|].
  rewrite run_cons. cbn [fst]. apply IH. apply step_Inv; auto.
Qed.
