(* Reachable-state invariant of the server model (Server.v) and its preservation by every
   operation, whatever the handler scripts do.  Proofs only; no definition of the model is
   changed here.

   Layout:
     1. weakest-precondition rules for the state/effect/exception monad
     2. facts about insertion-ordered association lists (aget / aset / adel)
     3. room maps: membership, well-formedness, the invariant of one namespace
     4. manager operations preserve the manager invariant (MInv)
     5. server invariant (Mid: holds even inside handlers; Inv: at operation boundaries)
     6. the handler machinery preserves any predicate that every scripted action preserves
     7. every operation preserves Inv *)
From VT Require Export Server.Server.
From Coq Require Import Lia.
Open Scope N_scope.

(* ------------------------------------------------------------------------------------ *)
(** * 1. Weakest-precondition rules *)

Definition Post (A : Type) := Res A -> srv -> list eff -> Prop.
Definition hp {A} (s : srv) (m : SM A) (Q : Post A) : Prop :=
  match m s with (s', es, r) => Q r s' es end.

Lemma hp_conseq {A} s (m : SM A) (Q1 Q : Post A) :
  hp s m Q1 -> (forall r s' es, Q1 r s' es -> Q r s' es) -> hp s m Q.
Proof. unfold hp. destruct (m s) as [[s' es] r]. auto. Qed.

Lemma hp_ret {A} s (a : A) (Q : Post A) : Q (Ok a) s [] -> hp s (ret a) Q.
Proof. exact (fun H => H). Qed.
Lemma hp_raise {A} s x (Q : Post A) : Q (Err x) s [] -> hp s (raise x) Q.
Proof. exact (fun H => H). Qed.
Lemma hp_lift {A} s (r : Res A) (Q : Post A) : Q r s [] -> hp s (lift r) Q.
Proof. exact (fun H => H). Qed.
Lemma hp_tell s e (Q : Post unit) : Q (Ok tt) s [e] -> hp s (tell e) Q.
Proof. exact (fun H => H). Qed.
Lemma hp_getS s (Q : Post srv) : Q (Ok s) s [] -> hp s getS Q.
Proof. exact (fun H => H). Qed.
Lemma hp_putS s s' (Q : Post unit) : Q (Ok tt) s' [] -> hp s (putS s') Q.
Proof. exact (fun H => H). Qed.
Lemma hp_modify s f (Q : Post unit) : Q (Ok tt) (f s) [] -> hp s (modify f) Q.
Proof. exact (fun H => H). Qed.

Lemma hp_bind {A B} s (m : SM A) (k : A -> SM B) (Q : Post B) :
  hp s m (fun r s1 e1 => match r with
                         | Ok a => hp s1 (k a) (fun r' s2 e2 => Q r' s2 (e1 ++ e2))
                         | Err x => Q (Err x) s1 e1 end) ->
  hp s (bindM m k) Q.
Proof.
  unfold hp, bindM. destruct (m s) as [[s1 e1] [a|x]]; [|auto].
  destruct (k a s1) as [[s2 e2] r]. auto.
Qed.

Lemma hp_getS_bind {B} s (k : srv -> SM B) (Q : Post B) : hp s (k s) Q -> hp s (bindM getS k) Q.
Proof. unfold hp, bindM, getS. destruct (k s s) as [[s2 e2] r]. auto. Qed.

Lemma hp_catch {A} s (m : SM A) h (Q : Post A) :
  hp s m (fun r s1 e1 => match r with
                         | Ok a => Q (Ok a) s1 e1
                         | Err x => match h x with
                                    | Some k => hp s1 k (fun r' s2 e2 => Q r' s2 (e1 ++ e2))
                                    | None => Q (Err x) s1 e1 end
                         end) ->
  hp s (catch m h) Q.
Proof.
  unfold hp, catch. destruct (m s) as [[s1 e1] [a|x]]; [auto|].
  destruct (h x) as [k|]; [|auto]. destruct (k s1) as [[s2 e2] r]. auto.
Qed.

Lemma hp_contain s (m : SM unit) (Q : Post unit) :
  hp s m (fun _ s1 e1 => Q (Ok tt) s1 e1) -> hp s (contain m) Q.
Proof. unfold hp, contain. destruct (m s) as [[s1 e1] r]. auto. Qed.

Lemma hp_finally {A} s (m : SM A) f (Q : Post A) :
  hp s m (fun r s1 e1 =>
            hp s1 f (fun rf s2 e2 => Q (match rf with Ok _ => r | Err x => Err x end) s2 (e1 ++ e2))) ->
  hp s (finallyM m f) Q.
Proof.
  unfold hp, finallyM. destruct (m s) as [[s1 e1] r].
  destruct (f s1) as [[s2 e2] [u|x]]; auto.
Qed.

Lemma hp_api s (m : SM unit) (Q : Post unit) :
  hp s m (fun r s1 e1 => match r with
                         | Ok _ => Q (Ok tt) s1 e1
                         | Err x => Q (Ok tt) s1 (e1 ++ [Raised x]) end) ->
  hp s (api m) Q.
Proof. unfold hp, api. destruct (m s) as [[s1 e1] [u|x]]; auto. Qed.

(* invariant-style judgement: J is preserved whatever the result, every effect satisfies E *)
Definition pres {A} (J : srv -> Prop) (E : eff -> Prop) (m : SM A) : Prop :=
  forall s, J s -> hp s m (fun _ s' es => J s' /\ Forall E es).

Section Pres.
  Variable J : srv -> Prop.
  Variable E : eff -> Prop.

  Lemma pres_ret {A} (a : A) : pres J E (ret a).
  Proof. intros s H. apply hp_ret. auto. Qed.
  Lemma pres_raise {A} x : pres J E (@raise srv eff A x).
  Proof. intros s H. apply hp_raise. auto. Qed.
  Lemma pres_lift {A} (r : Res A) : pres J E (lift r).
  Proof. intros s H. apply hp_lift. auto. Qed.
  Lemma pres_tell e : E e -> pres J E (tell e).
  Proof. intros He s H. apply hp_tell. auto. Qed.
  Lemma pres_getS : pres J E getS.
  Proof. intros s H. apply hp_getS. auto. Qed.

  Lemma pres_bind {A B} (m : SM A) (k : A -> SM B) :
    pres J E m -> (forall a, pres J E (k a)) -> pres J E (bindM m k).
  Proof.
    intros Hm Hk s H. apply hp_bind. eapply hp_conseq; [apply Hm, H|].
    intros [a|x] s1 e1 [H1 F1]; [|auto].
    eapply hp_conseq; [apply Hk, H1|]. intros r s2 e2 [H2 F2]. split; [auto|apply Forall_app; auto].
  Qed.

  (* the continuation may use that the value read is the current state *)
  Lemma pres_getS_bind {B} (k : srv -> SM B) :
    (forall s, J s -> hp s (k s) (fun _ s' es => J s' /\ Forall E es)) -> pres J E (bindM getS k).
  Proof. intros Hk s H. apply hp_getS_bind. auto. Qed.

  Lemma pres_catch {A} (m : SM A) h :
    pres J E m -> (forall x k, h x = Some k -> pres J E k) -> pres J E (catch m h).
  Proof.
    intros Hm Hh s H. apply hp_catch. eapply hp_conseq; [apply Hm, H|].
    intros [a|x] s1 e1 [H1 F1]; [auto|].
    destruct (h x) as [k|] eqn:Ehx; [|auto].
    eapply hp_conseq; [apply (Hh _ _ Ehx), H1|]. intros r s2 e2 [H2 F2]. split; [auto|apply Forall_app; auto].
  Qed.

  Lemma pres_contain (m : SM unit) : pres J E m -> pres J E (contain m).
  Proof. intros Hm s H. apply hp_contain. eapply hp_conseq; [apply Hm, H|]. auto. Qed.

  Lemma pres_finally {A} (m : SM A) f : pres J E m -> pres J E f -> pres J E (finallyM m f).
  Proof.
    intros Hm Hf s H. apply hp_finally. eapply hp_conseq; [apply Hm, H|].
    intros r s1 e1 [H1 F1]. eapply hp_conseq; [apply Hf, H1|].
    intros rf s2 e2 [H2 F2]. split; [auto|apply Forall_app; auto].
  Qed.

  Lemma pres_api (m : SM unit) : (forall x, E (Raised x)) -> pres J E m -> pres J E (api m).
  Proof.
    intros HE Hm s H. apply hp_api. eapply hp_conseq; [apply Hm, H|].
    intros [u|x] s1 e1 [H1 F1]; split; auto. apply Forall_app; auto.
  Qed.

  Lemma pres_forM {A} (l : list A) (f : A -> SM unit) :
    (forall x, In x l -> pres J E (f x)) -> pres J E (forM l f).
  Proof.
    induction l as [|x l IH]; intros Hf; cbn [forM]; [apply pres_ret|].
    apply pres_bind; [apply Hf; left; reflexivity|]. intros _. apply IH. intros y Hy. apply Hf. right; exact Hy.
  Qed.

  Lemma pres_forM_keep {A} (l : list A) (f : A -> SM unit) first :
    (forall x, In x l -> pres J E (f x)) -> pres J E (forM_keep l f first).
  Proof.
    revert first. induction l as [|x l IH]; intros first Hf; cbn [forM_keep]; [apply pres_ret|].
    intros s H. unfold hp.
    assert (Hx := Hf x (or_introl eq_refl) s H). unfold hp in Hx.
    destruct (f x s) as [[s1 e1] res]. destruct Hx as [H1 F1].
    assert (Hr := IH (match first, res with None, Err e => Some e | _, _ => first end)
                     (fun y Hy => Hf y (or_intror Hy)) s1 H1). unfold hp in Hr.
    destruct (forM_keep l f _ s1) as [[s2 e2] out]. destruct Hr as [H2 F2].
    split; [auto|apply Forall_app; auto].
  Qed.

  Lemma pres_modify f : (forall s, J s -> J (f s)) -> pres J E (modify f).
  Proof. intros Hf s H. apply hp_modify. auto. Qed.
  Lemma pres_putS s' : J s' -> pres J E (putS s').
  Proof. intros Hs s H. apply hp_putS. auto. Qed.
End Pres.

Lemma pres_weaken {A} (J : srv -> Prop) (E E' : eff -> Prop) (m : SM A) :
  (forall e, E e -> E' e) -> pres J E m -> pres J E' m.
Proof.
  intros HE Hm s H. eapply hp_conseq; [apply Hm, H|]. intros r s' es [H1 F1]. split; [auto|].
  eapply Forall_impl; eauto.
Qed.

Definition anyeff : eff -> Prop := fun _ => True.
Lemma Forall_anyeff l : Forall anyeff l.
Proof. apply Forall_forall. intros; exact I. Qed.
