(* C05 on the re-entrant scenario of ServerX.v: an event handler ends its own client's
   connection (sio.disconnect(sid, ns)) before it returns. *)
From VT Require Export Server.Events Server.Lifecycle Check.C05XCheck.
From Coq Require Import Lia.
Open Scope N_scope.

Lemma ns_or_default_idem pn : ns_or_default (Some (ns_or_default pn)) = ns_or_default pn.
Proof. unfold ns_or_default, slash. destruct pn as [[|x r]|]; reflexivity. Qed.

Lemma fits_arity_ok c h n : fits c h n = arity_ok c h n.
Proof. reflexivity. Qed.

Lemma handler_runs_responsible c ev ns args h a :
  responsible c ev ns args = Some (Some h, a) -> arity_ok c h (List.length a) = true ->
  handler_runs c ev ns args = true.
Proof.
  unfold responsible, handler_runs. intros Hr Ha.
  destruct (get_event_handler c ev ns args) as [[h' a']|].
  - inversion Hr; subst. rewrite fits_arity_ok. exact Ha.
  - destruct (get_namespace_handler c ns args) as [[methods a']|]; [|discriminate].
    destruct ev; try discriminate. destruct (aget str_eqb methods s) as [h'|]; [|discriminate].
    inversion Hr; subst. rewrite fits_arity_ok. exact Ha.
Qed.

Lemma eio_of_sid_of_eio m eio ns sid :
  MOK m -> sid_from_eio m eio ns = Some sid -> eio_from_sid m sid ns = Some eio.
Proof.
  intros Hm Hs. rewrite sid_from_eio_members in Hs. apply bd_inv_in in Hs.
  destruct (members_ok m ns Hm) as [Hk _].
  unfold eio_from_sid. fold (ns_members m ns) in *.
  assert (E : match room_of m ns PNone with Some b => bd_get b sid | None => None end = bd_get (ns_members m ns) sid).
  { unfold ns_members. destruct (room_of m ns PNone); reflexivity. }
  rewrite E. apply sin_aget; assumption.
Qed.

(* ------------------------------------------------------------------ *)
(* handle_event_sd                                                    *)
(* ------------------------------------------------------------------ *)
Lemma handle_event_sd_malformed c eio pn id data s x :
  split_event data = Err x -> handle_event_sd c eio pn id data s = (s, [], Err x).
Proof. intro H. unfold handle_event_sd. rewrite bindM_getS, H. reflexivity. Qed.

Lemma handle_event_sd_not_connected c eio pn id data s ea :
  split_event data = Ok ea ->
  is_connected (mg s) (sid_from_eio (mg s) eio (ns_or_default pn)) (ns_or_default pn) = false ->
  handle_event_sd c eio pn id data s = (s, [], Ok tt).
Proof. intros H Hc. unfold handle_event_sd. rewrite bindM_getS, H, bindM_lift_ok, Hc. reflexivity. Qed.

(* the server-initiated disconnect performed inside the handler *)
Definition sd_disc_effs (c : cfg) (s : srv) (eio sid ns : str) : list eff :=
  sp_effs s eio (frames_of c DISCONNECT PNone ns None) ++
  fst (te_pure c ev_disconnect ns [PStr sid; r_server_disconnect]).
Definition sd_disc_res (c : cfg) (sid ns : str) : Res unit :=
  unit_res (snd (te_pure c ev_disconnect ns [PStr sid; r_server_disconnect])).

Lemma handle_event_sd_returns c eio pn id data s ev args sid h a b v :
  has_actions c = false -> MOK (mg s) ->
  split_event data = Ok (ev, args) -> is_unhashable ev = false -> is_disconnect ev = false ->
  sid_from_eio (mg s) eio (ns_or_default pn) = Some sid ->
  is_connected (mg s) (Some sid) (ns_or_default pn) = true ->
  responsible c ev (ns_or_default pn) (PStr sid :: args) = Some (Some h, a) ->
  aget N.eqb (behav c) h = Some b -> arity_bad b (List.length a) = false -> h_outcome b = Returns v ->
  let ns := ns_or_default pn in
  handle_event_sd c eio pn id data s =
  (disc_state s sid ns,
   Call h a :: sd_disc_effs c s eio sid ns ++
     match sd_disc_res c sid ns with Ok _ => ack_effs c s eio ns id v | Err _ => [] end,
   match sd_disc_res c sid ns with Ok _ => ack_res c ns id v | Err x => Err x end).
Proof.
  intros Hna Hm Hs Hunh Hd Hsid Hc Hr Hb Har Ho ns. fold ns in Hsid, Hc, Hr.
  assert (Haok : arity_ok c h (List.length a) = true).
  { unfold arity_ok. rewrite Hb. unfold arity_bad in Har. destruct (h_arity b); [|reflexivity].
    destruct (Nat.eqb n (List.length a)); [reflexivity|discriminate]. }
  unfold handle_event_sd. fold ns. rewrite bindM_getS, Hs, bindM_lift_ok, Hsid, Hc. cbn [negb fst snd].
  rewrite (handler_runs_responsible c ev ns _ h a Hr Haok), Hunh. cbn [andb negb].
  assert (Hte : trigger_event c ev ns (PStr sid :: args) s = (s, [Call h a], Ok (Some v))).
  { rewrite trigger_event_pure by assumption. rewrite te_pure_responsible, Hr, cwr_pure_plain by assumption.
    unfold ch_pure. rewrite Hb, Har, Ho. reflexivity. }
  unfold bindM at 1. rewrite (catch_ok _ _ _ _ _ _ Hte).
  unfold bindM at 1.
  assert (Hnn : ns_or_default (Some ns) = ns) by (unfold ns; apply ns_or_default_idem).
  assert (Hcs : is_connected (mg s) (Some sid) (ns_or_default (Some ns)) = true)
    by (rewrite Hnn; exact Hc).
  rewrite (api_disconnect_eq c sid (Some ns) s Hna Hcs). cbv zeta. rewrite !Hnn.
  rewrite (eio_of_sid_of_eio _ _ _ _ Hm Hsid).
  unfold sd_disc_effs, sd_disc_res.
  destruct (unit_res (snd (te_pure c ev_disconnect ns [PStr sid; r_server_disconnect]))) as [u|x]; [|rewrite app_nil_r; reflexivity].
  destruct id as [i|]; cbn [ack_effs ack_res].
  - rewrite send_packet_spec. rewrite (sp_effs_cong s (disc_state s sid ns)) by reflexivity. reflexivity.
  - cbn [ret]. rewrite !app_nil_r. reflexivity.
Qed.

(* ------------------------------------------------------------------ *)
(* frames: an ACK is never mistaken for the DISCONNECT that precedes it *)
(* ------------------------------------------------------------------ *)
Lemma encode_first p f atts t :
  encode p = Ok (f, atts) -> ptype p = PInt t -> exists rest, f = str_of_Z t ++ rest.
Proof.
  unfold encode. intros H Ht. rewrite Ht in H.
  destruct ((t =? BINARY_EVENT)%Z || (t =? BINARY_ACK)%Z).
  - destruct (decon (pdata p) []) as [d0 at0].
    destruct (match d0 with PNone => Ok [] | _ => json_dumps d0 end) as [js|x]; [|discriminate].
    cbn [bind] in H. inversion H. rewrite <- !app_assoc. eexists. reflexivity.
  - destruct (match pdata p with PNone => Ok [] | _ => json_dumps (pdata p) end) as [js|x]; [|discriminate].
    cbn [bind] in H. inversion H. rewrite <- !app_assoc. eexists. reflexivity.
Qed.

Lemma ack_vs_disconnect c data ns i x fr d :
  frames_of c ACK data ns (Some i) = Ok (x :: fr) ->
  frames_of c DISCONNECT PNone ns None = Ok [d] -> pv_eqb x d = false.
Proof.
  unfold frames_of, ctor, encode_pieces. cbn [has_bytes]. rewrite andb_false_r.
  change ((ACK =? EVENT)%Z) with false. change ((ACK =? ACK)%Z) with true. cbv iota. cbn [bind].
  destruct (uses_binary c); cbn [andb].
  - intros Ha Hd.
    destruct (encode (mkPacket (PInt DISCONNECT) (Some ns) None PNone)) as [[fd ad]|] eqn:Ed; [|discriminate].
    destruct (encode_first _ _ _ DISCONNECT Ed eq_refl) as [rd Hrd].
    cbn [bind pieces_of fst snd] in Hd.
    assert (d = PStr fd) by (destruct ad; inversion Hd; reflexivity). subst d fd.
    destruct (has_bytes data); cbn [bind] in Ha.
    + destruct (encode (mkPacket (PInt BINARY_ACK) (Some ns) (Some i) data)) as [[fa aa]|] eqn:Ea; [|discriminate].
      destruct (encode_first _ _ _ BINARY_ACK Ea eq_refl) as [ra Hra].
      cbn [bind pieces_of fst snd] in Ha. inversion Ha; subst. reflexivity.
    + destruct (encode (mkPacket (PInt ACK) (Some ns) (Some i) data)) as [[fa aa]|] eqn:Ea; [|discriminate].
      destruct (encode_first _ _ _ ACK Ea eq_refl) as [ra Hra].
      cbn [bind pieces_of fst snd] in Ha. inversion Ha; subst. reflexivity.
  - intros Ha Hd. inversion Ha; subst. inversion Hd; subst. reflexivity.
Qed.

Fixpoint starts_with_refl fr : starts_with fr fr = true.
Proof. destruct fr as [|x fr]; [reflexivity|]. cbn [starts_with]. rewrite pv_eqb_refl. apply starts_with_refl. Qed.
Lemma starts_with_short fr : forall l, (List.length l < List.length fr)%nat -> starts_with fr l = false.
Proof.
  induction fr as [|x fr IH]; intros l H; [cbn in H; lia|].
  destruct l as [|y l]; [reflexivity|]. cbn [starts_with]. rewrite IH by (cbn in H; lia). apply andb_false_r.
Qed.
Lemma count_frames_short fr : forall l, (List.length l < List.length fr)%nat -> count_frames fr l = O.
Proof.
  induction l as [|y l IH]; intro H; [reflexivity|]. cbn [count_frames].
  rewrite starts_with_short by exact H. rewrite IH by (cbn in H; lia). reflexivity.
Qed.
Lemma count_frames_self x fr : count_frames (x :: fr) (x :: fr) = 1%nat.
Proof.
  cbn [count_frames]. rewrite starts_with_refl. rewrite count_frames_short by (cbn; lia). reflexivity.
Qed.
Lemma count_frames_after x fr d : pv_eqb x d = false -> count_frames (x :: fr) (d :: x :: fr) = 1%nat.
Proof.
  intro H. change (count_frames (x :: fr) (d :: x :: fr))
    with ((if starts_with (x :: fr) (d :: x :: fr) then 1 else 0) + count_frames (x :: fr) (x :: fr))%nat.
  cbn [starts_with]. rewrite H. cbn [andb]. rewrite count_frames_self. reflexivity.
Qed.

Lemma frames_nonempty c t data ns id fr : frames_of c t data ns id = Ok fr -> fr <> [].
Proof.
  unfold frames_of, encode_pieces. destruct (ctor _ _ _ _ _ _) as [p|]; [|discriminate]. cbn [bind].
  destruct (uses_binary c); [|intro H; inversion H; discriminate].
  destruct (encode p) as [enc|]; [|discriminate]. cbn [bind pieces_of]. intro H; inversion H; discriminate.
Qed.

(* ------------------------------------------------------------------ *)
(* one step of the re-entrant scenario                                 *)
(* ------------------------------------------------------------------ *)
Lemma xstep_sd_event c s eio payload tbl pn id data :
  is_live s eio = true -> aget str_eqb (binpkt s) eio = None ->
  event_of c s eio payload tbl = Some (pn, id, data) ->
  xstep c s (EventSD eio payload tbl) =
  (st (handle_event_sd c eio pn id data s), snd (fst (handle_event_sd c eio pn id data s))).
Proof.
  intros Hl Hb He. unfold xstep. unfold is_live in Hl. rewrite Hl.
  unfold contain, handle_eio_message_sd. rewrite bindM_getS, Hb.
  unfold event_of in He. rewrite Hb in He.
  destruct (decode_any c (table_loads tbl) payload) as [r|x]; [|discriminate].
  destruct (type_is (rp r) EVENT) eqn:Ht; [|discriminate]. inversion He; subst; clear He.
  rewrite (type_is_excl _ _ CONNECT Ht), (type_is_excl _ _ DISCONNECT Ht) by reflexivity. cbn [andb negb].
  unfold st. destruct (handle_event_sd c eio (pns (rp r)) (pid (rp r)) (pdata (rp r)) s) as [[s' e] res]. reflexivity.
Qed.

Lemma xstep_sd_plain c s eio payload tbl :
  aget str_eqb (binpkt s) eio <> None \/ event_of c s eio payload tbl = None ->
  xstep c s (EventSD eio payload tbl) = step c s (EioMessage eio payload tbl).
Proof.
  intro H. unfold xstep, step, step_m. rewrite bindM_getS.
  destruct (existsb (str_eqb eio) (live s)); [|reflexivity].
  unfold contain, handle_eio_message_sd. rewrite bindM_getS.
  destruct (aget str_eqb (binpkt s) eio) as [r0|] eqn:Hb; [reflexivity|].
  destruct H as [H|H]; [contradiction H; reflexivity|].
  unfold event_of in H. rewrite Hb in H.
  destruct (decode_any c (table_loads tbl) payload) as [r|x]; [|reflexivity].
  destruct (type_is (rp r) EVENT); [discriminate|]. reflexivity.
Qed.

(* ------------------------------------------------------------------ *)
(* domain of the re-entrant checker                                    *)
(* ------------------------------------------------------------------ *)
Definition sd_domain (c : cfg) : Prop :=
  (* the disconnect handler of a namespace does not also serve an ordinary event of it
     (the generator never shares a handler id between events) *)
  forall ns ev args h a, reserved ev = false -> responsible c ev ns args = Some (Some h, a) ->
                         hid_for c ev_disconnect ns <> Some h.

Lemma te_disconnect_calls c ns l x :
  In x (calls_of (fst (te_pure c ev_disconnect ns l))) -> hid_for c ev_disconnect ns = Some (fst x).
Proof.
  rewrite te_disconnect. unfold hid_for.
  destruct (responsible c ev_disconnect ns []) as [[[dh|] pre]|]; [|intros []|intros []].
  unfold some_res, cwr_pure. cbn [fst].
  assert (Hch : forall a y, In y (calls_of (fst (ch_pure c dh a))) -> fst y = dh).
  { intros a y. destruct (ch_pure_shape c dh a) as [E|E]; rewrite E; [intros []|].
    intros [Hy|[]]. subst y. reflexivity. }
  destruct (ch_pure c dh (pre ++ l)) as [e1 [v|e]] eqn:E1.
  - intro Hin. f_equal. symmetry. eapply (Hch (pre ++ l)). rewrite E1. exact Hin.
  - assert (Hbase : In x (calls_of e1) -> Some dh = Some (fst x)).
    { intro Hin. f_equal. symmetry. eapply (Hch (pre ++ l)). rewrite E1. exact Hin. }
    destruct e; try exact Hbase.
    destruct (is_disconnect ev_disconnect); [|exact Hbase]. cbn [fst].
    rewrite calls_of_app. intro Hin. apply in_app_or in Hin as [Hin|Hin]; [exact (Hbase Hin)|].
    f_equal. symmetry. eapply Hch. exact Hin.
Qed.

Lemma disc_args_length sid reason b pre :
  arity_bad b (List.length (pre ++ [PNone; PNone])) = false \/ arity_bad b (List.length (pre ++ [PNone])) = false ->
  arity_bad b (List.length (disc_args sid reason b pre)) = false.
Proof.
  unfold disc_args.
  replace (List.length (pre ++ [PNone; PNone])) with (List.length (pre ++ [PStr sid; reason]))
    by (rewrite !app_length; reflexivity).
  replace (List.length (pre ++ [PNone])) with (List.length (pre ++ [PStr sid]))
    by (rewrite !app_length; reflexivity).
  destruct (arity_bad b (List.length (pre ++ [PStr sid; reason]))) eqn:E; intros [H|H];
    try discriminate; try exact H; exact E.
Qed.

(* ------------------------------------------------------------------ *)
(* the model's own run of the re-entrant scenario passes the checker   *)
(* ------------------------------------------------------------------ *)
Lemma arity_ok_bad c h b n : aget N.eqb (behav c) h = Some b -> arity_ok c h n = negb (arity_bad b n).
Proof. intro H. unfold arity_ok, arity_bad. rewrite H. destruct (h_arity b); [rewrite negb_involutive|]; reflexivity. Qed.

Lemma calls_of_cons_out e p l : calls_of (Out e p :: l) = calls_of l.
Proof. reflexivity. Qed.
Lemma out_eios_cons_out e p l : out_eios (Out e p :: l) = e :: out_eios l.
Proof. reflexivity. Qed.
Lemma outs_of_cons_out e p l : outs_of e (Out e p :: l) = p :: outs_of e l.
Proof. cbn [outs_of flat_map]. rewrite str_eqb_refl. reflexivity. Qed.
Lemma outs_of_no_eios e l : out_eios l = [] -> outs_of e l = [].
Proof. induction l as [|x l IH]; [reflexivity|]. destruct x; cbn; try discriminate; exact IH. Qed.

Theorem model_passes_c05_sd_step c s eio payload tbl :
  has_actions c = false -> MOK (mg s) -> sd_domain c ->
  c05_sd_step c s eio payload tbl (snd (xstep c s (EventSD eio payload tbl))) = true.
Proof.
  intros Hna Hm HD1. unfold c05_sd_step. rewrite Hna, orb_false_r.
  destruct (existsb (str_eqb eio) (live s)) eqn:Hl; [cbn [negb]|reflexivity].
  destruct (event_of c s eio payload tbl) as [[[pn id] data]|] eqn:He; [|reflexivity].
  set (ns := ns_or_default pn).
  destruct (split_event data) as [[ev args]|x] eqn:Hsp; [|reflexivity].
  destruct (reserved ev || is_unhashable ev) eqn:Hru; [reflexivity|].
  apply orb_false_iff in Hru as [Hres Hunh].
  pose proof (reserved_not_disconnect _ Hres) as Hnd.
  destruct (aget str_eqb (binpkt s) eio) as [r0|] eqn:Hbp.
  - (* completion of a binary event: the ordinary path *)
    rewrite xstep_sd_plain by (left; rewrite Hbp; discriminate).
    destruct (step_event_effs c s eio payload tbl pn id data Hna Hl He) as [Heff _]. rewrite Heff. clear Heff.
    unfold he_pure. rewrite Hsp. fold ns. cbn [fst snd].
    destruct (is_connected (mg s) (sid_from_eio (mg s) eio ns) ns) eqn:Hc; [|reflexivity]. cbn [negb].
    destruct (sid_from_eio (mg s) eio ns) as [sid|]; [|reflexivity].
    rewrite te_pure_responsible by assumption.
    destruct (responsible c ev ns (PStr sid :: args)) as [[[h|] a]|]; [|reflexivity|reflexivity].
    destruct (arity_ok c h (List.length a)) eqn:Hao; [cbn [negb]|reflexivity].
    unfold outcome_of. destruct (aget N.eqb (behav c) h) as [b|] eqn:Hb; [|reflexivity].
    destruct (h_outcome b) as [v|ra|x] eqn:Ho; [|reflexivity|reflexivity].
    rewrite cwr_pure_plain by assumption. unfold ch_pure, some_res. rewrite Hb.
    rewrite (arity_ok_bad c h b _ Hb) in Hao. apply negb_true_iff in Hao. rewrite Hao, Ho. cbn [fst snd outcome_res].
    change ([Call h a] ++ ack_effs c s eio ns id v) with (Call h a :: ack_effs c s eio ns id v).
    rewrite calls_of_cons_call, out_eios_cons_call, outs_of_cons_call, ack_effs_calls, ack_effs_eios.
    cbn [filter fst List.length]. rewrite N.eqb_refl, pvl_refl. cbn [andb filter List.length Nat.eqb].
    destruct id as [i|]; [|reflexivity]. cbn [ack_effs].
    destruct (frames_of c ACK (PList (pack v)) ns (Some i)) as [fr|x] eqn:Hfr; [|reflexivity].
    rewrite sp_effs_outs. unfold is_live. rewrite Hl.
    destruct fr as [|x fr]; [exfalso; eapply frames_nonempty; [exact Hfr|reflexivity]|].
    rewrite count_frames_self. apply orb_true_r.
  - (* the handler ends its own client's connection *)
    rewrite (xstep_sd_event c s eio payload tbl pn id data Hl Hbp He). cbn [snd].
    destruct (is_connected (mg s) (sid_from_eio (mg s) eio ns) ns) eqn:Hc.
    2:{ rewrite (handle_event_sd_not_connected c eio pn id data s _ Hsp) by exact Hc. reflexivity. }
    destruct (sid_from_eio (mg s) eio ns) as [sid|] eqn:Hsid; [|discriminate].
    destruct (responsible c ev ns (PStr sid :: args)) as [[[h|] a]|] eqn:Hr; [|reflexivity|reflexivity].
    destruct (arity_ok c h (List.length a)) eqn:Hao; [cbn [negb]|reflexivity].
    unfold outcome_of. destruct (aget N.eqb (behav c) h) as [b|] eqn:Hb; [|reflexivity].
    destruct (h_outcome b) as [v|ra|x] eqn:Ho; [|reflexivity|reflexivity].
    rewrite (arity_ok_bad c h b _ Hb) in Hao. apply negb_true_iff in Hao.
    rewrite (handle_event_sd_returns c eio pn id data s ev args sid h a b v Hna Hm Hsp Hunh Hnd Hsid Hc Hr Hb Hao Ho).
    fold ns. cbn [fst snd].
    set (ted := te_pure c ev_disconnect ns [PStr sid; r_server_disconnect]).
    destruct (disconnect_frames_ok c ns) as [d Hd].
    unfold sd_disc_effs, sd_disc_res. fold ted. rewrite Hd, (sp_effs_live s eio [d] Hl). cbn [map app].
    set (A := match unit_res (snd ted) with Ok _ => ack_effs c s eio ns id v | Err _ => [] end).
    assert (HAc : calls_of A = []) by (unfold A; destruct (unit_res (snd ted)); [apply ack_effs_calls|reflexivity]).
    assert (HAe : forallb (str_eqb eio) (out_eios A) = true)
      by (unfold A; destruct (unit_res (snd ted)); [apply ack_effs_eios|reflexivity]).
    rewrite calls_of_cons_call, calls_of_cons_out, calls_of_app, HAc, app_nil_r.
    rewrite N.eqb_refl, pvl_refl. cbn [andb filter fst]. rewrite N.eqb_refl.
    assert (Hfil : filter (fun ha : N * list pv => N.eqb (fst ha) h) (calls_of (fst ted)) = []).
    { assert (Hall : forall y, In y (calls_of (fst ted)) -> N.eqb (fst y) h = false).
      { intros y Hy. apply te_disconnect_calls in Hy. destruct (N.eqb (fst y) h) eqn:E; [|reflexivity].
        apply N.eqb_eq in E. exfalso. eapply (HD1 ns ev _ h a Hres Hr). rewrite Hy, E. reflexivity. }
      induction (calls_of (fst ted)) as [|y l IH]; [reflexivity|]. cbn [filter].
      rewrite (Hall y (or_introl eq_refl)). apply IH. intros z Hz. apply Hall. right. exact Hz. }
    rewrite Hfil. cbn [List.length Nat.eqb andb].
    pose proof (te_pure_no_outs c ev_disconnect ns [PStr sid; r_server_disconnect]) as Hno. fold ted in Hno.
    rewrite out_eios_cons_call, out_eios_cons_out, out_eios_app, Hno.
    cbn [app forallb]. rewrite str_eqb_refl, HAe. cbn [andb].
    destruct id as [i|]; [|reflexivity].
    destruct (frames_of c ACK (PList (pack v)) ns (Some i)) as [fr|x] eqn:Hfr; [|reflexivity].
    (* did the disconnect go through? *)
    assert (Hdone : unit_res (snd ted) = Ok tt \/
                    match responsible c ev_disconnect ns [] with
                    | Some (Some dh, pre) =>
                        match match aget N.eqb (behav c) dh with Some b => Some (h_outcome b) | None => None end with
                        | Some (Returns _) => negb (arity_ok c dh (List.length pre + 2) || arity_ok c dh (List.length pre + 1))
                        | _ => true end
                    | _ => false end = true).
    { unfold ted. rewrite te_disconnect.
      destruct (responsible c ev_disconnect ns []) as [[[dh|] pre]|] eqn:Hrd; [|left; reflexivity|left; reflexivity].
      destruct (aget N.eqb (behav c) dh) as [db|] eqn:Hdb; [|right; reflexivity].
      destruct (h_outcome db) as [dv|dra|dx] eqn:Hdo; [|right; reflexivity|right; reflexivity].
      destruct (arity_ok c dh (List.length pre + 2) || arity_ok c dh (List.length pre + 1)) eqn:Hflag; [|right; reflexivity].
      left.
      assert (Hfit : arity_bad db (List.length (disc_args sid r_server_disconnect db pre)) = false).
      { apply disc_args_length. rewrite !(arity_ok_bad c dh db _ Hdb) in Hflag. rewrite !app_length. cbn [List.length].
        apply orb_true_iff in Hflag as [H|H]; apply negb_true_iff in H; [left|right]; exact H. }
      pose proof (te_disconnect_returns c ns sid r_server_disconnect dh pre db dv Hrd Hdb Hfit Hdo) as Hte.
      rewrite te_disconnect, Hrd in Hte. rewrite Hte. reflexivity. }
    destruct Hdone as [Hdone|Hdone]; [|rewrite Hdone; reflexivity].
    unfold A. rewrite Hdone. cbn [ack_effs]. rewrite Hfr, (sp_effs_live s eio fr Hl).
    rewrite outs_of_cons_call, outs_of_cons_out, outs_of_app, outs_of_map_out.
    rewrite (outs_of_no_eios eio (fst ted) Hno). cbn [app].
    destruct fr as [|x fr]; [exfalso; eapply frames_nonempty; [exact Hfr|reflexivity]|].
    rewrite (count_frames_after x fr d (ack_vs_disconnect c _ ns i x fr d Hfr Hd)). apply orb_true_r.
Qed.

(* ------------------------------------------------------------------ *)
(* invariant along histories that contain the re-entrant scenario      *)
(* ------------------------------------------------------------------ *)
Lemma reach_handle_event_sd c eio pn id data : reach (handle_event_sd c eio pn id data).
Proof.
  unfold handle_event_sd. apply reach_getS; intro s0. apply reach_bind; [apply reach_lift|]. intro ea.
  destruct (negb _); [apply reach_ret|].
  destruct (sid_from_eio (mg s0) eio (ns_or_default pn)) as [sid|]; [|apply reach_ret].
  apply reach_bind.
  - apply reach_catch; [apply reach_trigger_event|]. intros x k.
    destruct (handler_runs _ _ _ _ && _); [|discriminate]. intro H; inversion H; subst.
    apply reach_bind; [apply reach_api_disconnect|]. intro. apply reach_raise.
  - intro r. apply reach_bind; [apply reach_if; [apply reach_api_disconnect|apply reach_ret]|]. intro.
    destruct r as [v|]; [|apply reach_ret]. destruct id; [apply reach_send_packet|apply reach_ret].
Qed.
Lemma reach_handle_eio_message_sd c loads eio payload : reach (handle_eio_message_sd c loads eio payload).
Proof.
  unfold handle_eio_message_sd. apply reach_getS; intro s0.
  destruct (aget str_eqb (binpkt s0) eio); [apply reach_handle_eio_message|].
  destruct (decode_any c loads payload) as [r|x]; [|apply reach_handle_eio_message].
  apply reach_if; [apply reach_handle_event_sd|apply reach_handle_eio_message].
Qed.
Theorem xstep_star c s x : Lifecycle.star s (fst (xstep c s x)).
Proof.
  destruct x as [o|eio payload tbl]; [apply step_star|]. cbn [xstep].
  destruct (existsb (str_eqb eio) (live s)); [|apply star_refl].
  pose proof (reach_contain _ (reach_handle_eio_message_sd c (table_loads tbl) eio payload) s) as H.
  unfold reach_at, st in H. destruct (contain _ s) as [[s' e] r]. exact H.
Qed.
Theorem xstep_Inv c s x : Inv s -> Inv (fst (xstep c s x)).
Proof. apply star_Inv. apply xstep_star. Qed.

Lemma xrun_cons c s o r :
  xrun c s (o :: r) = (fst (xrun c (fst (xstep c s o)) r), snd (xstep c s o) :: snd (xrun c (fst (xstep c s o)) r)).
Proof.
  cbn [xrun]. destruct (xstep c s o) as [s1 e]. cbn [fst snd]. destruct (xrun c s1 r) as [s2 es]. reflexivity.
Qed.
Theorem xrun_Inv c ops : forall s, Inv s -> Inv (fst (xrun c s ops)).
Proof.
  induction ops as [|o r IH]; intros s HI; [exact HI|]. rewrite xrun_cons. cbn [fst]. apply IH. apply xstep_Inv. exact HI.
Qed.

Theorem model_passes_c05x_all c :
  has_actions c = false -> sd_domain c ->
  forall ops s, Inv s -> xall_steps c s ops (snd (xrun c s ops)) = true.
Proof.
  intros Hna Hd. induction ops as [|o r IH]; intros s HI; [reflexivity|].
  rewrite xrun_cons. cbn [snd xall_steps]. rewrite (IH _ (xstep_Inv c s o HI)), andb_true_r.
  destruct o as [o|eio payload tbl].
  - cbn [xstep]. apply model_passes_c05_step. exact Hna.
  - apply model_passes_c05_sd_step; [exact Hna|apply HI|exact Hd].
Qed.

(* ------------------------------------------------------------------ *)
(* C05_event_self_disconnect                                           *)
(* ------------------------------------------------------------------ *)
Theorem event_self_disconnect c eio pn id data s ev args sid h a b v dh pre db dv :
  has_actions c = false -> MOK (mg s) ->
  split_event data = Ok (ev, args) -> is_unhashable ev = false -> is_disconnect ev = false ->
  sid_from_eio (mg s) eio (ns_or_default pn) = Some sid ->
  is_connected (mg s) (Some sid) (ns_or_default pn) = true ->
  (* the event's handler fits and returns v *)
  responsible c ev (ns_or_default pn) (PStr sid :: args) = Some (Some h, a) ->
  aget N.eqb (behav c) h = Some b -> arity_bad b (List.length a) = false -> h_outcome b = Returns v ->
  (* the namespace's disconnect handler fits (two arguments, or the legacy one) and returns *)
  responsible c ev_disconnect (ns_or_default pn) [] = Some (Some dh, pre) ->
  aget N.eqb (behav c) dh = Some db -> h_outcome db = Returns dv ->
  arity_bad db (List.length (disc_args sid r_server_disconnect db pre)) = false ->
  let ns := ns_or_default pn in
  let s' := disc_state s sid ns in
  handle_event_sd c eio pn id data s =
  (s', [Call h a] ++ sp_effs s eio (frames_of c DISCONNECT PNone ns None)
       ++ [Call dh (disc_args sid r_server_disconnect db pre)] ++ ack_effs c s eio ns id v,
   ack_res c ns id v) /\
  is_connected (mg s') (Some sid) ns = false /\ eio_from_sid (mg s') sid ns = None /\
  sid_from_eio (mg s') eio ns = None.
Proof.
  intros Hna Hm Hsp Hunh Hnd Hsid Hc Hr Hb Har Ho Hrd Hdb Hdo Hfit ns s'.
  split.
  - rewrite (handle_event_sd_returns c eio pn id data s ev args sid h a b v Hna Hm Hsp Hunh Hnd Hsid Hc Hr Hb Har Ho).
    fold ns s'. unfold sd_disc_effs, sd_disc_res.
    rewrite (te_disconnect_returns c ns sid r_server_disconnect dh pre db dv Hrd Hdb Hfit Hdo).
    cbn [fst snd unit_res app]. rewrite <- app_assoc. reflexivity.
  - destruct (disc_state_facts s sid ns Hm) as (_ & H1 & H2 & _).
    destruct (disconnect_then_noop c s sid eio pn Hm Hsid) as (H3 & _).
    split; [exact H1|]. split; [exact H2|exact H3].
Qed.

(* ------------------------------------------------------------------ *)
(* Examples and the necessity of the domain conditions                 *)
(* ------------------------------------------------------------------ *)
Module SdEx.
  Import Ex.
  Open Scope string_scope.
  Definition msg5 := PList [PStr (s2l "msg"); PInt 5].
  Definition p_msg := PStr (s2l "21[""msg"",5]").
  Definition t_msg : jtable := [(s2l "[""msg"",5]", Ok msg5)].
  Definition x_msg := EventSD e1 p_msg t_msg.

  (* the handler of "msg" ends S0's connection, the disconnect handler runs with SERVER_DISCONNECT,
     and the (binary) ACK with id 1 still goes to e1, exactly once *)
  Example event_self_disconnect_ex :
    snd (xstep c s0 x_msg) =
      [Call 3 [S 0; PInt 5]; Out e1 (PStr (s2l "1")); Call 2 [S 0; r_server_disconnect];
       Out e1 (PStr (s2l "61-1[1,{""_placeholder"":true,""num"":0}]")); Out e1 (PBytes [1; 2])] /\
    is_connected (mg (fst (xstep c s0 x_msg))) (Some (sid_name 0)) slash = false /\
    sid_from_eio (mg (fst (xstep c s0 x_msg))) e1 chat = Some (sid_name 2) /\
    c05_sd_step c s0 e1 p_msg t_msg (snd (xstep c s0 x_msg)) = true /\
    (* the checker rejects a run without the ACK, with two ACKs, or with a second invocation *)
    c05_sd_step c s0 e1 p_msg t_msg
      [Call 3 [S 0; PInt 5]; Out e1 (PStr (s2l "1")); Call 2 [S 0; r_server_disconnect]] = false /\
    c05_sd_step c s0 e1 p_msg t_msg (snd (xstep c s0 x_msg) ++ [Call 3 [S 0; PInt 5]]) = false.
  Proof. vm_compute. repeat split; reflexivity. Qed.

  Example xall_steps_ex :
    let ops := [Plain EvEx.m_other; x_msg; Plain EvEx.m_msg; EventSD e1 (PStr (s2l "2/chat,7[""hello""]"))
                  [(s2l "[""hello""]", Ok (PList [PStr (s2l "hello")]))]] in
    xall_steps c s0 ops (snd (xrun c s0 ops)) = true /\
    List.concat (snd (xrun c s0 ops)) =
      [Call 4 [PStr (s2l "other"); S 1; PInt 1];
       Call 3 [S 0; PInt 5]; Out e1 (PStr (s2l "1")); Call 2 [S 0; r_server_disconnect];
       Out e1 (PStr (s2l "61-1[1,{""_placeholder"":true,""num"":0}]")); Out e1 (PBytes [1; 2]);
       Call 7 [S 2]; Out e1 (PStr (s2l "1/chat,")); Call 6 [S 2]; Out e1 (PStr (s2l "3/chat,7[[7]]"))].
  Proof. vm_compute. split; reflexivity. Qed.

  (* a disconnect handler of "/" declared with three parameters is never called successfully
     (2 arguments, then the legacy 1): the disconnect raises TypeError and no ACK is sent *)
  Definition c3 : cfg :=
    mkCfg [(slash, [(s2l "connect", 1%N); (s2l "disconnect", 2%N); (s2l "msg", 3%N)])] []
          [(1%N, mkBehav (Some 2%nat) [] (Returns PNone)); (2%N, mkBehav (Some 3%nat) [] (Returns PNone));
           (3%N, mkBehav (Some 2%nat) [] (Returns (PInt 9)))]
          (Some [slash]) false true.
  Definition s3 := fst (run c3 srv_init [EioConnect e1 env1; EioMessage e1 (PStr (s2l "0")) []]).
  (* the domain condition is needed: one handler id for "msg" and for disconnect *)
  Definition c1 : cfg :=
    mkCfg [(slash, [(s2l "connect", 1%N); (s2l "disconnect", 3%N); (s2l "msg", 3%N)])] []
          [(1%N, mkBehav (Some 2%nat) [] (Returns PNone)); (3%N, mkBehav (Some 2%nat) [] (Returns (PInt 9)))]
          (Some [slash]) false true.
  Definition s1 := fst (run c1 srv_init [EioConnect e1 env1; EioMessage e1 (PStr (s2l "0")) []]).
End SdEx.

Theorem c05_sd_step_domain_refuted :
  exists c s eio payload tbl, Inv s /\ has_actions c = false /\
     c05_sd_step c s eio payload tbl (snd (xstep c s (EventSD eio payload tbl))) = false.
Proof.
  exists SdEx.c1, SdEx.s1, Ex.e1, SdEx.p_msg, SdEx.t_msg. split; [apply reachable_Inv|]. vm_compute. split; reflexivity.
Qed.

(* a disconnect handler that can never be called (three parameters, own namespace): the disconnect
   raises, no ACK is sent, and the checker (with the precise disc_failed) accepts that *)
Example c05_sd_step_unfit_disconnect_handler :
  snd (xstep SdEx.c3 SdEx.s3 (EventSD Ex.e1 SdEx.p_msg SdEx.t_msg)) =
    [Call 3 [Ex.S 0; PInt 5]; Out Ex.e1 (PStr [49])] /\
  c05_sd_step SdEx.c3 SdEx.s3 Ex.e1 SdEx.p_msg SdEx.t_msg
    (snd (xstep SdEx.c3 SdEx.s3 (EventSD Ex.e1 SdEx.p_msg SdEx.t_msg))) = true.
Proof. vm_compute. split; reflexivity. Qed.

(* the domain conditions are satisfiable by a configuration with a disconnect handler *)
Module SdDom.
  Import Ex.
  Open Scope string_scope.
  Definition cD : cfg :=
    mkCfg [(slash, [(s2l "connect", 1%N); (s2l "disconnect", 2%N); (s2l "msg", 3%N)])] []
          [(1%N, mkBehav (Some 2%nat) [] (Returns PNone)); (2%N, mkBehav (Some 2%nat) [] (Returns PNone));
           (3%N, mkBehav (Some 2%nat) [] (Returns (PInt 9)))]
          (Some [slash]) false true.
  Definition sD := fst (run cD srv_init [EioConnect e1 env1; EioMessage e1 (PStr (s2l "0")) []]).
  Lemma cD_domain : sd_domain cD.
  Proof.
    intros ns ev args h a Hres Hr Hh.
    unfold hid_for, responsible, get_event_handler, get_namespace_handler in *. cbn [handlers ns_handlers cD aget] in *.
    destruct (str_eqb slash ns) eqn:E; cbn [aget] in *; [|discriminate].
    cbn in Hh. inversion Hh; subst h; clear Hh.
    destruct ev; cbn [ev_lookup] in Hr; try (rewrite Hres in Hr; discriminate).
    cbn [aget] in Hr.
    destruct (str_eqb (s2l "connect") s) eqn:E1; [inversion Hr|].
    destruct (str_eqb (s2l "disconnect") s) eqn:E2.
    - apply str_eqb_eq in E2. subst s. discriminate Hres.
    - destruct (str_eqb (s2l "msg") s); [inversion Hr|]. rewrite Hres in Hr. discriminate.
  Qed.
  Example model_passes_c05_sd_step_ex :
    has_actions cD = false /\ MOK (mg sD) /\ sd_domain cD /\
    snd (xstep cD sD SdEx.x_msg) =
      [Call 3 [S 0; PInt 5]; Out e1 (PStr (s2l "1")); Call 2 [S 0; r_server_disconnect]; Out e1 (PStr (s2l "31[9]"))].
  Proof.
    split; [reflexivity|]. split; [apply (reachable_Inv cD)|]. split; [apply cD_domain|]. vm_compute. reflexivity.
  Qed.
End SdDom.
