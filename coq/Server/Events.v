(* C05: incoming events - one invocation, one ACK to the sender only. *)
From VT Require Export Server.StepLemmas Check.C05Check.
From Coq Require Import Lia.
Open Scope N_scope.

(* ------------------------------------------------------------------ *)
(* handle_event as a pure function of the state                       *)
(* ------------------------------------------------------------------ *)
Definition ack_effs (c : cfg) (s : srv) (eio ns : str) (id : option Z) (v : pv) : list eff :=
  match id with
  | Some i => sp_effs s eio (frames_of c ACK (PList (pack v)) ns (Some i))
  | None => []
  end.
Definition ack_res (c : cfg) (ns : str) (id : option Z) (v : pv) : Res unit :=
  match id with
  | Some i => sp_res (frames_of c ACK (PList (pack v)) ns (Some i))
  | None => Ok tt
  end.

Definition he_pure (c : cfg) (eio : str) (pn : option str) (id : option Z) (data : pv) (s : srv)
  : list eff * Res unit :=
  let ns := ns_or_default pn in
  let osid := sid_from_eio (mg s) eio ns in
  match split_event data with
  | Err x => ([], Err x)
  | Ok ea =>
      if negb (is_connected (mg s) osid ns) then ([], Ok tt) else
      match osid with
      | None => ([], Ok tt)
      | Some sid =>
          match te_pure c (fst ea) ns (PStr sid :: snd ea) with
          | (e1, Err x) => (e1, Err x)
          | (e1, Ok None) => (e1, Ok tt)
          | (e1, Ok (Some v)) => (e1 ++ ack_effs c s eio ns id v, ack_res c ns id v)
          end
      end
  end.

Lemma handle_event_pure c eio pn id data s :
  has_actions c = false ->
  handle_event c eio pn id data s = (s, fst (he_pure c eio pn id data s), snd (he_pure c eio pn id data s)).
Proof.
  intro Hna. unfold handle_event, he_pure. rewrite bindM_getS.
  destruct (split_event data) as [ea|x]; [rewrite bindM_lift_ok | reflexivity].
  destruct (negb (is_connected (mg s) (sid_from_eio (mg s) eio (ns_or_default pn)) (ns_or_default pn)));
    [reflexivity|].
  destruct (sid_from_eio (mg s) eio (ns_or_default pn)) as [sid|]; [|reflexivity].
  unfold bindM at 1. rewrite (trigger_event_pure _ _ _ _ s Hna).
  destruct (te_pure c (fst ea) (ns_or_default pn) (PStr sid :: snd ea)) as [e1 [[v|]|x]]; cbn [fst snd].
  - destruct id as [i|]; cbn [ack_effs ack_res].
    + rewrite send_packet_spec. reflexivity.
    + cbn [ret]. rewrite app_nil_r. reflexivity.
  - destruct id; cbn [ret]; rewrite app_nil_r; reflexivity.
  - reflexivity.
Qed.

(* the malformed-payload and not-connected cases hold for every configuration *)
Lemma handle_event_malformed c eio pn id data s x :
  split_event data = Err x -> handle_event c eio pn id data s = (s, [], Err x).
Proof. intro H. unfold handle_event. rewrite bindM_getS, H. reflexivity. Qed.

Lemma handle_event_not_connected c eio pn id data s ea :
  split_event data = Ok ea ->
  is_connected (mg s) (sid_from_eio (mg s) eio (ns_or_default pn)) (ns_or_default pn) = false ->
  handle_event c eio pn id data s = (s, [], Ok tt).
Proof.
  intros H Hc. unfold handle_event. rewrite bindM_getS, H, bindM_lift_ok, Hc. reflexivity.
Qed.

Lemma is_connected_some m o ns : is_connected m o ns = true -> exists sid, o = Some sid.
Proof. destruct o as [sid|]; [eauto|discriminate]. Qed.

(* he_pure only looks at the manager and at the liveness of the transport *)
Lemma he_pure_cong c eio pn id data s s1 :
  mg s1 = mg s -> live s1 = live s -> he_pure c eio pn id data s1 = he_pure c eio pn id data s.
Proof.
  intros Hm Hl. unfold he_pure, ack_effs, sp_effs, is_live. rewrite Hm, Hl. reflexivity.
Qed.

(* ------------------------------------------------------------------ *)
(* C05_event: the case analysis                                       *)
(* ------------------------------------------------------------------ *)
Section Event.
  Variables (c : cfg) (eio : str) (pn : option str) (id : option Z) (data : pv) (s : srv).
  Let ns := ns_or_default pn.

  Lemma event_unhandled ev args sid :
    has_actions c = false ->
    split_event data = Ok (ev, args) -> is_unhashable ev = false ->
    sid_from_eio (mg s) eio ns = Some sid -> is_connected (mg s) (Some sid) ns = true ->
    responsible c ev ns (PStr sid :: args) = None ->
    handle_event c eio pn id data s = (s, [], Ok tt).
  Proof.
    intros Hna Hs Hh Hsid Hc Hr. rewrite handle_event_pure by assumption.
    unfold he_pure. fold ns. rewrite Hs, Hsid, Hc. cbn [negb fst snd].
    rewrite te_pure_responsible, Hr by assumption. reflexivity.
  Qed.

  Lemma event_handled ev args sid h a b v :
    has_actions c = false ->
    split_event data = Ok (ev, args) -> is_unhashable ev = false -> is_disconnect ev = false ->
    sid_from_eio (mg s) eio ns = Some sid -> is_connected (mg s) (Some sid) ns = true ->
    responsible c ev ns (PStr sid :: args) = Some (Some h, a) ->
    aget N.eqb (behav c) h = Some b -> arity_bad b (List.length a) = false ->
    h_outcome b = Returns v ->
    handle_event c eio pn id data s = (s, Call h a :: ack_effs c s eio ns id v, ack_res c ns id v).
  Proof.
    intros Hna Hs Hh Hd Hsid Hc Hr Hb Har Ho. rewrite handle_event_pure by assumption.
    unfold he_pure. fold ns. rewrite Hs, Hsid, Hc. cbn [negb fst snd].
    rewrite te_pure_responsible, Hr, cwr_pure_plain by assumption.
    unfold ch_pure. rewrite Hb, Har, Ho. reflexivity.
  Qed.

  (* a responsible handler that does not return (raises, or does not fit the arguments):
     at most the one invocation, no acknowledgement *)
  Lemma event_handler_fails ev args sid h a :
    has_actions c = false ->
    split_event data = Ok (ev, args) -> is_unhashable ev = false -> is_disconnect ev = false ->
    sid_from_eio (mg s) eio ns = Some sid -> is_connected (mg s) (Some sid) ns = true ->
    responsible c ev ns (PStr sid :: args) = Some (Some h, a) ->
    (forall v, snd (ch_pure c h a) <> Ok v) ->
    exists x, handle_event c eio pn id data s = (s, fst (ch_pure c h a), Err x) /\
              (fst (ch_pure c h a) = [] \/ fst (ch_pure c h a) = [Call h a]).
  Proof.
    intros Hna Hs Hh Hd Hsid Hc Hr Hf. rewrite handle_event_pure by assumption.
    unfold he_pure. fold ns. rewrite Hs, Hsid, Hc. cbn [negb fst snd].
    rewrite te_pure_responsible, Hr, cwr_pure_plain by assumption.
    unfold some_res. revert Hf. unfold ch_pure.
    destruct (aget N.eqb (behav c) h) as [b|]; [|intros _; eexists; split; [reflexivity|left; reflexivity]].
    destruct (arity_bad b (List.length a)); [intros _; eexists; split; [reflexivity|left; reflexivity]|].
    cbn [fst snd]. destruct (outcome_res (h_outcome b)) as [v|x]; intro Hf.
    - exfalso. apply (Hf v). reflexivity.
    - eexists; split; [reflexivity|right; reflexivity].
  Qed.

  Lemma event_ns_no_method e args sid a :
    has_actions c = false ->
    split_event data = Ok (PStr e, args) ->
    sid_from_eio (mg s) eio ns = Some sid -> is_connected (mg s) (Some sid) ns = true ->
    responsible c (PStr e) ns (PStr sid :: args) = Some (None, a) ->
    handle_event c eio pn id data s = (s, ack_effs c s eio ns id PNone, ack_res c ns id PNone).
  Proof.
    intros Hna Hs Hsid Hc Hr. rewrite handle_event_pure by assumption.
    unfold he_pure. fold ns. rewrite Hs, Hsid, Hc. cbn [negb fst snd].
    rewrite te_pure_responsible, Hr by reflexivity. reflexivity.
  Qed.
End Event.

(* effects of a handler invocation: shape facts used for the "in every case" part *)
Lemma ch_pure_shape c h a :
  fst (ch_pure c h a) = [] \/ fst (ch_pure c h a) = [Call h a].
Proof.
  unfold ch_pure. destruct (aget N.eqb (behav c) h) as [b|]; [|left; reflexivity].
  destruct (arity_bad b (List.length a)); [left|right]; reflexivity.
Qed.
Lemma ch_pure_no_outs c h a : out_eios (fst (ch_pure c h a)) = [].
Proof. destruct (ch_pure_shape c h a) as [H|H]; rewrite H; reflexivity. Qed.
Lemma cwr_pure_no_outs c ev h a : out_eios (fst (cwr_pure c ev h a)) = [].
Proof.
  unfold cwr_pure. pose proof (ch_pure_no_outs c h a) as H1.
  destruct (ch_pure c h a) as [e1 [v|x]]; [exact H1|]. cbn [fst] in H1.
  destruct x; try exact H1. destruct (is_disconnect ev); [|exact H1].
  cbn [fst]. rewrite out_eios_app, H1. apply ch_pure_no_outs.
Qed.
Lemma te_pure_no_outs c ev ns args : out_eios (fst (te_pure c ev ns args)) = [].
Proof.
  unfold te_pure. destruct (unhash_guard c ev ns); [reflexivity|].
  destruct (get_event_handler c ev ns args) as [[h a]|]; [apply cwr_pure_no_outs|].
  destruct (get_namespace_handler c ns args) as [[methods a]|]; [|reflexivity].
  destruct ev; try reflexivity; try (match goal with |- context [truthy ?e] => destruct (truthy e) end; reflexivity).
  destruct (aget str_eqb methods s); [apply cwr_pure_no_outs|reflexivity].
Qed.

Lemma ack_effs_eios c s eio ns id v : forallb (str_eqb eio) (out_eios (ack_effs c s eio ns id v)) = true.
Proof. destruct id; [apply sp_effs_eios|reflexivity]. Qed.
Lemma ack_effs_calls c s eio ns id v : calls_of (ack_effs c s eio ns id v) = [].
Proof. destruct id; [apply sp_effs_calls|reflexivity]. Qed.

(* in every case: no Out to another transport, whole state unchanged *)
Lemma he_pure_only_sender c eio pn id data s :
  forallb (str_eqb eio) (out_eios (fst (he_pure c eio pn id data s))) = true.
Proof.
  unfold he_pure. destruct (split_event data) as [ea|x]; [|reflexivity].
  destruct (negb _); [reflexivity|].
  destruct (sid_from_eio (mg s) eio (ns_or_default pn)) as [sid|]; [|reflexivity].
  pose proof (te_pure_no_outs c (fst ea) (ns_or_default pn) (PStr sid :: snd ea)) as H.
  destruct (te_pure c (fst ea) (ns_or_default pn) (PStr sid :: snd ea)) as [e1 [[v|]|x]]; cbn [fst] in *.
  - rewrite out_eios_app, H. apply ack_effs_eios.
  - rewrite H. reflexivity.
  - rewrite H. reflexivity.
Qed.

Lemma event_state_unchanged c eio pn id data s :
  has_actions c = false ->
  fst (fst (handle_event c eio pn id data s)) = s /\
  forallb (str_eqb eio) (out_eios (snd (fst (handle_event c eio pn id data s)))) = true.
Proof.
  intro Hna. rewrite handle_event_pure by assumption. cbn [fst snd]. split; [reflexivity|].
  apply he_pure_only_sender.
Qed.

(* ------------------------------------------------------------------ *)
(* C05_pack                                                           *)
(* ------------------------------------------------------------------ *)
Lemma pack_cases :
  pack PNone = [] /\ (forall l, pack (PTuple l) = l) /\
  (forall x, x <> PNone -> (forall l, x <> PTuple l) -> pack x = [x]).
Proof.
  split; [reflexivity|]. split; [reflexivity|].
  intros x H1 H2. destruct x; try reflexivity; [congruence | exfalso; eapply H2; reflexivity].
Qed.

Lemma ack_binary_iff_bytes ub v ns i :
  ctor ub ACK (PList (pack v)) (Some ns) (Some i) None =
  Ok (mkPacket (PInt (if ub && has_bytes (PList (pack v)) then BINARY_ACK else ACK))
               (Some ns) (Some i) (PList (pack v))).
Proof. unfold ctor. destruct (ub && has_bytes (PList (pack v))); reflexivity. Qed.

(* ------------------------------------------------------------------ *)
(* one step carrying an event                                         *)
(* ------------------------------------------------------------------ *)
Lemma type_is_excl p t t' : type_is p t = true -> (t =? t')%Z = false -> type_is p t' = false.
Proof.
  unfold type_is. intros H1 H2.
  assert (Hi : as_int (ptype p) = Some t).
  { destruct (ptype p); cbn in H1; try discriminate.
    - apply Z.eqb_eq in H1. cbn. congruence.
    - apply Z.eqb_eq in H1. cbn. congruence. }
  destruct (ptype p); cbn in Hi; try discriminate; cbn.
  - inversion Hi as [Hi']. rewrite Hi'. exact H2.
  - inversion Hi; subst. exact H2.
Qed.

Lemma step_event_effs c s eio payload tbl pn id data :
  has_actions c = false -> is_live s eio = true ->
  event_of c s eio payload tbl = Some (pn, id, data) ->
  snd (step c s (EioMessage eio payload tbl)) = fst (he_pure c eio pn id data s) /\
  mg (fst (step c s (EioMessage eio payload tbl))) = mg s.
Proof.
  intros Hna Hl He. unfold step, step_m. rewrite bindM_getS. unfold is_live in Hl. rewrite Hl.
  unfold contain, handle_eio_message. rewrite bindM_getS.
  unfold event_of in He.
  destruct (aget str_eqb (binpkt s) eio) as [r|].
  - destruct (add_attachment r payload) as [[r' [|]]|x]; try discriminate.
    destruct (type_is (rp r') BINARY_EVENT); [|discriminate].
    inversion He; subst; clear He.
    unfold set_binpkt. rewrite bindM_modify.
    rewrite handle_event_pure by assumption. cbn [fst snd mg].
    split; [|reflexivity]. f_equal.
  - destruct (decode_any c (table_loads tbl) payload) as [r|x]; [|discriminate].
    destruct (type_is (rp r) EVENT) eqn:Ht; [|discriminate].
    inversion He; subst; clear He.
    rewrite bindM_lift_ok.
    rewrite (type_is_excl _ _ CONNECT Ht), (type_is_excl _ _ DISCONNECT Ht), Ht by reflexivity.
    rewrite handle_event_pure by assumption. cbn [fst snd]. split; reflexivity.
Qed.

(* ------------------------------------------------------------------ *)
(* the model's own run passes the C05 checker                          *)
(* ------------------------------------------------------------------ *)
Lemma calls_eqb_refl l : calls_eqb l l = true.
Proof.
  unfold calls_eqb. apply list_eqb_eq; [|reflexivity].
  intros [h a] [h' a']. unfold pair_eqb. cbn [fst snd]. split.
  - intro H. apply andb_true_iff in H as [H1 H2]. apply N.eqb_eq in H1.
    apply (list_eqb_eq pv_eqb pv_eqb_eq) in H2. congruence.
  - intro H. inversion H; subst. rewrite N.eqb_refl. apply (list_eqb_eq pv_eqb pv_eqb_eq). reflexivity.
Qed.
Lemma pvlist_eqb_refl l : list_eqb pv_eqb l l = true.
Proof. apply (list_eqb_eq pv_eqb pv_eqb_eq). reflexivity. Qed.

Theorem model_passes_c05_step c s o :
  has_actions c = false -> c05_step c s o (snd (step c s o)) = true.
Proof.
  intro Hna. destruct o as [eio env|eio payload tbl| | | | | | | | | |]; try reflexivity.
  unfold c05_step. rewrite Hna, orb_false_r.
  destruct (existsb (str_eqb eio) (live s)) eqn:Hl; [cbn [negb]|reflexivity].
  destruct (event_of c s eio payload tbl) as [[[pn id] data]|] eqn:He; [|reflexivity].
  destruct (step_event_effs c s eio payload tbl pn id data Hna Hl He) as [Heff _].
  rewrite Heff. clear Heff He.
  unfold he_pure.
  destruct (split_event data) as [[ev args]|x]; [|reflexivity].
  destruct (reserved ev || is_unhashable ev) eqn:Hru; [reflexivity|].
  apply orb_false_iff in Hru as [Hres Hunh].
  cbn [fst snd].
  set (ns := ns_or_default pn).
  destruct (is_connected (mg s) (sid_from_eio (mg s) eio ns) ns) eqn:Hc; [|reflexivity].
  cbn [negb].
  destruct (sid_from_eio (mg s) eio ns) as [sid|]; [|reflexivity].
  rewrite te_pure_responsible by assumption.
  destruct (responsible c ev ns (PStr sid :: args)) as [[[h|] a]|]; [| |reflexivity].
  - (* a handler is responsible *)
    rewrite cwr_pure_plain by (apply reserved_not_disconnect; assumption).
    unfold ch_pure, arity_ok, outcome_of, arity_bad, some_res.
    destruct (aget N.eqb (behav c) h) as [b|]; [|cbn [fst snd]; destruct id; reflexivity].
    destruct (h_arity b) as [k|].
    + destruct (Nat.eqb k (List.length a)); cbn [negb fst snd]; [|destruct id; reflexivity].
      destruct (h_outcome b) as [v|ra|x]; cbn [outcome_res fst snd].
      * rewrite calls_of_app, ack_effs_calls, out_eios_app, outs_of_app. cbn [calls_of flat_map app out_eios outs_of].
        rewrite calls_eqb_refl, ack_effs_eios. cbn [andb].
        destruct id as [i|]; cbn [ack_effs]; [|reflexivity].
        rewrite sp_effs_outs. unfold is_live. rewrite Hl.
        destruct (frames_of c ACK (PList (pack v)) ns (Some i)); [apply pvlist_eqb_refl|reflexivity].
      * cbn [calls_of flat_map app]; rewrite calls_eqb_refl; destruct id; reflexivity.
      * cbn [calls_of flat_map app]; rewrite calls_eqb_refl; destruct id; reflexivity.
    + cbn [negb fst snd].
      destruct (h_outcome b) as [v|ra|x]; cbn [outcome_res fst snd].
      * rewrite calls_of_app, ack_effs_calls, out_eios_app, outs_of_app. cbn [calls_of flat_map app out_eios outs_of].
        rewrite calls_eqb_refl, ack_effs_eios. cbn [andb].
        destruct id as [i|]; cbn [ack_effs]; [|reflexivity].
        rewrite sp_effs_outs. unfold is_live. rewrite Hl.
        destruct (frames_of c ACK (PList (pack v)) ns (Some i)); [apply pvlist_eqb_refl|reflexivity].
      * cbn [calls_of flat_map app]; rewrite calls_eqb_refl; destruct id; reflexivity.
      * cbn [calls_of flat_map app]; rewrite calls_eqb_refl; destruct id; reflexivity.
  - (* class-based namespace without the method *)
    unfold unhandled_method.
    assert (Hack : forall v,
      calls_eqb (calls_of ([] ++ ack_effs c s eio ns id v)) [] &&
      forallb (str_eqb eio) (out_eios ([] ++ ack_effs c s eio ns id v)) &&
      match id with
      | Some i => match frames_of c ACK (PList (pack v)) ns (Some i) with
                  | Ok fr => list_eqb pv_eqb (outs_of eio ([] ++ ack_effs c s eio ns id v)) fr
                  | Err _ => true end
      | None => match outs_of eio ([] ++ ack_effs c s eio ns id v) with [] => true | _ => false end
      end = true).
    { intro v. cbn [app]. rewrite ack_effs_calls, ack_effs_eios. cbn [calls_eqb list_eqb andb].
      destruct id as [i|]; cbn [ack_effs]; [|reflexivity].
      rewrite sp_effs_outs. unfold is_live. rewrite Hl.
      destruct (frames_of c ACK (PList (pack v)) ns (Some i)); [apply pvlist_eqb_refl|reflexivity]. }
    destruct ev; try discriminate Hunh; cbn [truthy fst snd];
      repeat match goal with |- context [if ?b then _ else _] => match type of b with bool => destruct b end end; cbn [fst snd];
      first [exact (Hack PNone) | destruct id; reflexivity].
Qed.

(* ------------------------------------------------------------------ *)
(* C05_order                                                          *)
(* ------------------------------------------------------------------ *)
(* the invocation the specification expects for one event *)
Definition spec_calls (c : cfg) (s : srv) (eio : str) (pn : option str) (data : pv) : list (N * list pv) :=
  let ns := ns_or_default pn in
  match split_event data with
  | Err _ => []
  | Ok (ev, args) =>
      let osid := sid_from_eio (mg s) eio ns in
      match (if is_connected (mg s) osid ns then osid else None) with
      | None => []
      | Some sid =>
          match responsible c ev ns (PStr sid :: args) with
          | Some (Some h, a) => if arity_ok c h (List.length a) then [(h, a)] else []
          | _ => []
          end
      end
  end.
Definition in_domain (data : pv) : bool :=
  match split_event data with
  | Ok (ev, _) => negb (reserved ev || is_unhashable ev)
  | Err _ => true
  end.

Lemma he_pure_calls c eio pn id data s :
  in_domain data = true ->
  calls_of (fst (he_pure c eio pn id data s)) = spec_calls c s eio pn data.
Proof.
  unfold in_domain, he_pure, spec_calls.
  destruct (split_event data) as [[ev args]|x]; [|reflexivity].
  intro Hd. apply negb_true_iff, orb_false_iff in Hd as [Hres Hunh]. cbn [fst snd].
  set (ns := ns_or_default pn).
  destruct (is_connected (mg s) (sid_from_eio (mg s) eio ns) ns); [|reflexivity]. cbn [negb].
  destruct (sid_from_eio (mg s) eio ns) as [sid|]; [|reflexivity].
  rewrite te_pure_responsible by assumption.
  destruct (responsible c ev ns (PStr sid :: args)) as [[[h|] a]|]; [| |reflexivity].
  - rewrite cwr_pure_plain by (apply reserved_not_disconnect; assumption).
    unfold ch_pure, arity_ok, arity_bad, some_res.
    destruct (aget N.eqb (behav c) h) as [b|]; [|reflexivity].
    destruct (h_arity b) as [k|].
    + destruct (Nat.eqb k (List.length a)); cbn [negb fst snd]; [|reflexivity].
      destruct (outcome_res (h_outcome b)) as [v|x]; cbn [fst]; [|reflexivity].
      rewrite calls_of_app, ack_effs_calls. reflexivity.
    + cbn [fst snd]. destruct (outcome_res (h_outcome b)) as [v|x]; cbn [fst]; [|reflexivity].
      rewrite calls_of_app, ack_effs_calls. reflexivity.
  - unfold unhandled_method.
    destruct ev; try discriminate Hunh; cbn [truthy fst snd];
      repeat match goal with |- context [if ?b then _ else _] =>
                               match type of b with bool => destruct b end end; cbn [fst snd app];
      try reflexivity; apply ack_effs_calls.
Qed.

(* messages that carry no complete packet: a binary header, or a non-final attachment *)
Definition quiet_msg (c : cfg) (s : srv) (eio : str) (payload : pv) (tbl : jtable) : bool :=
  match aget str_eqb (binpkt s) eio with
  | Some r => match add_attachment r payload with Ok (_, false) => true | _ => false end
  | None => match decode_any c (table_loads tbl) payload with
            | Ok r => type_is (rp r) BINARY_EVENT || type_is (rp r) BINARY_ACK
            | Err _ => false end
  end.

Lemma step_quiet c s eio payload tbl :
  quiet_msg c s eio payload tbl = true ->
  snd (step c s (EioMessage eio payload tbl)) = [] /\
  mg (fst (step c s (EioMessage eio payload tbl))) = mg s.
Proof.
  intro Hq. unfold step, step_m. rewrite bindM_getS.
  destruct (existsb (str_eqb eio) (live s)); [|split; reflexivity].
  unfold contain, handle_eio_message. rewrite bindM_getS. unfold quiet_msg in Hq.
  destruct (aget str_eqb (binpkt s) eio) as [r|].
  - destruct (add_attachment r payload) as [[r' [|]]|x]; try discriminate. split; reflexivity.
  - destruct (decode_any c (table_loads tbl) payload) as [r|x]; [|discriminate].
    rewrite bindM_lift_ok.
    assert (H4 : type_is (rp r) CONNECT = false /\ type_is (rp r) DISCONNECT = false /\
                 type_is (rp r) EVENT = false /\ type_is (rp r) ACK = false).
    { apply orb_true_iff in Hq as [Ht|Ht];
        repeat split; apply (type_is_excl _ _ _ Ht); reflexivity. }
    destruct H4 as (H0 & H1 & H2 & H3). rewrite H0, H1, H2, H3, Hq. split; reflexivity.
Qed.

(* a stream of events (text, or binary with their attachments) from any number of transports *)
Definition event_or_quiet (c : cfg) (s : srv) (o : op) : bool :=
  match o with
  | EioMessage eio payload tbl =>
      is_live s eio &&
      match event_of c s eio payload tbl with
      | Some (_, _, data) => in_domain data
      | None => quiet_msg c s eio payload tbl
      end
  | _ => false
  end.
Fixpoint event_stream (c : cfg) (s : srv) (ops : list op) : bool :=
  match ops with
  | [] => true
  | o :: r => event_or_quiet c s o && event_stream c (fst (step c s o)) r
  end.
Definition expected_call (c : cfg) (s : srv) (o : op) : list (N * list pv) :=
  match o with
  | EioMessage eio payload tbl =>
      match event_of c s eio payload tbl with
      | Some (pn, _, data) => spec_calls c s eio pn data
      | None => []
      end
  | _ => []
  end.
Fixpoint expected_calls (c : cfg) (s : srv) (ops : list op) : list (N * list pv) :=
  match ops with
  | [] => []
  | o :: r => expected_call c s o ++ expected_calls c (fst (step c s o)) r
  end.

Lemma step_event_or_quiet c s o :
  has_actions c = false -> event_or_quiet c s o = true ->
  calls_of (snd (step c s o)) = expected_call c s o /\ mg (fst (step c s o)) = mg s /\
  (List.length (calls_of (snd (step c s o))) <= 1)%nat.
Proof.
  intros Hna H. destruct o as [|eio payload tbl| | | | | | | | | |]; try discriminate.
  cbn [event_or_quiet expected_call] in *. apply andb_true_iff in H as [Hl H].
  destruct (event_of c s eio payload tbl) as [[[pn id] data]|] eqn:He.
  - destruct (step_event_effs c s eio payload tbl pn id data Hna Hl He) as [Heff Hm].
    rewrite Heff, he_pure_calls by assumption. split; [reflexivity|]. split; [exact Hm|].
    unfold spec_calls. destruct (split_event data) as [[ev args]|]; [|cbn; lia].
    destruct (if is_connected _ _ _ then _ else None); [|cbn; lia].
    destruct (responsible c ev _ _) as [[[h|] a]|]; try (cbn; lia).
    destruct (arity_ok c h _); cbn; lia.
  - destruct (step_quiet c s eio payload tbl H) as [Heff Hm]. rewrite Heff.
    split; [reflexivity|]. split; [exact Hm|]. cbn; lia.
Qed.

Lemma run_cons c s o r :
  run c s (o :: r) = (fst (run c (fst (step c s o)) r), snd (step c s o) :: snd (run c (fst (step c s o)) r)).
Proof.
  cbn [run]. destruct (step c s o) as [s1 e]. cbn [fst snd].
  destruct (run c s1 r) as [s2 es]. reflexivity.
Qed.

Theorem order_of_calls c :
  has_actions c = false ->
  forall ops s, event_stream c s ops = true ->
    calls_of (List.concat (snd (run c s ops))) = expected_calls c s ops /\
    mg (fst (run c s ops)) = mg s.
Proof.
  intro Hna. induction ops as [|o r IH]; intros s Hs; [split; reflexivity|].
  cbn [event_stream] in Hs. apply andb_true_iff in Hs as [Ho Hr].
  rewrite run_cons. cbn [fst snd List.concat expected_calls].
  destruct (step_event_or_quiet c s o Hna Ho) as (Hc & Hm & _).
  destruct (IH _ Hr) as [IH1 IH2].
  rewrite calls_of_app, Hc, IH1, IH2. split; [reflexivity|exact Hm].
Qed.

(* ------------------------------------------------------------------ *)
(* summary statements                                                 *)
(* ------------------------------------------------------------------ *)
Theorem event_cases c eio pn id data s :
  has_actions c = false ->
  let ns := ns_or_default pn in
  let run := handle_event c eio pn id data s in
  (* data[0] / data[1:] fail: raised before anything else happens *)
  (forall x, split_event data = Err x -> run = (s, [], Err x)) /\
  (forall ev args, split_event data = Ok (ev, args) ->
     (* transport not connected to the namespace (or its disconnect is in progress) *)
     (is_connected (mg s) (sid_from_eio (mg s) eio ns) ns = false -> run = (s, [], Ok tt)) /\
     (forall sid, sid_from_eio (mg s) eio ns = Some sid -> is_connected (mg s) (Some sid) ns = true ->
        is_unhashable ev = false ->
        (* nobody responsible: dropped, not acknowledged *)
        (responsible c ev ns (PStr sid :: args) = None -> run = (s, [], Ok tt)) /\
        (* a handler is responsible, fits and returns v *)
        (forall h a b v,
            responsible c ev ns (PStr sid :: args) = Some (Some h, a) -> is_disconnect ev = false ->
            aget N.eqb (behav c) h = Some b -> arity_bad b (List.length a) = false ->
            h_outcome b = Returns v ->
            run = (s, Call h a :: ack_effs c s eio ns id v, ack_res c ns id v)) /\
        (* class-based namespace without the method: no Call, empty ACK *)
        (forall e a, ev = PStr e -> responsible c ev ns (PStr sid :: args) = Some (None, a) ->
            run = (s, ack_effs c s eio ns id PNone, ack_res c ns id PNone)))) /\
  (* in every case: state unchanged, nothing addressed to another transport *)
  fst (fst run) = s /\ forallb (str_eqb eio) (out_eios (snd (fst run))) = true.
Proof.
  intros Hna ns run. subst run. split; [|split].
  - intros x Hx. apply handle_event_malformed; assumption.
  - intros ev args Hs. split.
    + intro Hc. eapply handle_event_not_connected; eassumption.
    + intros sid Hsid Hc Hunh. split; [|split].
      * intro Hr. eapply event_unhandled; eassumption.
      * intros h a b v Hr Hd Hb Har Ho. eapply event_handled; eassumption.
      * intros e a -> Hr. eapply event_ns_no_method; eassumption.
  - apply event_state_unchanged; assumption.
Qed.

(* the acknowledgement, spelled out *)
Lemma ack_effs_spelled c s eio ns v :
  ack_effs c s eio ns None v = [] /\
  (forall i fr, frames_of c ACK (PList (pack v)) ns (Some i) = Ok fr ->
     ack_effs c s eio ns (Some i) v = (if is_live s eio then map (Out eio) fr else []) /\
     ack_res c ns (Some i) v = Ok tt).
Proof.
  split; [reflexivity|]. intros i fr H. unfold ack_effs, ack_res, sp_effs, sp_res. rewrite H. split; reflexivity.
Qed.

(* the checker applied to the implementation accepts every run of the model *)
Theorem model_passes_c05_all c :
  has_actions c = false -> forall ops s, all_steps (c05_step c) c s ops (snd (run c s ops)) = true.
Proof.
  intro Hna. induction ops as [|o r IH]; intro s; [reflexivity|].
  rewrite run_cons. cbn [snd all_steps]. rewrite model_passes_c05_step by assumption. apply IH.
Qed.

(* ------------------------------------------------------------------ *)
(* Examples (non-vacuity): function handler, catch-all, class-based    *)
(* namespace, on a reachable state with two transports                 *)
(* ------------------------------------------------------------------ *)
Module EvEx.
  Import Ex.
  Open Scope string_scope.
  Definition msg5 := PList [PStr (s2l "msg"); PInt 5].
  Definition other := PList [PStr (s2l "other"); PInt 1].
  Definition text (f : string) (js : string) (v : pv) := (PStr (s2l f), [(s2l js, Ok v)]).

  (* the reachable state is what the comments say *)
  Example state_ok :
    sid_from_eio (mg s0) e1 slash = Some (sid_name 0) /\ sid_from_eio (mg s0) e1 chat = Some (sid_name 2) /\
    sid_from_eio (mg s0) e2 slash = Some (sid_name 1) /\ sid_from_eio (mg s0) e2 plain = Some (sid_name 3) /\
    sid_from_eio (mg s0) e2 chat = None /\ has_actions c = false /\ is_live s0 e1 = true.
  Proof. vm_compute. repeat split. Qed.

  (* event_handled: function handler, tuple with bytes => binary ACK with id 1 to e1 only *)
  Example event_handled_ex :
    responsible c (PStr (s2l "msg")) slash [S 0; PInt 5] = Some (Some 3, [S 0; PInt 5]) /\
    handle_event c e1 None (Some 1%Z) msg5 s0 =
    (s0, [Call 3 [S 0; PInt 5];
          Out e1 (PStr (s2l "61-1[1,{""_placeholder"":true,""num"":0}]")); Out e1 (PBytes [1; 2])], Ok tt) /\
    handle_event c e1 None None msg5 s0 = (s0, [Call 3 [S 0; PInt 5]], Ok tt).
  Proof. vm_compute. repeat split. Qed.

  (* catch-all handler of "/": receives the event name first *)
  Example event_catch_all_ex :
    responsible c (PStr (s2l "other")) slash [S 1; PInt 1] = Some (Some 4, [PStr (s2l "other"); S 1; PInt 1]) /\
    handle_event c e2 None (Some 0%Z) other s0 =
    (s0, [Call 4 [PStr (s2l "other"); S 1; PInt 1]; Out e2 (PStr (s2l "30[""any""]"))], Ok tt).
  Proof. vm_compute. repeat split. Qed.

  (* class-based namespace: method present / absent *)
  Example event_ns_ex :
    handle_event c e1 (Some chat) (Some 4%Z) (PList [PStr (s2l "hello")]) s0 =
    (s0, [Call 7 [S 2]; Out e1 (PStr (s2l "3/chat,4[[7]]"))], Ok tt) /\
    responsible c (PStr (s2l "nomethod")) chat [S 2] = Some (None, [S 2]) /\
    handle_event c e1 (Some chat) (Some 4%Z) (PList [PStr (s2l "nomethod")]) s0 =
    (s0, [Out e1 (PStr (s2l "3/chat,4[]"))], Ok tt).
  Proof. vm_compute. repeat split. Qed.

  (* nobody responsible ("/plain" has no handler at all), not connected, malformed *)
  Example event_unhandled_ex :
    responsible c (PStr (s2l "msg")) plain [S 3; PInt 5] = None /\
    handle_event c e2 (Some plain) (Some 1%Z) msg5 s0 = (s0, [], Ok tt) /\
    handle_event c e2 (Some chat) (Some 1%Z) msg5 s0 = (s0, [], Ok tt) /\
    handle_event c e1 None (Some 1%Z) (PList []) s0 = (s0, [], Err IndexError) /\
    handle_event c e1 None (Some 1%Z) (PInt 3) s0 = (s0, [], Err TypeError).
  Proof. vm_compute. repeat split. Qed.

  Definition m_msg := EioMessage e1 (PStr (s2l "21[""msg"",5]")) [(s2l "[""msg"",5]", Ok msg5)].
  Definition m_other := EioMessage e2 (PStr (s2l "2[""other"",1]")) [(s2l "[""other"",1]", Ok other)].
  Definition m_bin_head :=
    EioMessage e1 (PStr (s2l "51-/chat,9[""blob"",{""_placeholder"":true,""num"":0}]"))
               [(s2l "[""blob"",{""_placeholder"":true,""num"":0}]",
                 Ok (PList [PStr (s2l "blob"); PDict [(k_placeholder, PBool true); (k_num, PInt 0)]]))].
  Definition m_bin_att := EioMessage e1 (PBytes [9%N]) [].

  (* the checker is not vacuous on this step: it sees an event, a call and an ACK *)
  Example model_passes_c05_step_ex :
    event_of c s0 e1 (PStr (s2l "21[""msg"",5]")) [(s2l "[""msg"",5]", Ok msg5)] = Some (None, Some 1%Z, msg5) /\
    c05_step c s0 m_msg (snd (step c s0 m_msg)) = true /\
    c05_step c s0 m_msg [Call 3 [S 0; PInt 5]] = false /\
    c05_step c s0 m_msg (snd (step c s0 m_msg) ++ [Out e2 (PStr (s2l "31[]"))]) = false.
  Proof. vm_compute. repeat split. Qed.

  (* order: two transports, a text event each and a binary event in two messages *)
  Example order_of_calls_ex :
    let ops := [m_msg; m_bin_head; m_other; m_bin_att; m_msg] in
    event_stream c s0 ops = true /\
    expected_calls c s0 ops =
      [(3%N, [S 0; PInt 5]); (4%N, [PStr (s2l "other"); S 1; PInt 1]); (8%N, [S 2; PBytes [9%N]]); (3%N, [S 0; PInt 5])] /\
    calls_of (List.concat (snd (run c s0 ops))) = expected_calls c s0 ops.
  Proof. vm_compute. repeat split. Qed.

  (* the msgpack serializer: the frame is the packet dictionary *)
  Definition cM := mkCfg (handlers c) (ns_handlers c) (behav c) (namespaces c) false false.
  Example event_msgpack_ex :
    handle_event cM e2 None (Some 0%Z) other s0 =
    (s0, [Call 4 [PStr (s2l "other"); S 1; PInt 1];
          Out e2 (PDict [(PStr (s2l "type"), PInt 3); (PStr (s2l "data"), PList [PStr (s2l "any")]);
                         (PStr (s2l "nsp"), PStr slash); (PStr (s2l "id"), PInt 0)])], Ok tt).
  Proof. vm_compute. reflexivity. Qed.
End EvEx.
